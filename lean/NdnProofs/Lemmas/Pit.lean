import NdnProofs.Lemmas.PitSpec
/-!
Helper lemmas for C03 / C05: the invariant `Inv` relating trie, node heap and per-Interest states,
its preservation by every operation of the model, and the effect of every operation on the
per-Interest states (refinement to the specification automaton of `PitSpec`).
-/
namespace Ndn.Pit

/-! ### association lists -/

theorem mem_of_lookup {tr : List (Name × Nat)} {n : Name} {v : Nat} (h : tr.lookup n = some v) :
    (n, v) ∈ tr := by
  induction tr with
  | nil => simp at h
  | cons b r ih =>
    obtain ⟨k, w⟩ := b
    by_cases hk : n = k
    · subst hk; simp [List.lookup] at h; simp [h]
    · have : (n == k) = false := by simpa using hk
      simp [List.lookup, this] at h
      exact List.mem_cons_of_mem _ (ih h)

theorem lookup_of_mem {tr : List (Name × Nat)} {n : Name} {v : Nat} (hn : (tr.map Prod.fst).Nodup)
    (h : (n, v) ∈ tr) : tr.lookup n = some v := by
  induction tr with
  | nil => simp at h
  | cons b r ih =>
    obtain ⟨k, w⟩ := b
    simp only [List.map_cons, List.nodup_cons, List.mem_map, not_exists, not_and] at hn
    by_cases hk : n = k
    · subst hk
      rcases List.mem_cons.mp h with h | h
      · cases h; simp [List.lookup]
      · exact absurd rfl (hn.1 (n, v) h)
    · have : (n == k) = false := by simpa using hk
      rcases List.mem_cons.mp h with h | h
      · cases h; exact absurd rfl hk
      · simp [List.lookup, this]; exact ih hn.2 h

theorem lookup_none_iff {tr : List (Name × Nat)} {n : Name} :
    tr.lookup n = none ↔ n ∉ tr.map Prod.fst := by
  induction tr with
  | nil => simp
  | cons b r ih =>
    obtain ⟨k, w⟩ := b
    by_cases hk : n = k
    · subst hk; simp [List.lookup]
    · have : (n == k) = false := by simpa using hk
      simp [List.lookup, this, ih, hk]

theorem snd_inj_of_nodup {tr : List (Name × Nat)} (hn : (tr.map Prod.snd).Nodup) {a b : Name × Nat}
    (ha : a ∈ tr) (hb : b ∈ tr) (h : a.2 = b.2) : a = b := by
  induction tr with
  | nil => simp at ha
  | cons c r ih =>
    simp only [List.map_cons, List.nodup_cons, List.mem_map, not_exists, not_and] at hn
    rcases List.mem_cons.mp ha with ha | ha
    · rcases List.mem_cons.mp hb with hb | hb
      · rw [ha, hb]
      · exact absurd (by rw [← ha]; exact h.symm) (hn.1 b hb)
    · rcases List.mem_cons.mp hb with hb | hb
      · exact absurd (by rw [← hb]; exact h) (hn.1 a ha)
      · exact ih hn.2 ha hb

theorem fst_inj_of_nodup {tr : List (Name × Nat)} (hn : (tr.map Prod.fst).Nodup) {a b : Name × Nat}
    (ha : a ∈ tr) (hb : b ∈ tr) (h : a.1 = b.1) : a = b := by
  induction tr with
  | nil => simp at ha
  | cons c r ih =>
    simp only [List.map_cons, List.nodup_cons, List.mem_map, not_exists, not_and] at hn
    rcases List.mem_cons.mp ha with ha | ha
    · rcases List.mem_cons.mp hb with hb | hb
      · rw [ha, hb]
      · exact absurd (by rw [← ha]; exact h.symm) (hn.1 b hb)
    · rcases List.mem_cons.mp hb with hb | hb
      · exact absurd (by rw [← hb]; exact h) (hn.1 a ha)
      · exact ih hn.2 ha hb

theorem nodup_map_filter {α β} (f : α → β) (p : α → Bool) {l : List α} (h : (l.map f).Nodup) :
    ((l.filter p).map f).Nodup :=
  List.Nodup.sublist (List.Sublist.map f List.filter_sublist) h

/-! ### node heap -/

theorem pend_def (σ : State) (n : Nat) : pend σ n = σ.heap.getD n [] := rfl

theorem getD_set {l : List (List Nat)} {i j : Nat} {a : List Nat} :
    (l.set i a).getD j [] = if i = j ∧ i < l.length then a else l.getD j [] := by
  simp only [List.getD_eq_getElem?_getD, List.getElem?_set]
  by_cases h : i = j
  · subst h
    by_cases h2 : i < l.length
    · simp [h2]
    · simp [h2]
  · simp [h]

theorem lt_of_getD_ne_nil {l : List (List Nat)} {i : Nat} (h : l.getD i [] ≠ []) : i < l.length := by
  rcases Nat.lt_or_ge i l.length with h1 | h1
  · exact h1
  · exfalso; apply h; simp [List.getD_eq_getElem?_getD, List.getElem?_eq_none h1]

/-! ### the invariant -/

structure Inv (σ : State) : Prop where
  len : σ.sts.length = σ.ints.length
  names : (σ.trie.map Prod.fst).Nodup
  ids : (σ.trie.map Prod.snd).Nodup
  /-- every entry of a linked node is a waiting Interest that captured this node under this name -/
  linked : ∀ b ∈ σ.trie, ∀ e ∈ pend σ b.2, ∃ I, σ.ints[e]? = some I ∧ σ.sts[e]? = some .waiting ∧
    I.node = b.2 ∧ I.name = b.1
  nonempty : ∀ b ∈ σ.trie, pend σ b.2 ≠ []
  /-- every waiting Interest has its entry in the node it captured, which is linked under its name -/
  waiting : ∀ i I, σ.ints[i]? = some I → σ.sts[i]? = some .waiting →
    (I.name, I.node) ∈ σ.trie ∧ i ∈ pend σ I.node

theorem inv_init : Inv init := by
  constructor <;> simp [init, pend]

theorem Inv.idx_lt {σ : State} (h : Inv σ) {i : Nat} {I : Interest} (hi : σ.ints[i]? = some I) :
    i < σ.sts.length := by
  rw [h.len]; exact (List.getElem?_eq_some_iff.mp hi).1

theorem Inv.lookup {σ : State} (h : Inv σ) {b : Name × Nat} (hb : b ∈ σ.trie) :
    trieGet σ.trie b.1 = some b.2 := lookup_of_mem h.names hb

/-- an Interest that is not waiting has no entry in any linked node -/
theorem Inv.not_mem_of_not_waiting {σ : State} (h : Inv σ) {i : Nat}
    (hs : σ.sts[i]? ≠ some .waiting) {b : Name × Nat} (hb : b ∈ σ.trie) : i ∉ pend σ b.2 := by
  intro hm
  obtain ⟨I, _, hw, _⟩ := h.linked b hb i hm
  exact hs hw

/-! ### `_remove_pending` after the Interest finished (timeout / cancellation) -/

theorem removePending_fields (σ : State) (i : Nat) (I : Interest) :
    (removePending σ i I).ints = σ.ints ∧ (removePending σ i I).sts = σ.sts ∧
    (removePending σ i I).clock = σ.clock ∧ (removePending σ i I).vcalls = σ.vcalls ∧
    (removePending σ i I).heap = σ.heap.set I.node ((pend σ I.node).filter (· != i)) := by
  unfold removePending delName
  simp only
  split
  · split <;> simp
  · simp

theorem removePending_trie (σ : State) (i : Nat) (I : Interest) :
    ((removePending σ i I).trie = σ.trie ∧ (removePending σ i I).errs = σ.errs ∧
      ¬ ((pend σ I.node).filter (· != i) = [] ∧ trieGet σ.trie I.name = some I.node)) ∨
    ((removePending σ i I).trie = σ.trie.filter (fun b => b.1 != I.name) ∧ (removePending σ i I).errs = σ.errs ∧
      (pend σ I.node).filter (· != i) = [] ∧ trieGet σ.trie I.name = some I.node) := by
  unfold removePending delName trieDel
  simp only
  by_cases h1 : (pend σ I.node).filter (· != i) = []
  · by_cases h2 : trieGet σ.trie I.name = some I.node
    · right
      have : (List.lookup I.name σ.trie).isSome = true := by
        unfold trieGet at h2; simp [h2]
      simp [h1, h2, this]
    · left
      have : (trieGet σ.trie I.name == some I.node) = false := by simpa using h2
      simp [h1, this, h2]
  · left
    have : ((pend σ I.node).filter (· != i)).isEmpty = false := by simpa using h1
    simp [this, h1]

theorem removePending_errs (σ : State) (i : Nat) (I : Interest) : (removePending σ i I).errs = σ.errs := by
  rcases removePending_trie σ i I with h | h <;> exact h.2.1

theorem pend_removePending (σ : State) (i : Nat) (I : Interest) (n : Nat) :
    pend (removePending σ i I) n =
      if I.node = n ∧ I.node < σ.heap.length then (pend σ I.node).filter (· != i) else pend σ n := by
  rw [pend_def, (removePending_fields σ i I).2.2.2.2, getD_set]; rfl

theorem mem_trie_removePending {σ : State} {i : Nat} {I : Interest} {b : Name × Nat}
    (h : b ∈ (removePending σ i I).trie) : b ∈ σ.trie := by
  rcases removePending_trie σ i I with h1 | h1
  · rw [h1.1] at h; exact h
  · rw [h1.1] at h; exact (List.mem_filter.mp h).1

/-- Interest `i` stops waiting (whatever its state was; new state `s0`) and `_remove_pending` runs: the invariant
    is kept. -/
theorem inv_finish_remove {σ : State} (h : Inv σ) {i : Nat} {I : Interest} (hi : σ.ints[i]? = some I)
    (s0 : IState) (hs0 : s0 ≠ .waiting) : Inv (removePending (setSt σ i s0) i I) := by
  have hlt := h.idx_lt hi
  obtain ⟨σ1, hσ1⟩ : ∃ s, s = setSt σ i s0 := ⟨_, rfl⟩
  rw [← hσ1]
  have hs1 : σ1.sts = σ.sts.set i s0 := by rw [hσ1]; rfl
  have hp1 : ∀ n, pend σ1 n = pend σ n := fun _ => by rw [hσ1]; rfl
  have ht1 : σ1.trie = σ.trie := by rw [hσ1]; rfl
  have hi1 : σ1.ints = σ.ints := by rw [hσ1]; rfl
  have hh1 : σ1.heap = σ.heap := by rw [hσ1]; rfl
  clear hσ1
  obtain ⟨fi, fs, _, _, _⟩ := removePending_fields σ1 i I
  have hpend := pend_removePending σ1 i I
  have hsts : ∀ j, j ≠ i → (removePending σ1 i I).sts[j]? = σ.sts[j]? := by
    intro j hj; rw [fs, hs1, List.getElem?_set]; simp [Ne.symm hj]
  have hstsi : (removePending σ1 i I).sts[i]? = some s0 := by
    rw [fs, hs1, List.getElem?_set]; simp [hlt]
  -- the element `e` of a linked node other than `i`
  have key : ∀ b ∈ σ.trie, ∀ e ∈ pend σ b.2, b.2 ≠ I.node → e ≠ i := by
    intro b hb e he hne hei
    obtain ⟨I', h1, _, h3, _⟩ := h.linked b hb e he
    rw [hei, hi] at h1; cases h1; exact hne h3.symm
  refine ⟨?_, ?_, ?_, ?_, ?_, ?_⟩
  · rw [fs, fi, hs1, hi1, List.length_set]; exact h.len
  · rcases removePending_trie σ1 i I with h1 | h1
    · rw [h1.1, ht1]; exact h.names
    · rw [h1.1, ht1]; exact nodup_map_filter _ _ h.names
  · rcases removePending_trie σ1 i I with h1 | h1
    · rw [h1.1, ht1]; exact h.ids
    · rw [h1.1, ht1]; exact nodup_map_filter _ _ h.ids
  · intro b hb e he
    have hb' : b ∈ σ.trie := ht1 ▸ mem_trie_removePending hb
    rw [hpend] at he
    have hne_lt : I.node = b.2 → I.node < σ1.heap.length := by
      intro hn; rw [hh1]; apply lt_of_getD_ne_nil; rw [hn]; exact h.nonempty b hb'
    have he' : e ∈ pend σ b.2 ∧ e ≠ i := by
      by_cases hn : I.node = b.2
      · rw [if_pos ⟨hn, hne_lt hn⟩, hp1, hn] at he
        have := List.mem_filter.mp he
        exact ⟨this.1, by simpa using this.2⟩
      · rw [if_neg (fun hc => hn hc.1), hp1] at he
        exact ⟨he, key b hb' e he (fun hc => hn hc.symm)⟩
    obtain ⟨I', h1, h2, h3, h4⟩ := h.linked b hb' e he'.1
    exact ⟨I', by rw [fi, hi1]; exact h1, by rw [hsts e he'.2]; exact h2, h3, h4⟩
  · intro b hb
    have hb' : b ∈ σ.trie := ht1 ▸ mem_trie_removePending hb
    rw [hpend]
    by_cases hn : I.node = b.2
    · have hlt' : I.node < σ1.heap.length := by
        rw [hh1]; apply lt_of_getD_ne_nil; rw [hn]; exact h.nonempty b hb'
      rw [if_pos ⟨hn, hlt'⟩, hp1]
      intro hnil
      rcases removePending_trie σ1 i I with h1 | h1
      · -- the trie was left alone although the list became empty: then `i` was its only element
        apply h1.2.2
        refine ⟨by rw [hp1]; exact hnil, ?_⟩
        have hne := h.nonempty b hb'
        rw [← hn] at hne
        obtain ⟨x, hx⟩ := List.exists_mem_of_ne_nil _ hne
        have hxi : x = i := by
          apply Classical.byContradiction
          intro hc
          have : x ∈ (pend σ I.node).filter (· != i) := List.mem_filter.mpr ⟨hx, by simpa using hc⟩
          rw [hnil] at this; simp at this
        subst hxi
        rw [hn] at hx
        obtain ⟨I', g1, _, g3, g4⟩ := h.linked b hb' x hx
        rw [hi] at g1; cases g1
        rw [ht1, g4, g3]; exact h.lookup hb'
      · -- the name was unlinked, so `b` cannot be in the new trie
        rw [h1.1, ht1] at hb
        have hb2 := (List.mem_filter.mp hb).2
        have hmem : (I.name, I.node) ∈ σ.trie := by
          have := h1.2.2.2; rw [ht1] at this; exact mem_of_lookup this
        have := snd_inj_of_nodup h.ids hmem hb' hn
        rw [← this] at hb2; simp at hb2
    · rw [if_neg (fun hc => hn hc.1), hp1]; exact h.nonempty b hb'
  · intro j J hj hw
    rw [fi, hi1] at hj
    have hji : j ≠ i := by
      intro hc; rw [hc, hstsi] at hw; exact hs0 (Option.some.inj hw)
    rw [hsts j hji] at hw
    obtain ⟨hm, hp⟩ := h.waiting j J hj hw
    have hjp : j ∈ pend (removePending σ1 i I) J.node := by
      rw [hpend]
      by_cases hn : I.node = J.node
      · have hlt' : I.node < σ1.heap.length := by
          rw [hh1]; apply lt_of_getD_ne_nil; rw [hn]; exact List.ne_nil_of_mem hp
        rw [if_pos ⟨hn, hlt'⟩, hp1, hn]
        exact List.mem_filter.mpr ⟨hp, by simpa using hji⟩
      · rw [if_neg (fun hc => hn hc.1), hp1]; exact hp
    refine ⟨?_, hjp⟩
    rcases removePending_trie σ1 i I with h1 | h1
    · rw [h1.1, ht1]; exact hm
    · rw [h1.1, ht1]
      refine List.mem_filter.mpr ⟨hm, ?_⟩
      have hmem : (I.name, I.node) ∈ σ.trie := by
        have := h1.2.2.2; rw [ht1] at this; exact mem_of_lookup this
      have hne : J.name ≠ I.name := by
        intro hc
        have := fst_inj_of_nodup h.names hm hmem hc
        have hn : I.node = J.node := (Prod.mk.inj this).2.symm
        have hnil := h1.2.2.1
        rw [hp1, hn] at hnil
        have : j ∈ (pend σ J.node).filter (· != i) := List.mem_filter.mpr ⟨hp, by simpa using hji⟩
        rw [hnil] at this; simp at this
      simpa using hne

/-- changing the state of an Interest that is not waiting to another non-waiting state keeps the invariant -/
theorem inv_setSt {σ : State} (h : Inv σ) {i : Nat} (hs : σ.sts[i]? ≠ some .waiting) {s : IState}
    (hne : s ≠ .waiting) : Inv (setSt σ i s) := by
  have hsts : ∀ j, j ≠ i → (setSt σ i s).sts[j]? = σ.sts[j]? := by
    intro j hj; simp [setSt, Ne.symm hj]
  refine ⟨?_, h.names, h.ids, ?_, h.nonempty, ?_⟩
  · simp [setSt, h.len]
  · intro b hb e he
    obtain ⟨I', h1, h2, h3, h4⟩ := h.linked b hb e he
    have : e ≠ i := by intro hc; rw [hc] at h2; exact hs h2
    exact ⟨I', h1, by rw [hsts e this]; exact h2, h3, h4⟩
  · intro j J hj hw
    have hji : j ≠ i := by
      intro hc; subst hc
      simp [setSt, List.getElem?_set] at hw
      exact hne hw.2
    rw [hsts j hji] at hw
    exact h.waiting j J hj hw

theorem set_self_of_getElem? {α} {l : List α} {i : Nat} {a : α} (h : l[i]? = some a) : l.set i a = l := by
  apply List.ext_getElem?
  intro j
  rw [List.getElem?_set]
  by_cases hij : i = j
  · subst hij
    obtain ⟨h1, h2⟩ := List.getElem?_eq_some_iff.mp h
    simp [h1, h2]
  · simp [hij]

/-! ### timers -/

theorem resolve_ne_waiting (now : Nat) (r : Req) (o : Outcome) : resolve now r o ≠ .waiting := by
  unfold resolve; split <;> simp

theorem specFire_ne_waiting_of {fe : FrontEnd} {t : Nat} {r : Req} {s : IState} (h : s ≠ .waiting) :
    specFire fe t r s ≠ .waiting := by
  cases s with
  | waiting => exact absurd rfl h
  | done o t' => simp [specFire]
  | held o => simp only [specFire]; split <;> simp
  | validating d fin =>
    cases fe <;> simp only [specFire] <;> repeat' split
    all_goals simp

/-- the fields a state update of one Interest leaves alone -/
def SameBut (σ' σ : State) (i : Nat) (s' : IState) : Prop :=
  σ'.ints = σ.ints ∧ σ'.clock = σ.clock ∧ σ'.errs = σ.errs ∧ σ'.vcalls = σ.vcalls ∧ σ'.sts = σ.sts.set i s'

theorem finish_remove_eff {σ : State} (h : Inv σ) {i : Nat} {I : Interest} (hi : σ.ints[i]? = some I)
    (s' : IState) (hs' : s' ≠ .waiting) :
    Inv (removePending (setSt σ i s') i I) ∧ SameBut (removePending (setSt σ i s') i I) σ i s' := by
  obtain ⟨f1, f2, f3, f4, _⟩ := removePending_fields (setSt σ i s') i I
  exact ⟨inv_finish_remove h hi s' hs', f1, f3, removePending_errs _ _ _, f4, f2⟩

theorem setSt_eff {σ : State} (h : Inv σ) {i : Nat} {s : IState} (hs : σ.sts[i]? = some s) (hne : s ≠ .waiting)
    (s' : IState) (hs' : s' ≠ .waiting) : Inv (setSt σ i s') ∧ SameBut (setSt σ i s') σ i s' :=
  ⟨inv_setSt h (by rw [hs]; simpa using hne) hs', rfl, rfl, rfl, rfl, rfl⟩

theorem same_eff {σ : State} (h : Inv σ) {i : Nat} {s : IState} (hs : σ.sts[i]? = some s) :
    Inv σ ∧ SameBut σ σ i s := ⟨h, rfl, rfl, rfl, rfl, (set_self_of_getElem? hs).symm⟩

/-- effect of firing the timers of Interest `i` -/
theorem fireOne_eff {σ : State} (h : Inv σ) (fe : FrontEnd) (t : Nat) {i : Nat} {I : Interest} {s : IState}
    (hi : σ.ints[i]? = some I) (hs : σ.sts[i]? = some s) :
    Inv (fireOne fe t σ i) ∧ SameBut (fireOne fe t σ i) σ i (specFire fe t I.toReq s) := by
  have same := same_eff h hs
  have rem := fun s' hs' => finish_remove_eff h hi s' hs'
  have sset := fun hne s' hs' => setSt_eff h hs hne s' hs'
  cases s with
  | waiting =>
    by_cases hd : I.deadline ≤ t
    · have e1 : fireOne fe t σ i = removePending (setSt σ i (.done .timeout I.deadline)) i I := by
        simp [fireOne, hi, hs, hd]
      have e2 : specFire fe t I.toReq .waiting = .done .timeout I.deadline := by simp [specFire, hd]
      rw [e1, e2]; exact rem _ (by simp)
    · have e1 : fireOne fe t σ i = σ := by simp [fireOne, hi, hs, hd]
      have e2 : specFire fe t I.toReq .waiting = .waiting := by simp [specFire, hd]
      rw [e1, e2]; exact same
  | done o t' =>
    have e1 : fireOne fe t σ i = σ := by simp [fireOne, hi, hs]
    have e2 : specFire fe t I.toReq (.done o t') = .done o t' := by simp [specFire]
    rw [e1, e2]; exact same
  | held o =>
    by_cases ha : I.awaitAt ≤ t
    · have e1 : fireOne fe t σ i = setSt σ i (.done o I.awaitAt) := by simp [fireOne, hi, hs, ha]
      have e2 : specFire fe t I.toReq (.held o) = .done o I.awaitAt := by simp [specFire, ha]
      rw [e1, e2]; exact sset (by simp) _ (by simp)
    · have e1 : fireOne fe t σ i = σ := by simp [fireOne, hi, hs, ha]
      have e2 : specFire fe t I.toReq (.held o) = .held o := by simp [specFire, ha]
      rw [e1, e2]; exact same
  | validating d fin =>
    cases fe with
    | v1 =>
      by_cases hf : fin ≤ t
      · cases hv : validatorOutcome .v1 I.verdict d with
        | some o =>
          have e1 : fireOne .v1 t σ i = setSt σ i (.done o fin) := by simp [fireOne, hi, hs, hf, hv]
          have e2 : specFire .v1 t I.toReq (.validating d fin) = .done o fin := by simp [specFire, hf, hv]
          rw [e1, e2]; exact sset (by simp) _ (by simp)
        | none =>
          have e1 : fireOne .v1 t σ i = σ := by simp [fireOne, hi, hs, hf, hv]
          have e2 : specFire .v1 t I.toReq (.validating d fin) = .validating d fin := by simp [specFire, hf, hv]
          rw [e1, e2]; exact same
      · have e1 : fireOne .v1 t σ i = σ := by simp [fireOne, hi, hs, hf]
        have e2 : specFire .v1 t I.toReq (.validating d fin) = .validating d fin := by simp [specFire, hf]
        rw [e1, e2]; exact same
    | v2 =>
      cases hv : validatorOutcome .v2 I.verdict d with
      | some o =>
        by_cases hf : fin ≤ t ∧ fin < I.deadline
        · by_cases ha : I.awaitAt ≤ t
          · have e1 : fireOne .v2 t σ i = setSt σ i (.done o (max fin I.awaitAt)) := by
              simp [fireOne, hi, hs, hf, hv, ha]
            have e2 : specFire .v2 t I.toReq (.validating d fin) = .done o (max fin I.awaitAt) := by
              simp [specFire, hf, hv, ha]
            rw [e1, e2]; exact sset (by simp) _ (by simp)
          · have e1 : fireOne .v2 t σ i = setSt σ i (.held o) := by simp [fireOne, hi, hs, hf, hv, ha]
            have e2 : specFire .v2 t I.toReq (.validating d fin) = .held o := by simp [specFire, hf, hv, ha]
            rw [e1, e2]; exact sset (by simp) _ (by simp)
        · by_cases hd : I.deadline ≤ t
          · have e1 : fireOne .v2 t σ i = removePending (setSt σ i (.done .timeout I.deadline)) i I := by
              simp [fireOne, hi, hs, hf, hv, hd]
            have e2 : specFire .v2 t I.toReq (.validating d fin) = .done .timeout I.deadline := by
              simp [specFire, hf, hv, hd]
            rw [e1, e2]; exact rem _ (by simp)
          · have e1 : fireOne .v2 t σ i = σ := by simp [fireOne, hi, hs, hf, hv, hd]
            have e2 : specFire .v2 t I.toReq (.validating d fin) = .validating d fin := by
              simp [specFire, hf, hv, hd]
            rw [e1, e2]; exact same
      | none =>
        by_cases hd : I.deadline ≤ t
        · have e1 : fireOne .v2 t σ i = removePending (setSt σ i (.done .timeout I.deadline)) i I := by
            simp [fireOne, hi, hs, hv, hd]
          have e2 : specFire .v2 t I.toReq (.validating d fin) = .done .timeout I.deadline := by
            simp [specFire, hv, hd]
          rw [e1, e2]; exact rem _ (by simp)
        · have e1 : fireOne .v2 t σ i = σ := by simp [fireOne, hi, hs, hv, hd]
          have e2 : specFire .v2 t I.toReq (.validating d fin) = .validating d fin := by
            simp [specFire, hv, hd]
          rw [e1, e2]; exact same

theorem fireOne_none (fe : FrontEnd) (t : Nat) (σ : State) (i : Nat) (h : σ.ints[i]? = none ∨ σ.sts[i]? = none) :
    fireOne fe t σ i = σ := by
  unfold fireOne
  rcases h with h | h
  · rw [h]
  · rw [h]; split <;> simp_all

/-- firing the timers of a list of distinct Interests -/
theorem foldl_fireOne {fe : FrontEnd} {t : Nat} (l : List Nat) (hl : l.Nodup) {σ : State} (h : Inv σ) :
    Inv (l.foldl (fireOne fe t) σ) ∧ (l.foldl (fireOne fe t) σ).ints = σ.ints ∧
    (l.foldl (fireOne fe t) σ).clock = σ.clock ∧ (l.foldl (fireOne fe t) σ).errs = σ.errs ∧
    (l.foldl (fireOne fe t) σ).vcalls = σ.vcalls ∧
    (l.foldl (fireOne fe t) σ).sts.length = σ.sts.length ∧
    ∀ (j : Nat) (I : Interest) (s : IState), σ.ints[j]? = some I → σ.sts[j]? = some s →
      (l.foldl (fireOne fe t) σ).sts[j]? = some (if j ∈ l then specFire fe t I.toReq s else s) := by
  induction l generalizing σ with
  | nil => simp_all
  | cons i r ih =>
    simp only [List.nodup_cons] at hl
    simp only [List.foldl_cons]
    cases hi : σ.ints[i]? with
    | none =>
      rw [fireOne_none fe t σ i (Or.inl hi)]
      obtain ⟨a, b, c, d, v, e, f⟩ := ih hl.2 h
      refine ⟨a, b, c, d, v, e, ?_⟩
      intro j I s hj hs
      rw [f j I s hj hs]
      have : j ≠ i := by intro hc; rw [hc, hi] at hj; cases hj
      simp [this]
    | some Ii =>
      have hlt := h.idx_lt hi
      obtain ⟨si, hsi⟩ : ∃ si, σ.sts[i]? = some si := ⟨σ.sts[i], by simp [hlt]⟩
      obtain ⟨a1, b1, c1, d1, v1, e1⟩ := fireOne_eff h fe t hi hsi
      obtain ⟨a, b, c, d, v, e, f⟩ := ih hl.2 a1
      refine ⟨a, by rw [b, b1], by rw [c, c1], by rw [d, d1], by rw [v, v1], by rw [e, e1]; simp, ?_⟩
      intro j I s hj hs
      by_cases hji : j = i
      · rw [hji] at hj hs ⊢
        have hI : Ii = I := by rw [hi] at hj; exact Option.some.inj hj
        have hS : si = s := by rw [hsi] at hs; exact Option.some.inj hs
        subst hI hS
        have := f i Ii (specFire fe t Ii.toReq si) (by rw [b1]; exact hi)
          (by rw [e1, List.getElem?_set]; simp [hlt])
        rw [this]; simp [hl.1]
      · have := f j I s (by rw [b1]; exact hj) (by rw [e1, List.getElem?_set]; simp [Ne.symm hji]; exact hs)
        rw [this]; simp [hji]

theorem fireAll_eff {σ : State} (h : Inv σ) (fe : FrontEnd) (b : Nat) :
    Inv (fireAll fe b σ) ∧ (fireAll fe b σ).ints = σ.ints ∧ (fireAll fe b σ).clock = σ.clock ∧
    (fireAll fe b σ).errs = σ.errs ∧ (fireAll fe b σ).vcalls = σ.vcalls ∧
    (fireAll fe b σ).sts.length = σ.sts.length ∧
    ∀ (j : Nat) (I : Interest) (s : IState), σ.ints[j]? = some I → σ.sts[j]? = some s →
      (fireAll fe b σ).sts[j]? = some (specFire fe b I.toReq s) := by
  obtain ⟨a, b', c, d, v, e, f⟩ := foldl_fireOne (fe := fe) (t := b) (List.range σ.ints.length)
    List.nodup_range h
  refine ⟨a, b', c, d, v, e, ?_⟩
  intro j I s hj hs
  have := f j I s hj hs
  have hlt : j < σ.ints.length := (List.getElem?_eq_some_iff.mp hj).1
  simp only [List.mem_range, hlt, if_true] at this
  exact this

theorem inv_clock {σ : State} (h : Inv σ) (c : Nat) : Inv { σ with clock := c } :=
  ⟨h.len, h.names, h.ids, h.linked, h.nonempty, h.waiting⟩

theorem tick_eff {σ : State} (h : Inv σ) (fe : FrontEnd) (t : Nat) :
    Inv (tick fe σ t) ∧ (tick fe σ t).ints = σ.ints ∧ (tick fe σ t).clock = max σ.clock t ∧
    (tick fe σ t).errs = σ.errs ∧ (tick fe σ t).vcalls = σ.vcalls ∧
    (tick fe σ t).sts.length = σ.sts.length ∧
    ∀ (j : Nat) (I : Interest) (s : IState), σ.ints[j]? = some I → σ.sts[j]? = some s →
      (tick fe σ t).sts[j]? = some (specFire fe (max σ.clock t) I.toReq s) :=
  fireAll_eff (inv_clock h (max σ.clock t)) fe (max σ.clock t)

theorem reach_eff {σ : State} (h : Inv σ) (fe : FrontEnd) (t : Nat) :
    Inv (reach fe σ t) ∧ (reach fe σ t).ints = σ.ints ∧ (reach fe σ t).clock = max σ.clock t ∧
    (reach fe σ t).errs = σ.errs ∧ (reach fe σ t).vcalls = σ.vcalls ∧
    (reach fe σ t).sts.length = σ.sts.length ∧
    ∀ (j : Nat) (I : Interest) (s : IState), σ.ints[j]? = some I → σ.sts[j]? = some s →
      (reach fe σ t).sts[j]? = some (specReach fe (max σ.clock t) I.toReq s) := by
  unfold reach specReach
  simp only
  by_cases h0 : max σ.clock t = 0
  · rw [if_pos h0]
    refine ⟨inv_clock h _, rfl, h0.symm ▸ rfl, rfl, rfl, rfl, ?_⟩
    intro j I s _ hs
    rw [if_pos h0]; exact hs
  · rw [if_neg h0]
    obtain ⟨a, b, c, d, v, e, f⟩ := fireAll_eff (inv_clock h (max σ.clock t)) fe (max σ.clock t - 1)
    refine ⟨a, b, c, d, v, e, ?_⟩
    intro j I s hj hs
    rw [if_neg h0]; exact f j I s hj hs

/-! ### express -/

theorem getElem?_concat_old {α} {l : List α} {a : α} {j : Nat} {x : α} (h : l[j]? = some x) :
    (l ++ [a])[j]? = some x := by
  rw [List.getElem?_append_left (List.getElem?_eq_some_iff.mp h).1]; exact h

theorem getElem?_concat_cases {α} {l : List α} {a : α} {j : Nat} {x : α} (h : (l ++ [a])[j]? = some x) :
    l[j]? = some x ∨ (j = l.length ∧ x = a) := by
  rcases Nat.lt_trichotomy j l.length with h1 | h1 | h1
  · left; rw [List.getElem?_append_left h1] at h; exact h
  · right; subst h1; simp at h; exact ⟨rfl, h.symm⟩
  · rw [List.getElem?_append_right (Nat.le_of_lt h1)] at h
    have : j - l.length ≠ 0 := by omega
    cases hk : j - l.length with
    | zero => exact absurd hk this
    | succ k => rw [hk] at h; simp at h

theorem inv_express_old {σ σ' : State} (h : Inv σ) {I : Interest} (hmem : (I.name, I.node) ∈ σ.trie)
    (hints : σ'.ints = σ.ints ++ [I]) (hsts : σ'.sts = σ.sts ++ [.waiting])
    (hheap : σ'.heap = σ.heap.set I.node (pend σ I.node ++ [σ.ints.length])) (htrie : σ'.trie = σ.trie) :
    Inv σ' := by
  have hlt : I.node < σ.heap.length := lt_of_getD_ne_nil (h.nonempty _ hmem)
  have hpend : ∀ n, pend σ' n = if I.node = n then pend σ I.node ++ [σ.ints.length] else pend σ n := by
    intro n; simp only [pend_def, hheap, getD_set, hlt, and_true]
  refine ⟨by simp [hints, hsts, h.len], htrie ▸ h.names, htrie ▸ h.ids, ?_, ?_, ?_⟩
  · intro b hb e he
    rw [htrie] at hb
    rw [hpend] at he
    rw [hints, hsts]
    by_cases hn : I.node = b.2
    · rw [if_pos hn] at he
      rcases List.mem_append.mp he with he | he
      · rw [hn] at he
        obtain ⟨I', h1, h2, h3, h4⟩ := h.linked b hb e he
        exact ⟨I', getElem?_concat_old h1, getElem?_concat_old h2, h3, h4⟩
      · simp only [List.mem_singleton] at he
        subst he
        refine ⟨I, by simp, by rw [← h.len]; simp, hn, ?_⟩
        have := snd_inj_of_nodup h.ids hmem hb hn
        rw [← this]
    · rw [if_neg hn] at he
      obtain ⟨I', h1, h2, h3, h4⟩ := h.linked b hb e he
      exact ⟨I', getElem?_concat_old h1, getElem?_concat_old h2, h3, h4⟩
  · intro b hb
    rw [htrie] at hb
    rw [hpend]
    split
    · simp
    · exact h.nonempty b hb
  · intro j J hj hw
    rw [hints] at hj
    rw [hsts] at hw
    rw [hpend, htrie]
    rcases getElem?_concat_cases hj with hj | ⟨hj, hJ⟩
    · have hw' : σ.sts[j]? = some .waiting := by
        rcases getElem?_concat_cases hw with hw | ⟨hw, _⟩
        · exact hw
        · have := (List.getElem?_eq_some_iff.mp hj).1; rw [h.len] at hw; omega
      obtain ⟨h1, h2⟩ := h.waiting j J hj hw'
      refine ⟨h1, ?_⟩
      split
      · rename_i hn; exact List.mem_append_left _ (hn ▸ h2)
      · exact h2
    · rw [hJ, hj]
      exact ⟨hmem, by simp⟩

theorem inv_express_new {σ σ' : State} (h : Inv σ) {I : Interest} (hnot : I.name ∉ σ.trie.map Prod.fst)
    (hnode : I.node = σ.heap.length)
    (hints : σ'.ints = σ.ints ++ [I]) (hsts : σ'.sts = σ.sts ++ [.waiting])
    (hheap : σ'.heap = σ.heap ++ [[σ.ints.length]]) (htrie : σ'.trie = σ.trie ++ [(I.name, I.node)]) :
    Inv σ' := by
  have hidlt : ∀ b ∈ σ.trie, b.2 < σ.heap.length := fun b hb => lt_of_getD_ne_nil (h.nonempty b hb)
  have hpend : ∀ n, pend σ' n =
      if n < σ.heap.length then pend σ n else if n = σ.heap.length then [σ.ints.length] else [] := by
    intro n
    simp only [pend_def, hheap, List.getD_eq_getElem?_getD]
    rcases Nat.lt_trichotomy n σ.heap.length with h1 | h1 | h1
    · simp [h1, List.getElem?_append_left h1]
    · subst h1; simp
    · have h2 : ¬ n < σ.heap.length := by omega
      have h3 : n ≠ σ.heap.length := by omega
      rw [List.getElem?_append_right (by omega)]
      have : n - σ.heap.length ≠ 0 := by omega
      cases hk : n - σ.heap.length with
      | zero => exact absurd hk this
      | succ k => simp [h2, h3]
  refine ⟨by simp [hints, hsts, h.len], ?_, ?_, ?_, ?_, ?_⟩
  · rw [htrie]
    simp only [List.map_append, List.map_cons, List.map_nil]
    refine List.nodup_append.mpr ⟨h.names, by simp, ?_⟩
    intro a ha b hb
    simp only [List.mem_singleton] at hb
    subst hb; intro hc; subst hc; exact hnot ha
  · rw [htrie]
    simp only [List.map_append, List.map_cons, List.map_nil]
    refine List.nodup_append.mpr ⟨h.ids, by simp, ?_⟩
    intro a ha b hb
    simp only [List.mem_singleton] at hb
    subst hb
    obtain ⟨x, hx, rfl⟩ := List.mem_map.mp ha
    have := hidlt x hx
    omega
  · intro b hb e he
    rw [htrie] at hb
    rw [hpend] at he
    rw [hints, hsts]
    rcases List.mem_append.mp hb with hb | hb
    · rw [if_pos (hidlt b hb)] at he
      obtain ⟨I', h1, h2, h3, h4⟩ := h.linked b hb e he
      exact ⟨I', getElem?_concat_old h1, getElem?_concat_old h2, h3, h4⟩
    · simp only [List.mem_singleton] at hb
      subst hb
      simp only [hnode, Nat.lt_irrefl, if_false, if_true, List.mem_singleton] at he
      subst he
      exact ⟨I, by simp, by rw [← h.len]; simp, rfl, rfl⟩
  · intro b hb
    rw [htrie] at hb
    rw [hpend]
    rcases List.mem_append.mp hb with hb | hb
    · rw [if_pos (hidlt b hb)]; exact h.nonempty b hb
    · simp only [List.mem_singleton] at hb
      subst hb; simp [hnode]
  · intro j J hj hw
    rw [hints] at hj
    rw [hsts] at hw
    rw [hpend, htrie]
    rcases getElem?_concat_cases hj with hj | ⟨hj, hJ⟩
    · have hw' : σ.sts[j]? = some .waiting := by
        rcases getElem?_concat_cases hw with hw | ⟨hw, _⟩
        · exact hw
        · have := (List.getElem?_eq_some_iff.mp hj).1; rw [h.len] at hw; omega
      obtain ⟨h1, h2⟩ := h.waiting j J hj hw'
      refine ⟨List.mem_append_left _ h1, ?_⟩
      rw [if_pos (hidlt _ h1)]; exact h2
    · rw [hJ, hj]
      exact ⟨by simp, by simp [hnode]⟩

theorem set_concat_last {α} (l : List α) (a b : α) : (l ++ [a]).set l.length b = l ++ [b] := by
  induction l with
  | nil => rfl
  | cons x r ih => simp [ih]

/-- an Interest that is not waiting from the start (v2 `no_response`) -/
theorem inv_express_silent {σ : State} (h : Inv σ) (I : Interest) {s : IState} (hs : s ≠ .waiting) :
    Inv { σ with ints := σ.ints ++ [I], sts := σ.sts ++ [s] } := by
  refine ⟨by simp [h.len], h.names, h.ids, ?_, h.nonempty, ?_⟩
  · intro b hb e he
    obtain ⟨I', h1, h2, h3, h4⟩ := h.linked b hb e he
    exact ⟨I', getElem?_concat_old h1, getElem?_concat_old h2, h3, h4⟩
  · intro j J hj hw
    rcases getElem?_concat_cases (l := σ.ints) hj with hj | ⟨hj, _⟩
    · have hw' : σ.sts[j]? = some .waiting := by
        rcases getElem?_concat_cases (l := σ.sts) hw with hw | ⟨hw, _⟩
        · exact hw
        · have := (List.getElem?_eq_some_iff.mp hj).1; rw [h.len] at hw; omega
      exact h.waiting j J hj hw'
    · exfalso
      rcases getElem?_concat_cases (l := σ.sts) hw with hw | ⟨_, hw⟩
      · have := (List.getElem?_eq_some_iff.mp hw).1; rw [h.len] at this; omega
      · exact hs hw.symm

theorem express_eff {σ : State} (h : Inv σ) (fe : FrontEnd) (nm : Name) (imp : Option Nat) (cbp : Bool) (life : Nat)
    (v : Verdict) (lat defer : Nat) (nr : Bool) :
    Inv (onExpress fe σ nm imp cbp life v lat defer nr) ∧
    (onExpress fe σ nm imp cbp life v lat defer nr).clock = σ.clock ∧
    (onExpress fe σ nm imp cbp life v lat defer nr).errs = σ.errs ∧
    (onExpress fe σ nm imp cbp life v lat defer nr).vcalls = σ.vcalls ∧
    (onExpress fe σ nm imp cbp life v lat defer nr).sts =
      σ.sts ++ [specFire fe σ.clock (mkReq fe σ.clock nm imp cbp life v lat defer) (initSt fe σ.clock nr)] ∧
    ∃ nid, (onExpress fe σ nm imp cbp life v lat defer nr).ints =
      σ.ints ++ [⟨mkReq fe σ.clock nm imp cbp life v lat defer, nid⟩] := by
  unfold onExpress initSt
  simp only
  cases hsil : silent fe nr with
  | true =>
    simp only [if_true]
    refine ⟨inv_express_silent h _ (by simp), ?_, ?_, ?_, ?_, 0, ?_⟩ <;> simp [specFire]
  | false =>
    simp only [Bool.false_eq_true, if_false]
    have fin : ∀ (σ1 : State) (nid : Nat), Inv σ1 →
        σ1.ints = σ.ints ++ [⟨mkReq fe σ.clock nm imp cbp life v lat defer, nid⟩] →
        σ1.sts = σ.sts ++ [.waiting] → σ1.clock = σ.clock → σ1.errs = σ.errs → σ1.vcalls = σ.vcalls →
        Inv (fireOne fe σ.clock σ1 σ.ints.length) ∧ (fireOne fe σ.clock σ1 σ.ints.length).clock = σ.clock ∧
        (fireOne fe σ.clock σ1 σ.ints.length).errs = σ.errs ∧
        (fireOne fe σ.clock σ1 σ.ints.length).vcalls = σ.vcalls ∧
        (fireOne fe σ.clock σ1 σ.ints.length).sts =
          σ.sts ++ [specFire fe σ.clock (mkReq fe σ.clock nm imp cbp life v lat defer) .waiting] ∧
        ∃ nid, (fireOne fe σ.clock σ1 σ.ints.length).ints =
          σ.ints ++ [⟨mkReq fe σ.clock nm imp cbp life v lat defer, nid⟩] := by
      intro σ1 nid h1 e1 e2 e3 e4 e5
      have hi : σ1.ints[σ.ints.length]? = some ⟨mkReq fe σ.clock nm imp cbp life v lat defer, nid⟩ := by
        rw [e1]; simp
      have hs : σ1.sts[σ.ints.length]? = some .waiting := by rw [e2, ← h.len]; simp
      obtain ⟨a, b1, b2, b3, b4, b5⟩ := fireOne_eff h1 fe σ.clock hi hs
      refine ⟨a, b2.trans e3, b3.trans e4, b4.trans e5, ?_, nid, b1.trans e1⟩
      rw [b5, e2, ← h.len, set_concat_last]
    cases hl : trieGet σ.trie nm with
    | some nid =>
      exact fin _ nid (inv_express_old h (I := ⟨mkReq fe σ.clock nm imp cbp life v lat defer, nid⟩)
        (mem_of_lookup hl) rfl rfl rfl rfl) rfl rfl rfl rfl rfl
    | none =>
      exact fin _ σ.heap.length (inv_express_new h
        (I := ⟨mkReq fe σ.clock nm imp cbp life v lat defer, σ.heap.length⟩)
        (lookup_none_iff.mp hl) rfl rfl rfl rfl rfl) rfl rfl rfl rfl rfl

/-! ### caller cancellation -/

theorem cancel_eff {σ : State} (h : Inv σ) (fe : FrontEnd) {i : Nat} {I : Interest} {s : IState}
    (hi : σ.ints[i]? = some I) (hs : σ.sts[i]? = some s) :
    Inv (onCancel fe σ i) ∧ SameBut (onCancel fe σ i) σ i (specCancel σ.clock I.toReq s) := by
  have same := same_eff h hs
  have rem := fun s' hs' => finish_remove_eff h hi s' hs'
  by_cases hu : σ.clock < I.awaitAt
  · have hu' : σ.clock < I.toReq.awaitAt := hu
    have e2 : specCancel σ.clock I.toReq s = s := by simp [specCancel, hu']
    have e1 : onCancel fe σ i = σ := by
      unfold onCancel; rw [hi, hs]; cases s <;> simp [hu]
    rw [e1, e2]; exact same
  · have hu' : ¬ σ.clock < I.toReq.awaitAt := hu
    cases s with
    | waiting =>
      have e1 : onCancel fe σ i = removePending (setSt σ i (.done .cancelled σ.clock)) i I := by
        simp [onCancel, hi, hs, hu]
      have e2 : specCancel σ.clock I.toReq .waiting = .done .cancelled σ.clock := by simp [specCancel, hu']
      rw [e1, e2]; exact rem _ (by simp)
    | done o t' =>
      have e1 : onCancel fe σ i = σ := by simp [onCancel, hi, hs]
      have e2 : specCancel σ.clock I.toReq (.done o t') = .done o t' := by simp [specCancel]
      rw [e1, e2]; exact same
    | held o =>
      have e1 : onCancel fe σ i = σ := by simp [onCancel, hi, hs]
      have e2 : specCancel σ.clock I.toReq (.held o) = .held o := by simp [specCancel]
      rw [e1, e2]; exact same
    | validating d fin =>
      have e2 : specCancel σ.clock I.toReq (.validating d fin) = .done .cancelled σ.clock := by
        simp [specCancel, hu']
      rw [e2]
      cases fe with
      | v2 =>
        have e1 : onCancel .v2 σ i = removePending (setSt σ i (.done .cancelled σ.clock)) i I := by
          simp [onCancel, hi, hs, hu]
        rw [e1]; exact rem _ (by simp)
      | v1 =>
        have e1 : onCancel .v1 σ i = setSt σ i (.done .cancelled σ.clock) := by simp [onCancel, hi, hs, hu]
        rw [e1]
        exact setSt_eff h hs (by simp) _ (by simp)

theorem cancel_none (fe : FrontEnd) (σ : State) (i : Nat) (h : σ.ints[i]? = none ∨ σ.sts[i]? = none) :
    onCancel fe σ i = σ := by
  unfold onCancel
  rcases h with h | h
  · rw [h]
  · rw [h]; split <;> simp_all

/-! ### bulk updates of waiting entries -/

/-- a waiting entry `e` gets the state `f e` (if any); everything else is left alone -/
def upd (f : Nat → Option IState) (sts : List IState) (e : Nat) : List IState :=
  if sts[e]? = some .waiting then (match f e with | some s => sts.set e s | none => sts) else sts

theorem upd_length (f : Nat → Option IState) (sts : List IState) (e : Nat) :
    (upd f sts e).length = sts.length := by
  unfold upd; split
  · split <;> simp
  · rfl

theorem upd_get (f : Nat → Option IState) (sts : List IState) (e j : Nat) :
    (upd f sts e)[j]? =
      if j = e ∧ sts[e]? = some .waiting then (match f e with | some s => some s | none => some .waiting)
      else sts[j]? := by
  unfold upd
  by_cases hw : sts[e]? = some .waiting
  · have hlt : e < sts.length := (List.getElem?_eq_some_iff.mp hw).1
    rw [if_pos hw]
    cases hf : f e with
    | none =>
      by_cases hje : j = e
      · rw [if_pos ⟨hje, hw⟩, hje]; exact hw
      · rw [if_neg (fun hc => hje hc.1)]
    | some s =>
      by_cases hje : j = e
      · rw [if_pos ⟨hje, hw⟩, hje, List.getElem?_set]; simp [hlt]
      · rw [if_neg (fun hc => hje hc.1), List.getElem?_set]; simp [Ne.symm hje]
  · rw [if_neg hw, if_neg (fun hc => hw hc.2)]

theorem foldl_upd_length (f : Nat → Option IState) (L : List Nat) (sts : List IState) :
    (L.foldl (upd f) sts).length = sts.length := by
  induction L generalizing sts with
  | nil => rfl
  | cons e r ih => simp only [List.foldl_cons]; rw [ih, upd_length]

theorem foldl_upd_get (f : Nat → Option IState) (hf : ∀ e s, f e = some s → s ≠ .waiting)
    (L : List Nat) (sts : List IState) (j : Nat) :
    (L.foldl (upd f) sts)[j]? =
      if j ∈ L ∧ sts[j]? = some .waiting then (match f j with | some s => some s | none => some .waiting)
      else sts[j]? := by
  induction L generalizing sts with
  | nil => simp
  | cons e r ih =>
    simp only [List.foldl_cons]
    rw [ih, upd_get]
    by_cases hje : j = e
    · subst hje
      by_cases hw : sts[j]? = some .waiting
      · cases hfj : f j with
        | none => simp [hw]
        | some s =>
          have := hf j s hfj
          simp [hw, this]
      · simp [hw]
    · simp [hje]

/-- an operation that acts on the per-Interest states as `upd f` and leaves alone what `f` depends on -/
theorem foldl_op_upd {op : State → Nat → State} {f : Nat → Option IState} {P : State → Prop}
    (hop : ∀ σ e, P σ → P (op σ e) ∧ (op σ e).sts = upd f σ.sts e) (L : List Nat) (σ : State) (hP : P σ) :
    P (L.foldl op σ) ∧ (L.foldl op σ).sts = L.foldl (upd f) σ.sts := by
  induction L generalizing σ with
  | nil => exact ⟨hP, rfl⟩
  | cons e r ih =>
    simp only [List.foldl_cons]
    obtain ⟨h1, h2⟩ := hop σ e hP
    obtain ⟨h3, h4⟩ := ih (op σ e) h1
    exact ⟨h3, by rw [h4, h2]⟩

/-! ### Nack -/

/-- Some entries (`p`) of one linked node stop waiting and the node keeps the others
    (and is unlinked when none is left). -/
theorem inv_node_split {σ σ' : State} (h : Inv σ) {nm : Name} {nid : Nat} (hb0 : (nm, nid) ∈ σ.trie)
    (p : Nat → Bool) (hints : σ'.ints = σ.ints) (hlen : σ'.sts.length = σ.sts.length)
    (hA : ∀ e ∈ pend σ nid, p e = true → σ'.sts[e]? ≠ some .waiting)
    (hB : ∀ j, ¬ (j ∈ pend σ nid ∧ p j = true) → σ'.sts[j]? = σ.sts[j]?)
    (hheap : σ'.heap = σ.heap.set nid ((pend σ nid).filter (fun e => !p e)))
    (htrie : σ'.trie = if (pend σ nid).filter (fun e => !p e) = [] then σ.trie.filter (fun b => b.1 != nm)
      else σ.trie) : Inv σ' := by
  have hlt : nid < σ.heap.length := lt_of_getD_ne_nil (h.nonempty _ hb0)
  have hpend : ∀ n, pend σ' n = if nid = n then (pend σ nid).filter (fun e => !p e) else pend σ n := by
    intro n; simp only [pend_def, hheap, getD_set, hlt, and_true]
  have hsub : ∀ b, b ∈ σ'.trie → b ∈ σ.trie := by
    intro b hb; rw [htrie] at hb
    split at hb
    · exact (List.mem_filter.mp hb).1
    · exact hb
  have hother : ∀ b ∈ σ.trie, b.2 ≠ nid → ∀ e ∈ pend σ b.2, e ∉ pend σ nid := by
    intro b hb hne e he hc
    obtain ⟨I1, a1, _, a3, _⟩ := h.linked b hb e he
    obtain ⟨I2, b1, _, b3, _⟩ := h.linked _ hb0 e hc
    rw [a1] at b1; cases b1
    exact hne (a3.symm.trans b3)
  refine ⟨by rw [hlen, hints]; exact h.len, ?_, ?_, ?_, ?_, ?_⟩
  · rw [htrie]; split
    · exact nodup_map_filter _ _ h.names
    · exact h.names
  · rw [htrie]; split
    · exact nodup_map_filter _ _ h.ids
    · exact h.ids
  · intro b hb e he
    have hb' := hsub b hb
    rw [hpend] at he
    rw [hints]
    by_cases hn : nid = b.2
    · rw [if_pos hn] at he
      obtain ⟨he1, he2⟩ := List.mem_filter.mp he
      have he3 : e ∈ pend σ b.2 := hn ▸ he1
      obtain ⟨I', h1, h2, h3, h4⟩ := h.linked b hb' e he3
      refine ⟨I', h1, ?_, h3, h4⟩
      rw [hB e (fun hc => by simp [hc.2] at he2)]; exact h2
    · rw [if_neg hn] at he
      obtain ⟨I', h1, h2, h3, h4⟩ := h.linked b hb' e he
      refine ⟨I', h1, ?_, h3, h4⟩
      rw [hB e (fun hc => hother b hb' (fun x => hn x.symm) e he hc.1)]; exact h2
  · intro b hb
    have hb' := hsub b hb
    rw [hpend]
    by_cases hn : nid = b.2
    · rw [if_pos hn]
      intro hnil
      rw [htrie, if_pos hnil] at hb
      have hb2 := (List.mem_filter.mp hb).2
      have := snd_inj_of_nodup h.ids hb0 hb' hn
      rw [← this] at hb2; simp at hb2
    · rw [if_neg hn]; exact h.nonempty b hb'
  · intro j J hj hw
    rw [hints] at hj
    have hnp : ¬ (j ∈ pend σ nid ∧ p j = true) := fun hc => hA j hc.1 hc.2 hw
    rw [hB j hnp] at hw
    obtain ⟨h1, h2⟩ := h.waiting j J hj hw
    rw [hpend]
    by_cases hn : nid = J.node
    · have hjr : j ∈ (pend σ nid).filter (fun e => !p e) := by
        refine List.mem_filter.mpr ⟨hn ▸ h2, ?_⟩
        cases hpj : p j with
        | false => rfl
        | true => exact absurd ⟨hn ▸ h2, hpj⟩ hnp
      rw [if_pos hn]
      refine ⟨?_, hjr⟩
      rw [htrie, if_neg (List.ne_nil_of_mem hjr)]; exact h1
    · rw [if_neg hn]
      refine ⟨?_, h2⟩
      rw [htrie]; split
      · refine List.mem_filter.mpr ⟨h1, ?_⟩
        have : J.name ≠ nm := by
          intro hc
          have := fst_inj_of_nodup h.names h1 hb0 hc
          exact hn (Prod.mk.inj this).2.symm
        simpa using this
      · exact h1

theorem delName_ok {σ : State} {nm : Name} (h : (σ.trie.lookup nm).isSome = true) :
    delName σ nm = { σ with trie := σ.trie.filter (fun b => b.1 != nm) } := by
  unfold delName trieDel
  simp [h]

/-- the tail of `_on_nack`: replace the node's list, `del trie[name]` when it became empty -/
def nackTail (σ1 : State) (nid : Nat) (rest : List Nat) (nm : Name) : State :=
  if rest.isEmpty then delName { σ1 with heap := σ1.heap.set nid rest } nm
  else { σ1 with heap := σ1.heap.set nid rest }

theorem nackTail_fields (σ1 : State) (nid : Nat) (rest : List Nat) (nm : Name)
    (h : (σ1.trie.lookup nm).isSome = true) :
    (nackTail σ1 nid rest nm).ints = σ1.ints ∧ (nackTail σ1 nid rest nm).sts = σ1.sts ∧
    (nackTail σ1 nid rest nm).clock = σ1.clock ∧ (nackTail σ1 nid rest nm).vcalls = σ1.vcalls ∧
    (nackTail σ1 nid rest nm).errs = σ1.errs ∧ (nackTail σ1 nid rest nm).heap = σ1.heap.set nid rest ∧
    (nackTail σ1 nid rest nm).trie = if rest = [] then σ1.trie.filter (fun b => b.1 != nm) else σ1.trie := by
  unfold nackTail
  by_cases hr : rest = []
  · subst hr
    rw [if_pos rfl, delName_ok (σ := { σ1 with heap := σ1.heap.set nid [] }) h]
    simp
  · have : rest.isEmpty = false := by simpa using hr
    rw [this]
    simp [hr]

/-- what a Nack with reason `r` makes of waiting entry `e` -/
def nackF (σ : State) (r : Nat) : Nat → Option IState :=
  fun e => (σ.ints[e]?).map (fun I => resolve σ.clock I.toReq (.nack r))

theorem nackEntry_eq (r : Nat) (σ : State) (e : Nat) :
    nackEntry r σ e = { σ with sts := upd (nackF σ r) σ.sts e } := by
  unfold nackEntry upd setSt nackF
  cases σ.ints[e]? with
  | none => simp
  | some I => simp only [Option.map_some]; split <;> rfl

theorem foldl_nackEntry (r : Nat) (L : List Nat) (σ : State) :
    L.foldl (nackEntry r) σ = { σ with sts := L.foldl (upd (nackF σ r)) σ.sts } := by
  induction L generalizing σ with
  | nil => rfl
  | cons e t ih =>
    simp only [List.foldl_cons]
    rw [ih, nackEntry_eq]
    rfl

theorem named_iff {ints : List Interest} {dg : Option Nat} {e : Nat} {I : Interest} (h : ints[e]? = some I) :
    named ints dg e = true ↔ I.implicit = dg := by
  simp [named, h]

theorem nack_eff {σ : State} (h : Inv σ) (nm : Name) (dg : Option Nat) (r : Nat) :
    Inv (onNack σ nm dg r) ∧ (onNack σ nm dg r).ints = σ.ints ∧ (onNack σ nm dg r).clock = σ.clock ∧
    (onNack σ nm dg r).errs = σ.errs ∧ (onNack σ nm dg r).vcalls = σ.vcalls ∧
    (onNack σ nm dg r).sts.length = σ.sts.length ∧
    ∀ (j : Nat) (J : Interest) (s : IState), σ.ints[j]? = some J → σ.sts[j]? = some s →
      (onNack σ nm dg r).sts[j]? =
        some (if s = .waiting ∧ Named J.toReq nm dg then resolve σ.clock J.toReq (.nack r) else s) := by
  unfold onNack
  cases hl : trieGet σ.trie nm with
  | none =>
    refine ⟨h, rfl, rfl, rfl, rfl, rfl, ?_⟩
    intro j J s hj hs
    rw [hs]
    have : ¬ (s = .waiting ∧ Named J.toReq nm dg) := by
      intro ⟨hw, hn⟩
      subst hw
      have := (h.waiting j J hj hs).1
      have := lookup_of_mem h.names this
      rw [hn.1] at this
      unfold trieGet at hl; rw [hl] at this; cases this
    rw [if_neg this]
  | some nid =>
    have hb0 : (nm, nid) ∈ σ.trie := mem_of_lookup hl
    simp only
    rw [foldl_nackEntry]
    obtain ⟨f, hf⟩ : ∃ f : Nat → Option IState, f = nackF σ r := ⟨_, rfl⟩
    rw [← hf]
    have hfw : ∀ e s, f e = some s → s ≠ .waiting := by
      intro e s he; rw [hf] at he
      unfold nackF at he
      cases h1 : σ.ints[e]? with
      | none => simp [h1] at he
      | some I => simp [h1] at he; rw [← he]; exact resolve_ne_waiting _ _ _
    obtain ⟨sts', hsts'⟩ : ∃ x, x = ((pend σ nid).filter (named σ.ints dg)).foldl (upd f) σ.sts := ⟨_, rfl⟩
    rw [← hsts']
    have hget : ∀ j, sts'[j]? = if (j ∈ pend σ nid ∧ named σ.ints dg j = true) ∧ σ.sts[j]? = some .waiting
        then (match f j with | some s => some s | none => some .waiting) else σ.sts[j]? := by
      intro j
      rw [hsts', foldl_upd_get f hfw]
      simp only [List.mem_filter]
    have hlen : sts'.length = σ.sts.length := by rw [hsts', foldl_upd_length]
    have hsome : (List.lookup nm σ.trie).isSome = true := by
      unfold trieGet at hl; simp [hl]
    have hfin : ∀ σ' : State, σ'.ints = σ.ints → σ'.sts = sts' →
        σ'.heap = σ.heap.set nid ((pend σ nid).filter (fun e => !named σ.ints dg e)) →
        (σ'.trie = if (pend σ nid).filter (fun e => !named σ.ints dg e) = [] then
          σ.trie.filter (fun b => b.1 != nm) else σ.trie) →
        Inv σ' ∧ ∀ (j : Nat) (J : Interest) (s : IState), σ.ints[j]? = some J → σ.sts[j]? = some s →
          σ'.sts[j]? = some (if s = .waiting ∧ Named J.toReq nm dg then resolve σ.clock J.toReq (.nack r) else s) := by
      intro σ' e1 e2 e3 e4
      constructor
      · refine inv_node_split h hb0 (named σ.ints dg) e1 (by rw [e2, hlen]) ?_ ?_ e3 e4
        · intro e he hp
          rw [e2, hget]
          obtain ⟨I', hI', hw, _⟩ := h.linked _ hb0 e he
          rw [if_pos ⟨⟨he, hp⟩, hw⟩]
          cases hfe : f e with
          | none => rw [hf] at hfe; simp [nackF, hI'] at hfe
          | some s => simp; exact hfw e s hfe
        · intro j hn
          rw [e2, hget, if_neg (fun hc => hn hc.1)]
      · intro j J s hj hs
        rw [e2, hget, hs]
        by_cases hw : s = .waiting
        · subst hw
          obtain ⟨h1, h2⟩ := h.waiting j J hj hs
          have hiff : (j ∈ pend σ nid ∧ named σ.ints dg j = true) ↔ Named J.toReq nm dg := by
            rw [named_iff hj]
            unfold Named
            constructor
            · intro ⟨a, b⟩
              obtain ⟨I', c1, _, _, c4⟩ := h.linked _ hb0 j a
              rw [hj] at c1; cases c1
              exact ⟨c4, b⟩
            · intro ⟨a, b⟩
              have := fst_inj_of_nodup h.names h1 hb0 a
              have hn : J.node = nid := (Prod.mk.inj this).2
              exact ⟨hn ▸ h2, b⟩
          by_cases hN : Named J.toReq nm dg
          · rw [if_pos ⟨hiff.mpr hN, rfl⟩, if_pos ⟨rfl, hN⟩, hf]
            simp [nackF, hj]
          · rw [if_neg (fun hc => hN (hiff.mp hc.1)), if_neg (fun hc => hN hc.2)]
        · rw [if_neg (fun hc => hw (Option.some.inj hc.2)), if_neg (fun hc => hw hc.1)]
    obtain ⟨g1, g2, g3, g4, g5, g6, g7⟩ := nackTail_fields { σ with sts := sts' } nid
      ((pend σ nid).filter (fun e => !named σ.ints dg e)) nm hsome
    obtain ⟨a, b⟩ := hfin _ g1 g2 g6 g7
    exact ⟨a, g1, g3, g5, g4, (congrArg List.length g2).trans hlen, b⟩

/-! ### shutdown -/

theorem removePending_nil_trie (σ : State) (i : Nat) (I : Interest) (h : σ.trie = []) :
    (removePending σ i I).trie = [] ∧ (removePending σ i I).errs = σ.errs := by
  rcases removePending_trie σ i I with h1 | h1
  · exact ⟨by rw [h1.1, h], h1.2.1⟩
  · have := h1.2.2.2; rw [h] at this; simp [trieGet] at this

theorem cancelEntry_eff (σ0 σ : State) (e : Nat) (hi : σ.ints = σ0.ints) (hc : σ.clock = σ0.clock)
    (ht : σ.trie = []) :
    ((cancelEntry σ e).ints = σ0.ints ∧ (cancelEntry σ e).clock = σ0.clock ∧ (cancelEntry σ e).trie = [] ∧
      (cancelEntry σ e).errs = σ.errs ∧ (cancelEntry σ e).vcalls = σ.vcalls) ∧
    (cancelEntry σ e).sts = upd (fun e => (σ0.ints[e]?).map (fun I => resolve σ0.clock I.toReq .cancelled)) σ.sts e := by
  have same : cancelEntry σ e = σ → (σ.sts[e]? = some .waiting → σ0.ints[e]? = none) →
      ((cancelEntry σ e).ints = σ0.ints ∧ (cancelEntry σ e).clock = σ0.clock ∧ (cancelEntry σ e).trie = [] ∧
        (cancelEntry σ e).errs = σ.errs ∧ (cancelEntry σ e).vcalls = σ.vcalls) ∧
      (cancelEntry σ e).sts = upd (fun e => (σ0.ints[e]?).map (fun I => resolve σ0.clock I.toReq .cancelled)) σ.sts e := by
    intro h1 h2
    rw [h1]
    refine ⟨⟨hi, hc, ht, rfl, rfl⟩, ?_⟩
    unfold upd
    split
    · rename_i hw; simp [h2 hw]
    · rfl
  cases hie : σ.ints[e]? with
  | none =>
    exact same (by simp [cancelEntry, hie]) (fun _ => by rw [← hi]; exact hie)
  | some I =>
    have hie0 : σ0.ints[e]? = some I := by rw [← hi]; exact hie
    by_cases hw : σ.sts[e]? = some .waiting
    · have e1 : cancelEntry σ e = removePending (setSt σ e (resolve σ.clock I.toReq .cancelled)) e I := by
        simp [cancelEntry, hie, hw]
      rw [e1]
      obtain ⟨f1, f2, f3, f4, _⟩ := removePending_fields (setSt σ e (resolve σ.clock I.toReq .cancelled)) e I
      obtain ⟨g1, g2⟩ := removePending_nil_trie (setSt σ e (resolve σ.clock I.toReq .cancelled)) e I ht
      refine ⟨⟨by rw [f1]; exact hi, by rw [f3]; exact hc, g1, g2, f4⟩, ?_⟩
      rw [f2]
      simp [upd, hw, hie0, setSt, hc]
    · refine same ?_ (fun h => absurd h hw)
      unfold cancelEntry
      rw [hie]
      split
      · rename_i h1 h2; exact absurd h2 hw
      · rfl

theorem shutdown_eff {σ : State} (h : Inv σ) :
    Inv (onShutdown σ) ∧ (onShutdown σ).ints = σ.ints ∧ (onShutdown σ).clock = σ.clock ∧
    (onShutdown σ).errs = σ.errs ∧ (onShutdown σ).vcalls = σ.vcalls ∧ (onShutdown σ).trie = [] ∧
    (onShutdown σ).sts.length = σ.sts.length ∧
    ∀ (j : Nat) (J : Interest) (s : IState), σ.ints[j]? = some J → σ.sts[j]? = some s →
      (onShutdown σ).sts[j]? = some (if s = .waiting then resolve σ.clock J.toReq .cancelled else s) := by
  unfold onShutdown
  obtain ⟨f, hf⟩ : ∃ f : Nat → Option IState,
    f = fun e => (σ.ints[e]?).map (fun I => resolve σ.clock I.toReq .cancelled) := ⟨_, rfl⟩
  have hfw : ∀ e s, f e = some s → s ≠ .waiting := by
    intro e s he; rw [hf] at he
    cases h1 : σ.ints[e]? with
    | none => simp [h1] at he
    | some I => simp [h1] at he; rw [← he]; exact resolve_ne_waiting _ _ _
  obtain ⟨es, hes⟩ : ∃ es, es = σ.trie.flatMap (fun b => pend σ b.2) := ⟨_, rfl⟩
  simp only
  rw [← hes]
  have key := foldl_op_upd (op := cancelEntry) (f := f)
    (P := fun s => s.ints = σ.ints ∧ s.clock = σ.clock ∧ s.trie = [] ∧ s.errs = σ.errs ∧ s.vcalls = σ.vcalls)
    (by
      intro s e hP
      obtain ⟨a, b⟩ := cancelEntry_eff σ s e hP.1 hP.2.1 hP.2.2.1
      refine ⟨⟨a.1, a.2.1, a.2.2.1, by rw [a.2.2.2.1]; exact hP.2.2.2.1, by rw [a.2.2.2.2]; exact hP.2.2.2.2⟩, ?_⟩
      rw [b, hf])
    es { σ with trie := [] } ⟨rfl, rfl, rfl, rfl, rfl⟩
  obtain ⟨⟨k1, k2, k3, k4, k5⟩, k6⟩ := key
  have hget : ∀ (j : Nat) (J : Interest) (s : IState), σ.ints[j]? = some J → σ.sts[j]? = some s →
      (es.foldl cancelEntry { σ with trie := [] }).sts[j]? =
        some (if s = .waiting then resolve σ.clock J.toReq .cancelled else s) := by
    intro j J s hj hs
    rw [k6, foldl_upd_get f hfw]
    show (if j ∈ es ∧ σ.sts[j]? = some .waiting then _ else σ.sts[j]?) = _
    by_cases hw : s = .waiting
    · subst hw
      have hmem : j ∈ es := by
        rw [hes]
        obtain ⟨h1, h2⟩ := h.waiting j J hj hs
        exact List.mem_flatMap.mpr ⟨_, h1, h2⟩
      rw [if_pos ⟨hmem, hs⟩, hf]
      simp [hj]
    · rw [if_neg (fun hc => hw (by rw [hs] at hc; exact Option.some.inj hc.2)), hs, if_neg hw]
  have hlen : (es.foldl cancelEntry { σ with trie := [] }).sts.length = σ.sts.length := by
    rw [k6, foldl_upd_length]
  refine ⟨⟨by rw [hlen, k1]; exact h.len, by rw [k3]; simp, by rw [k3]; simp, by rw [k3]; simp,
    by rw [k3]; simp, ?_⟩, k1, k2, k4, k5, k3, hlen, hget⟩
  intro j J hj hw
  rw [k1] at hj
  have hlt : j < σ.sts.length := h.idx_lt hj
  obtain ⟨s, hs⟩ : ∃ s, σ.sts[j]? = some s := ⟨σ.sts[j], by simp [hlt]⟩
  rw [hget j J s hj hs] at hw
  by_cases hsw : s = .waiting
  · rw [if_pos hsw] at hw; exact absurd (Option.some.inj hw) (resolve_ne_waiting _ _ _)
  · rw [if_neg hsw] at hw; exact absurd (Option.some.inj hw) hsw

/-! ### Data: the walk over the prefixes -/

/-- Invariant *during* `_on_data`: the nodes named in `cl` (the clean list) are fully satisfied - their entries
    have been handed to the validator but the list was left untouched - and wait for their `del`. -/
structure WInv (σ : State) (cl : List Name) : Prop where
  len : σ.sts.length = σ.ints.length
  names : (σ.trie.map Prod.fst).Nodup
  ids : (σ.trie.map Prod.snd).Nodup
  linked : ∀ b ∈ σ.trie, ∀ e ∈ pend σ b.2, ∃ I, σ.ints[e]? = some I ∧ I.node = b.2 ∧ I.name = b.1 ∧
    (b.1 ∉ cl → σ.sts[e]? = some .waiting)
  nonempty : ∀ b ∈ σ.trie, pend σ b.2 ≠ []
  waiting : ∀ i I, σ.ints[i]? = some I → σ.sts[i]? = some .waiting →
    (I.name, I.node) ∈ σ.trie ∧ i ∈ pend σ I.node ∧ I.name ∉ cl
  clsub : ∀ n ∈ cl, n ∈ σ.trie.map Prod.fst
  clnodup : cl.Nodup

theorem WInv.of_inv {σ : State} (h : Inv σ) : WInv σ [] := by
  refine ⟨h.len, h.names, h.ids, ?_, h.nonempty, ?_, by simp, by simp⟩
  · intro b hb e he
    obtain ⟨I, h1, h2, h3, h4⟩ := h.linked b hb e he
    exact ⟨I, h1, h3, h4, fun _ => h2⟩
  · intro i I hi hw
    obtain ⟨h1, h2⟩ := h.waiting i I hi hw
    exact ⟨h1, h2, by simp⟩

theorem taken_ne_waiting (fe : FrontEnd) (now : Nat) (r : Req) (d : Nat) : taken fe now r d ≠ .waiting := by
  unfold taken; split
  · exact resolve_ne_waiting _ _ _
  · simp

theorem deliver_eff (fe : FrontEnd) (d : Nat) (σ0 σ : State) (e : Nat) (hi : σ.ints = σ0.ints)
    (hc : σ.clock = σ0.clock) :
    ((deliver fe d σ e).ints = σ0.ints ∧ (deliver fe d σ e).clock = σ0.clock ∧ (deliver fe d σ e).heap = σ.heap ∧
      (deliver fe d σ e).trie = σ.trie ∧ (deliver fe d σ e).errs = σ.errs) ∧
    (deliver fe d σ e).sts = upd (fun e => (σ0.ints[e]?).map (fun I => taken fe σ0.clock I.toReq d)) σ.sts e := by
  have same : ∀ σ' : State, σ'.ints = σ.ints → σ'.clock = σ.clock → σ'.heap = σ.heap → σ'.trie = σ.trie →
      σ'.errs = σ.errs → σ'.sts = σ.sts → deliver fe d σ e = σ' →
      (σ.sts[e]? = some .waiting → σ0.ints[e]? = none) →
      ((deliver fe d σ e).ints = σ0.ints ∧ (deliver fe d σ e).clock = σ0.clock ∧ (deliver fe d σ e).heap = σ.heap ∧
        (deliver fe d σ e).trie = σ.trie ∧ (deliver fe d σ e).errs = σ.errs) ∧
      (deliver fe d σ e).sts = upd (fun e => (σ0.ints[e]?).map (fun I => taken fe σ0.clock I.toReq d)) σ.sts e := by
    intro σ' a1 a2 a3 a4 a5 a6 h1 h2
    rw [h1]
    refine ⟨⟨a1.trans hi, a2.trans hc, a3, a4, a5⟩, ?_⟩
    rw [a6]
    unfold upd
    split
    · rename_i hw; simp [h2 hw]
    · rfl
  cases hie : σ.ints[e]? with
  | none =>
    exact same σ rfl rfl rfl rfl rfl rfl (by simp [deliver, hie]) (fun _ => by rw [← hi]; exact hie)
  | some I =>
    have hie0 : σ0.ints[e]? = some I := by rw [← hi]; exact hie
    cases hse : σ.sts[e]? with
    | none => exact same σ rfl rfl rfl rfl rfl rfl (by simp [deliver, hie, hse]) (fun h => by rw [hse] at h; cases h)
    | some st =>
      have other : st ≠ .waiting →
          ((deliver fe d σ e).ints = σ0.ints ∧ (deliver fe d σ e).clock = σ0.clock ∧
            (deliver fe d σ e).heap = σ.heap ∧ (deliver fe d σ e).trie = σ.trie ∧ (deliver fe d σ e).errs = σ.errs) ∧
          (deliver fe d σ e).sts =
            upd (fun e => (σ0.ints[e]?).map (fun I => taken fe σ0.clock I.toReq d)) σ.sts e := by
        intro hne
        cases fe with
        | v1 =>
          exact same σ rfl rfl rfl rfl rfl rfl (by unfold deliver; rw [hie, hse]; cases st <;> simp_all)
            (fun h => by rw [hse] at h; exact absurd (Option.some.inj h) hne)
        | v2 =>
          exact same { σ with vcalls := σ.vcalls ++ [(e, d, σ.clock)] } rfl rfl rfl rfl rfl rfl
            (by unfold deliver; rw [hie, hse]; cases st <;> simp_all)
            (fun h => by rw [hse] at h; exact absurd (Option.some.inj h) hne)
      cases st with
      | waiting =>
        have hupd : upd (fun e => (σ0.ints[e]?).map (fun I => taken fe σ0.clock I.toReq d)) σ.sts e =
            σ.sts.set e (taken fe σ0.clock I.toReq d) := by
          simp [upd, hse, hie0]
        rw [hupd]
        unfold deliver
        rw [hie, hse, ← hc]
        exact ⟨⟨hi, rfl, rfl, rfl, rfl⟩, rfl⟩
      | validating d' fin => exact other (by simp)
      | done o t' => exact other (by simp)
      | held o => exact other (by simp)

/-- one node of the walk: entries `p` of the node `b` stop waiting -/
theorem winv_node_step {σ σ' : State} {cl : List Name} (hW : WInv σ cl) {b : Name × Nat} (hb : b ∈ σ.trie)
    (hbcl : b.1 ∉ cl) (p : Nat → Bool) (hints : σ'.ints = σ.ints) (hlen : σ'.sts.length = σ.sts.length)
    (hA : ∀ e ∈ pend σ b.2, p e = true → σ'.sts[e]? ≠ some .waiting)
    (hB : ∀ j, ¬ (j ∈ pend σ b.2 ∧ p j = true) → σ'.sts[j]? = σ.sts[j]?)
    (htrie : σ'.trie = σ.trie) :
    ((pend σ b.2).filter (fun e => !p e) = [] → σ'.heap = σ.heap → WInv σ' (cl ++ [b.1])) ∧
    ((pend σ b.2).filter (fun e => !p e) ≠ [] →
      σ'.heap = σ.heap.set b.2 ((pend σ b.2).filter (fun e => !p e)) → WInv σ' cl) := by
  have hother : ∀ b' ∈ σ.trie, b'.2 ≠ b.2 → ∀ e ∈ pend σ b'.2, e ∉ pend σ b.2 := by
    intro b' hb' hne e he hc
    obtain ⟨I1, a1, a3, _, _⟩ := hW.linked b' hb' e he
    obtain ⟨I2, b1, b3, _, _⟩ := hW.linked b hb e hc
    rw [a1] at b1; cases b1
    exact hne (a3.symm.trans b3)
  have hwait : ∀ j J, σ'.ints[j]? = some J → σ'.sts[j]? = some .waiting →
      σ.ints[j]? = some J ∧ σ.sts[j]? = some .waiting ∧ ¬ (j ∈ pend σ b.2 ∧ p j = true) := by
    intro j J hj hw
    have hnp : ¬ (j ∈ pend σ b.2 ∧ p j = true) := fun hc => hA j hc.1 hc.2 hw
    rw [hB j hnp] at hw
    exact ⟨hints ▸ hj, hw, hnp⟩
  constructor
  · intro huns hheap
    have hpend : ∀ n, pend σ' n = pend σ n := by intro n; simp only [pend_def, hheap]
    have hall : ∀ e ∈ pend σ b.2, p e = true := by
      intro e he
      cases hp : p e with
      | true => rfl
      | false =>
        have : e ∈ (pend σ b.2).filter (fun e => !p e) := List.mem_filter.mpr ⟨he, by simp [hp]⟩
        rw [huns] at this; simp at this
    refine ⟨by rw [hlen, hints]; exact hW.len, htrie ▸ hW.names, htrie ▸ hW.ids, ?_, ?_, ?_, ?_, ?_⟩
    · intro b' hb' e he
      rw [htrie] at hb'; rw [hpend] at he
      obtain ⟨I, h1, h2, h3, h4⟩ := hW.linked b' hb' e he
      refine ⟨I, hints ▸ h1, h2, h3, ?_⟩
      intro hn
      simp only [List.mem_append, List.mem_singleton, not_or] at hn
      have hne : b'.2 ≠ b.2 := by
        intro hc
        exact hn.2 (congrArg Prod.fst (snd_inj_of_nodup hW.ids hb' hb hc))
      rw [hB e (fun hc => hother b' hb' hne e he hc.1)]
      exact h4 hn.1
    · intro b' hb'; rw [htrie] at hb'; rw [hpend]; exact hW.nonempty b' hb'
    · intro j J hj hw
      obtain ⟨k1, k2, k3⟩ := hwait j J hj hw
      obtain ⟨h1, h2, h3⟩ := hW.waiting j J k1 k2
      refine ⟨htrie ▸ h1, by rw [hpend]; exact h2, ?_⟩
      simp only [List.mem_append, List.mem_singleton, not_or]
      refine ⟨h3, ?_⟩
      intro hc
      have := fst_inj_of_nodup hW.names h1 hb hc
      have hn : J.node = b.2 := (Prod.mk.inj this).2
      exact k3 ⟨hn ▸ h2, hall j (hn ▸ h2)⟩
    · intro n hn
      rw [htrie]
      rcases List.mem_append.mp hn with hn | hn
      · exact hW.clsub n hn
      · simp only [List.mem_singleton] at hn; subst hn
        exact List.mem_map.mpr ⟨b, hb, rfl⟩
    · exact List.nodup_append.mpr ⟨hW.clnodup, by simp, by
        intro a ha c hc; simp only [List.mem_singleton] at hc; subst hc
        intro hac; subst hac; exact hbcl ha⟩
  · intro huns hheap
    have hlt : b.2 < σ.heap.length := lt_of_getD_ne_nil (hW.nonempty b hb)
    have hpend : ∀ n, pend σ' n = if b.2 = n then (pend σ b.2).filter (fun e => !p e) else pend σ n := by
      intro n; simp only [pend_def, hheap, getD_set, hlt, and_true]
    refine ⟨by rw [hlen, hints]; exact hW.len, htrie ▸ hW.names, htrie ▸ hW.ids, ?_, ?_, ?_,
      htrie ▸ hW.clsub, hW.clnodup⟩
    · intro b' hb' e he
      rw [htrie] at hb'; rw [hpend] at he
      by_cases hn : b.2 = b'.2
      · rw [if_pos hn] at he
        obtain ⟨he1, he2⟩ := List.mem_filter.mp he
        obtain ⟨I, h1, h2, h3, h4⟩ := hW.linked b' hb' e (hn ▸ he1)
        refine ⟨I, hints ▸ h1, h2, h3, ?_⟩
        intro hc
        rw [hB e (fun hx => by simp [hx.2] at he2)]
        exact h4 hc
      · rw [if_neg hn] at he
        obtain ⟨I, h1, h2, h3, h4⟩ := hW.linked b' hb' e he
        refine ⟨I, hints ▸ h1, h2, h3, ?_⟩
        intro hc
        rw [hB e (fun hx => hother b' hb' (fun x => hn x.symm) e he hx.1)]
        exact h4 hc
    · intro b' hb'; rw [htrie] at hb'; rw [hpend]
      split
      · exact huns
      · exact hW.nonempty b' hb'
    · intro j J hj hw
      obtain ⟨k1, k2, k3⟩ := hwait j J hj hw
      obtain ⟨h1, h2, h3⟩ := hW.waiting j J k1 k2
      refine ⟨htrie ▸ h1, ?_, h3⟩
      rw [hpend]
      by_cases hn : b.2 = J.node
      · rw [if_pos hn]
        refine List.mem_filter.mpr ⟨hn ▸ h2, ?_⟩
        cases hp : p j with
        | false => rfl
        | true => exact absurd ⟨hn ▸ h2, hp⟩ k3
      · rw [if_neg hn]; exact h2

theorem passes_iff {ints : List Interest} {j : Nat} {J : Interest} (hj : ints[j]? = some J) {nm : Name}
    (hp : J.name <+: nm) (dg : Nat) :
    passes ints (J.name != nm) dg j = true ↔ Matches J.toReq nm dg := by
  unfold passes Matches
  rw [hj]
  cases hi : J.implicit <;> by_cases hn : J.name = nm <;> cases hc : J.cbp <;> simp_all

theorem Matches.prefix {r : Req} {nm : Name} {dg : Nat} (h : Matches r nm dg) : r.name <+: nm := by
  rcases h.1 with h1 | h1
  · rw [h1]; exact List.prefix_refl _
  · exact h1.2.1

/-- one step of the walk of `_on_data` -/
theorem walkStep_eff (fe : FrontEnd) (nm : Name) (dg d : Nat) {acc : State} {cl : List Name}
    (hW : WInv acc cl) {b : Name × Nat} (hb : b ∈ acc.trie) (hbcl : b.1 ∉ cl) :
    WInv (walkStep fe nm dg d (acc, cl) b).1 (walkStep fe nm dg d (acc, cl) b).2 ∧
    (walkStep fe nm dg d (acc, cl) b).1.ints = acc.ints ∧ (walkStep fe nm dg d (acc, cl) b).1.clock = acc.clock ∧
    (walkStep fe nm dg d (acc, cl) b).1.trie = acc.trie ∧ (walkStep fe nm dg d (acc, cl) b).1.errs = acc.errs ∧
    (walkStep fe nm dg d (acc, cl) b).1.sts.length = acc.sts.length ∧
    (∀ n ∈ (walkStep fe nm dg d (acc, cl) b).2, n ∈ cl ∨ n = b.1) ∧
    ∀ (j : Nat) (J : Interest) (s : IState), acc.ints[j]? = some J → acc.sts[j]? = some s →
      (walkStep fe nm dg d (acc, cl) b).1.sts[j]? =
        some (if s = .waiting ∧ J.name = b.1 ∧ Matches J.toReq nm dg then taken fe acc.clock J.toReq d else s) := by
  unfold walkStep
  by_cases hpre : b.1.isPrefixOf nm = true
  · have hp : b.1 <+: nm := List.isPrefixOf_iff_prefix.mp hpre
    rw [if_pos hpre]
    simp only
    unfold satisfyNode
    simp only
    obtain ⟨f, hf⟩ : ∃ f : Nat → Option IState,
      f = fun e => (acc.ints[e]?).map (fun I => taken fe acc.clock I.toReq d) := ⟨_, rfl⟩
    have hfw : ∀ e s, f e = some s → s ≠ .waiting := by
      intro e s he; rw [hf] at he
      cases h1 : acc.ints[e]? with
      | none => simp [h1] at he
      | some I => simp [h1] at he; rw [← he]; exact taken_ne_waiting _ _ _ _
    obtain ⟨p, hp'⟩ : ∃ p : Nat → Bool, p = passes acc.ints (b.1 != nm) dg := ⟨_, rfl⟩
    rw [← hp']
    have key := foldl_op_upd (op := deliver fe d) (f := f)
      (P := fun s => s.ints = acc.ints ∧ s.clock = acc.clock ∧ s.heap = acc.heap ∧ s.trie = acc.trie ∧
        s.errs = acc.errs)
      (by
        intro s e hP
        obtain ⟨a, c⟩ := deliver_eff fe d acc s e hP.1 hP.2.1
        refine ⟨⟨a.1, a.2.1, a.2.2.1.trans hP.2.2.1, a.2.2.2.1.trans hP.2.2.2.1, a.2.2.2.2.trans hP.2.2.2.2⟩, ?_⟩
        rw [c, hf])
      ((pend acc b.2).filter p) acc ⟨rfl, rfl, rfl, rfl, rfl⟩
    obtain ⟨σ1, hσ1⟩ : ∃ x, x = ((pend acc b.2).filter p).foldl (deliver fe d) acc := ⟨_, rfl⟩
    rw [← hσ1] at key ⊢
    obtain ⟨⟨k1, k2, k3, k4, k5⟩, k6⟩ := key
    have hget : ∀ j, σ1.sts[j]? = if (j ∈ pend acc b.2 ∧ p j = true) ∧ acc.sts[j]? = some .waiting
        then (match f j with | some s => some s | none => some .waiting) else acc.sts[j]? := by
      intro j
      rw [k6, foldl_upd_get f hfw]
      simp only [List.mem_filter]
    have hlen : σ1.sts.length = acc.sts.length := by rw [k6, foldl_upd_length]
    have hA : ∀ e ∈ pend acc b.2, p e = true → σ1.sts[e]? ≠ some .waiting := by
      intro e he hpe
      obtain ⟨I, h1, _, _, h4⟩ := hW.linked b hb e he
      rw [hget, if_pos ⟨⟨he, hpe⟩, h4 hbcl⟩]
      cases hfe : f e with
      | none => rw [hf] at hfe; simp [h1] at hfe
      | some s => simp; exact hfw e s hfe
    have hB : ∀ j, ¬ (j ∈ pend acc b.2 ∧ p j = true) → σ1.sts[j]? = acc.sts[j]? := by
      intro j hn; rw [hget, if_neg (fun hc => hn hc.1)]
    have heff : ∀ (j : Nat) (J : Interest) (s : IState), acc.ints[j]? = some J → acc.sts[j]? = some s →
        σ1.sts[j]? =
          some (if s = .waiting ∧ J.name = b.1 ∧ Matches J.toReq nm dg then taken fe acc.clock J.toReq d else s) := by
      intro j J s hj hs
      rw [hget, hs]
      by_cases hw : s = .waiting
      · subst hw
        obtain ⟨h1, h2, _⟩ := hW.waiting j J hj hs
        have hiff : (j ∈ pend acc b.2 ∧ p j = true) ↔ (J.name = b.1 ∧ Matches J.toReq nm dg) := by
          constructor
          · intro ⟨a, c⟩
            obtain ⟨I', c1, _, c4, _⟩ := hW.linked b hb j a
            rw [hj] at c1; cases c1
            refine ⟨c4, ?_⟩
            rw [hp', ← c4] at c
            exact (passes_iff hj (c4 ▸ hp) dg).mp c
          · intro ⟨a, c⟩
            have := fst_inj_of_nodup hW.names h1 hb a
            have hn : J.node = b.2 := (Prod.mk.inj this).2
            refine ⟨hn ▸ h2, ?_⟩
            rw [hp', ← a]
            exact (passes_iff hj c.prefix dg).mpr c
        by_cases hM : J.name = b.1 ∧ Matches J.toReq nm dg
        · rw [if_pos ⟨hiff.mpr hM, rfl⟩, if_pos ⟨rfl, hM⟩, hf]
          simp [hj]
        · rw [if_neg (fun hc => hM (hiff.mp hc.1)), if_neg (fun hc => hM hc.2)]
      · rw [if_neg (fun hc => hw (Option.some.inj hc.2)), if_neg (fun hc => hw hc.1)]
    by_cases huns : (pend acc b.2).filter (fun e => !p e) = []
    · have hemp : ((pend acc b.2).filter (fun e => !p e)).isEmpty = true := by simp [huns]
      rw [if_pos hemp]
      simp only [if_true]
      exact ⟨(winv_node_step hW hb hbcl p k1 hlen hA hB k4).1 huns k3, k1, k2, k4, k5, hlen,
        fun n hn => by
          rcases List.mem_append.mp hn with h | h
          · exact Or.inl h
          · exact Or.inr (by simpa using h), heff⟩
    · have hemp : ((pend acc b.2).filter (fun e => !p e)).isEmpty = false := by simpa using huns
      rw [hemp]
      simp only [Bool.false_eq_true, if_false]
      refine ⟨(winv_node_step (σ' := { σ1 with heap := σ1.heap.set b.2 ((pend acc b.2).filter (fun e => !p e)) })
          hW hb hbcl p k1 hlen hA hB k4).2 huns (by simp only [k3]), k1, k2, k4, k5, hlen,
        fun n hn => Or.inl hn, heff⟩
  · rw [if_neg hpre]
    refine ⟨hW, rfl, rfl, rfl, rfl, rfl, fun n hn => Or.inl hn, ?_⟩
    intro j J s hj hs
    rw [hs]
    have : ¬ (s = .waiting ∧ J.name = b.1 ∧ Matches J.toReq nm dg) := by
      intro ⟨_, h2, h3⟩
      apply hpre
      rw [← h2]
      exact List.isPrefixOf_iff_prefix.mpr h3.prefix
    rw [if_neg this]

/-- the whole walk -/
theorem walk_eff (fe : FrontEnd) (nm : Name) (dg d : Nat) (todo : List (Name × Nat)) :
    ∀ (acc : State) (cl : List Name), WInv acc cl → (∀ b ∈ todo, b ∈ acc.trie) → (∀ b ∈ todo, b.1 ∉ cl) →
      (todo.map Prod.fst).Nodup →
      WInv (todo.foldl (walkStep fe nm dg d) (acc, cl)).1 (todo.foldl (walkStep fe nm dg d) (acc, cl)).2 ∧
      (todo.foldl (walkStep fe nm dg d) (acc, cl)).1.ints = acc.ints ∧
      (todo.foldl (walkStep fe nm dg d) (acc, cl)).1.clock = acc.clock ∧
      (todo.foldl (walkStep fe nm dg d) (acc, cl)).1.trie = acc.trie ∧
      (todo.foldl (walkStep fe nm dg d) (acc, cl)).1.errs = acc.errs ∧
      (todo.foldl (walkStep fe nm dg d) (acc, cl)).1.sts.length = acc.sts.length ∧
      ∀ (j : Nat) (J : Interest) (s : IState), acc.ints[j]? = some J → acc.sts[j]? = some s →
        (todo.foldl (walkStep fe nm dg d) (acc, cl)).1.sts[j]? =
          some (if s = .waiting ∧ J.name ∈ todo.map Prod.fst ∧ Matches J.toReq nm dg
            then taken fe acc.clock J.toReq d else s) := by
  induction todo with
  | nil =>
    intro acc cl hW _ _ _
    refine ⟨hW, rfl, rfl, rfl, rfl, rfl, ?_⟩
    intro j J s _ hs
    simp [hs]
  | cons b r ih =>
    intro acc cl hW hsub hcl hnd
    simp only [List.foldl_cons]
    simp only [List.map_cons, List.nodup_cons] at hnd
    obtain ⟨w1, w2, w3, w4, w5, w6, w7, w8⟩ :=
      walkStep_eff fe nm dg d hW (hsub b (List.mem_cons_self)) (hcl b (List.mem_cons_self))
    obtain ⟨acc1, cl1, h1⟩ : ∃ a c, walkStep fe nm dg d (acc, cl) b = (a, c) := ⟨_, _, rfl⟩
    rw [h1] at w1 w2 w3 w4 w5 w6 w7 w8 ⊢
    simp only at w1 w2 w3 w4 w5 w6 w7 w8
    obtain ⟨i1, i2, i3, i4, i5, i6, i7⟩ := ih acc1 cl1 w1
      (fun b' hb' => by rw [w4]; exact hsub b' (List.mem_cons_of_mem _ hb'))
      (fun b' hb' hc => by
        rcases w7 _ hc with h | h
        · exact hcl b' (List.mem_cons_of_mem _ hb') h
        · exact hnd.1 (h ▸ List.mem_map.mpr ⟨b', hb', rfl⟩))
      hnd.2
    refine ⟨i1, i2.trans w2, i3.trans w3, i4.trans w4, i5.trans w5, i6.trans w6, ?_⟩
    intro j J s hj hs
    have e1 := w8 j J s hj hs
    rw [i7 j J _ (w2 ▸ hj) e1, w3]
    simp only [List.map_cons, List.mem_cons]
    by_cases hc : s = .waiting ∧ J.name = b.1 ∧ Matches J.toReq nm dg
    · rw [if_pos hc]
      have : ¬ (taken fe acc.clock J.toReq d = .waiting ∧ J.name ∈ r.map Prod.fst ∧ Matches J.toReq nm dg) :=
        fun hx => taken_ne_waiting _ _ _ _ hx.1
      rw [if_neg this, if_pos ⟨hc.1, Or.inl hc.2.1, hc.2.2⟩]
    · rw [if_neg hc]
      by_cases hc2 : s = .waiting ∧ J.name ∈ r.map Prod.fst ∧ Matches J.toReq nm dg
      · rw [if_pos hc2, if_pos ⟨hc2.1, Or.inr hc2.2.1, hc2.2.2⟩]
      · rw [if_neg hc2, if_neg]
        intro ⟨a1, a2, a3⟩
        rcases a2 with a2 | a2
        · exact hc ⟨a1, a2, a3⟩
        · exact hc2 ⟨a1, a2, a3⟩

theorem delNames_eq (cl : List Name) : ∀ (σ : State), (∀ n ∈ cl, n ∈ σ.trie.map Prod.fst) → cl.Nodup →
    delNames cl σ = { σ with trie := σ.trie.filter (fun b => !cl.contains b.1) } := by
  induction cl with
  | nil =>
    intro σ _ _
    have : σ.trie.filter (fun b => !([] : List Name).contains b.1) = σ.trie :=
      List.filter_eq_self.mpr (fun _ _ => by simp)
    rw [this]; rfl
  | cons n r ih =>
    intro σ hsub hnd
    simp only [List.nodup_cons] at hnd
    have hsome : (σ.trie.lookup n).isSome = true := by
      cases hl : σ.trie.lookup n with
      | none => exact absurd (hsub n List.mem_cons_self) (lookup_none_iff.mp hl)
      | some v => rfl
    unfold delNames trieDel
    rw [if_pos hsome]
    simp only
    rw [ih]
    · simp only [List.filter_filter]
      congr 1
      apply List.filter_congr
      intro b _
      by_cases hb : b.1 = n
      · simp [hb]
      · simp [hb]
    · intro n' hn'
      have h1 := hsub n' (List.mem_cons_of_mem _ hn')
      obtain ⟨x, hx, rfl⟩ := List.mem_map.mp h1
      refine List.mem_map.mpr ⟨x, List.mem_filter.mpr ⟨hx, ?_⟩, rfl⟩
      have : x.1 ≠ n := fun hc => hnd.1 (hc ▸ hn')
      simpa using this
    · exact hnd.2

theorem inv_of_winv {σ : State} {cl : List Name} (hW : WInv σ cl) :
    Inv { σ with trie := σ.trie.filter (fun b => !cl.contains b.1) } := by
  have hmem : ∀ b, b ∈ σ.trie.filter (fun b => !cl.contains b.1) ↔ b ∈ σ.trie ∧ b.1 ∉ cl := by
    intro b; simp [List.mem_filter]
  refine ⟨hW.len, nodup_map_filter _ _ hW.names, nodup_map_filter _ _ hW.ids, ?_, ?_, ?_⟩
  · intro b hb e he
    obtain ⟨hb1, hb2⟩ := (hmem b).mp hb
    obtain ⟨I, h1, h2, h3, h4⟩ := hW.linked b hb1 e he
    exact ⟨I, h1, h4 hb2, h2, h3⟩
  · intro b hb
    exact hW.nonempty b ((hmem b).mp hb).1
  · intro j J hj hw
    obtain ⟨h1, h2, h3⟩ := hW.waiting j J hj hw
    exact ⟨(hmem _).mpr ⟨h1, h3⟩, h2⟩

theorem data_eff {σ : State} (h : Inv σ) (fe : FrontEnd) (nm : Name) (dg d : Nat) :
    Inv (onData fe σ nm dg d) ∧ (onData fe σ nm dg d).ints = σ.ints ∧ (onData fe σ nm dg d).clock = σ.clock ∧
    (onData fe σ nm dg d).errs = σ.errs ∧ (onData fe σ nm dg d).sts.length = σ.sts.length ∧
    ∀ (j : Nat) (J : Interest) (s : IState), σ.ints[j]? = some J → σ.sts[j]? = some s →
      (onData fe σ nm dg d).sts[j]? =
        some (if s = .waiting ∧ Matches J.toReq nm dg then taken fe σ.clock J.toReq d else s) := by
  unfold onData
  simp only
  obtain ⟨w1, w2, w3, w4, w5, w6, w7⟩ := walk_eff fe nm dg d σ.trie σ [] (WInv.of_inv h)
    (fun _ hb => hb) (fun _ _ => by simp) h.names
  obtain ⟨σ1, cl1, h1⟩ : ∃ a c, σ.trie.foldl (walkStep fe nm dg d) (σ, []) = (a, c) := ⟨_, _, rfl⟩
  rw [h1] at w1 w2 w3 w4 w5 w6 w7 ⊢
  simp only at w1 w2 w3 w4 w5 w6 w7 ⊢
  rw [delNames_eq cl1 σ1 w1.clsub w1.clnodup]
  refine ⟨inv_of_winv w1, w2, w3, w5, w6, ?_⟩
  intro j J s hj hs
  rw [w7 j J s hj hs]
  by_cases hw : s = .waiting
  · subst hw
    have hmem : J.name ∈ σ.trie.map Prod.fst :=
      List.mem_map.mpr ⟨_, (h.waiting j J hj hs).1, rfl⟩
    by_cases hM : Matches J.toReq nm dg
    · rw [if_pos ⟨rfl, hmem, hM⟩, if_pos ⟨rfl, hM⟩]
    · rw [if_neg (fun hc => hM hc.2.2), if_neg (fun hc => hM hc.2)]
  · rw [if_neg (fun hc => hw hc.1), if_neg (fun hc => hw hc.1)]

/-! ### one step of the model: invariant, no error, and refinement of the specification automaton -/

def isExpress : Ev → Bool
  | .express .. => true
  | _ => false

theorem step_eff_nonexpress {σ : State} (h : Inv σ) (fe : FrontEnd) (ev : Ev) (hne : isExpress ev = false) :
    Inv (step fe σ ev) ∧ (step fe σ ev).errs = σ.errs ∧ (step fe σ ev).ints = σ.ints ∧
    (step fe σ ev).clock = (match ev with | .tick t => max σ.clock t | .reach t => max σ.clock t | _ => σ.clock) ∧
    (step fe σ ev).sts.length = σ.sts.length ∧
    ∀ (j : Nat) (J : Interest) (s : IState), σ.ints[j]? = some J → σ.sts[j]? = some s →
      (step fe σ ev).sts[j]? = some (specReact fe σ.clock j J.toReq s ev) := by
  cases ev with
  | express => simp [isExpress] at hne
  | data nm dg d =>
    obtain ⟨a, b, c, e, f, g⟩ := data_eff h fe nm dg d
    exact ⟨a, e, b, c, f, g⟩
  | nack nm dg r =>
    obtain ⟨a, b, c, e, _, f, g⟩ := nack_eff h nm dg r
    exact ⟨a, e, b, c, f, g⟩
  | tick t =>
    obtain ⟨a, b, c, e, _, f, g⟩ := tick_eff h fe t
    exact ⟨a, e, b, c, f, g⟩
  | reach t =>
    obtain ⟨a, b, c, e, _, f, g⟩ := reach_eff h fe t
    exact ⟨a, e, b, c, f, g⟩
  | shutdown =>
    obtain ⟨a, b, c, e, _, _, f, g⟩ := shutdown_eff h
    exact ⟨a, e, b, c, f, g⟩
  | cancel i =>
    simp only [step]
    cases hi : σ.ints[i]? with
    | none =>
      rw [cancel_none fe σ i (Or.inl hi)]
      refine ⟨h, rfl, rfl, rfl, rfl, ?_⟩
      intro j J s hj hs
      have : i ≠ j := by intro hc; rw [hc, hj] at hi; cases hi
      simp [specReact, this, hs]
    | some I =>
      have hlt := h.idx_lt hi
      obtain ⟨si, hsi⟩ : ∃ si, σ.sts[i]? = some si := ⟨σ.sts[i], by simp [hlt]⟩
      obtain ⟨a, b, c, e, _, f⟩ := cancel_eff h fe hi hsi
      refine ⟨a, e, b, c, by rw [f]; simp, ?_⟩
      intro j J s hj hs
      rw [f, List.getElem?_set]
      by_cases hij : i = j
      · subst hij
        rw [hsi] at hs; cases hs
        rw [hi] at hj; cases hj
        simp [specReact, hlt]
      · simp [specReact, hij, hs]

theorem step_eff_express {σ : State} (h : Inv σ) (fe : FrontEnd) (nm : Name) (imp : Option Nat) (cbp : Bool)
    (life : Nat) (v : Verdict) (lat defer : Nat) (nr : Bool) :
    Inv (step fe σ (.express nm imp cbp life v lat defer nr)) ∧
    (step fe σ (.express nm imp cbp life v lat defer nr)).errs = σ.errs ∧
    (step fe σ (.express nm imp cbp life v lat defer nr)).clock = σ.clock ∧
    (step fe σ (.express nm imp cbp life v lat defer nr)).sts =
      σ.sts ++ [specFire fe σ.clock (mkReq fe σ.clock nm imp cbp life v lat defer) (initSt fe σ.clock nr)] ∧
    ∃ nid, (step fe σ (.express nm imp cbp life v lat defer nr)).ints =
      σ.ints ++ [⟨mkReq fe σ.clock nm imp cbp life v lat defer, nid⟩] := by
  obtain ⟨a, b, c, _, e, f⟩ := express_eff h fe nm imp cbp life v lat defer nr
  exact ⟨a, c, b, e, f⟩

theorem step_inv {σ : State} (h : Inv σ) (fe : FrontEnd) (ev : Ev) :
    Inv (step fe σ ev) ∧ (step fe σ ev).errs = σ.errs := by
  cases hx : isExpress ev with
  | false => exact ⟨(step_eff_nonexpress h fe ev hx).1, (step_eff_nonexpress h fe ev hx).2.1⟩
  | true =>
    cases ev with
    | express nm imp cbp life v lat defer nr =>
      exact ⟨(step_eff_express h fe nm imp cbp life v lat defer nr).1,
        (step_eff_express h fe nm imp cbp life v lat defer nr).2.1⟩
    | _ => simp [isExpress] at hx

/-- **refinement**: one step of the model is one step of the abstract table -/
theorem step_refines {σ : State} (h : Inv σ) (fe : FrontEnd) (ev : Ev) :
    abs (step fe σ ev) = Spec.step fe (abs σ) ev := by
  have hmap : ∀ (sts' : List IState), sts'.length = σ.sts.length →
      (∀ (j : Nat) (J : Interest) (s : IState), σ.ints[j]? = some J → σ.sts[j]? = some s →
        sts'[j]? = some (specReact fe σ.clock j J.toReq s ev)) →
      sts' = (abs σ).react fe ev := by
    intro sts' hlen hget
    apply List.ext_getElem?
    intro j
    unfold Spec.react abs
    rw [List.getElem?_mapIdx]
    rcases Nat.lt_or_ge j σ.sts.length with hj | hj
    · have hj2 : j < σ.ints.length := h.len ▸ hj
      rw [hget j σ.ints[j] σ.sts[j] (by simp [hj2]) (by simp [hj])]
      simp [hj, hj2]
    · rw [List.getElem?_eq_none (hlen ▸ hj), List.getElem?_eq_none hj]; rfl
  cases hx : isExpress ev with
  | false =>
    obtain ⟨_, _, b, c, e, f⟩ := step_eff_nonexpress h fe ev hx
    have := hmap _ e f
    unfold abs Spec.step
    cases ev with
    | express => simp [isExpress] at hx
    | tick t => simp only [b, c, this]; rfl
    | reach t => simp only [b, c, this]; rfl
    | data => simp only [b, c, this]; rfl
    | nack => simp only [b, c, this]; rfl
    | cancel => simp only [b, c, this]; rfl
    | shutdown => simp only [b, c, this]; rfl
  | true =>
    cases ev with
    | express nm imp cbp life v lat defer nr =>
      obtain ⟨_, _, c, e, nid, f⟩ := step_eff_express h fe nm imp cbp life v lat defer nr
      have := hmap σ.sts rfl (by intro j J s _ hs; rw [hs]; rfl)
      unfold abs Spec.step
      simp only [c, e, f, List.map_append, List.map_cons, List.map_nil]
      show _ = ({ clock := σ.clock, reqs := _,
                  sts := Spec.react fe (abs σ) (Ev.express nm imp cbp life v lat defer nr) ++ [_] } : Spec)
      rw [← this]
    | _ => simp [isExpress] at hx

end Ndn.Pit
