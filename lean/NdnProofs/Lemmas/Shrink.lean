import NdnModel.Shrink
import NdnProofs.Lemmas.TlNum
/-! `shrink_length` is correct for every type, old length and shrink amount: the 253 / 65536
    crossings are cases of this proof, not samples. -/
namespace Ndn

theorem pySlice_shift {α} (pre buf : List α) (a b : Nat) :
    pySlice (pre ++ buf) (pre.length + a) (pre.length + b) = pySlice buf a b := by
  simp [pySlice, List.take_append, List.drop_append]

theorem parseTlNum_shift (pre buf : Bytes) (off : Nat) :
    parseTlNum (pre ++ buf) (pre.length + off) = parseTlNum buf off := by
  unfold parseTlNum unpackAt
  have : (pre ++ buf)[pre.length + off]? = buf[off]? := by
    simp [List.getElem?_append_right]
  rw [this]
  simp only [Nat.add_assoc, pySlice_shift]

theorem tlNumSize_mono {a b : Nat} (h : a ≤ b) : tlNumSize a ≤ tlNumSize b := by
  unfold tlNumSize; repeat' split
  all_goals omega

theorem blit_ok (buf : Bytes) (off : Nat) (bs : Bytes) (h : off + bs.length ≤ buf.length) :
    blit buf off bs = .ok (buf.take off ++ bs ++ buf.drop (off + bs.length)) := by
  simp [blit, h]

theorem shrink_lists (T L' Lr body : Bytes) (k : Nat) (hk : 0 < k) (hkb : k ≤ body.length) :
    ∃ w2 w3, blit (T ++ L' ++ Lr ++ body) Lr.length T = .ok w2 ∧
      blit w2 (T.length + Lr.length) L' = .ok w3 ∧
      sliceToNeg w3 Lr.length k = T ++ L' ++ body.take (body.length - k) := by
  generalize hb : T ++ L' ++ Lr ++ body = buf1
  have hlen : buf1.length = T.length + L'.length + Lr.length + body.length := by
    subst hb; simp; omega
  have hP : (buf1.take Lr.length).length = Lr.length := by simp; omega
  generalize hPd : buf1.take Lr.length = P at hP
  have hdrop : buf1.drop (Lr.length + T.length + L'.length) = body := by
    subst hb
    have : Lr.length + T.length + L'.length = (T ++ L' ++ Lr).length := by simp; omega
    rw [this, List.drop_left]
  refine ⟨P ++ T ++ buf1.drop (Lr.length + T.length), P ++ T ++ L' ++ body, ?_, ?_, ?_⟩
  · rw [blit_ok _ _ _ (by omega), hPd]
  · have hl : T.length + Lr.length = (P ++ T).length := by simp; omega
    rw [blit_ok _ _ _ (by simp; omega), hl, List.take_left]
    rw [show (P ++ T).length + L'.length = (P ++ T).length + L'.length from rfl, ← List.drop_drop,
      List.drop_left, List.drop_drop, ← hdrop]
  · simp only [sliceToNeg, pySlice]
    have : k ≠ 0 := by omega
    simp only [this, if_false]
    have : (P ++ T ++ L' ++ body).length - k = (P ++ T ++ L').length + (body.length - k) := by
      simp; omega
    rw [this, List.take_length_add_append, ← hP]
    simp [List.append_assoc]

/-- **shrink_spec.** For a well-formed element `T L body` and any `0 < k ≤ |body|`,
    `shrink_length` returns the well-formed element with the last `k` body bytes removed,
    with the Length re-encoded in shortest form. -/
theorem shrink_spec (t n k : Nat) (body : Bytes) (ht : t < 2^64) (hn : n < 2^64)
    (hb : body.length = n) (hk : 0 < k) (hkn : k ≤ n) :
    shrinkLength (writeTlNum t ++ writeTlNum n ++ body) k
      = .ok (writeTlNum t ++ writeTlNum (n - k) ++ body.take (n - k)) := by
  unfold shrinkLength
  have p1 : parseTlNum (writeTlNum t ++ writeTlNum n ++ body) 0 = .ok (t, tlNumSize t) := by
    rw [List.append_assoc]; exact parse_write t _ ht
  have p2 : parseTlNum (writeTlNum t ++ writeTlNum n ++ body) (tlNumSize t) = .ok (n, tlNumSize n) := by
    have := parseTlNum_shift (writeTlNum t) (writeTlNum n ++ body) 0
    rw [writeTlNum_length, Nat.add_zero, ← List.append_assoc] at this
    rw [this]; exact parse_write n _ hn
  simp only [p1, p2, bind, Except.bind]
  have hlt : ¬ n < k := by omega
  simp only [hlt, if_false]
  have hnk : n - k < 2^64 := by omega
  unfold writeTlNumInto
  simp only [hnk, ht, if_true, bind, Except.bind, pure, Except.pure]
  have hmono := tlNumSize_mono (Nat.sub_le n k)
  generalize hL : writeTlNum n = L
  have hLlen : L.length = tlNumSize n := by rw [← hL, writeTlNum_length]
  generalize hT : writeTlNum t = T
  have hTlen : T.length = tlNumSize t := by rw [← hT, writeTlNum_length]
  generalize hL' : writeTlNum (n - k) = L'
  have hL'len : L'.length = tlNumSize (n - k) := by rw [← hL', writeTlNum_length]
  have hsplit : L = L.take L'.length ++ L.drop L'.length := (List.take_append_drop _ _).symm
  generalize hLa : L.take L'.length = La at hsplit
  generalize hLr : L.drop L'.length = Lr at hsplit
  have hLalen : La.length = L'.length := by rw [← hLa]; simp; omega
  have hLrlen : Lr.length = tlNumSize n - tlNumSize (n - k) := by rw [← hLr]; simp; omega
  have b1 : blit (T ++ L ++ body) (tlNumSize t) L' = .ok (T ++ L' ++ Lr ++ body) := by
    rw [hsplit, ← hTlen]
    have := blit_ok (T ++ (La ++ Lr) ++ body) T.length L' (by simp; omega)
    rw [this]
    simp [List.drop_append, hLalen]
  rw [b1]
  simp only []
  by_cases heq : tlNumSize (n - k) = tlNumSize n
  · simp only [heq, if_true]
    have : Lr = [] := by apply List.eq_nil_of_length_eq_zero; omega
    subst this
    simp only [sliceToNeg, pySlice, show k ≠ 0 by omega, if_false, List.drop_zero, List.append_nil]
    have : (T ++ L' ++ body).length - k = (T ++ L').length + (n - k) := by simp; omega
    rw [this, List.take_length_add_append]
  · simp only [heq, if_false]
    obtain ⟨w2, w3, h2, h3, h4⟩ := shrink_lists T L' Lr body k hk (by omega)
    rw [← hLrlen, ← hTlen, h2]
    simp only []
    rw [h3]
    simp only [h4, hb]

end Ndn
