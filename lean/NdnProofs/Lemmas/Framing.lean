import NdnModel.Framing
import NdnProofs.Lemmas.TlNum
/-! Helper lemmas for the stream framing loop (C06 a). -/
namespace Ndn.Framing
open Ndn

theorem readExactly_split {s a r : Bytes} {n : Nat} (h : readExactly s n = some (a, r)) :
    s = a ++ r ∧ a.length = n := by
  unfold readExactly at h
  split at h
  · simp only [Option.some.injEq, Prod.mk.injEq] at h
    obtain ⟨rfl, rfl⟩ := h
    simp [List.take_append_drop]; omega
  · simp at h

theorem readExactly_mono {s a r : Bytes} {n : Nat} (e : Bytes) (h : readExactly s n = some (a, r)) :
    readExactly (s ++ e) n = some (a, r ++ e) := by
  unfold readExactly at h ⊢
  split at h
  · rename_i hn
    simp only [Option.some.injEq, Prod.mk.injEq] at h
    obtain ⟨rfl, rfl⟩ := h
    have : n ≤ s.length + e.length := by omega
    simp [this, List.take_append_of_le_length hn, List.drop_append_of_le_length hn]
  · simp at h

theorem readExactly_append (a r : Bytes) : readExactly (a ++ r) a.length = some (a, r) := by
  simp [readExactly]

theorem readTlNum_split {s b r : Bytes} {x : Nat} (h : readTlNum s = some (x, b, r)) :
    s = b ++ r ∧ 1 ≤ b.length := by
  unfold readTlNum at h
  split at h
  · simp at h
  · rename_i b0 r0 h0
    obtain ⟨rfl, hl⟩ := readExactly_split h0
    simp only at h
    split at h
    · simp only [Option.some.injEq, Prod.mk.injEq] at h
      obtain ⟨_, rfl, rfl⟩ := h
      exact ⟨rfl, by omega⟩
    · split at h
      · simp at h
      · rename_i v r' h1
        obtain ⟨rfl, _⟩ := readExactly_split h1
        simp only [Option.some.injEq, Prod.mk.injEq] at h
        obtain ⟨_, rfl, rfl⟩ := h
        exact ⟨by simp, by simp; omega⟩

theorem readTlNum_mono {s b r : Bytes} {x : Nat} (e : Bytes) (h : readTlNum s = some (x, b, r)) :
    readTlNum (s ++ e) = some (x, b, r ++ e) := by
  unfold readTlNum at h ⊢
  split at h
  · simp at h
  · rename_i b0 r0 h0
    rw [readExactly_mono e h0]
    simp only at h ⊢
    split at h
    · rename_i hx
      simp only [Option.some.injEq, Prod.mk.injEq] at h
      obtain ⟨rfl, rfl, rfl⟩ := h
      rw [if_pos hx]
    · rename_i hx
      simp only [hx, if_false]
      split at h
      · simp at h
      · rename_i v r' h1
        rw [readExactly_mono e h1]
        simp only [Option.some.injEq, Prod.mk.injEq] at h ⊢
        obtain ⟨rfl, rfl, rfl⟩ := h
        exact ⟨rfl, rfl, rfl⟩

theorem readPacket_split {s buf r : Bytes} {t : Nat} (h : readPacket s = some ((t, buf), r)) :
    s = buf ++ r ∧ 2 ≤ buf.length := by
  unfold readPacket at h
  split at h
  · simp at h
  · rename_i typ b1 r1 h1
    obtain ⟨rfl, l1⟩ := readTlNum_split h1
    split at h
    · simp at h
    · rename_i siz b2 r2 h2
      obtain ⟨rfl, l2⟩ := readTlNum_split h2
      split at h
      · simp at h
      · rename_i body r3 h3
        obtain ⟨rfl, _⟩ := readExactly_split h3
        simp only [Option.some.injEq, Prod.mk.injEq] at h
        obtain ⟨⟨_, rfl⟩, rfl⟩ := h
        exact ⟨by simp, by simp; omega⟩

theorem readPacket_mono {s r : Bytes} {p : Nat × Bytes} (e : Bytes) (h : readPacket s = some (p, r)) :
    readPacket (s ++ e) = some (p, r ++ e) := by
  unfold readPacket at h ⊢
  split at h
  · simp at h
  · rename_i typ b1 r1 h1
    rw [readTlNum_mono e h1]
    simp only at h ⊢
    split at h
    · simp at h
    · rename_i siz b2 r2 h2
      rw [readTlNum_mono e h2]
      simp only at h ⊢
      split at h
      · simp at h
      · rename_i body r3 h3
        rw [readExactly_mono e h3]
        simp only [Option.some.injEq, Prod.mk.injEq] at h ⊢
        obtain ⟨rfl, rfl⟩ := h
        exact ⟨rfl, rfl⟩

/-- reading a TL number from a stream that starts with `write_tl_num(x)` gives `x` back and
    consumes exactly those bytes. -/
theorem readTlNum_write (x : Nat) (rest : Bytes) (hx : x < 2^64) :
    readTlNum (writeTlNum x ++ rest) = some (x, writeTlNum x, rest) := by
  unfold writeTlNum
  by_cases h1 : x ≤ 0xFC
  · have e : x % 256 = x := by omega
    simp [h1, readTlNum, readExactly, be1, UInt8.toNat_ofNat', e]
  · by_cases h2 : x ≤ 0xFFFF
    · have hv := beVal_be2 x (by omega)
      simp only [h1, h2, if_false, if_true]
      simp [readTlNum, readExactly, be2] at hv ⊢
      simpa [be2] using hv
    · by_cases h3 : x ≤ 0xFFFFFFFF
      · have hv := beVal_be4 x (by omega)
        simp only [h1, h2, h3, if_false, if_true]
        simp [readTlNum, readExactly, be4] at hv ⊢
        simpa [be4] using hv
      · have hv := beVal_be8 x (by omega)
        simp only [h1, h2, h3, if_false]
        simp [readTlNum, readExactly, be8] at hv ⊢
        simpa [be8] using hv

/-- one complete element at the head of the stream is read as exactly that element. -/
theorem readPacket_tlv (t : Nat) (v rest : Bytes) (ht : t < 2^64) (hv : v.length < 2^64) :
    readPacket (tlv t v ++ rest) = some ((t, tlv t v), rest) := by
  unfold readPacket tlv
  simp only [List.append_assoc]
  rw [readTlNum_write t _ ht]
  simp only
  rw [readTlNum_write _ _ hv]
  simp only
  rw [readExactly_append]

/-- a proper prefix of an element is never handed over. -/
theorem readPacket_proper_prefix (t : Nat) (v pre ext : Bytes) (ht : t < 2^64) (hv : v.length < 2^64)
    (hp : pre ++ ext = tlv t v) (hne : ext ≠ []) : readPacket pre = none := by
  cases h : readPacket pre with
  | none => rfl
  | some pr =>
    obtain ⟨p, r⟩ := pr
    have h1 := readPacket_mono ext h
    have h2 := readPacket_tlv t v [] ht hv
    rw [List.append_nil, ← hp, h1] at h2
    simp only [Option.some.injEq, Prod.mk.injEq] at h2
    have : ext = [] := by
      have := h2.2
      simp at this
      exact this.2
    exact absurd this hne

theorem tlv_length_ge (t : Nat) (v : Bytes) : 2 ≤ (tlv t v).length := by
  have a := tlNumSize_pos t
  have b := tlNumSize_pos v.length
  simp [tlv, writeTlNum_length]; omega

end Ndn.Framing
