import NdnProofs.Lemmas.NameStr
/-! `Component.escape_str` followed by `from_str`, on arbitrary text. -/
namespace Ndn
open Comp

theorem inCharset_lt (c : Char) (h : inCharset c = true) : c.toNat < 128 := by
  simp [inCharset_eq, isAsciiLetter, isAsciiDigit] at h
  rcases h with ((((((h | h) | h) | h) | h) | h) | h) | h
  all_goals first | omega | (subst h; decide)

theorem utf8_ascii (c : Char) (h : c.toNat < 128) : String.utf8EncodeChar c = [UInt8.ofNat c.toNat] := by
  unfold String.utf8EncodeChar
  have : c.val.toNat ≤ 127 := by show c.toNat ≤ 127; omega
  simp only [this, if_true]; rfl

/-- shape of `%XX` for each byte value -/
def pctGood (b : UInt8) : Bool :=
  let x := hexUpper (b.toNat / 16)
  let y := hexUpper (b.toNat % 16)
  pyHexByte x y == some b && inCharset x && inCharset y && x != '=' && y != '='

theorem pctGood_fin : ∀ n : Fin 256, pctGood (UInt8.ofNat n.val) = true := by decide +kernel

theorem pctGood_all (b : UInt8) : pctGood b = true := by
  have := pctGood_fin ⟨b.toNat, b.toNat_lt⟩
  simpa using this

theorem pctByte_spec (b : UInt8) :
    (∀ c ∈ pctByte b, inCharset c = true ∧ c ≠ '=') ∧
    (∀ r, unescape (pctByte b ++ r) = (unescape r).map fun bs => b :: bs) := by
  have h := pctGood_all b
  simp only [pctGood, Bool.and_eq_true, bne_iff_ne, ne_eq, beq_iff_eq] at h
  obtain ⟨⟨⟨⟨h1, h2⟩, h3⟩, h4⟩, h5⟩ := h
  constructor
  · intro c hc
    simp [pctByte] at hc
    rcases hc with rfl | rfl | rfl
    · decide
    · exact ⟨h2, h4⟩
    · exact ⟨h3, h5⟩
  · intro r
    simp only [pctByte, List.cons_append, List.nil_append]
    exact unescape_pct _ _ r b h1

theorem unescape_pctBytes (bs : Bytes) (r : Str) :
    unescape (bs.flatMap pctByte ++ r) = (unescape r).map fun x => bs ++ x := by
  induction bs with
  | nil => simp
  | cons b bs ih =>
    rw [List.flatMap_cons, List.append_assoc, (pctByte_spec b).2, ih]
    cases unescape r <;> simp

def utf8 (s : Str) : Bytes := s.flatMap String.utf8EncodeChar

theorem escapeStr_cons (c : Char) (s : Str) :
    escapeStr (c :: s) = (if inCharset c then [c] else (String.utf8EncodeChar c).flatMap pctByte) ++ escapeStr s := by
  simp [escapeStr]

theorem unescape_escapeStr (s : Str) (h : ∀ c ∈ s, c ≠ '%') : unescape (escapeStr s) = some (utf8 s) := by
  induction s with
  | nil => rfl
  | cons c s ih =>
    have ih' := ih (fun x hx => h x (by simp [hx]))
    rw [escapeStr_cons]
    by_cases hc : inCharset c = true
    · simp only [hc, if_true, List.singleton_append]
      rw [unescape_plain c _ (h c (by simp)), ih']
      simp [utf8, utf8_ascii c (inCharset_lt c hc)]
    · simp only [hc, Bool.false_eq_true, if_false]
      rw [unescape_pctBytes, ih']
      simp [utf8]

theorem escapeStr_chars (s : Str) (h : ∀ c ∈ s, c ≠ '=') :
    ∀ c ∈ escapeStr s, inCharset c = true ∧ c ≠ '=' := by
  induction s with
  | nil => intro c hc; simp [escapeStr] at hc
  | cons a s ih =>
    intro c hc
    rw [escapeStr_cons] at hc
    simp only [List.mem_append] at hc
    rcases hc with hc | hc
    · by_cases ha : inCharset a = true
      · simp only [ha, if_true, List.mem_singleton] at hc
        subst hc; exact ⟨ha, h c (by simp)⟩
      · simp only [ha, Bool.false_eq_true, if_false, List.mem_flatMap] at hc
        obtain ⟨b, _, hb⟩ := hc
        exact (pctByte_spec b).1 c hb
    · exact ih (fun x hx => h x (by simp [hx])) c hc

/-- arbitrary text (without `%` and `=`, which `escape_str` leaves alone) becomes the generic component
    holding its UTF-8 bytes -/
theorem fromStr_escapeStr (s : Str) (h : ∀ c ∈ s, c ≠ '%' ∧ c ≠ '=') :
    fromStr (escapeStr s) = .ok (tlv 8 (utf8 s)) := by
  have hu := unescape_escapeStr s (fun c hc => (h c hc).1)
  by_cases he : escapeStr s = []
  · rw [he] at hu ⊢
    simp [unescape] at hu
    rw [hu]; rfl
  · exact fromStr_generic _ _ he (escapeStr_chars s (fun c hc => (h c hc).2)) hu

end Ndn
