import NdnProofs.Lemmas.PitRun
/-!
Events that share an event-loop turn: the linearisations of a history of turns (`lins`), the set of states they
lead to (`reachable`, what the driver computes), and the facts that tie them together.
-/
namespace Ndn.Pit

/-! ### orders of a list -/

theorem mem_inserts {α} {a : α} {l l' : List α} : l' ∈ inserts a l ↔ ∃ x y, l = x ++ y ∧ l' = x ++ a :: y := by
  induction l generalizing l' with
  | nil =>
    simp only [inserts, List.mem_singleton]
    constructor
    · intro h; exact ⟨[], [], rfl, h⟩
    · rintro ⟨x, y, h1, h2⟩
      obtain ⟨hx, hy⟩ := List.append_eq_nil_iff.mp h1.symm
      subst hx hy; exact h2
  | cons b r ih =>
    simp only [inserts, List.mem_cons, List.mem_map]
    constructor
    · rintro (h | ⟨m, hm, rfl⟩)
      · exact ⟨[], b :: r, rfl, h⟩
      · obtain ⟨x, y, h1, h2⟩ := ih.mp hm
        exact ⟨b :: x, y, by rw [h1]; rfl, by rw [h2]; rfl⟩
    · rintro ⟨x, y, h1, h2⟩
      cases x with
      | nil => left; simp at h1; rw [h2, ← h1]; rfl
      | cons c x' =>
        right
        simp only [List.cons_append, List.cons.injEq] at h1
        obtain ⟨rfl, h1⟩ := h1
        exact ⟨x' ++ a :: y, ih.mpr ⟨x', y, h1, rfl⟩, by rw [h2]; rfl⟩

theorem perm_of_mem_inserts {α} {a : α} {l l' : List α} (h : l' ∈ inserts a l) : l'.Perm (a :: l) := by
  obtain ⟨x, y, rfl, rfl⟩ := mem_inserts.mp h
  exact List.perm_middle

/-- every element of `perms l` is an order of `l` -/
theorem perm_of_mem_perms {α} {l l' : List α} (h : l' ∈ perms l) : l'.Perm l := by
  induction l generalizing l' with
  | nil => simp [perms] at h; subst h; exact List.Perm.refl _
  | cons a r ih =>
    simp only [perms, List.mem_flatMap] at h
    obtain ⟨m, hm, hl⟩ := h
    exact (perm_of_mem_inserts hl).trans (List.Perm.cons a (ih hm))

theorem self_mem_inserts {α} (a : α) (l : List α) : a :: l ∈ inserts a l := by
  cases l <;> simp [inserts]

/-- the order given is one of them -/
theorem self_mem_perms {α} (l : List α) : l ∈ perms l := by
  induction l with
  | nil => simp [perms]
  | cons a r ih => exact List.mem_flatMap.mpr ⟨r, ih, self_mem_inserts a r⟩

/-- a list that becomes an order of `l` when `a` is taken out of it is an order of `a :: l` -/
theorem mem_perms_insert {α} {a : α} {l x y : List α} (h : x ++ y ∈ perms l) : x ++ a :: y ∈ perms (a :: l) :=
  List.mem_flatMap.mpr ⟨x ++ y, h, mem_inserts.mpr ⟨x, y, rfl, rfl⟩⟩

/-- every order of `l` is in `perms l` -/
theorem mem_perms_of_perm {α} {l l' : List α} (h : l'.Perm l) : l' ∈ perms l := by
  induction l generalizing l' with
  | nil => rw [List.perm_nil.mp h]; simp [perms]
  | cons a r ih =>
    have ha : a ∈ l' := h.symm.subset List.mem_cons_self
    obtain ⟨x, y, rfl⟩ := List.append_of_mem ha
    have : (x ++ y).Perm r := (List.perm_cons a).mp (List.perm_middle.symm.trans h)
    exact mem_perms_insert (ih this)

theorem mem_perms_iff {α} {l l' : List α} : l' ∈ perms l ↔ l'.Perm l :=
  ⟨perm_of_mem_perms, mem_perms_of_perm⟩

/-! ### linearisations -/

/-- the linearisations of one turn: every order of its events, the timers of the instant after any number of them -/
theorem Turn.mem_lins {u : Turn} {l : List Ev} :
    l ∈ u.lins ↔ ∃ p, p.Perm u.evs ∧ ∃ k, k ≤ p.length ∧ l = Turn.lin u.t p k := by
  simp only [Turn.lins, List.mem_flatMap, List.mem_map, List.mem_range, mem_perms_iff]
  constructor
  · rintro ⟨p, hp, k, hk, rfl⟩; exact ⟨p, hp, k, by omega, rfl⟩
  · rintro ⟨p, hp, k, hk, rfl⟩; exact ⟨p, hp, k, by omega, rfl⟩

/-- the plain reading (timers first, events in the order given) is a linearisation -/
theorem Turn.plain_mem_lins (u : Turn) : .tick u.t :: u.evs ∈ u.lins :=
  Turn.mem_lins.mpr ⟨u.evs, List.Perm.refl _, 0, Nat.zero_le _, by simp [Turn.lin]⟩

/-- a turn without events (a clock tick) has one linearisation -/
theorem Turn.lins_tick (t : Nat) : (Turn.mk t []).lins = [[.tick t]] := by
  simp [Turn.lins, perms, Turn.lin]

theorem mem_lins_cons {u : Turn} {h : List Turn} {l : List Ev} :
    l ∈ lins (u :: h) ↔ ∃ a ∈ u.lins, ∃ b ∈ lins h, l = a ++ b := by
  simp only [lins, List.mem_flatMap, List.mem_map]
  constructor
  · rintro ⟨a, ha, b, hb, rfl⟩; exact ⟨a, ha, b, hb, rfl⟩
  · rintro ⟨a, ha, b, hb, rfl⟩; exact ⟨a, ha, b, hb, rfl⟩

theorem mem_lins_append {h h' : List Turn} {l : List Ev} :
    l ∈ lins (h ++ h') ↔ ∃ a ∈ lins h, ∃ b ∈ lins h', l = a ++ b := by
  induction h generalizing l with
  | nil => simp [lins]
  | cons u r ih =>
    rw [List.cons_append, mem_lins_cons]
    constructor
    · rintro ⟨a, ha, b, hb, rfl⟩
      obtain ⟨b1, hb1, b2, hb2, rfl⟩ := ih.mp hb
      exact ⟨a ++ b1, mem_lins_cons.mpr ⟨a, ha, b1, hb1, rfl⟩, b2, hb2, by simp⟩
    · rintro ⟨x, hx, b2, hb2, rfl⟩
      obtain ⟨a, ha, b1, hb1, rfl⟩ := mem_lins_cons.mp hx
      exact ⟨a, ha, b1 ++ b2, ih.mpr ⟨b1, hb1, b2, hb2, rfl⟩, by simp⟩

theorem mem_lins_snoc {h : List Turn} {u : Turn} {l : List Ev} :
    l ∈ lins (h ++ [u]) ↔ ∃ a ∈ lins h, ∃ b ∈ u.lins, l = a ++ b := by
  rw [mem_lins_append]
  constructor
  · rintro ⟨a, ha, b, hb, rfl⟩
    obtain ⟨b1, hb1, b2, hb2, rfl⟩ := mem_lins_cons.mp hb
    simp only [lins, List.mem_singleton] at hb2
    subst hb2
    exact ⟨a, ha, b1, hb1, by simp⟩
  · rintro ⟨a, ha, b, hb, rfl⟩
    exact ⟨a, ha, b, mem_lins_cons.mpr ⟨b, hb, [], by simp [lins], by simp⟩, rfl⟩

/-- the plain reading of a history of turns is one of its linearisations -/
theorem plain_mem_lins (h : List Turn) : plain h ∈ lins h := by
  induction h with
  | nil => simp [plain, lins]
  | cons u r ih =>
    refine mem_lins_cons.mpr ⟨_, u.plain_mem_lins, _, ih, ?_⟩
    simp [plain]

/-! ### the set of reachable states -/

theorem mem_addNew {α} [DecidableEq α] {acc : List α} {x y : α} : y ∈ addNew acc x ↔ y ∈ acc ∨ y = x := by
  unfold addNew
  split
  · rename_i h
    constructor
    · exact Or.inl
    · rintro (h1 | h1)
      · exact h1
      · rw [h1]; exact h
  · simp

theorem mem_foldl_addNew {α} [DecidableEq α] {l acc : List α} {y : α} :
    y ∈ l.foldl addNew acc ↔ y ∈ acc ∨ y ∈ l := by
  induction l generalizing acc with
  | nil => simp
  | cons x r ih => simp only [List.foldl_cons, ih, mem_addNew, List.mem_cons]; grind

theorem mem_dedup {α} [DecidableEq α] {l : List α} {y : α} : y ∈ dedup l ↔ y ∈ l := by
  unfold dedup; rw [mem_foldl_addNew]; simp

theorem mem_stepTurn {fe : FrontEnd} {S : List State} {u : Turn} {σ' : State} :
    σ' ∈ stepTurn fe S u ↔ ∃ σ ∈ S, ∃ l ∈ u.lins, l.foldl (step fe) σ = σ' := by
  unfold stepTurn
  rw [mem_dedup]
  simp only [List.mem_flatMap, List.mem_map]

/-- **the driver's exploration is exact**: the states it reaches turn by turn (with duplicates removed) are exactly the
    final states of the linearisations -/
theorem mem_reachable (fe : FrontEnd) (h : List Turn) (σ : State) :
    σ ∈ reachable fe h ↔ ∃ l ∈ lins h, run fe l = σ := by
  induction h using list_rev_induction generalizing σ with
  | h0 => simp [reachable, lins, run, eq_comm]
  | hs r u ih =>
    have : reachable fe (r ++ [u]) = stepTurn fe (reachable fe r) u := by
      simp [reachable, List.foldl_append]
    rw [this, mem_stepTurn]
    constructor
    · rintro ⟨σ0, h0, l, hl, rfl⟩
      obtain ⟨a, ha, rfl⟩ := (ih σ0).mp h0
      exact ⟨a ++ l, mem_lins_snoc.mpr ⟨a, ha, l, hl, rfl⟩, by rw [run_append]⟩
    · rintro ⟨l, hl, rfl⟩
      obtain ⟨a, ha, b, hb, rfl⟩ := mem_lins_snoc.mp hl
      exact ⟨run fe a, (ih _).mpr ⟨a, ha, rfl⟩, b, hb, by rw [run_append]⟩

theorem mem_allowed (fe : FrontEnd) (h : List Turn) (v : List IState) :
    v ∈ allowed fe h ↔ ∃ l ∈ lins h, (run fe l).sts = v := by
  simp [allowed]

/-- the outcome vectors of the reachable states are the allowed ones -/
theorem allowed_iff_reachable (fe : FrontEnd) (h : List Turn) (v : List IState) :
    v ∈ allowed fe h ↔ ∃ σ ∈ reachable fe h, σ.sts = v := by
  rw [mem_allowed]
  constructor
  · rintro ⟨l, hl, rfl⟩; exact ⟨_, (mem_reachable fe h _).mpr ⟨l, hl, rfl⟩, rfl⟩
  · rintro ⟨σ, hσ, rfl⟩
    obtain ⟨l, hl, rfl⟩ := (mem_reachable fe h σ).mp hσ
    exact ⟨l, hl, rfl⟩

/-! ### histories of turns without ties -/

/-- no event of the history is a `reach` (they only come from linearisations) -/
def Plain (h : List Turn) : Prop := ∀ u ∈ h, ∀ ev ∈ u.evs, ∀ t, ev ≠ .reach t

theorem noTie_plain {h : List Turn} (hp : Plain h) : NoTie (plain h) := by
  intro ev hev t
  simp only [plain, List.mem_flatMap, List.mem_cons] at hev
  obtain ⟨u, hu, hev⟩ := hev
  rcases hev with rfl | hev
  · intro hc; cases hc
  · exact hp u hu ev hev t

end Ndn.Pit
