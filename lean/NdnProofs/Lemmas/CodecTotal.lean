import NdnProofs.Lemmas.CodecParse
/-! Totality of the decoder model on arbitrary byte strings: fuel = length + 1 is always enough and only
    documented error classes can come out. -/
namespace Ndn.Codec
open Ndn

/-- a result that is either a value or one of the documented decoding errors -/
def Doc {α} (x : Except PyErr α) : Prop := ∀ e, x = .error e → docErr e = true

theorem Doc.ok {α} (a : α) : Doc (Except.ok a : Except PyErr α) := by intro e h; cases h

theorem Doc.err {α} (e : PyErr) (h : docErr e = true) : Doc (Except.error e : Except PyErr α) := by
  intro e' h'; cases h'; exact h

theorem Doc.bind {α β} {x : Except PyErr α} {f : α → Except PyErr β}
    (hx : Doc x) (hf : ∀ a, x = .ok a → Doc (f a)) : Doc (x >>= f) := by
  cases x with
  | error e => intro e' h; cases h; exact hx e rfl
  | ok a => exact hf a rfl

theorem unpackAt_doc (buf : Bytes) (a n : Nat) : Doc (unpackAt buf a n) := by
  unfold unpackAt; simp only []; split
  · exact Doc.ok _
  · exact Doc.err _ rfl

theorem parseTlNum_doc (buf : Bytes) (off : Nat) : Doc (parseTlNum buf off) := by
  unfold parseTlNum
  split
  · exact Doc.err _ rfl
  · repeat' split
    · exact Doc.ok _
    all_goals exact Doc.bind (unpackAt_doc _ _ _) (fun _ _ => Doc.ok _)

theorem parseTlNum_pos {buf : Bytes} {off v n : Nat} (h : parseTlNum buf off = .ok (v, n)) :
    1 ≤ n ∧ off < buf.length := by
  unfold parseTlNum at h
  cases hb : buf[off]? with
  | none => simp [hb] at h
  | some b =>
    have hlt : off < buf.length := (List.getElem?_eq_some_iff.mp hb).1
    simp only [hb] at h
    repeat' split at h
    all_goals first
      | (cases h; exact ⟨by omega, hlt⟩)
      | (obtain ⟨x, _, h3⟩ := bind_ok h; cases h3; exact ⟨by omega, hlt⟩)

theorem leafCheck_doc (s : Schema) (len : Nat) (body : Bytes) : Doc (leafCheck s len body) := by
  unfold leafCheck
  split
  · repeat' split
    · exact Doc.ok _
    · exact Doc.err _ rfl
    · exact Doc.err _ rfl
  · exact Doc.ok _

theorem decodeComps_doc : ∀ (fuel : Nat) (buf : Bytes) (off length : Nat), length < fuel →
    Doc (decodeComps fuel buf off length)
  | 0, _, _, _, h => by omega
  | fuel + 1, buf, off, length, h => by
    unfold decodeComps
    split
    · exact Doc.ok _
    · apply Doc.bind (parseTlNum_doc _ _); intro ⟨t, st⟩ h1
      apply Doc.bind (parseTlNum_doc _ _); intro ⟨lc, sl⟩ h2
      simp only []
      split
      · exact Doc.err _ rfl
      · rename_i hn
        have := (parseTlNum_pos h1).1
        apply Doc.bind (decodeComps_doc fuel buf _ _ (by omega)); intro _ _
        exact Doc.ok _

theorem decodeName_doc (buf : Bytes) (off : Nat) : Doc (decodeName buf off) := by
  unfold decodeName
  apply Doc.bind (parseTlNum_doc _ _); intro ⟨t, st⟩ _
  simp only []
  split
  · exact Doc.err _ rfl
  · apply Doc.bind (parseTlNum_doc _ _); intro ⟨len, sl⟩ _
    simp only []
    split
    · exact Doc.err _ rfl
    · exact decodeComps_doc _ _ _ _ (Nat.lt_succ_self _)

theorem findField_get : ∀ (fs : List Schema) (pos t i : Nat), findField fs pos t = some i →
    ∃ s, fs[i]? = some s ∧ s.typ = some t
  | [], _, _, _, h => by simp [findField] at h
  | a :: r, pos, t, i, h => by
    unfold findField at h
    split at h
    · split at h
      · rename_i ht; cases h; exact ⟨a, rfl, ht⟩
      · cases hr : findField r 0 t with
        | none => simp [hr] at h
        | some j =>
          simp [hr] at h; subst h
          obtain ⟨s, hs, ht⟩ := findField_get r 0 t j hr
          exact ⟨s, by simpa using hs, ht⟩
    · cases hr : findField r (pos - 1) t with
      | none => simp [hr] at h
      | some j =>
        simp [hr] at h; subst h
        obtain ⟨s, hs, ht⟩ := findField_get r (pos - 1) t j hr
        exact ⟨s, by simpa using hs, ht⟩

theorem pFs_get : ∀ (fs : List Schema) (i : Nat) (s : Schema), pFs fs = true → fs[i]? = some s → pS s = true
  | [], _, _, _, h => by simp at h
  | a :: r, 0, s, hp, h => by simp at h; subst h; simp [pFs] at hp; exact hp.1
  | a :: r, i + 1, s, hp, h => by
    simp at h; simp [pFs] at hp; exact pFs_get r i s hp.2 h

theorem pySlice_len_le {α} (buf : List α) (a b : Nat) : (pySlice buf a b).length ≤ buf.length - a := by
  simp [pySlice]; omega

end Ndn.Codec

namespace Ndn.Codec
open Ndn

theorem drop_len_lt {α} (rest : List α) (k f : Nat) (h : rest.length < f + 1) (hk : 2 ≤ k)
    (hr : 2 ≤ rest.length) : (rest.drop k).length < f := by
  simp; omega

/-- the two decoder functions, with enough fuel, only fail with documented errors -/
theorem total_step : ∀ (fuel : Nat),
    (∀ (fs : List Schema) (ic : Bool) (rest : Bytes) (off pos : Nat) (acc : List Value),
      pFs fs = true → rest.length < fuel → Doc (parseFields fuel fs ic rest off pos acc)) ∧
    (∀ (s : Schema) (body elem : Bytes), pS s = true → isElemKind s = true → body.length + 1 < fuel →
      Doc (parseValue fuel s body elem))
  | 0 => ⟨fun _ _ _ _ _ _ _ h => by omega, fun _ _ _ _ _ h => by omega⟩
  | f + 1 => by
    obtain ⟨ihF, ihV⟩ := total_step f
    refine ⟨?_, ?_⟩
    · intro fs ic rest off pos acc hp hlen
      unfold parseFields
      split
      · exact Doc.ok _
      · apply Doc.bind (parseTlNum_doc _ _); intro ⟨typ, st⟩ h1
        apply Doc.bind (parseTlNum_doc _ _); intro ⟨len, sl⟩ h2
        simp only []
        have hst := parseTlNum_pos h1
        have hsl := parseTlNum_pos h2
        have hr2 : 2 ≤ rest.length := by omega
        have hbody : (pySlice rest (st + sl) (st + sl + len)).length + 1 < f := by
          have := pySlice_len_le rest (st + sl) (st + sl + len); omega
        have hdrop : (rest.drop (st + sl + len)).length < f := drop_len_lt rest _ f hlen (by omega) hr2
        split
        · -- not found
          split
          · exact Doc.err _ rfl
          · exact ihF _ _ _ _ _ _ hp hdrop
        · rename_i i hfind
          obtain ⟨s, hs, htyp⟩ := findField_get fs pos typ i hfind
          have hps := pFs_get fs i s hp hs
          simp only [hs]
          cases s with
          | map k v => simp [pS] at hps
          | repeated e =>
            simp only [pS, Bool.and_eq_true] at hps
            apply Doc.bind (leafCheck_doc _ _ _); intro _ _
            apply Doc.bind (ihV e _ _ hps.2 hps.1 hbody); intro _ _
            exact ihF _ _ _ _ _ _ hp hdrop
          | uint t fl =>
            apply Doc.bind (leafCheck_doc _ _ _); intro _ _
            apply Doc.bind (ihV _ _ _ hps rfl hbody); intro _ _
            exact ihF _ _ _ _ _ _ hp hdrop
          | bool t =>
            apply Doc.bind (leafCheck_doc _ _ _); intro _ _
            apply Doc.bind (ihV _ _ _ hps rfl hbody); intro _ _
            exact ihF _ _ _ _ _ _ hp hdrop
          | bytes t b =>
            apply Doc.bind (leafCheck_doc _ _ _); intro _ _
            apply Doc.bind (ihV _ _ _ hps rfl hbody); intro _ _
            exact ihF _ _ _ _ _ _ hp hdrop
          | name t =>
            apply Doc.bind (leafCheck_doc _ _ _); intro _ _
            apply Doc.bind (ihV _ _ _ hps rfl hbody); intro _ _
            exact ihF _ _ _ _ _ _ hp hdrop
          | model t fs' ic' =>
            apply Doc.bind (leafCheck_doc _ _ _); intro _ _
            apply Doc.bind (ihV _ _ _ hps rfl hbody); intro _ _
            exact ihF _ _ _ _ _ _ hp hdrop
          | marker =>
            -- a marker has no Type number, it is never found
            simp [Schema.typ] at htyp
    · intro s body elem hps hk hlen
      unfold parseValue
      cases s with
      | uint t fl => exact Doc.ok _
      | bool t => exact Doc.ok _
      | bytes t b => simp only []; split <;> (try split) <;> first | exact Doc.ok _ | exact Doc.err _ rfl
      | name t => exact Doc.bind (decodeName_doc _ _) (fun _ _ => Doc.ok _)
      | model t fs' ic' =>
        simp only [pS] at hps
        exact Doc.bind (ihF _ _ _ _ _ _ hps (by omega)) (fun _ _ => Doc.ok _)
      | repeated e => simp [isElemKind] at hk
      | map k v => simp [isElemKind] at hk
      | marker => simp [isElemKind] at hk

end Ndn.Codec
