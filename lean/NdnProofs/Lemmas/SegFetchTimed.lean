import NdnModel.SegFetchTimed
import NdnProofs.Lemmas.SegFetch
import NdnProofs.Lemmas.PitRun
/-!
Helper lemmas for the timed half of C19 (`NdnModel/SegFetchTimed.lean`).

Part A: the generator (`retryG`, `fetchLoopG`, `fetchG`) over *any* `ask` that keeps an invariant `P` of its world and
only ever answers with `Genuine` Data.  Part B: the timed `ask` over the pending-Interest table `Ndn.Pit` is such an `ask`
(by the C03 machinery: `step_old`, `step_inv`, `step_eff_express`), and what it observes is `scan` of the packets in flight.
Part C: with every answer arriving within the lifetime of its own Interest the timed fetch is the untimed one.
-/
namespace Ndn.SegFetchT
open Ndn.SegFetch (Req Seg Obj End Outcome attempts)

/-! ### Part A: the generator over an abstract `ask` -/

/-- what an awaitable of the fetcher can come to -/
def Plain : Pit.Outcome → Prop
  | .data _ => True
  | .nack _ => True
  | .timeout => True
  | _ => False

/-- Data that answers request `q` belongs to the object and bears a name the Interest matches -/
def Genuine (obj : Obj) (q : Req) (o : Pit.Outcome) : Prop :=
  Plain o ∧ ∀ d, o = .data d →
    match obj, q with
    | .unseg _, .disc => idSeg d = none
    | .unseg _, .seg _ => False
    | .segs l, .disc => ∃ k, idSeg d = some k ∧ k < l.length
    | .segs l, .seg i => idSeg d = some i ∧ i < l.length

/-- `ask` keeps the invariant `P` of its world and answers genuinely -/
def AskOk {W : Type} (ask : W → Req → Pit.Outcome × W) (obj : Obj) (P : W → Prop) : Prop :=
  ∀ w q, P w → P (ask w q).2 ∧ Genuine obj q (ask w q).1

theorem idSeg_segId (k : Nat) (b : Bool) : idSeg (segId k b) = some k := by
  unfold idSeg segId
  cases b <;> simp <;> omega

theorem idSeg_unsegId (b : Bool) : idSeg (unsegId b) = none := by
  unfold idSeg unsegId
  cases b <;> simp

theorem idValid_segId (k : Nat) (b : Bool) : idValid (segId k b) = b := by
  unfold idValid segId
  cases b <;> simp <;> omega

theorem idValid_unsegId (b : Bool) : idValid (unsegId b) = b := by
  unfold idValid unsegId
  cases b <;> simp

section generic
variable {W : Type} (ask : W → Req → Pit.Outcome × W)

theorem retryG_succ (limit : Nat) (q : Req) (fuel trial : Nat) (w : W) :
    retryG ask limit q (fuel + 1) trial w =
      match (ask w q).1 with
      | .data d => (if idValid d then .ok d else .invalid, (ask w q).2, [.data d])
      | .nack r => (.nack, (ask w q).2, [.nack r])
      | .timeout =>
        if trial + 1 ≥ limit then (.timeout, (ask w q).2, [.timeout])
        else ((retryG ask limit q fuel (trial + 1) (ask w q).2).1, (retryG ask limit q fuel (trial + 1) (ask w q).2).2.1,
              .timeout :: (retryG ask limit q fuel (trial + 1) (ask w q).2).2.2)
      | o => (.fuel, (ask w q).2, [o]) := rfl

/-- the Interest that decided a `retry` call, seen from its result -/
def lastOK : RRes → Pit.Outcome → Prop
  | .ok d, o => o = .data d ∧ idValid d = true
  | .invalid, o => ∃ d, o = .data d ∧ idValid d = false
  | .nack, o => ∃ rs, o = .nack rs
  | .timeout, o => o = .timeout
  | .fuel, _ => False

/-- what one `retry` call sends: `j` Interests that timed out, then the one that decides -/
theorem retryG_shape {obj : Obj} {P : W → Prop} (hA : AskOk ask obj P) (limit : Nat) (q : Req) :
    ∀ (fuel trial : Nat) (w : W), P w → trial ≤ limit → limit + 1 ≤ fuel + trial →
    P (retryG ask limit q fuel trial w).2.1 ∧
    ∃ j last, (retryG ask limit q fuel trial w).2.2 = List.replicate j .timeout ++ [last] ∧
      lastOK (retryG ask limit q fuel trial w).1 last ∧ Genuine obj q last ∧
      ((retryG ask limit q fuel trial w).1 = .timeout → trial + j + 1 = max (trial + 1) limit) ∧
      ((retryG ask limit q fuel trial w).1 ≠ .timeout → j = 0 ∨ trial + j < limit) := by
  intro fuel
  induction fuel with
  | zero => intro trial w _ h1 h2; omega
  | succ n ih =>
    intro trial w hw h1 h2
    obtain ⟨hP, hG⟩ := hA w q hw
    rw [retryG_succ]
    cases ho : (ask w q).1 with
    | data d =>
      simp only
      refine ⟨hP, 0, .data d, by simp, ?_, ho ▸ hG, ?_, by simp⟩
      · cases hv : idValid d <;> simp [lastOK, hv]
      · cases hv : idValid d <;> simp
    | nack r =>
      exact ⟨hP, 0, .nack r, by simp, ⟨r, rfl⟩, ho ▸ hG, by simp, by simp⟩
    | timeout =>
      simp only
      by_cases h : trial + 1 ≥ limit
      · simp only [h, if_true]
        exact ⟨hP, 0, .timeout, by simp, rfl, ho ▸ hG, by intro _; omega, by simp⟩
      · simp only [h, if_false]
        obtain ⟨a0, j, last, a2, a3, a4, a5, a6⟩ := ih (trial + 1) (ask w q).2 hP (by omega) (by omega)
        refine ⟨a0, j + 1, last, ?_, a3, a4, ?_, ?_⟩
        · rw [a2]; simp [List.replicate_succ]
        · intro ht; have := a5 ht; omega
        · intro ht; have := a6 ht; omega
    | cancelled => rw [ho] at hG; exact absurd hG.1 (by simp [Plain])
    | valFail d v => rw [ho] at hG; exact absurd hG.1 (by simp [Plain])
    | validatorError d => rw [ho] at hG; exact absurd hG.1 (by simp [Plain])
    | noResponse => rw [ho] at hG; exact absurd hG.1 (by simp [Plain])

theorem retryG_top {obj : Obj} {P : W → Prop} (hA : AskOk ask obj P) (limit : Nat) (q : Req) (w : W) (hw : P w) :
    P (retryG ask limit q (limit + 1) 0 w).2.1 ∧
    ∃ j last, (retryG ask limit q (limit + 1) 0 w).2.2 = List.replicate j .timeout ++ [last] ∧
      lastOK (retryG ask limit q (limit + 1) 0 w).1 last ∧ Genuine obj q last ∧
      ((retryG ask limit q (limit + 1) 0 w).1 = .timeout → j + 1 = attempts limit) ∧
      ((retryG ask limit q (limit + 1) 0 w).1 ≠ .timeout → j < attempts limit) := by
  obtain ⟨a0, j, last, a2, a3, a4, a5, a6⟩ := retryG_shape ask hA limit q (limit + 1) 0 w hw (by omega) (by omega)
  refine ⟨a0, j, last, a2, a3, a4, ?_, ?_⟩
  · intro h; have := a5 h; simp only [attempts]; omega
  · intro h; have := a6 h; simp only [attempts]; omega

/-- one round of the segment loop: the request for segment `i` either fetched the Data of segment `i` (then the loop
    yields its content and stops at a final segment or goes on with `i + 1`) or ended the fetch -/
theorem loop_step {segs : List Seg} {P : W → Prop} (hA : AskOk ask (.segs segs) P) (limit fuel i : Nat) (w : W) (hw : P w) :
    (∃ d, (retryG ask limit (.seg i) (limit + 1) 0 w).1 = .ok d ∧ ∃ h : i < segs.length,
      fetchLoopG ask limit segs (fuel + 1) i w =
        if segs[i].fbi = some i then
          (⟨[segs[i].content], (retryG ask limit (.seg i) (limit + 1) 0 w).2.2.map fun o => (Req.seg i, o), .done⟩,
            (retryG ask limit (.seg i) (limit + 1) 0 w).2.1)
        else
          (⟨segs[i].content :: (fetchLoopG ask limit segs fuel (i + 1) (retryG ask limit (.seg i) (limit + 1) 0 w).2.1).1.yielded,
            ((retryG ask limit (.seg i) (limit + 1) 0 w).2.2.map fun o => (Req.seg i, o)) ++
              (fetchLoopG ask limit segs fuel (i + 1) (retryG ask limit (.seg i) (limit + 1) 0 w).2.1).1.log,
            (fetchLoopG ask limit segs fuel (i + 1) (retryG ask limit (.seg i) (limit + 1) 0 w).2.1).1.end_⟩,
           (fetchLoopG ask limit segs fuel (i + 1) (retryG ask limit (.seg i) (limit + 1) 0 w).2.1).2)) ∨
    ((∀ d, (retryG ask limit (.seg i) (limit + 1) 0 w).1 ≠ .ok d) ∧
      fetchLoopG ask limit segs (fuel + 1) i w =
        (⟨[], (retryG ask limit (.seg i) (limit + 1) 0 w).2.2.map fun o => (Req.seg i, o),
          endOf (retryG ask limit (.seg i) (limit + 1) 0 w).1⟩, (retryG ask limit (.seg i) (limit + 1) 0 w).2.1)) := by
  obtain ⟨_, j, last, _, a3, a4, _, _⟩ := retryG_top ask hA limit (.seg i) w hw
  cases hr : (retryG ask limit (.seg i) (limit + 1) 0 w).1 with
  | ok d =>
    left
    rw [hr] at a3
    obtain ⟨rfl, _⟩ := a3
    obtain ⟨hk, hlt⟩ := a4.2 d rfl
    refine ⟨d, rfl, hlt, ?_⟩
    have hs : segs[i]? = some segs[i] := List.getElem?_eq_getElem hlt
    simp only [fetchLoopG, hr, hk, hs]
  | timeout => right; exact ⟨by simp, by simp only [fetchLoopG, hr]⟩
  | nack => right; exact ⟨by simp, by simp only [fetchLoopG, hr]⟩
  | invalid => right; exact ⟨by simp, by simp only [fetchLoopG, hr]⟩
  | fuel => rw [hr] at a3; exact absurd a3 (by simp [lastOK])

/-! #### the log invariant -/

/-- how the fetch ended, seen from the Interest that decided it -/
def endOK : End → Pit.Outcome → Prop
  | .done, o => ∃ d, o = .data d ∧ idValid d = true
  | .invalid, o => ∃ d, o = .data d ∧ idValid d = false
  | .nack, o => ∃ rs, o = .nack rs
  | .timeout, o => o = .timeout
  | .fuel, _ => False

/-- an Interest after which the fetch goes on: it timed out, or fetched Data the validator accepts -/
def Benign (o : Pit.Outcome) : Prop := o = .timeout ∨ ∃ d, o = .data d ∧ idValid d = true

/-- The log ends with the block of the request that decided the fetch: `j` Interests that timed out and the deciding
    one; everything before timed out or fetched valid Data. -/
def GoodT (a : Nat) (r : Result) : Prop :=
  ∃ pre req j last, r.log = pre ++ (List.replicate j (req, Pit.Outcome.timeout) ++ [(req, last)]) ∧
    (∀ e ∈ pre, Benign e.2) ∧ endOK r.end_ last ∧ (r.end_ = .timeout → j + 1 = a) ∧ (r.end_ ≠ .timeout → j < a)

theorem endOK_endOf {r : RRes} {o : Pit.Outcome} (h : lastOK r o) : endOK (endOf r) o := by
  cases r with
  | ok d => exact ⟨d, h⟩
  | _ => exact h

theorem map_blockT (req : Req) (j : Nat) (o : Pit.Outcome) :
    (List.replicate j Pit.Outcome.timeout ++ [o]).map (fun x => (req, x)) =
      List.replicate j (req, Pit.Outcome.timeout) ++ [(req, o)] := by
  simp

/-- the block of the request that decides the fetch -/
theorem goodT_of_block {a j : Nat} {last : Pit.Outcome} {l : List Pit.Outcome} (req : Req) (y : List Nat) (e : End)
    (hl : l = List.replicate j .timeout ++ [last]) (he : endOK e last)
    (h1 : e = .timeout → j + 1 = a) (h2 : e ≠ .timeout → j < a) :
    GoodT a ⟨y, l.map (fun o => (req, o)), e⟩ :=
  ⟨[], req, j, last, by rw [hl, map_blockT]; simp, by simp, he, h1, h2⟩

theorem block_benign {j : Nat} {last : Pit.Outcome} {l : List Pit.Outcome} (req : Req)
    (hl : l = List.replicate j .timeout ++ [last]) (hb : Benign last) :
    ∀ e ∈ l.map (fun o => (req, o)), Benign e.2 := by
  intro e he
  rw [hl] at he
  simp only [List.map_append, List.map_replicate, List.map_cons, List.map_nil, List.mem_append,
    List.mem_replicate, List.mem_singleton] at he
  rcases he with ⟨_, rfl⟩ | rfl
  · exact .inl rfl
  · exact hb

theorem goodT_prepend (a : Nat) (y y' : List Nat) (blk lg : List (Req × Pit.Outcome)) (e : End)
    (hb : ∀ x ∈ blk, Benign x.2) (hg : GoodT a ⟨y, lg, e⟩) : GoodT a ⟨y', blk ++ lg, e⟩ := by
  obtain ⟨pre, req, j, last, g2, g3, g4, g5, g6⟩ := hg
  refine ⟨blk ++ pre, req, j, last, ?_, ?_, g4, g5, g6⟩
  · simp only at g2 ⊢; rw [g2]; simp
  · intro x hx
    rcases List.mem_append.mp hx with h | h
    · exact hb x h
    · exact g3 x h

theorem loop_good {segs : List Seg} {P : W → Prop} (hA : AskOk ask (.segs segs) P) (limit : Nat) :
    ∀ (fuel i : Nat) (w : W), P w → i ≤ segs.length → segs.length + 1 ≤ fuel + i →
    GoodT (attempts limit) (fetchLoopG ask limit segs fuel i w).1 ∧ P (fetchLoopG ask limit segs fuel i w).2 := by
  intro fuel
  induction fuel with
  | zero => intro i w _ h1 h2; omega
  | succ n ih =>
    intro i w hw h1 h2
    obtain ⟨a0, j, last, a2, a3, _, a5, a6⟩ := retryG_top ask hA limit (.seg i) w hw
    rcases loop_step ask hA limit n i w hw with ⟨d, hr, hlt, heq⟩ | ⟨hne, heq⟩
    · rw [heq]
      rw [hr] at a3 a6
      have hb : Benign last := .inr ⟨d, a3⟩
      by_cases hf : segs[i].fbi = some i
      · simp only [hf, if_true]
        exact ⟨goodT_of_block (req := .seg i) _ _ a2 ⟨d, a3⟩ (by simp) (fun _ => a6 (by simp)), a0⟩
      · simp only [hf, if_false]
        obtain ⟨g, p⟩ := ih (i + 1) _ a0 (by omega) (by omega)
        exact ⟨goodT_prepend _ _ _ _ _ _ (block_benign (.seg i) a2 hb) g, p⟩
    · rw [heq]
      refine ⟨goodT_of_block (req := .seg i) _ _ a2 (endOK_endOf a3) ?_ ?_, a0⟩
      · intro h; apply a5
        cases h' : (retryG ask limit (.seg i) (limit + 1) 0 w).1 <;> simp_all [endOf]
      · intro h; apply a6
        cases h' : (retryG ask limit (.seg i) (limit + 1) 0 w).1 <;> simp_all [endOf]

/-- every Interest of the segment loop started at `i` names a segment `≥ i` -/
theorem loop_reqs {segs : List Seg} {P : W → Prop} (hA : AskOk ask (.segs segs) P) (limit : Nat) :
    ∀ (fuel i : Nat) (w : W), P w → ∀ e ∈ (fetchLoopG ask limit segs fuel i w).1.log, ∃ k, e.1 = Req.seg k ∧ i ≤ k := by
  intro fuel
  induction fuel with
  | zero => intro i w _ e he; simp [fetchLoopG] at he
  | succ n ih =>
    intro i w hw e he
    have hblk : ∀ e ∈ (retryG ask limit (.seg i) (limit + 1) 0 w).2.2.map (fun o => (Req.seg i, o)),
        ∃ k, e.1 = Req.seg k ∧ i ≤ k := by
      intro e he
      obtain ⟨o, _, rfl⟩ := List.mem_map.mp he
      exact ⟨i, rfl, Nat.le_refl _⟩
    obtain ⟨a0, _⟩ := retryG_top ask hA limit (.seg i) w hw
    rcases loop_step ask hA limit n i w hw with ⟨d, hr, hlt, heq⟩ | ⟨hne, heq⟩
    · rw [heq] at he
      by_cases hf : segs[i].fbi = some i
      · simp only [hf, if_true] at he; exact hblk e he
      · simp only [hf, if_false] at he
        rcases List.mem_append.mp he with h | h
        · exact hblk e h
        · obtain ⟨k, h1, h2⟩ := ih (i + 1) _ a0 e h
          exact ⟨k, h1, by omega⟩
    · rw [heq] at he; exact hblk e he

theorem retryG_top_length {obj : Obj} {P : W → Prop} (hA : AskOk ask obj P) (limit : Nat) (q : Req) (w : W) (hw : P w) :
    (retryG ask limit q (limit + 1) 0 w).2.2.length ≤ attempts limit := by
  obtain ⟨_, j, last, a2, _, _, a5, a6⟩ := retryG_top ask hA limit q w hw
  rw [a2]
  simp only [List.length_append, List.length_replicate, List.length_cons, List.length_nil]
  by_cases h : (retryG ask limit q (limit + 1) 0 w).1 = .timeout
  · have := a5 h; omega
  · have := a6 h; omega

/-- per-request bound for the segment loop -/
theorem loop_count {segs : List Seg} {P : W → Prop} (hA : AskOk ask (.segs segs) P) (limit : Nat) (req : Req) :
    ∀ (fuel i : Nat) (w : W), P w →
    ((fetchLoopG ask limit segs fuel i w).1.log.filter (fun e => decide (e.1 = req))).length ≤ attempts limit := by
  intro fuel
  induction fuel with
  | zero => intro i w _; simp [fetchLoopG]
  | succ n ih =>
    intro i w hw
    have hblk : (((retryG ask limit (.seg i) (limit + 1) 0 w).2.2.map (fun o => (Req.seg i, o))).filter
        (fun e => decide (e.1 = req))).length ≤ attempts limit :=
      Nat.le_trans (List.length_filter_le _ _) (by simpa using retryG_top_length ask hA limit (.seg i) w hw)
    obtain ⟨a0, _⟩ := retryG_top ask hA limit (.seg i) w hw
    rcases loop_step ask hA limit n i w hw with ⟨d, hr, hlt, heq⟩ | ⟨hne, heq⟩
    · rw [heq]
      by_cases hf : segs[i].fbi = some i
      · simp only [hf, if_true]; exact hblk
      · simp only [hf, if_false, List.filter_append, List.length_append]
        by_cases hq : req = Req.seg i
        · -- the rest of the loop never names segment i again
          have hz : ((fetchLoopG ask limit segs n (i + 1) (retryG ask limit (.seg i) (limit + 1) 0 w).2.1).1.log.filter
              (fun e => decide (e.1 = req))) = [] := by
            rw [List.filter_eq_nil_iff]
            intro e he
            obtain ⟨k, h1, h2⟩ := loop_reqs ask hA limit n (i + 1) _ a0 e he
            simp only [decide_eq_true_eq, hq, h1, Req.seg.injEq]
            omega
          rw [hz]; simpa using hblk
        · have hz : (((retryG ask limit (.seg i) (limit + 1) 0 w).2.2.map (fun o => (Req.seg i, o))).filter
              (fun e => decide (e.1 = req))) = [] := by
            rw [List.filter_eq_nil_iff]
            intro e he
            obtain ⟨o, _, rfl⟩ := List.mem_map.mp he
            simpa using fun h => hq h.symm
          rw [hz]; simpa using ih (i + 1) _ a0
    · rw [heq]; exact hblk

/-- segment `k` exists and its FinalBlockId names `k` itself -/
def SelfFinal (segs : List Seg) (k : Nat) : Prop := ∃ s : Seg, segs[k]? = some s ∧ s.fbi = some k

/-- what the segment loop started at `i` yields: the contents of segments `i, i+1, …, i+n-1` in order; it stops at the
    first of them that is final, and finishes normally only there -/
theorem loop_yield {segs : List Seg} {P : W → Prop} (hA : AskOk ask (.segs segs) P) (limit : Nat) :
    ∀ (fuel i : Nat) (w : W), P w →
    ∃ n, (fetchLoopG ask limit segs fuel i w).1.yielded = ((segs.drop i).take n).map (·.content) ∧ i + n ≤ max i segs.length ∧
      (∀ k, i ≤ k → k < i + n → SelfFinal segs k → k + 1 = i + n ∧ (fetchLoopG ask limit segs fuel i w).1.end_ = .done) ∧
      ((fetchLoopG ask limit segs fuel i w).1.end_ = .done → 0 < n ∧ SelfFinal segs (i + n - 1)) := by
  intro fuel
  induction fuel with
  | zero => intro i w _; exact ⟨0, by simp [fetchLoopG], by omega, by intro k _ _; omega, by simp [fetchLoopG]⟩
  | succ m ih =>
    intro i w hw
    obtain ⟨a0, j, last, a2, a3, _⟩ := retryG_top ask hA limit (.seg i) w hw
    rcases loop_step ask hA limit m i w hw with ⟨d, hr, hlt, heq⟩ | ⟨hne, heq⟩
    · rw [heq]
      have hs : segs[i]? = some segs[i] := List.getElem?_eq_getElem hlt
      have hdrop : segs.drop i = segs[i] :: segs.drop (i + 1) := List.drop_eq_getElem_cons hlt
      by_cases hf : segs[i].fbi = some i
      · simp only [hf, if_true]
        refine ⟨1, by rw [hdrop]; rfl, by omega, ?_, ?_⟩
        · intro k h1 h2 _; exact ⟨by omega, trivial⟩
        · intro _; exact ⟨by omega, segs[i], by simp [hs], hf⟩
      · simp only [hf, if_false]
        obtain ⟨n, y, hb, h3, h4⟩ := ih (i + 1) (retryG ask limit (.seg i) (limit + 1) 0 w).2.1 a0
        refine ⟨n + 1, by rw [hdrop, y]; rfl, by omega, ?_, ?_⟩
        · intro k h1 h2 hk
          by_cases hki : k = i
          · subst hki
            obtain ⟨s, e1, e2⟩ := hk
            rw [hs] at e1; cases e1
            exact absurd e2 hf
          · obtain ⟨e1, e2⟩ := h3 k (by omega) (by omega) hk
            exact ⟨by omega, e2⟩
        · intro hd
          obtain ⟨e1, e2⟩ := h4 hd
          refine ⟨by omega, ?_⟩
          have : i + (n + 1) - 1 = i + 1 + n - 1 := by omega
          rw [this]; exact e2
    · rw [heq]
      refine ⟨0, by simp, by omega, by intro k _ _; omega, ?_⟩
      intro hd
      exfalso
      cases h' : (retryG ask limit (.seg i) (limit + 1) 0 w).1 with
      | ok d => exact hne d h'
      | _ => simp [h', endOf] at hd

/-! #### the whole fetch -/

/-- the discovery round -/
abbrev discR (limit : Nat) (w : W) : RRes × W × List Pit.Outcome := retryG ask limit .disc (limit + 1) 0 w
abbrev discLog (limit : Nat) (w : W) : List (Req × Pit.Outcome) := (discR ask limit w).2.2.map fun o => (Req.disc, o)

theorem fetch_step_unseg {c : Nat} {P : W → Prop} (hA : AskOk ask (.unseg c) P) (limit : Nat) (w : W) (hw : P w) :
    (∃ d, (discR ask limit w).1 = .ok d ∧
      fetchG ask (.unseg c) limit w = (⟨[c], discLog ask limit w, .done⟩, (discR ask limit w).2.1)) ∨
    ((∀ d, (discR ask limit w).1 ≠ .ok d) ∧
      fetchG ask (.unseg c) limit w = (⟨[], discLog ask limit w, endOf (discR ask limit w).1⟩, (discR ask limit w).2.1)) := by
  obtain ⟨_, j, last, _, a3, a4, _, _⟩ := retryG_top ask hA limit .disc w hw
  cases hr : (discR ask limit w).1 with
  | ok d =>
    left
    have hr' : (retryG ask limit .disc (limit + 1) 0 w).1 = .ok d := hr
    rw [hr'] at a3
    obtain ⟨rfl, _⟩ := a3
    have hk : idSeg d = none := a4.2 d rfl
    exact ⟨d, rfl, by simp only [fetchG, hr', hk]⟩
  | timeout => right; have hr' : (retryG ask limit .disc (limit + 1) 0 w).1 = .timeout := hr; exact ⟨by simp, by simp only [fetchG, hr']⟩
  | nack => right; have hr' : (retryG ask limit .disc (limit + 1) 0 w).1 = .nack := hr; exact ⟨by simp, by simp only [fetchG, hr']⟩
  | invalid => right; have hr' : (retryG ask limit .disc (limit + 1) 0 w).1 = .invalid := hr; exact ⟨by simp, by simp only [fetchG, hr']⟩
  | fuel => have hr' : (retryG ask limit .disc (limit + 1) 0 w).1 = .fuel := hr; rw [hr'] at a3; exact absurd a3 (by simp [lastOK])

/-- the segment loop as started after discovery -/
abbrev loopFrom (limit : Nat) (l : List Seg) (i : Nat) (w : W) : Result × W :=
  fetchLoopG ask limit l (l.length + 1) i (discR ask limit w).2.1

theorem fetch_step_segs {l : List Seg} {P : W → Prop} (hA : AskOk ask (.segs l) P) (limit : Nat) (w : W) (hw : P w) :
    (∃ d k, (discR ask limit w).1 = .ok d ∧ idSeg d = some k ∧ k < l.length ∧
      ((k = 0 ∧ ∃ h : 0 < l.length, fetchG ask (.segs l) limit w =
          if l[0].fbi = some 0 then (⟨[l[0].content], discLog ask limit w, .done⟩, (discR ask limit w).2.1)
          else (⟨l[0].content :: (loopFrom ask limit l 1 w).1.yielded, discLog ask limit w ++ (loopFrom ask limit l 1 w).1.log,
                 (loopFrom ask limit l 1 w).1.end_⟩, (loopFrom ask limit l 1 w).2)) ∨
       (k ≠ 0 ∧ fetchG ask (.segs l) limit w =
          (⟨(loopFrom ask limit l 0 w).1.yielded, discLog ask limit w ++ (loopFrom ask limit l 0 w).1.log,
            (loopFrom ask limit l 0 w).1.end_⟩, (loopFrom ask limit l 0 w).2)))) ∨
    ((∀ d, (discR ask limit w).1 ≠ .ok d) ∧
      fetchG ask (.segs l) limit w = (⟨[], discLog ask limit w, endOf (discR ask limit w).1⟩, (discR ask limit w).2.1)) := by
  obtain ⟨_, j, last, _, a3, a4, _, _⟩ := retryG_top ask hA limit .disc w hw
  cases hr : (discR ask limit w).1 with
  | ok d =>
    left
    have hr' : (retryG ask limit .disc (limit + 1) 0 w).1 = .ok d := hr
    rw [hr'] at a3
    obtain ⟨rfl, _⟩ := a3
    obtain ⟨k, hk, hlt⟩ := a4.2 d rfl
    refine ⟨d, k, rfl, hk, hlt, ?_⟩
    by_cases hk0 : k = 0
    · left
      subst hk0
      have hs : l[0]? = some l[0] := List.getElem?_eq_getElem hlt
      exact ⟨rfl, hlt, by simp only [fetchG, hr', hk, hs, if_true]⟩
    · right
      exact ⟨hk0, by simp only [fetchG, hr', hk, hk0, if_false]⟩
  | timeout => right; have hr' : (retryG ask limit .disc (limit + 1) 0 w).1 = .timeout := hr; exact ⟨by simp, by simp only [fetchG, hr']⟩
  | nack => right; have hr' : (retryG ask limit .disc (limit + 1) 0 w).1 = .nack := hr; exact ⟨by simp, by simp only [fetchG, hr']⟩
  | invalid => right; have hr' : (retryG ask limit .disc (limit + 1) 0 w).1 = .invalid := hr; exact ⟨by simp, by simp only [fetchG, hr']⟩
  | fuel => have hr' : (retryG ask limit .disc (limit + 1) 0 w).1 = .fuel := hr; rw [hr'] at a3; exact absurd a3 (by simp [lastOK])

theorem disc_block_good {obj : Obj} {P : W → Prop} (hA : AskOk ask obj P) (limit : Nat) (w : W) (hw : P w) (y : List Nat) :
    P (discR ask limit w).2.1 ∧
    ((∀ d, (discR ask limit w).1 ≠ .ok d) → GoodT (attempts limit) ⟨y, discLog ask limit w, endOf (discR ask limit w).1⟩) ∧
    (∀ d, (discR ask limit w).1 = .ok d →
      GoodT (attempts limit) ⟨y, discLog ask limit w, .done⟩ ∧ ∀ e ∈ discLog ask limit w, Benign e.2) := by
  obtain ⟨a0, j, last, a2, a3, _, a5, a6⟩ := retryG_top ask hA limit .disc w hw
  refine ⟨a0, ?_, ?_⟩
  · intro hne
    refine goodT_of_block (req := .disc) _ _ a2 (endOK_endOf a3) ?_ ?_
    · intro h; apply a5
      cases h' : (retryG ask limit .disc (limit + 1) 0 w).1 <;> simp_all [endOf]
    · intro h; apply a6
      cases h' : (retryG ask limit .disc (limit + 1) 0 w).1 <;> simp_all [endOf]
  · intro d hr
    have hr' : (retryG ask limit .disc (limit + 1) 0 w).1 = .ok d := hr
    rw [hr'] at a3 a6
    exact ⟨goodT_of_block (req := .disc) _ _ a2 ⟨d, a3⟩ (by simp) (fun _ => a6 (by simp)),
      block_benign .disc a2 (.inr ⟨d, a3⟩)⟩

/-- the log invariant and the world invariant after the whole fetch -/
theorem fetch_good {obj : Obj} {P : W → Prop} (hA : AskOk ask obj P) (limit : Nat) (w : W) (hw : P w) :
    GoodT (attempts limit) (fetchG ask obj limit w).1 ∧ P (fetchG ask obj limit w).2 := by
  cases obj with
  | unseg c =>
    rcases fetch_step_unseg ask hA limit w hw with ⟨d, hr, heq⟩ | ⟨hne, heq⟩
    · obtain ⟨a0, _, b2⟩ := disc_block_good ask hA limit w hw [c]
      rw [heq]; exact ⟨(b2 d hr).1, a0⟩
    · obtain ⟨a0, b1, _⟩ := disc_block_good ask hA limit w hw []
      rw [heq]; exact ⟨b1 hne, a0⟩
  | segs l =>
    rcases fetch_step_segs ask hA limit w hw with ⟨d, k, hr, hk, hlt, ⟨rfl, h0, heq⟩ | ⟨hk0, heq⟩⟩ | ⟨hne, heq⟩
    · rw [heq]
      by_cases hf : l[0].fbi = some 0
      · simp only [hf, if_true]
        obtain ⟨a0, _, b2⟩ := disc_block_good ask hA limit w hw [l[0].content]
        exact ⟨(b2 d hr).1, a0⟩
      · simp only [hf, if_false]
        obtain ⟨a0, _, b2⟩ := disc_block_good ask hA limit w hw []
        obtain ⟨g, p⟩ := loop_good ask hA limit (l.length + 1) 1 _ a0 (by omega) (by omega)
        exact ⟨goodT_prepend _ _ _ _ _ _ (b2 d hr).2 g, p⟩
    · rw [heq]
      obtain ⟨a0, _, b2⟩ := disc_block_good ask hA limit w hw []
      obtain ⟨g, p⟩ := loop_good ask hA limit (l.length + 1) 0 _ a0 (by omega) (by omega)
      exact ⟨goodT_prepend _ _ _ _ _ _ (b2 d hr).2 g, p⟩
    · rw [heq]
      obtain ⟨a0, b1, _⟩ := disc_block_good ask hA limit w hw []
      exact ⟨b1 hne, a0⟩

/-- no request is sent more often than the configured number of attempts -/
theorem fetch_count {obj : Obj} {P : W → Prop} (hA : AskOk ask obj P) (limit : Nat) (w : W) (hw : P w) (req : Req) :
    ((fetchG ask obj limit w).1.log.filter (fun e => decide (e.1 = req))).length ≤ attempts limit := by
  have hdisc : ((discLog ask limit w).filter (fun e => decide (e.1 = req))).length ≤ attempts limit :=
    Nat.le_trans (List.length_filter_le _ _) (by simpa using retryG_top_length ask hA limit .disc w hw)
  obtain ⟨a0, _⟩ := retryG_top ask hA limit .disc w hw
  cases obj with
  | unseg c =>
    rcases fetch_step_unseg ask hA limit w hw with ⟨d, hr, heq⟩ | ⟨hne, heq⟩ <;> rw [heq] <;> exact hdisc
  | segs l =>
    have hloop : ∀ i, ((discLog ask limit w ++ (loopFrom ask limit l i w).1.log).filter
        (fun e => decide (e.1 = req))).length ≤ attempts limit := by
      intro i
      rw [List.filter_append, List.length_append]
      by_cases hq : req = Req.disc
      · have hz : ((loopFrom ask limit l i w).1.log.filter (fun e => decide (e.1 = req))) = [] := by
          rw [List.filter_eq_nil_iff]
          intro e he
          obtain ⟨k, h1, _⟩ := loop_reqs ask hA limit _ i _ a0 e he
          simp [hq, h1]
        rw [hz]; simpa using hdisc
      · have hz : ((discLog ask limit w).filter (fun e => decide (e.1 = req))) = [] := by
          rw [List.filter_eq_nil_iff]
          intro e he
          obtain ⟨o, _, rfl⟩ := List.mem_map.mp he
          simpa using fun h => hq h.symm
        rw [hz]; simpa using loop_count ask hA limit req _ i _ a0
    rcases fetch_step_segs ask hA limit w hw with ⟨d, k, hr, hk, hlt, ⟨rfl, h0, heq⟩ | ⟨hk0, heq⟩⟩ | ⟨hne, heq⟩
    · rw [heq]
      by_cases hf : l[0].fbi = some 0
      · simp only [hf, if_true]; exact hdisc
      · simp only [hf, if_false]; exact hloop 1
    · rw [heq]; exact hloop 0
    · rw [heq]; exact hdisc

/-- an unsegmented object: its single content, yielded iff the fetch finishes normally -/
theorem fetch_yield_unseg {c : Nat} {P : W → Prop} (hA : AskOk ask (.unseg c) P) (limit : Nat) (w : W) (hw : P w) :
    ((fetchG ask (.unseg c) limit w).1.end_ = .done → (fetchG ask (.unseg c) limit w).1.yielded = [c]) ∧
    ((fetchG ask (.unseg c) limit w).1.end_ ≠ .done → (fetchG ask (.unseg c) limit w).1.yielded = []) := by
  rcases fetch_step_unseg ask hA limit w hw with ⟨d, hr, heq⟩ | ⟨hne, heq⟩
  · rw [heq]; simp
  · rw [heq]
    refine ⟨?_, fun _ => rfl⟩
    intro hd
    exfalso
    cases h' : (discR ask limit w).1 with
    | ok d => exact hne d h'
    | _ => simp [h', endOf] at hd

/-- a segmented object: the contents of segments `0 … n-1` in order; the fetch stops at the first of them that is final
    and finishes normally only there -/
theorem fetch_yield_segs {l : List Seg} {P : W → Prop} (hA : AskOk ask (.segs l) P) (limit : Nat) (w : W) (hw : P w) :
    ∃ n, (fetchG ask (.segs l) limit w).1.yielded = (l.take n).map (·.content) ∧ n ≤ l.length ∧
      (∀ k, k < n → SelfFinal l k → k + 1 = n ∧ (fetchG ask (.segs l) limit w).1.end_ = .done) ∧
      ((fetchG ask (.segs l) limit w).1.end_ = .done → 0 < n ∧ SelfFinal l (n - 1)) := by
  obtain ⟨a0, _⟩ := retryG_top ask hA limit .disc w hw
  rcases fetch_step_segs ask hA limit w hw with ⟨d, k, hr, hk, hlt, ⟨rfl, h0, heq⟩ | ⟨hk0, heq⟩⟩ | ⟨hne, heq⟩
  · rw [heq]
    have hs : l[0]? = some l[0] := List.getElem?_eq_getElem h0
    have htake : ∀ n, l.take (n + 1) = l[0] :: (l.drop 1).take n := by
      intro n
      cases l with
      | nil => simp at h0
      | cons x r => simp
    by_cases hf : l[0].fbi = some 0
    · simp only [hf, if_true]
      refine ⟨1, by rw [htake 0]; rfl, by omega, ?_, ?_⟩
      · intro k h1 _; exact ⟨by omega, trivial⟩
      · intro _; exact ⟨by omega, l[0], by simp [hs], hf⟩
    · simp only [hf, if_false]
      obtain ⟨n, y, hb, h3, h4⟩ := loop_yield ask hA limit (l.length + 1) 1 _ a0
      refine ⟨n + 1, ?_, by omega, ?_, ?_⟩
      · show _ :: (loopFrom ask limit l 1 w).1.yielded = _
        rw [y, htake n]; rfl
      · intro k h1 hk
        by_cases hk0 : k = 0
        · subst hk0
          obtain ⟨s, e1, e2⟩ := hk
          rw [hs] at e1; cases e1
          exact absurd e2 hf
        · obtain ⟨e1, e2⟩ := h3 k (by omega) (by omega) hk
          exact ⟨by omega, e2⟩
      · intro hd
        obtain ⟨e1, e2⟩ := h4 hd
        refine ⟨by omega, ?_⟩
        have : n + 1 - 1 = 1 + n - 1 := by omega
        rw [this]; exact e2
  · rw [heq]
    obtain ⟨n, y, hb, h3, h4⟩ := loop_yield ask hA limit (l.length + 1) 0 _ a0
    refine ⟨n, by simpa using y, by omega, ?_, ?_⟩
    · intro k h1 hk
      obtain ⟨e1, e2⟩ := h3 k (by omega) (by omega) hk
      exact ⟨by omega, e2⟩
    · intro hd
      obtain ⟨e1, e2⟩ := h4 hd
      exact ⟨e1, by simpa using e2⟩
  · rw [heq]
    refine ⟨0, by simp, by omega, by intro k h; omega, ?_⟩
    intro hd
    exfalso
    cases h' : (discR ask limit w).1 with
    | ok d => exact hne d h'
    | _ => simp [h', endOf] at hd

end generic

/-! ### Part B: the timed `ask` over the pending-Interest table -/

open Ndn.Pit (Inv IState specReact specFire isExpress clockStep)

/-- what a packet does to a waiting request: the outcome it resolves it with, if it concerns it at all
    (`Pit.Matches` / `Pit.Named`: the specification vocabulary of C03) -/
def react (r : Pit.Req) : Pkt → Option Pit.Outcome
  | .data n d => if Pit.Matches r n d then some (.data d) else none
  | .nack n rsn => if Pit.Named r n none then some (.nack rsn) else none

/-- What an Interest with request `r` and deadline `dl` comes to, given the packets in flight: the first packet that arrives
    before the deadline and concerns the request decides; packets arriving earlier that do not concern it are dropped;
    a packet that arrives at the deadline or later is not seen (it stays in flight) - the Interest times out. -/
def scan (r : Pit.Req) (dl : Nat) : Flight → Pit.Outcome × Flight
  | [] => (.timeout, [])
  | (ta, p) :: rest =>
    if dl ≤ ta then (.timeout, (ta, p) :: rest)
    else match react r p with
      | some o => (o, rest)
      | none => scan r dl rest

/-- every Interest but number `i` is done -/
def Others (σ : Pit.State) (i : Nat) : Prop := ∀ (j : Nat) (s : IState), j ≠ i → σ.sts[j]? = some s → ∃ o t, s = IState.done o t

/-- every Interest is done -/
def AllDone (σ : Pit.State) : Prop := ∀ (j : Nat) (s : IState), σ.sts[j]? = some s → ∃ o t, s = IState.done o t

/-- one event that is not an express: what it does to Interest `i`, and that it leaves the finished ones alone -/
theorem step_keep {σ : Pit.State} (h : Inv σ) (ev : Pit.Ev) (hne : isExpress ev = false) {i : Nat} {I : Pit.Interest} {s : IState}
    (hi : σ.ints[i]? = some I) (hs : σ.sts[i]? = some s) (ho : Others σ i) :
    Inv (Pit.step .v1 σ ev) ∧ (Pit.step .v1 σ ev).ints = σ.ints ∧ (Pit.step .v1 σ ev).errs = σ.errs ∧
    Others (Pit.step .v1 σ ev) i ∧ (Pit.step .v1 σ ev).sts[i]? = some (specReact .v1 σ.clock i I.toReq s ev) ∧
    (Pit.step .v1 σ ev).clock = clockStep σ.clock ev := by
  obtain ⟨a, b, c, d, e, f⟩ := Pit.step_eff_nonexpress h .v1 ev hne
  refine ⟨a, c, b, ?_, f i I s hi hs, ?_⟩
  · intro j s' hj hs'
    have hlt : j < σ.sts.length := by rw [← e]; exact (List.getElem?_eq_some_iff.mp hs').1
    have hlt2 : j < σ.ints.length := h.len ▸ hlt
    have := f j σ.ints[j] σ.sts[j] (by simp [hlt2]) (by simp [hlt])
    obtain ⟨o, t, hd⟩ := ho j σ.sts[j] hj (by simp [hlt])
    rw [hd, Pit.specReact_done, hs'] at this
    exact ⟨o, t, Option.some.inj this⟩
  · rw [d]; cases ev <;> rfl

theorem taken_pass {r : Pit.Req} (hv : r.verdict = .pass) (hl : r.lat = 0) {c : Nat} (ha : r.awaitAt ≤ c) (d : Nat) :
    Pit.taken .v1 c r d = .done (.data d) c := by
  have hvs : Pit.vstart .v1 c r ≤ c := by simp only [Pit.vstart]; omega
  simp [Pit.taken, hl, hvs, hv, Pit.validatorOutcome_eq_ref, Pit.validatorOutcomeRef, Pit.resolve, ha]

/-- a packet handed to the application while Interest `i` waits -/
theorem deliver_spec {σ : Pit.State} (h : Inv σ) {i : Nat} {I : Pit.Interest} (hi : σ.ints[i]? = some I)
    (hs : σ.sts[i]? = some .waiting) (ho : Others σ i) (hv : I.verdict = .pass) (hl : I.lat = 0)
    (ha : I.awaitAt ≤ σ.clock) (p : Pkt) :
    Inv (deliver σ p) ∧ (deliver σ p).ints = σ.ints ∧ (deliver σ p).errs = σ.errs ∧ Others (deliver σ p) i ∧
    (deliver σ p).clock = σ.clock ∧
    (deliver σ p).sts[i]? = some (match react I.toReq p with | some o => .done o σ.clock | none => .waiting) := by
  cases p with
  | data n d =>
    obtain ⟨a, b, c, e, f, g⟩ := step_keep h (.data n d d) rfl hi hs ho
    refine ⟨a, b, c, e, g, ?_⟩
    show (Pit.step .v1 σ (.data n d d)).sts[i]? = _
    rw [f]
    by_cases hm : Pit.Matches I.toReq n d
    · simp [specReact, react, hm, taken_pass hv hl ha]
    · simp [specReact, react, hm]
  | nack n rsn =>
    obtain ⟨a, b, c, e, f, g⟩ := step_keep h (.nack n none rsn) rfl hi hs ho
    refine ⟨a, b, c, e, g, ?_⟩
    show (Pit.step .v1 σ (.nack n none rsn)).sts[i]? = _
    rw [f]
    by_cases hm : Pit.Named I.toReq n none
    · simp [specReact, react, hm, Pit.resolve, ha]
    · simp [specReact, react, hm]

/-- the clock moves while Interest `i` waits -/
theorem tick_spec {σ : Pit.State} (h : Inv σ) {i : Nat} {I : Pit.Interest} (hi : σ.ints[i]? = some I)
    (hs : σ.sts[i]? = some .waiting) (ho : Others σ i) (t : Nat) :
    Inv (Pit.step .v1 σ (.tick t)) ∧ (Pit.step .v1 σ (.tick t)).ints = σ.ints ∧ (Pit.step .v1 σ (.tick t)).errs = σ.errs ∧
    Others (Pit.step .v1 σ (.tick t)) i ∧ (Pit.step .v1 σ (.tick t)).clock = max σ.clock t ∧
    (Pit.step .v1 σ (.tick t)).sts[i]? =
      some (if I.deadline ≤ max σ.clock t then .done .timeout I.deadline else .waiting) := by
  obtain ⟨a, b, c, e, f, g⟩ := step_keep h (.tick t) rfl hi hs ho
  exact ⟨a, b, c, e, g, by rw [f]; simp [specReact, specFire]⟩

theorem allDone_of {σ : Pit.State} {i : Nat} {o : Pit.Outcome} {t : Nat} (ho : Others σ i)
    (hs : σ.sts[i]? = some (.done o t)) : AllDone σ := by
  intro j s hj
  by_cases hji : j = i
  · subst hji; rw [hs] at hj; exact ⟨o, t, (Option.some.inj hj).symm⟩
  · exact ho j s hji hj

/-- **the sleep of the fetcher, over the table**: Interest `i` ends up done with what `scan` says, the packets `scan`
    leaves stay in flight, nothing else changes state, no callback raises -/
theorem await_spec {i : Nat} {I : Pit.Interest} (hv : I.verdict = .pass) (hl : I.lat = 0) :
    ∀ (fl : Flight) (σ : Pit.State), Inv σ → σ.ints[i]? = some I → σ.sts[i]? = some .waiting → Others σ i →
      I.awaitAt ≤ σ.clock → σ.clock < I.deadline →
      Inv (await i I.deadline σ fl).1 ∧ (await i I.deadline σ fl).1.ints = σ.ints ∧
      (await i I.deadline σ fl).1.errs = σ.errs ∧ AllDone (await i I.deadline σ fl).1 ∧
      (∃ t, (await i I.deadline σ fl).1.sts[i]? = some (.done (scan I.toReq I.deadline fl).1 t)) ∧
      (await i I.deadline σ fl).2 = (scan I.toReq I.deadline fl).2 := by
  intro fl
  induction fl with
  | nil =>
    intro σ h hi hs ho _ hc
    obtain ⟨a, b, c, e, _, g⟩ := tick_spec h hi hs ho I.deadline
    have hg : (Pit.step .v1 σ (.tick I.deadline)).sts[i]? = some (.done .timeout I.deadline) := by
      rw [g, if_pos (by omega)]
    exact ⟨a, b, c, allDone_of e hg, ⟨_, hg⟩, rfl⟩
  | cons x rest ih =>
    intro σ h hi hs ho ha hc
    obtain ⟨ta, p⟩ := x
    by_cases hd : I.deadline ≤ ta
    · obtain ⟨a, b, c, e, _, g⟩ := tick_spec h hi hs ho I.deadline
      have hg : (Pit.step .v1 σ (.tick I.deadline)).sts[i]? = some (.done .timeout I.deadline) := by
        rw [g, if_pos (by omega)]
      simp only [await, scan, hd, if_true]
      exact ⟨a, b, c, allDone_of e hg, ⟨_, hg⟩, trivial⟩
    · obtain ⟨a, b, c, e, f, g⟩ := tick_spec h hi hs ho ta
      have hw : (Pit.step .v1 σ (.tick ta)).sts[i]? = some .waiting := by
        rw [g, if_neg (by omega)]
      obtain ⟨a', b', c', e', f', g'⟩ := deliver_spec a (b ▸ hi) hw e hv hl (by rw [f]; omega) p
      simp only [await, scan, hd, if_false]
      cases hr : react I.toReq p with
      | some o =>
        rw [hr] at g'
        have hdone : isDone (deliver (Pit.step .v1 σ (.tick ta)) p) i = true := by simp [isDone, g']
        simp only [hdone, if_true]
        exact ⟨a', b'.trans b, c'.trans c, allDone_of e' g', ⟨_, g'⟩, trivial⟩
      | none =>
        rw [hr] at g'
        have hdone : isDone (deliver (Pit.step .v1 σ (.tick ta)) p) i = false := by simp [isDone, g']
        simp only [hdone, Bool.false_eq_true, if_false]
        obtain ⟨r1, r2, r3, r4, r5, r6⟩ := ih (deliver (Pit.step .v1 σ (.tick ta)) p) a' (b'.trans b ▸ hi) g' e'
          (by rw [f', f]; omega) (by rw [f', f]; omega)
        exact ⟨r1, r2.trans (b'.trans b), r3.trans (c'.trans c), r4, r5, r6⟩

/-- `await` is a sequence of events of the table -/
theorem await_events (i dl : Nat) : ∀ (fl : Flight) (σ : Pit.State),
    ∃ evs : List Pit.Ev, (await i dl σ fl).1 = evs.foldl (Pit.step .v1) σ := by
  intro fl
  induction fl with
  | nil => intro σ; exact ⟨[Pit.Ev.tick dl], rfl⟩
  | cons x rest ih =>
    intro σ
    obtain ⟨ta, p⟩ := x
    simp only [await]
    by_cases hd : dl ≤ ta
    · simp only [hd, if_true]; exact ⟨[Pit.Ev.tick dl], rfl⟩
    · simp only [hd, if_false]
      have hdel : ∃ ev, deliver (Pit.step .v1 σ (.tick ta)) p = Pit.step .v1 (Pit.step .v1 σ (.tick ta)) ev := by
        cases p with
        | data n d => exact ⟨.data n d d, rfl⟩
        | nack n rsn => exact ⟨.nack n none rsn, rfl⟩
      obtain ⟨ev, hev⟩ := hdel
      by_cases hdone : isDone (deliver (Pit.step .v1 σ (.tick ta)) p) i = true
      · simp only [hdone, if_true]; exact ⟨[Pit.Ev.tick ta, ev], by simp [hev]⟩
      · have hdone' : isDone (deliver (Pit.step .v1 σ (.tick ta)) p) i = false := by
          cases h : isDone (deliver (Pit.step .v1 σ (.tick ta)) p) i <;> simp_all
        simp only [hdone', Bool.false_eq_true, if_false]
        obtain ⟨evs, he⟩ := ih (deliver (Pit.step .v1 σ (.tick ta)) p)
        exact ⟨Pit.Ev.tick ta :: ev :: evs, by rw [he, hev]; rfl⟩

theorem scan_facts (r : Pit.Req) (dl : Nat) : ∀ (fl : Flight),
    Plain (scan r dl fl).1 ∧
    (∀ d, (scan r dl fl).1 = .data d → ∃ x ∈ fl, ∃ n, x.2 = Pkt.data n d ∧ Pit.Matches r n d) ∧
    (∀ x ∈ (scan r dl fl).2, x ∈ fl) := by
  intro fl
  induction fl with
  | nil => simp [scan, Plain]
  | cons x rest ih =>
    obtain ⟨ta, p⟩ := x
    simp only [scan]
    by_cases hd : dl ≤ ta
    · simp only [hd, if_true]; exact ⟨trivial, by simp, fun x hx => hx⟩
    · simp only [hd, if_false]
      cases hr : react r p with
      | none =>
        simp only
        obtain ⟨i1, i2, i3⟩ := ih
        refine ⟨i1, ?_, fun x hx => List.mem_cons_of_mem _ (i3 x hx)⟩
        intro d hd'
        obtain ⟨x, hx, n, e1, e2⟩ := i2 d hd'
        exact ⟨x, List.mem_cons_of_mem _ hx, n, e1, e2⟩
      | some o =>
        simp only
        cases p with
        | data n d =>
          simp only [react] at hr
          by_cases hm : Pit.Matches r n d
          · simp only [hm, if_true, Option.some.injEq] at hr
            subst hr
            refine ⟨trivial, ?_, fun x hx => List.mem_cons_of_mem _ hx⟩
            intro d' hd'
            cases hd'
            exact ⟨(ta, .data n d), by simp, n, rfl, hm⟩
          · simp [hm] at hr
        | nack n rsn =>
          simp only [react] at hr
          by_cases hm : Pit.Named r n none
          · simp only [hm, if_true, Option.some.injEq] at hr
            subst hr
            exact ⟨trivial, by simp, fun x hx => List.mem_cons_of_mem _ hx⟩
          · simp [hm] at hr

theorem mem_insertPkt (t : Nat) (p : Pkt) : ∀ (fl : Flight) (x : Nat × Pkt), x ∈ insertPkt t p fl ↔ x = (t, p) ∨ x ∈ fl := by
  intro fl
  induction fl with
  | nil => intro x; simp [insertPkt]
  | cons y rest ih =>
    intro x
    obtain ⟨t', p'⟩ := y
    simp only [insertPkt]
    by_cases h : t < t'
    · simp [h]
    · simp only [h, if_false, List.mem_cons, ih]
      constructor
      · rintro (h1 | h1 | h1) <;> simp [h1]
      · rintro (h1 | h1 | h1) <;> simp [h1]

/-- a packet of the object: a Data bears the name of the segment it carries -/
def PktOk (obj : Obj) : Pkt → Prop
  | .data nm d =>
    match obj with
    | .unseg _ => nm = unsegName ∧ idSeg d = none
    | .segs l => ∃ k, k < l.length ∧ nm = segName k ∧ idSeg d = some k
  | .nack _ _ => True

theorem respond_ok (C : Cfg) (q : Req) (o : Outcome) (p : Pkt) (h : respond C q o = some p) : PktOk C.obj p := by
  have hdata : ∀ b, dataFor C q b = some p → PktOk C.obj p := by
    intro b hb
    unfold dataFor at hb
    cases hobj : C.obj with
    | unseg c =>
      rw [hobj] at hb
      cases q with
      | disc => simp only [Option.some.injEq] at hb; subst hb; exact ⟨rfl, idSeg_unsegId b⟩
      | seg i => simp at hb
    | segs l =>
      rw [hobj] at hb
      cases q with
      | disc =>
        by_cases hlt : C.disc < l.length
        · simp only [hlt, if_true, Option.some.injEq] at hb; subst hb
          exact ⟨C.disc, hlt, rfl, idSeg_segId _ _⟩
        · simp [hlt] at hb
      | seg i =>
        by_cases hlt : i < l.length
        · simp only [hlt, if_true, Option.some.injEq] at hb; subst hb
          exact ⟨i, hlt, rfl, idSeg_segId _ _⟩
        · simp [hlt] at hb
  cases o with
  | data => exact hdata true h
  | invalid => exact hdata false h
  | timeout => simp [respond] at h
  | nack => simp only [respond, Option.some.injEq] at h; subst h; trivial

/-- the invariant of the timed world between two Interests: the table is a reachable state of the C03 model, satisfies
    its invariant, nothing is pending, and every Data in flight is a Data of the object -/
structure WInv (C : Cfg) (w : World) : Prop where
  inv : Inv w.σ
  done : AllDone w.σ
  reach : ∃ evs, w.σ = Pit.run .v1 evs
  fl : ∀ x ∈ w.fl, PktOk C.obj x.2

/-- the request of the fetcher's Interest for `q` expressed at `now` -/
def reqOf (C : Cfg) (now : Nat) (q : Req) : Pit.Req := Pit.mkReq .v1 now (reqName q) none (reqCbp q) C.life .pass 0 0

theorem reqOf_deadline (C : Cfg) (now : Nat) (q : Req) : (reqOf C now q).deadline = now + C.life := by
  simp [reqOf, Pit.mkReq, Pit.expiry_v1]

/-- **one Interest of the fetcher over the table**: the awaitable comes to what `scan` says of the packets in flight
    (a lifetime of 0 times out at once), the packets `scan` leaves stay in flight, the invariant holds again -/
theorem ask_spec (C : Cfg) (w : World) (q : Req) (hw : WInv C w) :
    WInv C (ask C w q).2 ∧ (ask C w q).2.script = (pop w.script).2 ∧
    (ask C w q).2.σ.errs = w.σ.errs ∧
    (ask C w q).1 = (if C.life = 0 then .timeout
      else (scan (reqOf C w.σ.clock q) (w.σ.clock + C.life) (flightWith C w q)).1) ∧
    (ask C w q).2.fl = (if C.life = 0 then flightWith C w q
      else (scan (reqOf C w.σ.clock q) (w.σ.clock + C.life) (flightWith C w q)).2) := by
  obtain ⟨hinv, hdone, ⟨evs0, hreach⟩, hfl⟩ := hw
  obtain ⟨a, b, c, e, nid, f⟩ := Pit.step_eff_express hinv .v1 (reqName q) none (reqCbp q) C.life .pass 0 0 false
  have hfl1 : ∀ x ∈ flightWith C w q, PktOk C.obj x.2 := by
    intro x hx
    unfold flightWith at hx
    cases hr : respond C q (pop w.script).1.1 with
    | none => rw [hr] at hx; exact hfl x hx
    | some p =>
      rw [hr] at hx
      rcases (mem_insertPkt _ _ _ _).mp hx with rfl | h
      · exact respond_ok C q _ p hr
      · exact hfl x h
  have hlen : w.σ.sts.length = w.σ.ints.length := hinv.len
  have hI : (Pit.step .v1 w.σ (.express (reqName q) none (reqCbp q) C.life .pass 0 0 false)).ints[w.σ.ints.length]? =
      some ⟨reqOf C w.σ.clock q, nid⟩ := by rw [f]; simp [reqOf]
  have hoth : Others (Pit.step .v1 w.σ (.express (reqName q) none (reqCbp q) C.life .pass 0 0 false)) w.σ.ints.length := by
    intro j s hj hs
    rw [e] at hs
    have hjl : j < w.σ.sts.length := by
      have := (List.getElem?_eq_some_iff.mp hs).1
      simp only [List.length_append, List.length_cons, List.length_nil] at this
      omega
    rw [List.getElem?_append_left hjl] at hs
    exact hdone j s hs
  have hreach1 : Pit.step .v1 w.σ (.express (reqName q) none (reqCbp q) C.life .pass 0 0 false) =
      Pit.run .v1 (evs0 ++ [.express (reqName q) none (reqCbp q) C.life .pass 0 0 false]) := by
    rw [Pit.run_snoc, ← hreach]
  have hst : (Pit.step .v1 w.σ (.express (reqName q) none (reqCbp q) C.life .pass 0 0 false)).sts[w.σ.ints.length]? =
      some (if C.life = 0 then .done .timeout (w.σ.clock + C.life) else .waiting) := by
    rw [e, ← hlen]
    simp only [List.getElem?_append_right (Nat.le_refl _), Nat.sub_self, List.getElem?_cons_zero]
    have hd : (Pit.mkReq .v1 w.σ.clock (reqName q) none (reqCbp q) C.life .pass 0 0).deadline = w.σ.clock + C.life :=
      reqOf_deadline C w.σ.clock q
    simp only [Pit.initSt, Pit.silent_v1, Bool.false_eq_true, if_false, specFire, hd]
    by_cases h0 : C.life = 0
    · simp [h0]
    · rw [if_neg (by omega), if_neg h0]
  have hask : ask C w q = (outcomeOf (settle w.σ.ints.length (Pit.step .v1 w.σ (.express (reqName q) none (reqCbp q) C.life .pass 0 0 false))
        (flightWith C w q)).1 w.σ.ints.length,
      ⟨(settle w.σ.ints.length (Pit.step .v1 w.σ (.express (reqName q) none (reqCbp q) C.life .pass 0 0 false)) (flightWith C w q)).1,
       (settle w.σ.ints.length (Pit.step .v1 w.σ (.express (reqName q) none (reqCbp q) C.life .pass 0 0 false)) (flightWith C w q)).2,
       (pop w.script).2, w.sent ++ [(q, w.σ.clock)]⟩) := rfl
  rw [hask]
  generalize Pit.step .v1 w.σ (.express (reqName q) none (reqCbp q) C.life .pass 0 0 false) = σ1 at *
  by_cases h0 : C.life = 0
  · rw [if_pos h0] at hst
    have hdn : isDone σ1 w.σ.ints.length = true := by simp [isDone, hst]
    simp only [settle, hdn, if_true]
    rw [if_pos h0, if_pos h0]
    refine ⟨⟨a, allDone_of hoth hst, ⟨_, hreach1⟩, hfl1⟩, trivial, b, ?_, rfl⟩
    simp [outcomeOf, hst]
  · rw [if_neg h0] at hst
    have hdn : isDone σ1 w.σ.ints.length = false := by simp [isDone, hst]
    have hdl : deadlineOf σ1 w.σ.ints.length = (⟨reqOf C w.σ.clock q, nid⟩ : Pit.Interest).deadline := by
      simp [deadlineOf, hI]
    obtain ⟨r1, r2, r3, r4, ⟨t, r5⟩, r6⟩ := await_spec (I := ⟨reqOf C w.σ.clock q, nid⟩) (i := w.σ.ints.length) rfl rfl
      (flightWith C w q) σ1 a hI hst hoth (by rw [c]; simp [reqOf, Pit.mkReq])
      (by rw [c]; show w.σ.clock < (reqOf C w.σ.clock q).deadline; rw [reqOf_deadline]; omega)
    have hdeq : (⟨reqOf C w.σ.clock q, nid⟩ : Pit.Interest).deadline = w.σ.clock + C.life := reqOf_deadline C w.σ.clock q
    obtain ⟨evs1, hev⟩ := await_events w.σ.ints.length (⟨reqOf C w.σ.clock q, nid⟩ : Pit.Interest).deadline (flightWith C w q) σ1
    simp only [settle, hdn, Bool.false_eq_true, if_false, hdl]
    rw [if_neg h0, if_neg h0]
    refine ⟨⟨r1, r4, ⟨_, by rw [hev, hreach1, ← Pit.run_append]⟩, ?_⟩, trivial, r3.trans b, ?_, ?_⟩
    · intro x hx
      have hx' : x ∈ (scan (reqOf C w.σ.clock q) (⟨reqOf C w.σ.clock q, nid⟩ : Pit.Interest).deadline (flightWith C w q)).2 := by
        rw [← r6]; exact hx
      exact hfl1 x ((scan_facts _ _ _).2.2 x hx')
    · simp only [outcomeOf, r5]; rw [hdeq]
    · show (await _ _ _ _).2 = _
      rw [r6, hdeq]

theorem flightWith_ok (C : Cfg) (w : World) (q : Req) (hfl : ∀ x ∈ w.fl, PktOk C.obj x.2) :
    ∀ x ∈ flightWith C w q, PktOk C.obj x.2 := by
  intro x hx
  unfold flightWith at hx
  cases hr : respond C q (pop w.script).1.1 with
  | none => rw [hr] at hx; exact hfl x hx
  | some p =>
    rw [hr] at hx
    rcases (mem_insertPkt _ _ _ _).mp hx with rfl | h
    · exact respond_ok C q _ p hr
    · exact hfl x h

/-- the timed `ask` keeps the world invariant and answers genuinely: whatever Data satisfies an Interest of the fetcher -
    the answer to this very Interest, a late answer to an earlier one - is a Data of the object whose name the Interest matches -/
theorem ask_ok (C : Cfg) : AskOk (ask C) C.obj (WInv C) := by
  intro w q hw
  obtain ⟨h1, _, _, h4, _⟩ := ask_spec C w q hw
  refine ⟨h1, ?_⟩
  rw [h4]
  by_cases h0 : C.life = 0
  · rw [if_pos h0]; exact ⟨trivial, by simp⟩
  · rw [if_neg h0]
    obtain ⟨s1, s2, _⟩ := scan_facts (reqOf C w.σ.clock q) (w.σ.clock + C.life) (flightWith C w q)
    refine ⟨s1, ?_⟩
    intro d hd
    obtain ⟨x, hx, n, e1, hm⟩ := s2 d hd
    have hok := flightWith_ok C w q hw.fl x hx
    rw [e1] at hok
    have hname : (reqOf C w.σ.clock q).name = reqName q := rfl
    have hcbp : (reqOf C w.σ.clock q).cbp = reqCbp q := rfl
    obtain ⟨hm1, _⟩ := hm
    rw [hname, hcbp] at hm1
    cases hobj : C.obj with
    | unseg c =>
      rw [hobj] at hok
      obtain ⟨e2, e3⟩ := hok
      cases q with
      | disc => exact e3
      | seg i =>
        simp only [reqName, reqCbp, Bool.false_eq_true, false_and, or_false] at hm1
        rw [e2] at hm1
        simp [segName, unsegName] at hm1
    | segs l =>
      rw [hobj] at hok
      obtain ⟨k, e2, e3, e4⟩ := hok
      cases q with
      | disc => exact ⟨k, e4, e2⟩
      | seg i =>
        simp only [reqName, reqCbp, Bool.false_eq_true, false_and, or_false] at hm1
        rw [e3] at hm1
        simp only [segName, List.cons.injEq, and_true, true_and] at hm1
        subst hm1
        exact ⟨e4, e2⟩

/-- the world the fetch starts in -/
theorem winv_init (C : Cfg) (sc : List (Outcome × Nat)) : WInv C { script := sc } :=
  ⟨Pit.inv_init, by intro j s h; simp at h, ⟨[], rfl⟩, by intro x h; simp at h⟩

/-! ### Part C: answers that arrive within the lifetime of their own Interest -/

/-- every scripted answer arrives before the Interest it answers expires -/
def Prompt (life : Nat) (sc : List (Outcome × Nat)) : Prop := ∀ e ∈ sc, e.1 = Outcome.timeout ∨ e.2 < life

/-- does the Data asked for exist? -/
def exB (C : Cfg) (q : Req) : Bool :=
  match C.obj, q with
  | .unseg _, .disc => true
  | .unseg _, .seg _ => false
  | .segs l, .disc => decide (C.disc < l.length)
  | .segs l, .seg i => decide (i < l.length)

/-- what the awaitable comes to when the answer to the Interest itself decides -/
def ownObs (C : Cfg) (q : Req) (o : Outcome) : Pit.Outcome :=
  match respond C q o with
  | some (.data _ d) => .data d
  | some (.nack _ r) => .nack r
  | none => .timeout

/-- the untimed reading of an observation -/
def obsOut : Pit.Outcome → Outcome
  | .data d => if idValid d then .data else .invalid
  | .nack _ => .nack
  | _ => .timeout

theorem obsOut_ownObs (C : Cfg) (q : Req) (o : Outcome) : obsOut (ownObs C q o) = SegFetch.eff o (exB C q) := by
  have hd : ∀ b : Bool, obsOut (match dataFor C q b with
      | some (.data _ d) => Pit.Outcome.data d | some (.nack _ r) => .nack r | none => .timeout) =
      if exB C q then (if b then Outcome.data else Outcome.invalid) else Outcome.timeout := by
    intro b
    unfold dataFor exB
    cases C.obj with
    | unseg c => cases q <;> simp [obsOut, idValid_unsegId]
    | segs l =>
      cases q with
      | disc => by_cases h : C.disc < l.length <;> simp [h, obsOut, idValid_segId]
      | seg i => by_cases h : i < l.length <;> simp [h, obsOut, idValid_segId]
  cases o with
  | nack => simp [ownObs, respond, obsOut, SegFetch.eff]
  | timeout => cases h : exB C q <;> simp [ownObs, respond, obsOut, SegFetch.eff]
  | data => have := hd true; simp only [ownObs, respond, SegFetch.eff] at this ⊢; rw [this]; simp
  | invalid => have := hd false; simp only [ownObs, respond, SegFetch.eff] at this ⊢; rw [this]; simp

/-- the answer to an Interest concerns that Interest -/
theorem react_own (C : Cfg) (now : Nat) (q : Req) (o : Outcome) (p : Pkt) (h : respond C q o = some p) :
    react (reqOf C now q) p = some (ownObs C q o) := by
  have hname : (reqOf C now q).name = reqName q := rfl
  have hcbp : (reqOf C now q).cbp = reqCbp q := rfl
  have himp : (reqOf C now q).implicit = none := rfl
  have hdata : ∀ b, dataFor C q b = some p → ∃ n d, p = .data n d ∧ Pit.Matches (reqOf C now q) n d := by
    intro b hb
    unfold dataFor at hb
    cases hobj : C.obj with
    | unseg c =>
      rw [hobj] at hb
      cases q with
      | disc =>
        simp only [Option.some.injEq] at hb; subst hb
        refine ⟨_, _, rfl, .inr ⟨rfl, ?_, ?_⟩, .inl rfl⟩
        · rw [hname]; simp [reqName, prefixName, unsegName]
        · rw [hname]; simp [reqName, prefixName, unsegName]
      | seg i => simp at hb
    | segs l =>
      rw [hobj] at hb
      cases q with
      | disc =>
        by_cases hlt : C.disc < l.length
        · simp only [hlt, if_true, Option.some.injEq] at hb; subst hb
          refine ⟨_, _, rfl, .inr ⟨rfl, ?_, ?_⟩, .inl rfl⟩
          · rw [hname]; simp [reqName, prefixName, segName]
          · rw [hname]; simp [reqName, prefixName, segName]
        · simp [hlt] at hb
      | seg i =>
        by_cases hlt : i < l.length
        · simp only [hlt, if_true, Option.some.injEq] at hb; subst hb
          exact ⟨_, _, rfl, .inl rfl, .inl rfl⟩
        · simp [hlt] at hb
  cases o with
  | nack =>
    simp only [respond, Option.some.injEq] at h; subst h
    simp [react, ownObs, respond, Pit.Named, hname, himp]
  | timeout => simp [respond] at h
  | data =>
    obtain ⟨n, d, rfl, hm⟩ := hdata true h
    simp only [ownObs, h, react, hm, if_true]
  | invalid =>
    obtain ⟨n, d, rfl, hm⟩ := hdata false h
    simp only [ownObs, h, react, hm, if_true]

/-- with nothing else in flight and the answer arriving before the deadline, an Interest comes to its own answer, and
    nothing is left in flight -/
theorem ask_prompt (C : Cfg) (w : World) (q : Req) (hw : WInv C w) (hfl : w.fl = []) (hlife : 0 < C.life)
    (hp : (pop w.script).1.1 = Outcome.timeout ∨ (pop w.script).1.2 < C.life) :
    (ask C w q).1 = ownObs C q (pop w.script).1.1 ∧ (ask C w q).2.fl = [] := by
  obtain ⟨_, _, _, h4, h5⟩ := ask_spec C w q hw
  rw [if_neg (by omega)] at h4 h5
  rw [h4, h5]
  unfold flightWith
  cases hr : respond C q (pop w.script).1.1 with
  | none => simp [hfl, scan, ownObs, hr]
  | some p =>
    have hd : (pop w.script).1.2 < C.life := by
      rcases hp with h | h
      · rw [h] at hr; simp [respond] at hr
      · exact h
    have hre := react_own C w.σ.clock q _ p hr
    simp only [hfl, insertPkt, scan, hre]
    rw [if_neg (by omega)]
    exact ⟨rfl, rfl⟩

theorem pop_map (sc : List (Outcome × Nat)) :
    (SegFetch.pop (sc.map Prod.fst)).1 = (pop sc).1.1 ∧ (SegFetch.pop (sc.map Prod.fst)).2 = (pop sc).2.map Prod.fst := by
  cases sc <;> simp [SegFetch.pop, pop]

theorem prompt_pop {life : Nat} {sc : List (Outcome × Nat)} (hl : 0 < life) (h : Prompt life sc) :
    ((pop sc).1.1 = Outcome.timeout ∨ (pop sc).1.2 < life) ∧ Prompt life (pop sc).2 := by
  cases sc with
  | nil => exact ⟨.inr hl, by intro e he; simp [pop] at he⟩
  | cons x r => exact ⟨h x (by simp), fun e he => h e (by simp [pop] at he; simp [he])⟩

/-- the untimed reading of a `retry` result -/
def rresOut : RRes → SegFetch.RRes
  | .ok _ => .ok
  | .timeout => .timeout
  | .nack => .nack
  | .invalid => .invalid
  | .fuel => .fuel

/-- the world between two Interests when every answer is prompt: nothing in flight -/
structure Calm (C : Cfg) (w : World) : Prop where
  winv : WInv C w
  fl : w.fl = []
  prompt : Prompt C.life w.script

/-- `retry` over the table = the untimed `retry` when every answer is prompt -/
theorem retry_refines (C : Cfg) (hlife : 0 < C.life) (limit : Nat) (q : Req) :
    ∀ (fuel trial : Nat) (w : World), Calm C w →
    Calm C (retryG (ask C) limit q fuel trial w).2.1 ∧
    rresOut (retryG (ask C) limit q fuel trial w).1 =
      (SegFetch.retry limit (exB C q) fuel trial (w.script.map Prod.fst)).1 ∧
    (retryG (ask C) limit q fuel trial w).2.1.script.map Prod.fst =
      (SegFetch.retry limit (exB C q) fuel trial (w.script.map Prod.fst)).2.1 ∧
    (retryG (ask C) limit q fuel trial w).2.2.map obsOut =
      (SegFetch.retry limit (exB C q) fuel trial (w.script.map Prod.fst)).2.2 ∧
    (∀ d, (retryG (ask C) limit q fuel trial w).1 = .ok d → ∃ o, Pit.Outcome.data d = ownObs C q o) := by
  intro fuel
  induction fuel with
  | zero => intro trial w hc; exact ⟨hc, rfl, rfl, rfl, by intro d h; simp [retryG] at h⟩
  | succ n ih =>
    intro trial w hc
    obtain ⟨hpp, hrest⟩ := prompt_pop hlife hc.prompt
    obtain ⟨h1, h2⟩ := ask_prompt C w q hc.winv hc.fl hlife hpp
    obtain ⟨hw', hsc, _⟩ := ask_spec C w q hc.winv
    have hc' : Calm C (ask C w q).2 := ⟨hw', h2, by rw [hsc]; exact hrest⟩
    obtain ⟨pm1, pm2⟩ := pop_map w.script
    have heff := obsOut_ownObs C q (pop w.script).1.1
    rw [← h1, ← pm1] at heff
    have hplain := (ask_ok C w q hc.winv).2.1
    rw [retryG_succ, SegFetch.retry_succ, ← heff]
    cases ho : (ask C w q).1 with
    | data d =>
      by_cases hv : idValid d = true
      · simp only [obsOut, hv, if_true]
        refine ⟨hc', rfl, by rw [hsc, pm2], by simp [obsOut, hv], ?_⟩
        intro d' hd'
        cases hd'
        exact ⟨_, by rw [← h1, ho]⟩
      · have hv' : idValid d = false := by cases h : idValid d <;> simp_all
        simp only [obsOut, hv', Bool.false_eq_true, if_false]
        exact ⟨hc', rfl, by rw [hsc, pm2], by simp [obsOut, hv'], by intro d' hd'; simp at hd'⟩
    | nack r =>
      simp only [obsOut]
      exact ⟨hc', rfl, by rw [hsc, pm2], rfl, by intro d' hd'; simp at hd'⟩
    | timeout =>
      simp only [obsOut]
      by_cases h : trial + 1 ≥ limit
      · simp only [h, if_true]
        exact ⟨hc', rfl, by rw [hsc, pm2], rfl, by intro d' hd'; simp at hd'⟩
      · simp only [h, if_false]
        obtain ⟨i1, i2, i3, i4, i5⟩ := ih (trial + 1) (ask C w q).2 hc'
        rw [hsc, ← pm2] at i2 i3 i4
        exact ⟨i1, i2, i3, by simp [obsOut, i4], i5⟩
    | cancelled => rw [ho] at hplain; exact absurd hplain (by simp [Plain])
    | valFail d v => rw [ho] at hplain; exact absurd hplain (by simp [Plain])
    | validatorError d => rw [ho] at hplain; exact absurd hplain (by simp [Plain])
    | noResponse => rw [ho] at hplain; exact absurd hplain (by simp [Plain])

/-- the untimed reading of a log -/
def logOut (l : List (Req × Pit.Outcome)) : List (Req × Outcome) := l.map fun e => (e.1, obsOut e.2)

theorem logOut_block (q : Req) (l : List Pit.Outcome) :
    logOut (l.map fun o => (q, o)) = (l.map obsOut).map fun o => (q, o) := by
  simp [logOut, Function.comp_def]

theorem logOut_append (a b : List (Req × Pit.Outcome)) : logOut (a ++ b) = logOut a ++ logOut b := by
  simp [logOut]

theorem endOf_rresOut (r : RRes) : SegFetch.endOf (rresOut r) = endOf r := by cases r <;> rfl

/-- the segment loop over the table = the untimed segment loop when every answer is prompt -/
theorem loop_refines (C : Cfg) (hlife : 0 < C.life) (segs : List Seg) (hobj : C.obj = .segs segs) (limit : Nat) :
    ∀ (fuel i : Nat) (w : World), Calm C w →
    (fetchLoopG (ask C) limit segs fuel i w).1.yielded = (SegFetch.fetchLoop limit segs fuel i (w.script.map Prod.fst)).yielded ∧
    logOut (fetchLoopG (ask C) limit segs fuel i w).1.log = (SegFetch.fetchLoop limit segs fuel i (w.script.map Prod.fst)).log ∧
    (fetchLoopG (ask C) limit segs fuel i w).1.end_ = (SegFetch.fetchLoop limit segs fuel i (w.script.map Prod.fst)).end_ := by
  have hA : AskOk (ask C) (.segs segs) (WInv C) := hobj ▸ ask_ok C
  intro fuel
  induction fuel with
  | zero => intro i w _; exact ⟨rfl, rfl, rfl⟩
  | succ n ih =>
    intro i w hc
    obtain ⟨c1, c2, c3, c4, _⟩ := retry_refines C hlife limit (.seg i) (limit + 1) 0 w hc
    have hex : exB C (.seg i) = decide (i < segs.length) := by simp [exB, hobj]
    rw [hex] at c2 c3 c4
    rw [SegFetch.fetchLoop_succ, ← c2, ← c3, ← c4]
    rcases loop_step (ask C) hA limit n i w hc.winv with ⟨d, hr, hlt, heq⟩ | ⟨hne, heq⟩
    · rw [heq, hr]
      have hs : segs[i]? = some segs[i] := List.getElem?_eq_getElem hlt
      simp only [rresOut, hs]
      by_cases hf : segs[i].fbi = some i
      · simp only [hf, if_true]
        exact ⟨trivial, logOut_block _ _, trivial⟩
      · simp only [hf, if_false]
        obtain ⟨i1, i2, i3⟩ := ih (i + 1) _ c1
        exact ⟨by rw [i1], by rw [logOut_append, logOut_block, i2], i3⟩
    · rw [heq]
      cases hr : (retryG (ask C) limit (.seg i) (limit + 1) 0 w).1 with
      | ok d => exact absurd hr (hne d)
      | timeout => cases segs[i]? <;> exact ⟨rfl, logOut_block _ _, rfl⟩
      | nack => cases segs[i]? <;> exact ⟨rfl, logOut_block _ _, rfl⟩
      | invalid => cases segs[i]? <;> exact ⟨rfl, logOut_block _ _, rfl⟩
      | fuel =>
        obtain ⟨_, j, last, _, a3, _⟩ := retryG_top (ask C) hA limit (.seg i) w hc.winv
        rw [hr] at a3; exact absurd a3 (by simp [lastOK])

theorem ownObs_disc_segs {C : Cfg} {l : List Seg} (hobj : C.obj = .segs l) {d : Nat} {o : Outcome}
    (h : Pit.Outcome.data d = ownObs C .disc o) : idSeg d = some C.disc := by
  have hd : ∀ b, Pit.Outcome.data d = (match dataFor C .disc b with
      | some (.data _ d) => Pit.Outcome.data d | some (.nack _ r) => .nack r | none => .timeout) → idSeg d = some C.disc := by
    intro b hb
    unfold dataFor at hb
    rw [hobj] at hb
    by_cases hlt : C.disc < l.length
    · simp only [hlt, if_true, Pit.Outcome.data.injEq] at hb; rw [hb]; exact idSeg_segId _ _
    · simp [hlt] at hb
  cases o with
  | nack => simp [ownObs, respond] at h
  | timeout => simp [ownObs, respond] at h
  | data => exact hd true h
  | invalid => exact hd false h

/-- **refinement**: when every answer arrives within the lifetime of its own Interest the fetch over the table yields,
    logs and ends exactly as the untimed model says for the script of outcomes -/
theorem fetch_refines (S : Scenario) (hlife : 0 < S.cfg.life) (hp : Prompt S.cfg.life S.script) :
    (fetchT S).1.yielded = (SegFetch.fetch ⟨S.cfg.obj, S.cfg.disc, S.script.map Prod.fst, S.limit⟩).yielded ∧
    logOut (fetchT S).1.log = (SegFetch.fetch ⟨S.cfg.obj, S.cfg.disc, S.script.map Prod.fst, S.limit⟩).log ∧
    (fetchT S).1.end_ = (SegFetch.fetch ⟨S.cfg.obj, S.cfg.disc, S.script.map Prod.fst, S.limit⟩).end_ := by
  have hc : Calm S.cfg ({ script := S.script } : World) := ⟨winv_init S.cfg S.script, rfl, hp⟩
  obtain ⟨c1, c2, c3, c4, c5⟩ := retry_refines S.cfg hlife S.limit .disc (S.limit + 1) 0 _ hc
  have hfuel : ∀ {obj : Obj} (hA : AskOk (ask S.cfg) obj (WInv S.cfg)),
      (retryG (ask S.cfg) S.limit .disc (S.limit + 1) 0 ({ script := S.script } : World)).1 ≠ .fuel := by
    intro obj hA hr
    obtain ⟨_, j, last, _, a3, _⟩ := retryG_top (ask S.cfg) hA S.limit .disc _ hc.winv
    rw [hr] at a3; exact absurd a3 (by simp [lastOK])
  unfold fetchT SegFetch.fetch
  cases hobj : S.cfg.obj with
  | unseg c =>
    have hA : AskOk (ask S.cfg) (.unseg c) (WInv S.cfg) := hobj ▸ ask_ok S.cfg
    have hex : exB S.cfg .disc = true := by simp [exB, hobj]
    rw [hex] at c2 c3 c4
    simp only
    rw [← c2, ← c4]
    rcases fetch_step_unseg (ask S.cfg) hA S.limit _ hc.winv with ⟨d, hr, heq⟩ | ⟨hne, heq⟩
    · rw [heq]
      have hr' : (retryG (ask S.cfg) S.limit .disc (S.limit + 1) 0 ({ script := S.script } : World)).1 = .ok d := hr
      rw [hr']
      exact ⟨rfl, logOut_block _ _, rfl⟩
    · rw [heq]
      cases hr : (retryG (ask S.cfg) S.limit .disc (S.limit + 1) 0 ({ script := S.script } : World)).1 with
      | ok d => exact absurd hr (hne d)
      | timeout => exact ⟨rfl, logOut_block _ _, rfl⟩
      | nack => exact ⟨rfl, logOut_block _ _, rfl⟩
      | invalid => exact ⟨rfl, logOut_block _ _, rfl⟩
      | fuel => exact absurd hr (hfuel hA)
  | segs l =>
    have hA : AskOk (ask S.cfg) (.segs l) (WInv S.cfg) := hobj ▸ ask_ok S.cfg
    have hex : exB S.cfg .disc = decide (S.cfg.disc < l.length) := by simp [exB, hobj]
    rw [hex] at c2 c3 c4
    simp only
    rw [← c2, ← c3, ← c4]
    rcases fetch_step_segs (ask S.cfg) hA S.limit _ hc.winv with ⟨d, k, hr, hk, hlt, hcase⟩ | ⟨hne, heq⟩
    · have hr' : (retryG (ask S.cfg) S.limit .disc (S.limit + 1) 0 ({ script := S.script } : World)).1 = .ok d := hr
      obtain ⟨o, ho⟩ := c5 d hr'
      have hkd : k = S.cfg.disc := by
        have := ownObs_disc_segs hobj ho
        rw [hk] at this; exact Option.some.inj this
      rw [hr']
      simp only [rresOut]
      rcases hcase with ⟨hk0, h0, heq⟩ | ⟨hk0, heq⟩
      · rw [heq]
        have hd0 : S.cfg.disc = 0 := by omega
        have hs : l[0]? = some l[0] := List.getElem?_eq_getElem h0
        simp only [hd0, if_true, hs]
        by_cases hf : l[0].fbi = some 0
        · simp only [hf, if_true]
          exact ⟨trivial, logOut_block _ _, trivial⟩
        · simp only [hf, if_false]
          obtain ⟨i1, i2, i3⟩ := loop_refines S.cfg hlife l hobj S.limit (l.length + 1) 1 _ c1
          exact ⟨by rw [← i1], by rw [logOut_append, logOut_block, ← i2], by rw [← i3]⟩
      · rw [heq]
        have hd0 : ¬ S.cfg.disc = 0 := by omega
        simp only [hd0, if_false]
        obtain ⟨i1, i2, i3⟩ := loop_refines S.cfg hlife l hobj S.limit (l.length + 1) 0 _ c1
        exact ⟨by rw [← i1], by rw [logOut_append, logOut_block, ← i2], by rw [← i3]⟩
    · rw [heq]
      cases hr : (retryG (ask S.cfg) S.limit .disc (S.limit + 1) 0 ({ script := S.script } : World)).1 with
      | ok d => exact absurd hr (hne d)
      | timeout => exact ⟨rfl, logOut_block _ _, rfl⟩
      | nack => exact ⟨rfl, logOut_block _ _, rfl⟩
      | invalid => exact ⟨rfl, logOut_block _ _, rfl⟩
      | fuel => exact absurd hr (hfuel hA)

end Ndn.SegFetchT
