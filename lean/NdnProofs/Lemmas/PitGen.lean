import NdnModel.Pit
/-!
The entries of the generated table `Ndn.Gen.C03` (lean/NdnGen/C03.lean, extracted from the source text on every check
run) that the pending-Interest model COMPUTES WITH, pinned to the values the proofs rely on (`Ndn.C03.gen_*`, closed by
evaluation), and what the table-driven definitions of the model come to for these values (`Ndn.Pit.*`, derived from the
pins).  A source edit that changes such an entry stops its pin from checking - and with it everything built on this
file, which is every theorem of C03 and C05.
-/
namespace Ndn.C03
open Ndn Ndn.Pit

/-- `DEFAULT_LIFETIME`, `100 if lifetime is None else lifetime`, the substitution is `is not None` (not `or`, which
    would also replace lifetime 0), and `wait_for` is given `lifetime/1000.0` seconds -/
theorem gen_lifetimes :
    Gen.C03.v2.defaultLifetime = 4000 ∧ Gen.C03.v2.lifetimeDflt = .ifNotNone ∧
    Gen.C03.v1.defaultLifetime = 100 ∧ Gen.C03.v1.lifetimeDflt = .ifNotNone ∧
    Gen.C03.v2.msPerSecond = 1000 ∧ Gen.C03.v1.msPerSecond = 1000 := by decide

/-- `_wait_for_data`: current = until the deadline, `if lifetime <= 0: lifetime = 100`; legacy = the whole lifetime -/
theorem gen_wait_budget :
    Gen.C03.v2.budget = .untilDeadline .le 100 ∧ Gen.C03.v1.budget = .fullLifetime := by decide

/-- `no_response` is honoured by appv2 before anything is recorded; the legacy front-end has no such parameter -/
theorem gen_no_response : Gen.C03.v2.noResponse = true ∧ Gen.C03.v1.noResponse = false := by decide

/-- how a verdict becomes an outcome: current = `PASS` / `ALLOW_BYPASS` deliver, `TimeoutError` / `CancelledError` of
    the validator read as `TIMEOUT`, nothing else is caught; legacy = truthiness, nothing caught -/
theorem gen_data_verdict :
    Gen.C03.v2.dataDelivers = .only [.pass, .allowBypass] ∧ Gen.C03.v2.dataCaught = [.timeoutError, .cancelledError] ∧
    Gen.C03.v2.dataCaughtAs = .timeout ∧ Gen.C03.v1.dataDelivers = .truthy ∧ Gen.C03.v1.dataCaught = [] := by decide

/-- every entry the model computes with was recognised by the extractor -/
theorem gen_table_ok : Pit.tableOk = true := by decide

end Ndn.C03

namespace Ndn.Pit

/-- the outcome table the proofs work with: what `validatorOutcome` comes to for the pinned values -/
def validatorOutcomeRef (fe : FrontEnd) (v : Verdict) (d : Nat) : Option Outcome :=
  match fe, v with
  | _, .pass => some (.data d)
  | .v2, .allowBypass => some (.data d)
  | .v2, .raiseOther => none
  | .v2, .raiseTimeout => some (.valFail d .timeout)
  | .v2, v => some (.valFail d v)
  | .v1, .allowBypass => some (.data d)
  | .v1, .raiseOther => some (.validatorError d)
  | .v1, .raiseTimeout => some (.validatorError d)
  | .v1, _ => some (.valFail d .fail)

theorem validatorOutcome_eq_ref (fe : FrontEnd) (v : Verdict) (d : Nat) :
    validatorOutcome fe v d = validatorOutcomeRef fe v d := by
  obtain ⟨h1, h2, h3, h4, h5⟩ := C03.gen_data_verdict
  cases fe <;> cases v <;>
    simp [validatorOutcome, shape, h1, h2, h3, h4, h5, validOf, lets, Verdict.member, Verdict.ofVR, validatorOutcomeRef]

theorem grace_eq : grace = 100 := by
  unfold grace; rw [C03.gen_wait_budget.1]; rfl

theorem expiry_v1 (now life defer : Nat) : expiry .v1 now life defer = now + defer + life := by
  unfold expiry shape; rw [C03.gen_wait_budget.2]; rfl

theorem expiry_v2 (now life defer : Nat) :
    expiry .v2 now life defer = if now + defer < now + life then now + life else now + defer + 100 := by
  unfold expiry shape; rw [C03.gen_wait_budget.1]
  show (if decide (now + life ≤ now + defer) = true then now + defer + 100 else now + life) = _
  by_cases h : now + defer < now + life
  · rw [if_pos h, if_neg (by simp; omega)]
  · rw [if_neg h, if_pos (by simp; omega)]

@[simp] theorem silent_v1 (nr : Bool) : silent .v1 nr = false := by
  unfold silent shape; rw [C03.gen_no_response.2]; rfl
@[simp] theorem silent_v2 (nr : Bool) : silent .v2 nr = nr := by
  unfold silent shape; rw [C03.gen_no_response.1]; cases nr <;> rfl

theorem lifeOf_some (fe : FrontEnd) (l : Nat) : lifeOf fe (some l) = l := by
  obtain ⟨_, h2, _, h4, _⟩ := C03.gen_lifetimes
  cases fe <;> simp [lifeOf, shape, h2, h4, Src.Dflt.apply]
theorem lifeOf_none_v2 : lifeOf .v2 none = 4000 := by
  obtain ⟨h1, h2, _⟩ := C03.gen_lifetimes
  simp [lifeOf, shape, h1, h2, Src.Dflt.apply]
theorem lifeOf_none_v1 : lifeOf .v1 none = 100 := by
  obtain ⟨_, _, h3, h4, _⟩ := C03.gen_lifetimes
  simp [lifeOf, shape, h3, h4, Src.Dflt.apply]

end Ndn.Pit
