import NdnProofs.Lemmas.CodecLoop
/-! Round trip `parse (enc v) = v` for every well-formed schema (plain, repeated and map fields; no markers). -/
namespace Ndn.Codec
open Ndn

theorem ItemsOK_mono (fs : List Schema) : ∀ (items : List Item) (p q : Nat),
    q ≤ p → ItemsOK fs p items → ItemsOK fs q items
  | [], _, _, _, _ => trivial
  | _ :: _, _, _, hq, ⟨h1, h2, h3⟩ => ⟨Nat.le_trans hq h1, h2, h3⟩

theorem ItemsOK_append (fs : List Schema) : ∀ (l1 l2 : List Item) (p q : Nat),
    ItemsOK fs p l1 → (∀ it ∈ l1, nextPos it ≤ q) → p ≤ q → ItemsOK fs q l2 → ItemsOK fs p (l1 ++ l2)
  | [], l2, p, q, _, _, hpq, h2 => ItemsOK_mono fs l2 q p hpq h2
  | it :: r, l2, p, q, ⟨h1, h2, h3⟩, hall, _, hl2 => by
    refine ⟨h1, h2, ?_⟩
    exact ItemsOK_append fs r l2 (nextPos it) q h3 (fun x hx => hall x (List.mem_cons_of_mem _ hx))
      (hall it (List.mem_cons_self ..)) hl2

theorem encItems_append : ∀ (l1 l2 : List Item), encItems (l1 ++ l2) = encItems l1 ++ encItems l2
  | [], _ => rfl
  | it :: r, l2 => by simp [encItems, encItems_append r l2]

/-- items that all belong to the repeated field at index `k` -/
theorem ItemsOK_rep (fs : List Schema) (k : Nat) : ∀ (items : List Item) (p : Nat), p ≤ k →
    (∀ it ∈ items, it.idx = k ∧ isRep it.fld = true ∧ ItemOK fs it) → ItemsOK fs p items
  | [], _, _, _ => trivial
  | it :: r, p, hp, hall => by
    obtain ⟨hi, hr, hok⟩ := hall it (List.mem_cons_self ..)
    refine ⟨by omega, hok, ?_⟩
    have : nextPos it = k := by simp [nextPos, hr, hi]
    rw [this]
    exact ItemsOK_rep fs k r k (Nat.le_refl _) (fun x hx => hall x (List.mem_cons_of_mem _ hx))

/-- items that all belong to the map field at index `k` -/
theorem ItemsOK_mapk (fs : List Schema) (k : Nat) : ∀ (items : List Item) (p : Nat), p ≤ k →
    (∀ it ∈ items, it.idx = k ∧ isMapS it.fld = true ∧ ItemOK fs it) → ItemsOK fs p items
  | [], _, _, _ => trivial
  | it :: r, p, hp, hall => by
    obtain ⟨hi, hr, hok⟩ := hall it (List.mem_cons_self ..)
    refine ⟨by omega, hok, ?_⟩
    have : nextPos it = k := by simp [nextPos, hr, hi]
    rw [this]
    exact ItemsOK_mapk fs k r k (Nat.le_refl _) (fun x hx => hall x (List.mem_cons_of_mem _ hx))

/-- storing under a key that is not in the dict yet appends the entry -/
theorem mapSet_fresh : ∀ (l : List (Value × Value)) (k v : Value),
    (∀ e ∈ l, keyEq e.1 k = false) → mapSet l k v = l ++ [(k, v)]
  | [], _, _, _ => rfl
  | (k', v') :: r, k, v, h => by
    have h1 : keyEq k' k = false := h (k', v') (List.mem_cons_self ..)
    simp only [mapSet, h1, Bool.false_eq_true, if_false, List.cons_append]
    rw [mapSet_fresh r k v (fun e he => h e (List.mem_cons_of_mem _ he))]

/-- what parsing one encoded element of (element-kind) schema `e` gives -/
def ElemRT (e : Schema) (v : Value) (a : Bytes) : Prop :=
  ∃ t body, a = tlv t body ∧ e.typ = some t ∧ t < 2 ^ 64 ∧ body.length < 2 ^ 64 ∧
    leafCheck e body.length body = .ok () ∧
    ∀ fuel R, body.length + 2 ≤ fuel → parseValue fuel e body (tlv t body ++ R) = .ok v

theorem beVal_beN (w v : Nat) (hw : w = 1 ∨ w = 2 ∨ w = 4 ∨ w = 8) (hv : v < 256 ^ w) :
    beVal (beN w v) = v := by
  rcases hw with h | h | h | h <;> subst h
  · simpa [beN] using beVal_be1 v (by simpa using hv)
  · simpa [beN] using beVal_be2 v (by simpa using hv)
  · simpa [beN] using beVal_be4 v (by simpa using hv)
  · simpa [beN] using beVal_be8 v (by simpa using hv)

theorem set_append_mid (d : List Value) (x y : Value) (tl : List Value) :
    (d ++ x :: tl).set d.length y = d ++ y :: tl := by
  induction d with
  | nil => simp
  | cons a r ih => simp [ih]

theorem getElem?_append_mid (d : List Value) (x : Value) (tl : List Value) :
    (d ++ x :: tl)[d.length]? = some x := by
  simp

end Ndn.Codec

namespace Ndn.Codec
open Ndn

theorem set_of_getElem? {α} : ∀ {l : List α} {k : Nat} {x : α}, l[k]? = some x → l.set k x = l
  | [], _, _, h => by simp at h
  | a :: r, 0, x, h => by simp at h; simp [h]
  | a :: r, k + 1, x, h => by simp at h; simp [set_of_getElem? h]

/-- a plain (non-repeated) field: zero or one item -/
theorem rt_plain_aux (pre : List Schema) (s : Schema) (ss : List Schema) (v : Value) (a : Bytes)
    (hek : isElemKind s = true) (hinit : initVal s = .none) (ha : enc s v = .ok a)
    (hget : (pre ++ s :: ss)[pre.length]? = some s) (helem : v ≠ .none → ElemRT s v a) :
    ∃ items1, ItemsOK (pre ++ s :: ss) pre.length items1 ∧
      (∀ it ∈ items1, nextPos it ≤ pre.length + 1) ∧ encItems items1 = a ∧
      ∀ d : List Value, d.length = pre.length → ∀ tl : List Value,
        items1.foldl applyItem (d ++ initVal s :: tl) = d ++ v :: tl := by
  by_cases hv : v = .none
  · subst hv
    have : a = [] := by cases s <;> simp [enc] at ha <;> exact ha
    subst this
    exact ⟨[], trivial, by simp, rfl, by intro d _ tl; simp [hinit]⟩
  · obtain ⟨t, body, rfl, htyp, ht, hb, hleaf, hpv⟩ := helem hv
    have hnr : isRep s = false := by cases s <;> simp_all [isRep, isElemKind]
    have hel : elemOf s = s := by cases s <;> simp_all [elemOf, isElemKind]
    have hpr : plainOrRep s = true := by cases s <;> simp_all [plainOrRep, isElemKind]
    have hnm : isMapS s = false := by cases s <;> simp_all [isMapS, isElemKind]
    refine ⟨[⟨pre.length, s, v, t, body, none⟩], ?_, ?_, by simp [encItems, encItem, encTail], ?_⟩
    · exact ⟨Nat.le_refl _, ⟨hget, hpr, htyp, ht, hb, by rw [hel]; exact hleaf, by rw [hel]; exact hpv, hnm⟩, trivial⟩
    · intro it hit; simp at hit; subst hit; simp [nextPos, hnr, hnm]
    · intro d hd tl
      simp only [List.foldl, applyItem, hnr, Bool.false_eq_true, if_false]
      rw [← hd, set_append_mid]

/-- the result of folding the items of the suffix `ss` (values `vs`) -/
def SuffixRT (pre ss : List Schema) (vs : List Value) (B : Bytes) : Prop :=
  ∃ items, ItemsOK (pre ++ ss) pre.length items ∧ encItems items = B ∧
    ∀ d : List Value, d.length = pre.length →
      items.foldl applyItem (d ++ ss.map initVal) = d ++ vs

/-- the items of one repeated field at index `k` -/
def ListRT (fs : List Schema) (k : Nat) (e : Schema) (xs : List Value) (a : Bytes) : Prop :=
  ∃ items, (∀ it ∈ items, it.idx = k ∧ isRep it.fld = true ∧ ItemOK fs it) ∧ encItems items = a ∧
    ∀ (acc : List Value) (l : List Value), acc[k]? = some (.list l) →
      items.foldl applyItem acc = acc.set k (.list (l ++ xs))

/-- the items (key element + value element each) of one map field at index `k` -/
def MapRT (fs : List Schema) (k : Nat) (es : List (Value × Value)) (a : Bytes) : Prop :=
  ∃ items, (∀ it ∈ items, it.idx = k ∧ isMapS it.fld = true ∧ ItemOK fs it) ∧ encItems items = a ∧
    ∀ (acc : List Value) (l : List (Value × Value)), acc[k]? = some (.map l) → keysDistinct es = true →
      (∀ e ∈ l, ∀ e' ∈ es, keyEq e.1 e'.1 = false) →
      items.foldl applyItem acc = acc.set k (.map (l ++ es))

mutual
theorem rt_elem : ∀ (e : Schema) (v : Value) (a : Bytes),
    isElemKind e = true → wfS e = true → fits e v = true → v ≠ .none → enc e v = .ok a → ElemRT e v a
  | .uint t fl, .uint v, a, _, hw, _, _, h => by
    simp only [enc] at h
    split at h
    · cases h
    · rename_i hv
      obtain ⟨rfl, ht, hb⟩ := tlvE_ok h
      have hleg := uintWidth_legal fl v hw
      have hl := beN_length (uintWidth fl v) v hleg
      refine ⟨t, _, rfl, rfl, ht, hb, ?_, ?_⟩
      · simp [leafCheck, hl, hleg]
      · intro fuel R hf
        cases fuel with
        | zero => omega
        | succ f => simp [parseValue, beVal_beN (uintWidth fl v) v hleg (by omega)]
  | .bool t, .bool, a, _, _, _, _, h => by
    simp only [enc] at h
    obtain ⟨rfl, ht, hb⟩ := tlvE_ok h
    refine ⟨t, _, rfl, rfl, ht, hb, by simp [leafCheck], ?_⟩
    intro fuel R hf
    cases fuel with
    | zero => omega
    | succ f => simp [parseValue]
  | .bytes t isStr, .bytes x, a, _, _, hfit, _, h => by
    simp only [enc] at h
    obtain ⟨rfl, ht, hb⟩ := tlvE_ok h
    refine ⟨t, _, rfl, rfl, ht, hb, by simp [leafCheck], ?_⟩
    intro fuel R hf
    cases fuel with
    | zero => omega
    | succ f =>
      simp only [fits, Bool.or_eq_true, Bool.not_eq_true'] at hfit
      cases isStr with
      | false => simp [parseValue]
      | true => simp at hfit; simp [parseValue, hfit]
  | .name t, .name cs, a, _, hw, hfit, _, h => by
    simp only [enc] at h
    obtain ⟨rfl, _, hb⟩ := tlvE_ok h
    have h7 : t = 7 := by simpa [wfS] using hw
    subst h7
    refine ⟨7, _, rfl, rfl, by decide, hb, by simp [leafCheck], ?_⟩
    intro fuel R hf
    cases fuel with
    | zero => omega
    | succ f =>
      simp only [fits] at hfit
      simp [parseValue, decodeName_ok cs R hfit hb, bind, Except.bind, pure, Except.pure]
  | .model t fs ic, .model vs, a, _, hw, hfit, _, h => by
    simp only [enc] at h
    obtain ⟨body, hbody, h2⟩ := bind_ok h
    obtain ⟨rfl, ht, hb⟩ := tlvE_ok h2
    simp only [wfS, Bool.and_eq_true] at hw
    simp only [fits] at hfit
    obtain ⟨items, hok, henc, hfold⟩ := rt_suffix [] fs vs body hw.1 (by simpa using hw.2) hfit hbody
    refine ⟨t, _, rfl, rfl, ht, hb, by simp [leafCheck], ?_⟩
    intro fuel R hf
    cases fuel with
    | zero => omega
    | succ f =>
      have := loop_items fs ic hw.1 hw.2 items f 0 0 (fs.map initVal) (by simpa using hok)
        (by rw [henc]; omega)
      rw [henc] at this
      have hd := hfold [] rfl
      simp only [List.nil_append] at hd
      simp [parseValue, this, hd, bind, Except.bind, pure, Except.pure]
  | _, .none, _, _, _, _, hv, _ => absurd rfl hv
  | .repeated _, _, _, hk, _, _, _, _ | .map _ _, _, _, hk, _, _, _, _ | .marker, _, _, hk, _, _, _, _ => by
    simp [isElemKind] at hk
  | .uint _ _, .bool, _, _, _, _, _, h | .uint _ _, .bytes _, _, _, _, _, _, h | .uint _ _, .name _, _, _, _, _, _, h
  | .uint _ _, .model _, _, _, _, _, _, h | .uint _ _, .list _, _, _, _, _, _, h
  | .uint _ _, .map _, _, _, _, _, _, h => by simp [enc] at h
  | .bool _, .uint _, _, _, _, _, _, h | .bool _, .bytes _, _, _, _, _, _, h | .bool _, .name _, _, _, _, _, _, h
  | .bool _, .model _, _, _, _, _, _, h | .bool _, .list _, _, _, _, _, _, h
  | .bool _, .map _, _, _, _, _, _, h => by simp [enc] at h
  | .bytes _ _, .uint _, _, _, _, _, _, h | .bytes _ _, .bool, _, _, _, _, _, h | .bytes _ _, .name _, _, _, _, _, _, h
  | .bytes _ _, .model _, _, _, _, _, _, h | .bytes _ _, .list _, _, _, _, _, _, h
  | .bytes _ _, .map _, _, _, _, _, _, h => by simp [enc] at h
  | .name _, .uint _, _, _, _, _, _, h | .name _, .bool, _, _, _, _, _, h | .name _, .bytes _, _, _, _, _, _, h
  | .name _, .model _, _, _, _, _, _, h | .name _, .list _, _, _, _, _, _, h
  | .name _, .map _, _, _, _, _, _, h => by simp [enc] at h
  | .model _ _ _, .uint _, _, _, _, _, _, h | .model _ _ _, .bool, _, _, _, _, _, h
  | .model _ _ _, .bytes _, _, _, _, _, _, h | .model _ _ _, .name _, _, _, _, _, _, h
  | .model _ _ _, .list _, _, _, _, _, _, h | .model _ _ _, .map _, _, _, _, _, _, h => by simp [enc] at h

theorem rt_list : ∀ (fs : List Schema) (k : Nat) (e : Schema) (xs : List Value) (a : Bytes),
    fs[k]? = some (.repeated e) → isElemKind e = true → wfS e = true → fitsList e xs = true →
    encList e xs = .ok a → ListRT fs k e xs a
  | fs, k, e, [], a, _, _, _, _, h => by
    simp [encList] at h; subst h
    refine ⟨[], by simp, rfl, ?_⟩
    intro acc l hl
    simp only [List.foldl, List.append_nil]
    exact (set_of_getElem? hl).symm
  | fs, k, e, x :: xs, a, hk, hek, hw, hfit, h => by
    simp only [encList] at h
    obtain ⟨a1, ha1, h2⟩ := bind_ok h
    obtain ⟨a2, ha2, h3⟩ := bind_ok h2
    simp only [pure, Except.pure] at h3; cases h3
    simp only [fitsList, Bool.and_eq_true] at hfit
    have hxne : x ≠ .none := by
      intro e; subst e; simp at hfit
    obtain ⟨t, body, rfl, htyp, ht, hb, hleaf, hpv⟩ := rt_elem e x a1 hek hw hfit.1.2 hxne ha1
    obtain ⟨items, hall, henc, hfold⟩ := rt_list fs k e xs a2 hk hek hw hfit.2 ha2
    refine ⟨⟨k, .repeated e, x, t, body, none⟩ :: items, ?_, by simp [encItems, encItem, encTail, henc], ?_⟩
    · intro it hit
      simp only [List.mem_cons] at hit
      rcases hit with rfl | hit
      · exact ⟨rfl, rfl, hk, rfl, by simpa [Schema.typ] using htyp, ht, hb, hleaf, hpv, rfl⟩
      · exact hall it hit
    · intro acc l hl
      simp only [List.foldl, applyItem, isRep, if_true, hl, listOf]
      have hlt : k < acc.length := (List.getElem?_eq_some_iff.mp hl).1
      rw [hfold _ (l ++ [x]) (by simp [hlt])]
      simp [List.set_set, List.append_assoc]

theorem rt_map : ∀ (fs : List Schema) (k : Nat) (ks vs : Schema) (es : List (Value × Value)) (a : Bytes),
    fs[k]? = some (.map ks vs) → isKeyKind ks = true → wfS ks = true → isElemKind vs = true → wfS vs = true →
    fitsMap ks vs es = true → encMap ks vs es = .ok a → MapRT fs k es a
  | fs, k, ks, vs, [], a, _, _, _, _, _, _, h => by
    simp [encMap] at h; subst h
    refine ⟨[], by simp, rfl, ?_⟩
    intro acc l hl _ _
    simp only [List.foldl, List.append_nil]
    exact (set_of_getElem? hl).symm
  | fs, k, ks, vs, (x, y) :: r, a, hk, hkk, hwk, hek, hwv, hfit, h => by
    simp only [encMap] at h
    obtain ⟨a1, ha1, h2⟩ := bind_ok h
    obtain ⟨a2, ha2, h3⟩ := bind_ok h2
    obtain ⟨a3, ha3, h4⟩ := bind_ok h3
    simp only [pure, Except.pure] at h4; cases h4
    simp only [fitsMap, Bool.and_eq_true] at hfit
    have hxne : x ≠ .none := by
      intro e; subst e; simp [notNone] at hfit
    have hyne : y ≠ .none := by
      intro e; subst e; simp [notNone] at hfit
    have hkek : isElemKind ks = true := by cases ks <;> simp_all [isKeyKind, isElemKind]
    obtain ⟨t, body, rfl, htyp, ht, hb, hleaf, hpv⟩ := rt_elem ks x a1 hkek hwk hfit.1.1.2 hxne ha1
    obtain ⟨t2, body2, rfl, htyp2, ht2, hb2, hleaf2, hpv2⟩ := rt_elem vs y a2 hek hwv hfit.1.2 hyne ha2
    obtain ⟨items, hall, henc, hfold⟩ := rt_map fs k ks vs r a3 hk hkk hwk hek hwv hfit.2 ha3
    refine ⟨⟨k, .map ks vs, x, t, body, some ⟨y, t2, body2⟩⟩ :: items, ?_,
      by simp [encItems, encItem, encTail, henc, List.append_assoc], ?_⟩
    · intro it hit
      simp only [List.mem_cons] at hit
      rcases hit with rfl | hit
      · exact ⟨rfl, rfl, hk, rfl, by simpa [Schema.typ] using htyp, ht, hb, hleaf, hpv,
          ⟨ks, vs, rfl, htyp2, ht2, hb2, hleaf2, hpv2⟩⟩
      · exact hall it hit
    · intro acc l hl hdist hdisj
      simp only [keysDistinct, Bool.and_eq_true] at hdist
      have hfresh : mapSet l x y = l ++ [(x, y)] :=
        mapSet_fresh l x y (fun e he => hdisj e he (x, y) (List.mem_cons_self ..))
      simp only [List.foldl, applyItem, hl, mapOf, hfresh]
      have hlt : k < acc.length := (List.getElem?_eq_some_iff.mp hl).1
      have hdisj2 : ∀ e ∈ l ++ [(x, y)], ∀ e' ∈ r, keyEq e.1 e'.1 = false := by
        intro e he e' he'
        rcases List.mem_append.1 he with h | h
        · exact hdisj e h e' (List.mem_cons_of_mem _ he')
        · simp only [List.mem_singleton] at h; subst h
          have := List.all_eq_true.1 hdist.1 e' he'
          simpa using this
      rw [hfold _ (l ++ [(x, y)]) (by simp [hlt]) hdist.2 hdisj2]
      simp [List.set_set, List.append_assoc]

theorem rt_suffix : ∀ (pre ss : List Schema) (vs : List Value) (B : Bytes),
    wfFs ss = true → nodupB (typs (pre ++ ss)) = true → fitsFs ss vs = true →
    encFields ss vs = .ok B → SuffixRT pre ss vs B
  | pre, [], vs, B, _, _, hfit, h => by
    cases vs with
    | nil =>
      simp [encFields] at h; subst h
      exact ⟨[], trivial, rfl, by intro d _; simp⟩
    | cons _ _ => simp [fitsFs] at hfit
  | pre, s :: ss, [], B, _, _, hfit, _ => by simp [fitsFs] at hfit
  | pre, s :: ss, v :: vs, B, hw, hn, hfit, h => by
    simp only [encFields] at h
    obtain ⟨a, ha, h2⟩ := bind_ok h
    obtain ⟨c, hc, h3⟩ := bind_ok h2
    simp only [pure, Except.pure] at h3; cases h3
    simp only [wfFs, Bool.and_eq_true] at hw
    simp only [fitsFs, Bool.and_eq_true] at hfit
    have hassoc : pre ++ s :: ss = (pre ++ [s]) ++ ss := by simp
    obtain ⟨items2, hok2, henc2, hfold2⟩ :=
      rt_suffix (pre ++ [s]) ss vs c hw.2 (by rw [← hassoc]; exact hn) hfit.2 hc
    rw [← hassoc] at hok2
    have hlen1 : (pre ++ [s]).length = pre.length + 1 := by simp
    rw [hlen1] at hok2
    have hget : (pre ++ s :: ss)[pre.length]? = some s := by simp
    -- items of field `s`
    have hfield : ∃ items1, ItemsOK (pre ++ s :: ss) pre.length items1 ∧
        (∀ it ∈ items1, nextPos it ≤ pre.length + 1) ∧ encItems items1 = a ∧
        ∀ d : List Value, d.length = pre.length → ∀ tl : List Value,
          items1.foldl applyItem (d ++ initVal s :: tl) = d ++ v :: tl := by
      cases s with
      | map ks vs' =>
        cases v with
        | map es =>
          simp only [enc] at ha
          simp only [wfS, Bool.and_eq_true] at hw
          simp only [fits, Bool.and_eq_true] at hfit
          obtain ⟨items1, hall, henc1, hfold1⟩ :=
            rt_map (pre ++ .map ks vs' :: ss) pre.length ks vs' es a hget hw.1.1.1.1.1 hw.1.1.1.1.2 hw.1.1.1.2
              hw.1.1.2 hfit.1.1 ha
          refine ⟨items1, ItemsOK_mapk _ pre.length items1 _ (Nat.le_refl _) hall, ?_, henc1, ?_⟩
          · intro it hit
            obtain ⟨hi, hr, _⟩ := hall it hit
            simp [nextPos, hr, hi]
          · intro d hd tl
            have := hfold1 (d ++ initVal (.map ks vs') :: tl) [] (by rw [← hd]; simp [initVal]) hfit.1.2
              (by intro e he; simp at he)
            rw [this, ← hd, set_append_mid]; simp
        | none => simp [fits] at hfit
        | uint _ => simp [fits] at hfit
        | bool => simp [fits] at hfit
        | bytes _ => simp [fits] at hfit
        | name _ => simp [fits] at hfit
        | model _ => simp [fits] at hfit
        | list _ => simp [fits] at hfit
      | marker => simp [wfS] at hw
      | repeated e =>
        cases v with
        | list xs =>
          simp only [enc] at ha
          simp only [wfS, Bool.and_eq_true] at hw
          simp only [fits] at hfit
          obtain ⟨items1, hall, henc1, hfold1⟩ :=
            rt_list (pre ++ .repeated e :: ss) pre.length e xs a hget hw.1.1 hw.1.2 hfit.1 ha
          refine ⟨items1, ItemsOK_rep _ pre.length items1 _ (Nat.le_refl _) hall, ?_, henc1, ?_⟩
          · intro it hit
            obtain ⟨hi, hr, _⟩ := hall it hit
            simp [nextPos, hr, hi]
          · intro d hd tl
            have := hfold1 (d ++ initVal (.repeated e) :: tl) [] (by rw [← hd]; simp [initVal])
            rw [this, ← hd, set_append_mid]; simp
        | none => simp [fits] at hfit
        | uint _ => simp [fits] at hfit
        | bool => simp [fits] at hfit
        | bytes _ => simp [fits] at hfit
        | name _ => simp [fits] at hfit
        | model _ => simp [fits] at hfit
        | map _ => simp [fits] at hfit
      | uint t fl => exact rt_plain_aux pre _ ss v a rfl rfl ha hget (fun hv => rt_elem _ v a rfl hw.1 hfit.1 hv ha)
      | bool t => exact rt_plain_aux pre _ ss v a rfl rfl ha hget (fun hv => rt_elem _ v a rfl hw.1 hfit.1 hv ha)
      | bytes t b => exact rt_plain_aux pre _ ss v a rfl rfl ha hget (fun hv => rt_elem _ v a rfl hw.1 hfit.1 hv ha)
      | name t => exact rt_plain_aux pre _ ss v a rfl rfl ha hget (fun hv => rt_elem _ v a rfl hw.1 hfit.1 hv ha)
      | model t f i => exact rt_plain_aux pre _ ss v a rfl rfl ha hget (fun hv => rt_elem _ v a rfl hw.1 hfit.1 hv ha)
    obtain ⟨items1, hok1, hnext1, henc1, hfold1⟩ := hfield
    refine ⟨items1 ++ items2, ?_, ?_, ?_⟩
    · exact ItemsOK_append _ items1 items2 pre.length (pre.length + 1) hok1 hnext1 (Nat.le_succ _) hok2
    · rw [encItems_append, henc1, henc2]
    · intro d hd
      rw [List.foldl_append, List.map_cons, hfold1 d hd]
      have := hfold2 (d ++ [v]) (by simp [hd])
      simpa [List.append_assoc] using this

end

end Ndn.Codec
