import NdnModel.Pit
/-!
# Specification vocabulary for C03 / C05 (pending Interests)

Nothing here mentions the trie, the node objects, their pending lists or any other Interest:
the specification of the pending-Interest table is a *per-Interest automaton*.  One Interest is a request
`Req` (name, implicit digest, CanBePrefix, deadline, and the scripted behaviour of the validator supplied with it)
plus a state `waiting | validating d fin | done outcome time`; every event acts on it through
`specReact`, which looks only at the request itself, its own index (for caller cancellation) and the clock.

* `Matches r nm dg` — the property statement's "that Data matches it": same name, or a longer name when
  CanBePrefix is set, and the packet hash when the Interest carries an implicit digest;
* `Named r nm dg` — a Nack names the Interest: equal name, equal implicit digest (component for component);
* `taken` — the first matching Data decides: the Interest leaves the table and its validator runs
  (an answer without latency is given in the same instant);
* `specFire` — timers: the deadline of a waiting Interest; completion of validation (v2: only before the
  deadline, otherwise the deadline wins; legacy: the timer is disarmed once the Data was taken — finding F15);
* `Spec.step` — the abstract table: the list of requests with their states, all reacting independently.
-/
namespace Ndn.Pit

def Matches (r : Req) (nm : Name) (dg : Nat) : Prop :=
  (r.name = nm ∨ (r.cbp = true ∧ r.name <+: nm ∧ r.name ≠ nm)) ∧ (r.implicit = none ∨ r.implicit = some dg)

instance (r : Req) (nm : Name) (dg : Nat) : Decidable (Matches r nm dg) := by
  unfold Matches; infer_instance

def Named (r : Req) (nm : Name) (dg : Option Nat) : Prop := r.name = nm ∧ r.implicit = dg

instance (r : Req) (nm : Name) (dg : Option Nat) : Decidable (Named r nm dg) := by
  unfold Named; infer_instance

/-- state of a request right after the first matching Data `d` was taken at time `now` -/
def taken (fe : FrontEnd) (now : Nat) (r : Req) (d : Nat) : IState :=
  match (if r.lat = 0 then validatorOutcome fe r.verdict d else none) with
  | some o => .done o now
  | none => .validating d (now + r.lat)

/-- the timers of one request that are due at time `t` -/
def specFire (fe : FrontEnd) (t : Nat) (r : Req) : IState → IState
  | .waiting => if r.deadline ≤ t then .done .timeout r.deadline else .waiting
  | .validating d fin =>
    match fe with
    | .v1 =>
      if fin ≤ t then
        match validatorOutcome .v1 r.verdict d with
        | some o => .done o fin
        | none => .validating d fin
      else .validating d fin
    | .v2 =>
      match validatorOutcome .v2 r.verdict d with
      | some o =>
        if fin ≤ t ∧ fin < r.deadline then .done o fin
        else if r.deadline ≤ t then .done .timeout r.deadline
        else .validating d fin
      | none => if r.deadline ≤ t then .done .timeout r.deadline else .validating d fin
  | .done o t' => .done o t'

/-- a caller cancellation ends the request unless it has finished -/
def specCancel (now : Nat) : IState → IState
  | .done o t => .done o t
  | _ => .done .cancelled now

/-- what one event does to request number `i` -/
def specReact (fe : FrontEnd) (now : Nat) (i : Nat) (r : Req) (s : IState) : Ev → IState
  | .data nm dg d => if s = .waiting ∧ Matches r nm dg then taken fe now r d else s
  | .nack nm dg rsn => if s = .waiting ∧ Named r nm dg then .done (.nack rsn) now else s
  | .cancel j => if j = i then specCancel now s else s
  | .shutdown => if s = .waiting then .done .cancelled now else s
  | .tick t => specFire fe (max now t) r s
  | .express .. => s

/-- the abstract table of pending Interests -/
structure Spec where
  clock : Nat := 0
  reqs : List Req := []
  sts : List IState := []

/-- every request reacts on its own -/
def Spec.react (fe : FrontEnd) (S : Spec) (ev : Ev) : List IState :=
  S.sts.mapIdx fun i s =>
    match S.reqs[i]? with
    | some r => specReact fe S.clock i r s ev
    | none => s

def Spec.step (fe : FrontEnd) (S : Spec) (ev : Ev) : Spec :=
  let sts := S.react fe ev
  match ev with
  | .express nm imp cbp life v lat =>
    { S with reqs := S.reqs ++ [⟨nm, imp, cbp, S.clock + life, v, lat⟩], sts := sts ++ [.waiting] }
  | .tick t => { S with clock := max S.clock t, sts := sts }
  | _ => { S with sts := sts }

def Spec.run (fe : FrontEnd) (evs : List Ev) : Spec := evs.foldl (Spec.step fe) {}

/-- the abstraction function: forget the trie, the node objects and which node an Interest captured -/
def abs (σ : State) : Spec := { clock := σ.clock, reqs := σ.ints.map (·.toReq), sts := σ.sts }

end Ndn.Pit

namespace Ndn.Pit

/-! ### what justifies an outcome (history-level specification; mentions only the abstract table) -/

/-- lifetimes are positive -/
def WFEv : Ev → Prop
  | .express _ _ _ life _ _ => 0 < life
  | _ => True

/-- At time `at`, before its deadline and while request `i` was still waiting, a Data with content id `d`
    that matches the request arrived. -/
def TakenAt (fe : FrontEnd) (evs : List Ev) (i : Nat) (r : Req) (d at_ : Nat) : Prop :=
  ∃ pre post nm dg, evs = pre ++ Ev.data nm dg d :: post ∧ (Spec.run fe pre).sts[i]? = some .waiting ∧
    Matches r nm dg ∧ (Spec.run fe pre).clock = at_ ∧ at_ < r.deadline

/-- the history justifies that request `i` is in state `s` now -/
def Justified (fe : FrontEnd) (evs : List Ev) (i : Nat) (r : Req) : IState → Prop
  | .waiting => (Spec.run fe evs).clock < r.deadline
  | .validating d fin => ∃ at_, TakenAt fe evs i r d at_ ∧ fin = at_ + r.lat
  | .done .timeout t => t = r.deadline ∧ r.deadline ≤ (Spec.run fe evs).clock
  | .done (.nack rsn) t => ∃ pre post nm dg, evs = pre ++ Ev.nack nm dg rsn :: post ∧
      (Spec.run fe pre).sts[i]? = some .waiting ∧ Named r nm dg ∧ (Spec.run fe pre).clock = t
  | .done .cancelled t => ∃ pre post, (evs = pre ++ Ev.cancel i :: post ∨ evs = pre ++ Ev.shutdown :: post) ∧
      (Spec.run fe pre).clock = t
  | .done o t => ∃ d at_, TakenAt fe evs i r d at_ ∧ t = at_ + r.lat ∧ validatorOutcome fe r.verdict d = some o ∧
      (fe = .v2 → t < r.deadline)

end Ndn.Pit

namespace Ndn.Pit

/-! ### the life of one request, as a function of its own parameters and of the events alone -/

def clockStep (c : Nat) : Ev → Nat
  | .tick t => max c t
  | _ => c

def reqTrace (fe : FrontEnd) (i : Nat) (r : Req) : Nat → IState → List Ev → IState
  | _, s, [] => s
  | c, s, ev :: rest => reqTrace fe i r (clockStep c ev) (specReact fe c i r s ev) rest

end Ndn.Pit
