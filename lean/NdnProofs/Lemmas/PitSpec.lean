import NdnProofs.Lemmas.PitGen
/-!
# Specification vocabulary for C03 / C05 (pending Interests)

Nothing here mentions the trie, the node objects, their pending lists or any other Interest:
the specification of the pending-Interest table is a *per-Interest automaton*.  One Interest is a request
`Req` (name, implicit digest, CanBePrefix, effective deadline, the instant of its first await, and the scripted
behaviour of the validator supplied with it) plus a state
`waiting | validating d fin | held outcome | done outcome time`; every event acts on it through
`specReact`, which looks only at the request itself, its own index (for caller cancellation) and the clock.

* `Matches r nm dg` — the property statement's "that Data matches it": same name, or a longer name when
  CanBePrefix is set, and the packet hash when the Interest carries an implicit digest;
* `Named r nm dg` — a Nack names the Interest: equal name, equal implicit digest (component for component);
* `taken` (model file) — the first matching Data decides: the Interest leaves the table and its validator runs
  (an answer without latency is given in the same instant);
* `resolve` (model file) — the future gets its result: the caller has it now if it is awaiting, otherwise it is
  `held` until the first await;
* `specFire` — timers: the deadline of a waiting Interest; completion of validation (v2: only before the
  deadline, otherwise the deadline wins; legacy: the timer is disarmed once the Data was taken — finding F15);
  the first await of a held result;
* `Spec.step` — the abstract table: the list of requests with their states, all reacting independently.
-/
namespace Ndn.Pit

def Matches (r : Req) (nm : Name) (dg : Nat) : Prop :=
  (r.name = nm ∨ (r.cbp = true ∧ r.name <+: nm ∧ r.name ≠ nm)) ∧ (r.implicit = none ∨ r.implicit = some dg)

instance (r : Req) (nm : Name) (dg : Nat) : Decidable (Matches r nm dg) := by
  unfold Matches; infer_instance

def Named (r : Req) (nm : Name) (dg : Option Nat) : Prop := r.name = nm ∧ r.implicit = dg

instance (r : Req) (nm : Name) (dg : Option Nat) : Decidable (Named r nm dg) := by
  unfold Named; infer_instance

/-- the timers of one request that are due at time `t` -/
def specFire (fe : FrontEnd) (t : Nat) (r : Req) : IState → IState
  | .waiting => if r.deadline ≤ t then .done .timeout r.deadline else .waiting
  | .held o => if r.awaitAt ≤ t then .done o r.awaitAt else .held o
  | .validating d fin =>
    match fe with
    | .v1 =>
      if fin ≤ t then
        match validatorOutcome .v1 r.verdict d with
        | some o => .done o fin
        | none => .validating d fin
      else .validating d fin
    | .v2 =>
      match validatorOutcome .v2 r.verdict d with
      | some o =>
        if fin ≤ t ∧ fin < r.deadline then (if r.awaitAt ≤ t then .done o (max fin r.awaitAt) else .held o)
        else if r.deadline ≤ t then .done .timeout r.deadline
        else .validating d fin
      | none => if r.deadline ≤ t then .done .timeout r.deadline else .validating d fin
  | .done o t' => .done o t'

/-- a caller cancellation ends the request unless it has finished, or has not been awaited yet (then there is
    nothing the caller could cancel), or its result is only waiting to be fetched -/
def specCancel (now : Nat) (r : Req) (s : IState) : IState :=
  if now < r.awaitAt then s else
  match s with
  | .done o t => .done o t
  | .held o => .held o
  | _ => .done .cancelled now

/-- the state a request starts in -/
def initSt (fe : FrontEnd) (now : Nat) (nr : Bool) : IState :=
  if silent fe nr then .done .noResponse now else .waiting

/-- the timers due strictly before the instant the clock has reached -/
def specReach (fe : FrontEnd) (t' : Nat) (r : Req) (s : IState) : IState :=
  if t' = 0 then s else specFire fe (t' - 1) r s

/-- what one event does to request number `i` -/
def specReact (fe : FrontEnd) (now : Nat) (i : Nat) (r : Req) (s : IState) : Ev → IState
  | .data nm dg d => if s = .waiting ∧ Matches r nm dg then taken fe now r d else s
  | .nack nm dg rsn => if s = .waiting ∧ Named r nm dg then resolve now r (.nack rsn) else s
  | .cancel j => if j = i then specCancel now r s else s
  | .shutdown => if s = .waiting then resolve now r .cancelled else s
  | .tick t => specFire fe (max now t) r s
  | .reach t => specReach fe (max now t) r s
  | .express .. => s

/-- the abstract table of pending Interests -/
structure Spec where
  clock : Nat := 0
  reqs : List Req := []
  sts : List IState := []

/-- every request reacts on its own -/
def Spec.react (fe : FrontEnd) (S : Spec) (ev : Ev) : List IState :=
  S.sts.mapIdx fun i s =>
    match S.reqs[i]? with
    | some r => specReact fe S.clock i r s ev
    | none => s

def Spec.step (fe : FrontEnd) (S : Spec) (ev : Ev) : Spec :=
  let sts := S.react fe ev
  match ev with
  | .express nm imp cbp life v lat defer nr =>
    let r := mkReq fe S.clock nm imp cbp life v lat defer
    { S with reqs := S.reqs ++ [r], sts := sts ++ [specFire fe S.clock r (initSt fe S.clock nr)] }
  | .tick t => { S with clock := max S.clock t, sts := sts }
  | .reach t => { S with clock := max S.clock t, sts := sts }
  | _ => { S with sts := sts }

def Spec.run (fe : FrontEnd) (evs : List Ev) : Spec := evs.foldl (Spec.step fe) {}

/-- the abstraction function: forget the trie, the node objects and which node an Interest captured -/
def abs (σ : State) : Spec := { clock := σ.clock, reqs := σ.ints.map (·.toReq), sts := σ.sts }

end Ndn.Pit

namespace Ndn.Pit

/-! ### what justifies an outcome (history-level specification; mentions only the abstract table) -/

/-- a history without same-turn ties: no packet is handled ahead of the timers of its instant -/
def NoTie (evs : List Ev) : Prop := ∀ ev ∈ evs, ∀ t, ev ≠ .reach t

/-- At time `at`, not after its deadline (at the deadline instant itself only in a tie: the packet ahead of the
    timer) and while request `i` was still waiting, a Data with content id `d` that matches the request arrived. -/
def TakenAt (fe : FrontEnd) (evs : List Ev) (i : Nat) (r : Req) (d at_ : Nat) : Prop :=
  ∃ pre post nm dg, evs = pre ++ Ev.data nm dg d :: post ∧ (Spec.run fe pre).sts[i]? = some .waiting ∧
    Matches r nm dg ∧ (Spec.run fe pre).clock = at_ ∧ at_ ≤ r.deadline

/-- the history justifies that the future of request `i` was resolved with `o` at time `t0` -/
def Resolved (fe : FrontEnd) (evs : List Ev) (i : Nat) (r : Req) : Outcome → Nat → Prop
  | .nack rsn, t0 => ∃ pre post nm dg, evs = pre ++ Ev.nack nm dg rsn :: post ∧
      (Spec.run fe pre).sts[i]? = some .waiting ∧ Named r nm dg ∧ (Spec.run fe pre).clock = t0
  | .cancelled, t0 => ∃ pre post, (evs = pre ++ Ev.cancel i :: post ∨ evs = pre ++ Ev.shutdown :: post) ∧
      (Spec.run fe pre).clock = t0
  | .timeout, _ => False
  | .noResponse, _ => False
  | o, t0 => ∃ d at_, TakenAt fe evs i r d at_ ∧ t0 = vstart fe at_ r + r.lat ∧
      validatorOutcome fe r.verdict d = some o ∧ (fe = .v2 → t0 < r.deadline ∨ r.lat = 0)

/-- the history justifies that request `i` is in state `s` when the clock reads `c` -/
def JustifiedAt (c : Nat) (fe : FrontEnd) (evs : List Ev) (i : Nat) (r : Req) : IState → Prop
  | .waiting => c ≤ r.deadline
  | .validating d fin => ∃ at_, TakenAt fe evs i r d at_ ∧ fin = vstart fe at_ r + r.lat
  | .held o => c ≤ r.awaitAt ∧ ∃ t0, Resolved fe evs i r o t0 ∧ t0 ≤ r.awaitAt
  | .done .timeout t => t = r.deadline ∧ r.deadline ≤ c
  | .done .noResponse t => fe = .v2 ∧ ∃ pre post nm imp cbp life v lat defer,
      evs = pre ++ Ev.express nm imp cbp life v lat defer true :: post ∧ (Spec.run fe pre).reqs.length = i ∧
      (Spec.run fe pre).clock = t
  | .done o t => ∃ t0, Resolved fe evs i r o t0 ∧ t = max t0 r.awaitAt

/-- the history justifies that request `i` is in state `s` now:
    * `waiting`: the deadline has not passed (the clock may read the deadline only inside a tie turn);
    * `validating d fin`: Data `d` was taken (`TakenAt`) and its validator, started at `vstart`, needs until `fin`;
    * `held o`: the future was resolved with `o` (`Resolved`), the first await is still to come;
    * `done timeout t`: `t` is the deadline and it has passed;
    * `done noResponse t`: the request was expressed at `t` with `no_response` (current front-end);
    * `done o t` otherwise: the future was resolved with `o` at some `t0` and the caller learnt it at
      `t = max t0 awaitAt` (at once when it was awaiting, at its first await otherwise). -/
def Justified (fe : FrontEnd) (evs : List Ev) (i : Nat) (r : Req) (s : IState) : Prop :=
  JustifiedAt (Spec.run fe evs).clock fe evs i r s

end Ndn.Pit

namespace Ndn.Pit

/-! ### the life of one request, as a function of its own parameters and of the events alone -/

def clockStep (c : Nat) : Ev → Nat
  | .tick t => max c t
  | .reach t => max c t
  | _ => c

def reqTrace (fe : FrontEnd) (i : Nat) (r : Req) : Nat → IState → List Ev → IState
  | _, s, [] => s
  | c, s, ev :: rest => reqTrace fe i r (clockStep c ev) (specReact fe c i r s ev) rest

end Ndn.Pit
