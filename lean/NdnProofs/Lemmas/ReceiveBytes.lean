import NdnModel.ReceiveBytes
import NdnProofs.Props.C07
/-!
  The byte-level decoders of the receive pipeline (NdnModel/ReceiveBytes.lean) raise, on every byte
  string, only documented decoding errors.  Everything here is a composition of the C07 theorems
  (`Ndn.C07.shipped_decoders_error_classes`, `Ndn.C07.parseAndCheckTl_doc`, `Ndn.Codec.parseTlNum_doc`);
  reading the facts off a decoded value is total and adds no failure.
-/
namespace Ndn.RecvBytes
open Ndn Ndn.Codec Ndn.Packet Ndn.Recv

theorem Doc.map {α β} {x : Except PyErr α} (f : α → β) (h : Doc x) : Doc (x.map f) := by
  intro e he
  cases x with
  | ok a => simp [Except.map] at he
  | error e' =>
    simp only [Except.map, Except.error.injEq] at he
    subst he
    exact h _ rfl

/-- the schema `parseInterest` (properties C01/C02) is written against is the generated one C07 proves about -/
theorem interest_schema_eq : interestFs = Gen.C07.interest := rfl

theorem lpDec_doc (wire : Bytes) : Doc (lpDec wire) :=
  Doc.map _ (Ndn.C07.shipped_decoders_error_classes wire).2.2.1

theorem tlDec_doc (frag : Bytes) : Doc (tlDec frag) := Doc.map _ (parseTlNum_doc frag 0)

theorem parseInterest_doc (wire : Bytes) : Doc (parseInterest wire) := by
  unfold parseInterest
  rw [interest_schema_eq]
  apply Doc.bind (Ndn.C07.shipped_decoders_error_classes wire).1; intro vs _
  apply Doc.bind (Ndn.C07.parseAndCheckTl_doc wire 5); intro value _
  exact Doc.ok _

theorem intDec_doc (H : Bytes → Bytes) (wire : Bytes) : Doc (intDec H wire) :=
  Doc.map _ (parseInterest_doc wire)

theorem dataDec_doc (H : Bytes → Bytes) (wire : Bytes) : Doc (dataDec H wire) :=
  Doc.map _ (Ndn.C07.shipped_decoders_error_classes wire).2.1

/-- an accepted Interest is exactly one accepted by the C07 decoder model over the generated schema -/
theorem intDec_ok_iff (H : Bytes → Bytes) (wire : Bytes) :
    (∃ i, intDec H wire = .ok i) ↔ ∃ vs, decodePacket Gen.C07.interest 5 false true [] wire = .ok vs := by
  rw [← interest_schema_eq]
  unfold intDec parseInterest
  cases h : decodePacket interestFs 5 false true [] wire with
  | error e => simp [bind, Except.bind, Except.map]
  | ok vs =>
    obtain ⟨tl, size, sl, h1, h2, hl⟩ := Ndn.C07.accepted_outer_exact _ _ _ _ _ _ _ h
    have : parseAndCheckTl wire 5 = .ok (pySlice wire (tl + sl) (tl + sl + size)) := by
      unfold parseAndCheckTl
      simp [h1, h2, hl, bind, Except.bind, pure, Except.pure]
    simp [this, bind, Except.bind, Except.map, pure, Except.pure]

end Ndn.RecvBytes
