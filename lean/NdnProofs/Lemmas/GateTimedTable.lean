import NdnProofs.Lemmas.GateTimed
import NdnProofs.Props.C04
/-! The routing table of the timed gate model (names -> node objects on a heap) against the specification vocabulary
    of C04 (`attached`, `IsLongestAttached`) and the registrations a history denotes (`registered`: handler AND the
    validator given with it). -/
namespace Ndn.GateTimed
open Ndn
open Ndn.Pit (FrontEnd Verdict)
open Ndn.Gate (IntPkt shape)

/-- the table operation of an event, as C04 sees it (the validator dropped) -/
def opOf : Ev → Option Fib.Op
  | .attach p h _ => some (.attach p h)
  | .detach p => some (.detach p)
  | _ => none

def ops (evs : List Ev) : List Fib.Op := evs.filterMap opOf

/-- the node object a name is bound to -/
def nodeAt (s : St) (p : Name) : Option TNode := (PyDict.get? s.trie p).bind fun a => s.heap[a]?

/-- addresses in the trie are allocated, and no two names share a node object -/
structure TrieWf (s : St) : Prop where
  bound : ∀ p a, PyDict.get? s.trie p = some a → a < s.heap.length
  inj : ∀ p q a, PyDict.get? s.trie p = some a → PyDict.get? s.trie q = some a → p = q

abbrev NTable := Name → Option TNode

def NTable.update (t : NTable) (p : Name) (v : Option TNode) : NTable := fun q => if q = p then v else t q

/-- what one event means for the name -> node view -/
def nodeStep (fe : FrontEnd) (t : NTable) : Ev → NTable
  | .attach p h v =>
    match t p with
    | some nd => if nd.callback.isSome then t else t.update p (some ⟨h, (tshape fe).valWrite.apply nd.validator v⟩)
    | none => t.update p (some ⟨h, (tshape fe).valWrite.apply none v⟩)
  | .detach p => t.update p none
  | _ => t

theorem nodeAt_attach (fe : FrontEnd) (s : St) (hwf : TrieWf s) (p : Name) (h : Option Hid) (v : Option Vid) :
    nodeAt (attach fe s p h v).1 = nodeStep fe (nodeAt s) (.attach p h v) ∧ TrieWf (attach fe s p h v).1 := by
  unfold attach
  cases hg : PyDict.get? s.trie p with
  | none =>
    have hn : nodeAt s p = none := by simp [nodeAt, hg]
    simp only [nodeStep, hn]
    constructor
    · funext q
      simp only [nodeAt, PyDict.get?_set, NTable.update]
      by_cases hpq : p = q
      · subst hpq; simp
      · have hqp : ¬ q = p := fun e => hpq e.symm
        simp only [hpq, hqp, if_false]
        cases hq : PyDict.get? s.trie q with
        | none => rfl
        | some b => simp [List.getElem?_append_left (hwf.bound q b hq)]
    · constructor
      · intro q b hq
        simp only [PyDict.get?_set] at hq
        simp only [List.length_append, List.length_cons, List.length_nil]
        split at hq
        · cases hq; omega
        · have := hwf.bound q b hq; omega
      · intro q r b hq hr
        simp only [PyDict.get?_set] at hq hr
        split at hq <;> split at hr
        · subst_vars; rfl
        · cases hq; have := hwf.bound r _ hr; omega
        · cases hr; have := hwf.bound q _ hq; omega
        · exact hwf.inj q r b hq hr
  | some a =>
    have hlt := hwf.bound p a hg
    have hnd : s.heap[a]? = some s.heap[a] := List.getElem?_eq_getElem hlt
    have hn : nodeAt s p = some s.heap[a] := by simp [nodeAt, hg, hnd]
    simp only [hnd, nodeStep, hn]
    by_cases hc : s.heap[a].callback.isSome = true
    · simp only [hc, if_true]; exact ⟨trivial, hwf⟩
    · simp only [hc, if_false, Bool.false_eq_true]
      constructor
      · funext q
        simp only [nodeAt, NTable.update]
        by_cases hqp : q = p
        · subst hqp; simp [hg, hlt]
        · simp only [hqp, if_false]
          cases hq : PyDict.get? s.trie q with
          | none => rfl
          | some b =>
            have hne : a ≠ b := by
              intro e; subst e; exact hqp (hwf.inj q p a hq hg)
            simp [List.getElem?_set_ne hne]
      · exact ⟨by intro q b hq; simp only [List.length_set]; exact hwf.bound q b hq, hwf.inj⟩

theorem nodeAt_detach (fe : FrontEnd) (s : St) (hwf : TrieWf s) (p : Name) :
    nodeAt (detach s p).1 = nodeStep fe (nodeAt s) (.detach p) ∧ TrieWf (detach s p).1 := by
  unfold detach
  simp only [nodeStep]
  cases hg : PyDict.get? s.trie p with
  | none =>
    simp only [PyDict.contains, hg, Option.isSome_none, Bool.false_eq_true, if_false]
    refine ⟨?_, hwf⟩
    funext q
    simp only [NTable.update]
    split
    · subst_vars; simp [nodeAt, hg]
    · rfl
  | some a =>
    simp only [PyDict.contains, hg, Option.isSome_some, if_true]
    constructor
    · funext q
      simp only [nodeAt, PyDict.get?_erase, NTable.update]
      by_cases hpq : p = q
      · subst hpq; simp
      · have hqp : ¬ q = p := fun e => hpq e.symm
        simp [hpq, hqp]
    · constructor
      · intro q b hq
        simp only [PyDict.get?_erase] at hq
        split at hq
        · cases hq
        · exact hwf.bound q b hq
      · intro q r b hq hr
        simp only [PyDict.get?_erase] at hq hr
        split at hq
        · cases hq
        · split at hr
          · cases hr
          · exact hwf.inj q r b hq hr

theorem nodeAt_congr {s s' : St} (h1 : s'.heap = s.heap) (h2 : s'.trie = s.trie) : nodeAt s' = nodeAt s := by
  funext q; simp [nodeAt, h1, h2]

theorem trieWf_congr {s s' : St} (h1 : s'.heap = s.heap) (h2 : s'.trie = s.trie) (h : TrieWf s) : TrieWf s' :=
  ⟨by rw [h1, h2]; exact h.bound, by rw [h2]; exact h.inj⟩

/-- **the table part of a step** acts on the name -> node view as `nodeStep` says -/
theorem nodeAt_step (fe : FrontEnd) (av : Vid) (s : St) (hwf : TrieWf s) (e : Ev) :
    nodeAt (step fe av s e) = nodeStep fe (nodeAt s) e ∧ TrieWf (step fe av s e) := by
  cases e with
  | attach p h v =>
    obtain ⟨h1, h2⟩ := nodeAt_attach fe s hwf p h v
    exact ⟨(nodeAt_congr (s := (attach fe s p h v).1) rfl rfl).trans h1,
      trieWf_congr (s := (attach fe s p h v).1) rfl rfl h2⟩
  | detach p =>
    obtain ⟨h1, h2⟩ := nodeAt_detach fe s hwf p
    exact ⟨(nodeAt_congr (s := (detach s p).1) rfl rfl).trans h1, trieWf_congr (s := (detach s p).1) rfl rfl h2⟩
  | arrive n pkt =>
    obtain ⟨h1, h2⟩ := step_heap_of_not_op fe av s (.arrive n pkt) (by simp) (by simp)
    exact ⟨nodeAt_congr h1 h2, trieWf_congr h1 h2 hwf⟩
  | start i =>
    obtain ⟨h1, h2⟩ := step_heap_of_not_op fe av s (.start i) (by simp) (by simp)
    exact ⟨nodeAt_congr h1 h2, trieWf_congr h1 h2 hwf⟩
  | done i v =>
    obtain ⟨h1, h2⟩ := step_heap_of_not_op fe av s (.done i v) (by simp) (by simp)
    exact ⟨nodeAt_congr h1 h2, trieWf_congr h1 h2 hwf⟩
  | deadline i => exact ⟨rfl, hwf⟩

theorem trieWf_run (fe : FrontEnd) (av : Vid) (evs : List Ev) : TrieWf (run fe av evs) := by
  induction evs using snoc_induction with
  | nil => exact ⟨by intro p a h; simp [run, runFrom, PyDict.get?] at h, by intro p q a h; simp [run, runFrom, PyDict.get?] at h⟩
  | append_singleton l e ih => rw [run_snoc]; exact (nodeAt_step fe av _ ih e).2

/-- the name -> node view after a history is the fold of `nodeStep` -/
theorem nodeAt_run (fe : FrontEnd) (av : Vid) (evs : List Ev) :
    nodeAt (run fe av evs) = evs.foldl (nodeStep fe) (fun _ => none) := by
  induction evs using snoc_induction with
  | nil => funext q; simp [nodeAt, run, runFrom, PyDict.get?]
  | append_singleton l e ih =>
    rw [run_snoc, (nodeAt_step fe av _ (trieWf_run fe av l) e).1, ih, List.foldl_append]
    rfl

/-! ### the registrations a history denotes -/

/-- a registration: the handler and the validator given with it -/
abbrev RTable := Name → Option (Hid × Option Vid)

def RTable.update (t : RTable) (p : Name) (v : Option (Hid × Option Vid)) : RTable := fun q => if q = p then v else t q

/-- specification: registering on a free prefix binds handler and validator together, registering on an occupied
    prefix changes nothing, removing unbinds -/
def regStep (t : RTable) : Ev → RTable
  | .attach p (some h) v => if (t p).isSome then t else t.update p (some (h, v))
  | .attach _ none _ => t
  | .detach p => t.update p none
  | _ => t

/-- the registrations in force after a history -/
def registered (evs : List Ev) : RTable := evs.foldl regStep (fun _ => none)

/-- every attach of the history carries a handler (as `Fib.Proper`) -/
def ProperT (evs : List Ev) : Prop := ∀ p v, Ev.attach p none v ∉ evs

theorem properT_ops {evs : List Ev} (h : ProperT evs) : Fib.Proper (ops evs) := by
  intro p hm
  simp only [ops, List.mem_filterMap] at hm
  obtain ⟨e, he, ho⟩ := hm
  cases e <;> simp [opOf] at ho
  obtain ⟨rfl, rfl⟩ := ho
  exact h _ _ he

theorem registered_snoc (evs : List Ev) (e : Ev) : registered (evs ++ [e]) = regStep (registered evs) e := by
  simp [registered, List.foldl_append]

/-- the handler part of the registrations is the attachment table of C04 -/
theorem registered_attached (evs : List Ev) (p : Name) :
    (registered evs p).map (·.1) = C04.attached (ops evs) p := by
  induction evs using snoc_induction generalizing p with
  | nil => rfl
  | append_singleton l e ih =>
    rw [registered_snoc]
    cases e with
    | attach q h v =>
      have : ops (l ++ [.attach q h v]) = ops l ++ [.attach q h] := by simp [ops, opOf]
      rw [this, C04.attached_snoc]
      cases h with
      | none => simp only [regStep, Fib.specStep]; exact ih p
      | some hh =>
        simp only [regStep, Fib.specStep]
        have hq := ih q
        by_cases hs : (registered l q).isSome = true
        · have : (C04.attached (ops l) q).isSome = true := by rw [← hq]; simpa using hs
          simp only [hs, this, if_true]; exact ih p
        · have : ¬ (C04.attached (ops l) q).isSome = true := by rw [← hq]; simpa using hs
          simp only [hs, this, if_false, Bool.false_eq_true, RTable.update, Fib.Table.update_apply]
          split
          · rfl
          · exact ih p
    | detach q =>
      have : ops (l ++ [.detach q]) = ops l ++ [.detach q] := by simp [ops, opOf]
      rw [this, C04.attached_snoc]
      simp only [regStep, Fib.specStep, RTable.update, Fib.Table.update_apply]
      split
      · rfl
      · exact ih p
    | arrive n pkt =>
      have : ops (l ++ [.arrive n pkt]) = ops l := by simp [ops, opOf]
      rw [this]; exact ih p
    | start i =>
      have : ops (l ++ [.start i]) = ops l := by simp [ops, opOf]
      rw [this]; exact ih p
    | done i v =>
      have : ops (l ++ [.done i v]) = ops l := by simp [ops, opOf]
      rw [this]; exact ih p
    | deadline i =>
      have : ops (l ++ [.deadline i]) = ops l := by simp [ops, opOf]
      rw [this]; exact ih p

/-- how the generated `valWrite` of both front-ends writes the validator of a FRESH node (no old value to keep) -/
theorem valWrite_fresh (fe : FrontEnd) (v : Option Vid) : (tshape fe).valWrite.apply none v = v := by
  cases fe <;> cases v <;> rfl

/-- **registrations_refine.** After a history in which every attach carries a handler, the node object a name is
    bound to holds exactly the handler and the validator of the registration in force (both front-ends). -/
theorem registrations_refine (fe : FrontEnd) (av : Vid) (evs : List Ev) (hp : ProperT evs) (p : Name) :
    nodeAt (run fe av evs) p = (registered evs p).map fun hv => ⟨some hv.1, hv.2⟩ := by
  rw [nodeAt_run]
  induction evs using snoc_induction generalizing p with
  | nil => rfl
  | append_singleton l e ih =>
    have hpl : ProperT l := fun q v hm => hp q v (List.mem_append_left _ hm)
    have ih := ih hpl
    rw [List.foldl_append, registered_snoc]
    simp only [List.foldl_cons, List.foldl_nil]
    cases e with
    | attach q h v =>
      cases h with
      | none => exact absurd (List.mem_append_right _ List.mem_cons_self) (hp q v)
      | some hh =>
        simp only [nodeStep, regStep]
        rw [ih q]
        cases hr : registered l q with
        | none =>
          simp only [Option.map_none, Option.isSome_none, Bool.false_eq_true, if_false, NTable.update, RTable.update,
            valWrite_fresh]
          split
          · rfl
          · exact ih p
        | some hv => simp only [Option.map_some, Option.isSome_some, if_true]; exact ih p
    | detach q =>
      simp only [nodeStep, regStep, NTable.update, RTable.update]
      split
      · rfl
      · exact ih p
    | arrive n pkt => exact ih p
    | start i => exact ih p
    | done i v => exact ih p
    | deadline i => exact ih p

/-! ### the lookup at arrival, in the vocabulary of C04 -/

/-- the table as C04's model sees it -/
def absFib (s : St) : Fib.Fib := s.trie.map fun pa => (pa.1, ⟨(s.heap[pa.2]?).bind (·.callback)⟩)

theorem get?_absFib (s : St) (p : Name) :
    PyDict.get? (absFib s) p = (PyDict.get? s.trie p).map fun a => ⟨(s.heap[a]?).bind (·.callback)⟩ := by
  unfold absFib
  induction s.trie with
  | nil => rfl
  | cons x r ih =>
    obtain ⟨k, a⟩ := x
    simp only [List.map_cons, PyDict.get?]
    split
    · rfl
    · exact ih

theorem scan_absFib (s : St) (n : Name) (k : Nat) :
    Fib.scan (absFib s) n k = (scan s.trie n k).map fun pa => (pa.1, ⟨(s.heap[pa.2]?).bind (·.callback)⟩) := by
  induction k with
  | zero => simp only [Fib.scan, scan, get?_absFib]; cases PyDict.get? s.trie [] <;> rfl
  | succ k ih =>
    simp only [Fib.scan, scan, get?_absFib]
    cases PyDict.get? s.trie (List.take (k + 1) n) with
    | none => simpa using ih
    | some a => rfl

theorem scan_get (t : PyDict Name Nat) (n : Name) (k : Nat) (p : Name) (a : Nat) (h : scan t n k = some (p, a)) :
    PyDict.get? t p = some a := by
  induction k with
  | zero =>
    simp only [scan, Option.map_eq_some_iff, Prod.mk.injEq] at h
    obtain ⟨b, hb, rfl, rfl⟩ := h; exact hb
  | succ k ih =>
    simp only [scan] at h
    split at h
    · rename_i b hb; cases h; exact hb
    · exact ih h

theorem cbOf_absFib (s : St) (p : Name) : Fib.cbOf (absFib s) p = (nodeAt s p).bind (·.callback) := by
  simp only [Fib.cbOf, get?_absFib, nodeAt]
  cases PyDict.get? s.trie p <;> rfl

/-- the callback view of the table after a history is C04's attachment table -/
theorem cbOf_run (fe : FrontEnd) (av : Vid) (evs : List Ev) (hp : ProperT evs) :
    Fib.cbOf (absFib (run fe av evs)) = C04.attached (ops evs) := by
  funext p
  rw [cbOf_absFib, registrations_refine fe av evs hp p, ← registered_attached]
  cases registered evs p <;> rfl

theorem allCb_run (fe : FrontEnd) (av : Vid) (evs : List Ev) (hp : ProperT evs) : Fib.AllCb (absFib (run fe av evs)) := by
  intro p nd hg
  rw [get?_absFib] at hg
  cases ht : PyDict.get? (run fe av evs).trie p with
  | none => rw [ht] at hg; cases hg
  | some a =>
    rw [ht] at hg
    simp only [Option.map_some, Option.some.injEq] at hg
    subst hg
    have hlt := (trieWf_run fe av evs).bound p a ht
    have hn : nodeAt (run fe av evs) p = some (run fe av evs).heap[a] := by
      simp [nodeAt, ht, List.getElem?_eq_getElem hlt]
    rw [registrations_refine fe av evs hp p] at hn
    cases hr : registered evs p with
    | none => rw [hr] at hn; cases hn
    | some hv =>
      rw [hr] at hn
      simp only [Option.map_some, Option.some.injEq] at hn
      simp [List.getElem?_eq_getElem hlt, ← hn]

/-- what `_on_interest` keeps of the table for an Interest named `n` -/
def captured (s : St) (n : Name) : Option TNode := (capture s n).map (·.2)

/-- **the node captured at arrival is the registration in force at the longest attached prefix** (the specification
    of C04), handler and validator together -/
theorem captured_iff (fe : FrontEnd) (av : Vid) (evs : List Ev) (hp : ProperT evs) (n : Name) (h : Hid) (val : Option Vid) :
    captured (run fe av evs) n = some ⟨some h, val⟩ ↔
      ∃ p, C04.IsLongestAttached (C04.attached (ops evs)) n p ∧ registered evs p = some (h, val) := by
  have hall := allCb_run fe av evs hp
  have hcb := cbOf_run fe av evs hp
  constructor
  · intro hc
    unfold captured capture at hc
    cases hl : lookup (run fe av evs).trie n with
    | none => simp [hl] at hc
    | some pa =>
      obtain ⟨p, a⟩ := pa
      simp only [hl] at hc
      cases hh : (run fe av evs).heap[a]? with
      | none => simp [hh] at hc
      | some nd =>
        simp only [hh] at hc
        split at hc
        · simp only [Option.map_some, Option.some.injEq] at hc
          subst hc
          have hg := scan_get _ _ _ _ _ hl
          have hlp : Fib.longestPrefix (absFib (run fe av evs)) n = some (p, ⟨some h⟩) := by
            unfold Fib.longestPrefix
            rw [scan_absFib]
            have : scan (run fe av evs).trie n n.length = some (p, a) := hl
            simp [this, hh]
          have hd : Fib.onInterest (absFib (run fe av evs)) n = .deliver p h := by simp [Fib.onInterest, hlp]
          obtain ⟨hlong, _⟩ := (C04.deliver_iff _ hall n p h).mp hd
          rw [hcb] at hlong
          refine ⟨p, hlong, ?_⟩
          have hn : nodeAt (run fe av evs) p = some ⟨some h, val⟩ := by simp [nodeAt, hg, hh]
          rw [registrations_refine fe av evs hp p] at hn
          cases hr : registered evs p with
          | none => rw [hr] at hn; cases hn
          | some hv =>
            rw [hr] at hn
            simp only [Option.map_some, Option.some.injEq, TNode.mk.injEq] at hn
            obtain ⟨h1, h2⟩ := hn
            cases h1
            cases hv; simp_all
        · simp at hc
  · rintro ⟨p, hlong, hr⟩
    have hat : C04.attached (ops evs) p = some h := by rw [← registered_attached, hr]; rfl
    rw [← hcb] at hlong hat
    have hd := (C04.deliver_iff _ hall n p h).mpr ⟨hlong, hat⟩
    unfold Fib.onInterest at hd
    split at hd
    · cases hd
    · rename_i p' nd' hlp
      split at hd
      · cases hd
      · rename_i h' hcb'
        cases hd
        unfold Fib.longestPrefix at hlp
        rw [scan_absFib] at hlp
        cases hs : scan (run fe av evs).trie n n.length with
        | none => rw [hs] at hlp; cases hlp
        | some pa =>
          obtain ⟨q, a⟩ := pa
          rw [hs] at hlp
          simp only [Option.map_some, Option.some.injEq, Prod.mk.injEq] at hlp
          obtain ⟨rfl, hnd'⟩ := hlp
          have hg := scan_get _ _ _ _ _ hs
          have hlt := (trieWf_run fe av evs).bound q a hg
          have hh : (run fe av evs).heap[a]? = some (run fe av evs).heap[a] := List.getElem?_eq_getElem hlt
          have hn : nodeAt (run fe av evs) q = some (run fe av evs).heap[a] := by simp [nodeAt, hg, hh]
          rw [registrations_refine fe av evs hp q, hr] at hn
          simp only [Option.map_some, Option.some.injEq] at hn
          unfold captured capture lookup
          rw [hs]
          simp only [hh, ← hn]
          simp

/-- no node is captured iff no attached prefix matches the name -/
theorem captured_none_iff (fe : FrontEnd) (av : Vid) (evs : List Ev) (hp : ProperT evs) (n : Name) :
    captured (run fe av evs) n = none ↔ ∀ q, q <+: n → C04.attached (ops evs) q = none := by
  constructor
  · intro hc q hq
    cases ha : C04.attached (ops evs) q with
    | none => rfl
    | some h =>
      exfalso
      -- some attached prefix exists, so a longest one does, and its registration would have been captured
      have hd := C04.dispatch_exactly_one (ops evs) (properT_ops hp) n
      rcases hd with ⟨p, h', _, hlong, hat⟩ | ⟨_, hnone⟩
      · have hr : ∃ val, registered evs p = some (h', val) := by
          have := registered_attached evs p
          rw [hat] at this
          cases hr : registered evs p with
          | none => rw [hr] at this; cases this
          | some hv =>
            rw [hr] at this
            simp only [Option.map_some, Option.some.injEq] at this
            exact ⟨hv.2, by rw [← this]⟩
        obtain ⟨val, hr⟩ := hr
        have := (captured_iff fe av evs hp n h' val).mpr ⟨p, hlong, hr⟩
        rw [hc] at this; cases this
      · rw [hnone q hq] at ha; cases ha
  · intro hnone
    cases hc : captured (run fe av evs) n with
    | none => rfl
    | some nd =>
      exfalso
      obtain ⟨cb, val⟩ := nd
      have hsome : cb.isSome := by
        unfold captured at hc
        cases hcap : capture (run fe av evs) n with
        | none => rw [hcap] at hc; cases hc
        | some an =>
          rw [hcap] at hc
          simp only [Option.map_some, Option.some.injEq] at hc
          have := (capture_some (a := an.1) (nd := an.2) (by rw [hcap])).2
          rw [hc] at this; exact this
      cases cb with
      | none => cases hsome
      | some h =>
        obtain ⟨p, hlong, hr⟩ := (captured_iff fe av evs hp n h val).mp hc
        have := hnone p hlong.1
        have h2 := hlong.2.1
        rw [this] at h2
        cases h2

end Ndn.GateTimed
