import NdnModel.Name
import NdnProofs.Lemmas.TlNum
import NdnProofs.Lemmas.Shrink
/-! Wire-level lemmas for names: parsing an encoded component, `Name.decode ∘ Name.encode`, what `Name.decode` accepts
    (`decode_ok_exact`) and the rejection of a component that overruns the Name's Length (`decode_overrun`). -/
namespace Ndn

instance {ε α} [DecidableEq ε] [DecidableEq α] : DecidableEq (Except ε α) := fun a b =>
  match a, b with
  | .ok x, .ok y => if h : x = y then isTrue (by rw [h]) else isFalse (fun e => h (by injection e))
  | .error x, .error y => if h : x = y then isTrue (by rw [h]) else isFalse (fun e => h (by injection e))
  | .ok _, .error _ => isFalse (fun e => by cases e)
  | .error _, .ok _ => isFalse (fun e => by cases e)

theorem parse_tlv_T (t : Nat) (v rest : Bytes) (ht : t < 2^64) :
    parseTlNum (tlv t v ++ rest) 0 = .ok (t, tlNumSize t) := by
  unfold tlv; rw [List.append_assoc, List.append_assoc]; exact parse_write t _ ht

theorem parse_tlv_L (t : Nat) (v rest : Bytes) (hv : v.length < 2^64) :
    parseTlNum (tlv t v ++ rest) (tlNumSize t) = .ok (v.length, tlNumSize v.length) := by
  unfold tlv
  have := parseTlNum_shift (writeTlNum t) (writeTlNum v.length ++ v ++ rest) 0
  rw [writeTlNum_length, Nat.add_zero] at this
  rw [List.append_assoc, List.append_assoc, ← List.append_assoc (writeTlNum v.length), this,
    List.append_assoc]
  exact parse_write _ _ hv

theorem tlv_length (t : Nat) (v : Bytes) :
    (tlv t v).length = tlNumSize t + tlNumSize v.length + v.length := by
  simp [tlv, writeTlNum_length]; omega

theorem tlv_ne_nil (t : Nat) (v : Bytes) : tlv t v ≠ [] := by
  intro h
  have := congrArg List.length h
  rw [tlv_length] at this
  have := tlNumSize_pos t
  simp at *; omega

theorem parseComp_tlv (t : Nat) (v : Bytes) (ht : t < 2^64) (hv : v.length < 2^64) :
    Comp.parseComp (tlv t v) = .ok (t, v) := by
  have h1 := parse_tlv_T t v [] ht
  have h2 := parse_tlv_L t v [] hv
  rw [List.append_nil] at h1 h2
  unfold Comp.parseComp
  simp only [h1, h2, bind, Except.bind, tlv_length]
  have : ¬ (tlNumSize t + tlNumSize v.length + v.length ≠ v.length + (tlNumSize t + tlNumSize v.length)) := by omega
  simp only [this, if_false, pure, Except.pure]
  congr 2
  unfold tlv
  have : tlNumSize t + tlNumSize v.length = (writeTlNum t ++ writeTlNum v.length).length := by
    simp [writeTlNum_length]
  rw [this, List.drop_left]

theorem getType_tlv (t : Nat) (v : Bytes) (ht : t < 2^64) : Comp.getType (tlv t v) = .ok t := by
  have h1 := parse_tlv_T t v [] ht
  rw [List.append_nil] at h1
  simp [Comp.getType, h1, bind, Except.bind, pure, Except.pure]

theorem getValue_tlv (t : Nat) (v : Bytes) (ht : t < 2^64) (hv : v.length < 2^64) :
    Comp.getValue (tlv t v) = .ok v := by
  have h1 := parse_tlv_T t v [] ht
  have h2 := parse_tlv_L t v [] hv
  rw [List.append_nil] at h1 h2
  simp only [Comp.getValue, h1, h2, bind, Except.bind, pure, Except.pure]
  congr 1
  unfold tlv
  have : tlNumSize t + tlNumSize v.length = (writeTlNum t ++ writeTlNum v.length).length := by
    simp [writeTlNum_length]
  rw [this, List.drop_left]

/-- a component as the library produces it: shortest-form Type and Length around any value -/
def WfComp (c : Bytes) : Prop := ∃ t v, 1 ≤ t ∧ t ≤ 65535 ∧ v.length < 2^64 ∧ c = tlv t v

theorem WfComp.ne_nil {c} (h : WfComp c) : c ≠ [] := by
  obtain ⟨t, v, _, _, _, rfl⟩ := h; exact tlv_ne_nil t v

theorem flatten_length_ge (cs : List Bytes) (h : ∀ c ∈ cs, c ≠ []) : cs.length ≤ cs.flatten.length := by
  induction cs with
  | nil => simp
  | cons c cs ih =>
    have hc : c ≠ [] := h c (by simp)
    have : 0 < c.length := List.length_pos_iff.mpr hc
    have := ih (fun x hx => h x (by simp [hx]))
    rw [List.flatten_cons, List.length_append, List.length_cons]; omega

/-- the decode loop over a buffer `pre ++ flatten cs ++ post` started at `pre.length` with exactly the
    remaining length returns the components -/
theorem decodeLoop_flatten (cs : List Bytes) (hcs : ∀ c ∈ cs, WfComp c) :
    ∀ (pre post acc : List _) (fuel : Nat), cs.length < fuel →
      Name.decodeLoop (pre ++ cs.flatten ++ post) fuel pre.length cs.flatten.length acc
        = .ok (acc ++ cs, pre.length + cs.flatten.length) := by
  induction cs with
  | nil =>
    intro pre post acc fuel hf
    cases fuel with
    | zero => omega
    | succ f => simp [Name.decodeLoop]
  | cons c cs ih =>
    intro pre post acc fuel hf
    cases fuel with
    | zero => omega
    | succ f =>
      obtain ⟨t, v, ht1, ht2, hv, rfl⟩ := hcs _ (List.mem_cons_self)
      have hpos : (tlv t v :: cs).flatten.length ≠ 0 := by
        have := tlv_length t v; have := tlNumSize_pos t
        rw [List.flatten_cons, List.length_append]; omega
      have e1 : parseTlNum (pre ++ (tlv t v :: cs).flatten ++ post) pre.length = .ok (t, tlNumSize t) := by
        have := parseTlNum_shift pre ((tlv t v :: cs).flatten ++ post) 0
        rw [Nat.add_zero, ← List.append_assoc] at this
        rw [this, List.flatten_cons, List.append_assoc]
        exact parse_tlv_T t v _ (by omega)
      have e2 : parseTlNum (pre ++ (tlv t v :: cs).flatten ++ post) (pre.length + tlNumSize t)
          = .ok (v.length, tlNumSize v.length) := by
        have := parseTlNum_shift pre ((tlv t v :: cs).flatten ++ post) (tlNumSize t)
        rw [← List.append_assoc] at this
        rw [this, List.flatten_cons, List.append_assoc]
        exact parse_tlv_L t v _ hv
      have hnov : ¬ (pre.length + tlNumSize t + tlNumSize v.length + v.length - pre.length
          > (tlv t v :: cs).flatten.length) := by
        have := tlv_length t v
        rw [List.flatten_cons, List.length_append]; omega
      unfold Name.decodeLoop
      simp only [hpos, hnov, if_false, e1, e2, bind, Except.bind]
      have hoff : pre.length + tlNumSize t + tlNumSize v.length + v.length = (pre ++ tlv t v).length := by
        rw [List.length_append, tlv_length]; omega
      have hsl : pySlice (pre ++ (tlv t v :: cs).flatten ++ post) pre.length (pre ++ tlv t v).length = tlv t v := by
        simp [pySlice, List.take_append]
      have hlen : (tlv t v :: cs).flatten.length - ((pre ++ tlv t v).length - pre.length) = cs.flatten.length := by
        rw [List.flatten_cons, List.length_append, List.length_append]; omega
      rw [hoff, hsl, hlen]
      have := ih (fun x hx => hcs x (List.mem_cons_of_mem _ hx)) (pre ++ tlv t v) post (acc ++ [tlv t v]) f
        (by simp at hf; omega)
      rw [List.flatten_cons]
      rw [show pre ++ (tlv t v ++ cs.flatten) ++ post = pre ++ tlv t v ++ cs.flatten ++ post by simp]
      rw [this]
      simp only [List.length_append, List.append_assoc, List.singleton_append]
      congr 2; omega

/-- **decode ∘ encode** for names of any number of library-shaped components. -/
theorem decode_encode (n : List Bytes) (hn : ∀ c ∈ n, WfComp c) (hl : n.flatten.length < 2^64) :
    Name.decode (Name.encode n) = .ok (n, (Name.encode n).length) := by
  have h7 : writeTlNum Name.TYPE_NAME = [7] := by decide
  have e1 : parseTlNum (Name.encode n) 0 = .ok (7, 1) := by
    unfold Name.encode; rw [h7]; rfl
  have e2 : parseTlNum (Name.encode n) 1 = .ok (n.flatten.length, tlNumSize n.flatten.length) := by
    unfold Name.encode
    have := parseTlNum_shift (writeTlNum Name.TYPE_NAME) (writeTlNum n.flatten.length ++ n.flatten) 0
    rw [h7] at this ⊢
    simp only [List.length_singleton, Nat.add_zero] at this
    rw [List.append_assoc, this]
    exact parse_write _ _ hl
  have hlen : (Name.encode n).length = 1 + tlNumSize n.flatten.length + n.flatten.length := by
    unfold Name.encode; rw [h7]; simp [writeTlNum_length]; omega
  unfold Name.decode
  simp only [e1, e2, bind, Except.bind, Name.TYPE_NAME]
  simp only [ne_eq, not_true_eq_false, if_false, hlen]
  have : ¬ (n.flatten.length > 1 + tlNumSize n.flatten.length + n.flatten.length - (1 + tlNumSize n.flatten.length)) := by
    omega
  simp only [this, if_false]
  have hl2 : 1 + tlNumSize n.flatten.length = (writeTlNum Name.TYPE_NAME ++ writeTlNum n.flatten.length).length := by
    rw [h7, List.length_append, writeTlNum_length]; rfl
  have := decodeLoop_flatten n hn (writeTlNum Name.TYPE_NAME ++ writeTlNum n.flatten.length) [] []
    (n.flatten.length + 1)
    (by have := flatten_length_ge n (fun c hc => (hn c hc).ne_nil); omega)
  rw [List.append_nil, ← hl2] at this
  unfold Name.encode
  rw [this]
  simp


/-! ### `Name.decode` on EVERY byte string: what it accepts is exact, a component overrunning the Length is rejected -/
theorem unpackAt_within {buf : Bytes} {a n v : Nat} (hn : 0 < n) (h : unpackAt buf a n = .ok v) : a + n ≤ buf.length := by
  unfold unpackAt at h
  simp only at h
  split at h
  · rename_i hl
    simp only [pySlice, List.length_drop, List.length_take] at hl
    omega
  · cases h

/-- a TL number that was read lies inside the buffer -/
theorem parseTlNum_within {buf : Bytes} {off v n : Nat} (h : parseTlNum buf off = .ok (v, n)) : off + n ≤ buf.length := by
  unfold parseTlNum at h
  split at h
  · cases h
  · rename_i b hb
    have hlt : off < buf.length := by
      rcases Nat.lt_or_ge off buf.length with h' | h'
      · exact h'
      · rw [List.getElem?_eq_none_iff.mpr h'] at hb; cases hb
    split at h
    · cases h; omega
    · split at h
      · cases hu : unpackAt buf (off + 1) 2 with
        | error e => rw [hu] at h; cases h
        | ok x => rw [hu] at h; cases h; have := unpackAt_within (by omega) hu; omega
      · split at h
        · cases hu : unpackAt buf (off + 1) 4 with
          | error e => rw [hu] at h; cases h
          | ok x => rw [hu] at h; cases h; have := unpackAt_within (by omega) hu; omega
        · cases hu : unpackAt buf (off + 1) 8 with
          | error e => rw [hu] at h; cases h
          | ok x => rw [hu] at h; cases h; have := unpackAt_within (by omega) hu; omega

theorem slice_join {α} (buf : List α) (a b c : Nat) (hab : a ≤ b) (hbc : b ≤ c) (hc : c ≤ buf.length) :
    pySlice buf a b ++ pySlice buf b c = pySlice buf a c := by
  unfold pySlice
  have e : buf.take c = buf.take b ++ (buf.take c).drop b := by
    have := (List.take_append_drop b (buf.take c)).symm
    rwa [List.take_take, Nat.min_eq_left hbc] at this
  have e2 : (buf.take c).drop a = (buf.take b ++ (buf.take c).drop b).drop a := by rw [← e]
  rw [e2, List.drop_append_of_le_length (by rw [List.length_take]; omega)]

theorem decodeLoop_overrun_step (buf : Bytes) (fuel off length : Nat) (acc : List Bytes) (t st lc sl : Nat)
    (h1 : parseTlNum buf off = .ok (t, st)) (h2 : parseTlNum buf (off + st) = .ok (lc, sl))
    (h0 : 0 < length) (hov : length < st + sl + lc) :
    Name.decodeLoop buf (fuel + 1) off length acc = .error .indexError := by
  rw [Name.decodeLoop, if_neg (by omega)]
  simp only [h1, h2, bind, Except.bind]
  rw [if_pos (by omega)]

/-- what the loop accepts tiles the declared extent exactly, for EVERY buffer -/
theorem decodeLoop_ok_exact (buf : Bytes) : ∀ (fuel off length : Nat) (acc cs : List Bytes) (used : Nat),
    off + length ≤ buf.length →
    Name.decodeLoop buf fuel off length acc = .ok (cs, used) →
    used = off + length ∧ cs.flatten = acc.flatten ++ pySlice buf off (off + length) := by
  intro fuel
  induction fuel with
  | zero => intro off length acc cs used _ h; simp [Name.decodeLoop] at h
  | succ f ih =>
    intro off length acc cs used hb h
    rw [Name.decodeLoop] at h
    by_cases hz : length = 0
    · subst hz
      rw [if_pos rfl] at h
      cases h
      simp [pySlice]
    · rw [if_neg hz] at h
      cases h1 : parseTlNum buf off with
      | error e => rw [h1] at h; cases h
      | ok p1 =>
        obtain ⟨t, st⟩ := p1
        rw [h1] at h
        cases h2 : parseTlNum buf (off + st) with
        | error e => simp only [h2, bind, Except.bind] at h; cases h
        | ok p2 =>
          obtain ⟨lc, sl⟩ := p2
          simp only [h2, bind, Except.bind] at h
          by_cases hov : off + st + sl + lc - off > length
          · rw [if_pos hov] at h; cases h
          · rw [if_neg hov] at h
            obtain ⟨hu, hf⟩ := ih _ _ _ _ _ (by omega) h
            refine ⟨by omega, ?_⟩
            rw [hf, List.flatten_append, List.flatten_singleton, List.append_assoc]
            congr 1
            have e : off + st + sl + lc + (length - (off + st + sl + lc - off)) = off + length := by omega
            rw [e]
            exact slice_join buf off (off + st + sl + lc) (off + length) (by omega) (by omega) hb


/-- **what `Name.decode` accepts is exact**, for EVERY byte string: the buffer starts with Type 7 and a Length that fits
    in it, the components returned are, joined, exactly the `Length` bytes after the header (no component is cut, none
    runs past the declared Length, nothing of it is left over), and the count of bytes consumed is header + Length. -/
theorem decode_ok_exact {buf : Bytes} {cs : List Bytes} {used : Nat} (h : Name.decode buf = .ok (cs, used)) :
    ∃ st length sl, parseTlNum buf 0 = .ok (7, st) ∧ parseTlNum buf st = .ok (length, sl) ∧
      used = st + sl + length ∧ used ≤ buf.length ∧ cs.flatten = pySlice buf (st + sl) used := by
  unfold Name.decode at h
  cases h1 : parseTlNum buf 0 with
  | error e => rw [h1] at h; cases h
  | ok p1 =>
    obtain ⟨typ, st⟩ := p1
    simp only [h1, bind, Except.bind] at h
    by_cases ht : typ = Name.TYPE_NAME
    · subst ht
      rw [if_neg (by simp)] at h
      cases h2 : parseTlNum buf st with
      | error e => simp only [h2] at h; cases h
      | ok p2 =>
        obtain ⟨length, sl⟩ := p2
        simp only [h2] at h
        have w2 := parseTlNum_within h2
        by_cases hov : length > buf.length - (st + sl)
        · rw [if_pos hov] at h; cases h
        · rw [if_neg hov] at h
          obtain ⟨hu, hf⟩ := decodeLoop_ok_exact buf _ _ _ _ _ _ (by omega) h
          exact ⟨st, length, sl, rfl, h2, hu, by omega, by rw [hf, hu]; rfl⟩
    · rw [if_pos ht] at h; cases h

/-- the loop walks over library-shaped components that lie within the declared Length -/
theorem decodeLoop_peel (cs : List Bytes) (hcs : ∀ c ∈ cs, WfComp c) :
    ∀ (pre post acc : List _) (fuel extra : Nat),
      Name.decodeLoop (pre ++ cs.flatten ++ post) (fuel + cs.length) pre.length (cs.flatten.length + extra) acc
        = Name.decodeLoop (pre ++ cs.flatten ++ post) fuel (pre.length + cs.flatten.length) extra (acc ++ cs) := by
  induction cs with
  | nil => intro pre post acc fuel extra; simp
  | cons c cs ih =>
    intro pre post acc fuel extra
    obtain ⟨t, v, ht1, ht2, hv, rfl⟩ := hcs _ (List.mem_cons_self)
    have hpos : (tlv t v :: cs).flatten.length + extra ≠ 0 := by
      have := tlv_length t v; have := tlNumSize_pos t
      rw [List.flatten_cons, List.length_append]; omega
    have e1 : parseTlNum (pre ++ (tlv t v :: cs).flatten ++ post) pre.length = .ok (t, tlNumSize t) := by
      have := parseTlNum_shift pre ((tlv t v :: cs).flatten ++ post) 0
      rw [Nat.add_zero, ← List.append_assoc] at this
      rw [this, List.flatten_cons, List.append_assoc]
      exact parse_tlv_T t v _ (by omega)
    have e2 : parseTlNum (pre ++ (tlv t v :: cs).flatten ++ post) (pre.length + tlNumSize t)
        = .ok (v.length, tlNumSize v.length) := by
      have := parseTlNum_shift pre ((tlv t v :: cs).flatten ++ post) (tlNumSize t)
      rw [← List.append_assoc] at this
      rw [this, List.flatten_cons, List.append_assoc]
      exact parse_tlv_L t v _ hv
    have hnov : ¬ (pre.length + tlNumSize t + tlNumSize v.length + v.length - pre.length
        > (tlv t v :: cs).flatten.length + extra) := by
      have := tlv_length t v
      rw [List.flatten_cons, List.length_append]; omega
    rw [show fuel + (tlv t v :: cs).length = (fuel + cs.length) + 1 from rfl, Name.decodeLoop]
    simp only [hpos, hnov, if_false, e1, e2, bind, Except.bind]
    have hoff : pre.length + tlNumSize t + tlNumSize v.length + v.length = (pre ++ tlv t v).length := by
      rw [List.length_append, tlv_length]; omega
    have hsl : pySlice (pre ++ (tlv t v :: cs).flatten ++ post) pre.length (pre ++ tlv t v).length = tlv t v := by
      simp [pySlice, List.take_append]
    have hlen : (tlv t v :: cs).flatten.length + extra - ((pre ++ tlv t v).length - pre.length) = cs.flatten.length + extra := by
      rw [List.flatten_cons, List.length_append, List.length_append]; omega
    rw [hoff, hsl, hlen]
    have := ih (fun x hx => hcs x (List.mem_cons_of_mem _ hx)) (pre ++ tlv t v) post (acc ++ [tlv t v]) fuel extra
    rw [List.flatten_cons]
    rw [show pre ++ (tlv t v ++ cs.flatten) ++ post = pre ++ tlv t v ++ cs.flatten ++ post by simp]
    rw [this]
    simp only [List.length_append, List.append_assoc, List.singleton_append]
    rw [Nat.add_assoc]

/-- **a component that runs past the declared Length of the Name is rejected**: a Name TLV whose Length `L` ends
    strictly inside a (library-shaped) component - after any number of whole components, whatever follows in the
    buffer - raises `IndexError` (whether or not the overrunning component itself lies inside the buffer). -/
theorem decode_overrun (n : List Bytes) (c post : Bytes) (hn : ∀ x ∈ n, WfComp x) (hc : WfComp c) (L : Nat)
    (h1 : n.flatten.length < L) (h2 : L < n.flatten.length + c.length) (hL : L < 2^64) :
    Name.decode (writeTlNum Name.TYPE_NAME ++ writeTlNum L ++ n.flatten ++ (c ++ post)) = .error .indexError := by
  have h7 : writeTlNum Name.TYPE_NAME = [7] := by decide
  generalize hbuf : writeTlNum Name.TYPE_NAME ++ writeTlNum L ++ n.flatten ++ (c ++ post) = buf
  have e1 : parseTlNum buf 0 = .ok (7, 1) := by
    rw [← hbuf, h7]; rfl
  have e2 : parseTlNum buf 1 = .ok (L, tlNumSize L) := by
    rw [← hbuf]
    have := parseTlNum_shift (writeTlNum Name.TYPE_NAME) (writeTlNum L ++ n.flatten ++ (c ++ post)) 0
    rw [h7] at this ⊢
    simp only [List.length_singleton, Nat.add_zero] at this
    rw [List.append_assoc, List.append_assoc, ← List.append_assoc (writeTlNum L), this, List.append_assoc]
    exact parse_write _ _ hL
  have hpre : (writeTlNum Name.TYPE_NAME ++ writeTlNum L).length = 1 + tlNumSize L := by
    rw [h7, List.length_append, writeTlNum_length]; rfl
  unfold Name.decode
  simp only [e1, e2, bind, Except.bind, Name.TYPE_NAME]
  simp only [ne_eq, not_true_eq_false, if_false]
  by_cases hov : L > buf.length - (1 + tlNumSize L)
  · rw [if_pos hov]
  · rw [if_neg hov]
    have hnl := flatten_length_ge n (fun x hx => (hn x hx).ne_nil)
    obtain ⟨f, hf⟩ : ∃ f, L + 1 = (f + 1) + n.length := ⟨L - n.length, by omega⟩
    obtain ⟨extra, hx⟩ : ∃ extra, L = n.flatten.length + extra := ⟨L - n.flatten.length, by omega⟩
    have hp := decodeLoop_peel n hn (writeTlNum Name.TYPE_NAME ++ writeTlNum L) (c ++ post) [] (f + 1) extra
    rw [hbuf, hpre] at hp
    rw [hf]
    conv => lhs; arg 4; rw [hx]
    rw [hp]
    obtain ⟨t, v, ht1, ht2, hv, rfl⟩ := hc
    have hsplit : buf = (writeTlNum Name.TYPE_NAME ++ writeTlNum L ++ n.flatten) ++ (tlv t v ++ post) := hbuf.symm
    have hlen : (writeTlNum Name.TYPE_NAME ++ writeTlNum L ++ n.flatten).length = 1 + tlNumSize L + n.flatten.length := by
      rw [List.length_append, hpre]
    have p1 : parseTlNum buf (1 + tlNumSize L + n.flatten.length) = .ok (t, tlNumSize t) := by
      have := parseTlNum_shift (writeTlNum Name.TYPE_NAME ++ writeTlNum L ++ n.flatten) (tlv t v ++ post) 0
      rw [Nat.add_zero, hlen, ← hsplit] at this
      rw [this]
      exact parse_tlv_T t v _ (by omega)
    have p2 : parseTlNum buf (1 + tlNumSize L + n.flatten.length + tlNumSize t) = .ok (v.length, tlNumSize v.length) := by
      have := parseTlNum_shift (writeTlNum Name.TYPE_NAME ++ writeTlNum L ++ n.flatten) (tlv t v ++ post) (tlNumSize t)
      rw [hlen, ← hsplit] at this
      rw [this]
      exact parse_tlv_L t v _ hv
    have := tlv_length t v
    exact decodeLoop_overrun_step buf f _ extra _ t _ _ _ p1 p2 (by omega) (by omega)


/-! ### `Name.decode(buf, offset)`, `0 ≤ offset`: decoding AT an offset is decoding the suffix -/
theorem pySlice_drop {α} (buf : List α) (k a b : Nat) : pySlice (buf.drop k) a b = pySlice buf (k + a) (k + b) := by
  unfold pySlice
  rw [List.take_drop, List.drop_drop]

theorem unpackAt_drop (buf : Bytes) (k a n : Nat) : unpackAt (buf.drop k) a n = unpackAt buf (k + a) n := by
  unfold unpackAt
  rw [pySlice_drop, Nat.add_assoc]

theorem parseTlNum_drop (buf : Bytes) (k off : Nat) : parseTlNum (buf.drop k) off = parseTlNum buf (k + off) := by
  unfold parseTlNum
  rw [List.getElem?_drop]
  simp only [unpackAt_drop, Nat.add_assoc]

theorem exc_ok_bind {α β} (x : α) (f : α → Except PyErr β) : (Except.ok x >>= f) = f x := rfl

/-- the result of the loop on the suffix, from the result on the whole buffer: the offset reached is counted from `k` -/
def unshift (k : Nat) (r : List Bytes × Nat) : List Bytes × Nat := (r.1, r.2 - k)

theorem decodeLoop_drop (buf : Bytes) (k : Nat) : ∀ (fuel off length : Nat) (acc : List Bytes),
    Name.decodeLoop (buf.drop k) fuel off length acc = (Name.decodeLoop buf fuel (k + off) length acc).map (unshift k) := by
  intro fuel
  induction fuel with
  | zero => intro off length acc; rfl
  | succ f ih =>
    intro off length acc
    rw [Name.decodeLoop, Name.decodeLoop]
    by_cases hz : length = 0
    · rw [if_pos hz, if_pos hz]
      show Except.ok _ = Except.ok _
      simp [unshift]
    · rw [if_neg hz, if_neg hz, parseTlNum_drop]
      cases h1 : parseTlNum buf (k + off) with
      | error e => rfl
      | ok p1 =>
        obtain ⟨t, st⟩ := p1
        simp only [exc_ok_bind]
        rw [parseTlNum_drop, ← Nat.add_assoc]
        cases h2 : parseTlNum buf (k + off + st) with
        | error e => rfl
        | ok p2 =>
          obtain ⟨lc, sl⟩ := p2
          simp only [exc_ok_bind]
          have e : k + off + st + sl + lc - (k + off) = off + st + sl + lc - off := by omega
          rw [e]
          by_cases hov : off + st + sl + lc - off > length
          · rw [if_pos hov, if_pos hov]; rfl
          · rw [if_neg hov, if_neg hov, ih, pySlice_drop]
            have e2 : k + (off + st + sl + lc) = k + off + st + sl + lc := by omega
            rw [e2]

/-- **decoding at an offset is decoding the suffix**, EVERY buffer and EVERY offset `0 ≤ off` (no hypothesis): the same
    components (slices of the same bytes), the same number of bytes consumed, the same exception.  In particular
    `off ≥ len(buf)` is the `IndexError` of decoding the empty string (`decodeAt_outside`). -/
theorem decodeAt_eq_drop (buf : Bytes) (off : Nat) : Name.decodeAt buf off = Name.decode (buf.drop off) := by
  simp only [Name.decodeAt, Name.decode]
  rw [parseTlNum_drop, Nat.add_zero]
  cases h1 : parseTlNum buf off with
  | error e => rfl
  | ok p1 =>
    obtain ⟨typ, st⟩ := p1
    simp only [exc_ok_bind]
    by_cases ht : typ = Name.TYPE_NAME
    · rw [if_neg (by simpa using ht), if_neg (by simpa using ht), parseTlNum_drop]
      cases h2 : parseTlNum buf (off + st) with
      | error e => rfl
      | ok p2 =>
        obtain ⟨length, sl⟩ := p2
        simp only [exc_ok_bind]
        have e : (List.drop off buf).length - (st + sl) = buf.length - (off + st + sl) := by
          simp only [List.length_drop]; omega
        rw [e]
        by_cases hov : length > buf.length - (off + st + sl)
        · rw [if_pos hov, if_pos hov]
        · rw [if_neg hov, if_neg hov, decodeLoop_drop, ← Nat.add_assoc]
          cases Name.decodeLoop buf (length + 1) (off + st + sl) length [] <;> rfl
    · rw [if_pos ht, if_pos ht]

theorem decodeAt_zero (buf : Bytes) : Name.decodeAt buf 0 = Name.decode buf := by
  rw [decodeAt_eq_drop]; rfl

/-- an offset at or past the end of the buffer: `IndexError` (raised by the first `parse_tl_num`) -/
theorem decodeAt_outside (buf : Bytes) (off : Nat) (h : buf.length ≤ off) : Name.decodeAt buf off = .error .indexError := by
  rw [decodeAt_eq_drop, List.drop_of_length_le h]; rfl

/-- bytes BEFORE the offset do not matter, and the encoding of a well-formed name placed at an offset is read back:
    `Name.decode(pre + Name.encode(n) + post, len(pre))` = `(n, len(Name.encode(n)))` -/
theorem decodeAt_append (pre buf : Bytes) : Name.decodeAt (pre ++ buf) pre.length = Name.decode buf := by
  rw [decodeAt_eq_drop, List.drop_left]

end Ndn
