import NdnModel.Name
import NdnProofs.Lemmas.TlNum
import NdnProofs.Lemmas.Shrink
/-! Wire-level lemmas for names: parsing an encoded component, `Name.decode ∘ Name.encode`. -/
namespace Ndn

instance {ε α} [DecidableEq ε] [DecidableEq α] : DecidableEq (Except ε α) := fun a b =>
  match a, b with
  | .ok x, .ok y => if h : x = y then isTrue (by rw [h]) else isFalse (fun e => h (by injection e))
  | .error x, .error y => if h : x = y then isTrue (by rw [h]) else isFalse (fun e => h (by injection e))
  | .ok _, .error _ => isFalse (fun e => by cases e)
  | .error _, .ok _ => isFalse (fun e => by cases e)

theorem parse_tlv_T (t : Nat) (v rest : Bytes) (ht : t < 2^64) :
    parseTlNum (tlv t v ++ rest) 0 = .ok (t, tlNumSize t) := by
  unfold tlv; rw [List.append_assoc, List.append_assoc]; exact parse_write t _ ht

theorem parse_tlv_L (t : Nat) (v rest : Bytes) (hv : v.length < 2^64) :
    parseTlNum (tlv t v ++ rest) (tlNumSize t) = .ok (v.length, tlNumSize v.length) := by
  unfold tlv
  have := parseTlNum_shift (writeTlNum t) (writeTlNum v.length ++ v ++ rest) 0
  rw [writeTlNum_length, Nat.add_zero] at this
  rw [List.append_assoc, List.append_assoc, ← List.append_assoc (writeTlNum v.length), this,
    List.append_assoc]
  exact parse_write _ _ hv

theorem tlv_length (t : Nat) (v : Bytes) :
    (tlv t v).length = tlNumSize t + tlNumSize v.length + v.length := by
  simp [tlv, writeTlNum_length]; omega

theorem tlv_ne_nil (t : Nat) (v : Bytes) : tlv t v ≠ [] := by
  intro h
  have := congrArg List.length h
  rw [tlv_length] at this
  have := tlNumSize_pos t
  simp at *; omega

theorem parseComp_tlv (t : Nat) (v : Bytes) (ht : t < 2^64) (hv : v.length < 2^64) :
    Comp.parseComp (tlv t v) = .ok (t, v) := by
  have h1 := parse_tlv_T t v [] ht
  have h2 := parse_tlv_L t v [] hv
  rw [List.append_nil] at h1 h2
  unfold Comp.parseComp
  simp only [h1, h2, bind, Except.bind, tlv_length]
  have : ¬ (tlNumSize t + tlNumSize v.length + v.length ≠ v.length + (tlNumSize t + tlNumSize v.length)) := by omega
  simp only [this, if_false, pure, Except.pure]
  congr 2
  unfold tlv
  have : tlNumSize t + tlNumSize v.length = (writeTlNum t ++ writeTlNum v.length).length := by
    simp [writeTlNum_length]
  rw [this, List.drop_left]

theorem getType_tlv (t : Nat) (v : Bytes) (ht : t < 2^64) : Comp.getType (tlv t v) = .ok t := by
  have h1 := parse_tlv_T t v [] ht
  rw [List.append_nil] at h1
  simp [Comp.getType, h1, bind, Except.bind, pure, Except.pure]

theorem getValue_tlv (t : Nat) (v : Bytes) (ht : t < 2^64) (hv : v.length < 2^64) :
    Comp.getValue (tlv t v) = .ok v := by
  have h1 := parse_tlv_T t v [] ht
  have h2 := parse_tlv_L t v [] hv
  rw [List.append_nil] at h1 h2
  simp only [Comp.getValue, h1, h2, bind, Except.bind, pure, Except.pure]
  congr 1
  unfold tlv
  have : tlNumSize t + tlNumSize v.length = (writeTlNum t ++ writeTlNum v.length).length := by
    simp [writeTlNum_length]
  rw [this, List.drop_left]

/-- a component as the library produces it: shortest-form Type and Length around any value -/
def WfComp (c : Bytes) : Prop := ∃ t v, 1 ≤ t ∧ t ≤ 65535 ∧ v.length < 2^64 ∧ c = tlv t v

theorem WfComp.ne_nil {c} (h : WfComp c) : c ≠ [] := by
  obtain ⟨t, v, _, _, _, rfl⟩ := h; exact tlv_ne_nil t v

theorem flatten_length_ge (cs : List Bytes) (h : ∀ c ∈ cs, c ≠ []) : cs.length ≤ cs.flatten.length := by
  induction cs with
  | nil => simp
  | cons c cs ih =>
    have hc : c ≠ [] := h c (by simp)
    have : 0 < c.length := List.length_pos_iff.mpr hc
    have := ih (fun x hx => h x (by simp [hx]))
    rw [List.flatten_cons, List.length_append, List.length_cons]; omega

/-- the decode loop over a buffer `pre ++ flatten cs ++ post` started at `pre.length` with exactly the
    remaining length returns the components -/
theorem decodeLoop_flatten (cs : List Bytes) (hcs : ∀ c ∈ cs, WfComp c) :
    ∀ (pre post acc : List _) (fuel : Nat), cs.length < fuel →
      Name.decodeLoop (pre ++ cs.flatten ++ post) fuel pre.length cs.flatten.length acc
        = .ok (acc ++ cs, pre.length + cs.flatten.length) := by
  induction cs with
  | nil =>
    intro pre post acc fuel hf
    cases fuel with
    | zero => omega
    | succ f => simp [Name.decodeLoop]
  | cons c cs ih =>
    intro pre post acc fuel hf
    cases fuel with
    | zero => omega
    | succ f =>
      obtain ⟨t, v, ht1, ht2, hv, rfl⟩ := hcs _ (List.mem_cons_self)
      have hpos : (tlv t v :: cs).flatten.length ≠ 0 := by
        have := tlv_length t v; have := tlNumSize_pos t
        rw [List.flatten_cons, List.length_append]; omega
      have e1 : parseTlNum (pre ++ (tlv t v :: cs).flatten ++ post) pre.length = .ok (t, tlNumSize t) := by
        have := parseTlNum_shift pre ((tlv t v :: cs).flatten ++ post) 0
        rw [Nat.add_zero, ← List.append_assoc] at this
        rw [this, List.flatten_cons, List.append_assoc]
        exact parse_tlv_T t v _ (by omega)
      have e2 : parseTlNum (pre ++ (tlv t v :: cs).flatten ++ post) (pre.length + tlNumSize t)
          = .ok (v.length, tlNumSize v.length) := by
        have := parseTlNum_shift pre ((tlv t v :: cs).flatten ++ post) (tlNumSize t)
        rw [← List.append_assoc] at this
        rw [this, List.flatten_cons, List.append_assoc]
        exact parse_tlv_L t v _ hv
      unfold Name.decodeLoop
      simp only [hpos, if_false, e1, e2, bind, Except.bind]
      have hoff : pre.length + tlNumSize t + tlNumSize v.length + v.length = (pre ++ tlv t v).length := by
        rw [List.length_append, tlv_length]; omega
      have hsl : pySlice (pre ++ (tlv t v :: cs).flatten ++ post) pre.length (pre ++ tlv t v).length = tlv t v := by
        simp [pySlice, List.take_append]
      have hlen : (tlv t v :: cs).flatten.length - ((pre ++ tlv t v).length - pre.length) = cs.flatten.length := by
        rw [List.flatten_cons, List.length_append, List.length_append]; omega
      rw [hoff, hsl, hlen]
      have := ih (fun x hx => hcs x (List.mem_cons_of_mem _ hx)) (pre ++ tlv t v) post (acc ++ [tlv t v]) f
        (by simp at hf; omega)
      rw [List.flatten_cons]
      rw [show pre ++ (tlv t v ++ cs.flatten) ++ post = pre ++ tlv t v ++ cs.flatten ++ post by simp]
      rw [this]
      simp only [List.length_append, List.append_assoc, List.singleton_append]
      congr 2; omega

/-- **decode ∘ encode** for names of any number of library-shaped components. -/
theorem decode_encode (n : List Bytes) (hn : ∀ c ∈ n, WfComp c) (hl : n.flatten.length < 2^64) :
    Name.decode (Name.encode n) = .ok (n, (Name.encode n).length) := by
  have h7 : writeTlNum Name.TYPE_NAME = [7] := by decide
  have e1 : parseTlNum (Name.encode n) 0 = .ok (7, 1) := by
    unfold Name.encode; rw [h7]; rfl
  have e2 : parseTlNum (Name.encode n) 1 = .ok (n.flatten.length, tlNumSize n.flatten.length) := by
    unfold Name.encode
    have := parseTlNum_shift (writeTlNum Name.TYPE_NAME) (writeTlNum n.flatten.length ++ n.flatten) 0
    rw [h7] at this ⊢
    simp only [List.length_singleton, Nat.add_zero] at this
    rw [List.append_assoc, this]
    exact parse_write _ _ hl
  have hlen : (Name.encode n).length = 1 + tlNumSize n.flatten.length + n.flatten.length := by
    unfold Name.encode; rw [h7]; simp [writeTlNum_length]; omega
  unfold Name.decode
  simp only [e1, e2, bind, Except.bind, Name.TYPE_NAME]
  simp only [ne_eq, not_true_eq_false, if_false, hlen]
  have : ¬ (n.flatten.length > 1 + tlNumSize n.flatten.length + n.flatten.length - (1 + tlNumSize n.flatten.length)) := by
    omega
  simp only [this, if_false]
  have hl2 : 1 + tlNumSize n.flatten.length = (writeTlNum Name.TYPE_NAME ++ writeTlNum n.flatten.length).length := by
    rw [h7, List.length_append, writeTlNum_length]; rfl
  have := decodeLoop_flatten n hn (writeTlNum Name.TYPE_NAME ++ writeTlNum n.flatten.length) [] []
    (n.flatten.length + 1)
    (by have := flatten_length_ge n (fun c hc => (hn c hc).ne_nil); omega)
  rw [List.append_nil, ← hl2] at this
  unfold Name.encode
  rw [this]
  simp

end Ndn
