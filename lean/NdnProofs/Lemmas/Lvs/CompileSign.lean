import NdnProofs.Lemmas.Lvs.CompileStatic
/-!
  Pass 5 (`fixSigning`) refuses a signer that is not the identifier of a rule: every rule leaves a chain
  carrying its signers, every chain ends at a node of the pool, and the rule names found in the pool are
  identifiers of rules.
-/
namespace Ndn.Lvs

/-! ### pass 2 keeps identifiers and signers -/

theorem numRule_fields {named : List String} {x : SRule × List (Comp Int) × PyDict String (List Int)} {nr : NRule}
    (h : numRule named x = .ok nr) : nr.id = x.1.id ∧ nr.sign = x.1.sign ∧ nr.name = x.2.1 := by
  unfold numRule at h
  split at h
  · simp at h
  · injection h with h; subst h; exact ⟨rfl, rfl, rfl⟩

/-- the rules after numbering correspond one to one to the rules before (same identifier, same signers) -/
theorem genPatternNumbers_rules {rules : List SRule} {nrules : List NRule} {named : List String}
    (h : genPatternNumbers rules = .ok (nrules, named)) :
    (∀ r ∈ rules, ∃ nr ∈ nrules, nr.id = r.id ∧ nr.sign = r.sign) ∧
    (∀ nr ∈ nrules, ∃ r ∈ rules, nr.id = r.id ∧ nr.sign = r.sign) := by
  unfold genPatternNumbers at h
  have hfst := numberNames_fst rules { named := [], nextTemp := -1 }
  split at h
  rename_i xs st hx
  rw [hx] at hfst
  simp only [] at hfst
  split at h
  · simp at h
  · rename_i nrs hn
    injection h with h
    simp only [Prod.mk.injEq] at h
    obtain ⟨rfl, _⟩ := h
    constructor
    · intro r hr
      have : r ∈ xs.map (·.1) := hfst ▸ hr
      obtain ⟨x, hxm, hx1⟩ := List.mem_map.mp this
      obtain ⟨nr, hnr, hf⟩ := mapE_ok_mem hn x hxm
      obtain ⟨h1, h2, _⟩ := numRule_fields hf
      exact ⟨nr, hnr, hx1 ▸ h1, hx1 ▸ h2⟩
    · intro nr hnr
      obtain ⟨x, hxm, hf⟩ := mapE_ok_mem' hn nr hnr
      obtain ⟨h1, h2, _⟩ := numRule_fields hf
      exact ⟨x.1, hfst ▸ List.mem_map_of_mem hxm, h1, h2⟩

/-! ### pass 3: every rule leaves a chain; chain identifiers are rule identifiers -/

/-- `rep[k]` contains the chain `c` -/
def Has (rep : PyDict String (List Chain)) (k : String) (c : Chain) : Prop :=
  ∃ v, PyDict.get? rep k = some v ∧ c ∈ v

theorem inlineInner_shape (rid : String) (refc : Chain) : ∀ (cur : List Chain) (nt : Int),
    (∀ c ∈ (inlineInner rid refc cur nt).1, c.id = rid ∧ ∃ ch ∈ cur, c.sign = ch.sign) ∧
    (cur ≠ [] → (inlineInner rid refc cur nt).1 ≠ []) := by
  intro cur
  induction cur with
  | nil => intro nt; simp [inlineInner]
  | cons ch r ih =>
    intro nt
    simp only [inlineInner]
    refine ⟨fun c hc => ?_, fun _ => by simp⟩
    rcases List.mem_cons.mp hc with hc | hc
    · subst hc; exact ⟨rfl, ch, List.mem_cons_self, rfl⟩
    · obtain ⟨h1, ch', hch', h2⟩ := (ih _).1 c hc
      exact ⟨h1, ch', List.mem_cons_of_mem _ hch', h2⟩

theorem inlineRef_shape (rid : String) : ∀ (reps cur : List Chain) (nt : Int),
    (∀ c ∈ (inlineRef rid reps cur nt).1, c.id = rid ∧ ∃ ch ∈ cur, c.sign = ch.sign) ∧
    (reps ≠ [] → cur ≠ [] → (inlineRef rid reps cur nt).1 ≠ []) := by
  intro reps
  induction reps with
  | nil => intro cur nt; simp [inlineRef]
  | cons refc rs ih =>
    intro cur nt
    simp only [inlineRef]
    refine ⟨fun c hc => ?_, fun _ hcur => ?_⟩
    · rcases List.mem_append.mp hc with hc | hc
      · exact (inlineInner_shape rid refc cur nt).1 c hc
      · exact (ih cur _).1 c hc
    · intro h
      rw [List.append_eq_nil_iff] at h
      exact (inlineInner_shape rid refc cur nt).2 hcur h.1

/-- every entry of `rep_rules` is non-empty -/
def RepNE (rep : PyDict String (List Chain)) : Prop := ∀ p ∈ rep, p.2 ≠ []

theorem expandName_shape (rid : String) (sg : List String) (rep : PyDict String (List Chain)) (hne : RepNE rep) :
    ∀ (name : List (Comp Int)) (cur : List Chain) (nt : Int) (res : List Chain) (nt' : Int),
      (∀ c ∈ cur, c.id = rid ∧ c.sign = sg) → cur ≠ [] →
      expandName rid rep name cur nt = .ok (res, nt') → (∀ c ∈ res, c.id = rid ∧ c.sign = sg) ∧ res ≠ [] := by
  intro name
  induction name with
  | nil =>
    intro cur nt res nt' hcur hn h
    simp only [expandName] at h
    injection h with h
    simp only [Prod.mk.injEq] at h
    obtain ⟨rfl, _⟩ := h
    exact ⟨hcur, hn⟩
  | cons a r ih =>
    intro cur nt res nt' hcur hn h
    cases a with
    | lit w =>
      simp only [expandName] at h
      refine ih _ _ _ _ ?_ (by simpa using hn) h
      intro c hc
      rw [List.mem_map] at hc
      obtain ⟨c0, hc0, rfl⟩ := hc
      exact hcur c0 hc0
    | pat t =>
      simp only [expandName] at h
      refine ih _ _ _ _ ?_ (by simpa using hn) h
      intro c hc
      rw [List.mem_map] at hc
      obtain ⟨c0, hc0, rfl⟩ := hc
      exact hcur c0 hc0
    | ref i =>
      simp only [expandName] at h
      split at h
      · simp at h
      · rename_i reps hget
        have hrne : reps ≠ [] := hne _ (PyDict.mem_of_get? _ _ _ hget)
        have hs := inlineRef_shape rid reps cur nt
        refine ih _ _ _ _ ?_ (hs.2 hrne hn) h
        intro c hc
        obtain ⟨h1, ch, hch, h2⟩ := hs.1 c hc
        exact ⟨h1, by rw [h2]; exact (hcur ch hch).2⟩

theorem initChains_shape (r : NRule) : (∀ c ∈ initChains r, c.id = r.id ∧ c.sign = isort strLe r.sign) ∧ initChains r ≠ [] := by
  unfold initChains
  simp only []
  split
  · simp
  · rename_i hne
    refine ⟨fun c hc => ?_, ?_⟩
    · rw [List.mem_map] at hc
      obtain ⟨cs, _, rfl⟩ := hc
      exact ⟨rfl, rfl⟩
    · intro h
      rw [List.map_eq_nil_iff] at h
      rw [h] at hne
      simp at hne

theorem has_set_other {rep : PyDict String (List Chain)} {k k' : String} {c : Chain} {v : List Chain}
    (h : Has rep k c) (hk : k' ≠ k) : Has (PyDict.set rep k' v) k c := by
  obtain ⟨w, hw, hc⟩ := h
  exact ⟨w, by rw [PyDict.get?_set]; simp [hk, hw], hc⟩

theorem has_set_self {rep : PyDict String (List Chain)} {k : String} {c : Chain} {v : List Chain} (hc : c ∈ v) :
    Has (PyDict.set rep k v) k c :=
  ⟨v, by rw [PyDict.get?_set]; simp, hc⟩

/-- the invariant of the loop over the rules -/
theorem replicateLoop_has : ∀ (rules : List NRule) (rep : PyDict String (List Chain)) (nt : Int)
    (res : PyDict String (List Chain)), RepNE rep → replicateLoop rules rep nt = .ok res →
    RepNE res ∧
    (∀ k c, Has rep k c → Has res k c) ∧
    (∀ r ∈ rules, ∃ c, Has res r.id c ∧ c.sign = isort strLe r.sign ∧ c.id = r.id) ∧
    (∀ p ∈ res, ∀ c ∈ p.2, (∃ q ∈ rep, c ∈ q.2) ∨ ∃ r ∈ rules, c.id = r.id ∧ c.sign = isort strLe r.sign) := by
  intro rules
  induction rules with
  | nil =>
    intro rep nt res hne h
    simp only [replicateLoop] at h
    injection h with h; subst h
    exact ⟨hne, fun k c h => h, by simp, fun p hp c hc => Or.inl ⟨p, hp, hc⟩⟩
  | cons r rs ih =>
    intro rep nt res hne h
    unfold replicateLoop at h
    split at h
    · simp at h
    · rename_i cur nt' hexp
      obtain ⟨hcur, hcne⟩ := expandName_shape r.id (isort strLe r.sign) rep hne r.name (initChains r) nt cur nt'
        (initChains_shape r).1 (initChains_shape r).2 hexp
      obtain ⟨c0, hc0⟩ := List.exists_mem_of_ne_nil _ hcne
      -- the dictionary after this rule
      obtain ⟨rep', hrep'⟩ : ∃ rep', repAdd rep r.id cur = rep' := ⟨_, rfl⟩
      rw [hrep'] at h
      unfold repAdd at hrep'
      have hne' : RepNE rep' := by
        intro p hp
        rw [← hrep'] at hp
        split at hp
        · rcases mem_pyset hp with hp | hp
          · exact hne p hp
          · subst hp; exact hcne
        · rcases mem_pyset hp with hp | hp
          · exact hne p hp
          · subst hp
            intro h0
            rw [List.append_eq_nil_iff] at h0
            exact hcne h0.2
      have hkeep : ∀ k c, Has rep k c → Has rep' k c := by
        intro k c hh
        rw [← hrep']
        by_cases hk : r.id = k
        · subst hk
          obtain ⟨w, hw, hc⟩ := hh
          rw [hw]
          exact has_set_self (List.mem_append_left _ hc)
        · split
          · exact has_set_other hh hk
          · exact has_set_other hh hk
      have hnew : ∀ c ∈ cur, Has rep' r.id c := by
        intro c hc
        rw [← hrep']
        split
        · exact has_set_self hc
        · exact has_set_self (List.mem_append_right _ hc)
      have hfrom : ∀ p ∈ rep', ∀ c ∈ p.2, (∃ q ∈ rep, c ∈ q.2) ∨ c ∈ cur := by
        intro p hp c hc
        rw [← hrep'] at hp
        split at hp
        · rcases mem_pyset hp with hp | hp
          · exact Or.inl ⟨p, hp, hc⟩
          · subst hp; exact Or.inr hc
        · rename_i old hold
          rcases mem_pyset hp with hp | hp
          · exact Or.inl ⟨p, hp, hc⟩
          · subst hp
            rcases List.mem_append.mp hc with hc | hc
            · exact Or.inl ⟨_, PyDict.mem_of_get? _ _ _ hold, hc⟩
            · exact Or.inr hc
      obtain ⟨h1, h2, h3, h4⟩ := ih rep' nt' res hne' h
      refine ⟨h1, fun k c hh => h2 k c (hkeep k c hh), ?_, ?_⟩
      · intro x hx
        rcases List.mem_cons.mp hx with hx | hx
        · subst hx
          exact ⟨c0, h2 _ _ (hnew c0 hc0), (hcur c0 hc0).2, (hcur c0 hc0).1⟩
        · exact h3 x hx
      · intro p hp c hc
        rcases h4 p hp c hc with ⟨q, hq, hcq⟩ | ⟨x, hx, hcx⟩
        · rcases hfrom q hq c hcq with h | h
          · exact Or.inl h
          · exact Or.inr ⟨r, List.mem_cons_self, (hcur c h).1, (hcur c h).2⟩
        · exact Or.inr ⟨x, List.mem_cons_of_mem _ hx, hcx⟩

theorem mem_allChains {rep : PyDict String (List Chain)} {c : Chain} : c ∈ allChains rep ↔ ∃ p ∈ rep, c ∈ p.2 := by
  unfold allChains
  rw [List.mem_flatMap]
  constructor
  · intro ⟨p, hp, hc⟩; exact ⟨p, mem_isort.mp hp, hc⟩
  · intro ⟨p, hp, hc⟩; exact ⟨p, mem_isort.mpr hp, hc⟩

/-! ### pass 4: every chain ends at a node; rule names in the pool are chain identifiers -/

theorem mem_vMoves_ctx {depth : Nat} {ctx : List Chain} {prev : List Int} {mv : Move} (h : mv ∈ vMoves depth ctx prev) :
    ∀ c ∈ mv.ctx, c ∈ ctx := by
  unfold vMoves at h
  rw [List.mem_map] at h
  obtain ⟨v, _, rfl⟩ := h
  intro c hc
  exact (List.mem_filter.mp hc).1

theorem mem_pMoves_ctx {depth : Nat} {ctx : List Chain} {prev : List Int} {mv : Move} (h : mv ∈ pMoves depth ctx prev) :
    ∀ c ∈ mv.ctx, c ∈ ctx := by
  unfold pMoves at h
  simp only [List.mem_filterMap] at h
  obtain ⟨s, _, hm⟩ := h
  split at hm
  · simp at hm
  · rename_i pm rest hf
    injection hm with hm; subst hm
    intro c hc
    simp only [List.mem_map] at hc
    obtain ⟨x, hx, rfl⟩ := hc
    have : x ∈ (pMovesRaw depth ctx prev).filter (fun pm => pm.2.2.1 == s) := hf ▸ hx
    exact (mem_pMovesRaw (List.mem_filter.mp this).1).1

/-- a chain that has a component at `depth` follows one of the moves -/
theorem moves_cover (depth : Nat) (ctx : List Chain) (prev : List Int) (rc : Chain) (hrc : rc ∈ ctx)
    (hlen : depth < rc.name.length) : ∃ mv ∈ vMoves depth ctx prev ++ pMoves depth ctx prev, rc ∈ mv.ctx := by
  have hget : rc.name[depth]? = some rc.name[depth] := List.getElem?_eq_getElem hlen
  cases hat : rc.name[depth] with
  | lit v =>
    have hl : litAt depth rc = some v := by simp [litAt, hget, hat]
    refine ⟨{ value := some v, tag := 0, cons := [], ctx := ctx.filter (fun rc => litAt depth rc == some v), prev := prev },
      List.mem_append_left _ ?_, ?_⟩
    · unfold vMoves
      rw [List.mem_map]
      exact ⟨v, (mem_sortDedup _ _ _).mpr (List.mem_filterMap.mpr ⟨rc, hrc, hl⟩), rfl⟩
    · simp only [List.mem_filter]
      exact ⟨hrc, by simp [hl]⟩
  | pat t =>
    have hp : patAt depth rc = some t := by simp [patAt, hget, hat]
    have hraw : (t, (pmove rc t prev).1, (pmove rc t prev).2, rc) ∈ pMovesRaw depth ctx prev := by
      unfold pMovesRaw
      rw [List.mem_filterMap]
      exact ⟨rc, hrc, by simp [hp]⟩
    have hkey : (pmove rc t prev).2 ∈ sortDedup strLe ((pMovesRaw depth ctx prev).map (·.2.2.1)) :=
      (mem_sortDedup _ _ _).mpr (List.mem_map.mpr ⟨_, hraw, rfl⟩)
    have hfil : (t, (pmove rc t prev).1, (pmove rc t prev).2, rc) ∈
        (pMovesRaw depth ctx prev).filter (fun pm => pm.2.2.1 == (pmove rc t prev).2) :=
      List.mem_filter.mpr ⟨hraw, by simp⟩
    cases hf : (pMovesRaw depth ctx prev).filter (fun pm => pm.2.2.1 == (pmove rc t prev).2) with
    | nil => rw [hf] at hfil; simp at hfil
    | cons pm rest =>
      refine ⟨{ value := none, tag := pm.1, cons := pm.2.1, ctx := (pm :: rest).map (·.2.2.2), prev := prev ++ [pm.1] },
        List.mem_append_right _ ?_, ?_⟩
      · unfold pMoves
        simp only [List.mem_filterMap]
        exact ⟨_, hkey, by rw [hf]⟩
      · simp only [List.mem_map]
        exact ⟨_, hf ▸ hfil, rfl⟩

/-- every move is handed to `child`, and the nodes it returns are part of the result -/
theorem genMoves_calls {child : List Chain → List Int → Nat → Nat → Except CErr (List PreNode × Nat)} :
    ∀ (mvs : List Move) (base tidx : Nat) (ves : List VEdge) (pes : List PEdge) (nodes : List PreNode) (t' : Nat),
      genMoves child mvs base tidx = .ok (ves, pes, nodes, t') →
      (∀ mv ∈ mvs, ∃ b t sub t2, child mv.ctx mv.prev b t = .ok (sub, t2) ∧ ∀ n ∈ sub, n ∈ nodes) ∧
      (∀ n ∈ nodes, ∃ mv ∈ mvs, ∃ b t sub t2, child mv.ctx mv.prev b t = .ok (sub, t2) ∧ n ∈ sub) := by
  intro mvs
  induction mvs with
  | nil =>
    intro base tidx ves pes nodes t' h
    simp only [genMoves] at h
    injection h with h
    simp only [Prod.mk.injEq] at h
    obtain ⟨_, _, rfl, _⟩ := h
    simp
  | cons mv r ih =>
    intro base tidx ves pes nodes t' h
    unfold genMoves at h
    simp only [] at h
    split at h
    · simp at h
    · rename_i sub tidx2 hsub
      split at h
      · simp at h
      · rename_i ves' pes' rest tidx3 hrest
        obtain ⟨hr1, hr2⟩ := ih _ _ _ _ _ _ hrest
        have hnodes : nodes = sub ++ rest := by
          split at h <;>
          · injection h with h
            simp only [Prod.mk.injEq] at h
            exact h.2.2.1.symm
        subst hnodes
        constructor
        · intro m hm
          rcases List.mem_cons.mp hm with hm | hm
          · subst hm
            exact ⟨_, _, sub, tidx2, hsub, fun n hn => List.mem_append_left _ hn⟩
          · obtain ⟨b, t, s, t2, hc, hs⟩ := hr1 m hm
            exact ⟨b, t, s, t2, hc, fun n hn => List.mem_append_right _ (hs n hn)⟩
        · intro n hn
          rcases List.mem_append.mp hn with hn | hn
          · exact ⟨mv, List.mem_cons_self, _, _, sub, tidx2, hsub, hn⟩
          · obtain ⟨m, hm, b, t, s, t2, hc, hs⟩ := hr2 n hn
            exact ⟨m, List.mem_cons_of_mem _ hm, b, t, s, t2, hc, hs⟩

theorem genNode_ends : ∀ (fuel depth : Nat) (ctx : List Chain) (parent : Option Nat) (prev : List Int)
    (base tidx : Nat) (nodes : List PreNode) (t' : Nat), (∀ c ∈ ctx, depth ≤ c.name.length) →
    genNode fuel depth ctx parent prev base tidx = .ok (nodes, t') →
    (∀ rc ∈ ctx, ∃ n ∈ nodes, rc.id ∈ n.ruleNames ∧ ∀ s ∈ rc.sign, s ∈ n.signStr) ∧
    (∀ n ∈ nodes, (∀ rid ∈ n.ruleNames, ∃ rc ∈ ctx, rc.id = rid) ∧ ∀ s ∈ n.signStr, ∃ rc ∈ ctx, s ∈ rc.sign) := by
  intro fuel
  induction fuel with
  | zero =>
    intro depth ctx parent prev base tidx nodes t' hlen h
    unfold genNode at h
    simp only [] at h
    split at h
    · rename_i hmoves
      injection h with h
      simp only [Prod.mk.injEq] at h
      obtain ⟨rfl, _⟩ := h
      constructor
      · intro rc hrc
        by_cases he : rc.name.length = depth
        · refine ⟨_, List.mem_cons_self, ?_, fun s hs => ?_⟩
          · simp only [List.mem_map]
            exact ⟨rc, List.mem_filter.mpr ⟨hrc, by simp [he]⟩, rfl⟩
          · simp only [List.mem_flatMap]
            exact ⟨rc, List.mem_filter.mpr ⟨hrc, by simp [he]⟩, hs⟩
        · exfalso
          have hlt : depth < rc.name.length := by have := hlen rc hrc; omega
          obtain ⟨mv, hmv, _⟩ := moves_cover depth (ctx.filter (fun rc => !(rc.name.length == depth))) prev rc
            (List.mem_filter.mpr ⟨hrc, by simp [he]⟩) hlt
          rw [hmoves] at hmv
          simp at hmv
      · intro n hn
        simp at hn; subst hn
        refine ⟨fun rid hrid => ?_, fun s hs => ?_⟩
        · simp only [List.mem_map] at hrid
          obtain ⟨rc, hrc, rfl⟩ := hrid
          exact ⟨rc, (List.mem_filter.mp hrc).1, rfl⟩
        · simp only [List.mem_flatMap] at hs
          obtain ⟨rc, hrc, hsr⟩ := hs
          exact ⟨rc, (List.mem_filter.mp hrc).1, hsr⟩
    · simp at h
  | succ f ih =>
    intro depth ctx parent prev base tidx nodes t' hlen h
    unfold genNode at h
    simp only [] at h
    have hended : ∀ rc ∈ ctx, rc.name.length = depth → ∀ (ves : List VEdge) (pes : List PEdge),
        rc.id ∈ (ctx.filter (fun rc => rc.name.length == depth)).map (·.id) ∧
        ∀ s ∈ rc.sign, s ∈ (ctx.filter (fun rc => rc.name.length == depth)).flatMap (·.sign) := by
      intro rc hrc he _ _
      refine ⟨?_, fun s hs => ?_⟩
      · simp only [List.mem_map]
        exact ⟨rc, List.mem_filter.mpr ⟨hrc, by simp [he]⟩, rfl⟩
      · simp only [List.mem_flatMap]
        exact ⟨rc, List.mem_filter.mpr ⟨hrc, by simp [he]⟩, hs⟩
    split at h
    · rename_i hmoves
      injection h with h
      simp only [Prod.mk.injEq] at h
      obtain ⟨rfl, _⟩ := h
      constructor
      · intro rc hrc
        by_cases he : rc.name.length = depth
        · exact ⟨_, List.mem_cons_self, (hended rc hrc he [] []).1, (hended rc hrc he [] []).2⟩
        · exfalso
          have hlt : depth < rc.name.length := by have := hlen rc hrc; omega
          obtain ⟨mv, hmv, _⟩ := moves_cover depth (ctx.filter (fun rc => !(rc.name.length == depth))) prev rc
            (List.mem_filter.mpr ⟨hrc, by simp [he]⟩) hlt
          rw [hmoves] at hmv
          simp at hmv
      · intro n hn
        simp at hn; subst hn
        refine ⟨fun rid hrid => ?_, fun s hs => ?_⟩
        · simp only [List.mem_map] at hrid
          obtain ⟨rc, hrc, rfl⟩ := hrid
          exact ⟨rc, (List.mem_filter.mp hrc).1, rfl⟩
        · simp only [List.mem_flatMap] at hs
          obtain ⟨rc, hrc, hsr⟩ := hs
          exact ⟨rc, (List.mem_filter.mp hrc).1, hsr⟩
    · rename_i mv mvs hmoves
      split at h
      · simp at h
      · rename_i ves pes sub tidx' hgm
        injection h with h
        simp only [Prod.mk.injEq] at h
        obtain ⟨rfl, _⟩ := h
        obtain ⟨hcalls, hfrom⟩ := genMoves_calls _ _ _ _ _ _ _ hgm
        have hmvctx : ∀ m ∈ mv :: mvs, ∀ c ∈ m.ctx, c ∈ ctx.filter (fun rc => !(rc.name.length == depth)) := by
          intro m hm
          rw [← hmoves] at hm
          rcases List.mem_append.mp hm with hm | hm
          · exact mem_vMoves_ctx hm
          · exact mem_pMoves_ctx hm
        have hmvlen : ∀ m ∈ mv :: mvs, ∀ c ∈ m.ctx, depth + 1 ≤ c.name.length := by
          intro m hm c hc
          have := List.mem_filter.mp (hmvctx m hm c hc)
          have h1 := hlen c this.1
          have h2 : c.name.length ≠ depth := by simpa using this.2
          omega
        constructor
        · intro rc hrc
          by_cases he : rc.name.length = depth
          · exact ⟨_, List.mem_cons_self, (hended rc hrc he ves pes).1, (hended rc hrc he ves pes).2⟩
          · have hlt : depth < rc.name.length := by have := hlen rc hrc; omega
            obtain ⟨m, hm, hrcm⟩ := moves_cover depth (ctx.filter (fun rc => !(rc.name.length == depth))) prev rc
              (List.mem_filter.mpr ⟨hrc, by simp [he]⟩) hlt
            rw [hmoves] at hm
            obtain ⟨b, t, s, t2, hc, hs⟩ := hcalls m hm
            obtain ⟨n, hn, hnr⟩ := (ih _ _ _ _ _ _ _ _ (hmvlen m hm) hc).1 rc hrcm
            exact ⟨n, List.mem_cons_of_mem _ (hs n hn), hnr⟩
        · intro n hn
          rcases List.mem_cons.mp hn with hn | hn
          · subst hn
            refine ⟨fun rid hrid => ?_, fun s hs => ?_⟩
            · simp only [List.mem_map] at hrid
              obtain ⟨rc, hrc, rfl⟩ := hrid
              exact ⟨rc, (List.mem_filter.mp hrc).1, rfl⟩
            · simp only [List.mem_flatMap] at hs
              obtain ⟨rc, hrc, hsr⟩ := hs
              exact ⟨rc, (List.mem_filter.mp hrc).1, hsr⟩
          · obtain ⟨m, hm, b, t, s, t2, hc, hns⟩ := hfrom n hn
            have hsub := (ih _ _ _ _ _ _ _ _ (hmvlen m hm) hc).2 n hns
            refine ⟨fun rid hrid => ?_, fun s' hs' => ?_⟩
            · obtain ⟨rc, hrc, hid⟩ := hsub.1 rid hrid
              exact ⟨rc, (List.mem_filter.mp (hmvctx m hm rc hrc)).1, hid⟩
            · obtain ⟨rc, hrc, hid⟩ := hsub.2 s' hs'
              exact ⟨rc, (List.mem_filter.mp (hmvctx m hm rc hrc)).1, hid⟩

/-! ### pass 5 -/

theorem signersOfStr_ok_ne {pool : List PreNode} : ∀ {l : List String} {ks : List Nat},
    signersOfStr pool l = .ok ks → ∀ rid ∈ l, ruleNodeIds pool rid ≠ [] := by
  intro l
  induction l with
  | nil => intro ks _ rid h; simp at h
  | cons r0 r ih =>
    intro ks h rid hr
    unfold signersOfStr at h
    split at h
    · simp at h
    · rename_i k0 ks0 hids
      split at h
      · simp at h
      · rename_i rest hrest
        rcases List.mem_cons.mp hr with hr | hr
        · subst hr; rw [hids]; simp
        · exact ih hrest rid hr

/-- **a signer must be the identifier of a rule** (after temporary rules were renamed) -/
theorem compile_ok_signers (S : Schema) (res : Model × List String) (h : compile S = .ok res)
    (r : SRule) (hr : r ∈ S.rules) (s : String) (hs : s ∈ r.sign) : s ∈ ruleIds (renameTemps S.rules 1) := by
  unfold compile at h
  split at h
  · simp at h
  · rename_i chains named hch
    split at h
    · simp at h
    · rename_i m hb
      clear h
      unfold chainsOf at hch
      split at hch
      · simp at hch
      · rename_i rules hsort
        split at hch
        · simp at hch
        · rename_i nrules named' hnum
          split at hch
          · simp at hch
          · rename_i rep hrep
            injection hch with hch
            simp only [Prod.mk.injEq] at hch
            obtain ⟨rfl, rfl⟩ := hch
            have hperm := sortRuleReferences_perm S rules hsort
            obtain ⟨hfw, hbw⟩ := genPatternNumbers_rules hnum
            obtain ⟨_, _, h3, h4⟩ := replicateLoop_has nrules [] _ rep (by intro p hp; simp at hp) hrep
            -- the chain of `r`
            obtain ⟨r', hr', _, _, hsg, _⟩ := renameTemps_mem (k := 1) hr
            obtain ⟨nr, hnr, _, hnsg⟩ := hfw r' (hperm.mem_iff.mpr hr')
            obtain ⟨c, ⟨v, hv, hcv⟩, hcs, _⟩ := h3 nr hnr
            have hcall : c ∈ allChains rep := mem_allChains.mpr ⟨_, PyDict.mem_of_get? _ _ _ hv, hcv⟩
            have hsc : s ∈ c.sign := by rw [hcs, mem_isort, hnsg, hsg]; exact hs
            -- the pool
            unfold buildModel at hb
            split at hb
            · simp at hb
            · rename_i pool tidx hg
              split at hb
              · simp at hb
              · rename_i nodes hfix
                obtain ⟨hends, hnames⟩ := genNode_ends _ _ _ _ _ _ _ _ _ (fun c _ => Nat.zero_le _) hg
                obtain ⟨n, hn, _, hsn⟩ := hends c hcall
                obtain ⟨node, _, hf⟩ := mapE_ok_mem hfix n hn
                obtain ⟨_, _, _, _, _, ks, hks, _⟩ := fixNode_ok hf
                have hne := signersOfStr_ok_ne hks s (hsn s hsc)
                obtain ⟨k, hk⟩ := List.exists_mem_of_ne_nil _ hne
                obtain ⟨n', hn', _, hsr⟩ := mem_ruleNodeIds hk
                obtain ⟨rc, hrc, hid⟩ := (hnames n' hn').1 s hsr
                obtain ⟨p, hp, hcp⟩ := mem_allChains.mp hrc
                rcases h4 p hp rc hcp with ⟨q, hq, _⟩ | ⟨x, hx, hcx, _⟩
                · simp at hq
                · obtain ⟨x0, hx0, hxid, _⟩ := hbw x hx
                  rw [mem_ruleIds]
                  exact ⟨x0, hperm.mem_iff.mp hx0, by rw [← hxid, ← hcx, hid]⟩

end Ndn.Lvs
