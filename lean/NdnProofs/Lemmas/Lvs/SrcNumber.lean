import NdnProofs.Lemmas.Lvs.CompileTags
import NdnModel.Lvs.SrcSem
/-!
  Pass 2 (`_gen_pattern_numbers`), characterised component by component: a named pattern gets the same number
  everywhere (its position in the final `named_pats` + 1), every occurrence of a temporary pattern gets a negative
  number of its own, and `temp_pats[_x]` lists exactly the numbers of the occurrences of `_x` in the rule.
-/
namespace Ndn.Lvs

/-- two lists related position by position -/
inductive All2 {α β : Type} (R : α → β → Prop) : List α → List β → Prop
  | nil : All2 R [] []
  | cons {a b as bs} : R a b → All2 R as bs → All2 R (a :: as) (b :: bs)

theorem All2.zip {α β : Type} {R : α → β → Prop} {l₁ : List α} {l₂ : List β} (h : All2 R l₁ l₂) :
    ∀ a b, (a, b) ∈ l₁.zip l₂ → R a b := by
  induction h with
  | nil => intro a b hm; simp at hm
  | cons hr _ ih =>
    intro a b hm
    simp only [List.zip_cons_cons, List.mem_cons, Prod.mk.injEq] at hm
    rcases hm with ⟨rfl, rfl⟩ | hm
    · exact hr
    · exact ih a b hm

theorem All2.imp_zip {α β : Type} {R R' : α → β → Prop} {l₁ : List α} {l₂ : List β} (h : All2 R l₁ l₂)
    (himp : ∀ a b, (a, b) ∈ l₁.zip l₂ → R a b → R' a b) : All2 R' l₁ l₂ := by
  induction h with
  | nil => exact .nil
  | cons hr _ ih =>
    refine .cons (himp _ _ (by simp) hr) (ih fun a b hm hr' => himp a b ?_ hr')
    simp only [List.zip_cons_cons, List.mem_cons]
    exact Or.inr hm

theorem All2.length {α β : Type} {R : α → β → Prop} {l₁ : List α} {l₂ : List β} (h : All2 R l₁ l₂) :
    l₁.length = l₂.length := by
  induction h with
  | nil => rfl
  | cons _ _ ih => simp [ih]

/-- the number of the named pattern `p` in the table `F` -/
def tagIn (F : List String) (p : String) : Int := Int.ofNat (F.idxOf p + 1)

/-- the negative (temporary) numbers written in a numbered name -/
def negsOf (l : List (Comp Int)) : List Int := (patsOf l).filter (· < 0)

/-- the numbers given to the occurrences of the temporary identifier `p` -/
def occT (p : String) : List (Comp String) → List (Comp Int) → List Int
  | c :: cs, o :: os =>
    (match c, o with
     | .pat q, .pat t => if isTempPat q && q == p then [t] else []
     | _, _ => []) ++ occT p cs os
  | _, _ => []

/-- how one component is numbered (w.r.t. the final table `F`) -/
inductive CompNum0 (F : List String) : Comp String → Comp Int → Prop
  | lit (v : Bytes) : CompNum0 F (.lit v) (.lit v)
  | ref (q : String) : CompNum0 F (.ref q) (.ref q)
  | named (p : String) : isTempPat p = false → p ∈ F → CompNum0 F (.pat p) (.pat (tagIn F p))
  | temp (p : String) (t : Int) : isTempPat p = true → t < 0 → CompNum0 F (.pat p) (.pat t)

theorem negsOf_cons_pat (t : Int) (l : List (Comp Int)) :
    negsOf (.pat t :: l) = if t < 0 then t :: negsOf l else negsOf l := by
  unfold negsOf patsOf
  simp only [List.filterMap_cons, List.filter_cons]
  split <;> simp_all

theorem negsOf_cons_lit (v : Bytes) (l : List (Comp Int)) : negsOf (.lit v :: l) = negsOf l := by
  unfold negsOf patsOf
  simp only [List.filterMap_cons]

theorem negsOf_cons_ref (q : String) (l : List (Comp Int)) : negsOf (.ref q :: l) = negsOf l := by
  unfold negsOf patsOf
  simp only [List.filterMap_cons]

theorem tagIn_append_of_mem {A B : List String} {p : String} (h : p ∈ A) : tagIn (A ++ B) p = tagIn A p := by
  unfold tagIn
  rw [List.idxOf_append]
  simp [h]

theorem tagIn_new {A B : List String} {p : String} (h : p ∉ A) : tagIn (A ++ p :: B) p = Int.ofNat (A.length + 1) := by
  unfold tagIn
  rw [List.idxOf_append]
  simp [h]

/-- the inner loop of `_gen_pattern_numbers` -/
theorem numberName_num (comps : List (Comp String)) : ∀ (st : NumSt) (tp : PyDict String (List Int))
    (out : List (Comp Int)) (st' : NumSt) (tp' : PyDict String (List Int)),
    numberName comps st tp = (out, st', tp') → st.named.Nodup → st.nextTemp < 0 →
    st'.named.Nodup ∧ (∃ ext, st'.named = st.named ++ ext) ∧ st'.nextTemp ≤ st.nextTemp ∧
    (∀ F : List String, F.Nodup → (∃ ext, F = st'.named ++ ext) → All2 (CompNum0 F) comps out) ∧
    (∀ t ∈ negsOf out, st'.nextTemp < t ∧ t ≤ st.nextTemp) ∧ (negsOf out).Nodup ∧
    (∀ p, (PyDict.get? tp' p).getD [] = (PyDict.get? tp p).getD [] ++ occT p comps out) := by
  induction comps with
  | nil =>
    intro st tp out st' tp' h hnd hneg
    simp only [numberName, Prod.mk.injEq] at h
    obtain ⟨rfl, rfl, rfl⟩ := h
    refine ⟨hnd, ⟨[], by simp⟩, Int.le_refl _, fun _ _ _ => .nil, by simp [negsOf, patsOf], by simp [negsOf, patsOf], ?_⟩
    intro p; simp [occT]
  | cons c r ih =>
    intro st tp out st' tp' h hnd hneg
    cases c with
    | lit v =>
      simp only [numberName] at h
      rcases hr : numberName r st tp with ⟨a, b, d⟩
      rw [hr] at h
      simp only [Prod.mk.injEq] at h
      obtain ⟨rfl, rfl, rfl⟩ := h
      obtain ⟨h1, h2, h3, h4, h5, h6, h7⟩ := ih st tp a b d hr hnd hneg
      refine ⟨h1, h2, h3, fun F hF he => .cons (.lit v) (h4 F hF he), ?_, ?_, ?_⟩
      · rw [negsOf_cons_lit]; exact h5
      · rw [negsOf_cons_lit]; exact h6
      · intro p; rw [h7 p]; simp [occT]
    | ref q =>
      simp only [numberName] at h
      rcases hr : numberName r st tp with ⟨a, b, d⟩
      rw [hr] at h
      simp only [Prod.mk.injEq] at h
      obtain ⟨rfl, rfl, rfl⟩ := h
      obtain ⟨h1, h2, h3, h4, h5, h6, h7⟩ := ih st tp a b d hr hnd hneg
      refine ⟨h1, h2, h3, fun F hF he => .cons (.ref q) (h4 F hF he), ?_, ?_, ?_⟩
      · rw [negsOf_cons_ref]; exact h5
      · rw [negsOf_cons_ref]; exact h6
      · intro p; rw [h7 p]; simp [occT]
    | pat p =>
      simp only [numberName] at h
      split at h
      · -- a temporary pattern
        rename_i htmp
        generalize hr : numberName r _ _ = res at h
        obtain ⟨a, b, d⟩ := res
        simp only [Prod.mk.injEq] at h
        obtain ⟨rfl, rfl, rfl⟩ := h
        obtain ⟨h1, h2, h3, h4, h5, h6, h7⟩ := ih _ _ a b d hr hnd (show st.nextTemp - 1 < 0 by omega)
        simp only [] at h2 h3 h5
        refine ⟨h1, h2, by omega, fun F hF he => .cons (.temp p _ htmp hneg) (h4 F hF he), ?_, ?_, ?_⟩
        · intro t ht
          rw [negsOf_cons_pat] at ht
          simp only [hneg, if_true, List.mem_cons] at ht
          rcases ht with rfl | ht
          · omega
          · have := h5 t ht; omega
        · rw [negsOf_cons_pat]
          simp only [hneg, if_true, List.nodup_cons]
          exact ⟨fun hm => by have := h5 _ hm; omega, h6⟩
        · intro p'
          rw [h7 p', PyDict.get?_set]
          by_cases hpp : p = p'
          · subst hpp
            simp only [if_true, Option.getD_some, occT, htmp, Bool.true_and, beq_self_eq_true, List.append_assoc,
              List.singleton_append]
            cases PyDict.get? tp p <;> simp
          · simp only [hpp, if_false, occT, htmp, Bool.true_and]
            have : (p == p') = false := by simpa using hpp
            simp [this]
      · rename_i htmp
        have htmp' : isTempPat p = false := by simpa using htmp
        split at h
        · -- a named pattern seen before
          rename_i k hk
          rcases hr : numberName r st tp with ⟨a, b, d⟩
          rw [hr] at h
          simp only [Prod.mk.injEq] at h
          obtain ⟨rfl, rfl, rfl⟩ := h
          obtain ⟨h1, h2, h3, h4, h5, h6, h7⟩ := ih st tp a b d hr hnd hneg
          have hmem : p ∈ st.named := by
            unfold tagOf at hk
            split at hk
            · rename_i hc; simpa using hc
            · simp at hk
          have hkv : Int.ofNat k = tagIn st.named p := by
            unfold tagOf at hk
            split at hk
            · injection hk with hk; subst hk; rfl
            · simp at hk
          have hknn : ¬ Int.ofNat k < 0 := by simp
          refine ⟨h1, h2, h3, fun F hF he => ?_, ?_, ?_, ?_⟩
          · obtain ⟨ext, hext⟩ := h2
            obtain ⟨ext', hext'⟩ := he
            have hFe : F = st.named ++ (ext ++ ext') := by rw [hext', hext, List.append_assoc]
            have : Int.ofNat k = tagIn F p := by rw [hkv, hFe, tagIn_append_of_mem hmem]
            rw [this]
            exact .cons (.named p htmp' (by rw [hFe]; exact List.mem_append_left _ hmem)) (h4 F hF ⟨ext', hext'⟩)
          · rw [negsOf_cons_pat]; simp only [hknn, if_false]; exact h5
          · rw [negsOf_cons_pat]; simp only [hknn, if_false]; exact h6
          · intro p'; rw [h7 p']; simp [occT, htmp']
        · -- a new named pattern
          rename_i hk
          have hnm : p ∉ st.named := by
            intro hm
            unfold tagOf at hk
            simp [hm] at hk
          rcases hr : numberName r { st with named := st.named ++ [p] } tp with ⟨a, b, d⟩
          rw [hr] at h
          simp only [Prod.mk.injEq] at h
          obtain ⟨rfl, rfl, rfl⟩ := h
          have hnd' : (st.named ++ [p]).Nodup := by
            rw [List.nodup_append]
            refine ⟨hnd, by simp, fun x hx y hy => ?_⟩
            simp at hy; subst hy
            exact fun he => hnm (he ▸ hx)
          obtain ⟨h1, h2, h3, h4, h5, h6, h7⟩ := ih _ tp a b d hr hnd' hneg
          simp only [] at h2 h3 h5
          have hknn : ¬ Int.ofNat (st.named.length + 1) < 0 := by simp only [Int.ofNat_eq_natCast]; omega
          obtain ⟨ext, hext⟩ := h2
          refine ⟨h1, ⟨[p] ++ ext, by rw [hext, List.append_assoc]⟩, h3, fun F hF he => ?_, ?_, ?_, ?_⟩
          · obtain ⟨ext', hext'⟩ := he
            have hFe : F = st.named ++ p :: (ext ++ ext') := by rw [hext', hext]; simp
            have : Int.ofNat (st.named.length + 1) = tagIn F p := by rw [hFe, tagIn_new hnm]
            rw [this]
            exact .cons (.named p htmp' (by rw [hFe]; simp)) (h4 F hF ⟨ext', hext'⟩)
          · rw [negsOf_cons_pat]; simp only [hknn, if_false]; exact h5
          · rw [negsOf_cons_pat]; simp only [hknn, if_false]; exact h6
          · intro p'; rw [h7 p']; simp [occT, htmp']

/-! ### per rule: `temp_pats` -/

theorem mem_occT {p : String} {t : Int} : ∀ {comps : List (Comp String)} {out : List (Comp Int)},
    t ∈ occT p comps out ↔ isTempPat p = true ∧ (Comp.pat p, Comp.pat t) ∈ comps.zip out := by
  intro comps
  induction comps with
  | nil => intro out; simp [occT]
  | cons c cs ih =>
    intro out
    cases out with
    | nil => simp [occT]
    | cons o os =>
      simp only [occT, List.mem_append, List.zip_cons_cons, List.mem_cons, Prod.mk.injEq, ih]
      constructor
      · rintro (h | h)
        · cases c <;> cases o <;> simp at h
          rename_i q t'
          obtain ⟨⟨h1, h2⟩, h3⟩ := h
          subst h2; subst h3
          exact ⟨h1, Or.inl ⟨rfl, rfl⟩⟩
        · exact ⟨h.1, Or.inr h.2⟩
      · rintro ⟨h1, ⟨h2, h3⟩ | h2⟩
        · subst h2; subst h3
          left; simp [h1]
        · exact Or.inr ⟨h1, h2⟩

theorem mem_negsOf {l : List (Comp Int)} {t : Int} : t ∈ negsOf l ↔ Comp.pat t ∈ l ∧ t < 0 := by
  unfold negsOf patsOf
  simp only [List.mem_filter, List.mem_filterMap, decide_eq_true_eq]
  constructor
  · rintro ⟨⟨c, hc, h⟩, h2⟩
    cases c <;> simp at h
    subst h; exact ⟨hc, h2⟩
  · rintro ⟨h1, h2⟩
    exact ⟨⟨_, h1, rfl⟩, h2⟩

/-- a temporary number stands at one position only -/
theorem zip_temp_inj {F : List String} {comps : List (Comp String)} {out : List (Comp Int)}
    (h : All2 (CompNum0 F) comps out) (hnd : (negsOf out).Nodup) {a a' : Comp String} {t : Int} (ht : t < 0)
    (h1 : (a, Comp.pat t) ∈ comps.zip out) (h2 : (a', Comp.pat t) ∈ comps.zip out) : a = a' := by
  induction h with
  | nil => simp at h1
  | cons hr hrest ih =>
    rename_i c o cs os
    simp only [List.zip_cons_cons, List.mem_cons, Prod.mk.injEq] at h1 h2
    have htail : ∀ x, (x, Comp.pat t) ∈ cs.zip os → t ∈ negsOf os := fun x hx =>
      mem_negsOf.mpr ⟨(List.of_mem_zip hx).2, ht⟩
    have hnd' : (negsOf os).Nodup ∧ (o = Comp.pat t → t ∉ negsOf os) := by
      cases o with
      | lit v => rw [negsOf_cons_lit] at hnd; exact ⟨hnd, by simp⟩
      | ref q => rw [negsOf_cons_ref] at hnd; exact ⟨hnd, by simp⟩
      | pat t' =>
        rw [negsOf_cons_pat] at hnd
        split at hnd
        · rw [List.nodup_cons] at hnd
          exact ⟨hnd.2, fun he => by injection he with he; subst he; exact hnd.1⟩
        · rename_i hn
          exact ⟨hnd, fun he => by injection he with he; subst he; exact absurd ht hn⟩
    rcases h1 with ⟨rfl, ho⟩ | h1
    · rcases h2 with ⟨rfl, _⟩ | h2
      · rfl
      · exact absurd (htail _ h2) (hnd'.2 ho.symm)
    · rcases h2 with ⟨rfl, ho⟩ | h2
      · exact absurd (htail _ h1) (hnd'.2 ho.symm)
      · exact ih hnd'.1 h1 h2

/-- how one component is numbered, with what `temp_pats` of the rule (`tp`) records for a temporary pattern -/
inductive CompNum (F : List String) (tp : PyDict String (List Int)) : Comp String → Comp Int → Prop
  | lit (v : Bytes) : CompNum F tp (.lit v) (.lit v)
  | ref (q : String) : CompNum F tp (.ref q) (.ref q)
  | named (p : String) : isTempPat p = false → p ∈ F → CompNum F tp (.pat p) (.pat (tagIn F p))
  | temp (p : String) (t : Int) : isTempPat p = true → t < 0 →
      (∀ p' l, PyDict.get? tp p' = some l → (t ∈ l ↔ p' = p)) → CompNum F tp (.pat p) (.pat t)

/-- every number recorded in `temp_pats` is written in the numbered name -/
def TpNegs (tp : PyDict String (List Int)) (out : List (Comp Int)) : Prop :=
  ∀ p l, PyDict.get? tp p = some l → ∀ t ∈ l, t ∈ negsOf out

theorem compNum_of_tp {F : List String} {comps : List (Comp String)} {out : List (Comp Int)}
    {tp : PyDict String (List Int)} (h : All2 (CompNum0 F) comps out) (hnd : (negsOf out).Nodup)
    (htp : ∀ p, (PyDict.get? tp p).getD [] = occT p comps out) :
    All2 (CompNum F tp) comps out ∧ TpNegs tp out := by
  constructor
  · refine h.imp_zip fun a b hm hr => ?_
    cases hr with
    | lit v => exact .lit v
    | ref q => exact .ref q
    | named p h1 h2 => exact .named p h1 h2
    | temp p t h1 h2 =>
      refine .temp p t h1 h2 fun p' l hl => ?_
      have hl' : l = occT p' comps out := by rw [← htp p', hl]; rfl
      rw [hl', mem_occT]
      constructor
      · intro ⟨_, hz⟩
        have := zip_temp_inj h hnd h2 hm hz
        injection this with this
        exact this.symm
      · rintro rfl; exact ⟨h1, hm⟩
  · intro p l hl t ht
    have hl' : l = occT p comps out := by rw [← htp p, hl]; rfl
    rw [hl', mem_occT] at ht
    have hr := h.zip _ _ ht.2
    cases hr with
    | named _ h1 _ => rw [ht.1] at h1; simp at h1
    | temp _ _ _ h2 => exact mem_negsOf.mpr ⟨(List.of_mem_zip ht.2).2, h2⟩

/-! ### the loop over the rules -/

theorem numberNames_num (rules : List SRule) : ∀ (st : NumSt)
    (xs : List (SRule × List (Comp Int) × PyDict String (List Int))) (st' : NumSt),
    numberNames rules st = (xs, st') → st.named.Nodup → st.nextTemp < 0 →
    st'.named.Nodup ∧ (∃ ext, st'.named = st.named ++ ext) ∧ st'.nextTemp ≤ st.nextTemp ∧
    (∀ F : List String, F.Nodup → (∃ ext, F = st'.named ++ ext) →
      All2 (fun r x => x.1 = r ∧ All2 (CompNum F x.2.2) r.name x.2.1 ∧ TpNegs x.2.2 x.2.1) rules xs) ∧
    (∀ x ∈ xs, ∀ t ∈ negsOf x.2.1, st'.nextTemp < t ∧ t ≤ st.nextTemp) ∧
    (xs.flatMap (fun x => negsOf x.2.1)).Nodup := by
  induction rules with
  | nil =>
    intro st xs st' h hnd hneg
    simp only [numberNames, Prod.mk.injEq] at h
    obtain ⟨rfl, rfl⟩ := h
    exact ⟨hnd, ⟨[], by simp⟩, Int.le_refl _, fun _ _ _ => .nil, by simp, by simp⟩
  | cons r rs ih =>
    intro st xs st' h hnd hneg
    simp only [numberNames] at h
    rcases hr : numberName r.name st [] with ⟨a, b, d⟩
    rw [hr] at h
    simp only [] at h
    rcases hrs : numberNames rs b with ⟨ys, st2⟩
    rw [hrs] at h
    simp only [Prod.mk.injEq] at h
    obtain ⟨rfl, rfl⟩ := h
    obtain ⟨a1, ⟨e1, he1⟩, a3, a4, a5, a6, a7⟩ := numberName_num r.name st [] a b d hr hnd hneg
    obtain ⟨b1, ⟨e2, he2⟩, b3, b4, b5, b6⟩ := ih b ys _ hrs a1 (by omega)
    refine ⟨b1, ⟨e1 ++ e2, by rw [he2, he1, List.append_assoc]⟩, by omega, fun F hF he => ?_, ?_, ?_⟩
    · obtain ⟨ext, hext⟩ := he
      have hFa : ∃ ext', F = b.named ++ ext' := ⟨e2 ++ ext, by rw [hext, he2, List.append_assoc]⟩
      have hc := compNum_of_tp (tp := d) (a4 F hF hFa) a6 (fun p => by rw [a7 p]; simp [PyDict.get?])
      exact .cons ⟨rfl, hc.1, hc.2⟩ (b4 F hF ⟨ext, hext⟩)
    · intro x hx t ht
      rcases List.mem_cons.mp hx with rfl | hx
      · have := a5 t ht; omega
      · have := b5 x hx t ht; omega
    · rw [List.flatMap_cons, List.nodup_append]
      refine ⟨a6, b6, fun t ht u hu => ?_⟩
      rw [List.mem_flatMap] at hu
      obtain ⟨x, hx, hu⟩ := hu
      have h1 := a5 t ht
      have h2 := b5 x hx u hu
      omega

/-! ### the whole pass -/

/-- source rule `r` and its numbered form `nr` -/
def RuleNum (F : List String) (r : SRule) (nr : NRule) : Prop :=
  nr.id = r.id ∧ nr.sign = r.sign ∧ ∃ tp : PyDict String (List Int),
    All2 (CompNum F tp) r.name nr.name ∧ TpNegs tp nr.name ∧
    mapE (mapE (numTerm F tp)) r.cons = .ok nr.cons

theorem mapE_all2 {α β ε : Type} {f : α → Except ε β} : ∀ {l : List α} {bs : List β}, mapE f l = .ok bs →
    All2 (fun a b => f a = .ok b) l bs := by
  intro l
  induction l with
  | nil => intro bs h; simp [mapE] at h; subst h; exact .nil
  | cons a r ih =>
    intro bs h
    unfold mapE at h
    split at h
    · simp at h
    · rename_i b hb
      split at h
      · simp at h
      · rename_i bs' hbs
        injection h with h; subst h
        exact .cons hb (ih hbs)

theorem All2.trans {α β γ : Type} {R : α → β → Prop} {Q : β → γ → Prop} {T : α → γ → Prop}
    (hT : ∀ a b c, R a b → Q b c → T a c) : ∀ {l₁ : List α} {l₂ : List β} {l₃ : List γ},
    All2 R l₁ l₂ → All2 Q l₂ l₃ → All2 T l₁ l₃ := by
  intro l₁ l₂ l₃ h1
  induction h1 generalizing l₃ with
  | nil => intro h2; cases h2; exact .nil
  | cons hr _ ih => intro h2; cases h2 with | cons hq hrest => exact .cons (hT _ _ _ hr hq) (ih hrest)

theorem foldl_min_le_mem (l : List Int) : ∀ (a : Int), ∀ t ∈ l, l.foldl min a ≤ t := by
  induction l with
  | nil => intro a t ht; simp at ht
  | cons x r ih =>
    intro a t ht
    simp only [List.foldl_cons]
    rcases List.mem_cons.mp ht with rfl | ht
    · exact Int.le_trans (foldl_min_le r _) (Int.min_le_right _ _)
    · exact ih _ t ht

theorem flatMap_negs_eq {xs : List (SRule × List (Comp Int) × PyDict String (List Int))} {nrs : List NRule}
    (h : All2 (fun (x : SRule × List (Comp Int) × PyDict String (List Int)) (nr : NRule) => nr.name = x.2.1) xs nrs) :
    nrs.flatMap (fun nr => negsOf nr.name) = xs.flatMap (fun x => negsOf x.2.1) := by
  induction h with
  | nil => rfl
  | cons hr _ ih => simp only [List.flatMap_cons, ih, hr]

/-- **pass 2**: the final table has no repetition, every rule is numbered component by component against it, the
    numbers of temporary patterns are pairwise distinct (over all rules) and above the first fresh number of pass 3 -/
theorem genPatternNumbers_num {rules : List SRule} {nrules : List NRule} {F : List String}
    (h : genPatternNumbers rules = .ok (nrules, F)) :
    F.Nodup ∧ All2 (RuleNum F) rules nrules ∧ (nrules.flatMap (fun nr => negsOf nr.name)).Nodup ∧
    ∀ nr ∈ nrules, ∀ t ∈ negsOf nr.name, firstFreshTemp nrules < t := by
  unfold genPatternNumbers at h
  split at h
  rename_i xs st hx
  split at h
  · simp at h
  · rename_i nrs hn
    injection h with h
    simp only [Prod.mk.injEq] at h
    obtain ⟨rfl, rfl⟩ := h
    obtain ⟨h1, _, _, h4, _, h6⟩ := numberNames_num rules { named := [], nextTemp := -1 } xs st hx (by simp) (by simp)
    have hA := h4 st.named h1 ⟨[], by simp⟩
    have hB := mapE_all2 hn
    have hnames : All2 (fun (x : SRule × List (Comp Int) × PyDict String (List Int)) (nr : NRule) => nr.name = x.2.1) xs nrs :=
      hB.imp_zip fun x nr _ hf => (numRule_fields hf).2.2
    have hflat : nrs.flatMap (fun nr => negsOf nr.name) = xs.flatMap (fun x => negsOf x.2.1) := flatMap_negs_eq hnames
    refine ⟨h1, ?_, hflat ▸ h6, ?_⟩
    · refine All2.trans ?_ hA hB
      intro r x nr ⟨hxr, hc, htp⟩ hf
      obtain ⟨i1, i2, i3⟩ := numRule_fields hf
      subst hxr
      refine ⟨i1, i2, x.2.2, i3 ▸ hc, i3 ▸ htp, ?_⟩
      unfold numRule at hf
      split at hf
      · simp at hf
      · rename_i cons hcons
        injection hf with hf; subst hf
        exact hcons
    · intro nr hnr t ht
      unfold firstFreshTemp
      have hm : t ∈ nrs.flatMap (fun r => patsOf r.name) :=
        List.mem_flatMap.mpr ⟨nr, hnr, (List.mem_filter.mp ht).1⟩
      have := foldl_min_le_mem _ 0 t hm
      omega

end Ndn.Lvs
