import NdnModel.Lvs.Compile
import Std.Data.String.ToInt
/-!
  The text of the merge key `RuleChain.pattern_movement` builds (`argStr`, `optStr`, `termStr`, `pmove`), read
  as a list of characters, parses back uniquely:

  * a number is printed in decimal (`-`, `0`–`9`), a literal in lowercase hex (`0`–`9`, `a`–`f`; the model writes
    the empty literal `-`): *atom characters*; both printings are injective;
  * an atom is introduced by `v=` / `t=` and is followed by a character that is not an atom character
    (`v`, `t`, `)`, `,`) or by the end of the text (`span_unique`: the longest run of atom characters);
  * a user-function call is `name(args)`; options end with `,`, a constraint is `{…}`, the tag ends with `:`.

  The only text in the key that is not generated from a fixed alphabet is the user-function name.  The key is
  injective as soon as no name contains `(`, `,` or `}` (`FnNameOK`; the grammar gives `$` + C identifier), and it
  is NOT injective without that (`Ndn.C11.keyInj_counterexample`).
-/
namespace Ndn.Lvs

/-- the characters of a printed number or literal: `0`–`9`, `a`–`f`, `-` -/
def atomCh (c : Char) : Bool := c.isDigit || (decide ('a' ≤ c) && decide (c ≤ 'f')) || c == '-'

/-- what the key needs of a user-function name: none of the separators `(` `,` `}` occurs in it
    (`grammar.py`: `FN_IDENT: "$" CNAME`, so a name is `$` followed by letters, digits and `_`) -/
def FnNameOK (f : String) : Prop := ∀ c ∈ f.toList, c ≠ '(' ∧ c ≠ ',' ∧ c ≠ '}'

instance (f : String) : Decidable (FnNameOK f) := by unfold FnNameOK; infer_instance

/-- every user-function name among the options is free of separators -/
def OptsFnOK (os : List (Opt Int)) : Prop := ∀ f args, Opt.fn f args ∈ os → FnNameOK f

/-! ### the longest run of characters of a class -/

/-- `a` and `a'` consist of characters of the class `p`; what follows each of them does not start with a character
    of the class: then the two decompositions of the same text agree -/
theorem span_unique {p : Char → Bool} : ∀ (a a' x y : List Char), (∀ c ∈ a, p c = true) → (∀ c ∈ a', p c = true) →
    (∀ c ∈ x.head?, p c = false) → (∀ c ∈ y.head?, p c = false) → a ++ x = a' ++ y → a = a' ∧ x = y := by
  intro a
  induction a with
  | nil =>
    intro a' x y _ ha' hx _ h
    cases a' with
    | nil => exact ⟨rfl, by simpa using h⟩
    | cons c r =>
      exfalso
      simp only [List.nil_append] at h
      subst h
      have h1 := hx c (by simp)
      have h2 := ha' c List.mem_cons_self
      rw [h1] at h2; cases h2
  | cons c r ih =>
    intro a' x y ha ha' hx hy h
    cases a' with
    | nil =>
      exfalso
      simp only [List.nil_append] at h
      subst h
      have h1 := hy c (by simp)
      have h2 := ha c List.mem_cons_self
      rw [h1] at h2; cases h2
    | cons c' r' =>
      simp only [List.cons_append, List.cons.injEq] at h
      obtain ⟨rfl, h⟩ := h
      obtain ⟨h1, h2⟩ := ih r' x y (fun d hd => ha d (List.mem_cons_of_mem _ hd))
        (fun d hd => ha' d (List.mem_cons_of_mem _ hd)) hx hy h
      exact ⟨by rw [h1], h2⟩

/-- tokens `g a` that do not contain `s`, each followed by `s`: the concatenation determines the list -/
theorem flatMap_term_inj {α : Type} (g : α → List Char) (s : Char) (P : α → Prop) (hs : ∀ a, P a → s ∉ g a)
    (hinj : ∀ a b, P a → P b → g a = g b → a = b) : ∀ (l l' : List α), (∀ a ∈ l, P a) → (∀ a ∈ l', P a) →
    l.flatMap (fun a => g a ++ [s]) = l'.flatMap (fun a => g a ++ [s]) → l = l' := by
  intro l
  induction l with
  | nil =>
    intro l' _ _ h
    cases l' with
    | nil => rfl
    | cons b r => simp at h
  | cons a r ih =>
    intro l' hl hl' h
    cases l' with
    | nil => simp at h
    | cons b r' =>
      simp only [List.flatMap_cons, List.append_assoc] at h
      have hsa := hs a (hl a List.mem_cons_self)
      have hsb := hs b (hl' b List.mem_cons_self)
      obtain ⟨h1, h2⟩ := span_unique (p := fun c => c != s) (g a) (g b) _ _
        (fun c hc => by simp only [bne_iff_ne, ne_eq]; intro e; exact hsa (e ▸ hc))
        (fun c hc => by simp only [bne_iff_ne, ne_eq]; intro e; exact hsb (e ▸ hc))
        (fun c hc => by simp at hc; subst hc; simp) (fun c hc => by simp at hc; subst hc; simp) h
      have hab := hinj a b (hl a List.mem_cons_self) (hl' b List.mem_cons_self) h1
      subst hab
      simp only [List.singleton_append, List.cons.injEq, true_and] at h2
      rw [ih r' (fun x hx => hl x (List.mem_cons_of_mem _ hx)) (fun x hx => hl' x (List.mem_cons_of_mem _ hx)) h2]

/-! ### numbers -/

theorem atomCh_of_isDigit {c : Char} (h : c.isDigit = true) : atomCh c = true := by simp [atomCh, h]

theorem nat_repr_atomCh (n : Nat) : ∀ c ∈ n.repr.toList, atomCh c = true := by
  intro c hc
  rw [Nat.toList_repr] at hc
  exact atomCh_of_isDigit (Nat.isDigit_of_mem_toDigits (by decide) (by decide) hc)

theorem int_toString_atomCh (t : Int) : ∀ c ∈ (toString t).toList, atomCh c = true := by
  intro c hc
  rw [Int.toString_eq_repr, Int.repr_eq_if] at hc
  split at hc
  · exact nat_repr_atomCh _ c hc
  · rw [String.toList_append] at hc
    rcases List.mem_append.mp hc with h | h
    · have : c = '-' := by simpa using h
      subst this; decide
    · exact nat_repr_atomCh _ c h

theorem int_toString_inj {a b : Int} (h : (toString a).toList = (toString b).toList) : a = b := by
  have := String.toList_injective h
  simp only [Int.toString_eq_repr] at this
  exact Int.repr_inj.mp this

/-! ### literals -/

theorem hexDigit_atomCh : ∀ n, n < 16 → atomCh (hexDigit n) = true := by decide

theorem hexDigit_ne_minus : ∀ n, n < 16 → hexDigit n ≠ '-' := by decide

theorem hexDigit_inj : ∀ i, i < 16 → ∀ j, j < 16 → hexDigit i = hexDigit j → i = j := by decide

theorem hexOfByte_inj {a b : UInt8} (h : hexOfByte a = hexOfByte b) : a = b := by
  unfold hexOfByte at h
  simp only [List.cons.injEq, and_true] at h
  have h1 := hexDigit_inj _ (by have := a.toNat_lt; omega) _ (by have := b.toNat_lt; omega) h.1
  have h2 := hexDigit_inj _ (by omega) _ (by omega) h.2
  apply UInt8.toNat_inj.mp
  omega

theorem hexBytes_inj : ∀ (v w : Bytes), v.flatMap hexOfByte = w.flatMap hexOfByte → v = w := by
  intro v
  induction v with
  | nil =>
    intro w h
    cases w with
    | nil => rfl
    | cons b r => simp [hexOfByte] at h
  | cons a r ih =>
    intro w h
    cases w with
    | nil => simp [hexOfByte] at h
    | cons b r' =>
      simp only [List.flatMap_cons, hexOfByte, List.cons_append, List.nil_append, List.cons.injEq] at h
      have hab : a = b := hexOfByte_inj (by simp [hexOfByte, h.1, h.2.1])
      rw [hab, ih r' h.2.2]

theorem toHex_toList (v : Bytes) : (toHex v).toList = if v.isEmpty then ['-'] else v.flatMap hexOfByte := by
  unfold toHex
  split
  · rfl
  · exact String.toList_ofList

theorem toHex_atomCh (v : Bytes) : ∀ c ∈ (toHex v).toList, atomCh c = true := by
  intro c hc
  rw [toHex_toList] at hc
  split at hc
  · have : c = '-' := by simpa using hc
    subst this; decide
  · rw [List.mem_flatMap] at hc
    obtain ⟨b, _, hb⟩ := hc
    unfold hexOfByte at hb
    have hlt := b.toNat_lt
    rcases List.mem_cons.mp hb with rfl | hb
    · exact hexDigit_atomCh _ (by omega)
    · have : c = hexDigit (b.toNat % 16) := by simpa using hb
      subst this
      exact hexDigit_atomCh _ (by omega)

theorem toHex_inj {v w : Bytes} (h : (toHex v).toList = (toHex w).toList) : v = w := by
  rw [toHex_toList, toHex_toList] at h
  cases v with
  | nil =>
    cases w with
    | nil => rfl
    | cons b r =>
      exfalso
      simp only [List.isEmpty_nil, if_true, List.isEmpty_cons, Bool.false_eq_true, if_false, List.flatMap_cons,
        hexOfByte, List.cons_append] at h
      injection h with h _
      exact hexDigit_ne_minus _ (by have := b.toNat_lt; omega) h.symm
  | cons a r =>
    cases w with
    | nil =>
      exfalso
      simp only [List.isEmpty_nil, if_true, List.isEmpty_cons, Bool.false_eq_true, if_false, List.flatMap_cons,
        hexOfByte, List.cons_append] at h
      injection h with h _
      exact hexDigit_ne_minus _ (by have := a.toNat_lt; omega) h
    | cons b r' =>
      simp only [List.isEmpty_cons, Bool.false_eq_true, if_false] at h
      exact hexBytes_inj _ _ h

/-! ### arguments of a user function -/

/-- the characters of `argStr a` -/
def argL (a : Arg Int) : List Char := (argStr a).toList

theorem argL_eq (a : Arg Int) : argL a = match a with
    | .lit v => 'v' :: '=' :: (toHex v).toList
    | .pat t => 't' :: '=' :: (toString t).toList := by
  cases a <;> simp [argL, argStr, String.toList_append]

/-- a character of the printed arguments: an atom character, `v`, `t` or `=` -/
def argCh (c : Char) : Bool := atomCh c || c == 'v' || c == 't' || c == '='

theorem argL_argCh (a : Arg Int) : ∀ c ∈ argL a, argCh c = true := by
  intro c hc
  rw [argL_eq] at hc
  cases a with
  | lit v =>
    simp only [List.mem_cons] at hc
    rcases hc with rfl | rfl | hc
    · decide
    · decide
    · simp [argCh, toHex_atomCh v c hc]
  | pat t =>
    simp only [List.mem_cons] at hc
    rcases hc with rfl | rfl | hc
    · decide
    · decide
    · simp [argCh, int_toString_atomCh t c hc]

theorem argsL_argCh (as : List (Arg Int)) : ∀ c ∈ as.flatMap argL, argCh c = true := by
  intro c hc
  rw [List.mem_flatMap] at hc
  obtain ⟨a, _, ha⟩ := hc
  exact argL_argCh a c ha

/-- the printed arguments do not start with an atom character -/
theorem argsL_head (as : List (Arg Int)) : ∀ c ∈ (as.flatMap argL).head?, atomCh c = false := by
  intro c hc
  cases as with
  | nil => simp at hc
  | cons a r =>
    rw [List.flatMap_cons, argL_eq] at hc
    cases a with
    | lit v => simp at hc; subst hc; decide
    | pat t => simp at hc; subst hc; decide

/-- the arguments are printed without a separator, yet the text determines them -/
theorem argsL_inj : ∀ (as bs : List (Arg Int)), as.flatMap argL = bs.flatMap argL → as = bs := by
  intro as
  induction as with
  | nil =>
    intro bs h
    cases bs with
    | nil => rfl
    | cons b r => exfalso; rw [List.flatMap_cons, argL_eq] at h; cases b <;> simp at h
  | cons a r ih =>
    intro bs h
    cases bs with
    | nil => exfalso; rw [List.flatMap_cons, argL_eq] at h; cases a <;> simp at h
    | cons b r' =>
      rw [List.flatMap_cons, List.flatMap_cons, argL_eq, argL_eq] at h
      cases a with
      | lit v =>
        cases b with
        | lit w =>
          simp only [List.cons_append, List.cons.injEq, true_and] at h
          obtain ⟨h1, h2⟩ := span_unique (p := atomCh) _ _ _ _ (toHex_atomCh v) (toHex_atomCh w)
            (argsL_head r) (argsL_head r') h
          rw [toHex_inj h1, ih r' h2]
        | pat t => simp at h
      | pat t =>
        cases b with
        | lit w => simp at h
        | pat u =>
          simp only [List.cons_append, List.cons.injEq, true_and] at h
          obtain ⟨h1, h2⟩ := span_unique (p := atomCh) _ _ _ _ (int_toString_atomCh t) (int_toString_atomCh u)
            (argsL_head r) (argsL_head r') h
          rw [int_toString_inj h1, ih r' h2]

/-! ### options -/

/-- the characters of `optStr o` -/
def optL (o : Opt Int) : List Char := (optStr o).toList

theorem optL_eq (o : Opt Int) : optL o = match o with
    | .lit v => 'v' :: '=' :: (toHex v).toList
    | .pat t => 't' :: '=' :: (toString t).toList
    | .fn f args => f.toList ++ '(' :: (args.flatMap argL ++ [')']) := by
  cases o with
  | lit v => simp [optL, optStr, String.toList_append]
  | pat t => simp [optL, optStr, String.toList_append]
  | fn f args =>
    simp only [optL, optStr, String.toList_append, String.toList_join, List.flatMap_map]
    simp
    rfl

theorem optL_lit_argCh (v : Bytes) : ∀ c ∈ optL (.lit v), argCh c = true := fun c hc => argL_argCh (.lit v) c hc

theorem optL_pat_argCh (t : Int) : ∀ c ∈ optL (.pat t), argCh c = true := fun c hc => argL_argCh (.pat t) c hc

theorem paren_mem_fn (f : String) (args : List (Arg Int)) : '(' ∈ optL (.fn f args) := by
  rw [optL_eq]; simp

/-- no separator `,` or `}` inside a printed option -/
theorem optL_no_sep (o : Opt Int) (hf : ∀ f args, o = .fn f args → FnNameOK f) :
    ∀ c ∈ optL o, c ≠ ',' ∧ c ≠ '}' := by
  intro c hc
  cases o with
  | lit v =>
    have := optL_lit_argCh v c hc
    constructor <;> (intro e; subst e; revert this; decide)
  | pat t =>
    have := optL_pat_argCh t c hc
    constructor <;> (intro e; subst e; revert this; decide)
  | fn f args =>
    rw [optL_eq] at hc
    simp only [List.mem_append, List.mem_cons, List.not_mem_nil, or_false] at hc
    rcases hc with hc | rfl | hc | rfl
    · exact (hf f args rfl c hc).2
    · decide
    · have := argsL_argCh args c hc
      constructor <;> (intro e; subst e; revert this; decide)
    · decide

/-- the text of an option determines the option -/
theorem optL_inj (o o' : Opt Int) (hf : ∀ f args, o = .fn f args → FnNameOK f)
    (hf' : ∀ f args, o' = .fn f args → FnNameOK f) (h : optL o = optL o') : o = o' := by
  have noparen : ∀ (x : Opt Int), (∀ c ∈ optL x, argCh c = true) → '(' ∉ optL x := by
    intro x hx hm
    have := hx _ hm
    revert this; decide
  cases o with
  | lit v =>
    cases o' with
    | lit w =>
      rw [optL_eq, optL_eq] at h
      simp only [List.cons.injEq, true_and] at h
      rw [toHex_inj h]
    | pat t => rw [optL_eq, optL_eq] at h; simp at h
    | fn f args => exact absurd (h ▸ paren_mem_fn f args) (noparen _ (optL_lit_argCh v))
  | pat t =>
    cases o' with
    | lit w => rw [optL_eq, optL_eq] at h; simp at h
    | pat u =>
      rw [optL_eq, optL_eq] at h
      simp only [List.cons.injEq, true_and] at h
      rw [int_toString_inj h]
    | fn f args => exact absurd (h ▸ paren_mem_fn f args) (noparen _ (optL_pat_argCh t))
  | fn f args =>
    cases o' with
    | lit w => exact absurd (h.symm ▸ paren_mem_fn f args) (noparen _ (optL_lit_argCh w))
    | pat u => exact absurd (h.symm ▸ paren_mem_fn f args) (noparen _ (optL_pat_argCh u))
    | fn g bs =>
      rw [optL_eq, optL_eq] at h
      obtain ⟨h1, h2⟩ := span_unique (p := fun c => c != '(') f.toList g.toList _ _
        (fun c hc => by simp only [bne_iff_ne, ne_eq]; exact (hf f args rfl c hc).1)
        (fun c hc => by simp only [bne_iff_ne, ne_eq]; exact (hf' g bs rfl c hc).1)
        (fun c hc => by simp at hc; subst hc; decide) (fun c hc => by simp at hc; subst hc; decide) h
      simp only [List.cons.injEq, true_and] at h2
      rw [String.toList_injective h1, argsL_inj _ _ (List.append_cancel_right h2)]

/-! ### constraints -/

/-- the characters of `termStr` without the closing brace -/
def termBody (os : List (Opt Int)) : List Char := '{' :: os.flatMap (fun o => optL o ++ [','])

theorem termStr_toList (t : NTerm) : (termStr t).toList = termBody t.opts ++ ['}'] := by
  simp only [termStr, String.toList_append, String.toList_join, List.flatMap_map, termBody]
  simp [optL]

theorem termBody_no_brace (os : List (Opt Int)) (h : OptsFnOK os) : '}' ∉ termBody os := by
  intro hm
  unfold termBody at hm
  rcases List.mem_cons.mp hm with hm | hm
  · revert hm; decide
  · rw [List.mem_flatMap] at hm
    obtain ⟨o, ho, hc⟩ := hm
    rcases List.mem_append.mp hc with hc | hc
    · exact (optL_no_sep o (fun f args e => h f args (e ▸ ho)) _ hc).2 rfl
    · revert hc; decide

theorem termBody_inj (os os' : List (Opt Int)) (h : OptsFnOK os) (h' : OptsFnOK os')
    (he : termBody os = termBody os') : os = os' := by
  unfold termBody at he
  simp only [List.cons.injEq, true_and] at he
  refine flatMap_term_inj optL ',' (fun o => ∀ f args, o = .fn f args → FnNameOK f) ?_ ?_ os os' ?_ ?_ he
  · intro o ho hm
    exact (optL_no_sep o ho _ hm).1 rfl
  · intro a b ha hb hab
    exact optL_inj a b ha hb hab
  · intro o ho f args e; exact h f args (e ▸ ho)
  · intro o ho f args e; exact h' f args (e ▸ ho)

/-- the constraint part of the key determines the options of the constraints, in order -/
theorem termStrs_inj (cs cs' : List NTerm) (h : ∀ t ∈ cs, OptsFnOK t.opts) (h' : ∀ t ∈ cs', OptsFnOK t.opts)
    (he : String.join (cs.map termStr) = String.join (cs'.map termStr)) : cs.map (·.opts) = cs'.map (·.opts) := by
  have he' := congrArg String.toList he
  simp only [String.toList_join, List.flatMap_map, termStr_toList] at he'
  have : ∀ l : List NTerm, l.flatMap (fun t => termBody t.opts ++ ['}'])
      = (l.map (·.opts)).flatMap (fun os => termBody os ++ ['}']) := by
    intro l; rw [List.flatMap_map]
  rw [this cs, this cs'] at he'
  refine flatMap_term_inj termBody '}' OptsFnOK termBody_no_brace termBody_inj _ _ ?_ ?_ he'
  · intro os hos
    rw [List.mem_map] at hos
    obtain ⟨t, ht, rfl⟩ := hos
    exact h t ht
  · intro os hos
    rw [List.mem_map] at hos
    obtain ⟨t, ht, rfl⟩ := hos
    exact h' t ht

/-! ### the key -/

/-- `str(tag) + ':' + rest` determines the tag and the rest -/
theorem tagKey_inj {t u : Int} {r s : String} (h : toString t ++ ":" ++ r = toString u ++ ":" ++ s) : t = u ∧ r = s := by
  have h' := congrArg String.toList h
  simp only [String.toList_append, List.append_assoc] at h'
  have hc : ":".toList = [':'] := by decide
  rw [hc] at h'
  obtain ⟨h1, h2⟩ := span_unique (p := atomCh) _ _ _ _ (int_toString_atomCh t) (int_toString_atomCh u)
    (fun c hc => by simp at hc; subst hc; decide) (fun c hc => by simp at hc; subst hc; decide) h'
  simp only [List.singleton_append, List.cons.injEq, true_and] at h2
  exact ⟨int_toString_inj h1, String.toList_injective h2⟩

end Ndn.Lvs
