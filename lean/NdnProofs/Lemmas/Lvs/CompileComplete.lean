import NdnProofs.Lemmas.Lvs.CompileErrors
/-!
  Completeness of the compile-time checks: a schema without any of the static errors compiles
  (no pass of the compiler model raises).
-/
namespace Ndn.Lvs

theorem mapE_ok_of_all {α β ε : Type} {f : α → Except ε β} : ∀ {l : List α}, (∀ x ∈ l, ∃ y, f x = .ok y) →
    ∃ ys, mapE f l = .ok ys := by
  intro l
  induction l with
  | nil => intro _; exact ⟨[], rfl⟩
  | cons a r ih =>
    intro h
    obtain ⟨b, hb⟩ := h a List.mem_cons_self
    obtain ⟨bs, hbs⟩ := ih (fun x hx => h x (List.mem_cons_of_mem _ hx))
    exact ⟨b :: bs, by simp [mapE, hb, hbs]⟩

/-! ### pass 1 -/

theorem isort_eq_nil {α : Type} {le : α → α → Bool} {l : List α} (h : isort le l = []) : l = [] := by
  have := (isort_perm le l).length_eq
  rw [h] at this
  exact List.eq_nil_of_length_eq_zero this.symm

/-- when `top_order` detects a loop, the nodes that remain each have a predecessor among them -/
theorem topRounds_stuck (adj : String → List String) : ∀ (f : Nat) (rem : List String),
    topRounds f rem adj = .error .semantic →
    ∃ C : List String, C ≠ [] ∧ (∀ c ∈ C, c ∈ rem) ∧ ∀ c ∈ C, ∃ p ∈ C, c ∈ adj p := by
  intro f
  induction f with
  | zero =>
    intro rem h
    cases rem with
    | nil => simp [topRounds] at h
    | cons a r => simp [topRounds] at h
  | succ f ih =>
    intro rem h
    cases rem with
    | nil => simp [topRounds] at h
    | cons a r =>
      unfold topRounds at h
      simp only [] at h
      split at h
      · rename_i hempty
        rw [List.isEmpty_iff] at hempty
        have hfil := isort_eq_nil hempty
        refine ⟨a :: r, by simp, fun c hc => hc, fun c hc => ?_⟩
        have hnz : ¬ (inDeg (a :: r) adj c == 0) = true := by
          intro h0
          have : c ∈ (a :: r).filter (fun n => inDeg (a :: r) adj n == 0) := List.mem_filter.mpr ⟨hc, h0⟩
          rw [hfil] at this
          simp at this
        have hpos : 0 < inDeg (a :: r) adj c := by
          have : inDeg (a :: r) adj c ≠ 0 := by simpa using hnz
          omega
        unfold inDeg at hpos
        rw [List.count_pos_iff, List.mem_flatMap] at hpos
        exact hpos
      · split at h
        · rename_i e he
          injection h with h
          subst h
          obtain ⟨C, hne, hsub, hC⟩ := ih _ he
          exact ⟨C, hne, fun c hc => (List.mem_filter.mp (hsub c hc)).1, hC⟩
        · simp at h

/-- the compile-time conditions on rule references -/
structure RefsOK (S : Schema) : Prop where
  /-- every reference is to a defined, non-temporary rule -/
  defined : ∀ r ∈ S.rules, ∀ c, Comp.ref c ∈ r.name → isTempRule c = false ∧ ∃ r' ∈ S.rules, r'.id = c
  /-- no cyclic references -/
  acyclic : ¬ ∃ C : List String, C ≠ [] ∧ ∀ c ∈ C, ∃ r ∈ S.rules, r.id ∈ C ∧ Comp.ref c ∈ r.name

theorem mem_refsOf {π : Type} {name : List (Comp π)} {c : String} : c ∈ refsOf name ↔ Comp.ref c ∈ name := by
  unfold refsOf
  rw [List.mem_filterMap]
  constructor
  · intro ⟨x, hx, hm⟩
    cases x with
    | ref i => simp at hm; subst hm; exact hx
    | lit v => simp at hm
    | pat p => simp at hm
  · intro h; exact ⟨_, h, rfl⟩

theorem sortRuleReferences_complete (S : Schema) (h : RefsOK S) : ∃ rules, sortRuleReferences S = .ok rules := by
  -- what a reference found in a renamed rule is
  have href : ∀ r' ∈ renameTemps S.rules 1, ∀ c ∈ refsOf r'.name,
      isTempRule c = false ∧ c ∈ ruleIds (renameTemps S.rules 1) := by
    intro r' hr' c hc
    obtain ⟨r, hr, hn, _⟩ := mem_renameTemps hr'
    obtain ⟨ht, r2, hr2, hid⟩ := h.defined r hr c (mem_refsOf.mp (hn ▸ hc))
    refine ⟨ht, ?_⟩
    obtain ⟨r2', hr2', _, _, _, hid'⟩ := renameTemps_mem (k := 1) hr2
    exact mem_ruleIds.mpr ⟨r2', hr2', by rw [hid' (hid ▸ ht), hid]⟩
  unfold sortRuleReferences
  simp only []
  have hnobad : ((renameTemps S.rules 1).flatMap (fun r => refsOf r.name)).any
      (badRef (ruleIds (renameTemps S.rules 1))) = false := by
    rw [Bool.eq_false_iff]
    intro hany
    obtain ⟨c, hc, hb⟩ := List.any_eq_true.mp hany
    obtain ⟨r', hr', hcr⟩ := List.mem_flatMap.mp hc
    obtain ⟨ht, hin⟩ := href r' hr' c hcr
    simp [badRef, ht, hin] at hb
  rw [hnobad]
  simp only [Bool.false_eq_true, if_false]
  cases hto : topOrder (ruleIds (renameTemps S.rules 1)) (adjOf (renameTemps S.rules 1)) with
  | ok order => exact ⟨_, rfl⟩
  | error e =>
    exfalso
    have he := topOrder_error _ _ _ hto
    subst he
    unfold topOrder at hto
    split at hto
    · rename_i e' he'
      injection hto with hto
      subst hto
      obtain ⟨C, hne, _, hC⟩ := topRounds_stuck _ _ _ he'
      apply h.acyclic
      refine ⟨C, hne, fun c hc => ?_⟩
      obtain ⟨p, hp, hcp⟩ := hC c hc
      unfold adjOf at hcp
      obtain ⟨r', hr', hcr⟩ := List.mem_flatMap.mp hcp
      have hr'' := (List.mem_filter.mp hr').1
      have hpid : r'.id = p := by simpa using (List.mem_filter.mp hr').2
      obtain ⟨r, hr, hn, _, _, hcase⟩ := mem_renameTemps hr''
      -- `p` is itself referred to, hence not temporary, hence `r` was not renamed
      obtain ⟨q, _, hpq⟩ := hC p hp
      unfold adjOf at hpq
      obtain ⟨rq, hrq, hprq⟩ := List.mem_flatMap.mp hpq
      have hpt := (href rq (List.mem_filter.mp hrq).1 p hprq).1
      rcases hcase with ⟨_, hid⟩ | ⟨htmp, j, hid⟩
      · exact ⟨r, hr, by rw [← hid, hpid]; exact hp, mem_refsOf.mp (hn ▸ hcr)⟩
      · exfalso
        have : isTempRule p = true := by
          rw [← hpid, hid, String.append_assoc]
          exact isTempRule_append _ _ htmp
        rw [hpt] at this
        simp at this
    · simp at hto

/-! ### pass 2 -/

theorem tagOf_some_of_mem {named : List String} {p : String} (h : p ∈ named) : ∃ k, tagOf named p = some k := by
  simp [tagOf, h]

theorem numberName_grows (comps : List (Comp String)) : ∀ (st : NumSt) (tp : PyDict String (List Int)),
    (∀ p ∈ st.named, p ∈ (numberName comps st tp).2.1.named) ∧
    (∀ p ∈ patsOf comps, isTempPat p = false → p ∈ (numberName comps st tp).2.1.named) ∧
    (∀ p, (∃ l, PyDict.get? tp p = some l) → ∃ l, PyDict.get? (numberName comps st tp).2.2 p = some l) ∧
    (∀ p ∈ patsOf comps, isTempPat p = true → ∃ l, PyDict.get? (numberName comps st tp).2.2 p = some l) := by
  induction comps with
  | nil =>
    intro st tp
    simp only [numberName, patsOf]
    exact ⟨fun p hp => hp, by simp, fun p h => h, by simp⟩
  | cons c r ih =>
    intro st tp
    cases c with
    | lit v =>
      have := ih st tp
      simp only [numberName, patsOf, List.filterMap_cons] at this ⊢
      exact this
    | ref i =>
      have := ih st tp
      simp only [numberName, patsOf, List.filterMap_cons] at this ⊢
      exact this
    | pat p =>
      simp only [numberName, patsOf, List.filterMap_cons]
      split
      · rename_i ht
        have := ih { st with nextTemp := st.nextTemp - 1 }
          (PyDict.set tp p ((match PyDict.get? tp p with | some l => l | none => []) ++ [st.nextTemp]))
        simp only [patsOf] at this
        obtain ⟨h1, h2, h3, h4⟩ := this
        refine ⟨h1, fun q hq hqt => ?_, fun q hq => ?_, fun q hq hqt => ?_⟩
        · rcases List.mem_cons.mp hq with hq | hq
          · subst hq; rw [ht] at hqt; simp at hqt
          · exact h2 q hq hqt
        · apply h3
          obtain ⟨l, hl⟩ := hq
          rw [PyDict.get?_set]
          split
          · exact ⟨_, rfl⟩
          · exact ⟨l, hl⟩
        · rcases List.mem_cons.mp hq with hq | hq
          · subst hq
            apply h3
            rw [PyDict.get?_set]
            simp
          · exact h4 q hq hqt
      · rename_i ht
        split
        · rename_i k hk
          have := ih st tp
          simp only [patsOf] at this
          obtain ⟨h1, h2, h3, h4⟩ := this
          refine ⟨h1, fun q hq hqt => ?_, h3, fun q hq hqt => ?_⟩
          · rcases List.mem_cons.mp hq with hq | hq
            · subst hq
              apply h1
              unfold tagOf at hk
              split at hk
              · rename_i hc; simpa using hc
              · simp at hk
            · exact h2 q hq hqt
          · rcases List.mem_cons.mp hq with hq | hq
            · subst hq; exact absurd hqt ht
            · exact h4 q hq hqt
        · have := ih { st with named := st.named ++ [p] } tp
          simp only [patsOf] at this
          obtain ⟨h1, h2, h3, h4⟩ := this
          refine ⟨fun q hq => h1 q (List.mem_append_left _ hq), fun q hq hqt => ?_, h3, fun q hq hqt => ?_⟩
          · rcases List.mem_cons.mp hq with hq | hq
            · subst hq; exact h1 q (by simp)
            · exact h2 q hq hqt
          · rcases List.mem_cons.mp hq with hq | hq
            · subst hq; exact absurd hqt ht
            · exact h4 q hq hqt

theorem numberNames_grows (rules : List SRule) : ∀ (st : NumSt),
    (∀ p ∈ st.named, p ∈ (numberNames rules st).2.named) ∧
    (∀ r ∈ rules, ∀ p ∈ patsOf r.name, isTempPat p = false → p ∈ (numberNames rules st).2.named) ∧
    (∀ x ∈ (numberNames rules st).1, ∀ p ∈ patsOf x.1.name, isTempPat p = true →
      ∃ l, PyDict.get? x.2.2 p = some l) := by
  induction rules with
  | nil => intro st; simp [numberNames]
  | cons r rs ih =>
    intro st
    obtain ⟨g1, g2, _, g4⟩ := numberName_grows r.name st []
    obtain ⟨i1, i2, i3⟩ := ih (numberName r.name st []).2.1
    simp only [numberNames]
    refine ⟨fun p hp => i1 p (g1 p hp), fun x hx p hp hpt => ?_, fun x hx => ?_⟩
    · rcases List.mem_cons.mp hx with hx | hx
      · subst hx; exact i1 p (g2 p hp hpt)
      · exact i2 x hx p hp hpt
    · rcases List.mem_cons.mp hx with hx | hx
      · subst hx; exact g4
      · exact i3 x hx

theorem numRhs_ok {named : List String} {p : String} (ht : isTempPat p = false) (hm : p ∈ named) :
    ∃ k, numRhs named p = .ok k := by
  obtain ⟨k, hk⟩ := tagOf_some_of_mem hm
  exact ⟨Int.ofNat k, by simp [numRhs, ht, hk]⟩

theorem numOpt_good {named : List String} {o : Opt String}
    (h : ∀ p ∈ o.pats, isTempPat p = false ∧ p ∈ named) : ∃ o', numOpt named o = .ok o' := by
  cases o with
  | lit v => exact ⟨_, rfl⟩
  | pat p =>
    obtain ⟨k, hk⟩ := numRhs_ok (h p (by simp [Opt.pats])).1 (h p (by simp [Opt.pats])).2
    exact ⟨.pat k, by simp [numOpt, hk]⟩
  | fn f args =>
    have : ∃ as, mapE (numArg named) args = .ok as := by
      apply mapE_ok_of_all
      intro a ha
      cases a with
      | lit v => exact ⟨_, rfl⟩
      | pat p =>
        have hp : p ∈ (Opt.fn f args).pats := by
          simp only [Opt.pats, List.mem_filterMap]
          exact ⟨_, ha, rfl⟩
        obtain ⟨k, hk⟩ := numRhs_ok (h p hp).1 (h p hp).2
        exact ⟨.pat k, by simp [numArg, hk]⟩
    obtain ⟨as, has⟩ := this
    exact ⟨.fn f as, by simp [numOpt, has]⟩

theorem genPatternNumbers_complete (rules : List SRule)
    (h : ∀ r ∈ rules, ∀ cs ∈ r.cons, ∀ t ∈ cs, ¬ BadTerm rules r t) :
    ∃ res, genPatternNumbers rules = .ok res := by
  unfold genPatternNumbers
  have hg := numberNames_grows rules { named := [], nextTemp := -1 }
  have hs := numberNames_spec rules { named := [], nextTemp := -1 }
  cases hx : numberNames rules { named := [], nextTemp := -1 } with
  | mk xs st =>
    rw [hx] at hg hs
    simp only [] at hg hs ⊢
    have hnamed : ∀ p, isTempPat p = false → NamedIn rules p → p ∈ st.named := by
      intro p hpt ⟨r, hr, hp⟩
      exact hg.2.1 r hr p hp hpt
    have : ∃ nrules, mapE (numRule st.named) xs = .ok nrules := by
      apply mapE_ok_of_all
      intro x hxm
      have hxr := (hs.2 x hxm).1
      unfold numRule
      have : ∃ cons, mapE (mapE (numTerm st.named x.2.2)) x.1.cons = .ok cons := by
        apply mapE_ok_of_all
        intro cs hcs
        apply mapE_ok_of_all
        intro t ht
        have hnb := h x.1 hxr cs hcs t ht
        unfold BadTerm at hnb
        simp only [not_or] at hnb
        obtain ⟨hb1, hb2, hb3⟩ := hnb
        unfold numTerm
        have hl : ∃ ids, numLhs st.named x.2.2 t.pat = .ok ids := by
          unfold numLhs
          cases htp : isTempPat t.pat with
          | true =>
            simp only [if_true]
            have hin : t.pat ∈ patsOf x.1.name := by
              apply Classical.byContradiction
              intro hn; exact hb2 ⟨htp, hn⟩
            obtain ⟨l, hl⟩ := hg.2.2 x hxm t.pat hin htp
            exact ⟨l, by rw [hl]⟩
          | false =>
            simp only [Bool.false_eq_true, if_false]
            have hin : NamedIn rules t.pat := by
              apply Classical.byContradiction
              intro hn; exact hb1 ⟨htp, hn⟩
            obtain ⟨k, hk⟩ := tagOf_some_of_mem (hnamed _ htp hin)
            exact ⟨_, by rw [hk]⟩
        obtain ⟨ids, hids⟩ := hl
        rw [hids]
        simp only []
        have ho : ∃ os, mapE (numOpt st.named) t.opts = .ok os := by
          apply mapE_ok_of_all
          intro o ho
          apply numOpt_good
          intro p hp
          have hpt : isTempPat p = false := by
            cases hpt : isTempPat p with
            | false => rfl
            | true => exact absurd ⟨o, ho, p, hp, Or.inl hpt⟩ hb3
          refine ⟨hpt, hnamed p hpt ?_⟩
          apply Classical.byContradiction
          intro hn
          exact hb3 ⟨o, ho, p, hp, Or.inr hn⟩
        obtain ⟨os, hos⟩ := ho
        rw [hos]
        exact ⟨_, rfl⟩
      obtain ⟨cons, hcons⟩ := this
      rw [hcons]
      exact ⟨_, rfl⟩
    obtain ⟨nrules, hn⟩ := this
    rw [hn]
    exact ⟨_, rfl⟩

/-! ### pass 5 -/

theorem ruleNodeIds_ne {pool : List PreNode} {n : PreNode} {rid : String} (hn : n ∈ pool) (hr : rid ∈ n.ruleNames) :
    ruleNodeIds pool rid ≠ [] := by
  intro h
  have : n.id ∈ ruleNodeIds pool rid := by
    unfold ruleNodeIds
    rw [List.mem_flatMap]
    refine ⟨n, hn, ?_⟩
    rw [List.mem_map]
    exact ⟨rid, List.mem_filter.mpr ⟨hr, by simp⟩, rfl⟩
  rw [h] at this
  simp at this

theorem signersOfStr_complete {pool : List PreNode} : ∀ {l : List String},
    (∀ rid ∈ l, ruleNodeIds pool rid ≠ []) → ∃ ks, signersOfStr pool l = .ok ks := by
  intro l
  induction l with
  | nil => intro _; exact ⟨[], rfl⟩
  | cons rid r ih =>
    intro h
    obtain ⟨ks, hks⟩ := ih (fun x hx => h x (List.mem_cons_of_mem _ hx))
    unfold signersOfStr
    cases hids : ruleNodeIds pool rid with
    | nil => exact absurd hids (h rid List.mem_cons_self)
    | cons k0 ks0 => simp only [hks]; exact ⟨_, rfl⟩

/-! ### the whole compiler -/

/-- **the compile-time conditions**: what a schema must satisfy for `compile_lvs` not to raise -/
structure StaticOK (S : Schema) : Prop where
  refs : RefsOK S
  /-- no constraint term names an unknown pattern / uses a temporary pattern as a value -/
  terms : ∀ r ∈ S.rules, ∀ cs ∈ r.cons, ∀ t ∈ cs, ¬ BadTerm S.rules r t
  /-- every signer is the identifier of a rule (temporary rules having been renamed `#_x#k`, so: of a
      non-temporary rule) -/
  signers : ∀ r ∈ S.rules, ∀ s ∈ r.sign, s ∈ ruleIds (renameTemps S.rules 1)

theorem compile_complete (S : Schema) (h : StaticOK S) : ∃ res, compile S = .ok res := by
  obtain ⟨rules, hsort⟩ := sortRuleReferences_complete S h.refs
  have hperm := sortRuleReferences_perm S rules hsort
  -- pass 2
  have hterms : ∀ r ∈ rules, ∀ cs ∈ r.cons, ∀ t ∈ cs, ¬ BadTerm rules r t := by
    intro r' hr' cs hcs t ht hbad
    obtain ⟨r, hr, hn, hc, _⟩ := mem_renameTemps (hperm.mem_iff.mp hr')
    have hnamed : ∀ p, NamedIn S.rules p → NamedIn rules p := by
      intro p ⟨x, hx, hp⟩
      obtain ⟨x', hx', hxn, _⟩ := renameTemps_mem (k := 1) hx
      exact ⟨x', hperm.mem_iff.mpr hx', hxn ▸ hp⟩
    apply h.terms r hr cs (hc ▸ hcs) t ht
    rcases hbad with ⟨h1, h2⟩ | ⟨h1, h2⟩ | ⟨o, ho, p, hp, hb⟩
    · exact Or.inl ⟨h1, fun hn' => h2 (hnamed _ hn')⟩
    · exact Or.inr (Or.inl ⟨h1, hn ▸ h2⟩)
    · refine Or.inr (Or.inr ⟨o, ho, p, hp, ?_⟩)
      rcases hb with hb | hb
      · exact Or.inl hb
      · exact Or.inr (fun hn' => hb (hnamed _ hn'))
  obtain ⟨⟨nrules, named⟩, hnum⟩ := genPatternNumbers_complete rules hterms
  -- pass 3
  have hrb := sortRuleReferences_refsBefore S rules hsort
  rw [← genPatternNumbers_pairs hnum] at hrb
  obtain ⟨rep, hrep⟩ := replicateLoop_total nrules [] (firstFreshTemp nrules)
    (fun pre x post hsplit i hi => Or.inl (hrb pre x post hsplit i hi))
  have hch : chainsOf S = .ok (allChains rep, named) := by
    unfold chainsOf
    rw [hsort]
    simp only [hnum]
    unfold replicateRules
    rw [hrep]
  -- pass 4
  obtain ⟨⟨pool, t⟩, hg⟩ := genNode_total (maxNameLen (allChains rep)) 0 (allChains rep) none [] 0 named.length
    (fun c hc => ⟨Nat.zero_le _, by have := le_maxNameLen _ c hc; omega⟩)
  -- pass 5
  obtain ⟨hfw, hbw⟩ := genPatternNumbers_rules hnum
  obtain ⟨_, _, h3, h4⟩ := replicateLoop_has nrules [] _ rep (by intro p hp; simp at hp) hrep
  obtain ⟨hends, hnames⟩ := genNode_ends _ _ _ _ _ _ _ _ _ (fun c _ => Nat.zero_le _) hg
  have hfix : ∃ nodes, fixSigning pool = .ok nodes := by
    unfold fixSigning
    apply mapE_ok_of_all
    intro n hn
    have : ∃ ks, signersOfStr pool n.signStr = .ok ks := by
      apply signersOfStr_complete
      intro s hs
      -- `s` is a signer of a source rule
      obtain ⟨rc, hrc, hsrc⟩ := (hnames n hn).2 s hs
      obtain ⟨p, hp, hcp⟩ := mem_allChains.mp hrc
      have : ∃ nr ∈ nrules, s ∈ nr.sign := by
        rcases h4 p hp rc hcp with ⟨q, hq, _⟩ | ⟨x, hx, _, hsx⟩
        · simp at hq
        · exact ⟨x, hx, by rw [hsx, mem_isort] at hsrc; exact hsrc⟩
      obtain ⟨nr, hnr, hsnr⟩ := this
      obtain ⟨r1, hr1, _, hsg1⟩ := hbw nr hnr
      obtain ⟨r0, hr0, _, _, hsg0, _⟩ := mem_renameTemps (hperm.mem_iff.mp hr1)
      have hsid := h.signers r0 hr0 s (by rw [← hsg0, ← hsg1]; exact hsnr)
      -- the rule `s` names has a chain, which ends at a node
      obtain ⟨r2, hr2, hid2⟩ := mem_ruleIds.mp hsid
      obtain ⟨nr2, hnr2, hnid2, _⟩ := hfw r2 (hperm.mem_iff.mpr hr2)
      obtain ⟨c2, ⟨v, hv, hcv⟩, _, hcid⟩ := h3 nr2 hnr2
      have hc2 : c2 ∈ allChains rep := mem_allChains.mpr ⟨_, PyDict.mem_of_get? _ _ _ hv, hcv⟩
      obtain ⟨n2, hn2, hrn2, _⟩ := hends c2 hc2
      exact ruleNodeIds_ne hn2 (by rw [← hid2, ← hnid2, ← hcid]; exact hrn2)
    obtain ⟨ks, hks⟩ := this
    unfold fixNode
    rw [hks]
    exact ⟨_, rfl⟩
  obtain ⟨nodes, hnodes⟩ := hfix
  unfold compile
  rw [hch]
  simp only []
  unfold buildModel
  rw [hg]
  simp only [hnodes]
  exact ⟨_, rfl⟩

end Ndn.Lvs
