import NdnProofs.Lemmas.Lvs.SrcCompile
/-!
  Pass 1 renames temporary rules (`#_x` → `#_x#k`).  No name pattern can refer to a temporary rule, so the meaning of
  every other rule is the same in the text as written and in the text with the temporary rules renamed.
-/
namespace Ndn.Lvs

/-- every non-temporary definition of `S` is a definition of `S'` (same name pattern, same constraints) -/
def DefsInto (S S' : Schema) : Prop :=
  ∀ r ∈ S.rules, isTempRule r.id = false → ∃ r' ∈ S'.rules, r'.id = r.id ∧ r'.name = r.name ∧ r'.cons = r.cons

mutual
theorem expandsName_into {S S' : Schema} (h : DefsInto S S') :
    ∀ {cs : List (Term String String)} {comps : List (Comp String)} {f : Flat},
    ExpandsName S cs comps f → ExpandsName S' cs comps f
  | _, _, _, .nil => .nil
  | _, _, _, .lit h1 => .lit (expandsName_into h h1)
  | _, _, _, .named hp h1 => .named hp (expandsName_into h h1)
  | _, _, _, .temp hp h1 => .temp hp (expandsName_into h h1)
  | _, _, _, .ref ht he h1 => .ref ht (expands_into h he ht) (expandsName_into h h1)
theorem expands_into {S S' : Schema} (h : DefsInto S S') :
    ∀ {q : String} {f : Flat}, Expands S q f → isTempRule q = false → Expands S' q f
  | _, _, .mk (r := r) (cs := cs) hr hcs h1 => fun ht => by
    obtain ⟨r', hr', hid, hname, hcons⟩ := h r hr ht
    have hcs' : cs ∈ altsOf r' := by unfold altsOf at hcs ⊢; rw [hcons]; exact hcs
    have := Expands.mk hr' hcs' (hname ▸ expandsName_into h h1)
    rw [hid] at this
    exact this
end

theorem defsInto_rename (S : Schema) : DefsInto S ⟨renameTemps S.rules 1⟩ := by
  intro r hr ht
  obtain ⟨r', hr', hn, hc, _, hid⟩ := renameTemps_mem (k := 1) hr
  exact ⟨r', hr', hid ht, hn, hc⟩

theorem defsInto_unrename (S : Schema) : DefsInto ⟨renameTemps S.rules 1⟩ S := by
  intro r' hr' ht
  obtain ⟨r, hr, hn, hc, _, hcase⟩ := mem_renameTemps hr'
  rcases hcase with ⟨_, hid⟩ | ⟨htmp, j, hid⟩
  · exact ⟨r, hr, hid.symm, hn.symm, hc.symm⟩
  · exfalso
    have : isTempRule r'.id = true := by
      rw [hid, String.append_assoc]
      exact isTempRule_append _ _ htmp
    rw [ht] at this
    simp at this

/-- for a rule that is not temporary, the text as written and the text after pass 1 mean the same -/
theorem srcMatches_rename (S : Schema) (fns : PureEnv) (rid : String) (ht : isTempRule rid = false) (σ : SCtx)
    (name : List Bytes) (σ' : SCtx) :
    SrcMatches ⟨renameTemps S.rules 1⟩ fns rid σ name σ' ↔ SrcMatches S fns rid σ name σ' := by
  constructor
  · rintro ⟨f, hf, hr⟩; exact ⟨f, expands_into (defsInto_unrename S) hf ht, hr⟩
  · rintro ⟨f, hf, hr⟩; exact ⟨f, expands_into (defsInto_rename S) hf ht, hr⟩

end Ndn.Lvs
