import NdnProofs.Lemmas.Lvs.CompileErrors
import NdnProofs.Lemmas.PyDict
/-!
  Node merging (`_generate_node`) preserves the accepted (name, bindings) pairs.

  * `ChainRun fns rc atoms prev σ name σ'` — the meaning of ONE chain on its own: its components accept the
    components of `name` one by one (a literal: equal; a pattern: the constraints `pattern_movement` attaches
    to it hold under the bindings made so far, a named pattern binds or must repeat its binding, a temporary
    pattern binds nothing), ending with bindings `σ'`.
  * `Gen m cnt depth ctx prev n` — node `n` of model `m` and everything below it is what `_generate_node(depth,
    ctx, …, prev)` builds (an abstract view of the pool, without positions).
  * `gen_sem` — for such a node: a name leads from `n` to a node that carries rule `rid` iff some chain of
    `ctx` with identifier `rid` runs on the name; given that the merge key is injective (`KeyInj`).
-/
namespace Ndn.Lvs

/-- all bound tags are named-pattern tags -/
def CtxLe (cnt : Nat) (σ : Ctx) : Prop := ∀ t v, PyDict.get? σ t = some v → t ≤ cnt

/-- what matching pattern `t` against component `c` does to the bindings -/
def BindStep (t : Int) (σ : Ctx) (c : Bytes) (σ₁ : Ctx) : Prop :=
  if t < 0 then σ₁ = σ
  else (PyDict.get? σ t.toNat = some c ∧ σ₁ = σ) ∨ (PyDict.get? σ t.toNat = none ∧ σ₁ = PyDict.set σ t.toNat c)

/-- the meaning of one chain (from the component list `atoms` on, having passed the tags `prev`) -/
def ChainRun (fns : PureEnv) (rc : Chain) : List Atom → List Int → Ctx → List Bytes → Ctx → Prop
  | [], _, σ, [], σ' => σ' = σ
  | [], _, _, _ :: _, _ => False
  | _ :: _, _, _, [], _ => False
  | .lit v :: as, prev, σ, c :: cs, σ' => c = v ∧ ChainRun fns rc as prev σ cs σ'
  | .pat t :: as, prev, σ, c :: cs, σ' =>
    ConsSat fns σ c (pmove rc t prev).1 ∧
      ∃ σ₁, BindStep t σ c σ₁ ∧ ChainRun fns rc as (prev ++ [t]) σ₁ cs σ'

/-- the tag number an edge gets for pattern `t`: a named pattern keeps its number, a temporary one gets a
    number above the named ones -/
def TagFor (cnt : Nat) (t : Int) (tg : Nat) : Prop := (t < 0 → cnt < tg) ∧ (0 ≤ t → tg = t.toNat)

/-- the chains still running at `depth` -/
def live (depth : Nat) (ctx : List Chain) : List Chain := ctx.filter (fun rc => !(rc.name.length == depth))

/-- the moves of a node, value moves first -/
def movesOf (depth : Nat) (ctx : List Chain) (prev : List Int) : List Move :=
  vMoves depth (live depth ctx) prev ++ pMoves depth (live depth ctx) prev

/-- node `n` of `m` and its descendants are what `_generate_node(depth, ctx, _, prev)` builds -/
inductive Gen (m : Model) (cnt : Nat) : Nat → List Chain → List Int → Nat → Prop
  | mk (depth : Nat) (ctx : List Chain) (prev : List Int) (n : Nat) (node : Node) (dv tg : Nat → Nat)
      (hn : m.nodes[n]? = some node)
      (hnames : node.ruleNames = (ctx.filter (fun rc => rc.name.length == depth)).map (·.id))
      (hve : ∀ ve, ve ∈ node.vEdges ↔
        ∃ i mv v, (movesOf depth ctx prev)[i]? = some mv ∧ mv.value = some v ∧ ve = ⟨some (dv i), some v⟩)
      (hpe : ∀ pe, pe ∈ node.pEdges ↔
        ∃ i mv, (movesOf depth ctx prev)[i]? = some mv ∧ mv.value = none ∧ pe = ⟨some (dv i), some (tg i), mv.cons⟩)
      (htg : ∀ i mv, (movesOf depth ctx prev)[i]? = some mv → mv.value = none → TagFor cnt mv.tag (tg i))
      (hch : ∀ i mv, (movesOf depth ctx prev)[i]? = some mv → Gen m cnt (depth + 1) mv.ctx mv.prev (dv i)) :
      Gen m cnt depth ctx prev n

/-- the merge key determines the tag and the constraints of a pattern move -/
def KeyInj (ctx : List Chain) : Prop :=
  ∀ rc₁ ∈ ctx, ∀ rc₂ ∈ ctx, ∀ (t₁ t₂ : Int) (prev : List Int),
    t₁ ∈ rc₁.tags → t₂ ∈ rc₂.tags → (pmove rc₁ t₁ prev).2 = (pmove rc₂ t₂ prev).2 →
      t₁ = t₂ ∧ (pmove rc₁ t₁ prev).1 = (pmove rc₂ t₂ prev).1

/-- named tags are at most `cnt` -/
def TagsLe (cnt : Nat) (ctx : List Chain) : Prop := ∀ rc ∈ ctx, ∀ t ∈ rc.tags, 0 ≤ t → t.toNat ≤ cnt

/-! ### edges -/

theorem bindStep_ctxLe {cnt : Nat} {t : Int} {σ σ₁ : Ctx} {c : Bytes} (h : BindStep t σ c σ₁) (hle : CtxLe cnt σ)
    (ht : 0 ≤ t → t.toNat ≤ cnt) : CtxLe cnt σ₁ := by
  unfold BindStep at h
  split at h
  · subst h; exact hle
  · rename_i hneg
    rcases h with ⟨_, h⟩ | ⟨_, h⟩
    · subst h; exact hle
    · subst h
      intro t' v hv
      rw [PyDict.get?_set] at hv
      split at hv
      · rename_i he; subst he; exact ht (by omega)
      · exact hle t' v hv

theorem accepts_iff (fns : PureEnv) (cnt d tg : Nat) (cons : List Constraint) (t : Int) (c : Bytes) (σ σ₁ : Ctx)
    (htf : TagFor cnt t tg) (hle : CtxLe cnt σ) (ht : 0 ≤ t → t.toNat ≤ cnt) :
    Accepts fns cnt ⟨some d, some tg, cons⟩ c σ σ₁ ↔ ConsSat fns σ c cons ∧ BindStep t σ c σ₁ := by
  unfold Accepts BindStep
  constructor
  · intro ⟨t', ht', hcs, hb⟩
    simp only [Option.some.injEq] at ht'
    subst ht'
    refine ⟨hcs, ?_⟩
    by_cases hneg : t < 0
    · simp only [hneg, if_true]
      have hgt := htf.1 hneg
      rcases hb with ⟨_, h⟩ | ⟨_, h⟩
      · exact h
      · rw [h]; simp [Nat.not_le.mpr hgt]
    · simp only [hneg, if_false]
      have hge : 0 ≤ t := by omega
      have he := htf.2 hge
      have hl := ht hge
      rw [← he]
      rcases hb with ⟨h1, h2⟩ | ⟨h1, h2⟩
      · exact Or.inl ⟨h1, h2⟩
      · refine Or.inr ⟨h1, ?_⟩
        rw [h2]; simp [he, hl]
  · intro ⟨hcs, hb⟩
    refine ⟨tg, rfl, hcs, ?_⟩
    by_cases hneg : t < 0
    · simp only [hneg, if_true] at hb
      have hgt := htf.1 hneg
      refine Or.inr ⟨?_, by rw [hb]; simp [Nat.not_le.mpr hgt]⟩
      cases hg : PyDict.get? σ tg with
      | none => rfl
      | some v => have := hle tg v hg; omega
    · simp only [hneg, if_false] at hb
      have hge : 0 ≤ t := by omega
      have he := htf.2 hge
      have hl := ht hge
      rw [← he] at hb
      rcases hb with ⟨h1, h2⟩ | ⟨h1, h2⟩
      · exact Or.inl ⟨h1, h2⟩
      · refine Or.inr ⟨h1, ?_⟩
        rw [h2]; simp [he, hl]

theorem path_nil_iff (m : Model) (fns : PureEnv) (n : Nat) (σ : Ctx) (n' : Nat) (σ' : Ctx) :
    Path m fns n σ [] n' σ' ↔ n' = n ∧ σ' = σ := by
  constructor
  · intro h; cases h; exact ⟨rfl, rfl⟩
  · intro ⟨h1, h2⟩; subst h1; subst h2; exact Path.nil _ _

theorem path_cons_iff (m : Model) (fns : PureEnv) (n : Nat) (σ : Ctx) (c : Bytes) (rest : List Bytes) (n' : Nat) (σ' : Ctx) :
    Path m fns n σ (c :: rest) n' σ' ↔
      ∃ node, m.nodes[n]? = some node ∧
        ((∃ ve d, ve ∈ node.vEdges ∧ ve.value = some c ∧ ve.dest = some d ∧ Path m fns d σ rest n' σ') ∨
         (∃ pe d σ₁, pe ∈ node.pEdges ∧ pe.dest = some d ∧ Accepts fns m.namedCnt pe c σ σ₁ ∧
            Path m fns d σ₁ rest n' σ')) := by
  constructor
  · intro h
    cases h with
    | value hn hve hv hd hp => exact ⟨_, hn, Or.inl ⟨_, _, hve, hv, hd, hp⟩⟩
    | pattern hn hpe hd ha hp => exact ⟨_, hn, Or.inr ⟨_, _, _, hpe, hd, ha, hp⟩⟩
  · intro ⟨node, hn, h⟩
    rcases h with ⟨ve, d, hve, hv, hd, hp⟩ | ⟨pe, d, σ₁, hpe, hd, ha, hp⟩
    · exact Path.value hn hve hv hd hp
    · exact Path.pattern hn hpe hd ha hp

/-! ### moves and chains -/

theorem drop_of_getElem? {α : Type} {l : List α} {i : Nat} {a : α} (h : l[i]? = some a) :
    l.drop i = a :: l.drop (i + 1) := by
  obtain ⟨hi, he⟩ := List.getElem?_eq_some_iff.mp h
  rw [List.drop_eq_getElem_cons hi, he]

theorem litAt_iff {depth : Nat} {rc : Chain} {v : Bytes} : litAt depth rc = some v ↔ rc.name[depth]? = some (.lit v) := by
  unfold litAt
  constructor
  · intro h
    split at h
    · rename_i w hw; injection h with h; subst h; exact hw
    · simp at h
  · intro h; rw [h]

theorem patAt_iff {depth : Nat} {rc : Chain} {t : Int} : patAt depth rc = some t ↔ rc.name[depth]? = some (.pat t) := by
  unfold patAt
  constructor
  · intro h
    split at h
    · rename_i w hw; injection h with h; subst h; exact hw
    · simp at h
  · intro h; rw [h]

theorem patAt_mem_tags {depth : Nat} {rc : Chain} {t : Int} (h : patAt depth rc = some t) : t ∈ rc.tags := by
  unfold Chain.tags
  rw [List.mem_filterMap]
  exact ⟨.pat t, List.mem_of_getElem? (patAt_iff.mp h), rfl⟩

theorem mem_vMoves {depth : Nat} {ctx : List Chain} {prev : List Int} {mv : Move} (h : mv ∈ vMoves depth ctx prev) :
    ∃ v, mv.value = some v ∧ mv.prev = prev ∧ ∀ rc, rc ∈ mv.ctx ↔ rc ∈ ctx ∧ litAt depth rc = some v := by
  unfold vMoves at h
  rw [List.mem_map] at h
  obtain ⟨v, _, rfl⟩ := h
  refine ⟨v, rfl, rfl, fun rc => ?_⟩
  simp only [List.mem_filter]
  constructor
  · intro ⟨h1, h2⟩; exact ⟨h1, by simpa using h2⟩
  · intro ⟨h1, h2⟩; exact ⟨h1, by simp [h2]⟩

theorem vMoves_cover {depth : Nat} {ctx : List Chain} {prev : List Int} {rc : Chain} {v : Bytes}
    (hrc : rc ∈ ctx) (hl : litAt depth rc = some v) :
    ∃ mv ∈ vMoves depth ctx prev, mv.value = some v ∧ mv.prev = prev ∧ rc ∈ mv.ctx := by
  refine ⟨{ value := some v, tag := 0, cons := [], ctx := ctx.filter (fun rc => litAt depth rc == some v), prev := prev },
    ?_, rfl, rfl, ?_⟩
  · unfold vMoves
    rw [List.mem_map]
    exact ⟨v, (mem_sortDedup _ _ _).mpr (List.mem_filterMap.mpr ⟨rc, hrc, hl⟩), rfl⟩
  · simp only [List.mem_filter]
    exact ⟨hrc, by simp [hl]⟩

theorem mem_pMoves {depth : Nat} {ctx : List Chain} {prev : List Int} {mv : Move} (h : mv ∈ pMoves depth ctx prev) :
    mv.value = none ∧ ∃ rc0 ∈ ctx, ∃ t0, patAt depth rc0 = some t0 ∧ mv.tag = t0 ∧
      mv.cons = (pmove rc0 t0 prev).1 ∧ mv.prev = prev ++ [t0] ∧
      ∀ rc ∈ mv.ctx, rc ∈ ctx ∧ ∃ t, patAt depth rc = some t ∧ (pmove rc t prev).2 = (pmove rc0 t0 prev).2 := by
  unfold pMoves at h
  simp only [List.mem_filterMap] at h
  obtain ⟨s, _, hm⟩ := h
  split at hm
  · simp at hm
  · rename_i pm rest hf
    injection hm with hm; subst hm
    have hsub : ∀ x ∈ pm :: rest, x ∈ pMovesRaw depth ctx prev ∧ x.2.2.1 = s := by
      intro x hx
      have : x ∈ (pMovesRaw depth ctx prev).filter (fun pm => pm.2.2.1 == s) := hf ▸ hx
      exact ⟨(List.mem_filter.mp this).1, by simpa using (List.mem_filter.mp this).2⟩
    obtain ⟨h0, hs0⟩ := hsub pm List.mem_cons_self
    obtain ⟨a1, a2, a3, a4⟩ := mem_pMovesRaw h0
    refine ⟨rfl, pm.2.2.2, a1, pm.1, a2, rfl, a3, rfl, ?_⟩
    intro rc hrc
    simp only [List.mem_map] at hrc
    obtain ⟨x, hx, rfl⟩ := hrc
    obtain ⟨hx0, hxs⟩ := hsub x hx
    obtain ⟨b1, b2, _, b4⟩ := mem_pMovesRaw hx0
    exact ⟨b1, x.1, b2, by rw [← b4, ← a4, hxs, hs0]⟩

theorem pMoves_cover {depth : Nat} {ctx : List Chain} {prev : List Int} {rc : Chain} {t : Int}
    (hrc : rc ∈ ctx) (hp : patAt depth rc = some t) : ∃ mv ∈ pMoves depth ctx prev, rc ∈ mv.ctx := by
  have hlen : depth < rc.name.length := by
    obtain ⟨hi, _⟩ := List.getElem?_eq_some_iff.mp (patAt_iff.mp hp)
    exact hi
  obtain ⟨mv, hmv, hin⟩ := moves_cover depth ctx prev rc hrc hlen
  rcases List.mem_append.mp hmv with hmv | hmv
  · exfalso
    obtain ⟨v, _, _, hctx⟩ := mem_vMoves hmv
    have := ((hctx rc).mp hin).2
    rw [litAt_iff] at this
    rw [patAt_iff] at hp
    rw [hp] at this
    simp at this
  · exact ⟨mv, hmv, hin⟩

theorem mem_live {depth : Nat} {ctx : List Chain} {rc : Chain} : rc ∈ live depth ctx ↔ rc ∈ ctx ∧ rc.name.length ≠ depth := by
  unfold live
  rw [List.mem_filter]
  simp

/-! ### the semantics of a generated node -/

theorem gen_sem (m : Model) (fns : PureEnv) (cnt : Nat) (hcnt : m.namedCnt = cnt) :
    ∀ (rest : List Bytes) (depth : Nat) (ctx : List Chain) (prev : List Int) (n : Nat) (σ : Ctx),
      Gen m cnt depth ctx prev n → (∀ rc ∈ ctx, depth ≤ rc.name.length) → KeyInj ctx → TagsLe cnt ctx →
      CtxLe cnt σ → ∀ (σ' : Ctx) (rid : String),
      (∃ n' node', Path m fns n σ rest n' σ' ∧ m.nodes[n']? = some node' ∧ rid ∈ node'.ruleNames) ↔
        ∃ rc ∈ ctx, rc.id = rid ∧ ChainRun fns rc (rc.name.drop depth) prev σ rest σ' := by
  intro rest
  induction rest with
  | nil =>
    intro depth ctx prev n σ hgen hlen _ _ _ σ' rid
    cases hgen with
    | mk _ _ _ _ node dv tg hn hnames hve hpe htg hch =>
    constructor
    · intro ⟨n', node', hp, hn', hrid⟩
      obtain ⟨h1, h2⟩ := (path_nil_iff m fns n σ n' σ').mp hp
      subst h1; subst h2
      rw [hn] at hn'
      injection hn' with hn'
      subst hn'
      rw [hnames, List.mem_map] at hrid
      obtain ⟨rc, hrc, hid⟩ := hrid
      obtain ⟨hrc1, hrc2⟩ := List.mem_filter.mp hrc
      have hl : rc.name.length = depth := by simpa using hrc2
      refine ⟨rc, hrc1, hid, ?_⟩
      rw [List.drop_eq_nil_iff.mpr (by omega)]
      simp [ChainRun]
    · intro ⟨rc, hrc, hid, hrun⟩
      have hl : rc.name.length = depth := by
        have := hlen rc hrc
        cases hd : rc.name.drop depth with
        | nil => have := List.drop_eq_nil_iff.mp hd; omega
        | cons a r => rw [hd] at hrun; simp [ChainRun] at hrun
      rw [List.drop_eq_nil_iff.mpr (by omega)] at hrun
      simp only [ChainRun] at hrun
      refine ⟨n, node, (path_nil_iff m fns n σ n σ').mpr ⟨rfl, hrun⟩, hn, ?_⟩
      rw [hnames, List.mem_map]
      exact ⟨rc, List.mem_filter.mpr ⟨hrc, by simp [hl]⟩, hid⟩
  | cons c cs ih =>
    intro depth ctx prev n σ hgen hlen hkey htags hσ σ' rid
    cases hgen with
    | mk _ _ _ _ node dv tg hn hnames hve hpe htg hch =>
    -- facts about the children
    have hmvctx : ∀ (i : Nat) (mv : Move), (movesOf depth ctx prev)[i]? = some mv → ∀ rc ∈ mv.ctx, rc ∈ live depth ctx := by
      intro i mv hi rc hrc
      have hm := List.mem_of_getElem? hi
      unfold movesOf at hm
      rcases List.mem_append.mp hm with hm | hm
      · obtain ⟨v, _, _, hctx⟩ := mem_vMoves hm
        exact ((hctx rc).mp hrc).1
      · exact ((mem_pMoves hm).2.choose_spec.2.choose_spec.2.2.2.2 rc hrc).1
    have hchild : ∀ (i : Nat) (mv : Move), (movesOf depth ctx prev)[i]? = some mv →
        (∀ rc ∈ mv.ctx, depth + 1 ≤ rc.name.length) ∧ KeyInj mv.ctx ∧ TagsLe cnt mv.ctx := by
      intro i mv hi
      have hsub : ∀ rc ∈ mv.ctx, rc ∈ ctx ∧ rc.name.length ≠ depth :=
        fun rc hrc => mem_live.mp (hmvctx i mv hi rc hrc)
      refine ⟨fun rc hrc => ?_, fun r1 h1 r2 h2 => hkey r1 (hsub r1 h1).1 r2 (hsub r2 h2).1,
        fun rc hrc => htags rc (hsub rc hrc).1⟩
      have := hlen rc (hsub rc hrc).1
      have := (hsub rc hrc).2
      omega
    constructor
    · intro ⟨n', node', hp, hn', hrid'⟩
      obtain ⟨node1, hn1, hcase⟩ := (path_cons_iff m fns n σ c cs n' σ').mp hp
      rw [hn] at hn1
      injection hn1 with hn1
      subst hn1
      rcases hcase with ⟨ve, d, hvem, hvv, hvd, hpath⟩ | ⟨pe, d, σ₁, hpem, hpd, hacc, hpath⟩
      · -- a value edge
        obtain ⟨i, mv, v, hi, hmvv, hveq⟩ := (hve ve).mp hvem
        subst hveq
        simp only [Option.some.injEq] at hvv hvd
        subst hvv; subst hvd
        obtain ⟨c1, c2, c3⟩ := hchild i mv hi
        obtain ⟨rc, hrc, hid, hrun⟩ := (ih (depth + 1) mv.ctx mv.prev (dv i) σ (hch i mv hi) c1 c2 c3 hσ σ' rid).mp
          ⟨n', node', hpath, hn', hrid'⟩
        have hm := List.mem_of_getElem? hi
        unfold movesOf at hm
        rcases List.mem_append.mp hm with hm | hm
        · obtain ⟨v', hv', hprev, hctx⟩ := mem_vMoves hm
          rw [hmvv] at hv'
          injection hv' with hv'
          subst hv'
          obtain ⟨hrcl, hlit⟩ := (hctx rc).mp hrc
          refine ⟨rc, (mem_live.mp hrcl).1, hid, ?_⟩
          rw [drop_of_getElem? (litAt_iff.mp hlit)]
          simp only [ChainRun]
          exact ⟨trivial, hprev ▸ hrun⟩
        · rw [(mem_pMoves hm).1] at hmvv
          simp at hmvv
      · -- a pattern edge
        obtain ⟨i, mv, hi, hmvv, hpeq⟩ := (hpe pe).mp hpem
        subst hpeq
        simp only [Option.some.injEq] at hpd
        subst hpd
        have hm := List.mem_of_getElem? hi
        unfold movesOf at hm
        rcases List.mem_append.mp hm with hm | hm
        · obtain ⟨v', hv', _⟩ := mem_vMoves hm
          rw [hmvv] at hv'
          simp at hv'
        · obtain ⟨_, rc0, hrc0, t0, hp0, htag0, hcons0, hprev0, hgroup⟩ := mem_pMoves hm
          have ht0le : 0 ≤ mv.tag → mv.tag.toNat ≤ cnt := by
            rw [htag0]
            exact htags rc0 (mem_live.mp hrc0).1 t0 (patAt_mem_tags hp0)
          rw [hcnt] at hacc
          obtain ⟨hcs, hbind⟩ := (accepts_iff fns cnt (dv i) (tg i) mv.cons mv.tag c σ σ₁ (htg i mv hi hmvv) hσ ht0le).mp hacc
          obtain ⟨c1, c2, c3⟩ := hchild i mv hi
          obtain ⟨rc, hrc, hid, hrun⟩ := (ih (depth + 1) mv.ctx mv.prev (dv i) σ₁ (hch i mv hi) c1 c2 c3
            (bindStep_ctxLe hbind hσ ht0le) σ' rid).mp ⟨n', node', hpath, hn', hrid'⟩
          obtain ⟨hrcl, t, hpt, hkeyeq⟩ := hgroup rc hrc
          obtain ⟨htt, hconseq⟩ := hkey rc (mem_live.mp hrcl).1 rc0 (mem_live.mp hrc0).1 t t0 prev
            (patAt_mem_tags hpt) (patAt_mem_tags hp0) hkeyeq
          subst htt
          refine ⟨rc, (mem_live.mp hrcl).1, hid, ?_⟩
          rw [drop_of_getElem? (patAt_iff.mp hpt)]
          simp only [ChainRun]
          refine ⟨by rw [hconseq, ← hcons0]; exact hcs, σ₁, by rw [← htag0]; exact hbind, ?_⟩
          rw [← hprev0]
          exact hrun
    · intro ⟨rc, hrc, hid, hrun⟩
      -- the chain has a component at `depth`
      cases hd : rc.name.drop depth with
      | nil => rw [hd] at hrun; simp [ChainRun] at hrun
      | cons a as =>
        have hlt : depth < rc.name.length := by
          rcases Nat.lt_or_ge depth rc.name.length with h | h
          · exact h
          · rw [List.drop_eq_nil_iff.mpr h] at hd; simp at hd
        have hget : rc.name[depth]? = some a := by
          rw [List.drop_eq_getElem_cons hlt] at hd
          injection hd with h1 _
          rw [List.getElem?_eq_getElem hlt, h1]
        have has : as = rc.name.drop (depth + 1) := by
          rw [List.drop_eq_getElem_cons hlt] at hd
          injection hd with _ h2
          exact h2.symm
        have hrcl : rc ∈ live depth ctx := mem_live.mpr ⟨hrc, by omega⟩
        rw [hd] at hrun
        cases a with
        | lit v =>
          simp only [ChainRun] at hrun
          obtain ⟨hcv, hrun⟩ := hrun
          subst hcv
          obtain ⟨mv, hmv, hmvv, hprev, hin⟩ := vMoves_cover (prev := prev) hrcl (litAt_iff.mpr hget)
          obtain ⟨i, hi⟩ := List.mem_iff_getElem?.mp (List.mem_append_left (pMoves depth (live depth ctx) prev) hmv)
          obtain ⟨c1, c2, c3⟩ := hchild i mv hi
          obtain ⟨n', node', hpath, hn', hrid'⟩ := (ih (depth + 1) mv.ctx mv.prev (dv i) σ (hch i mv hi) c1 c2 c3 hσ σ' rid).mpr
            ⟨rc, hin, hid, by rw [hprev, ← has]; exact hrun⟩
          exact ⟨n', node', (path_cons_iff m fns n σ c cs n' σ').mpr ⟨node, hn, Or.inl ⟨⟨some (dv i), some c⟩, dv i,
            (hve _).mpr ⟨i, mv, c, hi, hmvv, rfl⟩, rfl, rfl, hpath⟩⟩, hn', hrid'⟩
        | pat t =>
          simp only [ChainRun] at hrun
          obtain ⟨hcs, σ₁, hbind, hrun⟩ := hrun
          have hpt : patAt depth rc = some t := patAt_iff.mpr hget
          obtain ⟨mv, hmv, hin⟩ := pMoves_cover (prev := prev) hrcl hpt
          obtain ⟨hmvv, rc0, hrc0, t0, hp0, htag0, hcons0, hprev0, hgroup⟩ := mem_pMoves hmv
          obtain ⟨_, t', hpt', hkeyeq⟩ := hgroup rc hin
          rw [hpt] at hpt'
          injection hpt' with hpt'
          subst hpt'
          obtain ⟨htt, hconseq⟩ := hkey rc hrc rc0 (mem_live.mp hrc0).1 t t0 prev
            (patAt_mem_tags hpt) (patAt_mem_tags hp0) hkeyeq
          subst htt
          obtain ⟨i, hi⟩ := List.mem_iff_getElem?.mp (List.mem_append_right (vMoves depth (live depth ctx) prev) hmv)
          have ht0le : 0 ≤ mv.tag → mv.tag.toNat ≤ cnt := by
            rw [htag0]
            exact htags rc hrc t (patAt_mem_tags hpt)
          obtain ⟨c1, c2, c3⟩ := hchild i mv hi
          have hbind' : BindStep mv.tag σ c σ₁ := by rw [htag0]; exact hbind
          obtain ⟨n', node', hpath, hn', hrid'⟩ := (ih (depth + 1) mv.ctx mv.prev (dv i) σ₁ (hch i mv hi) c1 c2 c3
            (bindStep_ctxLe hbind' hσ ht0le) σ' rid).mpr
            ⟨rc, hin, hid, by rw [hprev0, ← has]; exact hrun⟩
          have hacc : Accepts fns m.namedCnt ⟨some (dv i), some (tg i), mv.cons⟩ c σ σ₁ := by
            rw [hcnt]
            exact (accepts_iff fns cnt (dv i) (tg i) mv.cons mv.tag c σ σ₁ (htg i mv hi hmvv) hσ ht0le).mpr
              ⟨by rw [hcons0, ← hconseq]; exact hcs, hbind'⟩
          exact ⟨n', node', (path_cons_iff m fns n σ c cs n' σ').mpr ⟨node, hn, Or.inr ⟨⟨some (dv i), some (tg i), mv.cons⟩, dv i, σ₁,
            (hpe _).mpr ⟨i, mv, hi, hmvv, rfl⟩, rfl, hacc, hpath⟩⟩, hn', hrid'⟩

end Ndn.Lvs

namespace Ndn.Lvs

theorem pmove_eq_pmoveB (rc : Chain) (t : Int) (prev : List Int) : pmove rc t prev = pmoveB rc t (prev.contains t) := by
  unfold pmove pmoveB
  rfl

/-- the computable test implies the hypothesis of the node-merging theorem -/
theorem keyInj_of_keyInjB (chains : List Chain) (h : keyInjB chains = true) : KeyInj chains := by
  intro rc₁ h1 rc₂ h2 t₁ t₂ prev ht1 ht2 hk
  unfold keyInjB at h
  simp only [List.all_eq_true] at h
  have := h rc₁ h1 rc₂ h2 t₁ ht1 t₂ ht2 (prev.contains t₁) (by cases prev.contains t₁ <;> simp)
    (prev.contains t₂) (by cases prev.contains t₂ <;> simp)
  rw [pmove_eq_pmoveB, pmove_eq_pmoveB] at hk ⊢
  split at this
  · rename_i hc
    obtain ⟨he, hne⟩ := hc
    subst he
    exact absurd rfl hne
  · split at this
    · simp only [Bool.and_eq_true, decide_eq_true_eq, beq_iff_eq] at this
      exact this
    · rename_i hne
      exact absurd (by simpa using hk) hne

end Ndn.Lvs
