import NdnProofs.Lemmas.Lvs.CompileOrder
/-!
  Every error of the compiler model is a `SemanticError`: `rep_rules[comp.id]` never raises `KeyError`
  (references point backwards in the sorted rule list), the fuel of `genNode` is never exhausted, and
  passes 1, 2, 5 only raise `SemanticError`.
-/
namespace Ndn.Lvs

theorem mapE_map_eq {α β ε γ : Type} {f : α → Except ε β} {g : β → γ} {h : α → γ} :
    ∀ {xs : List α} {ys : List β}, mapE f xs = .ok ys → (∀ x ∈ xs, ∀ y, f x = .ok y → g y = h x) →
      ys.map g = xs.map h := by
  intro xs
  induction xs with
  | nil => intro ys hm _; simp [mapE] at hm; subst hm; rfl
  | cons a r ih =>
    intro ys hm hgh
    unfold mapE at hm
    split at hm
    · simp at hm
    · rename_i b hb
      split at hm
      · simp at hm
      · rename_i bs hbs
        injection hm with hm; subst hm
        simp only [List.map_cons]
        rw [hgh a List.mem_cons_self b hb, ih hbs (fun x hx => hgh x (List.mem_cons_of_mem _ hx))]

theorem numberName_refs (comps : List (Comp String)) : ∀ (st : NumSt) (tp : PyDict String (List Int)),
    refsOf (numberName comps st tp).1 = refsOf comps := by
  induction comps with
  | nil => intro st tp; simp [numberName, refsOf]
  | cons c r ih =>
    intro st tp
    cases c with
    | lit v => simp only [numberName, refsOf, List.filterMap_cons]; exact ih st tp
    | ref i =>
      simp only [numberName, refsOf, List.filterMap_cons]
      have := ih st tp
      simp only [refsOf] at this
      rw [this]
    | pat p =>
      simp only [numberName]
      split
      · simp only [refsOf, List.filterMap_cons]; exact ih _ _
      · split
        · simp only [refsOf, List.filterMap_cons]; exact ih _ _
        · simp only [refsOf, List.filterMap_cons]; exact ih _ _

theorem numberNames_refs (rules : List SRule) : ∀ (st : NumSt),
    ∀ x ∈ (numberNames rules st).1, refsOf x.2.1 = refsOf x.1.name := by
  induction rules with
  | nil => intro st x hx; simp [numberNames] at hx
  | cons r rs ih =>
    intro st x hx
    simp only [numberNames] at hx
    rcases List.mem_cons.mp hx with hx | hx
    · subst hx; exact numberName_refs _ _ _
    · exact ih _ x hx

/-- numbering keeps the identifiers and the references of the rules, in order -/
theorem genPatternNumbers_pairs {rules : List SRule} {nrules : List NRule} {named : List String}
    (h : genPatternNumbers rules = .ok (nrules, named)) :
    nrules.map (fun nr => (nr.id, refsOf nr.name)) = rules.map (fun r => (r.id, refsOf r.name)) := by
  unfold genPatternNumbers at h
  have hfst := numberNames_fst rules { named := [], nextTemp := -1 }
  have hrefs := numberNames_refs rules { named := [], nextTemp := -1 }
  split at h
  rename_i xs st hx
  rw [hx] at hfst hrefs
  simp only [] at hfst hrefs
  split at h
  · simp at h
  · rename_i nrs hn
    injection h with h
    simp only [Prod.mk.injEq] at h
    obtain ⟨rfl, _⟩ := h
    have := mapE_map_eq (g := fun nr : NRule => (nr.id, refsOf nr.name))
      (h := fun x : SRule × List (Comp Int) × PyDict String (List Int) => (x.1.id, refsOf x.1.name)) hn
      (by
        intro x hxm y hy
        obtain ⟨h1, _, h3⟩ := numRule_fields hy
        simp only [h1, h3, hrefs x hxm])
    rw [this, ← hfst, List.map_map]
    rfl

/-! ### pass 3 never raises -/

theorem expandName_total (rid : String) (rep : PyDict String (List Chain)) :
    ∀ (name : List (Comp Int)) (cur : List Chain) (nt : Int),
      (∀ i ∈ refsOf name, ∃ v, PyDict.get? rep i = some v) → ∃ r, expandName rid rep name cur nt = .ok r := by
  intro name
  induction name with
  | nil => intro cur nt _; exact ⟨_, rfl⟩
  | cons a r ih =>
    intro cur nt h
    cases a with
    | lit w =>
      simp only [expandName]
      exact ih _ _ (fun i hi => h i (by simpa [refsOf] using hi))
    | pat t =>
      simp only [expandName]
      exact ih _ _ (fun i hi => h i (by simpa [refsOf] using hi))
    | ref j =>
      simp only [expandName]
      obtain ⟨v, hv⟩ := h j (by simp [refsOf])
      rw [hv]
      simp only []
      exact ih _ _ (fun i hi => h i (by
        simp only [refsOf, List.filterMap_cons, List.mem_cons]
        exact Or.inr (by simpa [refsOf] using hi)))

theorem repAdd_get (rep : PyDict String (List Chain)) (id : String) (cur : List Chain) (k : String) :
    (k = id → ∃ v, PyDict.get? (repAdd rep id cur) k = some v) ∧
    ((∃ v, PyDict.get? rep k = some v) → ∃ v, PyDict.get? (repAdd rep id cur) k = some v) := by
  unfold repAdd
  constructor
  · intro hk
    subst hk
    split
    · exact ⟨cur, by rw [PyDict.get?_set]; simp⟩
    · rename_i old _
      exact ⟨old ++ cur, by rw [PyDict.get?_set]; simp⟩
  · intro ⟨v, hv⟩
    by_cases hk : id = k
    · subst hk
      split
      · exact ⟨cur, by rw [PyDict.get?_set]; simp⟩
      · rename_i old _
        exact ⟨old ++ cur, by rw [PyDict.get?_set]; simp⟩
    · split <;> exact ⟨v, by rw [PyDict.get?_set]; simp [hk, hv]⟩

theorem replicateLoop_total : ∀ (rules : List NRule) (rep : PyDict String (List Chain)) (nt : Int),
    (∀ pre x post, rules.map (fun nr => (nr.id, refsOf nr.name)) = pre ++ x :: post →
      ∀ i ∈ x.2, (∃ y ∈ pre, y.1 = i) ∨ ∃ v, PyDict.get? rep i = some v) →
    ∃ res, replicateLoop rules rep nt = .ok res := by
  intro rules
  induction rules with
  | nil => intro rep nt _; exact ⟨_, rfl⟩
  | cons r rs ih =>
    intro rep nt h
    have hhead : ∀ i ∈ refsOf r.name, ∃ v, PyDict.get? rep i = some v := by
      intro i hi
      rcases h [] (r.id, refsOf r.name) (rs.map (fun nr => (nr.id, refsOf nr.name))) (by simp) i hi with ⟨y, hy, _⟩ | hv
      · simp at hy
      · exact hv
    obtain ⟨⟨cur, nt'⟩, hexp⟩ := expandName_total r.id rep r.name (initChains r) nt hhead
    unfold replicateLoop
    rw [hexp]
    simp only []
    apply ih
    intro pre x post hsplit i hi
    rcases h ((r.id, refsOf r.name) :: pre) x post (by simp [hsplit]) i hi with ⟨y, hy, hyi⟩ | hv
    · rcases List.mem_cons.mp hy with hy | hy
      · subst hy
        exact Or.inr ((repAdd_get rep r.id cur i).1 hyi.symm)
      · exact Or.inl ⟨y, hy, hyi⟩
    · exact Or.inr ((repAdd_get rep r.id cur i).2 hv)

/-! ### pass 4 never raises -/

theorem move_lt {depth : Nat} {ctx : List Chain} {prev : List Int} {mv : Move}
    (h : mv ∈ vMoves depth ctx prev ++ pMoves depth ctx prev) : ∃ rc ∈ ctx, depth < rc.name.length := by
  rcases List.mem_append.mp h with h | h
  · unfold vMoves at h
    rw [List.mem_map] at h
    obtain ⟨v, hv, _⟩ := h
    rw [mem_sortDedup, List.mem_filterMap] at hv
    obtain ⟨rc, hrc, hl⟩ := hv
    refine ⟨rc, hrc, ?_⟩
    unfold litAt at hl
    split at hl
    · rename_i w hw
      rcases Nat.lt_or_ge depth rc.name.length with h | h
      · exact h
      · rw [List.getElem?_eq_none h] at hw; simp at hw
    · simp at hl
  · unfold pMoves at h
    simp only [List.mem_filterMap] at h
    obtain ⟨s, hs, _⟩ := h
    rw [mem_sortDedup, List.mem_map] at hs
    obtain ⟨pm, hpm, _⟩ := hs
    obtain ⟨h1, h2, _⟩ := mem_pMovesRaw hpm
    refine ⟨_, h1, ?_⟩
    unfold patAt at h2
    split at h2
    · rename_i w hw
      rcases Nat.lt_or_ge depth pm.2.2.2.name.length with h | h
      · exact h
      · rw [List.getElem?_eq_none h] at hw; simp at hw
    · simp at h2

theorem genMoves_total {child : List Chain → List Int → Nat → Nat → Except CErr (List PreNode × Nat)} :
    ∀ (mvs : List Move) (base tidx : Nat),
      (∀ mv ∈ mvs, ∀ b t, ∃ r, child mv.ctx mv.prev b t = .ok r) → ∃ r, genMoves child mvs base tidx = .ok r := by
  intro mvs
  induction mvs with
  | nil => intro base tidx _; exact ⟨_, rfl⟩
  | cons mv r ih =>
    intro base tidx h
    unfold genMoves
    simp only []
    obtain ⟨⟨sub, t2⟩, hc⟩ := h mv List.mem_cons_self base (if mv.value.isNone && mv.tag < 0 then tidx + 1 else tidx)
    rw [hc]
    simp only []
    obtain ⟨⟨ves, pes, rest, t3⟩, hr⟩ := ih (base + sub.length) t2 (fun m hm => h m (List.mem_cons_of_mem _ hm))
    rw [hr]
    simp only []
    split <;> exact ⟨_, rfl⟩

theorem genNode_total : ∀ (fuel depth : Nat) (ctx : List Chain) (parent : Option Nat) (prev : List Int)
    (base tidx : Nat), (∀ c ∈ ctx, depth ≤ c.name.length ∧ c.name.length ≤ depth + fuel) →
    ∃ r, genNode fuel depth ctx parent prev base tidx = .ok r := by
  intro fuel
  induction fuel with
  | zero =>
    intro depth ctx parent prev base tidx hlen
    unfold genNode
    simp only []
    split
    · exact ⟨_, rfl⟩
    · rename_i mv mvs hmoves
      exfalso
      obtain ⟨rc, hrc, hlt⟩ := move_lt (hmoves ▸ (List.mem_cons_self : mv ∈ mv :: mvs))
      have := hlen rc (List.mem_filter.mp hrc).1
      omega
  | succ f ih =>
    intro depth ctx parent prev base tidx hlen
    unfold genNode
    simp only []
    split
    · exact ⟨_, rfl⟩
    · rename_i mv mvs hmoves
      have hchild : ∀ m ∈ mv :: mvs, ∀ b t,
          ∃ r, (fun c p b t => genNode f (depth + 1) c (some base) p b t) m.ctx m.prev b t = .ok r := by
        intro m hm b t
        apply ih
        intro c hc
        have hcm : c ∈ ctx.filter (fun rc => !(rc.name.length == depth)) := by
          rw [← hmoves] at hm
          rcases List.mem_append.mp hm with hm | hm
          · exact mem_vMoves_ctx hm c hc
          · exact mem_pMoves_ctx hm c hc
        have h1 := List.mem_filter.mp hcm
        have h2 := hlen c h1.1
        have h3 : c.name.length ≠ depth := by simpa using h1.2
        omega
      obtain ⟨⟨ves, pes, sub, t'⟩, hg⟩ := genMoves_total
        (child := fun c p b t => genNode f (depth + 1) c (some base) p b t) (mv :: mvs) (base + 1) tidx hchild
      rw [hg]
      exact ⟨_, rfl⟩

theorem le_maxNameLen (chains : List Chain) : ∀ c ∈ chains, c.name.length ≤ maxNameLen chains := by
  induction chains with
  | nil => intro c hc; simp at hc
  | cons a r ih =>
    intro c hc
    unfold maxNameLen
    simp only [List.foldr_cons]
    rcases List.mem_cons.mp hc with hc | hc
    · subst hc; exact Nat.le_max_left _ _
    · exact Nat.le_trans (ih c hc) (Nat.le_max_right _ _)

/-! ### pass 5 only raises `SemanticError` -/

theorem signersOfStr_error {pool : List PreNode} : ∀ {l : List String} {e : CErr},
    signersOfStr pool l = .error e → e = .semantic := by
  intro l
  induction l with
  | nil => intro e h; simp [signersOfStr] at h
  | cons rid r ih =>
    intro e h
    unfold signersOfStr at h
    split at h
    · injection h with h; exact h.symm
    · split at h
      · rename_i e' he; injection h with h; subst h; exact ih he
      · simp at h

theorem fixSigning_error {pool : List PreNode} {e : CErr} (h : fixSigning pool = .error e) : e = .semantic := by
  unfold fixSigning at h
  obtain ⟨n, _, hn⟩ := mapE_error h
  unfold fixNode at hn
  split at hn
  · rename_i e' he; injection hn with hn; subst hn; exact signersOfStr_error he
  · simp at hn

theorem buildModel_error {chains : List Chain} {named : List String} {e : CErr}
    (h : buildModel chains named = .error e) : e = .semantic := by
  unfold buildModel at h
  obtain ⟨⟨pool, t⟩, hg⟩ := genNode_total (maxNameLen chains) 0 chains none [] 0 named.length
    (fun c hc => ⟨Nat.zero_le _, by have := le_maxNameLen chains c hc; omega⟩)
  rw [hg] at h
  simp only [] at h
  split at h
  · rename_i e' he; injection h with h; subst h; exact fixSigning_error he
  · simp at h

/-- **every error of the compiler model is a `SemanticError`** -/
theorem compile_error_semantic (S : Schema) (e : CErr) (h : compile S = .error e) : e = .semantic := by
  unfold compile at h
  split at h
  · rename_i e' hch
    injection h with h; subst h
    unfold chainsOf at hch
    split at hch
    · rename_i e2 hs; injection hch with hch; subst hch; exact sortRuleReferences_error S _ hs
    · rename_i rules hsort
      split at hch
      · rename_i e2 hn; injection hch with hch; subst hch; exact genPatternNumbers_error hn
      · rename_i nrules named hnum
        split at hch
        · rename_i e2 hr
          exfalso
          have hrb := sortRuleReferences_refsBefore S rules hsort
          rw [← genPatternNumbers_pairs hnum] at hrb
          obtain ⟨res, hres⟩ := replicateLoop_total nrules [] (firstFreshTemp nrules)
            (fun pre x post hsplit i hi => Or.inl (hrb pre x post hsplit i hi))
          unfold replicateRules at hr
          rw [hres] at hr
          simp at hr
        · simp at hch
  · split at h
    · rename_i e' hb; injection h with h; subst h; exact buildModel_error hb
    · simp at h

/-- **an undefined signer is refused with `SemanticError`** -/
theorem compile_badSigner (S : Schema) (r : SRule) (hr : r ∈ S.rules) (s : String) (hs : s ∈ r.sign)
    (hbad : s ∉ ruleIds (renameTemps S.rules 1)) : compile S = .error .semantic := by
  cases h : compile S with
  | error e => rw [compile_error_semantic S e h]
  | ok res => exact absurd (compile_ok_signers S res h r hr s hs) hbad

end Ndn.Lvs
