import NdnProofs.Lemmas.Lvs.CompileStatic
/-!
  The compiler emits one value edge per distinct component value: compiled models are `VDet`.
-/
namespace Ndn.Lvs

theorem eq_of_nodup_map {α β : Type} (f : α → β) : ∀ (l : List α), (l.map f).Nodup → ∀ a ∈ l, ∀ b ∈ l, f a = f b → a = b := by
  intro l
  induction l with
  | nil => intro _ a ha; simp at ha
  | cons x r ih =>
    intro hnd a ha b hb hab
    rw [List.map_cons, List.nodup_cons] at hnd
    rcases List.mem_cons.mp ha with ha | ha <;> rcases List.mem_cons.mp hb with hb | hb
    · rw [ha, hb]
    · exact absurd (by rw [← ha, hab]; exact List.mem_map_of_mem hb) hnd.1
    · exact absurd (by rw [← hb, ← hab]; exact List.mem_map_of_mem ha) hnd.1
    · exact ih hnd.2 a ha b hb hab

/-- the values of the value edges of a node are pairwise distinct -/
def VNodup (n : PreNode) : Prop := (n.vEdges.map (·.value)).Nodup

theorem genMoves_vals {child : List Chain → List Int → Nat → Nat → Except CErr (List PreNode × Nat)}
    (hc : ∀ c p b t sub t', child c p b t = .ok (sub, t') → ∀ n ∈ sub, VNodup n) :
    ∀ (mvs : List Move) (base tidx : Nat) (ves : List VEdge) (pes : List PEdge) (nodes : List PreNode) (t' : Nat),
      genMoves child mvs base tidx = .ok (ves, pes, nodes, t') →
      (∀ n ∈ nodes, VNodup n) ∧ ves.map (·.value) = (mvs.filterMap (·.value)).map some := by
  intro mvs
  induction mvs with
  | nil =>
    intro base tidx ves pes nodes t' h
    simp only [genMoves] at h
    injection h with h
    simp only [Prod.mk.injEq] at h
    obtain ⟨rfl, rfl, rfl, _⟩ := h
    simp
  | cons mv r ih =>
    intro base tidx ves pes nodes t' h
    unfold genMoves at h
    simp only [] at h
    split at h
    · simp at h
    · rename_i sub tidx2 hsub
      split at h
      · simp at h
      · rename_i ves' pes' rest tidx3 hrest
        obtain ⟨hr1, hr2⟩ := ih _ _ _ _ _ _ hrest
        have hall : ∀ n ∈ sub ++ rest, VNodup n := by
          intro n hn
          rcases List.mem_append.mp hn with hn | hn
          · exact hc _ _ _ _ _ _ hsub n hn
          · exact hr1 n hn
        split at h
        · rename_i v hv
          injection h with h
          simp only [Prod.mk.injEq] at h
          obtain ⟨rfl, rfl, rfl, _⟩ := h
          refine ⟨hall, ?_⟩
          simp [hv, hr2]
        · rename_i hv
          injection h with h
          simp only [Prod.mk.injEq] at h
          obtain ⟨rfl, rfl, rfl, _⟩ := h
          refine ⟨hall, ?_⟩
          simp [hv, hr2]

theorem vMoves_values (depth : Nat) (ctx : List Chain) (prev : List Int) :
    (vMoves depth ctx prev).filterMap (·.value) = sortDedup bytesLe (ctx.filterMap (litAt depth)) := by
  unfold vMoves
  rw [List.filterMap_map]
  simp only [Function.comp_def]
  exact List.filterMap_some

theorem pMoves_values (depth : Nat) (ctx : List Chain) (prev : List Int) :
    (pMoves depth ctx prev).filterMap (·.value) = [] := by
  rw [List.filterMap_eq_nil_iff]
  intro mv hmv
  unfold pMoves at hmv
  simp only [List.mem_filterMap] at hmv
  obtain ⟨s, _, hm⟩ := hmv
  split at hm
  · simp at hm
  · injection hm with hm; subst hm; rfl

theorem genNode_vnodup : ∀ (fuel depth : Nat) (ctx : List Chain) (parent : Option Nat) (prev : List Int)
    (base tidx : Nat) (nodes : List PreNode) (t' : Nat),
    genNode fuel depth ctx parent prev base tidx = .ok (nodes, t') → ∀ n ∈ nodes, VNodup n := by
  intro fuel
  induction fuel with
  | zero =>
    intro depth ctx parent prev base tidx nodes t' h
    unfold genNode at h
    simp only [] at h
    split at h
    · injection h with h
      simp only [Prod.mk.injEq] at h
      obtain ⟨rfl, _⟩ := h
      intro n hn
      simp at hn; subst hn
      simp [VNodup]
    · simp at h
  | succ f ih =>
    intro depth ctx parent prev base tidx nodes t' h
    unfold genNode at h
    simp only [] at h
    split at h
    · injection h with h
      simp only [Prod.mk.injEq] at h
      obtain ⟨rfl, _⟩ := h
      intro n hn
      simp at hn; subst hn
      simp [VNodup]
    · rename_i mv mvs hmoves
      split at h
      · simp at h
      · rename_i ves pes sub tidx' hgm
        injection h with h
        simp only [Prod.mk.injEq] at h
        obtain ⟨rfl, _⟩ := h
        obtain ⟨hall, hvals⟩ := genMoves_vals (fun c p b t sub t2 hg => ih _ _ _ _ _ _ _ _ hg) _ _ _ _ _ _ _ hgm
        intro n hn
        rcases List.mem_cons.mp hn with hn | hn
        · subst hn
          unfold VNodup
          simp only []
          rw [hvals, ← hmoves, List.filterMap_append, vMoves_values, pMoves_values, List.append_nil]
          exact List.Pairwise.map some (fun a b hab h => hab (Option.some.inj h)) (nodup_sortDedup _ _)
        · exact hall n hn

theorem vdet_of_vnodup (m : Model)
    (h : ∀ (i : Nat) (node : Node), m.nodes[i]? = some node → (node.vEdges.map (·.value)).Nodup) : VDet m := by
  intro n node hn ve₁ ve₂ h1 h2 c hc1 hc2
  rw [eq_of_nodup_map (·.value) node.vEdges (h n node hn) ve₁ h1 ve₂ h2 (by rw [hc1, hc2])]

theorem buildModel_vdet (chains : List Chain) (named : List String) (m : Model)
    (h : buildModel chains named = .ok m) : VDet m := by
  unfold buildModel at h
  split at h
  · simp at h
  · rename_i pool tidx hg
    split at h
    · simp at h
    · rename_i nodes hfix
      injection h with h
      subst h
      apply vdet_of_vnodup
      intro i node hi
      simp only [] at hi
      obtain ⟨b, hb, hf⟩ := mapE_ok_mem' hfix node (List.mem_of_getElem? hi)
      rw [(fixNode_ok hf).2.2.2.1]
      exact genNode_vnodup _ _ _ _ _ _ _ _ _ hg b hb

theorem compile_vdet (S : Schema) (m : Model) (syms : List String) (h : compile S = .ok (m, syms)) : VDet m := by
  unfold compile at h
  split at h
  · simp at h
  · rename_i chains named hch
    split at h
    · simp at h
    · rename_i m' hb
      injection h with h
      simp only [Prod.mk.injEq] at h
      obtain ⟨rfl, _⟩ := h
      exact buildModel_vdet chains named m' hb

end Ndn.Lvs
