import NdnProofs.Lemmas.Lvs.Match
/-!
  Constraint evaluation (`_check_cons`, the pattern-edge move) against the specification
  (`OptSat`, `ConsSat`, `Accepts`); totality on sane models; the search under an arbitrary `user_fns`
  dictionary compared with the search in which a raising edge refuses.
-/
namespace Ndn.Lvs

theorem argVal_eq_ArgDen : argVal = ArgDen := by
  funext σ a; unfold argVal ArgDen; rfl

theorem evalOpt_ok_iff (env : FnEnv) (c : Bytes) (σ : Ctx) (o : ConsOption) (b : Bool)
    (h : evalOpt env c σ o = .ok b) : b = true ↔ OptSat (pureOf env) σ c o := by
  unfold evalOpt at h
  unfold OptSat
  cases hv : o.value with
  | some v =>
    simp only [hv] at h ⊢
    cases h; simp
  | none =>
    cases htg : o.tag with
    | some t =>
      simp only [hv, htg] at h ⊢
      cases h; simp
    | none =>
      cases hf : o.fn with
      | none => simp [hv, htg, hf] at h
      | some f =>
        simp only [hv, htg, hf] at h ⊢
        cases hid : f.fnId with
        | none => simp [hid] at h
        | some id =>
          simp only [hid] at h
          cases he : env id with
          | none => simp [he] at h
          | some gf =>
            simp only [he] at h
            constructor
            · intro hb
              refine ⟨id, rfl, ?_⟩
              simp [pureOf, he, ← argVal_eq_ArgDen, h, hb]
            · rintro ⟨id', hid', hp⟩
              cases hid'
              simpa [pureOf, he, ← argVal_eq_ArgDen, h] using hp

theorem evalClause_ok_iff (env : FnEnv) (c : Bytes) (σ : Ctx) (cl : List ConsOption) (b : Bool)
    (h : evalClause env c σ cl = .ok b) : b = true ↔ ∃ o ∈ cl, OptSat (pureOf env) σ c o := by
  induction cl with
  | nil => simp [evalClause] at h; simp [← h]
  | cons o r ih =>
    simp only [evalClause] at h
    cases ho : evalOpt env c σ o with
    | error e => simp [ho] at h
    | ok bo =>
      have hspec := evalOpt_ok_iff env c σ o bo ho
      cases bo with
      | true =>
        simp [ho] at h
        subst h
        simp only [true_iff]
        exact ⟨o, by simp, hspec.mp rfl⟩
      | false =>
        simp [ho] at h
        have := ih h
        rw [this]
        constructor
        · rintro ⟨o', hm, hs⟩; exact ⟨o', List.mem_cons_of_mem _ hm, hs⟩
        · rintro ⟨o', hm, hs⟩
          rcases List.mem_cons.mp hm with rfl | hm
          · exact absurd (hspec.mpr hs) (by simp)
          · exact ⟨o', hm, hs⟩

theorem checkCons_ok_iff (env : FnEnv) (c : Bytes) (σ : Ctx) (cons : List Constraint) (b : Bool)
    (h : checkCons env c σ cons = .ok b) : b = true ↔ ConsSat (pureOf env) σ c cons := by
  unfold ConsSat
  induction cons with
  | nil => simp [checkCons] at h; simp [← h]
  | cons cl r ih =>
    simp only [checkCons] at h
    cases hc : evalClause env c σ cl with
    | error e => simp [hc] at h
    | ok bc =>
      have hspec := evalClause_ok_iff env c σ cl bc hc
      cases bc with
      | false =>
        simp [hc] at h
        subst h
        simp only [Bool.false_eq_true, false_iff]
        intro hall
        exact absurd (hspec.mpr (hall cl (by simp))) (by simp)
      | true =>
        simp [hc] at h
        rw [ih h]
        constructor
        · intro hall cl' hm
          rcases List.mem_cons.mp hm with rfl | hm
          · exact hspec.mp rfl
          · exact hall cl' hm
        · intro hall cl' hm
          exact hall cl' (List.mem_cons_of_mem _ hm)

/-- the pattern-edge move against `Accepts` -/
theorem tryEdge_ok_iff (env : FnEnv) (cnt : Nat) (pe : PEdge) (c : Bytes) (σ σ' : Ctx)
    (r : Option (Ctx × Option Nat)) (h : tryEdge env cnt pe c σ = .ok r) :
    (∃ mt, r = some (σ', mt)) ↔ Accepts (pureOf env) cnt pe c σ σ' := by
  unfold tryEdge at h
  unfold Accepts
  cases ht : pe.tag with
  | none =>
    simp only [ht] at h
    cases hc : checkCons env c σ pe.cons with
    | error e => simp [hc] at h
    | ok b =>
      cases b <;> simp [hc] at h
      subst h; simp
  | some t =>
    simp only [ht] at h
    cases hg : PyDict.get? σ t with
    | some v =>
      simp only [hg] at h
      by_cases hvc : v = c
      · subst hvc
        simp only [ne_eq, not_true_eq_false, if_false] at h
        cases hc : checkCons env v σ pe.cons with
        | error e => simp [hc] at h
        | ok b =>
          have hspec := checkCons_ok_iff env v σ pe.cons b hc
          cases b with
          | false =>
            simp [hc] at h; subst h
            simp only [reduceCtorEq, exists_false, false_iff]
            rintro ⟨t', ht', hcs, _⟩
            exact absurd (hspec.mpr hcs) (by simp)
          | true =>
            simp [hc] at h; subst h
            constructor
            · rintro ⟨mt, hmt⟩
              simp at hmt
              exact ⟨t, rfl, hspec.mp rfl, Or.inl ⟨hg, hmt.1.symm⟩⟩
            · rintro ⟨t', ht', _, hor⟩
              cases ht'
              rcases hor with ⟨_, rfl⟩ | ⟨hn, _⟩
              · exact ⟨none, rfl⟩
              · rw [hg] at hn; cases hn
      · simp only [ne_eq, hvc, not_false_eq_true, if_true] at h
        cases h
        simp only [reduceCtorEq, exists_false, false_iff]
        rintro ⟨t', ht', _, hor⟩
        cases ht'
        rcases hor with ⟨hs, _⟩ | ⟨hn, _⟩
        · rw [hg] at hs; cases hs; exact hvc rfl
        · rw [hg] at hn; cases hn
    | none =>
      simp only [hg] at h
      cases hc : checkCons env c σ pe.cons with
      | error e => simp [hc] at h
      | ok b =>
        have hspec := checkCons_ok_iff env c σ pe.cons b hc
        cases b with
        | false =>
          simp [hc] at h; subst h
          simp only [reduceCtorEq, exists_false, false_iff]
          rintro ⟨t', ht', hcs, _⟩
          exact absurd (hspec.mpr hcs) (by simp)
        | true =>
          simp only [hc] at h
          constructor
          · rintro ⟨mt, hmt⟩
            subst hmt
            refine ⟨t, rfl, hspec.mp rfl, Or.inr ⟨hg, ?_⟩⟩
            by_cases hle : t ≤ cnt
            · simp [hle] at h ⊢; exact h.1.symm
            · simp [hle] at h ⊢; exact h.1.symm
          · rintro ⟨t', ht', _, hor⟩
            cases ht'
            rcases hor with ⟨hs, _⟩ | ⟨_, hσ⟩
            · rw [hg] at hs; cases hs
            · by_cases hle : t ≤ cnt
              · simp [hle] at h hσ; subst hσ; exact ⟨some t, h.symm⟩
              · simp [hle] at h hσ; subst hσ; exact ⟨none, h.symm⟩

theorem erase_set_of_get?_none (σ : Ctx) (t : Nat) (c : Bytes) (h : PyDict.get? σ t = none) :
    PyDict.erase (PyDict.set σ t c) t = σ := by
  induction σ with
  | nil => simp [PyDict.set, PyDict.erase]
  | cons p r ih =>
    obtain ⟨a, b⟩ := p
    by_cases hat : a = t
    · simp [PyDict.get?, hat] at h
    · simp only [PyDict.get?, hat, if_false] at h
      have := ih h
      simp only [PyDict.erase] at this
      simp only [PyDict.set, hat, if_false, PyDict.erase, List.filter_cons]
      simp only [ne_eq, hat, not_false_eq_true, decide_true, if_true]
      rw [this]

/-- the checker's edge function undoes on back-tracking exactly what it bound -/
theorem edgeDisc_tryEdge (env : FnEnv) (cnt : Nat) : EdgeDisc (tryEdge env cnt) := by
  intro pe c σ σ' mt h
  unfold tryEdge at h
  cases ht : pe.tag with
  | none =>
    simp only [ht] at h
    cases hc : checkCons env c σ pe.cons with
    | error e => simp [hc] at h
    | ok b => cases b <;> simp [hc] at h
  | some t =>
    simp only [ht] at h
    cases hg : PyDict.get? σ t with
    | some v =>
      simp only [hg] at h
      by_cases hvc : v = c
      · simp only [ne_eq, hvc, not_true_eq_false, if_false] at h
        cases hc : checkCons env c σ pe.cons with
        | error e => simp [hc] at h
        | ok b =>
          cases b <;> simp [hc] at h
          obtain ⟨rfl, rfl⟩ := h; rfl
      · simp [hvc] at h
    | none =>
      simp only [hg] at h
      cases hc : checkCons env c σ pe.cons with
      | error e => simp [hc] at h
      | ok b =>
        cases b <;> simp only [hc] at h
        · simp at h
        · by_cases hle : t ≤ cnt
          · simp [hle] at h
            obtain ⟨rfl, rfl⟩ := h
            exact erase_set_of_get?_none σ t c hg
          · simp [hle] at h
            obtain ⟨rfl, rfl⟩ := h; rfl

/-! ### totality on sane models -/

theorem evalOpt_total (env : FnEnv) (henv : EnvTotal env) (c : Bytes) (σ : Ctx) (o : ConsOption)
    (hs : OptionShape o) : ∃ b, evalOpt env c σ o = .ok b := by
  unfold evalOpt
  cases hv : o.value with
  | some v => exact ⟨_, rfl⟩
  | none =>
    cases htg : o.tag with
    | some t => exact ⟨_, rfl⟩
    | none =>
      rcases hs with ⟨⟨v, hv', _⟩, _⟩ | ⟨_, ⟨t, ht⟩, _⟩ | ⟨_, _, f, id, hf, hid, _⟩
      · rw [hv] at hv'; cases hv'
      · rw [htg] at ht; cases ht
      · obtain ⟨gf, hg, htot⟩ := henv id
        obtain ⟨b, hb⟩ := htot c (f.args.map (argVal σ))
        exact ⟨b, by simp [hf, hid, hg, hb]⟩

theorem evalClause_total (env : FnEnv) (henv : EnvTotal env) (c : Bytes) (σ : Ctx) (cl : List ConsOption)
    (hs : ∀ o ∈ cl, OptionShape o) : ∃ b, evalClause env c σ cl = .ok b := by
  induction cl with
  | nil => exact ⟨false, rfl⟩
  | cons o r ih =>
    obtain ⟨b, hb⟩ := evalOpt_total env henv c σ o (hs o (by simp))
    simp only [evalClause, hb]
    cases b with
    | true => exact ⟨true, rfl⟩
    | false => exact ih (fun o' hm => hs o' (List.mem_cons_of_mem _ hm))

theorem checkCons_total (env : FnEnv) (henv : EnvTotal env) (c : Bytes) (σ : Ctx) (cons : List Constraint)
    (hs : ∀ cl ∈ cons, ∀ o ∈ cl, OptionShape o) : ∃ b, checkCons env c σ cons = .ok b := by
  induction cons with
  | nil => exact ⟨true, rfl⟩
  | cons cl r ih =>
    obtain ⟨b, hb⟩ := evalClause_total env henv c σ cl (hs cl (by simp))
    simp only [checkCons, hb]
    cases b with
    | false => exact ⟨false, rfl⟩
    | true => exact ih (fun cl' hm => hs cl' (List.mem_cons_of_mem _ hm))

/-- on a sane model with total user functions no pattern edge of a reachable node raises -/
theorem edgeTotal_of_sane {m : Model} (hs : Sane m) (env : FnEnv) (henv : EnvTotal env) :
    EdgeTotal m (edgeFn m env) := by
  intro n node pe hr hn hpe c σ
  obtain ⟨t, ht⟩ := (hs.edges n node hr hn).2.1 pe hpe
  obtain ⟨b, hb⟩ := checkCons_total env henv c σ pe.cons (hs.options n node hr hn pe hpe)
  unfold edgeFn tryEdge
  simp only [ht, hb]
  cases PyDict.get? σ t with
  | some v =>
    by_cases hvc : v = c
    · cases b <;> simp [hvc]
    · simp [hvc]
  | none =>
    cases b with
    | false => exact ⟨_, rfl⟩
    | true => by_cases hle : t ≤ m.namedCnt <;> simp [hle]

/-! ### an arbitrary `user_fns` dictionary: the search stops at the first exception -/

/-- the edge function in which a raising evaluation refuses the edge instead -/
def refuseErr (g : EdgeFn) : EdgeFn := fun pe c σ =>
  match g pe c σ with
  | .error _ => .ok none
  | .ok r => .ok r

theorem refuseErr_total (m : Model) (g : EdgeFn) : EdgeTotal m (refuseErr g) := by
  intro n node pe _ _ _ c σ
  unfold refuseErr
  cases g pe c σ with
  | error e => exact ⟨none, rfl⟩
  | ok r => exact ⟨r, rfl⟩

theorem refuseErr_disc (g : EdgeFn) (hd : EdgeDisc g) : EdgeDisc (refuseErr g) := by
  intro pe c σ σ' mt h
  unfold refuseErr at h
  cases hg : g pe c σ with
  | error e => simp [hg] at h
  | ok r => simp [hg] at h; subst h; exact hd pe c σ σ' mt hg

theorem matchTreeG_refuseErr (m : Model) (g : EdgeFn) (name : List Bytes) (n : Nat) (σ : Ctx) :
    matchTreeG m (refuseErr g) name n σ = matchTreeG m g name n σ := by
  induction name generalizing n σ with
  | nil => rfl
  | cons c rest ih =>
    simp only [matchTreeG]
    cases m.nodes[n]? with
    | none => rfl
    | some node =>
      simp only
      congr 1
      · cases firstV node.vEdges c with
        | none => rfl
        | some d => cases d with
          | none => rfl
          | some d => exact ih d σ
      · congr 1
        funext pe
        unfold refuseErr
        cases g pe c σ with
        | error e => rfl
        | ok r =>
          cases r with
          | none => rfl
          | some p =>
            cases pe.dest with
            | none => rfl
            | some d => exact ih d p.1

theorem stepG_sim (m : Model) (g : EdgeFn) (name : List Bytes) (S : St) :
    stepG m g name S = stepG m (refuseErr g) name S ∨ ∃ e, stepG m g name S = S.fail e := by
  unfold stepG
  cases S.cur with
  | none => exact Or.inl rfl
  | some cur =>
    simp only
    cases m.nodes[cur]? with
    | none => exact Or.inl rfl
    | some node =>
      simp only
      split
      · exact Or.inl rfl
      · cases name[S.stk.length]? with
        | none => exact Or.inl rfl
        | some c =>
          simp only
          cases S.ei with
          | none => exact Or.inl rfl
          | some i =>
            simp only
            cases node.pEdges[i]? with
            | none => exact Or.inl rfl
            | some pe =>
              simp only [refuseErr]
              cases g pe c S.ctx with
              | error e => exact Or.inr ⟨e, rfl⟩
              | ok r => exact Or.inl rfl

theorem fail_cur (S : St) (e : LvsErr) : (S.fail e).cur = none := rfl

/-- the run under `g` equals the run in which raising edges refuse, or it stopped with an exception
    at some earlier state of that run -/
theorem runG_sim (m : Model) (g : EdgeFn) (name : List Bytes) (k : Nat) (S : St) :
    runG m g name k S = runG m (refuseErr g) name k S ∨
      ∃ j e, j < k ∧ runG m g name k S = (runG m (refuseErr g) name j S).fail e := by
  induction k generalizing S with
  | zero => exact Or.inl rfl
  | succ k ih =>
    rw [runG_succ, runG_succ]
    rcases stepG_sim m g name S with h | ⟨e, h⟩
    · rw [h]
      rcases ih (stepG m (refuseErr g) name S) with h2 | ⟨j, e, hj, h2⟩
      · exact Or.inl h2
      · refine Or.inr ⟨j + 1, e, by omega, ?_⟩
        rw [h2, runG_succ]
    · rw [h, runG_halted _ _ _ _ _ (fail_cur S e)]
      exact Or.inr ⟨0, e, by omega, rfl⟩

end Ndn.Lvs
