import NdnModel.Lvs.KeyPath
import NdnProofs.Lemmas.Lvs.SrcShape
import NdnProofs.Lemmas.Lvs.KeyInj
/-!
  **Which chains end at which node of the compiled tree**: the node a chain ends at is determined by its merge-key
  path (`keyPath`, `NdnModel/Lvs/KeyPath.lean`), and chains with different key paths end at different nodes
  (`genNode_keys`).  Hence a signing cycle among the nodes of the compiled model is exactly a signing cycle among the
  key paths of the chains (`signCycle_iff_keySelfSigning`).
-/
namespace Ndn.Lvs

theorem keyFrom_eq_nil {rc : Chain} {l : List Atom} {prev : List Int} : keyFrom rc l prev = [] ↔ l = [] := by
  cases l with
  | nil => simp [keyFrom]
  | cons a r => cases a <;> simp [keyFrom]

/-- the key of `pattern_movement` determines the tag -/
theorem pmove_key_tag {rc rc' : Chain} {t t' : Int} {prev : List Int}
    (h : (pmove rc t prev).2 = (pmove rc' t' prev).2) : t = t' := by
  rw [pmove_eq, pmove_eq] at h
  split at h <;> split at h <;> exact (tagKey_inj h).1

theorem getElem?_of_drop {α : Type} {l : List α} {i : Nat} {a : α} {tl : List α} (h : l.drop i = a :: tl) :
    l[i]? = some a := by
  have := congrArg (fun x => x[0]?) h
  simpa [List.getElem?_drop] using this

/-- the chains that follow a pattern move are exactly the chains of the context with the key of the move -/
theorem mem_pMoves_ctx_iff {depth : Nat} {ctx : List Chain} {prev : List Int} {mv : Move} (h : mv ∈ pMoves depth ctx prev) :
    ∃ rc0 ∈ ctx, ∃ t0, patAt depth rc0 = some t0 ∧ mv.value = none ∧ mv.prev = prev ++ [t0] ∧
      ∀ rc, rc ∈ mv.ctx ↔ rc ∈ ctx ∧ ∃ t, patAt depth rc = some t ∧ (pmove rc t prev).2 = (pmove rc0 t0 prev).2 := by
  unfold pMoves at h
  simp only [List.mem_filterMap] at h
  obtain ⟨s, _, hm⟩ := h
  split at hm
  · simp at hm
  · rename_i pm rest hf
    injection hm with hm; subst hm
    have hmem : ∀ x, x ∈ pm :: rest ↔ x ∈ pMovesRaw depth ctx prev ∧ x.2.2.1 = s := by
      intro x
      rw [← hf, List.mem_filter]
      simp
    obtain ⟨h0, hs0⟩ := (hmem pm).mp List.mem_cons_self
    obtain ⟨a1, a2, _, a4⟩ := mem_pMovesRaw h0
    refine ⟨pm.2.2.2, a1, pm.1, a2, rfl, rfl, fun rc => ?_⟩
    simp only [List.mem_map]
    constructor
    · rintro ⟨x, hx, rfl⟩
      obtain ⟨hx0, hxs⟩ := (hmem x).mp hx
      obtain ⟨b1, b2, _, b4⟩ := mem_pMovesRaw hx0
      exact ⟨b1, x.1, b2, by rw [← b4, ← a4, hxs, hs0]⟩
    · rintro ⟨hrc, t, ht, hk⟩
      refine ⟨(t, (pmove rc t prev).1, (pmove rc t prev).2, rc), (hmem _).mpr ⟨?_, ?_⟩, rfl⟩
      · unfold pMovesRaw
        rw [List.mem_filterMap]
        exact ⟨rc, hrc, by simp [ht]⟩
      · show (pmove rc t prev).2 = s
        rw [hk, ← a4, hs0]

/-- **a move stands for one merge key**: the chains that follow it are exactly the chains of the context whose key path
    continues with that key -/
theorem move_key {depth : Nat} {ctx : List Chain} {prev : List Int} {mv : Move}
    (h : mv ∈ vMoves depth ctx prev ++ pMoves depth ctx prev) :
    ∃ k : MKey,
      (∀ rc ∈ mv.ctx, rc ∈ ctx ∧
        keyFrom rc (rc.name.drop depth) prev = k :: keyFrom rc (rc.name.drop (depth + 1)) mv.prev) ∧
      (∀ rc ∈ ctx, ∀ rest, keyFrom rc (rc.name.drop depth) prev = k :: rest → rc ∈ mv.ctx) := by
  rcases List.mem_append.mp h with h | h
  · obtain ⟨v, _, hp, hctx⟩ := mem_vMoves h
    refine ⟨.lit v, fun rc hrc => ?_, fun rc hrc rest hk => ?_⟩
    · obtain ⟨h1, h2⟩ := (hctx rc).mp hrc
      refine ⟨h1, ?_⟩
      rw [drop_of_getElem? (litAt_iff.mp h2), hp]
      rfl
    · refine (hctx rc).mpr ⟨hrc, litAt_iff.mpr ?_⟩
      cases hd : rc.name.drop depth with
      | nil => rw [hd] at hk; simp [keyFrom] at hk
      | cons a tl =>
        rw [hd] at hk
        cases a with
        | lit w =>
          simp only [keyFrom, List.cons.injEq, MKey.lit.injEq] at hk
          rw [getElem?_of_drop hd, hk.1]
        | pat t => simp [keyFrom] at hk
  · obtain ⟨rc0, _, t0, _, _, hprev, hctx⟩ := mem_pMoves_ctx_iff h
    refine ⟨.pat (pmove rc0 t0 prev).2, fun rc hrc => ?_, fun rc hrc rest hk => ?_⟩
    · obtain ⟨h1, t, ht, hkey⟩ := (hctx rc).mp hrc
      refine ⟨h1, ?_⟩
      have htt : t = t0 := pmove_key_tag hkey
      subst htt
      rw [drop_of_getElem? (patAt_iff.mp ht), hprev, ← hkey]
      rfl
    · refine (hctx rc).mpr ⟨hrc, ?_⟩
      cases hd : rc.name.drop depth with
      | nil => rw [hd] at hk; simp [keyFrom] at hk
      | cons a tl =>
        rw [hd] at hk
        cases a with
        | lit w => simp [keyFrom] at hk
        | pat t =>
          simp only [keyFrom, List.cons.injEq, MKey.pat.injEq] at hk
          exact ⟨t, patAt_iff.mpr (getElem?_of_drop hd), hk.1⟩

/-- node `n` is the node of the key path `kp` among the chains `ctx` (from `depth` on, the tags `prev` having been met):
    the rules and signers it carries come from chains with that key path, and it carries every chain with that key path -/
def NodeKey (ctx : List Chain) (depth : Nat) (prev : List Int) (n : PreNode) (kp : List MKey) : Prop :=
  (∀ rid ∈ n.ruleNames, ∃ rc ∈ ctx, rc.id = rid ∧ keyFrom rc (rc.name.drop depth) prev = kp) ∧
  (∀ s ∈ n.signStr, ∃ rc ∈ ctx, s ∈ rc.sign ∧ keyFrom rc (rc.name.drop depth) prev = kp) ∧
  (∀ rc ∈ ctx, keyFrom rc (rc.name.drop depth) prev = kp → rc.id ∈ n.ruleNames ∧ ∀ s ∈ rc.sign, s ∈ n.signStr)

theorem ended_key {rc : Chain} {depth : Nat} (prev : List Int) (h : rc.name.length = depth) :
    keyFrom rc (rc.name.drop depth) prev = [] := by
  rw [keyFrom_eq_nil, List.drop_eq_nil_iff]; omega

/-- the node `_generate_node` creates carries the chains that end here: those with the empty key path -/
theorem headKey (ctx : List Chain) (depth : Nat) (prev : List Int) (hlen : ∀ c ∈ ctx, depth ≤ c.name.length)
    (id : Nat) (parent : Option Nat) (ves : List VEdge) (pes : List PEdge) :
    NodeKey ctx depth prev
      { id := id, parent := parent, ruleNames := (ctx.filter (fun rc => rc.name.length == depth)).map (·.id),
        signStr := (ctx.filter (fun rc => rc.name.length == depth)).flatMap (·.sign), vEdges := ves, pEdges := pes } [] := by
  refine ⟨fun rid hrid => ?_, fun s hs => ?_, fun rc hrc hk => ?_⟩
  · simp only [List.mem_map] at hrid
    obtain ⟨rc, hrc, rfl⟩ := hrid
    obtain ⟨hm, hl⟩ := List.mem_filter.mp hrc
    exact ⟨rc, hm, rfl, ended_key prev (eq_of_beq hl)⟩
  · simp only [List.mem_flatMap] at hs
    obtain ⟨rc, hrc, hsr⟩ := hs
    obtain ⟨hm, hl⟩ := List.mem_filter.mp hrc
    exact ⟨rc, hm, hsr, ended_key prev (eq_of_beq hl)⟩
  · rw [keyFrom_eq_nil, List.drop_eq_nil_iff] at hk
    have hl : rc.name.length = depth := by have := hlen rc hrc; omega
    have hf : rc ∈ ctx.filter (fun rc => rc.name.length == depth) := List.mem_filter.mpr ⟨hrc, by simp [hl]⟩
    refine ⟨?_, fun s hs => ?_⟩
    · simp only [List.mem_map]; exact ⟨rc, hf, rfl⟩
    · simp only [List.mem_flatMap]; exact ⟨rc, hf, hs⟩

/-- a node of the subtree below a move has the key of the move in front of its key path -/
theorem NodeKey.lift {ctx : List Chain} {depth : Nat} {prev : List Int} {mv : Move} {k : MKey} {n : PreNode}
    {kp : List MKey}
    (hsub : ∀ rc ∈ mv.ctx, rc ∈ ctx ∧
      keyFrom rc (rc.name.drop depth) prev = k :: keyFrom rc (rc.name.drop (depth + 1)) mv.prev)
    (hin : ∀ rc ∈ ctx, ∀ rest, keyFrom rc (rc.name.drop depth) prev = k :: rest → rc ∈ mv.ctx)
    (h : NodeKey mv.ctx (depth + 1) mv.prev n kp) : NodeKey ctx depth prev n (k :: kp) := by
  obtain ⟨h1, h2, h3⟩ := h
  refine ⟨fun rid hrid => ?_, fun s hs => ?_, fun rc hrc hk => ?_⟩
  · obtain ⟨rc, hrc, hid, hkp⟩ := h1 rid hrid
    exact ⟨rc, (hsub rc hrc).1, hid, by rw [(hsub rc hrc).2, hkp]⟩
  · obtain ⟨rc, hrc, hsg, hkp⟩ := h2 s hs
    exact ⟨rc, (hsub rc hrc).1, hsg, by rw [(hsub rc hrc).2, hkp]⟩
  · have hm := hin rc hrc kp hk
    have := (hsub rc hm).2
    rw [hk] at this
    exact h3 rc hm (List.cons.inj this).2.symm

/-- **every node of the tree has a key path, and every chain ends at the node of its key path** -/
theorem genNode_keys : ∀ (fuel depth : Nat) (ctx : List Chain) (parent : Option Nat) (prev : List Int)
    (base tidx : Nat) (nodes : List PreNode) (t' : Nat), (∀ c ∈ ctx, depth ≤ c.name.length) →
    genNode fuel depth ctx parent prev base tidx = .ok (nodes, t') →
    (∀ n ∈ nodes, ∃ kp, NodeKey ctx depth prev n kp) ∧
    (∀ rc ∈ ctx, ∃ n ∈ nodes, NodeKey ctx depth prev n (keyFrom rc (rc.name.drop depth) prev)) := by
  intro fuel
  induction fuel with
  | zero =>
    intro depth ctx parent prev base tidx nodes t' hlen h
    unfold genNode at h
    simp only [] at h
    split at h
    · rename_i hmoves
      injection h with h
      simp only [Prod.mk.injEq] at h
      obtain ⟨rfl, _⟩ := h
      have hk := headKey ctx depth prev hlen base parent [] []
      refine ⟨fun n hn => ?_, fun rc hrc => ?_⟩
      · simp only [List.mem_singleton] at hn; subst hn; exact ⟨[], hk⟩
      · by_cases he : rc.name.length = depth
        · exact ⟨_, List.mem_cons_self, by rw [ended_key prev he]; exact hk⟩
        · exfalso
          have hlt : depth < rc.name.length := by have := hlen rc hrc; omega
          obtain ⟨mv, hmv, _⟩ := moves_cover depth (ctx.filter (fun rc => !(rc.name.length == depth))) prev rc
            (List.mem_filter.mpr ⟨hrc, by simp [he]⟩) hlt
          rw [hmoves] at hmv
          simp at hmv
    · simp at h
  | succ f ih =>
    intro depth ctx parent prev base tidx nodes t' hlen h
    unfold genNode at h
    simp only [] at h
    split at h
    · rename_i hmoves
      injection h with h
      simp only [Prod.mk.injEq] at h
      obtain ⟨rfl, _⟩ := h
      have hk := headKey ctx depth prev hlen base parent [] []
      refine ⟨fun n hn => ?_, fun rc hrc => ?_⟩
      · simp only [List.mem_singleton] at hn; subst hn; exact ⟨[], hk⟩
      · by_cases he : rc.name.length = depth
        · exact ⟨_, List.mem_cons_self, by rw [ended_key prev he]; exact hk⟩
        · exfalso
          have hlt : depth < rc.name.length := by have := hlen rc hrc; omega
          obtain ⟨mv, hmv, _⟩ := moves_cover depth (ctx.filter (fun rc => !(rc.name.length == depth))) prev rc
            (List.mem_filter.mpr ⟨hrc, by simp [he]⟩) hlt
          rw [hmoves] at hmv
          simp at hmv
    · rename_i mv mvs hmoves
      split at h
      · simp at h
      · rename_i ves pes sub tidx' hgm
        injection h with h
        simp only [Prod.mk.injEq] at h
        obtain ⟨rfl, _⟩ := h
        have hk := headKey ctx depth prev hlen base parent ves pes
        obtain ⟨hcalls, hfrom⟩ := genMoves_calls _ _ _ _ _ _ _ hgm
        have hmvctx : ∀ m ∈ mv :: mvs, ∀ c ∈ m.ctx, c ∈ ctx.filter (fun rc => !(rc.name.length == depth)) := by
          intro m hm
          rw [← hmoves] at hm
          rcases List.mem_append.mp hm with hm | hm
          · exact mem_vMoves_ctx hm
          · exact mem_pMoves_ctx hm
        have hmvlen : ∀ m ∈ mv :: mvs, ∀ c ∈ m.ctx, depth + 1 ≤ c.name.length := by
          intro m hm c hc
          have := List.mem_filter.mp (hmvctx m hm c hc)
          have h1 := hlen c this.1
          have h2 : c.name.length ≠ depth := by simpa using this.2
          omega
        -- the key of a move, with respect to the whole context
        have hmkey : ∀ m ∈ mv :: mvs, ∃ k : MKey,
            (∀ rc ∈ m.ctx, rc ∈ ctx ∧
              keyFrom rc (rc.name.drop depth) prev = k :: keyFrom rc (rc.name.drop (depth + 1)) m.prev) ∧
            (∀ rc ∈ ctx, ∀ rest, keyFrom rc (rc.name.drop depth) prev = k :: rest → rc ∈ m.ctx) := by
          intro m hm
          rw [← hmoves] at hm
          obtain ⟨k, hk1, hk2⟩ := move_key hm
          refine ⟨k, fun rc hrc => ⟨(List.mem_filter.mp (hk1 rc hrc).1).1, (hk1 rc hrc).2⟩, fun rc hrc rest hkey => ?_⟩
          refine hk2 rc (List.mem_filter.mpr ⟨hrc, ?_⟩) rest hkey
          have hne : rc.name.length ≠ depth := by
            intro he
            rw [ended_key prev he] at hkey
            simp at hkey
          simp [hne]
        refine ⟨fun n hn => ?_, fun rc hrc => ?_⟩
        · rcases List.mem_cons.mp hn with hn | hn
          · subst hn; exact ⟨[], hk⟩
          · obtain ⟨m, hm, b, t, s, t2, hc, hns⟩ := hfrom n hn
            obtain ⟨kp, hkp⟩ := (ih _ _ _ _ _ _ _ _ (hmvlen m hm) hc).1 n hns
            obtain ⟨k, hk1, hk2⟩ := hmkey m hm
            exact ⟨k :: kp, NodeKey.lift hk1 hk2 hkp⟩
        · by_cases he : rc.name.length = depth
          · exact ⟨_, List.mem_cons_self, by rw [ended_key prev he]; exact hk⟩
          · have hlt : depth < rc.name.length := by have := hlen rc hrc; omega
            obtain ⟨m, hm, hrcm⟩ := moves_cover depth (ctx.filter (fun rc => !(rc.name.length == depth))) prev rc
              (List.mem_filter.mpr ⟨hrc, by simp [he]⟩) hlt
            rw [hmoves] at hm
            obtain ⟨b, t, s, t2, hc, hs⟩ := hcalls m hm
            obtain ⟨n, hn, hnk⟩ := (ih _ _ _ _ _ _ _ _ (hmvlen m hm) hc).2 rc hrcm
            obtain ⟨k, hk1, hk2⟩ := hmkey m hm
            refine ⟨n, List.mem_cons_of_mem _ (hs n hn), ?_⟩
            rw [(hk1 rc hrcm).2]
            exact NodeKey.lift hk1 hk2 hnk

/-! ### every node of the pool is reachable from the root -/

/-- reachable from `root` along the edges of the pre-nodes of `pool` -/
inductive PReach (pool : List PreNode) (root : Nat) : Nat → Prop
  | root : PReach pool root root
  | edge {x d : Nat} {n : PreNode} : PReach pool root x → n ∈ pool → n.id = x → some d ∈ n.dests → PReach pool root d

theorem PReach.mono {A B : List PreNode} {r x : Nat} (hsub : ∀ n ∈ A, n ∈ B) (h : PReach A r x) : PReach B r x := by
  induction h with
  | root => exact .root
  | edge _ hn hid hd ih => exact .edge ih (hsub _ hn) hid hd

theorem PReach.trans {pool : List PreNode} {a b c : Nat} (h1 : PReach pool a b) (h2 : PReach pool b c) :
    PReach pool a c := by
  induction h2 with
  | root => exact h1
  | edge _ hn hid hd ih => exact .edge ih hn hid hd

/-- every block of nodes `genMoves` appends is the result of a call of `child` whose root is the destination of one
    of the edges -/
theorem genMoves_dests {child : List Chain → List Int → Nat → Nat → Except CErr (List PreNode × Nat)} :
    ∀ (mvs : List Move) (base tidx : Nat) (ves : List VEdge) (pes : List PEdge) (nodes : List PreNode) (t' : Nat),
      genMoves child mvs base tidx = .ok (ves, pes, nodes, t') →
      ∀ n ∈ nodes, ∃ mv ∈ mvs, ∃ b t sub t2, child mv.ctx mv.prev b t = .ok (sub, t2) ∧ n ∈ sub ∧
        (∀ x ∈ sub, x ∈ nodes) ∧ (some b ∈ ves.map (·.dest) ∨ some b ∈ pes.map (·.dest)) := by
  intro mvs
  induction mvs with
  | nil =>
    intro base tidx ves pes nodes t' h
    simp only [genMoves] at h
    injection h with h
    simp only [Prod.mk.injEq] at h
    obtain ⟨_, _, rfl, _⟩ := h
    simp
  | cons mv r ih =>
    intro base tidx ves pes nodes t' h
    unfold genMoves at h
    simp only [] at h
    split at h
    · simp at h
    · rename_i sub tidx2 hsub
      split at h
      · simp at h
      · rename_i ves' pes' rest tidx3 hrest
        have hr := ih _ _ _ _ _ _ hrest
        have hshape : nodes = sub ++ rest ∧
            ((some base ∈ ves.map (·.dest) ∨ some base ∈ pes.map (·.dest)) ∧
             (∀ d, d ∈ ves'.map (·.dest) → d ∈ ves.map (·.dest)) ∧ (∀ d, d ∈ pes'.map (·.dest) → d ∈ pes.map (·.dest))) := by
          split at h
          · injection h with h
            simp only [Prod.mk.injEq] at h
            obtain ⟨rfl, rfl, rfl, _⟩ := h
            exact ⟨rfl, Or.inl (by simp), fun d hd => by simp only [List.map_cons, List.mem_cons]; exact Or.inr hd,
              fun d hd => hd⟩
          · injection h with h
            simp only [Prod.mk.injEq] at h
            obtain ⟨rfl, rfl, rfl, _⟩ := h
            exact ⟨rfl, Or.inr (by simp), fun d hd => hd,
              fun d hd => by simp only [List.map_cons, List.mem_cons]; exact Or.inr hd⟩
        obtain ⟨hnodes, hbase, hv, hp⟩ := hshape
        subst hnodes
        intro n hn
        rcases List.mem_append.mp hn with hn | hn
        · exact ⟨mv, List.mem_cons_self, _, _, sub, tidx2, hsub, hn, fun x hx => List.mem_append_left _ hx, hbase⟩
        · obtain ⟨m, hm, b, t, s, t2, hc, hns, hsubs, hd⟩ := hr n hn
          refine ⟨m, List.mem_cons_of_mem _ hm, b, t, s, t2, hc, hns, fun x hx => List.mem_append_right _ (hsubs x hx), ?_⟩
          rcases hd with hd | hd
          · exact Or.inl (hv _ hd)
          · exact Or.inr (hp _ hd)

/-- the first node `genNode` returns carries the identifier `base` -/
theorem genNode_head : ∀ (fuel depth : Nat) (ctx : List Chain) (parent : Option Nat) (prev : List Int)
    (base tidx : Nat) (nodes : List PreNode) (t' : Nat),
    genNode fuel depth ctx parent prev base tidx = .ok (nodes, t') → ∃ hd tl, nodes = hd :: tl ∧ hd.id = base := by
  intro fuel depth ctx parent prev base tidx nodes t' h
  unfold genNode at h
  simp only [] at h
  split at h
  · injection h with h
    simp only [Prod.mk.injEq] at h
    obtain ⟨rfl, _⟩ := h
    exact ⟨_, _, rfl, rfl⟩
  · cases fuel with
    | zero => simp at h
    | succ f =>
      simp only [] at h
      split at h
      · simp at h
      · injection h with h
        simp only [Prod.mk.injEq] at h
        obtain ⟨rfl, _⟩ := h
        exact ⟨_, _, rfl, rfl⟩

/-- **every node `_generate_node` appends is reachable from the node it creates first** -/
theorem genNode_reach : ∀ (fuel depth : Nat) (ctx : List Chain) (parent : Option Nat) (prev : List Int)
    (base tidx : Nat) (nodes : List PreNode) (t' : Nat),
    genNode fuel depth ctx parent prev base tidx = .ok (nodes, t') → ∀ n ∈ nodes, PReach nodes base n.id := by
  intro fuel
  induction fuel with
  | zero =>
    intro depth ctx parent prev base tidx nodes t' h
    unfold genNode at h
    simp only [] at h
    split at h
    · injection h with h
      simp only [Prod.mk.injEq] at h
      obtain ⟨rfl, _⟩ := h
      intro n hn
      simp only [List.mem_singleton] at hn; subst hn
      exact .root
    · simp at h
  | succ f ih =>
    intro depth ctx parent prev base tidx nodes t' h
    have hhead := genNode_head _ _ _ _ _ _ _ _ _ h
    unfold genNode at h
    simp only [] at h
    split at h
    · injection h with h
      simp only [Prod.mk.injEq] at h
      obtain ⟨rfl, _⟩ := h
      intro n hn
      simp only [List.mem_singleton] at hn; subst hn
      exact .root
    · split at h
      · simp at h
      · rename_i ves pes sub tidx' hgm
        injection h with h
        simp only [Prod.mk.injEq] at h
        obtain ⟨rfl, _⟩ := h
        have hd := genMoves_dests _ _ _ _ _ _ _ hgm
        intro n hn
        rcases List.mem_cons.mp hn with hn | hn
        · subst hn; exact .root
        · obtain ⟨m, _, b, t, s, t2, hc, hns, hsubs, hdest⟩ := hd n hn
          have hin := ih _ _ _ _ _ _ _ _ hc n hns
          have hstep : ∀ hd : PreNode, hd.id = base → hd.vEdges = ves → hd.pEdges = pes → PReach (hd :: sub) base b := by
            intro hd h1 h2 h3
            subst h2; subst h3
            refine .edge .root List.mem_cons_self h1 ?_
            unfold PreNode.dests
            rw [List.mem_append]
            exact hdest
          exact (hstep _ rfl rfl rfl).trans (hin.mono fun x hx => List.mem_cons_of_mem _ (hsubs x hx))

/-! ### signers, the other way round -/

theorem ruleNodeIds_mem {pool : List PreNode} {rid : String} {n : PreNode} (hn : n ∈ pool) (hr : rid ∈ n.ruleNames) :
    n.id ∈ ruleNodeIds pool rid := by
  unfold ruleNodeIds
  rw [List.mem_flatMap]
  exact ⟨n, hn, List.mem_map.mpr ⟨rid, List.mem_filter.mpr ⟨hr, by simp⟩, rfl⟩⟩

theorem signersOfStr_mem' {pool : List PreNode} : ∀ {l : List String} {ks : List Nat},
    signersOfStr pool l = .ok ks → ∀ rid ∈ l, ∀ k ∈ ruleNodeIds pool rid, k ∈ ks := by
  intro l
  induction l with
  | nil => intro ks _ rid h; simp at h
  | cons r0 r ih =>
    intro ks h rid hr k hk
    unfold signersOfStr at h
    split at h
    · simp at h
    · rename_i k0 ks0 hids
      split at h
      · simp at h
      · rename_i rest hrest
        injection h with h; subst h
        rcases List.mem_cons.mp hr with hr | hr
        · subst hr
          rw [hids] at hk
          simp only [List.cons_append, List.mem_cons, List.mem_append]
          rcases List.mem_cons.mp hk with hk | hk
          · exact Or.inl hk
          · exact Or.inr (Or.inl hk)
        · simp only [List.cons_append, List.mem_cons, List.mem_append]
          exact Or.inr (Or.inr (ih hrest rid hr k hk))

/-! ### the signing cycle -/

/-- **the exact criterion**: the reachable nodes of the model built from `chains` sign each other in a cycle iff the
    merge-key paths of the chains do -/
theorem signCycle_iff_keySelfSigning (chains : List Chain) (named : List String) (m : Model)
    (hc : ∀ c ∈ chains, ChainOK c) (h : buildModel chains named = .ok m) :
    (∃ C : List Nat, (∃ c, c ∈ C) ∧
      ∀ c ∈ C, ∃ p ∈ C, Reach m p ∧ ∃ pnode, m.nodes[p]? = some pnode ∧ c ∈ pnode.signCons) ↔
    KeySelfSigning chains := by
  unfold buildModel at h
  split at h
  · simp at h
  · rename_i pool tidx hg
    split at h
    · simp at h
    · rename_i nodes hfix
      injection h with h
      subst h
      obtain ⟨hpl, _, _, _, _⟩ := genNode_placed _ _ _ _ _ _ _ _ _ hc hg
      obtain ⟨hlen, hidx⟩ := mapE_ok_idx hfix
      obtain ⟨hkeys1, hkeys2⟩ := genNode_keys _ _ _ _ _ _ _ _ _ (fun c _ => Nat.zero_le _) hg
      have hreach := genNode_reach _ _ _ _ _ _ _ _ _ hg
      -- key paths at depth 0
      have hkp : ∀ rc : Chain, keyFrom rc (rc.name.drop 0) [] = keyPath rc := fun rc => by simp [keyPath]
      -- the pre-node behind a node of the model, and back
      have hnode : ∀ (i : Nat) node, nodes[i]? = some node → ∃ n, pool[i]? = some n ∧ fixNode pool n = .ok node := by
        intro i node hi
        have hil : i < pool.length := by
          rcases Nat.lt_or_ge i nodes.length with h | h
          · omega
          · rw [List.getElem?_eq_none h] at hi; simp at hi
        obtain ⟨b, hb, hf⟩ := hidx i pool[i] (List.getElem?_eq_getElem hil)
        rw [hi] at hb
        injection hb with hb
        subst hb
        exact ⟨pool[i], List.getElem?_eq_getElem hil, hf⟩
      have hat : ∀ n ∈ pool, pool[n.id]? = some n := by
        intro n hn
        obtain ⟨i, hi, rfl⟩ := List.getElem_of_mem hn
        have := hpl.ids i pool[i] (List.getElem?_eq_getElem hi)
        rw [this]; simp [hi]
      have hfixed : ∀ n ∈ pool, ∃ node, nodes[n.id]? = some node ∧ fixNode pool n = .ok node := by
        intro n hn
        obtain ⟨b, hb, hf⟩ := hidx n.id n (hat n hn)
        exact ⟨b, hb, hf⟩
      -- reachability in the model
      have hmreach : ∀ x, PReach pool 0 x →
          Reach { version := some maxVersion, startId := 0, namedCnt := named.length, nodes := nodes } x := by
        intro x hx
        induction hx with
        | root => exact Reach.start
        | @edge x d n _ hn hid hd ih =>
          obtain ⟨node, hnd, hf⟩ := hfixed n hn
          obtain ⟨_, _, _, hve, hpe, _⟩ := fixNode_ok hf
          refine Reach.edge ih (node := node) (by rw [← hid]; exact hnd) ?_
          unfold Node.dests
          unfold PreNode.dests at hd
          rw [hve, hpe]
          exact hd
      constructor
      · -- a cycle of nodes is a cycle of key paths
        rintro ⟨C, hne, hC⟩
        have hedge : ∀ (p : Nat) pnode k, nodes[p]? = some pnode → k ∈ pnode.signCons →
            ∃ pn ∈ pool, pn.id = p ∧ ∃ kn ∈ pool, kn.id = k ∧ ∃ rid, rid ∈ pn.signStr ∧ rid ∈ kn.ruleNames := by
          intro p pnode k hp hk
          obtain ⟨pn, hpn, hf⟩ := hnode p pnode hp
          obtain ⟨_, _, _, _, _, ks, hks, hmem⟩ := fixNode_ok hf
          obtain ⟨rid, hrid, hr⟩ := signersOfStr_mem hks k ((hmem k).mp hk)
          obtain ⟨kn, hkn, hkid, hkr⟩ := mem_ruleNodeIds hr
          have := hpl.ids p pn hpn
          exact ⟨pn, List.mem_of_getElem? hpn, by omega, kn, hkn, hkid, rid, hrid, hkr⟩
        refine ⟨fun kp => ∃ c ∈ C, ∃ n ∈ pool, n.id = c ∧ NodeKey chains 0 [] n kp, ?_, ?_⟩
        · obtain ⟨c, hcC⟩ := hne
          obtain ⟨p, _, _, pnode, hp, hk⟩ := hC c hcC
          obtain ⟨_, _, _, kn, hkn, hkid, _⟩ := hedge p pnode c hp hk
          obtain ⟨kp, hkp'⟩ := hkeys1 kn hkn
          exact ⟨kp, c, hcC, kn, hkn, hkid, hkp'⟩
        · rintro s ⟨c, hcC, n, hn, hnid, hns⟩
          obtain ⟨p, hpC, _, pnode, hp, hk⟩ := hC c hcC
          obtain ⟨pn, hpn, hpid, kn, hkn, hkid, rid, hrs, hrk⟩ := hedge p pnode c hp hk
          have hkn' : kn = n := placed_id_inj hpl hkn hn (by rw [hkid, hnid])
          subst hkn'
          obtain ⟨kpp, hkpp⟩ := hkeys1 pn hpn
          refine ⟨kpp, ⟨p, hpC, pn, hpn, hpid, hkpp⟩, ?_⟩
          obtain ⟨cp, hcp, hsg, hcps⟩ := hkpp.2.1 rid hrs
          obtain ⟨ck, hck, hckid, hcks⟩ := hns.1 rid hrk
          exact ⟨cp, hcp, ck, hck, by rw [← hkp cp, hcps], by rw [← hkp ck, hcks], by rw [hckid]; exact hsg⟩
      · -- a cycle of key paths is a cycle of nodes
        rintro ⟨P, ⟨s0, hs0⟩, hP⟩
        let Q : Nat → Prop := fun i => ∃ n ∈ pool, n.id = i ∧ ∃ s, P s ∧ NodeKey chains 0 [] n s
        have hdec : DecidablePred Q := fun _ => Classical.propDecidable _
        refine ⟨(List.range pool.length).filter (fun i => decide (Q i)), ?_, ?_⟩
        · obtain ⟨p, _, cp, _, ck, hck, _, hks, _⟩ := hP s0 hs0
          obtain ⟨n, hn, hnk⟩ := hkeys2 ck hck
          rw [hkp ck, hks] at hnk
          refine ⟨n.id, List.mem_filter.mpr ⟨List.mem_range.mpr (placed_id_lt hpl hn), ?_⟩⟩
          simp only [decide_eq_true_eq]
          exact ⟨n, hn, rfl, s0, hs0, hnk⟩
        · intro c hcC
          have hq : Q c := by simpa using (List.mem_filter.mp hcC).2
          obtain ⟨n, hn, hnid, s, hs, hns⟩ := hq
          obtain ⟨p, hp, cp, hcp, ck, hck, hkcp, hkck, hsig⟩ := hP s hs
          obtain ⟨pn, hpn, hpnk⟩ := hkeys2 cp hcp
          rw [hkp cp, hkcp] at hpnk
          obtain ⟨pnode, hpnode, hf⟩ := hfixed pn hpn
          refine ⟨pn.id, List.mem_filter.mpr ⟨List.mem_range.mpr (placed_id_lt hpl hpn), ?_⟩,
            hmreach _ (hreach pn hpn), pnode, hpnode, ?_⟩
          · simp only [decide_eq_true_eq]
            exact ⟨pn, hpn, rfl, p, hp, hpnk⟩
          · obtain ⟨_, _, _, _, _, ks, hks, hmem⟩ := fixNode_ok hf
            rw [hmem]
            have h1 : ck.id ∈ pn.signStr := (hpnk.2.2 cp hcp (by rw [hkp cp, hkcp])).2 _ hsig
            have h2 : ck.id ∈ n.ruleNames := (hns.2.2 ck hck (by rw [hkp ck, hkck])).1
            rw [← hnid]
            exact signersOfStr_mem' hks _ h1 _ (ruleNodeIds_mem hn h2)

end Ndn.Lvs
