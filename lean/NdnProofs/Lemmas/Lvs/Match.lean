import NdnModel.Lvs.Match
import NdnModel.Lvs.Sem
/-!
  The iterative back-tracking search (`stepG` / `runG`) computes `matchTreeG` and halts within
  `stepBound` iterations on every model whose reachable part is a tree (`TreeOK`).
-/
namespace Ndn.Lvs

/-- the structural facts the search relies on (a consequence of `Sane`) -/
structure TreeOK (m : Model) : Prop where
  root : ∃ node, m.nodes[m.startId]? = some node ∧ node.parent = none
  edges : ∀ n node, Reach m n → m.nodes[n]? = some node →
    ∀ d ∈ node.dests, ∃ k dn, d = some k ∧ m.nodes[k]? = some dn ∧ dn.parent = some n

theorem Sane.treeOK {m : Model} (h : Sane m) : TreeOK m :=
  ⟨h.root, fun n node hr hn => (h.edges n node hr hn).2.2⟩

/-- undo the binding recorded on `matches` -/
def undo (mt : Option Nat) (ctx : Ctx) : Ctx :=
  match mt with
  | some t => PyDict.erase ctx t
  | none => ctx

/-- the edge function is total on the edges of reachable nodes -/
def EdgeTotal (m : Model) (g : EdgeFn) : Prop :=
  ∀ n node pe, Reach m n → m.nodes[n]? = some node → pe ∈ node.pEdges →
    ∀ c ctx, ∃ r, g pe c ctx = .ok r

/-- what an accepting edge pushes on `matches` undoes its change of the context -/
def EdgeDisc (g : EdgeFn) : Prop :=
  ∀ pe c ctx ctx' mt, g pe c ctx = .ok (some (ctx', mt)) → undo mt ctx' = ctx

section
variable (m : Model) (g : EdgeFn) (name : List Bytes)

theorem stepG_halted (S : St) (h : S.cur = none) : stepG m g name S = S := by
  unfold stepG; rw [h]

theorem runG_halted (k : Nat) (S : St) (h : S.cur = none) : runG m g name k S = S := by
  cases k with
  | zero => rfl
  | succ k => simp [runG, h]

theorem runG_succ (k : Nat) (S : St) : runG m g name (k + 1) S = runG m g name k (stepG m g name S) := by
  cases hc : S.cur with
  | none => rw [stepG_halted m g name S hc, runG_halted m g name _ S hc, runG_halted m g name _ S hc]
  | some c => simp [runG, hc]

theorem runG_add (a b : Nat) (S : St) :
    runG m g name (a + b) S = runG m g name b (runG m g name a S) := by
  induction a generalizing S with
  | zero => simp [runG]
  | succ a ih =>
    rw [show a + 1 + b = (a + b) + 1 by omega, runG_succ, runG_succ, ih]

theorem runG_one (S : St) : runG m g name 1 S = stepG m g name S := by
  rw [runG_succ]; rfl

/-- once halted, more fuel changes nothing -/
theorem runG_of_le (k n : Nat) (S : St) (hk : k ≤ n) (hh : (runG m g name k S).cur = none) :
    runG m g name n S = runG m g name k S := by
  obtain ⟨d, rfl⟩ := Nat.exists_eq_add_of_le hk
  rw [runG_add, runG_halted _ _ _ _ _ hh]

end

theorem drop_cons_facts {α} (l : List α) (j : Nat) (c : α) (r : List α) (h : l.drop j = c :: r) :
    j < l.length ∧ l[j]? = some c ∧ l.drop (j + 1) = r := by
  induction l generalizing j with
  | nil => simp at h
  | cons x xs ih =>
    cases j with
    | zero => simp at h; simp [h]
    | succ j =>
      simp only [List.drop_succ_cons] at h
      obtain ⟨h1, h2, h3⟩ := ih j h
      refine ⟨by simp; omega, ?_, by simpa using h3⟩
      simpa using h2

theorem firstV_some {ves : List VEdge} {c : Bytes} {d : Option Nat} (h : firstV ves c = some d) :
    ∃ ve ∈ ves, ve.value = some c ∧ ve.dest = d := by
  induction ves with
  | nil => simp [firstV] at h
  | cons ve r ih =>
    simp only [firstV] at h
    split at h
    · rename_i hv
      exact ⟨ve, by simp, hv, by simpa using h⟩
    · obtain ⟨ve', hm, h1, h2⟩ := ih h
      exact ⟨ve', List.mem_cons_of_mem _ hm, h1, h2⟩

theorem vdest_mem_dests {node : Node} {ve : VEdge} (h : ve ∈ node.vEdges) : ve.dest ∈ node.dests := by
  unfold Node.dests
  exact List.mem_append_left _ (List.mem_map.mpr ⟨ve, h, rfl⟩)

theorem pdest_mem_dests {node : Node} {pe : PEdge} (h : pe ∈ node.pEdges) : pe.dest ∈ node.dests := by
  unfold Node.dests
  exact List.mem_append_right _ (List.mem_map.mpr ⟨pe, h, rfl⟩)

theorem Reach.node {m : Model} (ht : TreeOK m) {n : Nat} (h : Reach m n) : ∃ node, m.nodes[n]? = some node := by
  cases h with
  | start => obtain ⟨node, h1, _⟩ := ht.root; exact ⟨node, h1⟩
  | edge hr hn hd =>
    obtain ⟨k, dn, hk, hdn, _⟩ := ht.edges _ _ hr hn _ hd
    cases hk; exact ⟨dn, hdn⟩

theorem pEdges_le_maxPE (m : Model) (n : Nat) (node : Node) (h : m.nodes[n]? = some node) :
    node.pEdges.length ≤ maxPE m := by
  have hm : node ∈ m.nodes := List.mem_of_getElem? h
  unfold maxPE
  generalize m.nodes = l at hm
  induction l with
  | nil => simp at hm
  | cons x xs ih =>
    simp only [List.foldr_cons]
    rcases List.mem_cons.mp hm with rfl | hm
    · exact Nat.le_max_left _ _
    · exact Nat.le_trans (ih hm) (Nat.le_max_right _ _)

/-- contribution of one pattern edge to the result list (the body of `matchTreeG`'s `flatMap`) -/
def edgeOuts (m : Model) (g : EdgeFn) (rest : List Bytes) (c : Bytes) (ctx : Ctx) (pe : PEdge) :
    List (Nat × Ctx) :=
  match g pe c ctx with
  | .ok (some (ctx', _)) =>
    (match pe.dest with
      | some d => matchTreeG m g rest d ctx'
      | none => [])
  | _ => []

theorem matchTreeG_cons (m : Model) (g : EdgeFn) (c : Bytes) (rest : List Bytes) (n : Nat) (ctx : Ctx)
    (node : Node) (hn : m.nodes[n]? = some node) :
    matchTreeG m g (c :: rest) n ctx =
      (match firstV node.vEdges c with
        | some (some d) => matchTreeG m g rest d ctx
        | _ => [])
      ++ node.pEdges.flatMap (edgeOuts m g rest c ctx) := by
  simp only [matchTreeG, hn]; rfl

section core
variable {m : Model} {g : EdgeFn} {name : List Bytes}

/-! single steps -/

theorem step_yield {n : Nat} {node : Node} (hn : m.nodes[n]? = some node)
    (ei : Option Nat) (stk : List Nat) (ctx : Ctx) (ms : List (Option Nat)) (outs : List (Nat × Ctx))
    (hl : stk.length = name.length) :
    stepG m g name ⟨some n, ei, stk, ctx, ms, outs, none⟩ =
      backtrack node ⟨some n, ei, stk, ctx, ms, outs ++ [(n, ctx)], none⟩ := by
  simp [stepG, hn, hl]

theorem step_value_found {n : Nat} {node : Node} (hn : m.nodes[n]? = some node)
    (stk : List Nat) (ctx : Ctx) (ms : List (Option Nat)) (outs : List (Nat × Ctx)) (c : Bytes)
    (hl : stk.length < name.length) (hc : name[stk.length]? = some c) (d : Option Nat)
    (hf : firstV node.vEdges c = some d) :
    stepG m g name ⟨some n, none, stk, ctx, ms, outs, none⟩ =
      ⟨d, none, 0 :: stk, ctx, none :: ms, outs, none⟩ := by
  have : stk.length ≠ name.length := by omega
  simp [stepG, hn, this, hc, hf]

theorem step_value_none {n : Nat} {node : Node} (hn : m.nodes[n]? = some node)
    (stk : List Nat) (ctx : Ctx) (ms : List (Option Nat)) (outs : List (Nat × Ctx)) (c : Bytes)
    (hl : stk.length < name.length) (hc : name[stk.length]? = some c)
    (hf : firstV node.vEdges c = none) :
    stepG m g name ⟨some n, none, stk, ctx, ms, outs, none⟩ =
      ⟨some n, some 0, stk, ctx, ms, outs, none⟩ := by
  have : stk.length ≠ name.length := by omega
  simp [stepG, hn, this, hc, hf]

theorem step_edge_refuse {n : Nat} {node : Node} (hn : m.nodes[n]? = some node)
    (i : Nat) (stk : List Nat) (ctx : Ctx) (ms : List (Option Nat)) (outs : List (Nat × Ctx)) (c : Bytes)
    (hl : stk.length < name.length) (hc : name[stk.length]? = some c) (pe : PEdge)
    (hp : node.pEdges[i]? = some pe) (hr : g pe c ctx = .ok none) :
    stepG m g name ⟨some n, some i, stk, ctx, ms, outs, none⟩ =
      ⟨some n, some (i + 1), stk, ctx, ms, outs, none⟩ := by
  have : stk.length ≠ name.length := by omega
  simp [stepG, hn, this, hc, hp, hr]

theorem step_edge_accept {n : Nat} {node : Node} (hn : m.nodes[n]? = some node)
    (i : Nat) (stk : List Nat) (ctx : Ctx) (ms : List (Option Nat)) (outs : List (Nat × Ctx)) (c : Bytes)
    (hl : stk.length < name.length) (hc : name[stk.length]? = some c) (pe : PEdge)
    (hp : node.pEdges[i]? = some pe) (ctx' : Ctx) (mt : Option Nat)
    (hr : g pe c ctx = .ok (some (ctx', mt))) :
    stepG m g name ⟨some n, some i, stk, ctx, ms, outs, none⟩ =
      ⟨pe.dest, none, (i + 1) :: stk, ctx', mt :: ms, outs, none⟩ := by
  have : stk.length ≠ name.length := by omega
  simp [stepG, hn, this, hc, hp, hr]

theorem step_edges_done {n : Nat} {node : Node} (hn : m.nodes[n]? = some node)
    (stk : List Nat) (ctx : Ctx) (ms : List (Option Nat)) (outs : List (Nat × Ctx)) (c : Bytes)
    (hl : stk.length < name.length) (hc : name[stk.length]? = some c) :
    stepG m g name ⟨some n, some node.pEdges.length, stk, ctx, ms, outs, none⟩ =
      backtrack node ⟨some n, some node.pEdges.length, stk, ctx, ms, outs, none⟩ := by
  have : stk.length ≠ name.length := by omega
  simp [stepG, hn, this, hc]

/-- what a visit of node `n` with `rest` still to match does, when `n` was entered from its parent
    through edge index `i` -/
def NodeP (m : Model) (g : EdgeFn) (name : List Bytes) (rest : List Bytes) : Prop :=
  ∀ n node i stk ctx mt ms outs, Reach m n → m.nodes[n]? = some node →
    stk.length + 1 ≤ name.length → name.drop (stk.length + 1) = rest →
    ∃ k, k ≤ stepBound (maxPE m) rest.length ∧
      runG m g name k ⟨some n, none, i :: stk, ctx, mt :: ms, outs, none⟩ =
        ⟨node.parent, some i, stk, undo mt ctx, ms, outs ++ matchTreeG m g rest n ctx, none⟩

theorem nodeP_nil : NodeP m g name [] := by
  intro n node i stk ctx mt ms outs _ hn hle hdrop
  have hl : (i :: stk).length = name.length := by
    have := congrArg List.length hdrop
    simp at this ⊢; omega
  refine ⟨1, by simp [stepBound], ?_⟩
  rw [runG_one, step_yield hn _ _ _ _ _ hl]
  cases mt <;> simp [backtrack, undo, matchTreeG]

/-- the loop over the pattern edges from index `i` on -/
theorem edges_loop (ht : TreeOK m) (hg : EdgeTotal m g) (hd : EdgeDisc g)
    (c : Bytes) (rest : List Bytes) (ih : NodeP m g name rest)
    {n : Nat} {node : Node} (hr : Reach m n) (hn : m.nodes[n]? = some node)
    (stk : List Nat) (ctx : Ctx) (ms : List (Option Nat))
    (hdrop : name.drop stk.length = c :: rest) :
    ∀ (l : List PEdge) (i : Nat) (outs : List (Nat × Ctx)), node.pEdges.drop i = l → i ≤ node.pEdges.length →
      ∃ k, k ≤ l.length * (1 + stepBound (maxPE m) rest.length) ∧
        runG m g name k ⟨some n, some i, stk, ctx, ms, outs, none⟩ =
          ⟨some n, some node.pEdges.length, stk, ctx, ms, outs ++ l.flatMap (edgeOuts m g rest c ctx), none⟩ := by
  obtain ⟨hl, hc, hdrop'⟩ := drop_cons_facts _ _ _ _ hdrop
  intro l
  induction l with
  | nil =>
    intro i outs hdr hi
    have : i = node.pEdges.length := by
      have := congrArg List.length hdr
      simp at this; omega
    subst this
    exact ⟨0, by simp, by simp [runG]⟩
  | cons pe tl ihl =>
    intro i outs hdr hi
    obtain ⟨hi', hpe, hdr'⟩ := drop_cons_facts _ _ _ _ hdr
    have hmem : pe ∈ node.pEdges := List.mem_of_getElem? hpe
    obtain ⟨r, hgr⟩ := hg n node pe hr hn hmem c ctx
    cases r with
    | none =>
      obtain ⟨k, hk, hrun⟩ := ihl (i + 1) outs hdr' (by omega)
      refine ⟨k + 1, ?_, ?_⟩
      · simp only [List.length_cons]; rw [Nat.succ_mul]; omega
      · rw [runG_succ, step_edge_refuse hn i stk ctx ms outs c hl hc pe hpe hgr, hrun]
        simp [List.flatMap_cons, edgeOuts, hgr]
    | some p =>
      obtain ⟨ctx', mt⟩ := p
      obtain ⟨d, dn, hdest, hdn, hpar⟩ := ht.edges n node hr hn _ (pdest_mem_dests hmem)
      have hrd : Reach m d := Reach.edge hr hn (hdest ▸ pdest_mem_dests hmem)
      obtain ⟨k1, hk1, hrun1⟩ := ih d dn (i + 1) stk ctx' mt ms outs hrd hdn (by omega) hdrop'
      have hundo : undo mt ctx' = ctx := hd pe c ctx ctx' mt hgr
      obtain ⟨k2, hk2, hrun2⟩ := ihl (i + 1) (outs ++ matchTreeG m g rest d ctx') hdr' (by omega)
      refine ⟨1 + k1 + k2, ?_, ?_⟩
      · simp only [List.length_cons]; rw [Nat.succ_mul]; omega
      · rw [runG_add, runG_add, runG_one, step_edge_accept hn i stk ctx ms outs c hl hc pe hpe ctx' mt hgr,
          hdest, hrun1, hpar, hundo, hrun2]
        simp [List.flatMap_cons, edgeOuts, hgr, hdest]

/-- a visit of node `n` (value edge first, then every pattern edge), up to the point where it is about
    to back-track -/
theorem visit (ht : TreeOK m) (hg : EdgeTotal m g) (hd : EdgeDisc g)
    (c : Bytes) (rest : List Bytes) (ih : NodeP m g name rest)
    {n : Nat} {node : Node} (hr : Reach m n) (hn : m.nodes[n]? = some node)
    (stk : List Nat) (ctx : Ctx) (ms : List (Option Nat)) (outs : List (Nat × Ctx))
    (hdrop : name.drop stk.length = c :: rest) :
    ∃ k, k ≤ 1 + stepBound (maxPE m) rest.length + maxPE m * (1 + stepBound (maxPE m) rest.length) ∧
      runG m g name k ⟨some n, none, stk, ctx, ms, outs, none⟩ =
        ⟨some n, some node.pEdges.length, stk, ctx, ms, outs ++ matchTreeG m g (c :: rest) n ctx, none⟩ := by
  obtain ⟨hl, hc, hdrop'⟩ := drop_cons_facts _ _ _ _ hdrop
  have hE := pEdges_le_maxPE m n node hn
  have hmul : node.pEdges.length * (1 + stepBound (maxPE m) rest.length)
      ≤ maxPE m * (1 + stepBound (maxPE m) rest.length) := Nat.mul_le_mul_right _ hE
  rw [matchTreeG_cons m g c rest n ctx node hn]
  cases hf : firstV node.vEdges c with
  | none =>
    obtain ⟨k, hk, hrun⟩ := edges_loop ht hg hd c rest ih hr hn stk ctx ms hdrop node.pEdges 0 outs (by simp) (by omega)
    refine ⟨1 + k, by omega, ?_⟩
    rw [runG_add, runG_one, step_value_none hn stk ctx ms outs c hl hc hf, hrun]
    simp
  | some dv =>
    obtain ⟨ve, hve, _, hvd⟩ := firstV_some hf
    obtain ⟨d, dn, hdest, hdn, hpar⟩ := ht.edges n node hr hn _ (vdest_mem_dests hve)
    have hdv : dv = some d := by rw [← hvd, hdest]
    subst hdv
    have hrd : Reach m d := Reach.edge hr hn (hdest ▸ vdest_mem_dests hve)
    obtain ⟨k1, hk1, hrun1⟩ := ih d dn 0 stk ctx none ms outs hrd hdn (by omega) hdrop'
    obtain ⟨k2, hk2, hrun2⟩ := edges_loop ht hg hd c rest ih hr hn stk ctx ms hdrop node.pEdges 0
      (outs ++ matchTreeG m g rest d ctx) (by simp) (by omega)
    refine ⟨1 + k1 + k2, by omega, ?_⟩
    rw [runG_add, runG_add, runG_one, step_value_found hn stk ctx ms outs c hl hc (some d) hf, hrun1, hpar]
    simp only [undo]
    rw [hrun2]
    simp

theorem nodeP_cons (ht : TreeOK m) (hg : EdgeTotal m g) (hd : EdgeDisc g)
    (c : Bytes) (rest : List Bytes) (ih : NodeP m g name rest) : NodeP m g name (c :: rest) := by
  intro n node i stk ctx mt ms outs hr hn hle hdrop
  obtain ⟨k, hk, hrun⟩ := visit ht hg hd c rest ih hr hn (i :: stk) ctx (mt :: ms) outs hdrop
  obtain ⟨hl, hc, _⟩ := drop_cons_facts _ _ _ _ hdrop
  refine ⟨k + 1, ?_, ?_⟩
  · simp only [stepBound, List.length_cons]
    have : (maxPE m + 1) * stepBound (maxPE m) rest.length
        = maxPE m * stepBound (maxPE m) rest.length + stepBound (maxPE m) rest.length := Nat.succ_mul _ _
    rw [Nat.mul_add, Nat.mul_one] at hk
    omega
  · rw [runG_add, hrun, runG_one, step_edges_done hn (i :: stk) ctx (mt :: ms) _ c hl hc]
    cases mt <;> simp [backtrack, undo]

theorem nodeP_all (ht : TreeOK m) (hg : EdgeTotal m g) (hd : EdgeDisc g) : ∀ rest, NodeP m g name rest
  | [] => nodeP_nil
  | c :: rest => nodeP_cons ht hg hd c rest (nodeP_all ht hg hd rest)

/-- **The search from the start node**: within `stepBound` iterations the loop has ended, having
    yielded exactly `matchTreeG`, without exception, and with the caller's context restored. -/
theorem run_from_start (ht : TreeOK m) (hg : EdgeTotal m g) (hd : EdgeDisc g) (ctx : Ctx) :
    ∃ k, k ≤ stepBound (maxPE m) name.length ∧ ∃ ei,
      runG m g name k (initSt m ctx) =
        ⟨none, ei, [], ctx, [], matchTreeG m g name m.startId ctx, none⟩ := by
  obtain ⟨root, hroot, hpar⟩ := ht.root
  cases hname : name with
  | nil =>
    refine ⟨1, by simp [stepBound], none, ?_⟩
    rw [runG_one]
    have := step_yield (g := g) (name := name) hroot none [] ctx [] [] (by simp [hname])
    rw [hname] at this
    simp [initSt, this, backtrack, hpar, matchTreeG]
  | cons c rest =>
    have hdrop : name.drop ([] : List Nat).length = c :: rest := by simp [hname]
    obtain ⟨k, hk, hrun⟩ := visit ht hg hd c rest (nodeP_all ht hg hd rest) Reach.start hroot [] ctx [] [] hdrop
    obtain ⟨hl, hc, _⟩ := drop_cons_facts _ _ _ _ hdrop
    rw [hname] at hrun hl hc
    refine ⟨k + 1, ?_, some root.pEdges.length, ?_⟩
    · simp only [stepBound, List.length_cons]
      have : (maxPE m + 1) * stepBound (maxPE m) rest.length
          = maxPE m * stepBound (maxPE m) rest.length + stepBound (maxPE m) rest.length := Nat.succ_mul _ _
      rw [Nat.mul_add, Nat.mul_one] at hk
      omega
    · rw [runG_add]
      unfold initSt
      rw [hrun, runG_one, step_edges_done hroot [] ctx [] _ c hl hc]
      simp [backtrack, hpar]

end core

end Ndn.Lvs
