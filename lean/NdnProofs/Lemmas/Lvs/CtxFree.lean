import NdnProofs.Lemmas.Lvs.Sem
import NdnProofs.Lemmas.PyDict
/-!
  When no constraint of the model looks at the bindings (value options, user functions with literal
  arguments only), a name that matches a node under some initial bindings also matches it under none.
-/
namespace Ndn.Lvs

/-- the option does not depend on the bindings -/
def OptCtxFree (o : ConsOption) : Prop :=
  (∃ v, o.value = some v) ∨ (o.value = none ∧ o.tag = none ∧ ∀ f, o.fn = some f → ∀ a ∈ f.args, a.tag = none)

/-- no constraint of the model refers to another pattern -/
def CtxFree (m : Model) : Prop :=
  ∀ (n : Nat) (node : Node), m.nodes[n]? = some node →
    ∀ pe ∈ node.pEdges, ∀ cl ∈ pe.cons, ∀ o ∈ cl, OptCtxFree o

/-- `σb` binds less than `σa`, and consistently -/
def SubCtx (σb σa : Ctx) : Prop := ∀ t v, PyDict.get? σb t = some v → PyDict.get? σa t = some v

theorem argDen_ctxfree (σa σb : Ctx) (a : FnArg) (h : a.tag = none) : ArgDen σa a = ArgDen σb a := by
  unfold ArgDen; simp [h]

theorem optSat_ctxfree (fns : PureEnv) (σa σb : Ctx) (c : Bytes) (o : ConsOption) (h : OptCtxFree o) :
    OptSat fns σa c o ↔ OptSat fns σb c o := by
  unfold OptSat
  rcases h with ⟨v, hv⟩ | ⟨hv, ht, hf⟩
  · simp [hv]
  · cases hfn : o.fn with
    | none => simp [hv, ht]
    | some f =>
      simp only [hv, ht]
      have : f.args.map (ArgDen σa) = f.args.map (ArgDen σb) :=
        List.map_congr_left (fun a ha => argDen_ctxfree σa σb a (hf f hfn a ha))
      rw [this]

theorem consSat_ctxfree (fns : PureEnv) (σa σb : Ctx) (c : Bytes) (cons : List Constraint)
    (h : ∀ cl ∈ cons, ∀ o ∈ cl, OptCtxFree o) : ConsSat fns σa c cons → ConsSat fns σb c cons := by
  intro hs cl hcl
  obtain ⟨o, ho, hsat⟩ := hs cl hcl
  exact ⟨o, ho, (optSat_ctxfree fns σa σb c o (h cl hcl o ho)).mp hsat⟩

theorem subCtx_set (σb σa : Ctx) (t : Nat) (c : Bytes) (h : SubCtx σb σa) :
    SubCtx (PyDict.set σb t c) (PyDict.set σa t c) := by
  intro t' v hv
  rw [PyDict.get?_set] at hv ⊢
  split at hv
  · rename_i heq; simp [heq, hv]
  · rename_i hne; simp [hne]; exact h t' v hv

theorem subCtx_set_left (σb σa : Ctx) (t : Nat) (c : Bytes) (h : SubCtx σb σa)
    (ha : PyDict.get? σa t = some c) : SubCtx (PyDict.set σb t c) σa := by
  intro t' v hv
  rw [PyDict.get?_set] at hv
  split at hv
  · rename_i heq; subst heq; cases hv; exact ha
  · exact h t' v hv

/-- a path under bindings `σa` is also a path under fewer bindings `σb` when constraints are
    context-free -/
theorem path_weaken (m : Model) (hcf : CtxFree m) (fns : PureEnv) {n : Nat} {σa : Ctx} {name : List Bytes}
    {n' : Nat} {σa' : Ctx} (hp : Path m fns n σa name n' σa') :
    ∀ σb, SubCtx σb σa → ∃ σb', Path m fns n σb name n' σb' ∧ SubCtx σb' σa' := by
  induction hp with
  | nil n σ => intro σb h; exact ⟨σb, Path.nil _ _, h⟩
  | @value n σ c rest n' σ' node ve d hn hve hval hdest _ ih =>
    intro σb h
    obtain ⟨σb', hp', hs'⟩ := ih σb h
    exact ⟨σb', Path.value hn hve hval hdest hp', hs'⟩
  | @pattern n σ c rest n' σ' node pe d σ₁ hn hpe hdest hacc _ ih =>
    intro σb h
    obtain ⟨t, ht, hcs, hor⟩ := hacc
    have hcs' : ConsSat fns σb c pe.cons := consSat_ctxfree fns σ σb c pe.cons (hcf n node hn pe hpe) hcs
    -- the bindings after this edge, on the weaker side
    cases hb : PyDict.get? σb t with
    | some v =>
      -- bound on the weaker side, hence bound (to the same value) on the stronger side
      have hσ := h t v hb
      rcases hor with ⟨hsc, rfl⟩ | ⟨hnone, _⟩
      · rw [hsc] at hσ; cases hσ
        obtain ⟨σb', hp', hs'⟩ := ih σb h
        exact ⟨σb', Path.pattern hn hpe hdest ⟨t, ht, hcs', Or.inl ⟨hb, rfl⟩⟩ hp', hs'⟩
      · rw [hnone] at hσ; cases hσ
    | none =>
      have hsub : SubCtx (if t ≤ m.namedCnt then PyDict.set σb t c else σb) σ₁ := by
        rcases hor with ⟨hsc, rfl⟩ | ⟨hnone, rfl⟩
        · split
          · exact subCtx_set_left σb σ₁ t c h hsc
          · exact h
        · split
          · exact subCtx_set σb σ t c h
          · exact h
      obtain ⟨σb', hp', hs'⟩ := ih _ hsub
      exact ⟨σb', Path.pattern hn hpe hdest ⟨t, ht, hcs', Or.inr ⟨hb, rfl⟩⟩ hp', hs'⟩

theorem subCtx_nil (σ : Ctx) : SubCtx [] σ := by
  intro t v h; simp [PyDict.get?] at h

end Ndn.Lvs
