import NdnProofs.Lemmas.Lvs.CompileSign
/-!
  `top_order` is a topological order, the stable sort by position respects it, and therefore
  `rep_rules[comp.id]` never raises `KeyError`; `_generate_node`'s recursion is bounded by the longest chain.
  Consequence: every error of the compiler model is a `SemanticError`.
-/
namespace Ndn.Lvs

/-! ### `topRounds`: membership, no duplicates, referring rules first -/

theorem topRounds_mem (adj : String → List String) : ∀ (f : Nat) (rem L : List String),
    topRounds f rem adj = .ok L → ∀ x, x ∈ L ↔ x ∈ rem := by
  intro f
  induction f with
  | zero =>
    intro rem L h x
    cases rem with
    | nil => simp [topRounds] at h; subst h; simp
    | cons a r => simp [topRounds] at h
  | succ f ih =>
    intro rem L h x
    cases rem with
    | nil => simp [topRounds] at h; subst h; simp
    | cons a r =>
      unfold topRounds at h
      simp only [] at h
      split at h
      · simp at h
      · split at h
        · simp at h
        · rename_i rest hrest
          injection h with h; subst h
          have := ih _ _ hrest x
          rw [List.mem_append, this, List.mem_filter]
          constructor
          · intro hx
            rcases hx with hx | hx
            · exact (ready_sub _ adj x hx).1
            · exact hx.1
          · intro hx
            by_cases hr : x ∈ isort strLe ((a :: r).filter (fun n => inDeg (a :: r) adj n == 0))
            · exact Or.inl hr
            · exact Or.inr ⟨hx, by simp [hr]⟩

theorem topRounds_nodup (adj : String → List String) : ∀ (f : Nat) (rem L : List String),
    topRounds f rem adj = .ok L → rem.Nodup → L.Nodup := by
  intro f
  induction f with
  | zero =>
    intro rem L h _
    cases rem with
    | nil => simp [topRounds] at h; subst h; simp
    | cons a r => simp [topRounds] at h
  | succ f ih =>
    intro rem L h hnd
    cases rem with
    | nil => simp [topRounds] at h; subst h; simp
    | cons a r =>
      unfold topRounds at h
      simp only [] at h
      split at h
      · simp at h
      · split at h
        · simp at h
        · rename_i rest hrest
          injection h with h; subst h
          rw [List.nodup_append]
          refine ⟨?_, ih _ _ hrest (List.Pairwise.filter _ hnd), ?_⟩
          · exact (isort_perm _ _).nodup_iff.mpr (List.Pairwise.filter _ hnd)
          · intro x hx y hy hxy
            subst hxy
            have := (topRounds_mem adj _ _ _ hrest x).mp hy
            rw [List.mem_filter] at this
            simp [hx] at this

/-- a rule is emitted before every rule it refers to (so after the reversal: referred-to rules first) -/
theorem topRounds_before (adj : String → List String) : ∀ (f : Nat) (rem L : List String),
    topRounds f rem adj = .ok L → ∀ p c, p ∈ rem → c ∈ rem → c ∈ adj p →
      ∃ l1 l2, L = l1 ++ p :: l2 ∧ c ∈ l2 := by
  intro f
  induction f with
  | zero =>
    intro rem L h p c hp
    cases rem with
    | nil => simp at hp
    | cons a r => simp [topRounds] at h
  | succ f ih =>
    intro rem L h p c hp hc hcp
    cases rem with
    | nil => simp at hp
    | cons a r =>
      unfold topRounds at h
      simp only [] at h
      split at h
      · simp at h
      · split at h
        · simp at h
        · rename_i rest hrest
          injection h with h; subst h
          have hcnr : c ∉ isort strLe ((a :: r).filter (fun n => inDeg (a :: r) adj n == 0)) := by
            intro hcr
            have h0 := (ready_sub _ adj c hcr).2
            have : 0 < inDeg (a :: r) adj c := by
              unfold inDeg
              rw [List.count_pos_iff, List.mem_flatMap]
              exact ⟨p, hp, hcp⟩
            omega
          have hcrem : c ∈ (a :: r).filter
              (fun n => !(isort strLe ((a :: r).filter (fun n => inDeg (a :: r) adj n == 0))).contains n) :=
            List.mem_filter.mpr ⟨hc, by simp [hcnr]⟩
          by_cases hpr : p ∈ isort strLe ((a :: r).filter (fun n => inDeg (a :: r) adj n == 0))
          · obtain ⟨s, t, hst⟩ := List.append_of_mem hpr
            refine ⟨s, t ++ rest, by rw [hst]; simp, List.mem_append_right _ ?_⟩
            exact (topRounds_mem adj _ _ _ hrest c).mpr hcrem
          · have hprem : p ∈ (a :: r).filter
                (fun n => !(isort strLe ((a :: r).filter (fun n => inDeg (a :: r) adj n == 0))).contains n) :=
              List.mem_filter.mpr ⟨hp, by simp [hpr]⟩
            obtain ⟨l1, l2, hl, hcl⟩ := ih _ _ hrest p c hprem hcrem hcp
            exact ⟨isort strLe ((a :: r).filter (fun n => inDeg (a :: r) adj n == 0)) ++ l1, l2, by rw [hl]; simp, hcl⟩

/-- in `top_order`'s answer a rule comes after the rules it refers to -/
theorem topOrder_idx (ids : List String) (adj : String → List String) (order : List String)
    (hnd : ids.Nodup) (h : topOrder ids adj = .ok order) :
    (∀ x, x ∈ order ↔ x ∈ ids) ∧
    ∀ p c, p ∈ ids → c ∈ ids → c ∈ adj p → order.idxOf c < order.idxOf p := by
  unfold topOrder at h
  split at h
  · simp at h
  · rename_i L hL
    injection h with h; subst h
    refine ⟨fun x => by rw [List.mem_reverse]; exact topRounds_mem adj _ _ _ hL x, ?_⟩
    intro p c hp hc hcp
    obtain ⟨l1, l2, hl, hcl⟩ := topRounds_before adj _ _ _ hL p c hp hc hcp
    have hLnd := topRounds_nodup adj _ _ _ hL hnd
    rw [hl, List.nodup_append] at hLnd
    have hpl2 : p ∉ l2 := (List.nodup_cons.mp hLnd.2.1).1
    have hrev : L.reverse = l2.reverse ++ p :: l1.reverse := by rw [hl]; simp
    rw [hrev, List.idxOf_append, List.idxOf_append]
    have h1 : c ∈ l2.reverse := List.mem_reverse.mpr hcl
    have h2 : p ∉ l2.reverse := fun h => hpl2 (List.mem_reverse.mp h)
    simp only [h1, h2, if_true, if_false, List.idxOf_cons_self]
    have := List.idxOf_lt_length_iff.mpr h1
    omega

/-! ### the stable sort respects the keys -/

theorem insertBy_pairwise {α : Type} (k : α → Nat) (a : α) : ∀ (l : List α),
    List.Pairwise (fun x y => k x ≤ k y) l →
    List.Pairwise (fun x y => k x ≤ k y) (insertBy (fun x y => decide (k x ≤ k y)) a l) := by
  intro l
  induction l with
  | nil => intro _; simp [insertBy]
  | cons b r ih =>
    intro h
    unfold insertBy
    split
    · rename_i hle
      have hle' : k a ≤ k b := by simpa using hle
      rw [List.pairwise_cons]
      refine ⟨fun x hx => ?_, h⟩
      rcases List.mem_cons.mp hx with hx | hx
      · subst hx; exact hle'
      · exact Nat.le_trans hle' ((List.pairwise_cons.mp h).1 x hx)
    · rename_i hle
      have hle' : k b ≤ k a := by
        have : ¬ k a ≤ k b := by simpa using hle
        omega
      rw [List.pairwise_cons]
      refine ⟨fun x hx => ?_, ih (List.pairwise_cons.mp h).2⟩
      have := (insertBy_perm (fun x y => decide (k x ≤ k y)) a r).mem_iff.mp hx
      rcases List.mem_cons.mp this with hx | hx
      · subst hx; exact hle'
      · exact (List.pairwise_cons.mp h).1 x hx

theorem isort_pairwise {α : Type} (k : α → Nat) (l : List α) :
    List.Pairwise (fun x y => k x ≤ k y) (isort (fun x y => decide (k x ≤ k y)) l) := by
  induction l with
  | nil => simp [isort]
  | cons a r ih => exact insertBy_pairwise k a _ ih

/-- in a list sorted by key, an element with a strictly smaller key stands before -/
theorem sorted_before {α : Type} (k : α → Nat) {S pre post : List α} {x y : α}
    (hs : List.Pairwise (fun a b => k a ≤ k b) S) (hS : S = pre ++ x :: post) (hy : y ∈ S) (hlt : k y < k x) :
    y ∈ pre := by
  subst hS
  rw [List.pairwise_append] at hs
  rcases List.mem_append.mp hy with h | h
  · exact h
  · exfalso
    rcases List.mem_cons.mp h with h | h
    · subst h; omega
    · have := (List.pairwise_cons.mp hs.2.1).1 y h
      omega

/-! ### references point backwards in the sorted rule list -/

/-- (identifier, references) of each rule, in order: every reference is to an earlier identifier -/
def RefsBefore (l : List (String × List String)) : Prop :=
  ∀ pre x post, l = pre ++ x :: post → ∀ i ∈ x.2, ∃ y ∈ pre, y.1 = i

theorem sortRuleReferences_refsBefore (S : Schema) (rules : List SRule) (h : sortRuleReferences S = .ok rules) :
    RefsBefore (rules.map (fun r => (r.id, refsOf r.name))) := by
  have hperm := sortRuleReferences_perm S rules h
  unfold sortRuleReferences at h
  simp only [] at h
  split at h
  · simp at h
  · rename_i hbad
    split at h
    · simp at h
    · rename_i order horder
      injection h with h
      -- facts about the order
      have hidsnd : (ruleIds (renameTemps S.rules 1)).Nodup := nodup_eraseDups _ _ (Nat.le_refl _)
      obtain ⟨hmem, hidx⟩ := topOrder_idx _ _ order hidsnd horder
      have hsorted := isort_pairwise (fun r : SRule => order.idxOf r.id) (renameTemps S.rules 1)
      rw [h] at hsorted
      intro pre x post hsplit i hi
      -- the rule behind `x`
      have hxm : x ∈ rules.map (fun r => (r.id, refsOf r.name)) := by rw [hsplit]; simp
      -- split `rules` at the same position
      have : ∃ rpre r rpost, rules = rpre ++ r :: rpost ∧ rpre.map (fun r => (r.id, refsOf r.name)) = pre ∧
          (r.id, refsOf r.name) = x := by
        clear hsorted hperm h hxm
        induction rules generalizing pre with
        | nil => simp at hsplit
        | cons r0 rs ih =>
          cases pre with
          | nil =>
            simp only [List.map_cons, List.nil_append, List.cons.injEq] at hsplit
            exact ⟨[], r0, rs, rfl, rfl, hsplit.1⟩
          | cons p0 pre' =>
            simp only [List.map_cons, List.cons_append, List.cons.injEq] at hsplit
            obtain ⟨rpre, r, rpost, h1, h2, h3⟩ := ih pre' hsplit.2
            exact ⟨r0 :: rpre, r, rpost, by rw [h1]; rfl, by simp [h2, hsplit.1], h3⟩
      obtain ⟨rpre, r, rpost, hrules, hpre, hx⟩ := this
      subst hx
      simp only [] at hi
      have hr : r ∈ rules := by rw [hrules]; simp
      have hr' : r ∈ renameTemps S.rules 1 := hperm.mem_iff.mp hr
      -- `i` is a defined, non-temporary rule (the first loop passed)
      have hiref : i ∈ (renameTemps S.rules 1).flatMap (fun r => refsOf r.name) :=
        List.mem_flatMap.mpr ⟨r, hr', hi⟩
      have hgood : badRef (ruleIds (renameTemps S.rules 1)) i = false := by
        cases hb : badRef (ruleIds (renameTemps S.rules 1)) i with
        | false => rfl
        | true => exact absurd (List.any_eq_true.mpr ⟨i, hiref, hb⟩) hbad
      have hiids : i ∈ ruleIds (renameTemps S.rules 1) := by
        unfold badRef at hgood
        simp only [Bool.or_eq_false_iff, Bool.not_eq_false', List.contains_eq_mem, decide_eq_true_eq] at hgood
        exact hgood.1
      obtain ⟨ri, hri, hriid⟩ := mem_ruleIds.mp hiids
      have hri' : ri ∈ rules := hperm.mem_iff.mpr hri
      have hrids : r.id ∈ ruleIds (renameTemps S.rules 1) := mem_ruleIds.mpr ⟨r, hr', rfl⟩
      have hadj : i ∈ adjOf (renameTemps S.rules 1) r.id := by
        unfold adjOf
        rw [List.mem_flatMap]
        exact ⟨r, List.mem_filter.mpr ⟨hr', by simp⟩, hi⟩
      have hlt := hidx r.id i hrids hiids hadj
      have := sorted_before (fun r : SRule => order.idxOf r.id) hsorted hrules hri' (by simpa [hriid] using hlt)
      exact ⟨(ri.id, refsOf ri.name), by rw [← hpre]; exact List.mem_map_of_mem this, hriid⟩

end Ndn.Lvs
