import NdnProofs.Lemmas.Lvs.SrcCompile
/-!
  Signing cycles among the nodes of a compiled model, read back at the level of the rule chains / the source text.

  All chains that end at one node of the tree `_generate_node` builds have the same *shape* (length, and the same
  component values at the same positions): `genNode_shape`.  So a cycle of nodes that list each other as signers gives a
  cycle of shapes (`signCycle_shapes`): the contrapositive is the positive clause of C13 — a schema in which no shape is,
  directly or transitively, the shape of one of its own signers compiles to a model the loader accepts.
-/
namespace Ndn.Lvs

def Atom.shape : Atom → Option Bytes
  | .lit v => some v
  | .pat _ => none

def shapeOf (c : Chain) : List (Option Bytes) := c.name.map Atom.shape

theorem shape_drop {c : Chain} {depth : Nat} {a : Atom} (h : c.name[depth]? = some a) :
    (shapeOf c).drop depth = a.shape :: (shapeOf c).drop (depth + 1) := by
  apply drop_of_getElem?
  unfold shapeOf
  rw [List.getElem?_map, h]
  rfl

/-- the chains that follow a move have, at this depth, what the move says: the value of a value move, a pattern otherwise -/
theorem move_shape {depth : Nat} {ctx : List Chain} {prev : List Int} {mv : Move}
    (h : mv ∈ vMoves depth ctx prev ++ pMoves depth ctx prev) :
    ∀ rc ∈ mv.ctx, (shapeOf rc).drop depth = mv.value :: (shapeOf rc).drop (depth + 1) := by
  intro rc hrc
  rcases List.mem_append.mp h with h | h
  · obtain ⟨v, hv, _, hctx⟩ := mem_vMoves h
    rw [hv]
    exact shape_drop (litAt_iff.mp ((hctx rc).mp hrc).2)
  · obtain ⟨hv, _, _, _, _, _, _, _, hctx⟩ := mem_pMoves h
    obtain ⟨_, t, ht, _⟩ := hctx rc hrc
    rw [hv]
    exact shape_drop (patAt_iff.mp ht)

/-- **all chains that end at one node have one shape** -/
theorem genNode_shape : ∀ (fuel depth : Nat) (ctx : List Chain) (parent : Option Nat) (prev : List Int)
    (base tidx : Nat) (nodes : List PreNode) (t' : Nat),
    genNode fuel depth ctx parent prev base tidx = .ok (nodes, t') →
    ∀ n ∈ nodes, ∃ sh : List (Option Bytes),
      (∀ rid ∈ n.ruleNames, ∃ rc ∈ ctx, rc.id = rid ∧ (shapeOf rc).drop depth = sh) ∧
      (∀ s ∈ n.signStr, ∃ rc ∈ ctx, s ∈ rc.sign ∧ (shapeOf rc).drop depth = sh) := by
  intro fuel
  induction fuel with
  | zero =>
    intro depth ctx parent prev base tidx nodes t' h
    unfold genNode at h
    simp only [] at h
    split at h
    · injection h with h
      simp only [Prod.mk.injEq] at h
      obtain ⟨rfl, _⟩ := h
      intro n hn
      simp only [List.mem_singleton] at hn; subst hn
      exact ⟨[], fun rid hrid => by
          simp only [List.mem_map] at hrid
          obtain ⟨rc, hrc, rfl⟩ := hrid
          obtain ⟨hm, hl⟩ := List.mem_filter.mp hrc
          exact ⟨rc, hm, rfl, by simp [shapeOf, eq_of_beq hl]⟩,
        fun s hs => by
          simp only [List.mem_flatMap] at hs
          obtain ⟨rc, hrc, hsr⟩ := hs
          obtain ⟨hm, hl⟩ := List.mem_filter.mp hrc
          exact ⟨rc, hm, hsr, by simp [shapeOf, eq_of_beq hl]⟩⟩
    · simp at h
  | succ f ih =>
    intro depth ctx parent prev base tidx nodes t' h
    unfold genNode at h
    simp only [] at h
    have hhead : ∀ (ves : List VEdge) (pes : List PEdge),
        ∃ sh : List (Option Bytes),
          (∀ rid ∈ (ctx.filter (fun rc => rc.name.length == depth)).map (·.id),
            ∃ rc ∈ ctx, rc.id = rid ∧ (shapeOf rc).drop depth = sh) ∧
          (∀ s ∈ (ctx.filter (fun rc => rc.name.length == depth)).flatMap (·.sign),
            ∃ rc ∈ ctx, s ∈ rc.sign ∧ (shapeOf rc).drop depth = sh) := by
      intro _ _
      exact ⟨[], fun rid hrid => by
          simp only [List.mem_map] at hrid
          obtain ⟨rc, hrc, rfl⟩ := hrid
          obtain ⟨hm, hl⟩ := List.mem_filter.mp hrc
          exact ⟨rc, hm, rfl, by simp [shapeOf, eq_of_beq hl]⟩,
        fun s hs => by
          simp only [List.mem_flatMap] at hs
          obtain ⟨rc, hrc, hsr⟩ := hs
          obtain ⟨hm, hl⟩ := List.mem_filter.mp hrc
          exact ⟨rc, hm, hsr, by simp [shapeOf, eq_of_beq hl]⟩⟩
    split at h
    · injection h with h
      simp only [Prod.mk.injEq] at h
      obtain ⟨rfl, _⟩ := h
      intro n hn
      simp only [List.mem_singleton] at hn; subst hn
      exact hhead [] []
    · rename_i mv mvs hmoves
      split at h
      · simp at h
      · rename_i ves pes sub tidx' hgm
        injection h with h
        simp only [Prod.mk.injEq] at h
        obtain ⟨rfl, _⟩ := h
        obtain ⟨_, hfrom⟩ := genMoves_calls _ _ _ _ _ _ _ hgm
        intro n hn
        rcases List.mem_cons.mp hn with hn | hn
        · subst hn; exact hhead ves pes
        · obtain ⟨m, hm, b, t, s, t2, hc, hns⟩ := hfrom n hn
          rw [← hmoves] at hm
          have hshape := move_shape hm
          have hsub : ∀ c ∈ m.ctx, c ∈ ctx := by
            intro c hc'
            have : c ∈ ctx.filter (fun rc => !(rc.name.length == depth)) := by
              rcases List.mem_append.mp hm with hm | hm
              · exact mem_vMoves_ctx hm c hc'
              · exact mem_pMoves_ctx hm c hc'
            exact (List.mem_filter.mp this).1
          obtain ⟨sh', h1, h2⟩ := ih _ _ _ _ _ _ _ _ hc n hns
          refine ⟨m.value :: sh', fun rid hrid => ?_, fun s' hs' => ?_⟩
          · obtain ⟨rc, hrc, hid, hsh⟩ := h1 rid hrid
            exact ⟨rc, hsub rc hrc, hid, by rw [hshape rc hrc, hsh]⟩
          · obtain ⟨rc, hrc, hsg, hsh⟩ := h2 s' hs'
            exact ⟨rc, hsub rc hrc, hsg, by rw [hshape rc hrc, hsh]⟩

/-- a chain with a name of shape `p` lists as signer the identifier of a chain with a name of shape `s` -/
def ChainShapeSigns (chains : List Chain) (p s : List (Option Bytes)) : Prop :=
  ∃ cp ∈ chains, ∃ ck ∈ chains, shapeOf cp = p ∧ shapeOf ck = s ∧ ck.id ∈ cp.sign

theorem placed_id_inj {pool : List PreNode} (hp : Placed 0 pool) {n n' : PreNode} (hn : n ∈ pool) (hn' : n' ∈ pool)
    (h : n.id = n'.id) : n = n' := by
  obtain ⟨i, hi, rfl⟩ := List.getElem_of_mem hn
  obtain ⟨j, hj, rfl⟩ := List.getElem_of_mem hn'
  have h1 := hp.ids i pool[i] (List.getElem?_eq_getElem hi)
  have h2 := hp.ids j pool[j] (List.getElem?_eq_getElem hj)
  have : i = j := by omega
  subst this
  rfl

/-- **a signing cycle among the nodes of the compiled model is a cycle among the shapes of the chains** -/
theorem signCycle_shapes (chains : List Chain) (named : List String) (m : Model) (hc : ∀ c ∈ chains, ChainOK c)
    (h : buildModel chains named = .ok m) (C : List Nat) (hne : ∃ c, c ∈ C)
    (hC : ∀ c ∈ C, ∃ p ∈ C, ∃ pnode, m.nodes[p]? = some pnode ∧ c ∈ pnode.signCons) :
    ∃ P : List (Option Bytes) → Prop, (∃ s, P s) ∧ ∀ s, P s → ∃ p, P p ∧ ChainShapeSigns chains p s := by
  unfold buildModel at h
  split at h
  · simp at h
  · rename_i pool tidx hg
    split at h
    · simp at h
    · rename_i nodes hfix
      injection h with h
      subst h
      obtain ⟨hpl, _, _, _, _⟩ := genNode_placed _ _ _ _ _ _ _ _ _ hc hg
      obtain ⟨hlen, hidx⟩ := mapE_ok_idx hfix
      have hshape := genNode_shape _ _ _ _ _ _ _ _ _ hg
      -- the pre-node behind a node of the model
      have hnode : ∀ (i : Nat) node, nodes[i]? = some node → ∃ n, pool[i]? = some n ∧ fixNode pool n = .ok node := by
        intro i node hi
        have hil : i < pool.length := by
          rcases Nat.lt_or_ge i nodes.length with h | h
          · omega
          · rw [List.getElem?_eq_none h] at hi; simp at hi
        obtain ⟨b, hb, hf⟩ := hidx i pool[i] (List.getElem?_eq_getElem hil)
        rw [hi] at hb
        injection hb with hb
        subst hb
        exact ⟨pool[i], List.getElem?_eq_getElem hil, hf⟩
      -- `k` is listed as signer at position `p`: a chain ending at `p` names a rule a chain of which ends at `k`
      have hedge : ∀ (p : Nat) pnode k, nodes[p]? = some pnode → k ∈ pnode.signCons →
          ∃ pn ∈ pool, pn.id = p ∧ ∃ kn ∈ pool, kn.id = k ∧ ∃ rid, rid ∈ pn.signStr ∧ rid ∈ kn.ruleNames := by
        intro p pnode k hp hk
        obtain ⟨pn, hpn, hf⟩ := hnode p pnode hp
        obtain ⟨_, _, _, _, _, ks, hks, hmem⟩ := fixNode_ok hf
        obtain ⟨rid, hrid, hr⟩ := signersOfStr_mem hks k ((hmem k).mp hk)
        obtain ⟨kn, hkn, hkid, hkr⟩ := mem_ruleNodeIds hr
        have := hpl.ids p pn hpn
        exact ⟨pn, List.mem_of_getElem? hpn, by omega, kn, hkn, hkid, rid, hrid, hkr⟩
      -- the shapes of the nodes of the cycle
      let IsShape : PreNode → List (Option Bytes) → Prop := fun n sh =>
        (∀ rid ∈ n.ruleNames, ∃ rc ∈ chains, rc.id = rid ∧ shapeOf rc = sh) ∧
        (∀ s ∈ n.signStr, ∃ rc ∈ chains, s ∈ rc.sign ∧ shapeOf rc = sh)
      have hIs : ∀ n ∈ pool, ∃ sh, IsShape n sh := by
        intro n hn
        obtain ⟨sh, h1, h2⟩ := hshape n hn
        exact ⟨sh, fun rid hr => by simpa using h1 rid hr, fun s hs => by simpa using h2 s hs⟩
      refine ⟨fun sh => ∃ c ∈ C, ∃ n ∈ pool, n.id = c ∧ IsShape n sh, ?_, ?_⟩
      · obtain ⟨c, hcC⟩ := hne
        obtain ⟨p, _, pnode, hp, hk⟩ := hC c hcC
        obtain ⟨_, _, _, kn, hkn, hkid, _⟩ := hedge p pnode c hp hk
        obtain ⟨sh, hsh⟩ := hIs kn hkn
        exact ⟨sh, c, hcC, kn, hkn, hkid, hsh⟩
      · rintro s ⟨c, hcC, n, hn, hnid, hns⟩
        obtain ⟨p, hpC, pnode, hp, hk⟩ := hC c hcC
        obtain ⟨pn, hpn, hpid, kn, hkn, hkid, rid, hrs, hrk⟩ := hedge p pnode c hp hk
        have hkn' : kn = n := placed_id_inj hpl hkn hn (by rw [hkid, hnid])
        subst hkn'
        obtain ⟨shp, hshp⟩ := hIs pn hpn
        refine ⟨shp, ⟨p, hpC, pn, hpn, hpid, hshp⟩, ?_⟩
        obtain ⟨cp, hcp, hsg, hcps⟩ := hshp.2 rid hrs
        obtain ⟨ck, hck, hckid, hcks⟩ := hns.1 rid hrk
        exact ⟨cp, hcp, ck, hck, hcps, hcks, by rw [hckid]; exact hsg⟩

/-! ### back to the source text -/

theorem impl_shape {F : List String} {c : Chain} {f : Flat} (h : Impl F c f) : shapeOf c = f.shape := by
  obtain ⟨h1, _⟩ := h
  unfold shapeOf Flat.shape
  generalize c.name = name at h1
  generalize f.items = items at h1
  induction name generalizing items with
  | nil => cases h1; rfl
  | cons a r ih =>
    simp only [List.map_cons] at h1
    cases h1 with
    | @cons it _ its _ hit hrest =>
      simp only [List.map_cons, ih its hrest]
      congr 1
      cases a with
      | lit v => simp only [resItem] at hit; cases hit; rfl
      | pat t =>
        simp only [resItem] at hit
        split at hit <;> cases hit <;> rfl

/-- a cycle among the shapes of the chains is a cycle among the shapes of the name patterns of the text -/
theorem chainShapes_src (S : Schema) (chains : List Chain) (F : List String) (h : chainsOf S = .ok (chains, F))
    {p s : List (Option Bytes)} (hps : ChainShapeSigns chains p s) : ShapeSigns ⟨renameTemps S.rules 1⟩ p s := by
  obtain ⟨_, hsound, _⟩ := chainsOf_sem S chains F h
  obtain ⟨cp, hcp, ck, hck, rfl, rfl, hsg⟩ := hps
  obtain ⟨_, r, hr, _, hrs, f, hf, himpl⟩ := hsound cp hcp
  obtain ⟨_, r', hr', hr'id, _, g, hg, himpl'⟩ := hsound ck hck
  rw [hrs, mem_isort] at hsg
  exact ⟨r, hr, f, hf, (impl_shape himpl).symm, ck.id, hsg, g, expands_iff.mpr ⟨r', hr', hr'id, hg⟩, (impl_shape himpl').symm⟩

end Ndn.Lvs
