import NdnProofs.Lemmas.Lvs.Match
/-!
  `_sanity_check`'s `dfs` against the documented rules (`Sane`).
-/
namespace Ndn.Lvs

theorem vEdgeOK_iff (ve : VEdge) :
    vEdgeOK ve = true ↔ (∃ d, ve.dest = some d) ∧ ∃ v, ve.value = some v ∧ v ≠ [] := by
  unfold vEdgeOK
  cases ve.dest <;> cases ve.value with
  | none => simp
  | some v => cases v <;> simp

theorem optOK_iff (o : ConsOption) : optOK o = true ↔ OptionShape o := by
  unfold optOK OptionShape
  obtain ⟨value, tag, fn⟩ := o
  cases value with
  | none =>
    cases tag with
    | none =>
      cases fn with
      | none => simp
      | some f => cases hf : f.fnId <;> simp [hf]
    | some t =>
      cases fn with
      | none => simp
      | some f => simp
  | some v =>
    cases v with
    | nil =>
      cases tag with
      | none =>
        cases fn with
        | none => simp
        | some f => cases hf : f.fnId <;> simp [hf]
      | some t =>
        cases fn with
        | none => simp
        | some f => simp
    | cons x xs =>
      cases tag with
      | none =>
        cases fn with
        | none => simp
        | some f => simp
      | some t =>
        cases fn with
        | none => simp
        | some f => simp

theorem pEdgeOK_iff (pe : PEdge) :
    pEdgeOK pe = true ↔ (∃ d, pe.dest = some d) ∧ (∃ t, pe.tag = some t) ∧
      ∀ cl ∈ pe.cons, ∀ o ∈ cl, OptionShape o := by
  unfold pEdgeOK
  simp only [Bool.and_eq_true, List.all_eq_true, optOK_iff]
  cases pe.dest <;> cases pe.tag <;> simp

theorem dfs_succ (m : Model) (f cur : Nat) (par : Option Nat) :
    dfs m (f + 1) cur par =
      match m.nodes[cur]? with
      | none => false
      | some node =>
        nodeLocalOK m cur par node &&
        node.dests.all (fun d => match d with
          | some d => dfs m f d (some cur)
          | none => false) := by
  rw [dfs]; cases m.nodes[cur]? <;> rfl

/-- what a successful `dfs(cur, par)` has established about `cur` -/
theorem dfs_true {m : Model} {f n : Nat} {par : Option Nat} (h : dfs m f n par = true) :
    ∃ f' node, f = f' + 1 ∧ m.nodes[n]? = some node ∧ nodeLocalOK m n par node = true ∧
      ∀ d ∈ node.dests, ∃ k, d = some k ∧ dfs m f' k (some n) = true := by
  cases f with
  | zero => simp [dfs] at h
  | succ f' =>
    rw [dfs_succ] at h
    cases hn : m.nodes[n]? with
    | none => simp [hn] at h
    | some node =>
      simp only [hn, Bool.and_eq_true, List.all_eq_true] at h
      refine ⟨f', node, rfl, rfl, h.1, ?_⟩
      intro d hd
      have := h.2 d hd
      cases d with
      | none => simp at this
      | some k => exact ⟨k, rfl, this⟩

theorem reach_visited {m : Model} {f0 : Nat} (h0 : dfs m f0 m.startId none = true) {n : Nat}
    (hr : Reach m n) : ∃ f par, dfs m f n par = true := by
  induction hr with
  | start => exact ⟨f0, none, h0⟩
  | @edge n d node _ hn hd ih =>
    obtain ⟨f, par, hf⟩ := ih
    obtain ⟨f', node', _, hn', _, hall⟩ := dfs_true hf
    rw [hn] at hn'; cases hn'
    obtain ⟨k, hk, hdk⟩ := hall _ hd
    cases hk
    exact ⟨f', some n, hdk⟩

theorem nodeLocalOK_iff (m : Model) (n : Nat) (par : Option Nat) (node : Node) :
    nodeLocalOK m n par node = true ↔
      node.id = some n ∧ node.parent = par ∧ (∀ ve ∈ node.vEdges, vEdgeOK ve = true) ∧
      (∀ pe ∈ node.pEdges, pEdgeOK pe = true) ∧ ∀ k ∈ node.signCons, k < m.nodes.length := by
  unfold nodeLocalOK
  simp [and_assoc]

/-- the loop over the whole node array: every node carries its index -/
theorem idsOK_iff (m : Model) :
    idsOK m = true ↔ ∀ (n : Nat) (node : Node), m.nodes[n]? = some node → node.id = some n := by
  unfold idsOK
  rw [List.all_eq_true]
  constructor
  · intro h n node hn
    have hlt : n < m.nodes.length := (List.getElem?_eq_some_iff.mp hn).1
    have := h n (List.mem_range.mpr hlt)
    rw [hn] at this
    simpa using this
  · intro h i _
    cases hn : m.nodes[i]? with
    | none => rfl
    | some node => simp [h i node hn]

theorem structCheck_iff (m : Model) :
    structCheck m = true ↔ versionOK m = true ∧ idsOK m = true ∧ dfs m (m.nodes.length + 1) m.startId none = true := by
  unfold structCheck
  simp only [Bool.and_eq_true, and_assoc]

/-- **(→)** a model that passes the structural check obeys the documented rules -/
theorem sane_of_structCheck (m : Model) (h : structCheck m = true) : Sane m := by
  obtain ⟨hv, hids, h0⟩ := (structCheck_iff m).mp h
  have local_of : ∀ n node, Reach m n → m.nodes[n]? = some node →
      ∃ f par, nodeLocalOK m n par node = true ∧
        ∀ d ∈ node.dests, ∃ k, d = some k ∧ dfs m f k (some n) = true := by
    intro n node hr hn
    obtain ⟨f, par, hf⟩ := reach_visited h0 hr
    obtain ⟨f', node', _, hn', hl, hall⟩ := dfs_true hf
    rw [hn] at hn'; cases hn'
    exact ⟨f', par, hl, hall⟩
  refine ⟨?_, ?_, ?_, ?_, ?_, ?_⟩
  · unfold versionOK at hv
    cases hver : m.version with
    | none => simp [hver] at hv
    | some v => simp [hver] at hv; exact ⟨v, rfl, hv.1, hv.2⟩
  · obtain ⟨f', node, _, hn, hl, _⟩ := dfs_true h0
    exact ⟨node, hn, ((nodeLocalOK_iff _ _ _ _).mp hl).2.1⟩
  · exact (idsOK_iff m).mp hids
  · intro n node hr hn
    obtain ⟨f, par, hl, hall⟩ := local_of n node hr hn
    obtain ⟨_, _, hve, hpe, _⟩ := (nodeLocalOK_iff _ _ _ _).mp hl
    refine ⟨fun ve hm => ((vEdgeOK_iff ve).mp (hve ve hm)).2,
      fun pe hm => ((pEdgeOK_iff pe).mp (hpe pe hm)).2.1, ?_⟩
    intro d hd
    obtain ⟨k, hk, hdk⟩ := hall d hd
    obtain ⟨_, dn, _, hdn, hld, _⟩ := dfs_true hdk
    exact ⟨k, dn, hk, hdn, ((nodeLocalOK_iff _ _ _ _).mp hld).2.1⟩
  · intro n node hr hn
    obtain ⟨f, par, hl, _⟩ := local_of n node hr hn
    exact ((nodeLocalOK_iff _ _ _ _).mp hl).2.2.2.2
  · intro n node hr hn pe hpe
    obtain ⟨f, par, hl, _⟩ := local_of n node hr hn
    exact ((pEdgeOK_iff pe).mp (((nodeLocalOK_iff _ _ _ _).mp hl).2.2.2.1 pe hpe)).2.2

/-! ### (←): the documented rules make the reachable part a tree, so `dfs` succeeds within its fuel -/

theorem nodup_lt_length : ∀ (N : Nat) (l : List Nat), l.Nodup → (∀ x ∈ l, x < N) → l.length ≤ N
  | 0, l, _, hlt => by
    cases l with
    | nil => simp
    | cons x xs => exact absurd (hlt x (by simp)) (by omega)
  | N + 1, l, hnd, hlt => by
    by_cases hN : N ∈ l
    · have h1 := nodup_lt_length N (l.erase N) (hnd.erase N) (by
        intro x hx
        have := (List.Nodup.mem_erase_iff hnd).mp hx
        have := hlt x this.2
        omega)
      rw [List.length_erase_of_mem hN] at h1
      omega
    · have := nodup_lt_length N l hnd (by
        intro x hx
        have := hlt x hx
        have : x ≠ N := fun e => hN (e ▸ hx)
        omega)
      omega

/-- the parent recorded for node `x` -/
def parOf (m : Model) (x : Nat) : Option Nat := (m.nodes[x]?).bind (·.parent)

/-- the nodes on the recursion stack of `dfs`, current node first -/
inductive AncPath (m : Model) : List Nat → Prop
  | root : AncPath m [m.startId]
  | step {n d node rest} : AncPath m (n :: rest) → m.nodes[n]? = some node → some d ∈ node.dests →
      AncPath m (d :: n :: rest)

def ParChain (m : Model) : List Nat → Prop
  | [] => False
  | [s] => parOf m s = none
  | a :: b :: r => parOf m a = some b ∧ ParChain m (b :: r)

theorem AncPath.reach {m : Model} {p : List Nat} (h : AncPath m p) : ∀ x ∈ p, Reach m x := by
  induction h with
  | root => intro x hx; simp at hx; subst hx; exact Reach.start
  | step _ hn hd ih =>
    intro x hx
    rcases List.mem_cons.mp hx with rfl | hx
    · exact Reach.edge (ih _ (by simp)) hn hd
    · exact ih x hx

theorem AncPath.parChain {m : Model} (hs : Sane m) {p : List Nat} (h : AncPath m p) : ParChain m p := by
  induction h with
  | root =>
    obtain ⟨node, hn, hp⟩ := hs.root
    simp [ParChain, parOf, hn, hp]
  | @step n d node rest hp hn hd ih =>
    obtain ⟨k, dn, hk, hdn, hpar⟩ := (hs.edges n node (hp.reach n (by simp)) hn).2.2 _ hd
    cases hk
    exact ⟨by simp [parOf, hdn, hpar], ih⟩

theorem parChain_par_mem {m : Model} : ∀ (q : List Nat), ParChain m q → ∀ x ∈ q, ∀ y, parOf m x = some y → y ∈ q
  | [], h, _, _, _, _ => absurd h (by simp [ParChain])
  | [s], h, x, hx, y, hy => by
    simp at hx; subst hx
    simp only [ParChain] at h
    rw [h] at hy; cases hy
  | a :: b :: r, h, x, hx, y, hy => by
    obtain ⟨hab, hr⟩ := h
    rcases List.mem_cons.mp hx with rfl | hx
    · rw [hab] at hy; cases hy; simp
    · exact List.mem_cons_of_mem _ (parChain_par_mem (b :: r) hr x hx y hy)

theorem AncPath.nodup {m : Model} (hs : Sane m) {p : List Nat} (h : AncPath m p) : p.Nodup := by
  induction h with
  | root => simp
  | @step n d node rest hp hn hd ih =>
    have hpc := hp.parChain hs
    obtain ⟨k, dn, hk, hdn, hpar⟩ := (hs.edges n node (hp.reach n (by simp)) hn).2.2 _ hd
    cases hk
    have hpd : parOf m d = some n := by simp [parOf, hdn, hpar]
    rw [List.nodup_cons]
    refine ⟨?_, ih⟩
    intro hmem
    rcases List.mem_cons.mp hmem with rfl | hmem
    · -- d = n: its parent would be itself
      cases rest with
      | nil => simp only [ParChain] at hpc; rw [hpc] at hpd; cases hpd
      | cons b r =>
        obtain ⟨hab, _⟩ := hpc
        rw [hab] at hpd; cases hpd
        exact (List.nodup_cons.mp ih).1 (by simp)
    · -- d further up: n would occur twice
      cases rest with
      | nil => simp at hmem
      | cons b r =>
        have := parChain_par_mem (b :: r) hpc.2 d hmem n hpd
        exact (List.nodup_cons.mp ih).1 this

theorem nodeLocalOK_of_sane {m : Model} (hs : Sane m) {n : Nat} {node : Node} (hr : Reach m n)
    (hn : m.nodes[n]? = some node) (par : Option Nat) (hp : node.parent = par) :
    nodeLocalOK m n par node = true := by
  rw [nodeLocalOK_iff]
  obtain ⟨hval, htag, hdst⟩ := hs.edges n node hr hn
  refine ⟨hs.ids n node hn, hp, ?_, ?_, hs.signers n node hr hn⟩
  · intro ve hve
    obtain ⟨k, _, hk, _⟩ := hdst _ (vdest_mem_dests hve)
    exact (vEdgeOK_iff ve).mpr ⟨⟨k, hk⟩, hval ve hve⟩
  · intro pe hpe
    obtain ⟨k, _, hk, _⟩ := hdst _ (pdest_mem_dests hpe)
    exact (pEdgeOK_iff pe).mpr ⟨⟨k, hk⟩, htag pe hpe, hs.options n node hr hn pe hpe⟩

theorem dfs_of_sane {m : Model} (hs : Sane m) :
    ∀ (f n : Nat) (rest : List Nat), AncPath m (n :: rest) → m.nodes.length + 1 ≤ f + (n :: rest).length →
      dfs m f n rest.head? = true
  | 0, n, rest, hp, hlen => by
    have hnd := hp.nodup hs
    have hlt : ∀ x ∈ n :: rest, x < m.nodes.length := by
      intro x hx
      obtain ⟨node, hnode⟩ := (hp.reach x hx).node hs.treeOK
      exact (List.getElem?_eq_some_iff.mp hnode).1
    have := nodup_lt_length _ _ hnd hlt
    omega
  | f + 1, n, rest, hp, hlen => by
    have hr := hp.reach n (by simp)
    obtain ⟨node, hn⟩ := hr.node hs.treeOK
    have hpc := hp.parChain hs
    have hpar : node.parent = rest.head? := by
      cases rest with
      | nil => simpa [ParChain, parOf, hn] using hpc
      | cons b r => simpa [ParChain, parOf, hn] using hpc.1
    rw [dfs_succ]
    simp only [hn, Bool.and_eq_true, List.all_eq_true]
    refine ⟨nodeLocalOK_of_sane hs hr hn _ hpar, ?_⟩
    intro d hd
    obtain ⟨k, dn, hk, _, _⟩ := (hs.edges n node hr hn).2.2 d hd
    subst hk
    exact dfs_of_sane hs f k (n :: rest) (AncPath.step hp hn hd) (by simp at hlen ⊢; omega)

/-- **(←)** a model obeying the documented rules passes the structural check -/
theorem structCheck_of_sane (m : Model) (hs : Sane m) : structCheck m = true := by
  rw [structCheck_iff]
  refine ⟨?_, (idsOK_iff m).mpr hs.ids, ?_⟩
  · obtain ⟨v, hv, h1, h2⟩ := hs.version
    simp [versionOK, hv, h1, h2]
  · exact dfs_of_sane hs (m.nodes.length + 1) m.startId [] AncPath.root (by simp)

end Ndn.Lvs
