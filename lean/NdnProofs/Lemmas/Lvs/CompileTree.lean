import NdnProofs.Lemmas.Lvs.CompileNumber
import NdnProofs.Lemmas.Lvs.Sanity
import NdnProofs.Lemmas.Lvs.KeyText
/-!
  The node pool `genNode` produces is laid out as a tree (`Placed`): identifiers are positions, every edge
  leads to a later node whose parent is the source, edges carry a non-empty value / a tag, and every
  constraint option has exactly one of value / tag / user function.
-/
namespace Ndn.Lvs

def PreNode.dests (n : PreNode) : List (Option Nat) := n.vEdges.map (·.dest) ++ n.pEdges.map (·.dest)

def VEdgesOK (ves : List VEdge) : Prop := ∀ ve ∈ ves, ∃ v, ve.value = some v ∧ v ≠ []

def PEdgesOK (pes : List PEdge) : Prop :=
  ∀ pe ∈ pes, (∃ t, pe.tag = some t) ∧ ∀ cl ∈ pe.cons, ∀ o ∈ cl, OptionShape o

/-- the nodes `nodes` occupy the pool positions `base, base+1, …` and form a forest closed under edges -/
structure Placed (base : Nat) (nodes : List PreNode) : Prop where
  ids : ∀ i n, nodes[i]? = some n → n.id = base + i
  edges : ∀ i n, nodes[i]? = some n → ∀ d ∈ n.dests,
    ∃ j dn, d = some (base + j) ∧ nodes[j]? = some dn ∧ dn.parent = some (base + i)
  ves : ∀ n ∈ nodes, VEdgesOK n.vEdges
  pes : ∀ n ∈ nodes, PEdgesOK n.pEdges

theorem Placed.nil (base : Nat) : Placed base [] :=
  ⟨by simp, by simp, by simp, by simp⟩

theorem Placed.append {b : Nat} {A B : List PreNode} (hA : Placed b A) (hB : Placed (b + A.length) B) :
    Placed b (A ++ B) := by
  refine ⟨fun i n h => ?_, fun i n h d hd => ?_, fun n hn => ?_, fun n hn => ?_⟩
  · by_cases hi : i < A.length
    · rw [List.getElem?_append_left hi] at h
      exact hA.ids i n h
    · rw [List.getElem?_append_right (by omega)] at h
      have := hB.ids _ n h
      omega
  · by_cases hi : i < A.length
    · rw [List.getElem?_append_left hi] at h
      obtain ⟨j, dn, hd, hj, hp⟩ := hA.edges i n h d hd
      have hjl : j < A.length := by
        rcases Nat.lt_or_ge j A.length with h | h
        · exact h
        · rw [List.getElem?_eq_none h] at hj; simp at hj
      exact ⟨j, dn, hd, by rw [List.getElem?_append_left hjl]; exact hj, hp⟩
    · rw [List.getElem?_append_right (by omega)] at h
      obtain ⟨j, dn, hd, hj, hp⟩ := hB.edges _ n h d hd
      refine ⟨A.length + j, dn, by rw [hd]; congr 1; omega, ?_, by rw [hp]; congr 1; omega⟩
      rw [List.getElem?_append_right (by omega)]
      simpa using hj
  · rcases List.mem_append.mp hn with h | h
    · exact hA.ves n h
    · exact hB.ves n h
  · rcases List.mem_append.mp hn with h | h
    · exact hA.pes n h
    · exact hB.pes n h

/-- a node in front of the block of its descendants -/
theorem Placed.cons {b : Nat} {hd : PreNode} {sub : List PreNode} (hid : hd.id = b)
    (hv : VEdgesOK hd.vEdges) (hp : PEdgesOK hd.pEdges)
    (hdst : ∀ d ∈ hd.dests, ∃ j dn, d = some (b + 1 + j) ∧ sub[j]? = some dn ∧ dn.parent = some b)
    (hs : Placed (b + 1) sub) : Placed b (hd :: sub) := by
  refine ⟨fun i n h => ?_, fun i n h d hd' => ?_, fun n hn => ?_, fun n hn => ?_⟩
  · cases i with
    | zero => simp at h; subst h; simpa using hid
    | succ i => simp at h; have := hs.ids i n h; omega
  · cases i with
    | zero =>
      simp at h; subst h
      obtain ⟨j, dn, hd1, hj, hp1⟩ := hdst d hd'
      exact ⟨j + 1, dn, by rw [hd1]; congr 1; omega, by simpa using hj, by simpa using hp1⟩
    | succ i =>
      simp at h
      obtain ⟨j, dn, hd1, hj, hp1⟩ := hs.edges i n h d hd'
      exact ⟨j + 1, dn, by rw [hd1]; congr 1; omega, by simpa using hj, by rw [hp1]; congr 1; omega⟩
  · rcases List.mem_cons.mp hn with h | h
    · subst h; exact hv
    · exact hs.ves n h
  · rcases List.mem_cons.mp hn with h | h
    · subst h; exact hp
    · exact hs.pes n h

/-! ### well-formed chains and moves -/

/-- what the grammar guarantees of a constraint option: a literal is a (non-empty) encoded component,
    a user function has a name, and the name contains none of `(` `,` `}` (`FnNameOK`; the grammar's
    `FN_IDENT: "$" CNAME` gives `$` followed by letters, digits and `_`) -/
def OptOK {π : Type} : Opt π → Prop
  | .lit v => v ≠ []
  | .pat _ => True
  | .fn f _ => f ≠ "" ∧ FnNameOK f

def ChainOK (c : Chain) : Prop :=
  (∀ v, Atom.lit v ∈ c.name → v ≠ []) ∧ ∀ t ∈ c.cons, ∀ o ∈ t.opts, OptOK o

theorem optionShape_encOpt {o : Opt Int} (h : OptOK o) : OptionShape (encOpt o) := by
  cases o with
  | lit v => exact Or.inl ⟨⟨v, rfl, h⟩, rfl, rfl⟩
  | pat t => exact Or.inr (Or.inl ⟨Or.inl rfl, ⟨_, rfl⟩, rfl⟩)
  | fn f args => exact Or.inr (Or.inr ⟨Or.inl rfl, rfl, _, f, rfl, rfl, h.1⟩)

def MoveOK (mv : Move) : Prop :=
  (∀ v, mv.value = some v → v ≠ []) ∧ (∀ cl ∈ mv.cons, ∀ o ∈ cl, OptionShape o) ∧ ∀ c ∈ mv.ctx, ChainOK c

theorem mem_sortDedup {α : Type} [BEq α] [LawfulBEq α] (le : α → α → Bool) (l : List α) (a : α) :
    a ∈ sortDedup le l ↔ a ∈ l := by
  simp [sortDedup, mem_isort, List.mem_eraseDups]

theorem litAt_mem {depth : Nat} {rc : Chain} {v : Bytes} (h : litAt depth rc = some v) : Atom.lit v ∈ rc.name := by
  unfold litAt at h
  split at h
  · rename_i w hw
    injection h with h; subst h
    exact List.mem_of_getElem? hw
  · simp at h

theorem vMoves_ok (depth : Nat) (ctx : List Chain) (prev : List Int) (hctx : ∀ c ∈ ctx, ChainOK c) :
    ∀ mv ∈ vMoves depth ctx prev, MoveOK mv ∧ mv.value.isSome = true := by
  intro mv hmv
  unfold vMoves at hmv
  rw [List.mem_map] at hmv
  obtain ⟨v, hv, rfl⟩ := hmv
  rw [mem_sortDedup, List.mem_filterMap] at hv
  obtain ⟨rc, hrc, hl⟩ := hv
  refine ⟨⟨fun w hw => ?_, by simp, fun c hc => hctx c (List.mem_filter.mp hc).1⟩, rfl⟩
  simp at hw; subst hw
  exact (hctx rc hrc).1 _ (litAt_mem hl)

theorem pmove_cons_ok (rc : Chain) (tag : Int) (prev : List Int) (h : ChainOK rc) :
    ∀ cl ∈ (pmove rc tag prev).1, ∀ o ∈ cl, OptionShape o := by
  intro cl hcl o ho
  unfold pmove at hcl
  split at hcl
  · simp at hcl
  · simp only [List.mem_map, List.mem_filter] at hcl
    obtain ⟨t, ⟨ht, _⟩, rfl⟩ := hcl
    unfold encTerm at ho
    rw [List.mem_map] at ho
    obtain ⟨o', ho', rfl⟩ := ho
    exact optionShape_encOpt (h.2 t ht o' ho')

theorem mem_pMovesRaw {depth : Nat} {ctx : List Chain} {prev : List Int} {pm : Int × List Constraint × String × Chain}
    (h : pm ∈ pMovesRaw depth ctx prev) :
    pm.2.2.2 ∈ ctx ∧ patAt depth pm.2.2.2 = some pm.1 ∧ pm.2.1 = (pmove pm.2.2.2 pm.1 prev).1 ∧
      pm.2.2.1 = (pmove pm.2.2.2 pm.1 prev).2 := by
  unfold pMovesRaw at h
  rw [List.mem_filterMap] at h
  obtain ⟨rc, hrc, hm⟩ := h
  split at hm
  · rename_i t ht
    injection hm with hm; subst hm
    exact ⟨hrc, ht, rfl, rfl⟩
  · simp at hm

theorem pMoves_ok (depth : Nat) (ctx : List Chain) (prev : List Int) (hctx : ∀ c ∈ ctx, ChainOK c) :
    ∀ mv ∈ pMoves depth ctx prev, MoveOK mv ∧ mv.value = none := by
  intro mv hmv
  unfold pMoves at hmv
  simp only [List.mem_filterMap] at hmv
  obtain ⟨s, _, hm⟩ := hmv
  split at hm
  · simp at hm
  · rename_i pm rest hf
    injection hm with hm; subst hm
    have hsub : ∀ x ∈ pm :: rest, x ∈ pMovesRaw depth ctx prev := by
      intro x hx
      have : x ∈ (pMovesRaw depth ctx prev).filter (fun pm => pm.2.2.1 == s) := hf ▸ hx
      exact (List.mem_filter.mp this).1
    refine ⟨⟨by simp, ?_, ?_⟩, rfl⟩
    · obtain ⟨h1, _, h3, _⟩ := mem_pMovesRaw (hsub pm List.mem_cons_self)
      simp only []
      rw [h3]
      exact pmove_cons_ok _ _ _ (hctx _ h1)
    · intro c hc
      simp only [List.mem_map] at hc
      obtain ⟨x, hx, rfl⟩ := hc
      exact hctx _ (mem_pMovesRaw (hsub x hx)).1

/-! ### `genMoves`, `genNode` -/

/-- what a call `child ctx prev base tidx` guarantees -/
def ChildSpec (P : Nat) (child : List Chain → List Int → Nat → Nat → Except CErr (List PreNode × Nat)) : Prop :=
  ∀ c p b t sub t', (∀ x ∈ c, ChainOK x) → child c p b t = .ok (sub, t') →
    Placed b sub ∧ ∃ hd tl, sub = hd :: tl ∧ hd.parent = some P

/-- the destinations `ds` lead to nodes of the block `nodes` (placed at `base`) whose parent is `P` -/
def DestsInto (P base : Nat) (nodes : List PreNode) (ds : List (Option Nat)) : Prop :=
  ∀ d ∈ ds, ∃ j dn, d = some (base + j) ∧ nodes[j]? = some dn ∧ dn.parent = some P

theorem DestsInto.shift {P base : Nat} {sub rest : List PreNode} {ds : List (Option Nat)}
    (h : DestsInto P (base + sub.length) rest ds) : DestsInto P base (sub ++ rest) ds := by
  intro d hd
  obtain ⟨j, dn, hd1, hj, hp⟩ := h d hd
  refine ⟨sub.length + j, dn, by rw [hd1]; congr 1; omega, ?_, hp⟩
  rw [List.getElem?_append_right (by omega)]
  simpa using hj

theorem genMoves_placed {P : Nat} {child : List Chain → List Int → Nat → Nat → Except CErr (List PreNode × Nat)}
    (hc : ChildSpec P child) :
    ∀ (mvs : List Move) (base tidx : Nat) (ves : List VEdge) (pes : List PEdge) (nodes : List PreNode) (t' : Nat),
      (∀ mv ∈ mvs, MoveOK mv) → genMoves child mvs base tidx = .ok (ves, pes, nodes, t') →
      Placed base nodes ∧ VEdgesOK ves ∧ PEdgesOK pes ∧
        DestsInto P base nodes (ves.map (·.dest) ++ pes.map (·.dest)) := by
  intro mvs
  induction mvs with
  | nil =>
    intro base tidx ves pes nodes t' _ h
    simp only [genMoves] at h
    injection h with h
    simp only [Prod.mk.injEq] at h
    obtain ⟨rfl, rfl, rfl, _⟩ := h
    exact ⟨Placed.nil _, by simp [VEdgesOK], by simp [PEdgesOK], by simp [DestsInto]⟩
  | cons mv r ih =>
    intro base tidx ves pes nodes t' hok h
    unfold genMoves at h
    simp only [] at h
    split at h
    · simp at h
    · rename_i sub tidx2 hsub
      have hmv := hok mv List.mem_cons_self
      obtain ⟨hpl, hd, tl, hsubeq, hpar⟩ := hc _ _ _ _ _ _ hmv.2.2 hsub
      split at h
      · simp at h
      · rename_i ves' pes' rest tidx3 hrest
        obtain ⟨hpr, hvr, hper, hdr⟩ := ih _ _ _ _ _ _ (fun m hm => hok m (List.mem_cons_of_mem _ hm)) hrest
        have hplaced : Placed base (sub ++ rest) := hpl.append hpr
        have hnew : ∃ j dn, some base = some (base + j) ∧ (sub ++ rest)[j]? = some dn ∧ dn.parent = some P :=
          ⟨0, hd, by simp, by simp [hsubeq], hpar⟩
        have hdr' := hdr.shift (sub := sub)
        split at h
        · rename_i v hv
          injection h with h
          simp only [Prod.mk.injEq] at h
          obtain ⟨rfl, rfl, rfl, _⟩ := h
          refine ⟨hplaced, ?_, hper, ?_⟩
          · intro ve hve
            rcases List.mem_cons.mp hve with hve | hve
            · subst hve; exact ⟨v, rfl, hmv.1 v hv⟩
            · exact hvr ve hve
          · intro d hd'
            simp only [List.map_cons, List.cons_append, List.mem_cons] at hd'
            rcases hd' with hd' | hd'
            · subst hd'; exact hnew
            · exact hdr' d hd'
        · injection h with h
          simp only [Prod.mk.injEq] at h
          obtain ⟨rfl, rfl, rfl, _⟩ := h
          refine ⟨hplaced, hvr, ?_, ?_⟩
          · intro pe hpe
            rcases List.mem_cons.mp hpe with hpe | hpe
            · subst hpe; exact ⟨⟨_, rfl⟩, hmv.2.1⟩
            · exact hper pe hpe
          · intro d hd'
            simp only [List.map_cons, List.mem_append, List.mem_cons] at hd'
            rcases hd' with hd' | hd' | hd'
            · exact hdr' d (List.mem_append_left _ hd')
            · subst hd'; exact hnew
            · exact hdr' d (List.mem_append_right _ hd')

theorem genNode_placed : ∀ (fuel depth : Nat) (ctx : List Chain) (parent : Option Nat) (prev : List Int)
    (base tidx : Nat) (nodes : List PreNode) (t' : Nat), (∀ c ∈ ctx, ChainOK c) →
    genNode fuel depth ctx parent prev base tidx = .ok (nodes, t') →
    Placed base nodes ∧ ∃ hd tl, nodes = hd :: tl ∧ hd.parent = parent := by
  intro fuel
  induction fuel with
  | zero =>
    intro depth ctx parent prev base tidx nodes t' hctx h
    unfold genNode at h
    simp only [] at h
    split at h
    · injection h with h
      simp only [Prod.mk.injEq] at h
      obtain ⟨rfl, _⟩ := h
      refine ⟨Placed.cons rfl (by simp [VEdgesOK]) (by simp [PEdgesOK]) (by simp [PreNode.dests]) (Placed.nil _), _, _, rfl, rfl⟩
    · simp at h
  | succ f ih =>
    intro depth ctx parent prev base tidx nodes t' hctx h
    unfold genNode at h
    simp only [] at h
    split at h
    · injection h with h
      simp only [Prod.mk.injEq] at h
      obtain ⟨rfl, _⟩ := h
      refine ⟨Placed.cons rfl (by simp [VEdgesOK]) (by simp [PEdgesOK]) (by simp [PreNode.dests]) (Placed.nil _), _, _, rfl, rfl⟩
    · rename_i mv mvs hmoves
      split at h
      · simp at h
      · rename_i ves pes sub tidx' hgm
        injection h with h
        simp only [Prod.mk.injEq] at h
        obtain ⟨rfl, _⟩ := h
        have hctx' : ∀ c ∈ ctx.filter (fun rc => !(rc.name.length == depth)), ChainOK c :=
          fun c hc => hctx c (List.mem_filter.mp hc).1
        have hmok : ∀ m ∈ mv :: mvs, MoveOK m := by
          intro m hm
          rw [← hmoves] at hm
          rcases List.mem_append.mp hm with hm | hm
          · exact (vMoves_ok _ _ _ hctx' m hm).1
          · exact (pMoves_ok _ _ _ hctx' m hm).1
        have hchild : ChildSpec base (fun c p b t => genNode f (depth + 1) c (some base) p b t) :=
          fun c p b t sub t2 hc hg => ih _ _ _ _ _ _ _ _ hc hg
        obtain ⟨hpl, hv, hp, hd⟩ := genMoves_placed hchild _ _ _ _ _ _ _ hmok hgm
        exact ⟨Placed.cons rfl hv hp hd hpl, _, _, rfl, rfl⟩

end Ndn.Lvs
