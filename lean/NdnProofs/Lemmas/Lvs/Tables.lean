import NdnModel.Lvs.Match
/-! Facts about the checker model that the generated-table theorems of C11 / C12 are stated with. -/
namespace Ndn.Lvs

/-- `stripDigest` drops the last component exactly when its Type number is 1 (ImplicitSha256Digest) -/
theorem stripDigest_spec (n : List Bytes) (c : Bytes) (t s : Nat) (h : parseTlNum c 0 = .ok (t, s)) :
    stripDigest (n ++ [c]) = .ok (if t = 1 then n else n ++ [c]) := by
  unfold stripDigest
  simp only [List.getLast?_append, List.getLast?_singleton, Option.some_or, h]
  by_cases ht : t = 1
  · subst ht; simp
  · simp only [ht, if_false]
    split
    · rename_i heq; simp only [Except.ok.injEq, Prod.mk.injEq] at heq; exact absurd heq.1 ht
    · rfl
    · rename_i heq; cases heq

/-- the name `match` reports for a node without rule names -/
theorem ruleNamesOf_anonymous (m : Model) (n : Nat) (node : Node) (h : m.nodes[n]? = some node)
    (he : node.ruleNames = []) : ruleNamesOf m n = ["#_" ++ toString n] := by
  simp [ruleNamesOf, h, he]

end Ndn.Lvs
