import NdnProofs.Lemmas.Lvs.KeyPath
import NdnProofs.Lemmas.Lvs.KeyCons
/-!
  The merge-key path of a rule chain, read at the level of the source text: the key path of a chain that implements the
  expansion `f` is `Flat.keys f` numbered (`impl_keys`), the key path determines `Flat.keys f` (`keyNum_left_unique`), and
  - temporary patterns aside - `Flat.keys f` determines the key path (`keyNum_right_unique`).
-/
namespace Ndn.Lvs

/-! ### relations position by position -/

theorem All2.left_unique {α β : Type} {R : α → β → Prop} (hR : ∀ a a' b, R a b → R a' b → a = a') :
    ∀ {l l' : List α} {m : List β}, All2 R l m → All2 R l' m → l = l' := by
  intro l l' m h
  induction h generalizing l' with
  | nil => intro h'; cases h'; rfl
  | cons hr _ ih => intro h'; cases h' with | cons hr' hrest' => rw [hR _ _ _ hr hr', ih hrest']

theorem All2.right_unique {α β : Type} {R : α → β → Prop} {P : α → Prop}
    (hR : ∀ a b b', P a → R a b → R a b' → b = b') :
    ∀ {l : List α} {m m' : List β}, (∀ a ∈ l, P a) → All2 R l m → All2 R l m' → m = m' := by
  intro l m m' hP h
  induction h generalizing m' with
  | nil => intro h'; cases h'; rfl
  | cons hr _ ih =>
    intro h'
    cases h' with
    | cons hr' hrest' =>
      rw [hR _ _ _ (hP _ List.mem_cons_self) hr hr', ih (fun a ha => hP a (List.mem_cons_of_mem _ ha)) hrest']

/-! ### numbering is injective, and a function -/

theorem numArg_inj {F : List String} {a a' : Arg String} {n : Arg Int} (h : numArg F a = .ok n)
    (h' : numArg F a' = .ok n) : a = a' := by
  cases a with
  | lit v =>
    cases a' with
    | lit v' => simp [numArg] at h h'; rw [← h] at h'; injection h' with h'; rw [h']
    | pat p' =>
      simp only [numArg] at h h'
      split at h'
      · injection h with h; injection h' with h'; rw [← h] at h'; cases h'
      · simp at h'
  | pat p =>
    simp only [numArg] at h
    split at h
    · rename_i k hk
      injection h with h
      cases a' with
      | lit v' => simp only [numArg] at h'; injection h' with h'; rw [← h] at h'; cases h'
      | pat p' =>
        simp only [numArg] at h'
        split at h'
        · rename_i k' hk'
          injection h' with h'
          rw [← h] at h'
          injection h' with h'
          obtain ⟨_, hp, rfl⟩ := numRhs_tag hk
          obtain ⟨_, _, rfl⟩ := numRhs_tag hk'
          rw [tagIn_inj hp h'.symm]
        · simp at h'
    · simp at h

theorem mapE_inj {α β ε : Type} {f : α → Except ε β} (hf : ∀ a a' b, f a = .ok b → f a' = .ok b → a = a')
    {l l' : List α} {bs : List β} (h : mapE f l = .ok bs) (h' : mapE f l' = .ok bs) : l = l' :=
  All2.left_unique (R := fun a b => f a = .ok b) hf (mapE_all2 h) (mapE_all2 h')

theorem numOpt_inj {F : List String} {o o' : Opt String} {n : Opt Int} (h : numOpt F o = .ok n)
    (h' : numOpt F o' = .ok n) : o = o' := by
  cases o with
  | lit v =>
    simp only [numOpt] at h
    injection h with h
    cases o' with
    | lit v' => simp only [numOpt] at h'; injection h' with h'; rw [← h] at h'; injection h' with h'; rw [h']
    | pat p' =>
      simp only [numOpt] at h'
      split at h'
      · injection h' with h'; rw [← h] at h'; cases h'
      · simp at h'
    | fn f' args' =>
      simp only [numOpt] at h'
      split at h'
      · injection h' with h'; rw [← h] at h'; cases h'
      · simp at h'
  | pat p =>
    simp only [numOpt] at h
    split at h
    · rename_i k hk
      injection h with h
      cases o' with
      | lit v' => simp only [numOpt] at h'; injection h' with h'; rw [← h] at h'; cases h'
      | pat p' =>
        simp only [numOpt] at h'
        split at h'
        · rename_i k' hk'
          injection h' with h'
          rw [← h] at h'
          injection h' with h'
          obtain ⟨_, hp, rfl⟩ := numRhs_tag hk
          obtain ⟨_, _, rfl⟩ := numRhs_tag hk'
          rw [tagIn_inj hp h'.symm]
        · simp at h'
      | fn f' args' =>
        simp only [numOpt] at h'
        split at h'
        · injection h' with h'; rw [← h] at h'; cases h'
        · simp at h'
    · simp at h
  | fn f args =>
    simp only [numOpt] at h
    split at h
    · rename_i nargs hargs
      injection h with h
      cases o' with
      | lit v' => simp only [numOpt] at h'; injection h' with h'; rw [← h] at h'; cases h'
      | pat p' =>
        simp only [numOpt] at h'
        split at h'
        · injection h' with h'; rw [← h] at h'; cases h'
        · simp at h'
      | fn f' args' =>
        simp only [numOpt] at h'
        split at h'
        · rename_i nargs' hargs'
          injection h' with h'
          rw [← h] at h'
          injection h' with hf hargs''
          subst hf; subst hargs''
          rw [mapE_inj (fun a a' b => numArg_inj) hargs' hargs]
        · simp at h'
    · simp at h

/-- constraints (each a list of options) and their numbered form -/
abbrev OptsNum (F : List String) (tc : List (List (Opt String))) (ntc : List (List (Opt Int))) : Prop :=
  All2 (fun os nos => mapE (numOpt F) os = .ok nos) tc ntc

theorem optsNum_left_unique {F : List String} {tc tc' : List (List (Opt String))} {ntc : List (List (Opt Int))}
    (h : OptsNum F tc ntc) (h' : OptsNum F tc' ntc) : tc = tc' :=
  All2.left_unique (R := fun os nos => mapE (numOpt F) os = .ok nos)
    (fun _ _ _ h1 h2 => mapE_inj (fun _ _ _ => numOpt_inj) h1 h2) h h'

theorem optsNum_right_unique {F : List String} {tc : List (List (Opt String))} {ntc ntc' : List (List (Opt Int))}
    (h : OptsNum F tc ntc) (h' : OptsNum F tc ntc') : ntc = ntc' :=
  All2.right_unique (R := fun os nos => mapE (numOpt F) os = .ok nos) (P := fun _ => True)
    (fun _ _ _ _ h1 h2 => by rw [h1] at h2; injection h2) (fun _ _ => trivial) h h'

/-! ### the printed key -/

/-- the key `pattern_movement` prints for the tag `t` with the constraints `ntc` -/
def keyStr (t : Int) (ntc : List (List (Opt Int))) : String :=
  toString t ++ ":" ++ String.join (ntc.map fun os => termStr ⟨[], os⟩)

theorem keyStr_nil (t : Int) : keyStr t [] = toString t ++ ":" := by
  simp [keyStr, String.join]

theorem keyStr_terms (t : Int) (cs : List NTerm) :
    keyStr t (cs.map (·.opts)) = toString t ++ ":" ++ String.join (cs.map termStr) := by
  unfold keyStr
  rw [List.map_map]
  rfl

theorem keyStr_inj {t t' : Int} {ntc ntc' : List (List (Opt Int))} (h : ∀ os ∈ ntc, OptsFnOK os)
    (h' : ∀ os ∈ ntc', OptsFnOK os) (he : keyStr t ntc = keyStr t' ntc') : t = t' ∧ ntc = ntc' := by
  unfold keyStr at he
  obtain ⟨ht, hr⟩ := tagKey_inj he
  refine ⟨ht, ?_⟩
  have := termStrs_inj (ntc.map fun os => (⟨[], os⟩ : NTerm)) (ntc'.map fun os => (⟨[], os⟩ : NTerm))
    (by intro t ht; simp only [List.mem_map] at ht; obtain ⟨os, hos, rfl⟩ := ht; exact h os hos)
    (by intro t ht; simp only [List.mem_map] at ht; obtain ⟨os, hos, rfl⟩ := ht; exact h' os hos)
    (by simpa [List.map_map, Function.comp_def] using hr)
  simpa [List.map_map, Function.comp_def] using this

/-- the key of `pattern_movement`, by whether the tag was met before -/
theorem pmove_key (rc : Chain) (t : Int) (prev : List Int) :
    (pmove rc t prev).2 = if prev.contains t then keyStr t []
      else keyStr t ((rc.cons.filter (fun c => c.pat.contains t)).map (·.opts)) := by
  unfold pmove
  split
  · rw [keyStr_nil]
  · rw [keyStr_terms]

/-! ### source keys and merge keys -/

/-- a position of the key of an expansion, and the merge key the compiler computes for it -/
inductive KeyNum (F : List String) : SKey → MKey → Prop
  | lit (v : Bytes) : KeyNum F (.lit v) (.lit v)
  | named (x : String) (tc : List (List (Opt String))) (ntc : List (List (Opt Int))) :
      x ∈ F → OptsNum F tc ntc → (∀ os ∈ ntc, OptsFnOK os) → KeyNum F (.named x tc) (.pat (keyStr (tagIn F x) ntc))
  | temp (t : Int) (tc : List (List (Opt String))) (ntc : List (List (Opt Int))) :
      t < 0 → OptsNum F tc ntc → (∀ os ∈ ntc, OptsFnOK os) → KeyNum F (.temp tc) (.pat (keyStr t ntc))

theorem KeyNum.inv {F : List String} {a : SKey} {m : MKey} (h : KeyNum F a m) :
    (∃ v, a = .lit v ∧ m = .lit v) ∨
    (∃ x tc ntc, a = .named x tc ∧ m = .pat (keyStr (tagIn F x) ntc) ∧ x ∈ F ∧ OptsNum F tc ntc ∧ ∀ os ∈ ntc, OptsFnOK os) ∨
    (∃ t tc ntc, a = .temp tc ∧ m = .pat (keyStr t ntc) ∧ t < 0 ∧ OptsNum F tc ntc ∧ ∀ os ∈ ntc, OptsFnOK os) := by
  cases h with
  | lit v => exact Or.inl ⟨v, rfl, rfl⟩
  | named x tc ntc h1 h2 h3 => exact Or.inr (Or.inl ⟨x, tc, ntc, rfl, rfl, h1, h2, h3⟩)
  | temp t tc ntc h1 h2 h3 => exact Or.inr (Or.inr ⟨t, tc, ntc, rfl, rfl, h1, h2, h3⟩)

/-- **the merge key determines the source key** -/
theorem keyNum_left_unique {F : List String} {a a' : SKey} {m : MKey} (h : KeyNum F a m) (h' : KeyNum F a' m) : a = a' := by
  rcases h.inv with ⟨v, rfl, rfl⟩ | ⟨x, tc, ntc, rfl, rfl, hx, hn, hok⟩ | ⟨t, tc, ntc, rfl, rfl, ht, hn, hok⟩
  · rcases h'.inv with ⟨v', rfl, hm⟩ | ⟨_, _, _, _, hm, _⟩ | ⟨_, _, _, _, hm, _⟩
    · injection hm with hm; rw [hm]
    · cases hm
    · cases hm
  · rcases h'.inv with ⟨_, _, hm⟩ | ⟨x', tc', ntc', rfl, hm, hx', hn', hok'⟩ | ⟨t', tc', ntc', rfl, hm, ht', hn', hok'⟩
    · cases hm
    · injection hm with hm
      obtain ⟨hk, rfl⟩ := keyStr_inj hok hok' hm
      rw [tagIn_inj hx hk, optsNum_left_unique hn hn']
    · injection hm with hm
      obtain ⟨hk, _⟩ := keyStr_inj hok hok' hm
      have := tagIn_pos F x
      omega
  · rcases h'.inv with ⟨_, _, hm⟩ | ⟨x', tc', ntc', rfl, hm, hx', hn', hok'⟩ | ⟨t', tc', ntc', rfl, hm, ht', hn', hok'⟩
    · cases hm
    · injection hm with hm
      obtain ⟨hk, _⟩ := keyStr_inj hok hok' hm
      have := tagIn_pos F x'
      omega
    · injection hm with hm
      obtain ⟨_, rfl⟩ := keyStr_inj hok hok' hm
      rw [optsNum_left_unique hn hn']

def SKey.isTemp : SKey → Bool
  | .temp _ => true
  | _ => false

/-- **temporary patterns aside, the source key determines the merge key** -/
theorem keyNum_right_unique {F : List String} {a : SKey} {m m' : MKey} (ha : a.isTemp = false) (h : KeyNum F a m)
    (h' : KeyNum F a m') : m = m' := by
  rcases h.inv with ⟨v, rfl, rfl⟩ | ⟨x, tc, ntc, rfl, rfl, hx, hn, hok⟩ | ⟨t, tc, ntc, rfl, rfl, ht, hn, hok⟩
  · rcases h'.inv with ⟨v', ha', rfl⟩ | ⟨_, _, _, ha', _⟩ | ⟨_, _, _, ha', _⟩
    · injection ha' with ha'; rw [ha']
    · cases ha'
    · cases ha'
  · rcases h'.inv with ⟨_, ha', _⟩ | ⟨x', tc', ntc', ha', rfl, _, hn', _⟩ | ⟨_, _, _, ha', _⟩
    · cases ha'
    · injection ha' with h1 h2
      subst h1; subst h2
      rw [optsNum_right_unique hn hn']
    · cases ha'
  · simp [SKey.isTemp] at ha

/-! ### the key path of a chain that implements an expansion -/

theorem impl_keys_aux (F : List String) (ch : Chain) (hok : ChainOK ch) (hpat : ConsPatOK ch)
    (ncons : List (String × List (Opt String))) (hnc : All2 (NconsNum F) ncons (resCons ch.cons)) :
    ∀ (items : List SItem) (atoms : List Atom), All2 (ItemNum F) items (atoms.map (resItem ch.cons)) →
    (negTags atoms).Nodup → ∀ (prev : List Int) (seen : List String),
    (∀ x, x ∈ F → (tagIn F x ∈ prev ↔ x ∈ seen)) → (∀ t ∈ negTags atoms, t ∉ prev) →
    All2 (KeyNum F) (skeysFrom ncons items seen) (keyFrom ch atoms prev) := by
  have hfn : ∀ t : Int, ∀ os ∈ (ch.cons.filter (fun c => c.pat.contains t)).map (·.opts), OptsFnOK os := by
    intro t os hos
    simp only [List.mem_map] at hos
    obtain ⟨c, hc, rfl⟩ := hos
    exact optsFnOK_of_chainOK hok c (List.mem_filter.mp hc).1
  intro items
  induction items with
  | nil =>
    intro atoms h _ prev seen _ _
    cases atoms with
    | cons a r => simp only [List.map_cons] at h; cases h
    | nil => exact .nil
  | cons it its ih =>
    intro atoms h hnd prev seen hps hfresh
    cases atoms with
    | nil => simp only [List.map_nil] at h; cases h
    | cons a r =>
      simp only [List.map_cons] at h
      cases h with
      | cons hit hrest =>
      cases a with
      | lit v =>
        simp only [resItem] at hit
        cases hit
        rw [negTags_cons_lit] at hnd hfresh
        simp only [skeysFrom, keyFrom]
        exact .cons (.lit v) (ih r hrest hnd prev seen hps hfresh)
      | pat t =>
        rw [negTags_cons_pat] at hnd hfresh
        by_cases ht : t < 0
        · simp only [resItem, ht, if_true] at hit
          simp only [ht, if_true] at hnd hfresh
          cases hit with
          | temp tc ntc hnum =>
          have hnp : t ∉ prev := hfresh t List.mem_cons_self
          have hcont : prev.contains t = false := by simpa using hnp
          simp only [skeysFrom, keyFrom]
          refine .cons ?_ (ih r hrest (List.nodup_cons.mp hnd).2 (prev ++ [t]) seen ?_ ?_)
          · rw [pmove_key, hcont]
            exact .temp t tc _ ht hnum (hfn t)
          · intro x hx
            rw [List.mem_append, ← hps x hx]
            have := tagIn_pos F x
            simp only [List.mem_singleton]
            constructor
            · rintro (h1 | h1)
              · exact h1
              · omega
            · exact Or.inl
          · intro u hu
            rw [List.mem_append]
            rintro (h1 | h1)
            · exact hfresh u (List.mem_cons_of_mem _ hu) h1
            · simp only [List.mem_singleton] at h1
              subst h1
              exact (List.nodup_cons.mp hnd).1 hu
        · simp only [resItem, ht, if_false] at hit
          simp only [ht, if_false] at hnd hfresh
          generalize hnt : NItem.named t = ni at hit
          cases hit with
          | lit v => cases hnt
          | temp tc ntc _ => cases hnt
          | named x hxt hx =>
          injection hnt with hnt
          subst hnt
          simp only [skeysFrom, keyFrom]
          refine .cons ?_ (ih r hrest hnd (prev ++ [tagIn F x]) (x :: seen) ?_ ?_)
          · rw [pmove_key]
            by_cases hs : x ∈ seen
            · have h1 : prev.contains (tagIn F x) = true := by simpa using (hps x hx).mpr hs
              have h2 : seen.contains x = true := by simpa using hs
              rw [h1, h2]
              exact .named x [] [] hx .nil (by simp)
            · have h1 : prev.contains (tagIn F x) = false := by
                simpa using fun hm => hs ((hps x hx).mp hm)
              have h2 : seen.contains x = false := by simpa using hs
              rw [h1, h2]
              have hnum := ncons_filter_num (x := x) hnc
              rw [resCons_filter_eq ch.cons hpat (tagIn F x) (by have := tagIn_pos F x; omega)] at hnum
              exact .named x _ _ hx hnum (hfn _)
          · intro y hy
            simp only [List.mem_append, List.mem_cons, List.not_mem_nil, or_false, hps y hy]
            constructor
            · rintro (h1 | h1)
              · exact Or.inr h1
              · exact Or.inl (tagIn_inj hy h1)
            · rintro (h1 | h1)
              · exact Or.inr (by rw [h1])
              · exact Or.inl h1
          · intro u hu
            rw [List.mem_append]
            rintro (h1 | h1)
            · exact hfresh u hu h1
            · simp only [List.mem_singleton] at h1
              have := (mem_negTags.mp hu).2
              have := tagIn_pos F x
              omega

/-- **the key path of a chain is the key of the expansion it implements, numbered** -/
theorem impl_keys {F : List String} {ch : Chain} {f : Flat} (h : Impl F ch f) (hok : ChainOK ch) (hpat : ConsPatOK ch)
    (hcl : ChainClosed ch) : All2 (KeyNum F) f.keys (keyPath ch) :=
  impl_keys_aux F ch hok hpat f.ncons h.2 f.items ch.name h.1 hcl.nodup [] [] (by simp) (by simp)

/-- chains with the same key path implement expansions with the same key -/
theorem keys_of_keyPath {F : List String} {c c' : Chain} {f f' : Flat} (h : Impl F c f) (h' : Impl F c' f')
    (hok : ChainOK c) (hok' : ChainOK c') (hpat : ConsPatOK c) (hpat' : ConsPatOK c')
    (hcl : ChainClosed c) (hcl' : ChainClosed c') (he : keyPath c = keyPath c') : f.keys = f'.keys := by
  have h1 := impl_keys h hok hpat hcl
  have h2 := impl_keys h' hok' hpat' hcl'
  rw [← he] at h2
  exact All2.left_unique (R := KeyNum F) (fun _ _ _ => keyNum_left_unique) h1 h2

/-- … and, when no temporary pattern is involved, conversely -/
theorem keyPath_of_keys {F : List String} {c c' : Chain} {f f' : Flat} (h : Impl F c f) (h' : Impl F c' f')
    (hok : ChainOK c) (hok' : ChainOK c') (hpat : ConsPatOK c) (hpat' : ConsPatOK c')
    (hcl : ChainClosed c) (hcl' : ChainClosed c') (hnt : ∀ a ∈ f.keys, a.isTemp = false) (he : f.keys = f'.keys) :
    keyPath c = keyPath c' := by
  have h1 := impl_keys h hok hpat hcl
  have h2 := impl_keys h' hok' hpat' hcl'
  rw [← he] at h2
  exact All2.right_unique (R := KeyNum F) (P := fun a => a.isTemp = false)
    (fun _ _ _ ha => keyNum_right_unique ha) hnt h1 h2

end Ndn.Lvs
