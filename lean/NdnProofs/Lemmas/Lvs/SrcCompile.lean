import NdnProofs.Lemmas.Lvs.SrcRepl
import NdnProofs.Lemmas.Lvs.CompileComplete
import NdnProofs.Lemmas.Lvs.CompileVDet
import NdnProofs.Lemmas.Lvs.CompileExample
import NdnProofs.Lemmas.Lvs.Sem
import NdnProofs.Lemmas.Lvs.SignCycle
/-!
  Passes 1–3 together (`chainsOf`): the chains the tree is generated from implement exactly the expansions of the rules
  of the source text (temporary rules under their renamed identifiers), `chainsOf_sem`; and what the chains accept
  (`ChainRun`) is what the text says (`SrcMatches`), `chains_iff_src`.
-/
namespace Ndn.Lvs

/-! ### the meaning of a schema depends on the set of its definitions only -/

mutual
theorem expandsName_mono {S S' : Schema} (h : ∀ r ∈ S.rules, r ∈ S'.rules) :
    ∀ {cs : List (Term String String)} {comps : List (Comp String)} {f : Flat},
    ExpandsName S cs comps f → ExpandsName S' cs comps f
  | _, _, _, .nil => .nil
  | _, _, _, .lit h1 => .lit (expandsName_mono h h1)
  | _, _, _, .named hp h1 => .named hp (expandsName_mono h h1)
  | _, _, _, .temp hp h1 => .temp hp (expandsName_mono h h1)
  | _, _, _, .ref ht he h1 => .ref ht (expands_mono h he) (expandsName_mono h h1)
theorem expands_mono {S S' : Schema} (h : ∀ r ∈ S.rules, r ∈ S'.rules) :
    ∀ {q : String} {f : Flat}, Expands S q f → Expands S' q f
  | _, _, .mk hr hcs h1 => .mk (h _ hr) hcs (expandsName_mono h h1)
end

theorem expandsDef_mono {S S' : Schema} (h : ∀ r ∈ S.rules, r ∈ S'.rules) {r : SRule} {f : Flat}
    (hf : ExpandsDef S r f) : ExpandsDef S' r f := by
  obtain ⟨cs, hcs, f0, hf0, he⟩ := hf
  exact ⟨cs, hcs, f0, expandsName_mono h hf0, he⟩

theorem expands_congr {S S' : Schema} (h : ∀ r, r ∈ S.rules ↔ r ∈ S'.rules) {q : String} {f : Flat} :
    Expands S q f ↔ Expands S' q f :=
  ⟨expands_mono fun r hr => (h r).mp hr, expands_mono fun r hr => (h r).mpr hr⟩

/-! ### pass 1: all definitions of a referenced rule stand before the reference -/

theorem sortRuleReferences_refsDone (S : Schema) (rules : List SRule) (h : sortRuleReferences S = .ok rules) :
    RefsDone ⟨rules⟩ [] rules := by
  have hperm := sortRuleReferences_perm S rules h
  unfold sortRuleReferences at h
  simp only [] at h
  split at h
  · simp at h
  · rename_i hbad
    split at h
    · simp at h
    · rename_i order horder
      injection h with h
      have hidsnd : (ruleIds (renameTemps S.rules 1)).Nodup := nodup_eraseDups _ _ (Nat.le_refl _)
      obtain ⟨hmem, hidx⟩ := topOrder_idx _ _ order hidsnd horder
      have hsorted := isort_pairwise (fun r : SRule => order.idxOf r.id) (renameTemps S.rules 1)
      rw [h] at hsorted
      intro pre x post hsplit q hq
      have hx : x ∈ rules := by rw [hsplit]; simp
      have hx' : x ∈ renameTemps S.rules 1 := hperm.mem_iff.mp hx
      have hqi : q ∈ refsOf x.name := mem_refsOf.mpr hq
      have hqref : q ∈ (renameTemps S.rules 1).flatMap (fun r => refsOf r.name) := List.mem_flatMap.mpr ⟨x, hx', hqi⟩
      have hgood : badRef (ruleIds (renameTemps S.rules 1)) q = false := by
        cases hb : badRef (ruleIds (renameTemps S.rules 1)) q with
        | false => rfl
        | true => exact absurd (List.any_eq_true.mpr ⟨q, hqref, hb⟩) hbad
      unfold badRef at hgood
      simp only [Bool.or_eq_false_iff, Bool.not_eq_false', List.contains_eq_mem, decide_eq_true_eq] at hgood
      refine ⟨hgood.2, fun r' hr' hr'q => Or.inr ?_⟩
      have hxids : x.id ∈ ruleIds (renameTemps S.rules 1) := mem_ruleIds.mpr ⟨x, hx', rfl⟩
      have hadj : q ∈ adjOf (renameTemps S.rules 1) x.id := by
        unfold adjOf
        rw [List.mem_flatMap]
        exact ⟨x, List.mem_filter.mpr ⟨hx', by simp⟩, hqi⟩
      have hlt := hidx x.id q hxids hgood.1 hadj
      exact sorted_before (fun r : SRule => order.idxOf r.id) hsorted hsplit hr' (by simpa [hr'q] using hlt)

/-! ### passes 1–3 -/

theorem firstFresh_neg (rules : List NRule) : firstFreshTemp rules < 0 := by
  unfold firstFreshTemp
  have := foldl_min_le (rules.flatMap (fun r => patsOf r.name)) 0
  omega

theorem replicateLoop_keys : ∀ (rules : List NRule) (rep : PyDict String (List Chain)) (nt : Int)
    (res : PyDict String (List Chain)), (PyDict.keys rep).Nodup → replicateLoop rules rep nt = .ok res →
    (PyDict.keys res).Nodup := by
  intro rules
  induction rules with
  | nil =>
    intro rep nt res hk h
    simp only [replicateLoop] at h
    injection h with h; subst h; exact hk
  | cons r rs ih =>
    intro rep nt res hk h
    unfold replicateLoop at h
    split at h
    · simp at h
    · rename_i cur nt' _
      refine ih _ _ _ ?_ h
      unfold repAdd
      split <;> exact PyDict.nodup_keys_set _ _ _ hk

/-- **the chains are the expansions of the rules as written** -/
theorem chainsOf_sem (S : Schema) (chains : List Chain) (F : List String) (h : chainsOf S = .ok (chains, F)) :
    F.Nodup ∧
    (∀ c ∈ chains, ChainClosed c ∧ ∃ r ∈ renameTemps S.rules 1, r.id = c.id ∧ c.sign = isort strLe r.sign ∧
      ∃ f, ExpandsDef ⟨renameTemps S.rules 1⟩ r f ∧ Impl F c f) ∧
    (∀ q f, Expands ⟨renameTemps S.rules 1⟩ q f → ∃ c ∈ chains, c.id = q ∧ Impl F c f) := by
  unfold chainsOf at h
  split at h
  · simp at h
  · rename_i srules hsort
    split at h
    · simp at h
    · rename_i nrules named hnum
      split at h
      · simp at h
      · rename_i rep hrep
        injection h with h
        simp only [Prod.mk.injEq] at h
        obtain ⟨rfl, rfl⟩ := h
        obtain ⟨hF, hall, hnd, hfresh⟩ := genPatternNumbers_num hnum
        have hperm := sortRuleReferences_perm S srules hsort
        have hcongr : ∀ {q f}, Expands ⟨srules⟩ q f ↔ Expands ⟨renameTemps S.rules 1⟩ q f :=
          expands_congr (S := ⟨srules⟩) (S' := ⟨renameTemps S.rules 1⟩) fun r => hperm.mem_iff
        unfold replicateRules at hrep
        obtain ⟨hsem, hclosed⟩ := replicateLoop_sem (S := ⟨srules⟩) hall [] [] (firstFreshTemp nrules) rep
          (by simp) (fun r hr => hr) (sortRuleReferences_refsDone S srules hsort) hnd
          ⟨firstFresh_neg nrules, by simp, fun t ht => by
            obtain ⟨nr, hnr, htn⟩ := List.mem_flatMap.mp ht
            exact hfresh nr hnr t htn⟩
          (by intro q chains hq; simp [PyDict.get?] at hq)
          ⟨by intro q chains hq; simp [PyDict.get?] at hq, by simp⟩ hrep
        rw [List.nil_append] at hsem
        refine ⟨hF, fun c hc => ?_, fun q f hf => ?_⟩
        · obtain ⟨p, hp, hcp⟩ := mem_allChains.mp hc
          obtain ⟨k, v⟩ := p
          have hget : PyDict.get? rep k = some v :=
            PyDict.get?_of_mem rep (replicateLoop_keys nrules [] _ rep (by simp [PyDict.keys]) hrep) k v hp
          obtain ⟨hid, r, hr, hrk, hsg, f, hf, himpl⟩ := hsem.sound k v hget c hcp
          exact ⟨hclosed k v hget c hcp, r, hperm.mem_iff.mp hr, by rw [hid, hrk], hsg, f, expandsDef_mono (S := ⟨srules⟩) (S' := ⟨renameTemps S.rules 1⟩) (fun r hr => hperm.mem_iff.mp hr) hf, himpl⟩
        · obtain ⟨r, hr, hrq, hdef⟩ := expands_iff.mp (hcongr.mpr hf)
          obtain ⟨chains, hch, c, hc, _, himpl⟩ := hsem.complete r hr f hdef
          refine ⟨c, mem_allChains.mpr ⟨_, PyDict.mem_of_get? _ _ _ hch, hc⟩, ?_, himpl⟩
          rw [(hsem.sound _ _ hch c hc).1, hrq]

/-- **what the chains accept is what the text says**: a chain with identifier `rid` accepts `name` on its own, from
    the bindings `σ` (numbered), ending with `σn'`, iff `name` matches rule `rid` as written from `σ`, ending with
    bindings whose numbered form is `σn'` -/
theorem chains_iff_src (S : Schema) (chains : List Chain) (F : List String) (h : chainsOf S = .ok (chains, F))
    (fns : PureEnv) (σ : SCtx) (hσ : SCtxIn F σ) (name : List Bytes) (σn' : Ctx) (rid : String) :
    (∃ rc ∈ chains, rc.id = rid ∧ ChainRun fns rc rc.name [] (encCtx F σ) name σn') ↔
      ∃ σ', σn' = encCtx F σ' ∧ SrcMatches ⟨renameTemps S.rules 1⟩ fns rid σ name σ' := by
  obtain ⟨_, hsound, hcomplete⟩ := chainsOf_sem S chains F h
  constructor
  · rintro ⟨rc, hrc, rfl, hrun⟩
    obtain ⟨hcl, r, hr, hrid, _, f, hf, himpl⟩ := hsound rc hrc
    obtain ⟨σ', hrun', he⟩ := (impl_run fns himpl hcl.nodup σ hσ name σn').mp hrun
    exact ⟨σ', he, f, expands_iff.mpr ⟨r, hr, hrid, hf⟩, hrun'⟩
  · rintro ⟨σ', he, f, hf, hr⟩
    obtain ⟨c, hc, hid, himpl⟩ := hcomplete rid f hf
    exact ⟨c, hc, hid, (impl_run fns himpl (hsound c hc).1.nodup σ hσ name σn').mpr ⟨σ', hr, he⟩⟩

end Ndn.Lvs
