import NdnProofs.Lemmas.Lvs.CompileMergeGen
/-!
  The pattern numbers in the chains of a compiled schema: a non-negative number is the number of a named
  pattern (at most `named_pats` many); temporaries, also the fresh ones of `_fresh_temp_tags`, are negative.
-/
namespace Ndn.Lvs

/-- a pattern number is a temporary (negative) or one of the `cnt` named patterns -/
def TagOK (cnt : Nat) (t : Int) : Prop := 0 ≤ t → t.toNat ≤ cnt

theorem TagOK.mono {a b : Nat} {t : Int} (h : TagOK a t) (hab : a ≤ b) : TagOK b t := fun h0 => Nat.le_trans (h h0) hab

theorem tagOK_neg {cnt : Nat} {t : Int} (h : t < 0) : TagOK cnt t := fun h0 => by omega

theorem tagOf_le {named : List String} {p : String} {k : Nat} (h : tagOf named p = some k) : k ≤ named.length := by
  unfold tagOf at h
  split at h
  · rename_i hc
    injection h with h
    have : named.idxOf p < named.length := List.idxOf_lt_length_iff.mpr (by simpa using hc)
    omega
  · simp at h

/-! ### pass 2 -/

theorem numberName_tags (comps : List (Comp String)) : ∀ (st : NumSt) (tp : PyDict String (List Int))
    (out : List (Comp Int)) (st' : NumSt) (tp' : PyDict String (List Int)),
    numberName comps st tp = (out, st', tp') → st.nextTemp < 0 →
    st'.nextTemp < 0 ∧ st.named.length ≤ st'.named.length ∧ ∀ t ∈ patsOf out, TagOK st'.named.length t := by
  induction comps with
  | nil =>
    intro st tp out st' tp' h hneg
    simp only [numberName, Prod.mk.injEq] at h
    obtain ⟨rfl, rfl, rfl⟩ := h
    exact ⟨hneg, Nat.le_refl _, by simp [patsOf]⟩
  | cons c r ih =>
    intro st tp out st' tp' h hneg
    cases c with
    | lit v =>
      simp only [numberName] at h
      cases hr : numberName r st tp with
      | mk a q =>
        cases q with
        | mk b d =>
          rw [hr] at h
          simp only [Prod.mk.injEq] at h
          obtain ⟨rfl, rfl, rfl⟩ := h
          have := ih st tp a b d hr hneg
          simpa [patsOf] using this
    | ref i =>
      simp only [numberName] at h
      cases hr : numberName r st tp with
      | mk a q =>
        cases q with
        | mk b d =>
          rw [hr] at h
          simp only [Prod.mk.injEq] at h
          obtain ⟨rfl, rfl, rfl⟩ := h
          have := ih st tp a b d hr hneg
          simpa [patsOf] using this
    | pat p =>
      simp only [numberName] at h
      split at h
      · simp only [Prod.mk.injEq] at h
        obtain ⟨rfl, rfl, rfl⟩ := h
        obtain ⟨h1, h2, h3⟩ := ih _ _ _ _ _ rfl (show ({ st with nextTemp := st.nextTemp - 1 } : NumSt).nextTemp < 0 by
          simp only []; omega)
        refine ⟨h1, h2, fun t ht => ?_⟩
        simp only [patsOf, List.filterMap_cons, List.mem_cons] at ht
        rcases ht with ht | ht
        · subst ht; exact tagOK_neg hneg
        · exact h3 t ht
      · split at h
        · rename_i k hk
          cases hr : numberName r st tp with
          | mk a q =>
            cases q with
            | mk b d =>
              rw [hr] at h
              simp only [Prod.mk.injEq] at h
              obtain ⟨rfl, rfl, rfl⟩ := h
              obtain ⟨h1, h2, h3⟩ := ih st tp a b d hr hneg
              refine ⟨h1, h2, fun t ht => ?_⟩
              simp only [patsOf, List.filterMap_cons, List.mem_cons] at ht
              rcases ht with ht | ht
              · subst ht
                intro _
                have := tagOf_le hk
                simp only [Int.ofNat_eq_natCast, Int.toNat_natCast]
                omega
              · exact h3 t ht
        · cases hr : numberName r { st with named := st.named ++ [p] } tp with
          | mk a q =>
            cases q with
            | mk b d =>
              rw [hr] at h
              simp only [Prod.mk.injEq] at h
              obtain ⟨rfl, rfl, rfl⟩ := h
              obtain ⟨h1, h2, h3⟩ := ih _ tp a b d hr hneg
              simp only [List.length_append, List.length_cons, List.length_nil] at h2
              refine ⟨h1, by omega, fun t ht => ?_⟩
              simp only [patsOf, List.filterMap_cons, List.mem_cons] at ht
              rcases ht with ht | ht
              · subst ht
                intro _
                simp only [Int.ofNat_eq_natCast, Int.toNat_natCast]
                omega
              · exact h3 t ht

theorem numberNames_tags (rules : List SRule) : ∀ (st : NumSt) (xs : List (SRule × List (Comp Int) × PyDict String (List Int)))
    (st' : NumSt), numberNames rules st = (xs, st') → st.nextTemp < 0 →
    st'.nextTemp < 0 ∧ st.named.length ≤ st'.named.length ∧
    ∀ x ∈ xs, ∀ t ∈ patsOf x.2.1, TagOK st'.named.length t := by
  induction rules with
  | nil =>
    intro st xs st' h hneg
    simp only [numberNames, Prod.mk.injEq] at h
    obtain ⟨rfl, rfl⟩ := h
    exact ⟨hneg, Nat.le_refl _, by simp⟩
  | cons r rs ih =>
    intro st xs st' h hneg
    simp only [numberNames] at h
    cases hr : numberName r.name st [] with
    | mk a q =>
      cases q with
      | mk b d =>
        rw [hr] at h
        simp only [] at h
        cases hrs : numberNames rs b with
        | mk ys st2 =>
          rw [hrs] at h
          simp only [Prod.mk.injEq] at h
          obtain ⟨rfl, rfl⟩ := h
          obtain ⟨a1, a2, a3⟩ := numberName_tags r.name st [] a b d hr hneg
          obtain ⟨b1, b2, b3⟩ := ih b ys st2 hrs a1
          refine ⟨b1, by omega, fun x hx t ht => ?_⟩
          rcases List.mem_cons.mp hx with hx | hx
          · subst hx; exact (a3 t ht).mono b2
          · exact b3 x hx t ht

theorem genPatternNumbers_tags {rules : List SRule} {nrules : List NRule} {named : List String}
    (h : genPatternNumbers rules = .ok (nrules, named)) :
    ∀ nr ∈ nrules, ∀ t ∈ patsOf nr.name, TagOK named.length t := by
  unfold genPatternNumbers at h
  split at h
  rename_i xs st hx
  have ht := numberNames_tags rules { named := [], nextTemp := -1 } xs st hx (by simp)
  split at h
  · simp at h
  · rename_i nrs hn
    injection h with h
    simp only [Prod.mk.injEq] at h
    obtain ⟨rfl, rfl⟩ := h
    intro nr hnr t htm
    obtain ⟨x, hxm, hf⟩ := mapE_ok_mem' hn nr hnr
    rw [(numRule_fields hf).2.2] at htm
    exact ht.2.2 x hxm t htm

/-! ### pass 3 -/

def ChainTagsOK (cnt : Nat) (c : Chain) : Prop := ∀ t ∈ c.tags, TagOK cnt t

def atomTags (l : List Atom) : List Int := l.filterMap fun a => match a with | .pat t => some t | _ => none

theorem freshName_tags (cnt : Nat) (used : List Int) (name : List Atom) : ∀ (nt : Int) (mp : PyDict Int Int)
    (out : List Atom) (nt' : Int) (mp' : PyDict Int Int), freshName used name nt mp = (out, nt', mp') →
    nt < 0 → (∀ t ∈ atomTags name, TagOK cnt t) → nt' ≤ nt ∧ ∀ t ∈ atomTags out, TagOK cnt t := by
  induction name with
  | nil =>
    intro nt mp out nt' mp' h _ _
    simp only [freshName, Prod.mk.injEq] at h
    obtain ⟨rfl, rfl, rfl⟩ := h
    exact ⟨Int.le_refl _, by simp [atomTags]⟩
  | cons a r ih =>
    intro nt mp out nt' mp' h hneg hok
    have hok' : ∀ t ∈ atomTags r, TagOK cnt t := by
      intro t ht
      apply hok
      unfold atomTags at ht ⊢
      rw [List.filterMap_cons]
      split
      · exact ht
      · exact List.mem_cons_of_mem _ ht
    cases a with
    | lit v =>
      simp only [freshName] at h
      cases hr : freshName used r nt mp with
      | mk x q =>
        cases q with
        | mk y z =>
          rw [hr] at h
          simp only [Prod.mk.injEq] at h
          obtain ⟨rfl, rfl, rfl⟩ := h
          obtain ⟨h1, h2⟩ := ih nt mp x y z hr hneg hok'
          exact ⟨h1, by simpa [atomTags] using h2⟩
    | pat t =>
      simp only [freshName] at h
      split at h
      · cases hr : freshName used r (nt - 1) (PyDict.set mp t nt) with
        | mk x q =>
          cases q with
          | mk y z =>
            rw [hr] at h
            simp only [Prod.mk.injEq] at h
            obtain ⟨rfl, rfl, rfl⟩ := h
            obtain ⟨h1, h2⟩ := ih (nt - 1) _ x y z hr (by omega) hok'
            refine ⟨by omega, fun t' ht' => ?_⟩
            simp only [atomTags, List.filterMap_cons, List.mem_cons] at ht'
            rcases ht' with ht' | ht'
            · subst ht'; exact tagOK_neg hneg
            · exact h2 t' ht'
      · cases hr : freshName used r nt mp with
        | mk x q =>
          cases q with
          | mk y z =>
            rw [hr] at h
            simp only [Prod.mk.injEq] at h
            obtain ⟨rfl, rfl, rfl⟩ := h
            obtain ⟨h1, h2⟩ := ih nt mp x y z hr hneg hok'
            refine ⟨h1, fun t' ht' => ?_⟩
            simp only [atomTags, List.filterMap_cons, List.mem_cons] at ht'
            rcases ht' with ht' | ht'
            · subst ht'; exact hok t' (by simp [atomTags])
            · exact h2 t' ht'

theorem freshTempTags_tags (cnt : Nat) (chain ref : Chain) (nt : Int) (hneg : nt < 0) (h : ChainTagsOK cnt ref) :
    (freshTempTags chain ref nt).2 ≤ nt ∧ ChainTagsOK cnt (freshTempTags chain ref nt).1 := by
  unfold freshTempTags
  cases hr : freshName chain.tags ref.name nt [] with
  | mk x q =>
    cases q with
    | mk y z =>
      simp only []
      exact freshName_tags cnt chain.tags ref.name nt [] x y z hr hneg h

theorem tags_append (rid : String) (a b : Chain) :
    ({ id := rid, name := a.name ++ b.name, cons := a.cons ++ b.cons, sign := a.sign } : Chain).tags = a.tags ++ b.tags := by
  simp [Chain.tags, List.filterMap_append]

theorem inlineInner_tags (cnt : Nat) (rid : String) (refc : Chain) (href : ChainTagsOK cnt refc) :
    ∀ (cur : List Chain) (nt : Int), nt < 0 → (∀ c ∈ cur, ChainTagsOK cnt c) →
    (inlineInner rid refc cur nt).2 ≤ nt ∧ ∀ c ∈ (inlineInner rid refc cur nt).1, ChainTagsOK cnt c := by
  intro cur
  induction cur with
  | nil => intro nt _ _; simp [inlineInner]
  | cons ch r ih =>
    intro nt hneg hcur
    obtain ⟨f1, f2⟩ := freshTempTags_tags cnt ch refc nt hneg href
    obtain ⟨i1, i2⟩ := ih (freshTempTags ch refc nt).2 (by omega) (fun c hc => hcur c (List.mem_cons_of_mem _ hc))
    simp only [inlineInner]
    refine ⟨by omega, fun c hc => ?_⟩
    rcases List.mem_cons.mp hc with hc | hc
    · subst hc
      intro t ht
      rw [tags_append] at ht
      rcases List.mem_append.mp ht with ht | ht
      · exact hcur ch List.mem_cons_self t ht
      · exact f2 t ht
    · exact i2 c hc

theorem inlineRef_tags (cnt : Nat) (rid : String) : ∀ (reps cur : List Chain) (nt : Int), nt < 0 →
    (∀ c ∈ reps, ChainTagsOK cnt c) → (∀ c ∈ cur, ChainTagsOK cnt c) →
    (inlineRef rid reps cur nt).2 ≤ nt ∧ ∀ c ∈ (inlineRef rid reps cur nt).1, ChainTagsOK cnt c := by
  intro reps
  induction reps with
  | nil => intro cur nt _ _ _; simp [inlineRef]
  | cons refc rs ih =>
    intro cur nt hneg hreps hcur
    obtain ⟨a1, a2⟩ := inlineInner_tags cnt rid refc (hreps refc List.mem_cons_self) cur nt hneg hcur
    obtain ⟨b1, b2⟩ := ih cur (inlineInner rid refc cur nt).2 (by omega)
      (fun c hc => hreps c (List.mem_cons_of_mem _ hc)) hcur
    simp only [inlineRef]
    refine ⟨by omega, fun c hc => ?_⟩
    rcases List.mem_append.mp hc with hc | hc
    · exact a2 c hc
    · exact b2 c hc

def RepTagsOK (cnt : Nat) (rep : PyDict String (List Chain)) : Prop := ∀ p ∈ rep, ∀ c ∈ p.2, ChainTagsOK cnt c

theorem snoc_tags {cnt : Nat} {ch : Chain} {a : Atom} (h : ChainTagsOK cnt ch) (ha : ∀ t, a = .pat t → TagOK cnt t) :
    ChainTagsOK cnt (ch.snoc a) := by
  intro t ht
  unfold Chain.snoc Chain.tags at ht
  simp only [List.filterMap_append, List.mem_append] at ht
  rcases ht with ht | ht
  · exact h t ht
  · cases a with
    | lit v => simp at ht
    | pat t' => simp at ht; subst ht; exact ha _ rfl

theorem expandName_tags (cnt : Nat) (rid : String) (rep : PyDict String (List Chain)) (hrep : RepTagsOK cnt rep) :
    ∀ (name : List (Comp Int)) (cur : List Chain) (nt : Int) (res : List Chain) (nt' : Int),
      nt < 0 → (∀ t ∈ patsOf name, TagOK cnt t) → (∀ c ∈ cur, ChainTagsOK cnt c) →
      expandName rid rep name cur nt = .ok (res, nt') → nt' < 0 ∧ ∀ c ∈ res, ChainTagsOK cnt c := by
  intro name
  induction name with
  | nil =>
    intro cur nt res nt' hneg _ hcur h
    simp only [expandName] at h
    injection h with h
    simp only [Prod.mk.injEq] at h
    obtain ⟨rfl, rfl⟩ := h
    exact ⟨hneg, hcur⟩
  | cons a r ih =>
    intro cur nt res nt' hneg hpats hcur h
    have hpats' : ∀ t ∈ patsOf r, TagOK cnt t := by
      intro t ht
      apply hpats
      unfold patsOf at ht ⊢
      rw [List.filterMap_cons]
      split
      · exact ht
      · exact List.mem_cons_of_mem _ ht
    cases a with
    | lit w =>
      simp only [expandName] at h
      refine ih _ _ _ _ hneg hpats' ?_ h
      intro c hc
      rw [List.mem_map] at hc
      obtain ⟨c0, hc0, rfl⟩ := hc
      exact snoc_tags (hcur c0 hc0) (fun t ht => by simp at ht)
    | pat t =>
      simp only [expandName] at h
      refine ih _ _ _ _ hneg hpats' ?_ h
      intro c hc
      rw [List.mem_map] at hc
      obtain ⟨c0, hc0, rfl⟩ := hc
      exact snoc_tags (hcur c0 hc0) (fun t' ht' => by
        injection ht' with ht'; subst ht'; exact hpats t (by simp [patsOf]))
    | ref i =>
      simp only [expandName] at h
      split at h
      · simp at h
      · rename_i reps hget
        obtain ⟨a1, a2⟩ := inlineRef_tags cnt rid reps cur nt hneg (hrep _ (PyDict.mem_of_get? _ _ _ hget)) hcur
        exact ih _ _ _ _ (by omega) hpats' a2 h

theorem replicateLoop_tags (cnt : Nat) : ∀ (rules : List NRule) (rep : PyDict String (List Chain)) (nt : Int)
    (res : PyDict String (List Chain)), nt < 0 → (∀ r ∈ rules, ∀ t ∈ patsOf r.name, TagOK cnt t) → RepTagsOK cnt rep →
    replicateLoop rules rep nt = .ok res → RepTagsOK cnt res := by
  intro rules
  induction rules with
  | nil =>
    intro rep nt res _ _ hrep h
    simp only [replicateLoop] at h
    injection h with h; subst h; exact hrep
  | cons r rs ih =>
    intro rep nt res hneg hr hrep h
    unfold replicateLoop at h
    split at h
    · simp at h
    · rename_i cur nt' hexp
      have hinit : ∀ c ∈ initChains r, ChainTagsOK cnt c := by
        intro c hc t ht
        unfold initChains at hc
        simp only [] at hc
        split at hc
        · simp at hc; subst hc; simp [Chain.tags] at ht
        · rw [List.mem_map] at hc
          obtain ⟨cs, _, rfl⟩ := hc
          simp [Chain.tags] at ht
      obtain ⟨hneg', hcur⟩ := expandName_tags cnt r.id rep hrep r.name (initChains r) nt cur nt' hneg
        (hr r List.mem_cons_self) hinit hexp
      refine ih _ _ _ hneg' (fun x hx => hr x (List.mem_cons_of_mem _ hx)) ?_ h
      intro p hp c hc
      unfold repAdd at hp
      split at hp
      · rcases mem_pyset hp with hp | hp
        · exact hrep p hp c hc
        · subst hp; exact hcur c hc
      · rename_i old hold
        rcases mem_pyset hp with hp | hp
        · exact hrep p hp c hc
        · subst hp
          rcases List.mem_append.mp hc with hc | hc
          · exact hrep _ (PyDict.mem_of_get? _ _ _ hold) c hc
          · exact hcur c hc

theorem foldl_min_le (l : List Int) : ∀ (a : Int), l.foldl min a ≤ a := by
  induction l with
  | nil => intro a; simp
  | cons x r ih =>
    intro a
    simp only [List.foldl_cons]
    exact Int.le_trans (ih _) (Int.min_le_left _ _)

/-- **the chains of a compiled schema only use the tags of named patterns and negative numbers** -/
theorem chainsOf_tagsLe (S : Schema) (chains : List Chain) (named : List String)
    (h : chainsOf S = .ok (chains, named)) : TagsLe named.length chains := by
  unfold chainsOf at h
  split at h
  · simp at h
  · rename_i rules hsort
    split at h
    · simp at h
    · rename_i nrules named' hnum
      split at h
      · simp at h
      · rename_i rep hrep
        injection h with h
        simp only [Prod.mk.injEq] at h
        obtain ⟨rfl, rfl⟩ := h
        have h2 := genPatternNumbers_tags hnum
        have hneg : firstFreshTemp nrules < 0 := by
          unfold firstFreshTemp
          have := foldl_min_le (nrules.flatMap (fun r => patsOf r.name)) 0
          omega
        have h3 := replicateLoop_tags named'.length nrules [] _ rep hneg h2 (by intro p hp; simp at hp) hrep
        intro rc hrc t ht
        obtain ⟨p, hp, hcp⟩ := mem_allChains.mp hrc
        exact h3 p hp rc hcp t ht

end Ndn.Lvs
