import NdnProofs.Lemmas.Lvs.CompileMerge
/-!
  The pool `genNode` returns, once placed in a model, is a `Gen` tree; hence (`buildModel_sem`) the compiled
  tree accepts exactly what its chains accept one by one.
-/
namespace Ndn.Lvs

/-- the block `sub` sits at position `base` of the model's node array (signers aside) -/
def Sub (m : Model) (base : Nat) (sub : List PreNode) : Prop :=
  ∀ (i : Nat) (n : PreNode), sub[i]? = some n → ∃ node, m.nodes[base + i]? = some node ∧
    node.ruleNames = n.ruleNames ∧ node.vEdges = n.vEdges ∧ node.pEdges = n.pEdges

theorem Sub.left {m : Model} {base : Nat} {A B : List PreNode} (h : Sub m base (A ++ B)) : Sub m base A := by
  intro i n hi
  have hl : i < A.length := by
    rcases Nat.lt_or_ge i A.length with h | h
    · exact h
    · rw [List.getElem?_eq_none h] at hi; simp at hi
  exact h i n (by rw [List.getElem?_append_left hl]; exact hi)

theorem Sub.right {m : Model} {base : Nat} {A B : List PreNode} (h : Sub m base (A ++ B)) : Sub m (base + A.length) B := by
  intro i n hi
  obtain ⟨node, hn, hr⟩ := h (A.length + i) n (by rw [List.getElem?_append_right (by omega)]; simpa using hi)
  exact ⟨node, by rw [← hn]; congr 1; omega, hr⟩

theorem Sub.tail {m : Model} {base : Nat} {hd : PreNode} {tl : List PreNode} (h : Sub m base (hd :: tl)) :
    Sub m (base + 1) tl := by
  intro i n hi
  obtain ⟨node, hn, hr⟩ := h (i + 1) n (by simpa using hi)
  exact ⟨node, by rw [← hn]; congr 1; omega, hr⟩

theorem Sub.head {m : Model} {base : Nat} {hd : PreNode} {tl : List PreNode} (h : Sub m base (hd :: tl)) :
    ∃ node, m.nodes[base]? = some node ∧ node.ruleNames = hd.ruleNames ∧ node.vEdges = hd.vEdges ∧
      node.pEdges = hd.pEdges := by
  obtain ⟨node, hn, hr⟩ := h 0 hd rfl
  exact ⟨node, by simpa using hn, hr⟩

theorem genMoves_mono {child : List Chain → List Int → Nat → Nat → Except CErr (List PreNode × Nat)}
    (hc : ∀ c p b t sub t', child c p b t = .ok (sub, t') → t ≤ t') :
    ∀ (mvs : List Move) (base tidx : Nat) (ves : List VEdge) (pes : List PEdge) (nodes : List PreNode) (t' : Nat),
      genMoves child mvs base tidx = .ok (ves, pes, nodes, t') → tidx ≤ t' := by
  intro mvs
  induction mvs with
  | nil =>
    intro base tidx ves pes nodes t' h
    simp only [genMoves] at h
    injection h with h
    simp only [Prod.mk.injEq] at h
    omega
  | cons mv r ih =>
    intro base tidx ves pes nodes t' h
    unfold genMoves at h
    simp only [] at h
    split at h
    · simp at h
    · rename_i sub tidx2 hchild
      have h1 := hc _ _ _ _ _ _ hchild
      split at h
      · simp at h
      · rename_i ves' pes' rest tidx3 hrest
        have h2 := ih _ _ _ _ _ _ hrest
        have ht' : t' = tidx3 := by
          split at h <;>
          · injection h with h
            simp only [Prod.mk.injEq] at h
            exact h.2.2.2.symm
        have : tidx ≤ (if mv.value.isNone && mv.tag < 0 then tidx + 1 else tidx) := by split <;> omega
        omega

theorem genNode_mono : ∀ (fuel depth : Nat) (ctx : List Chain) (parent : Option Nat)
    (prev : List Int) (base tidx : Nat) (sub : List PreNode) (t' : Nat),
    genNode fuel depth ctx parent prev base tidx = .ok (sub, t') → tidx ≤ t' := by
  intro fuel
  induction fuel with
  | zero =>
    intro depth ctx parent prev base tidx sub t' h
    unfold genNode at h
    simp only [] at h
    split at h
    · injection h with h
      simp only [Prod.mk.injEq] at h
      omega
    · simp at h
  | succ f ih =>
    intro depth ctx parent prev base tidx sub t' h
    unfold genNode at h
    simp only [] at h
    split at h
    · injection h with h
      simp only [Prod.mk.injEq] at h
      omega
    · split at h
      · simp at h
      · rename_i ves pes rest tidx' hgm
        injection h with h
        simp only [Prod.mk.injEq] at h
        have := genMoves_mono (fun c p b t sub t' hg => ih _ _ _ _ _ _ _ _ hg) _ _ _ _ _ _ _ hgm
        omega

def consFn (a : Nat) (f : Nat → Nat) : Nat → Nat
  | 0 => a
  | i + 1 => f i

theorem genMoves_gen {m : Model} {cnt D : Nat}
    {child : List Chain → List Int → Nat → Nat → Except CErr (List PreNode × Nat)}
    (hmono : ∀ c p b t sub t', child c p b t = .ok (sub, t') → t ≤ t')
    (hc : ∀ c p b t sub t', child c p b t = .ok (sub, t') → cnt ≤ t → Sub m b sub → Gen m cnt D c p b) :
    ∀ (mvs : List Move) (base tidx : Nat) (ves : List VEdge) (pes : List PEdge) (nodes : List PreNode) (t' : Nat),
      genMoves child mvs base tidx = .ok (ves, pes, nodes, t') → cnt ≤ tidx → Sub m base nodes →
      ∃ dv tg : Nat → Nat,
        (∀ ve, ve ∈ ves ↔ ∃ i mv v, mvs[i]? = some mv ∧ mv.value = some v ∧ ve = ⟨some (dv i), some v⟩) ∧
        (∀ pe, pe ∈ pes ↔ ∃ i mv, mvs[i]? = some mv ∧ mv.value = none ∧ pe = ⟨some (dv i), some (tg i), mv.cons⟩) ∧
        (∀ (i : Nat) (mv : Move), mvs[i]? = some mv → mv.value = none → TagFor cnt mv.tag (tg i)) ∧
        (∀ (i : Nat) (mv : Move), mvs[i]? = some mv → Gen m cnt D mv.ctx mv.prev (dv i)) := by
  intro mvs
  induction mvs with
  | nil =>
    intro base tidx ves pes nodes t' h _ _
    simp only [genMoves] at h
    injection h with h
    simp only [Prod.mk.injEq] at h
    obtain ⟨rfl, rfl, rfl, rfl⟩ := h
    exact ⟨id, id, by simp, by simp, by simp, by simp⟩
  | cons mv r ih =>
    intro base tidx ves pes nodes t' h hcnt hsub
    unfold genMoves at h
    simp only [] at h
    split at h
    · simp at h
    · rename_i sub tidx2 hchild
      have htidx1 : cnt ≤ (if mv.value.isNone && mv.tag < 0 then tidx + 1 else tidx) := by split <;> omega
      have hmono1 := hmono _ _ _ _ _ _ hchild
      have hgen1 := hc _ _ _ _ _ _ hchild htidx1
      split at h
      · simp at h
      · rename_i ves' pes' rest tidx3 hrest
        have hnodes : nodes = sub ++ rest := by
          split at h <;>
          · injection h with h
            simp only [Prod.mk.injEq] at h
            exact h.2.2.1.symm
        subst hnodes
        have hle2 : tidx ≤ tidx2 := by
          have : tidx ≤ (if mv.value.isNone && mv.tag < 0 then tidx + 1 else tidx) := by split <;> omega
          omega
        obtain ⟨dv, tg, hves, hpes, htg, hgen⟩ := ih _ _ _ _ _ _ hrest (by omega) hsub.right
        refine ⟨consFn base dv,
          consFn (if mv.tag < 0 then (if mv.value.isNone && mv.tag < 0 then tidx + 1 else tidx) else mv.tag.toNat) tg, ?_, ?_, ?_, ?_⟩
        · intro ve
          split at h
          · rename_i v hv
            injection h with h
            simp only [Prod.mk.injEq] at h
            obtain ⟨rfl, _, _, _⟩ := h
            rw [List.mem_cons, hves]
            constructor
            · intro hm
              rcases hm with hm | ⟨i, mv', v', hi, hv', he⟩
              · exact ⟨0, mv, v, by simp, hv, by simpa [consFn] using hm⟩
              · exact ⟨i + 1, mv', v', by simpa using hi, hv', by simpa [consFn] using he⟩
            · intro ⟨i, mv', v', hi, hv', he⟩
              cases i with
              | zero =>
                simp at hi; subst hi
                rw [hv] at hv'; injection hv' with hv'; subst hv'
                exact Or.inl (by simpa [consFn] using he)
              | succ i => exact Or.inr ⟨i, mv', v', by simpa using hi, hv', by simpa [consFn] using he⟩
          · rename_i hv
            injection h with h
            simp only [Prod.mk.injEq] at h
            obtain ⟨rfl, _, _, _⟩ := h
            rw [hves]
            constructor
            · intro ⟨i, mv', v', hi, hv', he⟩
              exact ⟨i + 1, mv', v', by simpa using hi, hv', by simpa [consFn] using he⟩
            · intro ⟨i, mv', v', hi, hv', he⟩
              cases i with
              | zero => simp at hi; subst hi; rw [hv] at hv'; simp at hv'
              | succ i => exact ⟨i, mv', v', by simpa using hi, hv', by simpa [consFn] using he⟩
        · intro pe
          split at h
          · rename_i v hv
            injection h with h
            simp only [Prod.mk.injEq] at h
            obtain ⟨_, rfl, _, _⟩ := h
            rw [hpes]
            constructor
            · intro ⟨i, mv', hi, hv', he⟩
              exact ⟨i + 1, mv', by simpa using hi, hv', by simpa [consFn] using he⟩
            · intro ⟨i, mv', hi, hv', he⟩
              cases i with
              | zero => simp at hi; subst hi; rw [hv] at hv'; simp at hv'
              | succ i => exact ⟨i, mv', by simpa using hi, hv', by simpa [consFn] using he⟩
          · rename_i hv
            injection h with h
            simp only [Prod.mk.injEq] at h
            obtain ⟨_, rfl, _, _⟩ := h
            rw [List.mem_cons, hpes]
            constructor
            · intro hm
              rcases hm with hm | ⟨i, mv', hi, hv', he⟩
              · exact ⟨0, mv, by simp, hv, by simpa [consFn] using hm⟩
              · exact ⟨i + 1, mv', by simpa using hi, hv', by simpa [consFn] using he⟩
            · intro ⟨i, mv', hi, hv', he⟩
              cases i with
              | zero =>
                simp at hi; subst hi
                exact Or.inl (by simpa [consFn] using he)
              | succ i => exact Or.inr ⟨i, mv', by simpa using hi, hv', by simpa [consFn] using he⟩
        · intro i mv' hi hv'
          cases i with
          | zero =>
            simp at hi; subst hi
            simp only [consFn]
            constructor
            · intro hneg
              simp only [hneg, if_true, hv', Option.isNone_none, Bool.true_and, decide_true]
              omega
            · intro hge
              have : ¬ mv.tag < 0 := by omega
              simp only [this, if_false]
          | succ i => exact htg i mv' (by simpa using hi) hv'
        · intro i mv' hi
          cases i with
          | zero =>
            simp at hi; subst hi
            exact hgen1 hsub.left
          | succ i => exact hgen i mv' (by simpa using hi)

theorem genNode_gen (m : Model) (cnt : Nat) : ∀ (fuel depth : Nat) (ctx : List Chain) (parent : Option Nat)
    (prev : List Int) (base tidx : Nat) (sub : List PreNode) (t' : Nat),
    genNode fuel depth ctx parent prev base tidx = .ok (sub, t') → cnt ≤ tidx →
    Sub m base sub → Gen m cnt depth ctx prev base := by
  intro fuel
  induction fuel with
  | zero =>
    intro depth ctx parent prev base tidx sub t' h _ hsub
    unfold genNode at h
    simp only [] at h
    split at h
    · rename_i hmoves
      injection h with h
      simp only [Prod.mk.injEq] at h
      obtain ⟨rfl, rfl⟩ := h
      obtain ⟨node, hn, hr, hv, hp⟩ := hsub.head
      have hmv : movesOf depth ctx prev = [] := hmoves
      refine Gen.mk depth ctx prev base node id id hn hr ?_ ?_ ?_ ?_
      · intro ve; rw [hv, hmv]; simp
      · intro pe; rw [hp, hmv]; simp
      · intro i mv hi; rw [hmv] at hi; simp at hi
      · intro i mv hi; rw [hmv] at hi; simp at hi
    · simp at h
  | succ f ih =>
    intro depth ctx parent prev base tidx sub t' h hcnt hsub
    unfold genNode at h
    simp only [] at h
    split at h
    · rename_i hmoves
      injection h with h
      simp only [Prod.mk.injEq] at h
      obtain ⟨rfl, rfl⟩ := h
      obtain ⟨node, hn, hr, hv, hp⟩ := hsub.head
      have hmv : movesOf depth ctx prev = [] := hmoves
      refine Gen.mk depth ctx prev base node id id hn hr ?_ ?_ ?_ ?_
      · intro ve; rw [hv, hmv]; simp
      · intro pe; rw [hp, hmv]; simp
      · intro i mv hi; rw [hmv] at hi; simp at hi
      · intro i mv hi; rw [hmv] at hi; simp at hi
    · rename_i mv mvs hmoves
      split at h
      · simp at h
      · rename_i ves pes rest tidx' hgm
        injection h with h
        simp only [Prod.mk.injEq] at h
        obtain ⟨rfl, rfl⟩ := h
        have hmv : movesOf depth ctx prev = mv :: mvs := hmoves
        obtain ⟨node, hn, hr, hv, hp⟩ := hsub.head
        obtain ⟨dv, tg, hves, hpes, htg, hgen⟩ := genMoves_gen (m := m) (cnt := cnt) (D := depth + 1)
          (child := fun c p b t => genNode f (depth + 1) c (some base) p b t)
          (fun c p b t sub t' hg => genNode_mono _ _ _ _ _ _ _ _ _ hg)
          (fun c p b t sub t' hg hle hs => ih _ _ _ _ _ _ _ _ hg hle hs) _ _ _ _ _ _ _ hgm hcnt hsub.tail
        refine Gen.mk depth ctx prev base node dv tg hn hr ?_ ?_ ?_ ?_
        · intro ve; rw [hv, hmv]; exact hves ve
        · intro pe; rw [hp, hmv]; exact hpes pe
        · intro i mv' hi; rw [hmv] at hi; exact htg i mv' hi
        · intro i mv' hi; rw [hmv] at hi; exact hgen i mv' hi

/-- **node merging preserves the accepted (name, bindings) pairs**: in the model built from `chains`, a name
    leads from the start node (with bindings `σ`) to a node that carries rule `rid`, ending with bindings `σ'`,
    iff some chain with identifier `rid` accepts the name on its own with the same bindings. -/
theorem buildModel_sem (chains : List Chain) (named : List String) (m : Model)
    (h : buildModel chains named = .ok m) (hkey : KeyInj chains) (htags : TagsLe named.length chains)
    (fns : PureEnv) (σ : Ctx) (hσ : CtxLe named.length σ) (name : List Bytes) (σ' : Ctx) (rid : String) :
    (∃ n node, Matches m fns σ name n σ' ∧ m.nodes[n]? = some node ∧ rid ∈ node.ruleNames) ↔
      ∃ rc ∈ chains, rc.id = rid ∧ ChainRun fns rc rc.name [] σ name σ' := by
  unfold buildModel at h
  split at h
  · simp at h
  · rename_i pool tidx hg
    split at h
    · simp at h
    · rename_i nodes hfix
      injection h with h
      subst h
      obtain ⟨hlen, hidx⟩ := mapE_ok_idx hfix
      have hsub : Sub { version := some maxVersion, startId := 0, namedCnt := named.length, nodes := nodes } 0 pool := by
        intro i n hi
        obtain ⟨b, hb, hf⟩ := hidx i n hi
        obtain ⟨_, _, h3, h4, h5, _⟩ := fixNode_ok hf
        exact ⟨b, by simpa using hb, h3, h4, h5⟩
      have hgen := genNode_gen _ named.length _ _ _ _ _ _ _ _ _ hg (Nat.le_refl _) hsub
      have := gen_sem _ fns named.length rfl name 0 chains [] 0 σ hgen (fun _ _ => Nat.zero_le _) hkey htags hσ σ' rid
      simpa [Matches] using this

end Ndn.Lvs
