import NdnProofs.Lemmas.Lvs.SignCycle
/-!
  The converse of `sign_cycle_rejected`: when no set of reachable nodes is closed under "is listed as
  signer by a member", `top_order` inside `_sanity_check` succeeds (for a model whose nodes all carry their
  position as identifier and whose signers exist — e.g. every model the compiler emits).
-/
namespace Ndn.Lvs

/-- if Kahn's algorithm gets stuck, the remaining nodes each have a predecessor among them -/
theorem kahn_stuck (edges : List (Nat × Nat)) : ∀ (f : Nat) (rem : List Nat), rem.length ≤ f →
    kahn f rem edges = false → ∃ C : List Nat, (∃ c, c ∈ C) ∧ ∀ c ∈ C, ∃ p ∈ C, (p, c) ∈ edges := by
  intro f
  induction f with
  | zero =>
    intro rem hl h
    cases rem with
    | nil => simp [kahn] at h
    | cons x xs => simp at hl
  | succ f ih =>
    intro rem hl h
    cases rem with
    | nil => simp [kahn] at h
    | cons x xs =>
      simp only [kahn] at h
      split at h
      · rename_i hempty
        refine ⟨x :: xs, ⟨x, List.mem_cons_self⟩, fun c hc => ?_⟩
        have hnot : c ∉ List.filter (fun n => !(edges.any fun e => e.2 == n && (x :: xs).contains e.1)) (x :: xs) := by
          rw [List.isEmpty_iff] at hempty
          rw [hempty]; simp
        have : (edges.any fun e => e.2 == c && (x :: xs).contains e.1) = true := by
          cases hany : (edges.any fun e => e.2 == c && (x :: xs).contains e.1) with
          | true => rfl
          | false => exact absurd (List.mem_filter.mpr ⟨hc, by simp only [hany, Bool.not_false]⟩) hnot
        obtain ⟨e, he, hp⟩ := List.any_eq_true.mp this
        simp only [Bool.and_eq_true, beq_iff_eq, List.contains_eq_mem, decide_eq_true_eq] at hp
        exact ⟨e.1, hp.2, by rw [← hp.1]; exact he⟩
      · rename_i hne
        apply ih _ _ h
        have hne' : List.filter (fun n => !(edges.any fun e => e.2 == n && (x :: xs).contains e.1)) (x :: xs) ≠ [] := by
          intro h0; rw [h0] at hne; simp at hne
        obtain ⟨y, hy⟩ := List.exists_mem_of_ne_nil _ hne'
        have hlt : (List.filter (fun n => !(List.filter (fun n => !(edges.any fun e => e.2 == n && (x :: xs).contains e.1))
            (x :: xs)).contains n) (x :: xs)).length < (x :: xs).length := by
          rw [List.length_filter_lt_length_iff_exists]
          refine ⟨y, (List.mem_filter.mp hy).1, ?_⟩
          have hcy : (List.filter (fun n => !(edges.any fun e => e.2 == n && (x :: xs).contains e.1)) (x :: xs)).contains y
              = true := by rw [List.contains_eq_mem]; exact decide_eq_true hy
          simp only [hcy, Bool.not_true]
          decide
        omega

theorem collect_reach (m : Model) : ∀ (f x y : Nat), Reach m x → y ∈ collect m f x → Reach m y := by
  intro f
  induction f with
  | zero => intro x y _ h; simp [collect] at h
  | succ f ih =>
    intro x y hx h
    unfold collect at h
    split at h
    · simp at h
    · rename_i node hn
      rcases List.mem_cons.mp h with h | h
      · subst h; exact hx
      · rw [List.mem_flatMap] at h
        obtain ⟨d, hd, hy⟩ := h
        cases d with
        | none => simp at hy
        | some k => exact ih k y (Reach.edge hx hn hd) hy

theorem collect_lt (m : Model) : ∀ (f x y : Nat), y ∈ collect m f x → y < m.nodes.length := by
  intro f
  induction f with
  | zero => intro x y h; simp [collect] at h
  | succ f ih =>
    intro x y h
    unfold collect at h
    split at h
    · simp at h
    · rename_i node hn
      rcases List.mem_cons.mp h with h | h
      · subst h
        rcases Nat.lt_or_ge y m.nodes.length with hl | hl
        · exact hl
        · rw [List.getElem?_eq_none hl] at hn; simp at hn
      · rw [List.mem_flatMap] at h
        obtain ⟨d, _, hy⟩ := h
        cases d with
        | none => simp at hy
        | some k => exact ih k y hy

/-- **no signing cycle among reachable nodes ⇒ `top_order` succeeds** -/
theorem signOK_of_acyclic (m : Model)
    (hids : ∀ (i : Nat) (node : Node), m.nodes[i]? = some node → node.id = some i)
    (hsig : ∀ (i : Nat) (node : Node), m.nodes[i]? = some node → ∀ k ∈ node.signCons, k < m.nodes.length)
    (hac : ¬ ∃ C : List Nat, (∃ c, c ∈ C) ∧
      ∀ c ∈ C, ∃ p ∈ C, Reach m p ∧ ∃ pnode, m.nodes[p]? = some pnode ∧ c ∈ pnode.signCons) :
    signOK m = true := by
  unfold signOK
  simp only
  generalize hidsdef : (m.nodes.filterMap (·.id)).eraseDups = ids
  generalize hedges : ((collect m (m.nodes.length + 1) m.startId).eraseDups.flatMap (fun n =>
    match m.nodes[n]? with
    | some node => node.signCons.map (fun k => (n, k))
    | none => [])) = edges
  have hin : ∀ i, i < m.nodes.length → i ∈ ids := by
    intro i hi
    rw [← hidsdef, List.mem_eraseDups, List.mem_filterMap]
    exact ⟨m.nodes[i], List.getElem_mem hi, hids i _ (List.getElem?_eq_getElem hi)⟩
  have hedge : ∀ e ∈ edges, Reach m e.1 ∧ e.1 < m.nodes.length ∧
      ∃ pnode, m.nodes[e.1]? = some pnode ∧ e.2 ∈ pnode.signCons := by
    intro e he
    rw [← hedges, List.mem_flatMap] at he
    obtain ⟨n, hn, hm⟩ := he
    rw [List.mem_eraseDups] at hn
    split at hm
    · rename_i node hnode
      rw [List.mem_map] at hm
      obtain ⟨k, hk, rfl⟩ := hm
      exact ⟨collect_reach m _ _ _ Reach.start hn, collect_lt m _ _ _ hn, node, hnode, hk⟩
    · simp at hm
  rw [Bool.and_eq_true]
  constructor
  · rw [List.all_eq_true]
    intro e he
    obtain ⟨_, hlt, pnode, hp, hk⟩ := hedge e he
    simp only [Bool.and_eq_true, List.contains_eq_mem, decide_eq_true_eq]
    exact ⟨hin _ hlt, hin _ (hsig _ pnode hp _ hk)⟩
  · cases hk : kahn ids.length ids edges with
    | true => rfl
    | false =>
      exfalso
      obtain ⟨C, hne, hC⟩ := kahn_stuck edges _ _ (Nat.le_refl _) hk
      apply hac
      refine ⟨C, hne, fun c hc => ?_⟩
      obtain ⟨p, hp, hpe⟩ := hC c hc
      obtain ⟨hr, _, pnode, hpn, hcs⟩ := hedge (p, c) hpe
      exact ⟨p, hp, hr, pnode, hpn, hcs⟩

end Ndn.Lvs
