import NdnProofs.Lemmas.Lvs.SrcNumber
/-!
  A rule chain (`Compiler.RuleChain`, numbered patterns, one global constraint list addressed by pattern number)
  *implements* an expanded definition of the source text (`Flat`) when, position by position, literals agree, a
  non-negative number is the number of the named pattern standing there, and the constraints that mention a
  negative number are — once numbered — the constraints of the temporary pattern standing there (`Impl`).
  Then the chain accepts on its own (`ChainRun`) exactly the names the expanded definition matches (`Flat.run`),
  with the same bindings (`impl_run`).
-/
namespace Ndn.Lvs

/-! ### bindings: identifiers ↔ numbers -/

/-- the bindings `σ` with the identifiers replaced by their numbers in the table `F` -/
def encCtx (F : List String) (σ : SCtx) : Ctx := σ.map fun p => (F.idxOf p.1 + 1, p.2)

/-- all bound identifiers are in the table -/
def SCtxIn (F : List String) (σ : SCtx) : Prop := ∀ p ∈ σ, p.1 ∈ F

theorem idxOf_inj {F : List String} {x y : String} (hx : x ∈ F) (h : F.idxOf x = F.idxOf y) : x = y := by
  induction F with
  | nil => simp at hx
  | cons a r ih =>
    simp only [List.idxOf_cons] at h
    by_cases hax : a = x
    · subst hax
      by_cases hay : a = y
      · exact hay
      · have : (a == y) = false := by simpa using hay
        simp [this] at h
    · have h1 : (a == x) = false := by simpa using hax
      by_cases hay : a = y
      · subst hay; simp [h1] at h
      · have h2 : (a == y) = false := by simpa using hay
        simp only [h1, h2, cond_false, Nat.add_right_cancel_iff] at h
        rcases List.mem_cons.mp hx with hx | hx
        · exact absurd hx.symm hax
        · exact ih hx h

theorem get?_encCtx {F : List String} {σ : SCtx} (hσ : SCtxIn F σ) (x : String) :
    PyDict.get? (encCtx F σ) (F.idxOf x + 1) = PyDict.get? σ x := by
  induction σ with
  | nil => rfl
  | cons p r ih =>
    obtain ⟨y, v⟩ := p
    have hy : y ∈ F := hσ (y, v) List.mem_cons_self
    have hr : SCtxIn F r := fun q hq => hσ q (List.mem_cons_of_mem _ hq)
    simp only [encCtx, List.map_cons, PyDict.get?] at ih ⊢
    by_cases hyx : y = x
    · subst hyx; simp
    · have : ¬ F.idxOf y + 1 = F.idxOf x + 1 := fun he => hyx (idxOf_inj hy (by omega))
      simp only [this, hyx, if_false]
      exact ih hr

theorem set_encCtx {F : List String} {σ : SCtx} (hσ : SCtxIn F σ) (x : String) (c : Bytes) :
    PyDict.set (encCtx F σ) (F.idxOf x + 1) c = encCtx F (PyDict.set σ x c) := by
  induction σ with
  | nil => rfl
  | cons p r ih =>
    obtain ⟨y, v⟩ := p
    have hy : y ∈ F := hσ (y, v) List.mem_cons_self
    have hr : SCtxIn F r := fun q hq => hσ q (List.mem_cons_of_mem _ hq)
    simp only [encCtx, List.map_cons, PyDict.set] at ih ⊢
    by_cases hyx : y = x
    · subst hyx; simp
    · have : ¬ F.idxOf y + 1 = F.idxOf x + 1 := fun he => hyx (idxOf_inj hy (by omega))
      simp only [this, hyx, if_false, List.map_cons]
      rw [ih hr]

theorem sctxIn_set {F : List String} {σ : SCtx} (hσ : SCtxIn F σ) {x : String} (hx : x ∈ F) (c : Bytes) :
    SCtxIn F (PyDict.set σ x c) := by
  intro p hp
  rcases mem_pyset hp with hp | hp
  · exact hσ p hp
  · subst hp; exact hx

theorem ctxLe_encCtx {F : List String} {σ : SCtx} (hσ : SCtxIn F σ) : CtxLe F.length (encCtx F σ) := by
  intro t v h
  have hm := PyDict.mem_of_get? _ _ _ h
  simp only [encCtx, List.mem_map] at hm
  obtain ⟨p, hp, he⟩ := hm
  have : F.idxOf p.1 < F.length := List.idxOf_lt_length_iff.mpr (hσ p hp)
  injection he with he _
  omega

/-! ### options -/

theorem tagIn_toNat (F : List String) (x : String) : (tagIn F x).toNat = F.idxOf x + 1 := by
  simp [tagIn]

theorem tagIn_pos (F : List String) (x : String) : 0 < tagIn F x := by
  unfold tagIn; simp only [Int.ofNat_eq_natCast]; omega

theorem tagIn_inj {F : List String} {x y : String} (hx : x ∈ F) (h : tagIn F x = tagIn F y) : x = y := by
  unfold tagIn at h
  simp only [Int.ofNat_eq_natCast] at h
  exact idxOf_inj hx (by omega)

theorem numRhs_tag {F : List String} {p : String} {k : Int} (h : numRhs F p = .ok k) :
    isTempPat p = false ∧ p ∈ F ∧ k = tagIn F p := by
  unfold numRhs at h
  split at h
  · simp at h
  · rename_i ht
    split at h
    · rename_i j hj
      injection h with h
      unfold tagOf at hj
      split at hj
      · rename_i hc
        injection hj with hj
        exact ⟨by simpa using ht, by simpa using hc, by rw [← h, ← hj]; rfl⟩
      · simp at hj
    · simp at h

theorem numArg_den {F : List String} {σ : SCtx} (hσ : SCtxIn F σ) {a : Arg String} {na : Arg Int}
    (h : numArg F a = .ok na) : ArgDen (encCtx F σ) (encArg na) = sArg σ a := by
  cases a with
  | lit v => simp [numArg] at h; subst h; rfl
  | pat p =>
    simp only [numArg] at h
    split at h
    · rename_i k hk
      injection h with h; subst h
      obtain ⟨_, _, rfl⟩ := numRhs_tag hk
      simp only [encArg, ArgDen, sArg, tagIn_toNat, get?_encCtx hσ]
      cases PyDict.get? σ p <;> rfl
    · simp at h

theorem numArgs_den_aux {F : List String} {σ : SCtx} (hσ : SCtxIn F σ) {args : List (Arg String)} {nargs : List (Arg Int)}
    (h : All2 (fun a na => numArg F a = .ok na) args nargs) :
    (nargs.map encArg).map (ArgDen (encCtx F σ)) = args.map (sArg σ) := by
  induction h with
  | nil => rfl
  | cons hr _ ih => simp only [List.map_cons, numArg_den hσ hr, ih]

theorem numArgs_den {F : List String} {σ : SCtx} (hσ : SCtxIn F σ) {args : List (Arg String)} {nargs : List (Arg Int)}
    (h : mapE (numArg F) args = .ok nargs) : (nargs.map encArg).map (ArgDen (encCtx F σ)) = args.map (sArg σ) :=
  numArgs_den_aux hσ (mapE_all2 h)

/-- an option holds in the compiled model under the numbered bindings iff it holds in the text -/
theorem numOpt_sat {F : List String} {σ : SCtx} (hσ : SCtxIn F σ) (fns : PureEnv) (c : Bytes) {o : Opt String}
    {no : Opt Int} (h : numOpt F o = .ok no) : OptSat fns (encCtx F σ) c (encOpt no) ↔ sOptSat fns σ c o = true := by
  cases o with
  | lit v => simp [numOpt] at h; subst h; simp [encOpt, OptSat, sOptSat]
  | pat p =>
    simp only [numOpt] at h
    split at h
    · rename_i k hk
      injection h with h; subst h
      obtain ⟨_, _, rfl⟩ := numRhs_tag hk
      simp [encOpt, OptSat, sOptSat, tagIn_toNat, get?_encCtx hσ]
    · simp at h
  | fn f args =>
    simp only [numOpt] at h
    split at h
    · rename_i nargs hargs
      injection h with h; subst h
      simp [encOpt, OptSat, sOptSat, numArgs_den hσ hargs]
    · simp at h

theorem numOpts_sat_aux {F : List String} {σ : SCtx} (hσ : SCtxIn F σ) (fns : PureEnv) (c : Bytes)
    {os : List (Opt String)} {nos : List (Opt Int)} (h : All2 (fun o no => numOpt F o = .ok no) os nos) :
    ((∃ o ∈ nos, OptSat fns (encCtx F σ) c (encOpt o)) ↔ os.any (sOptSat fns σ c) = true) := by
  induction h with
  | nil => simp
  | cons hr _ ih =>
    simp only [List.mem_cons, exists_eq_or_imp, List.any_cons, Bool.or_eq_true, numOpt_sat hσ fns c hr, ih]

theorem numOpts_sat {F : List String} {σ : SCtx} (hσ : SCtxIn F σ) (fns : PureEnv) (c : Bytes)
    {os : List (Opt String)} {nos : List (Opt Int)} (h : mapE (numOpt F) os = .ok nos) :
    ((∃ o ∈ nos, OptSat fns (encCtx F σ) c (encOpt o)) ↔ os.any (sOptSat fns σ c) = true) :=
  numOpts_sat_aux hσ fns c (mapE_all2 h)

/-- constraints (each a list of options), by membership -/
def NSat (fns : PureEnv) (σn : Ctx) (c : Bytes) (ntc : List (List (Opt Int))) : Prop :=
  ∀ nos ∈ ntc, ∃ o ∈ nos, OptSat fns σn c (encOpt o)

theorem numCons_sat {F : List String} {σ : SCtx} (hσ : SCtxIn F σ) (fns : PureEnv) (c : Bytes) :
    ∀ {tc : List (List (Opt String))} {ntc : List (List (Opt Int))}, All2 (fun os nos => mapE (numOpt F) os = .ok nos) tc ntc →
    (NSat fns (encCtx F σ) c ntc ↔ consHold fns σ c tc = true) := by
  intro tc ntc h
  unfold NSat consHold
  induction h with
  | nil => simp
  | cons hr _ ih =>
    simp only [List.mem_cons, forall_eq_or_imp, List.all_cons, Bool.and_eq_true, numOpts_sat hσ fns c hr, ih]

theorem consSat_encTerm (fns : PureEnv) (σn : Ctx) (c : Bytes) (cs : List NTerm) :
    ConsSat fns σn c (cs.map encTerm) ↔ NSat fns σn c (cs.map (·.opts)) := by
  unfold ConsSat NSat encTerm
  simp only [List.mem_map, forall_exists_index, and_imp, forall_apply_eq_imp_iff₂]
  constructor
  · intro h a ha
    obtain ⟨o, ⟨o', ho', rfl⟩, hs⟩ := h a ha
    exact ⟨o', ho', hs⟩
  · intro h a ha
    obtain ⟨o, ho, hs⟩ := h a ha
    exact ⟨_, ⟨o, ho, rfl⟩, hs⟩

/-! ### a chain seen as a list of items -/

inductive NItem where
  | lit (v : Bytes)
  | named (k : Int)
  | temp (cons : List (List (Opt Int)))

/-- what stands at a position of a chain: a temporary pattern is given the constraints that mention its number -/
def resItem (cons : List NTerm) : Atom → NItem
  | .lit v => .lit v
  | .pat t => if t < 0 then .temp ((cons.filter (fun c => c.pat.contains t)).map (·.opts)) else .named t

/-- the constraints of a chain on named patterns, by pattern number -/
def resCons (cons : List NTerm) : List (Int × List (Opt Int)) :=
  cons.flatMap fun c => (c.pat.filter (fun k => decide (0 ≤ k))).map (fun k => (k, c.opts))

inductive ItemNum (F : List String) : SItem → NItem → Prop
  | lit (v : Bytes) : ItemNum F (.lit v) (.lit v)
  | named (x : String) : isTempPat x = false → x ∈ F → ItemNum F (.named x) (.named (tagIn F x))
  | temp (tc : List (List (Opt String))) (ntc : List (List (Opt Int))) :
      All2 (fun os nos => mapE (numOpt F) os = .ok nos) tc ntc → ItemNum F (.temp tc) (.temp ntc)

def NconsNum (F : List String) (p : String × List (Opt String)) (q : Int × List (Opt Int)) : Prop :=
  isTempPat p.1 = false ∧ p.1 ∈ F ∧ q.1 = tagIn F p.1 ∧ mapE (numOpt F) p.2 = .ok q.2

/-- the chain `ch` implements the expanded definition `f` -/
def Impl (F : List String) (ch : Chain) (f : Flat) : Prop :=
  All2 (ItemNum F) f.items (ch.name.map (resItem ch.cons)) ∧ All2 (NconsNum F) f.ncons (resCons ch.cons)

/-- the negative numbers in a chain name -/
def negTags (l : List Atom) : List Int := (atomTags l).filter (· < 0)

theorem negTags_cons_pat (t : Int) (l : List Atom) : negTags (.pat t :: l) = if t < 0 then t :: negTags l else negTags l := by
  unfold negTags atomTags
  simp only [List.filterMap_cons, List.filter_cons]
  split <;> simp_all

theorem negTags_cons_lit (v : Bytes) (l : List Atom) : negTags (.lit v :: l) = negTags l := by
  unfold negTags atomTags
  simp only [List.filterMap_cons]

/-- the named constraints met at pattern number `k`, by membership -/
theorem mem_resCons_filter (cons : List NTerm) (k : Int) (hk : 0 ≤ k) (nos : List (Opt Int)) :
    nos ∈ ((resCons cons).filter (fun q => q.1 == k)).map (·.2) ↔
      nos ∈ (cons.filter (fun c => c.pat.contains k)).map (·.opts) := by
  simp only [resCons, List.mem_map, List.mem_filter, List.mem_flatMap, beq_iff_eq, List.contains_eq_mem,
    decide_eq_true_eq, Prod.exists]
  constructor
  · rintro ⟨a, b, ⟨⟨c, hc, k', ⟨hk', _⟩, he⟩, rfl⟩, rfl⟩
    injection he with h1 h2
    subst h1; subst h2
    exact ⟨c, ⟨hc, hk'⟩, rfl⟩
  · rintro ⟨c, ⟨hc, hkc⟩, rfl⟩
    exact ⟨k, c.opts, ⟨⟨c, hc, k, ⟨hkc, hk⟩, rfl⟩, rfl⟩, rfl⟩

theorem nsat_congr {fns : PureEnv} {σn : Ctx} {c : Bytes} {a b : List (List (Opt Int))} (h : ∀ nos, nos ∈ a ↔ nos ∈ b) :
    NSat fns σn c a ↔ NSat fns σn c b := by
  unfold NSat
  constructor
  · intro ha nos hn; exact ha nos ((h nos).mpr hn)
  · intro hb nos hn; exact hb nos ((h nos).mp hn)

/-- the constraints on the named pattern `x` of the text, numbered, are those the chain lists under its number -/
theorem ncons_filter_num {F : List String} {x : String} :
    ∀ {ncons : List (String × List (Opt String))} {rc : List (Int × List (Opt Int))}, All2 (NconsNum F) ncons rc →
    All2 (fun os nos => mapE (numOpt F) os = .ok nos) ((ncons.filter (fun t => t.1 == x)).map (·.2))
      ((rc.filter (fun q => q.1 == tagIn F x)).map (·.2)) := by
  intro ncons rc h
  induction h with
  | nil => exact .nil
  | @cons p q ps qs hr _ ih =>
    obtain ⟨_, hp, hq, ho⟩ := hr
    simp only [List.filter_cons]
    by_cases hpx : p.1 = x
    · have h1 : (p.1 == x) = true := by simpa using hpx
      have h2 : (q.1 == tagIn F x) = true := by simp [hq, hpx]
      simp only [h1, h2, if_true, List.map_cons]
      exact .cons ho ih
    · have h1 : (p.1 == x) = false := by simpa using hpx
      have h2 : (q.1 == tagIn F x) = false := by
        simp only [hq, beq_eq_false_iff_ne, ne_eq]
        exact fun he => hpx (tagIn_inj hp he)
      simp only [h1, h2]
      exact ih

/-! ### the chain runs exactly as the expanded definition does -/

theorem impl_run_aux (F : List String) (fns : PureEnv) (ch : Chain) (ncons : List (String × List (Opt String)))
    (hnc : All2 (NconsNum F) ncons (resCons ch.cons)) :
    ∀ (items : List SItem) (atoms : List Atom), All2 (ItemNum F) items (atoms.map (resItem ch.cons)) →
    (negTags atoms).Nodup → ∀ (prev : List Int) (seen : List String),
    (∀ x, x ∈ F → (tagIn F x ∈ prev ↔ x ∈ seen)) → (∀ t ∈ negTags atoms, t ∉ prev) →
    ∀ (σ : SCtx), SCtxIn F σ → ∀ (name : List Bytes) (σn' : Ctx),
    ChainRun fns ch atoms prev (encCtx F σ) name σn' ↔
      ∃ σ', flatRun fns ncons items seen σ name = some σ' ∧ σn' = encCtx F σ' := by
  intro items
  induction items with
  | nil =>
    intro atoms h _ prev seen _ _ σ _ name σn'
    cases atoms with
    | cons a r => simp only [List.map_cons] at h; cases h
    | nil =>
      cases name with
      | nil => simp only [ChainRun, flatRun, Option.some.injEq]; constructor
               · rintro rfl; exact ⟨σ, rfl, rfl⟩
               · rintro ⟨σ', rfl, rfl⟩; rfl
      | cons c cs => simp [ChainRun, flatRun]
  | cons it its ih =>
    intro atoms h hnd prev seen hps hfresh σ hσ name σn'
    cases atoms with
    | nil => simp only [List.map_nil] at h; cases h
    | cons a r =>
      simp only [List.map_cons] at h
      cases h with
      | cons hit hrest =>
      cases name with
      | nil => cases a <;> cases it <;> simp [ChainRun, flatRun]
      | cons c cs =>
        cases a with
        | lit v =>
          cases it with
          | named x => simp only [resItem] at hit; cases hit
          | temp tc => simp only [resItem] at hit; cases hit
          | lit w =>
            simp only [resItem] at hit
            cases hit
            rw [negTags_cons_lit] at hnd hfresh
            simp only [ChainRun, flatRun]
            by_cases hcv : c = v
            · simp only [hcv, true_and, if_true]
              exact ih r hrest hnd prev seen hps hfresh σ hσ cs σn'
            · simp [hcv]
        | pat t =>
          rw [negTags_cons_pat] at hnd hfresh
          by_cases hneg : t < 0
          · -- a temporary pattern
            simp only [hneg, if_true] at hnd hfresh
            simp only [resItem, hneg, if_true] at hit
            cases hit with
            | temp tc ntc htc =>
            have htp : t ∉ prev := hfresh t List.mem_cons_self
            have hpm : (pmove ch t prev).1 = (ch.cons.filter (fun c => c.pat.contains t)).map encTerm := by
              unfold pmove
              rw [if_neg (by simpa using htp)]
            simp only [ChainRun, flatRun, hpm, consSat_encTerm, numCons_sat hσ fns c htc, BindStep, hneg, if_true]
            by_cases hc : consHold fns σ c tc = true
            · simp only [hc, true_and, if_true, exists_eq_left]
              refine ih r hrest (List.nodup_cons.mp hnd).2 (prev ++ [t]) seen ?_ ?_ σ hσ cs σn'
              · intro x hx
                rw [List.mem_append, ← hps x hx]
                have := tagIn_pos F x
                simp only [List.mem_singleton, or_iff_left_iff_imp]
                intro he; omega
              · intro u hu
                rw [List.mem_append]
                rintro (h1 | h1)
                · exact hfresh u (List.mem_cons_of_mem _ hu) h1
                · simp only [List.mem_singleton] at h1
                  subst h1
                  exact (List.nodup_cons.mp hnd).1 hu
            · simp [hc]
          · -- a named pattern
            simp only [hneg, if_false] at hnd hfresh
            simp only [resItem, hneg, if_false] at hit
            generalize hk : NItem.named t = ni at hit
            cases hit with
            | lit v => cases hk
            | temp _ _ _ => cases hk
            | named x hxt hxF =>
            injection hk with hk
            subst hk
            have hrec : ∀ σ₁ : SCtx, SCtxIn F σ₁ → (ChainRun fns ch r (prev ++ [tagIn F x]) (encCtx F σ₁) cs σn' ↔
                ∃ σ', flatRun fns ncons its (x :: seen) σ₁ cs = some σ' ∧ σn' = encCtx F σ') := by
              intro σ₁ hσ₁
              refine ih r hrest hnd (prev ++ [tagIn F x]) (x :: seen) ?_ ?_ σ₁ hσ₁ cs σn'
              · intro y hy
                simp only [List.mem_append, List.mem_cons, List.not_mem_nil, or_false]
                rw [hps y hy]
                constructor
                · rintro (h1 | h1)
                  · exact Or.inr h1
                  · exact Or.inl (tagIn_inj hy h1)
                · rintro (h1 | h1)
                  · exact Or.inr (by rw [h1])
                  · exact Or.inl h1
              · intro u hu
                rw [List.mem_append]
                rintro (h1 | h1)
                · exact hfresh u hu h1
                · simp only [List.mem_singleton] at h1
                  have hu0 : u < 0 := by simpa using (List.mem_filter.mp hu).2
                  have := tagIn_pos F x
                  omega
            -- the constraints
            have hcons : ConsSat fns (encCtx F σ) c (pmove ch (tagIn F x) prev).1 ↔
                (seen.contains x || consHold fns σ c ((ncons.filter (fun t => t.1 == x)).map (·.2))) = true := by
              unfold pmove
              by_cases hin : tagIn F x ∈ prev
              · have h1 : prev.contains (tagIn F x) = true := by simpa using hin
                have h2 : seen.contains x = true := by simpa using (hps x hxF).mp hin
                rw [if_pos h1, h2]
                simp [ConsSat]
              · have h1 : ¬ prev.contains (tagIn F x) = true := by simpa using hin
                have h2 : seen.contains x = false := by simpa using fun hs => hin ((hps x hxF).mpr hs)
                rw [if_neg h1, h2, Bool.false_or, consSat_encTerm]
                rw [← numCons_sat hσ fns c (ncons_filter_num hnc)]
                exact (nsat_congr (mem_resCons_filter ch.cons (tagIn F x) (Int.le_of_lt (tagIn_pos F x)))).symm
            have hnn : ¬ tagIn F x < 0 := hneg
            generalize hb : (seen.contains x || consHold fns σ c ((ncons.filter (fun t => t.1 == x)).map (·.2))) = b at hcons
            rw [ChainRun, flatRun, hb, hcons]
            cases b with
            | false => simp
            | true =>
              simp only [true_and, if_true, BindStep, hnn, if_false, tagIn_toNat, get?_encCtx hσ]
              cases hg : PyDict.get? σ x with
              | none =>
                simp only [reduceCtorEq, false_and, true_and, false_or, exists_eq_left]
                rw [set_encCtx hσ]
                exact hrec _ (sctxIn_set hσ hxF c)
              | some v =>
                simp only [Option.some.injEq, reduceCtorEq, false_and, or_false]
                by_cases hvc : v = c
                · subst hvc
                  simp only [true_and, if_true, exists_eq_left]
                  exact hrec σ hσ
                · simp [hvc]

/-- **a chain that implements an expanded definition accepts the same names with the same bindings** -/
theorem impl_run {F : List String} (fns : PureEnv) {ch : Chain} {f : Flat} (himpl : Impl F ch f)
    (hnd : (negTags ch.name).Nodup) (σ : SCtx) (hσ : SCtxIn F σ) (name : List Bytes) (σn' : Ctx) :
    ChainRun fns ch ch.name [] (encCtx F σ) name σn' ↔ ∃ σ', f.run fns σ name = some σ' ∧ σn' = encCtx F σ' :=
  impl_run_aux F fns ch f.ncons himpl.2 f.items ch.name himpl.1 hnd [] [] (fun x _ => by simp) (fun t _ => by simp)
    σ hσ name σn'

end Ndn.Lvs
