import NdnProofs.Lemmas.Lvs.CompileTags
import NdnProofs.Lemmas.Lvs.Example
/-!
  Concrete schemas for the non-vacuity examples of the compiler theorems (C11, C13), evaluated by the kernel
  (`decide +kernel`; no compiler-generated code is trusted).
-/
namespace Ndn.Lvs

/-- the grammar's guarantees as a computable test -/
def optOKb {π : Type} : Opt π → Bool
  | .lit v => !v.isEmpty
  | .pat _ => true
  | .fn f _ => f != "" && decide (FnNameOK f)

def ruleOKb {τ π : Type} (r : Rule τ π) : Bool :=
  r.name.all (fun c => match c with | .lit v => !v.isEmpty | _ => true) &&
  r.cons.all (fun cs => cs.all (fun t => t.opts.all optOKb))

theorem optOK_of_optOKb {π : Type} {o : Opt π} (h : optOKb o = true) : OptOK o := by
  cases o with
  | lit v => simp [optOKb] at h; exact h
  | pat p => trivial
  | fn f a => simpa [optOKb, OptOK] using h

theorem ruleOK_of_ruleOKb {τ π : Type} {r : Rule τ π} (h : ruleOKb r = true) : RuleOK r := by
  unfold ruleOKb at h
  simp only [Bool.and_eq_true, List.all_eq_true] at h
  refine ⟨fun v hv => ?_, fun cs hcs t ht o ho => optOK_of_optOKb (h.2 cs hcs t ht o ho)⟩
  have := h.1 _ hv
  simp at this
  exact this

theorem Schema.wf_of_all (S : Schema) (h : S.rules.all ruleOKb = true) : S.WF := by
  intro r hr
  exact ruleOK_of_ruleOKb (List.all_eq_true.mp h r hr)

namespace Example

local instance {ε α} [DecidableEq ε] [DecidableEq α] : DecidableEq (Except ε α) := fun a b =>
  match a, b with
  | .ok x, .ok y => if h : x = y then isTrue (by rw [h]) else isFalse (by intro h'; injection h' with h'; exact h h')
  | .error x, .error y => if h : x = y then isTrue (by rw [h]) else isFalse (by intro h'; injection h' with h'; exact h h')
  | .ok _, .error _ => isFalse (by intro h; cases h)
  | .error _, .ok _ => isFalse (by intro h; cases h)

/-- `#p: "d"/x <= #k`,  `#k: "k"/x & {x: "a"|"b"}` -/
def schema : Schema := { rules := [
  { id := "#p", name := [.lit cD, .pat "x"], cons := [], sign := ["#k"] },
  { id := "#k", name := [.lit cK, .pat "x"], cons := [[{ pat := "x", opts := [.lit cA, .lit cB] }]], sign := [] } ] }

/-- the compiler model maps the schema to the model the examples of C11–C13 use (the real compiler's output) -/
theorem compile_schema : compile schema = .ok (model, ["x"]) := by decide +kernel

theorem schema_wf : schema.WF := Schema.wf_of_all _ (by decide)

/-- the chains of the schema (after numbering `x` = 1) -/
def chains : List Chain := [
  { id := "#k", name := [.lit cK, .pat 1], cons := [{ pat := [1], opts := [.lit cA, .lit cB] }], sign := [] },
  { id := "#p", name := [.lit cD, .pat 1], cons := [], sign := ["#k"] } ]

theorem chainsOf_schema : chainsOf schema = .ok (chains, ["x"]) := by decide +kernel

theorem buildModel_chains : buildModel chains ["x"] = .ok model := by decide +kernel

/-- the merge keys of these chains are distinct where the constraints differ -/
theorem keyInj_chains : KeyInj chains := by
  intro rc₁ h1 rc₂ h2 t₁ t₂ prev ht1 ht2 hk
  simp only [chains, List.mem_cons, List.not_mem_nil, or_false] at h1 h2
  rcases h1 with rfl | rfl <;> rcases h2 with rfl | rfl <;>
  · have e1 : t₁ = 1 := by simpa [Chain.tags] using ht1
    have e2 : t₂ = 1 := by simpa [Chain.tags] using ht2
    subst e1; subst e2
    refine ⟨rfl, ?_⟩
    cases hp : prev.contains (1 : Int)
    · first
        | rfl
        | (exfalso; simp only [pmove, hp] at hk; revert hk; decide)
    · have hp' : (1 : Int) ∈ prev := by simpa using hp
      simp [pmove, hp']

/-- the same with `#k` signed by `#p`: a signing loop -/
def schemaLoop : Schema := { rules := [
  { id := "#p", name := [.lit cD, .pat "x"], cons := [], sign := ["#k"] },
  { id := "#k", name := [.lit cK, .pat "x"], cons := [[{ pat := "x", opts := [.lit cA, .lit cB] }]], sign := ["#p"] } ] }

theorem compile_schemaLoop : compile schemaLoop = .ok (signLoop, ["x"]) := by decide +kernel

theorem schemaLoop_wf : schemaLoop.WF := Schema.wf_of_all _ (by decide)

/-- `#p: "d"/x <= #nokey` -/
def schemaBadSigner : Schema := { rules := [{ id := "#p", name := [.lit cD, .pat "x"], cons := [], sign := ["#nokey"] }] }

/-- `#p: #nope/"d"` -/
def schemaBadRef : Schema := { rules := [{ id := "#p", name := [.ref "#nope", .lit cD], cons := [], sign := [] }] }

/-- `#p: "d"/#q`, `#q: #p/"k"` -/
def schemaRefCycle : Schema := { rules := [
  { id := "#p", name := [.lit cD, .ref "#q"], cons := [], sign := [] },
  { id := "#q", name := [.ref "#p", .lit cK], cons := [], sign := [] } ] }

/-- `#p: "d"/x & {x: "a", y: "b"}` (`y` occurs nowhere) -/
def schemaBadCons : Schema := { rules := [
  { id := "#p", name := [.lit cD, .pat "x"],
    cons := [[{ pat := "x", opts := [.lit cA] }, { pat := "y", opts := [.lit cB] }]], sign := [] }] }

/-- `#p: "d"/x & {x: _t}` (a temporary pattern as constraint value) -/
def schemaTempOpt : Schema := { rules := [
  { id := "#p", name := [.lit cD, .pat "x"], cons := [[{ pat := "x", opts := [.pat "_t"] }]], sign := [] }] }

end Example
end Ndn.Lvs
