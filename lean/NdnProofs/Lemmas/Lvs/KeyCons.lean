import NdnProofs.Lemmas.Lvs.SrcCompile
/-!
  The left-hand side of every constraint term of a rule chain is either ONE number (a named pattern) or a list of
  negative numbers (the occurrences of a temporary pattern): `chainsOf_patOK`.  So the constraints
  `pattern_movement` attaches to a named pattern (the terms whose left-hand side mentions its number) are, one for
  one and in order, the constraints on that pattern (`resCons_filter_eq`).
-/
namespace Ndn.Lvs

/-- the left-hand side of a numbered constraint term: at most one number, or negative numbers only -/
def PatOK (t : NTerm) : Prop := t.pat.length ≤ 1 ∨ ∀ i ∈ t.pat, i < 0

/-- every constraint term of the chain has such a left-hand side -/
def ConsPatOK (c : Chain) : Prop := ∀ t ∈ c.cons, PatOK t

/-! ### pass 2 -/

theorem numTerm_patOK {F : List String} {tp : PyDict String (List Int)} {a : Term String String} {b : NTerm}
    (hneg : ∀ p l, PyDict.get? tp p = some l → ∀ t ∈ l, t < 0) (h : numTerm F tp a = .ok b) : PatOK b := by
  obtain ⟨hl, _⟩ := numTerm_ok h
  cases hat : isTempPat a.pat with
  | true => exact Or.inr (hneg a.pat b.pat (numLhs_temp hl hat))
  | false =>
    obtain ⟨_, hids⟩ := numLhs_named hl hat
    exact Or.inl (by rw [hids]; simp)

theorem ruleNum_patOK {F : List String} {r : SRule} {nr : NRule} (h : RuleNum F r nr) :
    ∀ cs ∈ nr.cons, ∀ t ∈ cs, PatOK t := by
  obtain ⟨_, _, tp, _, htp, hcons⟩ := h
  have hneg : ∀ p l, PyDict.get? tp p = some l → ∀ t ∈ l, t < 0 :=
    fun p l hp t ht => (mem_negsOf.mp (htp p l hp t ht)).2
  intro cs hcs t ht
  obtain ⟨cs0, _, hm⟩ := mapE_ok_mem' hcons cs hcs
  obtain ⟨t0, _, hm2⟩ := mapE_ok_mem' hm t ht
  exact numTerm_patOK hneg hm2

/-! ### pass 3 -/

theorem freshName_vals (used : List Int) : ∀ (name : List Atom) (nt : Int) (mp : PyDict Int Int), nt < 0 →
    (∀ k v, PyDict.get? mp k = some v → v < 0) →
    ∀ k v, PyDict.get? (freshName used name nt mp).2.2 k = some v → v < 0 := by
  intro name
  induction name with
  | nil => intro nt mp _ hmp; simpa [freshName] using hmp
  | cons a r ih =>
    intro nt mp hnt hmp
    cases a with
    | lit w => simp only [freshName]; exact ih nt mp hnt hmp
    | pat t =>
      simp only [freshName]
      split
      · refine ih (nt - 1) (PyDict.set mp t nt) (by omega) ?_
        intro k v h
        rw [PyDict.get?_set] at h
        split at h
        · injection h with h; omega
        · exact hmp k v h
      · exact ih nt mp hnt hmp

theorem renameTag_neg {mp : PyDict Int Int} (hmp : ∀ k v, PyDict.get? mp k = some v → v < 0) {i : Int} (hi : i < 0) :
    renameTag mp i < 0 := by
  unfold renameTag
  split
  · rename_i j hj; exact hmp i j hj
  · exact hi

theorem freshTempTags_patOK (chain ref : Chain) (nt : Int) (hnt : nt < 0) (h : ConsPatOK ref) :
    ConsPatOK (freshTempTags chain ref nt).1 := by
  unfold freshTempTags
  have hv := freshName_vals chain.tags ref.name nt [] hnt (by intro k v hkv; simp [PyDict.get?] at hkv)
  generalize freshName chain.tags ref.name nt [] = res at hv
  obtain ⟨name', nt', mp'⟩ := res
  simp only [] at hv ⊢
  intro t ht
  simp only [List.mem_map] at ht
  obtain ⟨t0, ht0, rfl⟩ := ht
  rcases h t0 ht0 with hl | hn
  · exact Or.inl (by simpa using hl)
  · refine Or.inr fun i hi => ?_
    simp only [List.mem_map] at hi
    obtain ⟨j, hj, rfl⟩ := hi
    exact renameTag_neg hv (hn j hj)

theorem joinChain_patOK {rid : String} {a b : Chain} (ha : ConsPatOK a) (hb : ConsPatOK b) :
    ConsPatOK (joinChain rid a b) := by
  intro t ht
  unfold joinChain at ht
  rcases List.mem_append.mp ht with h | h
  · exact ha t h
  · exact hb t h

/-- every chain stored in `rep_rules` has well-shaped constraint terms -/
def RepPatOK (rep : PyDict String (List Chain)) : Prop := ∀ p ∈ rep, ∀ c ∈ p.2, ConsPatOK c

theorem expandName_patOK (rid : String) (rep : PyDict String (List Chain)) (hrep : RepPatOK rep) :
    ∀ (name : List (Comp Int)) (cur : List Chain) (nt : Int) (res : List Chain) (nt' : Int), nt < 0 →
      (∀ c ∈ cur, ConsPatOK c) → expandName rid rep name cur nt = .ok (res, nt') →
      nt' < 0 ∧ ∀ c ∈ res, ConsPatOK c := by
  intro name
  induction name with
  | nil =>
    intro cur nt res nt' hnt hcur h
    simp only [expandName] at h
    injection h with h
    simp only [Prod.mk.injEq] at h
    obtain ⟨rfl, rfl⟩ := h
    exact ⟨hnt, hcur⟩
  | cons a r ih =>
    intro cur nt res nt' hnt hcur h
    cases a with
    | lit w =>
      simp only [expandName] at h
      refine ih _ _ _ _ hnt ?_ h
      intro c hc
      rw [List.mem_map] at hc
      obtain ⟨c0, hc0, rfl⟩ := hc
      exact hcur c0 hc0
    | pat t =>
      simp only [expandName] at h
      refine ih _ _ _ _ hnt ?_ h
      intro c hc
      rw [List.mem_map] at hc
      obtain ⟨c0, hc0, rfl⟩ := hc
      exact hcur c0 hc0
    | ref i =>
      simp only [expandName] at h
      split at h
      · simp at h
      · rename_i reps hget
        obtain ⟨hle, hmem, _⟩ := inlineRef_mem rid reps cur nt
        refine ih _ _ _ _ (by omega) ?_ h
        intro c hc
        obtain ⟨refc, hrefc, ch, hch, nt1, hnt1, _, rfl⟩ := hmem c hc
        exact joinChain_patOK (hcur ch hch)
          (freshTempTags_patOK ch refc nt1 (by omega) (hrep _ (PyDict.mem_of_get? _ _ _ hget) refc hrefc))

theorem initChains_patOK (r : NRule) (h : ∀ cs ∈ r.cons, ∀ t ∈ cs, PatOK t) : ∀ c ∈ initChains r, ConsPatOK c := by
  intro c hc
  unfold initChains at hc
  simp only [] at hc
  split at hc
  · simp at hc; subst hc
    intro t ht; simp at ht
  · rw [List.mem_map] at hc
    obtain ⟨cs, hcs, rfl⟩ := hc
    exact fun t ht => h cs hcs t ht

theorem replicateLoop_patOK : ∀ (rules : List NRule) (rep : PyDict String (List Chain)) (nt : Int)
    (res : PyDict String (List Chain)), nt < 0 → (∀ r ∈ rules, ∀ cs ∈ r.cons, ∀ t ∈ cs, PatOK t) → RepPatOK rep →
    replicateLoop rules rep nt = .ok res → RepPatOK res := by
  intro rules
  induction rules with
  | nil =>
    intro rep nt res _ _ hrep h
    simp only [replicateLoop] at h
    injection h with h; subst h; exact hrep
  | cons r rs ih =>
    intro rep nt res hnt hr hrep h
    unfold replicateLoop at h
    split at h
    · simp at h
    · rename_i cur nt' hexp
      obtain ⟨hnt', hcur⟩ := expandName_patOK r.id rep hrep r.name (initChains r) nt cur nt' hnt
        (initChains_patOK r (hr r List.mem_cons_self)) hexp
      refine ih _ _ _ hnt' (fun x hx => hr x (List.mem_cons_of_mem _ hx)) ?_ h
      intro p hp c hc
      unfold repAdd at hp
      split at hp
      · rcases mem_pyset hp with hp | hp
        · exact hrep p hp c hc
        · subst hp; exact hcur c hc
      · rename_i old hold
        rcases mem_pyset hp with hp | hp
        · exact hrep p hp c hc
        · subst hp
          rcases List.mem_append.mp hc with hc | hc
          · exact hrep _ (PyDict.mem_of_get? _ _ _ hold) c hc
          · exact hcur c hc

/-- **the constraint terms of the chains of every schema have well-shaped left-hand sides** -/
theorem chainsOf_patOK (S : Schema) (chains : List Chain) (named : List String)
    (h : chainsOf S = .ok (chains, named)) : ∀ c ∈ chains, ConsPatOK c := by
  unfold chainsOf at h
  split at h
  · simp at h
  · rename_i rules hsort
    split at h
    · simp at h
    · rename_i nrules named' hnum
      split at h
      · simp at h
      · rename_i rep hrep
        injection h with h
        simp only [Prod.mk.injEq] at h
        obtain ⟨rfl, _⟩ := h
        obtain ⟨_, hall, _, _⟩ := genPatternNumbers_num hnum
        have hr : ∀ r ∈ nrules, ∀ cs ∈ r.cons, ∀ t ∈ cs, PatOK t := by
          intro nr hnr
          obtain ⟨r, _, hrn⟩ := hall.mem_right nr hnr
          exact ruleNum_patOK hrn
        have h3 : RepPatOK rep :=
          replicateLoop_patOK nrules [] _ rep (firstFresh_neg nrules) hr (by intro p hp; simp at hp) hrep
        intro c hc
        obtain ⟨p, hp, hcp⟩ := mem_allChains.mp hc
        exact h3 p hp c hcp

/-! ### what it is needed for -/

/-- the constraints on the named pattern number `k`: the terms that mention `k`, one for one and in order -/
theorem resCons_filter_eq (cons : List NTerm) (h : ∀ t ∈ cons, PatOK t) (k : Int) (hk : 0 ≤ k) :
    ((resCons cons).filter (fun q => q.1 == k)).map (·.2) = (cons.filter (fun c => c.pat.contains k)).map (·.opts) := by
  induction cons with
  | nil => rfl
  | cons c r ih =>
    have ih' := ih (fun t ht => h t (List.mem_cons_of_mem _ ht))
    have hc := h c List.mem_cons_self
    have hsplit : resCons (c :: r) = (c.pat.filter (fun k => decide (0 ≤ k))).map (fun k => (k, c.opts)) ++ resCons r := by
      simp [resCons]
    rw [hsplit, List.filter_append, List.map_append, ih', List.filter_cons]
    -- the head term
    have hhead : (((c.pat.filter (fun k => decide (0 ≤ k))).map (fun k => (k, c.opts))).filter (fun q => q.1 == k)).map (·.2)
        = if c.pat.contains k then [c.opts] else [] := by
      rcases hc with hl | hn
      · match hp : c.pat, hl with
        | [], _ => simp
        | [j], _ =>
          by_cases hj : 0 ≤ j
          · by_cases hjk : j = k
            · subst hjk; simp [hj]
            · have hkj : ¬ k = j := fun h => hjk h.symm
              simp [hj, hjk, hkj]
          · have hkj : ¬ k = j := by omega
            simp [hj, hkj]
        | _ :: _ :: _, hl => simp at hl
      · have h1 : c.pat.filter (fun k => decide (0 ≤ k)) = [] := by
          rw [List.filter_eq_nil_iff]
          intro i hi
          have := hn i hi
          simp only [decide_eq_true_eq]; omega
        have h2 : k ∉ c.pat := fun hm => by have := hn k hm; omega
        simp [h1, h2]
    rw [hhead]
    split <;> simp

end Ndn.Lvs
