import NdnProofs.Lemmas.Lvs.KeySrc
/-!
  Signing cycles among key paths of chains, read as signing cycles among the keys of the name patterns of the text
  (`keySelfSigning_src`), and back for schemas without temporary patterns (`src_keySelfSigning_tempFree`).
-/
namespace Ndn.Lvs

/-- every expansion of every definition is implemented by a chain that carries the signers of THAT definition -/
theorem chainsOf_complete_def (S : Schema) (chains : List Chain) (F : List String) (h : chainsOf S = .ok (chains, F)) :
    ∀ r ∈ renameTemps S.rules 1, ∀ f, ExpandsDef ⟨renameTemps S.rules 1⟩ r f →
      ∃ c ∈ chains, c.id = r.id ∧ c.sign = isort strLe r.sign ∧ Impl F c f := by
  unfold chainsOf at h
  split at h
  · simp at h
  · rename_i srules hsort
    split at h
    · simp at h
    · rename_i nrules named hnum
      split at h
      · simp at h
      · rename_i rep hrep
        injection h with h
        simp only [Prod.mk.injEq] at h
        obtain ⟨rfl, rfl⟩ := h
        obtain ⟨hF, hall, hnd, hfresh⟩ := genPatternNumbers_num hnum
        have hperm := sortRuleReferences_perm S srules hsort
        unfold replicateRules at hrep
        obtain ⟨hsem, _⟩ := replicateLoop_sem (S := ⟨srules⟩) hall [] [] (firstFreshTemp nrules) rep
          (by simp) (fun r hr => hr) (sortRuleReferences_refsDone S srules hsort) hnd
          ⟨firstFresh_neg nrules, by simp, fun t ht => by
            obtain ⟨nr, hnr, htn⟩ := List.mem_flatMap.mp ht
            exact hfresh nr hnr t htn⟩
          (by intro q chains hq; simp [PyDict.get?] at hq)
          ⟨by intro q chains hq; simp [PyDict.get?] at hq, by simp⟩ hrep
        rw [List.nil_append] at hsem
        intro r hr f hf
        have hf' : ExpandsDef ⟨srules⟩ r f :=
          expandsDef_mono (S := ⟨renameTemps S.rules 1⟩) (S' := ⟨srules⟩) (fun r hr => hperm.mem_iff.mpr hr) hf
        obtain ⟨cs, hch, c, hc, hsg, himpl⟩ := hsem.complete r (hperm.mem_iff.mpr hr) f hf'
        exact ⟨c, mem_allChains.mpr ⟨_, PyDict.mem_of_get? _ _ _ hch, hc⟩, (hsem.sound _ _ hch c hc).1, hsg, himpl⟩

/-! ### schemas without temporary patterns -/

mutual
theorem expandsName_noTemp {S : Schema} (hS : TempFree S) :
    ∀ {cs : List (Term String String)} {comps : List (Comp String)} {f : Flat},
    (∀ p, Comp.pat p ∈ comps → isTempPat p = false) → ExpandsName S cs comps f → ∀ it ∈ f.items, ∀ tc, it ≠ .temp tc
  | _, _, _, _, .nil => by intro it hit; simp at hit
  | _, _, _, hc, .lit h1 => by
      intro it hit tc
      rcases List.mem_cons.mp hit with rfl | hit
      · simp
      · exact expandsName_noTemp hS (fun p hp => hc p (List.mem_cons_of_mem _ hp)) h1 it hit tc
  | _, _, _, hc, .named _ h1 => by
      intro it hit tc
      rcases List.mem_cons.mp hit with rfl | hit
      · simp
      · exact expandsName_noTemp hS (fun p hp => hc p (List.mem_cons_of_mem _ hp)) h1 it hit tc
  | _, _, _, hc, .temp hp _ => by
      have := hc _ List.mem_cons_self
      rw [hp] at this
      cases this
  | _, _, _, hc, .ref _ he h1 => by
      intro it hit tc
      rcases List.mem_append.mp hit with hit | hit
      · exact expands_noTemp hS he it hit tc
      · exact expandsName_noTemp hS (fun p hp => hc p (List.mem_cons_of_mem _ hp)) h1 it hit tc
theorem expands_noTemp {S : Schema} (hS : TempFree S) :
    ∀ {q : String} {f : Flat}, Expands S q f → ∀ it ∈ f.items, ∀ tc, it ≠ .temp tc
  | _, _, .mk hr _ h1 => fun it hit tc => expandsName_noTemp hS (hS _ hr) h1 it hit tc
end

theorem skeysFrom_noTemp (ncons : List (String × List (Opt String))) :
    ∀ (items : List SItem) (seen : List String), (∀ it ∈ items, ∀ tc, it ≠ .temp tc) →
    ∀ a ∈ skeysFrom ncons items seen, a.isTemp = false := by
  intro items
  induction items with
  | nil => intro seen _ a ha; simp [skeysFrom] at ha
  | cons it r ih =>
    intro seen h a ha
    have hr : ∀ it ∈ r, ∀ tc, it ≠ .temp tc := fun it hit => h it (List.mem_cons_of_mem _ hit)
    cases it with
    | lit v =>
      simp only [skeysFrom] at ha
      rcases List.mem_cons.mp ha with rfl | ha
      · rfl
      · exact ih seen hr a ha
    | named x =>
      simp only [skeysFrom] at ha
      rcases List.mem_cons.mp ha with rfl | ha
      · rfl
      · exact ih _ hr a ha
    | temp tc => exact absurd rfl (h _ List.mem_cons_self tc)

theorem tempFree_renameTemps {S : Schema} (h : TempFree S) : TempFree ⟨renameTemps S.rules 1⟩ := by
  intro r hr p hp
  obtain ⟨r0, hr0, hn, _⟩ := mem_renameTemps hr
  exact h r0 hr0 p (hn ▸ hp)

/-- a computable test for `TempFree` -/
theorem tempFree_of_all (S : Schema) (h : S.rules.all (fun r => (patsOf r.name).all (fun p => !isTempPat p)) = true) :
    TempFree S := by
  intro r hr p hp
  have h1 := List.all_eq_true.mp h r hr
  have h2 := List.all_eq_true.mp h1 p (by unfold patsOf; rw [List.mem_filterMap]; exact ⟨_, hp, rfl⟩)
  simpa using h2

/-- in a schema without temporary patterns no key of an expansion has a temporary position -/
theorem keys_noTemp {S : Schema} (hS : TempFree S) {q : String} {f : Flat} (h : Expands S q f) :
    ∀ a ∈ f.keys, a.isTemp = false :=
  skeysFrom_noTemp f.ncons f.items [] (expands_noTemp hS h)

/-! ### the shape is a function of the key -/

def SKey.shape : SKey → Option Bytes
  | .lit v => some v
  | _ => none

theorem skeysFrom_shape (ncons : List (String × List (Opt String))) : ∀ (items : List SItem) (seen : List String),
    (skeysFrom ncons items seen).map SKey.shape = items.map SItem.shape := by
  intro items
  induction items with
  | nil => intro seen; rfl
  | cons it r ih =>
    intro seen
    cases it <;> simp only [skeysFrom, List.map_cons, ih] <;> rfl

theorem keys_shape (f : Flat) : f.keys.map SKey.shape = f.shape := skeysFrom_shape f.ncons f.items []

/-- the key criterion is finer than the shape criterion -/
theorem srcKeySelfSigning_shape {S : Schema} (h : SrcKeySelfSigning S) : ShapeSelfSigning S := by
  obtain ⟨P, ⟨s0, hs0⟩, hP⟩ := h
  refine ⟨fun sh => ∃ k, P k ∧ k.map SKey.shape = sh, ⟨_, s0, hs0, rfl⟩, ?_⟩
  rintro sh ⟨k, hk, rfl⟩
  obtain ⟨p, hp, r, hr, f, hf, hfp, q, hq, g, hg, hgk⟩ := hP k hk
  exact ⟨p.map SKey.shape, ⟨p, hp, rfl⟩, r, hr, f, hf, by rw [← keys_shape, hfp], q, hq, g, hg, by rw [← keys_shape, hgk]⟩

/-! ### cycles -/

/-- **a signing cycle among the key paths of the chains is a signing cycle among the keys of the name patterns of the text** -/
theorem keySelfSigning_src (S : Schema) (hwf : S.WF) (chains : List Chain) (F : List String)
    (h : chainsOf S = .ok (chains, F)) (hcy : KeySelfSigning chains) : SrcKeySelfSigning ⟨renameTemps S.rules 1⟩ := by
  obtain ⟨_, hsound, _⟩ := chainsOf_sem S chains F h
  have hok := chainsOf_ok S hwf chains F h
  have hpat := chainsOf_patOK S chains F h
  obtain ⟨P, ⟨s0, hs0⟩, hP⟩ := hcy
  refine ⟨fun k' => ∃ k, P k ∧ ∃ c ∈ chains, keyPath c = k ∧ ∃ f, Impl F c f ∧ f.keys = k', ?_, ?_⟩
  · obtain ⟨_, _, _, _, ck, hck, _, hks, _⟩ := hP s0 hs0
    obtain ⟨_, _, _, _, _, f, _, himpl⟩ := hsound ck hck
    exact ⟨f.keys, s0, hs0, ck, hck, hks, f, himpl, rfl⟩
  · rintro s' ⟨k, hk, c, hc, hck, f, himpl, rfl⟩
    obtain ⟨p, hp, cp, hcp, ck, hckm, hkcp, hkck, hsig⟩ := hP k hk
    obtain ⟨hclp, r, hr, _, hsg, fp, hfp, himplp⟩ := hsound cp hcp
    obtain ⟨hclk, r', hr', hr'id, _, g, hg, himplk⟩ := hsound ck hckm
    obtain ⟨hclc, _⟩ := hsound c hc
    have hgk : g.keys = f.keys :=
      keys_of_keyPath himplk himpl (hok ck hckm) (hok c hc) (hpat ck hckm) (hpat c hc) hclk hclc (by rw [hkck, hck])
    refine ⟨fp.keys, ⟨p, hp, cp, hcp, hkcp, fp, himplp, rfl⟩, r, hr, fp, hfp, rfl, ck.id, ?_, g,
      expands_iff.mpr ⟨r', hr', hr'id, hg⟩, hgk⟩
    rw [hsg, mem_isort] at hsig
    exact hsig

/-- **… and conversely when the schema writes no temporary pattern** -/
theorem src_keySelfSigning_tempFree (S : Schema) (hwf : S.WF) (htf : TempFree S) (chains : List Chain) (F : List String)
    (h : chainsOf S = .ok (chains, F)) (hcy : SrcKeySelfSigning ⟨renameTemps S.rules 1⟩) : KeySelfSigning chains := by
  obtain ⟨_, hsound, _⟩ := chainsOf_sem S chains F h
  have hcomp := chainsOf_complete_def S chains F h
  have hok := chainsOf_ok S hwf chains F h
  have hpat := chainsOf_patOK S chains F h
  have htf' := tempFree_renameTemps htf
  obtain ⟨P, ⟨s0, hs0⟩, hP⟩ := hcy
  -- a chain for an expansion of a rule
  have hrule : ∀ q g, Expands ⟨renameTemps S.rules 1⟩ q g → ∃ c ∈ chains, c.id = q ∧ Impl F c g := by
    intro q g hg
    obtain ⟨r, hr, hrq, hdef⟩ := expands_iff.mp hg
    obtain ⟨c, hc, hid, _, himpl⟩ := hcomp r hr g hdef
    exact ⟨c, hc, by rw [hid, hrq], himpl⟩
  refine ⟨fun k => ∃ k', P k' ∧ ∃ c ∈ chains, keyPath c = k ∧ ∃ f q, Expands ⟨renameTemps S.rules 1⟩ q f ∧ Impl F c f ∧ f.keys = k',
    ?_, ?_⟩
  · obtain ⟨_, _, _, _, _, _, _, q, _, g, hg, hgk⟩ := hP s0 hs0
    obtain ⟨c, hc, _, himpl⟩ := hrule q g hg
    exact ⟨keyPath c, s0, hs0, c, hc, rfl, g, q, hg, himpl, hgk⟩
  · rintro k ⟨k', hk', c, hc, rfl, f, qf, hqf, himpl, rfl⟩
    obtain ⟨p', hp', r, hr, fp, hfp, hfpk, q, hq, g, hg, hgk⟩ := hP f.keys hk'
    obtain ⟨cp, hcp, _, hsgp, himplp⟩ := hcomp r hr fp hfp
    obtain ⟨ck, hck, hckid, himplk⟩ := hrule q g hg
    have hkk : keyPath ck = keyPath c :=
      keyPath_of_keys himplk himpl (hok ck hck) (hok c hc) (hpat ck hck) (hpat c hc) (hsound ck hck).1 (hsound c hc).1
        (keys_noTemp htf' hg) hgk
    refine ⟨keyPath cp, ⟨p', hp', cp, hcp, rfl, fp, r.id, expands_iff.mpr ⟨r, hr, rfl, hfp⟩, himplp, hfpk⟩,
      cp, hcp, ck, hck, rfl, hkk, ?_⟩
    rw [hsgp, mem_isort, hckid]
    exact hq

end Ndn.Lvs
