import NdnProofs.Lemmas.Lvs.CompileSort
import NdnProofs.Lemmas.PyDict
/-!
  Lemmas about pass 2 of the compiler model (`genPatternNumbers`): which identifiers end up in
  `named_pats` / `temp_pats`, every error is a `SemanticError`, and a constraint that names an unknown
  pattern (or a temporary one on its right-hand side) is refused.
-/
namespace Ndn.Lvs

/-! ### `mapE` -/

theorem mapE_error {α β ε : Type} {f : α → Except ε β} {l : List α} {e : ε} (h : mapE f l = .error e) :
    ∃ x ∈ l, f x = .error e := by
  induction l with
  | nil => simp [mapE] at h
  | cons a r ih =>
    unfold mapE at h
    split at h
    · rename_i e' he
      injection h with h; subst h
      exact ⟨a, List.mem_cons_self, he⟩
    · split at h
      · rename_i e' he
        injection h with h; subst h
        obtain ⟨x, hx, hfx⟩ := ih he
        exact ⟨x, List.mem_cons_of_mem _ hx, hfx⟩
      · simp at h

theorem mapE_ok_mem {α β ε : Type} {f : α → Except ε β} {l : List α} {bs : List β} (h : mapE f l = .ok bs) :
    ∀ x ∈ l, ∃ b ∈ bs, f x = .ok b := by
  induction l generalizing bs with
  | nil => simp
  | cons a r ih =>
    unfold mapE at h
    split at h
    · simp at h
    · rename_i b hb
      split at h
      · simp at h
      · rename_i bs' hbs
        injection h with h; subst h
        intro x hx
        rcases List.mem_cons.mp hx with hx | hx
        · subst hx; exact ⟨b, List.mem_cons_self, hb⟩
        · obtain ⟨b', hb', hfx⟩ := ih hbs x hx
          exact ⟨b', List.mem_cons_of_mem _ hb', hfx⟩

theorem mapE_error_of_mem {α β ε : Type} {f : α → Except ε β} {l : List α} {e0 : ε}
    (hall : ∀ x ∈ l, ∀ e, f x = .error e → e = e0) (hex : ∃ x ∈ l, ∃ e, f x = .error e) :
    mapE f l = .error e0 := by
  cases h : mapE f l with
  | error e =>
    obtain ⟨x, hx, hfx⟩ := mapE_error h
    rw [hall x hx e hfx]
  | ok bs =>
    obtain ⟨x, hx, e, hfx⟩ := hex
    obtain ⟨b, _, hb⟩ := mapE_ok_mem h x hx
    rw [hfx] at hb
    simp at hb

/-! ### the first loop: `named_pats`, `temp_pats` -/

theorem numberName_spec (comps : List (Comp String)) : ∀ (st : NumSt) (tp : PyDict String (List Int)),
    (∀ p ∈ (numberName comps st tp).2.1.named, p ∈ st.named ∨ (p ∈ patsOf comps ∧ isTempPat p = false)) ∧
    (∀ p l, PyDict.get? (numberName comps st tp).2.2 p = some l →
      (∃ l0, PyDict.get? tp p = some l0) ∨ p ∈ patsOf comps) := by
  induction comps with
  | nil =>
    intro st tp
    simp only [numberName]
    exact ⟨fun p hp => Or.inl hp, fun p l h => Or.inl ⟨l, h⟩⟩
  | cons c r ih =>
    intro st tp
    cases c with
    | lit v =>
      have := ih st tp
      simp only [numberName, patsOf, List.filterMap_cons] at this ⊢
      exact this
    | ref i =>
      have := ih st tp
      simp only [numberName, patsOf, List.filterMap_cons] at this ⊢
      exact this
    | pat p =>
      simp only [numberName, patsOf, List.filterMap_cons]
      split
      · rename_i ht
        have := ih { st with nextTemp := st.nextTemp - 1 }
          (PyDict.set tp p ((match PyDict.get? tp p with | some l => l | none => []) ++ [st.nextTemp]))
        simp only [patsOf] at this
        refine ⟨fun q hq => ?_, fun q l hq => ?_⟩
        · rcases this.1 q hq with h | h
          · exact Or.inl h
          · exact Or.inr ⟨List.mem_cons_of_mem _ h.1, h.2⟩
        · rcases this.2 q l hq with ⟨l0, h⟩ | h
          · rw [PyDict.get?_set] at h
            split at h
            · rename_i he; subst he; exact Or.inr List.mem_cons_self
            · exact Or.inl ⟨l0, h⟩
          · exact Or.inr (List.mem_cons_of_mem _ h)
      · rename_i ht
        split
        · have := ih st tp
          simp only [patsOf] at this
          refine ⟨fun q hq => ?_, fun q l hq => ?_⟩
          · rcases this.1 q hq with h | h
            · exact Or.inl h
            · exact Or.inr ⟨List.mem_cons_of_mem _ h.1, h.2⟩
          · rcases this.2 q l hq with h | h
            · exact Or.inl h
            · exact Or.inr (List.mem_cons_of_mem _ h)
        · have := ih { st with named := st.named ++ [p] } tp
          simp only [patsOf] at this
          refine ⟨fun q hq => ?_, fun q l hq => ?_⟩
          · rcases this.1 q hq with h | h
            · rcases List.mem_append.mp h with h | h
              · exact Or.inl h
              · simp at h; subst h
                exact Or.inr ⟨List.mem_cons_self, by simpa using ht⟩
            · exact Or.inr ⟨List.mem_cons_of_mem _ h.1, h.2⟩
          · rcases this.2 q l hq with h | h
            · exact Or.inl h
            · exact Or.inr (List.mem_cons_of_mem _ h)

/-- a named pattern of the source: written in the name of some rule -/
def NamedIn (rules : List SRule) (p : String) : Prop := ∃ r ∈ rules, p ∈ patsOf r.name

theorem numberNames_spec (rules : List SRule) : ∀ (st : NumSt),
    (∀ p ∈ (numberNames rules st).2.named, p ∈ st.named ∨ NamedIn rules p) ∧
    (∀ x ∈ (numberNames rules st).1, x.1 ∈ rules ∧
      ∀ p l, PyDict.get? x.2.2 p = some l → p ∈ patsOf x.1.name) := by
  induction rules with
  | nil =>
    intro st
    simp only [numberNames]
    exact ⟨fun p hp => Or.inl hp, fun x hx => by simp at hx⟩
  | cons r rs ih =>
    intro st
    have h1 := numberName_spec r.name st []
    have h2 := ih (numberName r.name st []).2.1
    simp only [numberNames]
    refine ⟨fun p hp => ?_, fun x hx => ?_⟩
    · rcases h2.1 p hp with h | ⟨r', hr', h⟩
      · rcases h1.1 p h with h | h
        · exact Or.inl h
        · exact Or.inr ⟨r, List.mem_cons_self, h.1⟩
      · exact Or.inr ⟨r', List.mem_cons_of_mem _ hr', h⟩
    · rcases List.mem_cons.mp hx with hx | hx
      · subst hx
        refine ⟨List.mem_cons_self, fun p l hp => ?_⟩
        rcases h1.2 p l hp with ⟨l0, h⟩ | h
        · simp [PyDict.get?] at h
        · exact h
      · exact ⟨List.mem_cons_of_mem _ (h2.2 x hx).1, (h2.2 x hx).2⟩

/-- the first loop keeps the rules, in order -/
theorem numberNames_fst (rules : List SRule) : ∀ (st : NumSt), (numberNames rules st).1.map (·.1) = rules := by
  induction rules with
  | nil => intro st; simp [numberNames]
  | cons r rs ih => intro st; simp [numberNames, ih]

/-! ### the second loop: every error is `SemanticError` -/

theorem numRhs_error {named : List String} {p : String} {e : CErr} (h : numRhs named p = .error e) : e = .semantic := by
  unfold numRhs at h
  split at h
  · injection h with h; exact h.symm
  · split at h
    · simp at h
    · injection h with h; exact h.symm

theorem numArg_error {named : List String} {a : Arg String} {e : CErr} (h : numArg named a = .error e) : e = .semantic := by
  cases a with
  | lit v => simp [numArg] at h
  | pat p =>
    simp only [numArg] at h
    split at h
    · simp at h
    · rename_i e' he; injection h with h; subst h; exact numRhs_error he

theorem numOpt_error {named : List String} {o : Opt String} {e : CErr} (h : numOpt named o = .error e) : e = .semantic := by
  cases o with
  | lit v => simp [numOpt] at h
  | pat p =>
    simp only [numOpt] at h
    split at h
    · simp at h
    · rename_i e' he; injection h with h; subst h; exact numRhs_error he
  | fn f args =>
    simp only [numOpt] at h
    split at h
    · simp at h
    · rename_i e' he
      injection h with h; subst h
      obtain ⟨a, _, ha⟩ := mapE_error he
      exact numArg_error ha

theorem numLhs_error {named : List String} {tp : PyDict String (List Int)} {p : String} {e : CErr}
    (h : numLhs named tp p = .error e) : e = .semantic := by
  unfold numLhs at h
  split at h
  · split at h
    · simp at h
    · injection h with h; exact h.symm
  · split at h
    · simp at h
    · injection h with h; exact h.symm

theorem numTerm_error {named : List String} {tp : PyDict String (List Int)} {t : Term String String} {e : CErr}
    (h : numTerm named tp t = .error e) : e = .semantic := by
  unfold numTerm at h
  split at h
  · rename_i e' he; injection h with h; subst h; exact numLhs_error he
  · split at h
    · rename_i e' he
      injection h with h; subst h
      obtain ⟨o, _, ho⟩ := mapE_error he
      exact numOpt_error ho
    · simp at h

theorem numRule_error {named : List String} {x : SRule × List (Comp Int) × PyDict String (List Int)} {e : CErr}
    (h : numRule named x = .error e) : e = .semantic := by
  unfold numRule at h
  split at h
  · rename_i e' he
    injection h with h; subst h
    obtain ⟨cs, _, hcs⟩ := mapE_error he
    obtain ⟨t, _, ht⟩ := mapE_error hcs
    exact numTerm_error ht
  · simp at h

theorem genPatternNumbers_error {rules : List SRule} {e : CErr} (h : genPatternNumbers rules = .error e) :
    e = .semantic := by
  unfold genPatternNumbers at h
  split at h
  rename_i xs st hx
  split at h
  · rename_i e' he
    injection h with h; subst h
    obtain ⟨x, _, hx⟩ := mapE_error he
    exact numRule_error hx
  · simp at h

/-! ### static errors of a constraint -/

/-- what makes `_gen_pattern_numbers` refuse a constraint term of rule `r` in a schema with rules `rules`:
    the constrained pattern is a named pattern written in no name pattern of the schema, or a temporary
    pattern not written in the name pattern of `r` itself; or a pattern on the right-hand side (an option or
    a user-function argument) is temporary or is written in no name pattern of the schema -/
def BadTerm (rules : List SRule) (r : SRule) (t : Term String String) : Prop :=
  (isTempPat t.pat = false ∧ ¬ NamedIn rules t.pat) ∨
  (isTempPat t.pat = true ∧ t.pat ∉ patsOf r.name) ∨
  (∃ o ∈ t.opts, ∃ p ∈ o.pats, isTempPat p = true ∨ ¬ NamedIn rules p)

theorem tagOf_none_of_not_mem {named : List String} {p : String} (h : p ∉ named) : tagOf named p = none := by
  simp [tagOf, h]

theorem numRhs_bad {named : List String} {p : String} (h : isTempPat p = true ∨ p ∉ named) :
    numRhs named p = .error .semantic := by
  unfold numRhs
  split
  · rfl
  · rename_i ht
    rcases h with h | h
    · exact absurd h ht
    · rw [tagOf_none_of_not_mem h]

theorem numOpt_bad {named : List String} {o : Opt String} (p : String) (hp : p ∈ o.pats)
    (h : isTempPat p = true ∨ p ∉ named) : numOpt named o = .error .semantic := by
  cases o with
  | lit v => simp [Opt.pats] at hp
  | pat q =>
    simp [Opt.pats] at hp; subst hp
    simp [numOpt, numRhs_bad h]
  | fn f args =>
    simp only [Opt.pats, List.mem_filterMap] at hp
    obtain ⟨a, ha, hap⟩ := hp
    have : mapE (numArg named) args = .error .semantic := by
      apply mapE_error_of_mem (fun x _ e he => numArg_error he)
      refine ⟨a, ha, .semantic, ?_⟩
      cases a with
      | lit v => simp at hap
      | pat q => simp at hap; subst hap; simp [numArg, numRhs_bad h]
    simp [numOpt, this]

theorem numTerm_bad {named : List String} {tp : PyDict String (List Int)} {t : Term String String}
    (h : (isTempPat t.pat = false ∧ t.pat ∉ named) ∨
         (isTempPat t.pat = true ∧ PyDict.get? tp t.pat = none) ∨
         (∃ o ∈ t.opts, ∃ p ∈ o.pats, isTempPat p = true ∨ p ∉ named)) :
    numTerm named tp t = .error .semantic := by
  cases hr : numTerm named tp t with
  | error e => rw [numTerm_error hr]
  | ok nt =>
    exfalso
    unfold numTerm at hr
    split at hr
    · simp at hr
    · rename_i ids hl
      split at hr
      · simp at hr
      · rename_i os hos
        rcases h with ⟨h1, h2⟩ | ⟨h1, h2⟩ | ⟨o, ho, p, hp, h⟩
        · simp [numLhs, h1, tagOf_none_of_not_mem h2] at hl
        · simp [numLhs, h1, h2] at hl
        · have := mapE_error_of_mem (f := numOpt named) (l := t.opts) (e0 := .semantic)
            (fun x _ e he => numOpt_error he) ⟨o, ho, .semantic, numOpt_bad p hp h⟩
          rw [this] at hos
          simp at hos

/-- **a bad constraint term is refused.**  (`rules` are the rules pass 2 is run on.) -/
theorem genPatternNumbers_bad (rules : List SRule) (r : SRule) (hr : r ∈ rules) (cs : List (Term String String))
    (hcs : cs ∈ r.cons) (t : Term String String) (ht : t ∈ cs) (hbad : BadTerm rules r t) :
    genPatternNumbers rules = .error .semantic := by
  cases hg : genPatternNumbers rules with
  | error e => rw [genPatternNumbers_error hg]
  | ok res =>
    exfalso
    unfold genPatternNumbers at hg
    have hspec := numberNames_spec rules { named := [], nextTemp := -1 }
    have hfst := numberNames_fst rules { named := [], nextTemp := -1 }
    split at hg
    rename_i xs st hx
    rw [hx] at hspec hfst
    simp only [] at hspec hfst
    split at hg
    · simp at hg
    · rename_i nrules hn
      -- the entry of `r`
      have : r ∈ xs.map (·.1) := hfst ▸ hr
      obtain ⟨x, hxm, hx1⟩ := List.mem_map.mp this
      have hnamed : ∀ p, ¬ NamedIn rules p → p ∉ st.named := by
        intro p hp hmem
        rcases hspec.1 p hmem with h | h
        · simp at h
        · exact hp h
      have herr : numRule st.named x = .error .semantic := by
        unfold numRule
        have : mapE (mapE (numTerm st.named x.2.2)) x.1.cons = .error .semantic := by
          apply mapE_error_of_mem
          · intro y _ e he
            obtain ⟨t', _, ht'⟩ := mapE_error he
            exact numTerm_error ht'
          · refine ⟨cs, hx1 ▸ hcs, .semantic, ?_⟩
            apply mapE_error_of_mem (fun y _ e he => numTerm_error he)
            refine ⟨t, ht, .semantic, numTerm_bad ?_⟩
            rcases hbad with ⟨h1, h2⟩ | ⟨h1, h2⟩ | ⟨o, ho, p, hp, h⟩
            · exact Or.inl ⟨h1, hnamed _ h2⟩
            · refine Or.inr (Or.inl ⟨h1, ?_⟩)
              cases hget : PyDict.get? x.2.2 t.pat with
              | none => rfl
              | some l => exact absurd (hx1 ▸ (hspec.2 x hxm).2 _ _ hget) h2
            · refine Or.inr (Or.inr ⟨o, ho, p, hp, ?_⟩)
              rcases h with h | h
              · exact Or.inl h
              · exact Or.inr (hnamed _ h)
        rw [this]
      have := mapE_error_of_mem (f := numRule st.named) (l := xs) (e0 := .semantic)
        (fun y _ e he => numRule_error he) ⟨x, hxm, .semantic, herr⟩
      rw [this] at hn
      simp at hn

end Ndn.Lvs
