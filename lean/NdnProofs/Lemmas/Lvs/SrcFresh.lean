import NdnProofs.Lemmas.Lvs.SrcRun
/-!
  Building blocks for pass 3 (`_replicate_rules`, `_fresh_temp_tags`):

  * the constraint terms of a numbered rule, filtered by the number of one of the rule's own temporary patterns /
    collected by named pattern, are the numbered constraints of the source term (`own_temp_filter`, `own_named_resCons`);
  * appending constraint terms that mention none of the temporary numbers of a name does not change what stands at its
    positions (`resItems_append_right/left`);
  * `_fresh_temp_tags` is an injective renaming of the temporary numbers of the referenced chain: it keeps what stands at
    every position and the constraints on named patterns (`resItems_rename`, `resCons_rename`), and the renamed numbers
    avoid the numbers in use (`freshName_spec`).
-/
namespace Ndn.Lvs

/-- the negative numbers mentioned on the left of constraint terms -/
def termNegs (cons : List NTerm) : List Int := cons.flatMap fun c => c.pat.filter (· < 0)

theorem mem_termNegs {cons : List NTerm} {t : Int} : t ∈ termNegs cons ↔ ∃ c ∈ cons, t ∈ c.pat ∧ t < 0 := by
  unfold termNegs
  simp only [List.mem_flatMap, List.mem_filter, decide_eq_true_eq]

theorem termNegs_append (a b : List NTerm) : termNegs (a ++ b) = termNegs a ++ termNegs b := by
  unfold termNegs; simp

theorem mem_negTags {l : List Atom} {t : Int} : t ∈ negTags l ↔ Atom.pat t ∈ l ∧ t < 0 := by
  unfold negTags atomTags
  simp only [List.mem_filter, List.mem_filterMap, decide_eq_true_eq]
  constructor
  · rintro ⟨⟨a, ha, h⟩, h2⟩
    cases a <;> simp at h
    subst h; exact ⟨ha, h2⟩
  · rintro ⟨h1, h2⟩
    exact ⟨⟨_, h1, rfl⟩, h2⟩

theorem negTags_append (a b : List Atom) : negTags (a ++ b) = negTags a ++ negTags b := by
  unfold negTags atomTags; simp

/-! ### the constraint terms of one rule -/

theorem numLhs_temp {F : List String} {tp : PyDict String (List Int)} {p : String} {ids : List Int}
    (h : numLhs F tp p = .ok ids) (ht : isTempPat p = true) : PyDict.get? tp p = some ids := by
  unfold numLhs at h
  simp only [ht, if_true] at h
  split at h
  · injection h with h; subst h; assumption
  · simp at h

theorem numLhs_named {F : List String} {tp : PyDict String (List Int)} {p : String} {ids : List Int}
    (h : numLhs F tp p = .ok ids) (ht : isTempPat p = false) : p ∈ F ∧ ids = [tagIn F p] := by
  unfold numLhs at h
  simp only [ht, Bool.false_eq_true, if_false] at h
  split at h
  · rename_i k hk
    injection h with h; subst h
    unfold tagOf at hk
    split at hk
    · rename_i hc
      injection hk with hk; subst hk
      exact ⟨by simpa using hc, rfl⟩
    · simp at hk
  · simp at h

theorem numTerm_ok {F : List String} {tp : PyDict String (List Int)} {t : Term String String} {nt : NTerm}
    (h : numTerm F tp t = .ok nt) : numLhs F tp t.pat = .ok nt.pat ∧ mapE (numOpt F) t.opts = .ok nt.opts := by
  unfold numTerm at h
  split at h
  · simp at h
  · rename_i ids hids
    split at h
    · simp at h
    · rename_i os hos
      injection h with h; subst h
      exact ⟨hids, hos⟩

/-- the terms that mention the number `t` of an occurrence of the temporary pattern `p` are the terms on `p` -/
theorem own_temp_filter {F : List String} {tp : PyDict String (List Int)} {p : String} {t : Int}
    (hp : isTempPat p = true) (ht : t < 0) (hfact : ∀ p' l, PyDict.get? tp p' = some l → (t ∈ l ↔ p' = p)) :
    ∀ {cs : List (Term String String)} {ncs : List NTerm}, All2 (fun a b => numTerm F tp a = .ok b) cs ncs →
    All2 (fun os nos => mapE (numOpt F) os = .ok nos) (tempCons cs p)
      ((ncs.filter (fun c => c.pat.contains t)).map (·.opts)) := by
  intro cs ncs h
  unfold tempCons
  induction h with
  | nil => exact .nil
  | @cons a b as bs hr _ ih =>
    obtain ⟨hl, ho⟩ := numTerm_ok hr
    have hiff : (b.pat.contains t) = (a.pat == p) := by
      cases hat : isTempPat a.pat with
      | true =>
        have := hfact a.pat b.pat (numLhs_temp hl hat)
        by_cases hap : a.pat = p
        · have h1 : t ∈ b.pat := this.mpr hap
          simp [h1, hap]
        · have h1 : t ∉ b.pat := fun hm => hap (this.mp hm)
          simp [h1, hap]
      | false =>
        obtain ⟨_, hids⟩ := numLhs_named hl hat
        have hap : ¬ a.pat = p := fun he => by rw [he, hp] at hat; simp at hat
        have hpos := tagIn_pos F a.pat
        have h1 : t ∉ b.pat := by rw [hids]; simp only [List.mem_singleton]; omega
        simp [h1, hap]
    simp only [List.filter_cons, hiff]
    by_cases hap : (a.pat == p) = true
    · simp only [hap, if_true, List.map_cons]
      exact .cons ho ih
    · simp only [hap]
      exact ih

/-- the terms on named patterns, by pattern number -/
theorem own_named_resCons {F : List String} {tp : PyDict String (List Int)}
    (hneg : ∀ p l, PyDict.get? tp p = some l → ∀ t ∈ l, t < 0) :
    ∀ {cs : List (Term String String)} {ncs : List NTerm}, All2 (fun a b => numTerm F tp a = .ok b) cs ncs →
    All2 (NconsNum F) (namedCons cs) (resCons ncs) := by
  intro cs ncs h
  unfold namedCons resCons
  induction h with
  | nil => exact .nil
  | @cons a b as bs hr _ ih =>
    obtain ⟨hl, ho⟩ := numTerm_ok hr
    simp only [List.filter_cons, List.flatMap_cons]
    cases hat : isTempPat a.pat with
    | true =>
      have hall := hneg a.pat b.pat (numLhs_temp hl hat)
      have : b.pat.filter (fun k => decide (0 ≤ k)) = [] := by
        rw [List.filter_eq_nil_iff]
        intro k hk
        have := hall k hk
        simp only [decide_eq_true_eq]; omega
      simp only [Bool.not_true, Bool.false_eq_true, if_false, this, List.map_nil, List.nil_append]
      exact ih
    | false =>
      obtain ⟨hm, hids⟩ := numLhs_named hl hat
      have hpos := tagIn_pos F a.pat
      have : b.pat.filter (fun k => decide (0 ≤ k)) = [tagIn F a.pat] := by
        rw [hids]; simp only [List.filter_cons, List.filter_nil]
        have : decide (0 ≤ tagIn F a.pat) = true := by simp only [decide_eq_true_eq]; omega
        simp [this]
      simp only [Bool.not_false, if_true, this, List.map_cons, List.map_nil, List.cons_append, List.nil_append]
      exact .cons ⟨hat, hm, rfl, ho⟩ ih

/-- the temporary numbers the terms mention are those `temp_pats` records -/
theorem own_termNegs {F : List String} {tp : PyDict String (List Int)} :
    ∀ {cs : List (Term String String)} {ncs : List NTerm}, All2 (fun a b => numTerm F tp a = .ok b) cs ncs →
    ∀ t ∈ termNegs ncs, ∃ p l, PyDict.get? tp p = some l ∧ t ∈ l := by
  intro cs ncs h t ht
  obtain ⟨c, hc, htc, hneg⟩ := mem_termNegs.mp ht
  clear ht
  induction h with
  | nil => simp at hc
  | @cons a b as bs hr _ ih =>
    rcases List.mem_cons.mp hc with rfl | hc
    · obtain ⟨hl, _⟩ := numTerm_ok hr
      cases hat : isTempPat a.pat with
      | true => exact ⟨a.pat, c.pat, numLhs_temp hl hat, htc⟩
      | false =>
        obtain ⟨_, hids⟩ := numLhs_named hl hat
        rw [hids] at htc
        simp only [List.mem_singleton] at htc
        have := tagIn_pos F a.pat
        omega
    · exact ih hc

/-! ### what stands at the positions of a name does not depend on terms that do not mention its numbers -/

theorem filter_contains_nil {extra : List NTerm} {t : Int} (ht : t < 0) (h : t ∉ termNegs extra) :
    extra.filter (fun c => c.pat.contains t) = [] := by
  rw [List.filter_eq_nil_iff]
  intro c hc hcon
  exact h (mem_termNegs.mpr ⟨c, hc, by simpa using hcon, ht⟩)

theorem resItem_append_right (cons extra : List NTerm) (a : Atom)
    (h : ∀ t, a = .pat t → t < 0 → t ∉ termNegs extra) : resItem (cons ++ extra) a = resItem cons a := by
  cases a with
  | lit v => rfl
  | pat t =>
    unfold resItem
    by_cases ht : t < 0
    · simp only [ht, if_true, List.filter_append, filter_contains_nil ht (h t rfl ht), List.append_nil]
    · simp only [ht, if_false]

theorem resItem_append_left (extra cons : List NTerm) (a : Atom)
    (h : ∀ t, a = .pat t → t < 0 → t ∉ termNegs extra) : resItem (extra ++ cons) a = resItem cons a := by
  cases a with
  | lit v => rfl
  | pat t =>
    unfold resItem
    by_cases ht : t < 0
    · simp only [ht, if_true, List.filter_append, filter_contains_nil ht (h t rfl ht), List.nil_append]
    · simp only [ht, if_false]

theorem resItems_append_right (cons extra : List NTerm) (name : List Atom)
    (h : ∀ t ∈ negTags name, t ∉ termNegs extra) : name.map (resItem (cons ++ extra)) = name.map (resItem cons) := by
  apply List.map_congr_left
  intro a ha
  exact resItem_append_right cons extra a fun t he ht => h t (mem_negTags.mpr ⟨he ▸ ha, ht⟩)

theorem resItems_append_left (extra cons : List NTerm) (name : List Atom)
    (h : ∀ t ∈ negTags name, t ∉ termNegs extra) : name.map (resItem (extra ++ cons)) = name.map (resItem cons) := by
  apply List.map_congr_left
  intro a ha
  exact resItem_append_left extra cons a fun t he ht => h t (mem_negTags.mpr ⟨he ▸ ha, ht⟩)

theorem resCons_append (a b : List NTerm) : resCons (a ++ b) = resCons a ++ resCons b := by
  unfold resCons; simp

/-! ### renaming temporary numbers -/

def renAtom (ρ : Int → Int) : Atom → Atom
  | .lit v => .lit v
  | .pat t => .pat (ρ t)

def renTerm (ρ : Int → Int) (c : NTerm) : NTerm := { c with pat := c.pat.map ρ }

/-- `ρ` renames the temporary numbers `T` injectively into temporary numbers and leaves named numbers alone -/
structure RenOK (ρ : Int → Int) (T : List Int) : Prop where
  nonneg : ∀ t, 0 ≤ t → ρ t = t
  neg : ∀ t ∈ T, ρ t < 0
  inj : ∀ t ∈ T, ∀ u ∈ T, ρ t = ρ u → t = u

theorem ren_contains {ρ : Int → Int} {T : List Int} (h : RenOK ρ T) {pat : List Int} (hpat : ∀ u ∈ pat, u < 0 → u ∈ T)
    {t : Int} (ht : t ∈ T) : (pat.map ρ).contains (ρ t) = pat.contains t := by
  have : ρ t ∈ pat.map ρ ↔ t ∈ pat := by
    rw [List.mem_map]
    constructor
    · rintro ⟨u, hu, he⟩
      by_cases hu0 : u < 0
      · exact h.inj u (hpat u hu hu0) t ht he ▸ hu
      · have := h.nonneg u (by omega)
        have := h.neg t ht
        omega
    · intro hm; exact ⟨t, hm, rfl⟩
  by_cases hm : t ∈ pat
  · simp [hm, this.mpr hm]
  · have : ρ t ∉ pat.map ρ := fun hh => hm (this.mp hh)
    simp [hm, this]

theorem resItems_rename {ρ : Int → Int} {name : List Atom} {cons : List NTerm} (h : RenOK ρ (negTags name))
    (hclosed : ∀ t ∈ termNegs cons, t ∈ negTags name) :
    (name.map (renAtom ρ)).map (resItem (cons.map (renTerm ρ))) = name.map (resItem cons) := by
  rw [List.map_map]
  apply List.map_congr_left
  intro a ha
  cases a with
  | lit v => rfl
  | pat t =>
    simp only [Function.comp, renAtom, resItem]
    by_cases ht : t < 0
    · have htT : t ∈ negTags name := mem_negTags.mpr ⟨ha, ht⟩
      simp only [h.neg t htT, ht, if_true, List.filter_map, List.map_map]
      have hf : List.filter ((fun c => c.pat.contains (ρ t)) ∘ renTerm ρ) cons =
          List.filter (fun c => c.pat.contains t) cons := by
        apply List.filter_congr
        intro c hc
        simp only [Function.comp, renTerm]
        exact ren_contains h (fun u hu hu0 => hclosed u (mem_termNegs.mpr ⟨c, hc, hu, hu0⟩)) htT
      rw [hf]
      rfl
    · have := h.nonneg t (by omega)
      simp only [this, ht, if_false]

theorem filter_nonneg_rename {ρ : Int → Int} {T : List Int} (h : RenOK ρ T) :
    ∀ {pat : List Int}, (∀ u ∈ pat, u < 0 → u ∈ T) →
    (pat.map ρ).filter (fun k => decide (0 ≤ k)) = pat.filter (fun k => decide (0 ≤ k)) := by
  intro pat
  induction pat with
  | nil => intro _; rfl
  | cons u r ih =>
    intro hpat
    have ihr := ih (fun v hv => hpat v (List.mem_cons_of_mem _ hv))
    simp only [List.map_cons, List.filter_cons, ihr]
    by_cases hu : 0 ≤ u
    · simp [h.nonneg u hu, hu]
    · have := h.neg u (hpat u List.mem_cons_self (by omega))
      have h1 : ¬ 0 ≤ ρ u := by omega
      simp [h1, hu]

theorem resCons_rename {ρ : Int → Int} {T : List Int} {cons : List NTerm} (h : RenOK ρ T)
    (hclosed : ∀ t ∈ termNegs cons, t ∈ T) : resCons (cons.map (renTerm ρ)) = resCons cons := by
  unfold resCons
  induction cons with
  | nil => rfl
  | cons c r ih =>
    have h1 : ∀ u ∈ c.pat, u < 0 → u ∈ T := fun u hu hu0 =>
      hclosed u (mem_termNegs.mpr ⟨c, List.mem_cons_self, hu, hu0⟩)
    have h2 : ∀ t ∈ termNegs r, t ∈ T := fun t ht => by
      obtain ⟨c', hc', hx⟩ := mem_termNegs.mp ht
      exact hclosed t (mem_termNegs.mpr ⟨c', List.mem_cons_of_mem _ hc', hx⟩)
    simp only [List.map_cons, List.flatMap_cons, ih h2, renTerm, filter_nonneg_rename h h1]

theorem negTags_rename {ρ : Int → Int} : ∀ {name : List Atom}, RenOK ρ (negTags name) →
    negTags (name.map (renAtom ρ)) = (negTags name).map ρ := by
  intro name
  induction name with
  | nil => intro _; rfl
  | cons a r ih =>
    intro h
    cases a with
    | lit v =>
      simp only [List.map_cons, renAtom, negTags_cons_lit] at h ⊢
      exact ih h
    | pat t =>
      simp only [List.map_cons, renAtom, negTags_cons_pat] at h ⊢
      by_cases ht : t < 0
      · simp only [ht, if_true] at h ⊢
        have hr : RenOK ρ (negTags r) := ⟨h.nonneg, fun u hu => h.neg u (List.mem_cons_of_mem _ hu),
          fun u hu v hv => h.inj u (List.mem_cons_of_mem _ hu) v (List.mem_cons_of_mem _ hv)⟩
        simp only [h.neg t List.mem_cons_self, if_true, List.map_cons, ih hr]
      · simp only [ht, if_false] at h ⊢
        have := h.nonneg t (by omega)
        simp only [this, ht, if_false]
        exact ih h

theorem termNegs_rename {ρ : Int → Int} {T : List Int} {cons : List NTerm} (h : RenOK ρ T)
    (hclosed : ∀ t ∈ termNegs cons, t ∈ T) : ∀ t ∈ termNegs (cons.map (renTerm ρ)), ∃ u ∈ T, t = ρ u := by
  intro t ht
  obtain ⟨c', hc', htc, hneg⟩ := mem_termNegs.mp ht
  obtain ⟨c, hc, rfl⟩ := List.mem_map.mp hc'
  simp only [renTerm, List.mem_map] at htc
  obtain ⟨u, hu, rfl⟩ := htc
  have hu0 : u < 0 := by
    apply Classical.byContradiction
    intro hn
    have := h.nonneg u (by omega)
    omega
  exact ⟨u, hclosed u (mem_termNegs.mpr ⟨c, hc, hu, hu0⟩), rfl⟩

/-! ### `_fresh_temp_tags` -/

theorem renameTag_none {mp : PyDict Int Int} {t : Int} (h : PyDict.get? mp t = none) : renameTag mp t = t := by
  simp [renameTag, h]

theorem renameTag_some {mp : PyDict Int Int} {t v : Int} (h : PyDict.get? mp t = some v) : renameTag mp t = v := by
  simp [renameTag, h]

/-- the loop of `_fresh_temp_tags` over the name of the referenced chain -/
theorem freshName_spec (used : List Int) : ∀ (name : List Atom) (nt : Int) (mp : PyDict Int Int)
    (name' : List Atom) (nt' : Int) (mp' : PyDict Int Int),
    freshName used name nt mp = (name', nt', mp') →
    (negTags name).Nodup → (∀ t ∈ negTags name, PyDict.get? mp t = none) → (∀ k v, PyDict.get? mp k = some v → k < 0) →
    nt' ≤ nt ∧ name' = name.map (renAtom (renameTag mp')) ∧
    (∀ k v, PyDict.get? mp' k = some v → k < 0) ∧
    (∀ k, k ∉ negTags name → PyDict.get? mp' k = PyDict.get? mp k) ∧
    (∀ t ∈ negTags name, t ∉ used → PyDict.get? mp' t = none) ∧
    (∀ t ∈ negTags name, t ∈ used → ∃ v, PyDict.get? mp' t = some v ∧ nt' < v ∧ v ≤ nt) := by
  intro name
  induction name with
  | nil =>
    intro nt mp name' nt' mp' h _ _ hk
    simp only [freshName, Prod.mk.injEq] at h
    obtain ⟨rfl, rfl, rfl⟩ := h
    exact ⟨Int.le_refl _, rfl, hk, fun _ _ => rfl, by simp [negTags, atomTags], by simp [negTags, atomTags]⟩
  | cons a r ih =>
    intro nt mp name' nt' mp' h hnd hmp hk
    cases a with
    | lit v =>
      simp only [freshName] at h
      generalize hr : freshName used r nt mp = res at h
      obtain ⟨a1, b1, d1⟩ := res
      simp only [Prod.mk.injEq] at h
      obtain ⟨rfl, rfl, rfl⟩ := h
      rw [negTags_cons_lit] at hnd hmp
      obtain ⟨h1, h2, h3, h4, h5, h6⟩ := ih nt mp a1 b1 d1 hr hnd hmp hk
      refine ⟨h1, by rw [h2]; rfl, h3, ?_, ?_, ?_⟩ <;> rw [negTags_cons_lit] <;> assumption
    | pat t =>
      simp only [freshName] at h
      rw [negTags_cons_pat] at hnd hmp
      split at h
      · -- renamed
        rename_i hc
        simp only [Bool.and_eq_true, decide_eq_true_eq, List.contains_eq_mem] at hc
        obtain ⟨ht, htu⟩ := hc
        simp only [ht, if_true] at hnd hmp
        generalize hr : freshName used r (nt - 1) (PyDict.set mp t nt) = res at h
        obtain ⟨a1, b1, d1⟩ := res
        simp only [Prod.mk.injEq] at h
        obtain ⟨rfl, rfl, rfl⟩ := h
        have htr : t ∉ negTags r := (List.nodup_cons.mp hnd).1
        obtain ⟨h1, h2, h3, h4, h5, h6⟩ := ih (nt - 1) (PyDict.set mp t nt) a1 b1 d1 hr (List.nodup_cons.mp hnd).2
          (fun u hu => by
            rw [PyDict.get?_set]
            have : ¬ t = u := fun he => htr (he ▸ hu)
            simp only [this, if_false]
            exact hmp u (List.mem_cons_of_mem _ hu))
          (fun k v hkv => by
            rw [PyDict.get?_set] at hkv
            split at hkv
            · rename_i he; subst he; exact ht
            · exact hk k v hkv)
        have hget : PyDict.get? d1 t = some nt := by rw [h4 t htr, PyDict.get?_set]; simp
        refine ⟨by omega, ?_, h3, ?_, ?_, ?_⟩
        · simp only [List.map_cons, renAtom, renameTag_some hget, h2]
        · intro k hkn
          rw [negTags_cons_pat] at hkn
          simp only [ht, if_true, List.mem_cons, not_or] at hkn
          rw [h4 k hkn.2, PyDict.get?_set]
          have : ¬ t = k := fun he => hkn.1 he.symm
          simp [this]
        · intro u hu hnu
          rw [negTags_cons_pat] at hu
          simp only [ht, if_true, List.mem_cons] at hu
          rcases hu with rfl | hu
          · exact absurd htu hnu
          · exact h5 u hu hnu
        · intro u hu huu
          rw [negTags_cons_pat] at hu
          simp only [ht, if_true, List.mem_cons] at hu
          rcases hu with rfl | hu
          · exact ⟨nt, hget, by omega, Int.le_refl _⟩
          · obtain ⟨v, hv1, hv2, hv3⟩ := h6 u hu huu
            exact ⟨v, hv1, hv2, by omega⟩
      · -- kept
        rename_i hc
        generalize hr : freshName used r nt mp = res at h
        obtain ⟨a1, b1, d1⟩ := res
        simp only [Prod.mk.injEq] at h
        obtain ⟨rfl, rfl, rfl⟩ := h
        have hnd' : (negTags r).Nodup := by
          split at hnd
          · exact (List.nodup_cons.mp hnd).2
          · exact hnd
        have hmp' : ∀ u ∈ negTags r, PyDict.get? mp u = none := by
          intro u hu
          split at hmp
          · exact hmp u (List.mem_cons_of_mem _ hu)
          · exact hmp u hu
        obtain ⟨h1, h2, h3, h4, h5, h6⟩ := ih nt mp a1 b1 d1 hr hnd' hmp' hk
        have hkeep : PyDict.get? d1 t = none := by
          by_cases ht : t < 0
          · simp only [ht, if_true] at hnd hmp
            have htu : t ∉ used := by
              intro hu
              apply hc
              simp [ht, hu]
            have htr : t ∉ negTags r := (List.nodup_cons.mp hnd).1
            rw [h4 t htr]
            exact hmp t List.mem_cons_self
          · cases hg : PyDict.get? d1 t with
            | none => rfl
            | some v => exact absurd (h3 t v hg) ht
        refine ⟨h1, ?_, h3, ?_, ?_, ?_⟩
        · simp only [List.map_cons, renAtom, renameTag_none hkeep, h2]
        · intro k hkn
          rw [negTags_cons_pat] at hkn
          apply h4
          split at hkn
          · exact fun hm => hkn (List.mem_cons_of_mem _ hm)
          · exact hkn
        · intro u hu hnu
          rw [negTags_cons_pat] at hu
          split at hu
          · rcases List.mem_cons.mp hu with rfl | hu
            · exact hkeep
            · exact h5 u hu hnu
          · exact h5 u hu hnu
        · intro u hu huu
          rw [negTags_cons_pat] at hu
          split at hu
          · rename_i ht
            rcases List.mem_cons.mp hu with rfl | hu
            · exfalso; apply hc; simp [ht, huu]
            · exact h6 u hu huu
          · exact h6 u hu huu

/-- two temporary numbers that are renamed get different fresh numbers -/
theorem freshName_inj (used : List Int) : ∀ (name : List Atom) (nt : Int) (mp : PyDict Int Int)
    (name' : List Atom) (nt' : Int) (mp' : PyDict Int Int),
    freshName used name nt mp = (name', nt', mp') →
    (negTags name).Nodup → (∀ t ∈ negTags name, PyDict.get? mp t = none) → (∀ k v, PyDict.get? mp k = some v → k < 0) →
    ∀ t ∈ negTags name, ∀ u ∈ negTags name, t ∈ used → u ∈ used → PyDict.get? mp' t = PyDict.get? mp' u → t = u := by
  intro name
  induction name with
  | nil => intro nt mp name' nt' mp' _ _ _ _ t ht; simp [negTags, atomTags] at ht
  | cons a r ih =>
    intro nt mp name' nt' mp' h hnd hmp hk
    cases a with
    | lit v =>
      simp only [freshName] at h
      generalize hr : freshName used r nt mp = res at h
      obtain ⟨a1, b1, d1⟩ := res
      simp only [Prod.mk.injEq] at h
      obtain ⟨rfl, rfl, rfl⟩ := h
      rw [negTags_cons_lit] at hnd hmp ⊢
      exact ih nt mp a1 b1 d1 hr hnd hmp hk
    | pat t0 =>
      simp only [freshName] at h
      rw [negTags_cons_pat] at hnd hmp ⊢
      split at h
      · rename_i hc
        simp only [Bool.and_eq_true, decide_eq_true_eq, List.contains_eq_mem] at hc
        obtain ⟨ht0, _⟩ := hc
        simp only [ht0, if_true] at hnd hmp ⊢
        generalize hr : freshName used r (nt - 1) (PyDict.set mp t0 nt) = res at h
        obtain ⟨a1, b1, d1⟩ := res
        simp only [Prod.mk.injEq] at h
        obtain ⟨rfl, rfl, rfl⟩ := h
        have htr : t0 ∉ negTags r := (List.nodup_cons.mp hnd).1
        have hmp1 : ∀ u ∈ negTags r, PyDict.get? (PyDict.set mp t0 nt) u = none := fun u hu => by
          rw [PyDict.get?_set]
          have : ¬ t0 = u := fun he => htr (he ▸ hu)
          simp only [this, if_false]
          exact hmp u (List.mem_cons_of_mem _ hu)
        have hk1 : ∀ k v, PyDict.get? (PyDict.set mp t0 nt) k = some v → k < 0 := fun k v hkv => by
          rw [PyDict.get?_set] at hkv
          split at hkv
          · rename_i he; subst he; exact ht0
          · exact hk k v hkv
        obtain ⟨_, _, _, h4, _, h6⟩ := freshName_spec used r (nt - 1) _ a1 b1 d1 hr (List.nodup_cons.mp hnd).2 hmp1 hk1
        have hget : PyDict.get? d1 t0 = some nt := by rw [h4 t0 htr, PyDict.get?_set]; simp
        have hih := ih (nt - 1) _ a1 b1 d1 hr (List.nodup_cons.mp hnd).2 hmp1 hk1
        intro t ht u hu htu huu he
        rcases List.mem_cons.mp ht with ht' | ht'
        · rcases List.mem_cons.mp hu with hu' | hu'
          · rw [ht', hu']
          · obtain ⟨v, hv, _, hv2⟩ := h6 u hu' huu
            rw [ht', hget, hv] at he
            injection he with he
            omega
        · rcases List.mem_cons.mp hu with hu' | hu'
          · obtain ⟨v, hv, _, hv2⟩ := h6 t ht' htu
            rw [hu', hget, hv] at he
            injection he with he
            omega
          · exact hih t ht' u hu' htu huu he
      · rename_i hc
        generalize hr : freshName used r nt mp = res at h
        obtain ⟨a1, b1, d1⟩ := res
        simp only [Prod.mk.injEq] at h
        obtain ⟨rfl, rfl, rfl⟩ := h
        have hnd' : (negTags r).Nodup := by
          split at hnd
          · exact (List.nodup_cons.mp hnd).2
          · exact hnd
        have hmp' : ∀ u ∈ negTags r, PyDict.get? mp u = none := by
          intro u hu
          split at hmp
          · exact hmp u (List.mem_cons_of_mem _ hu)
          · exact hmp u hu
        have hih := ih nt mp a1 b1 d1 hr hnd' hmp' hk
        intro t ht u hu htu huu he
        have hnot : ∀ x, x ∈ (if t0 < 0 then t0 :: negTags r else negTags r) → x ∈ used → x ∈ negTags r := by
          intro x hx hxu
          split at hx
          · rename_i ht0
            rcases List.mem_cons.mp hx with rfl | hx
            · exfalso; apply hc; simp [ht0, hxu]
            · exact hx
          · exact hx
        exact hih t (hnot t ht htu) u (hnot u hu huu) htu huu he

/-- `_fresh_temp_tags(chain, ref_chain)` renames injectively, into numbers that are not in use -/
theorem freshTempTags_spec (chain ref : Chain) (nt : Int) (hnt : nt < 0) (hnd : (negTags ref.name).Nodup)
    (hgt : ∀ t ∈ negTags ref.name, nt < t) :
    ∃ ρ : Int → Int, (freshTempTags chain ref nt).2 ≤ nt ∧
      (freshTempTags chain ref nt).1.name = ref.name.map (renAtom ρ) ∧
      (freshTempTags chain ref nt).1.cons = ref.cons.map (renTerm ρ) ∧
      (freshTempTags chain ref nt).1.id = ref.id ∧ (freshTempTags chain ref nt).1.sign = ref.sign ∧
      RenOK ρ (negTags ref.name) ∧
      (∀ t ∈ negTags ref.name, (t ∉ chain.tags ∧ ρ t = t) ∨ ((freshTempTags chain ref nt).2 < ρ t ∧ ρ t ≤ nt)) := by
  unfold freshTempTags
  generalize hr : freshName chain.tags ref.name nt [] = res
  obtain ⟨name', nt', mp'⟩ := res
  obtain ⟨h1, h2, h3, h4, h5, h6⟩ := freshName_spec chain.tags ref.name nt [] name' nt' mp' hr hnd
    (fun _ _ => rfl) (fun k v hkv => by simp [PyDict.get?] at hkv)
  have hval : ∀ t ∈ negTags ref.name, (t ∉ chain.tags ∧ renameTag mp' t = t) ∨ (nt' < renameTag mp' t ∧ renameTag mp' t ≤ nt) := by
    intro t ht
    by_cases hu : t ∈ chain.tags
    · obtain ⟨v, hv, hv1, hv2⟩ := h6 t ht hu
      exact Or.inr (by rw [renameTag_some hv]; exact ⟨hv1, hv2⟩)
    · exact Or.inl ⟨hu, renameTag_none (h5 t ht hu)⟩
  refine ⟨renameTag mp', h1, h2, rfl, rfl, rfl, ⟨?_, ?_, ?_⟩, hval⟩
  · intro t ht
    cases hg : PyDict.get? mp' t with
    | none => exact renameTag_none hg
    | some v => have := h3 t v hg; omega
  · intro t ht
    rcases hval t ht with ⟨_, he⟩ | ⟨_, hle⟩
    · rw [he]; exact (mem_negTags.mp ht).2
    · omega
  · intro t ht u hu he
    rcases hval t ht with ⟨htn, het⟩ | ⟨hlt, hle⟩
    · rcases hval u hu with ⟨_, heu⟩ | ⟨_, hleu⟩
      · rw [het, heu] at he; exact he
      · rw [het] at he
        have := hgt t ht
        omega
    · rcases hval u hu with ⟨_, heu⟩ | ⟨hltu, hleu⟩
      · rw [heu] at he
        have := hgt u hu
        omega
      · -- both renamed: distinct fresh numbers
        by_cases htu : t ∈ chain.tags
        · by_cases huu : u ∈ chain.tags
          · exact freshName_inj chain.tags ref.name nt [] name' nt' mp' hr hnd (fun _ _ => rfl)
              (fun k v hkv => by simp [PyDict.get?] at hkv) t ht u hu htu huu
              (by
                obtain ⟨v, hv, _⟩ := h6 t ht htu
                obtain ⟨w, hw, _⟩ := h6 u hu huu
                rw [renameTag_some hv, renameTag_some hw] at he
                rw [hv, hw, he])
          · have := renameTag_none (h5 u hu huu)
            rw [this] at hltu hleu
            have := hgt u hu
            omega
        · have := renameTag_none (h5 t ht htu)
          rw [this] at hlt hle
          have := hgt t ht
          omega

end Ndn.Lvs
