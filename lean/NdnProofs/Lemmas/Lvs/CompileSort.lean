import NdnModel.Lvs.Compile
/-!
  Lemmas about pass 1 of the compiler model (`sortRuleReferences`, `topOrder`):
  references to undefined / temporary rules and reference cycles are refused with `SemanticError`;
  the fuel of `topRounds` is never exhausted; the sorted rules are a permutation of the renamed rules.
-/
namespace Ndn.Lvs

theorem insertBy_perm {α : Type} (le : α → α → Bool) (a : α) (l : List α) : (insertBy le a l).Perm (a :: l) := by
  induction l with
  | nil => exact List.Perm.refl _
  | cons b r ih =>
    unfold insertBy
    split
    · exact List.Perm.refl _
    · exact (List.Perm.cons b ih).trans (List.Perm.swap a b r)

theorem isort_perm {α : Type} (le : α → α → Bool) (l : List α) : (isort le l).Perm l := by
  induction l with
  | nil => exact List.Perm.refl _
  | cons a r ih => exact (insertBy_perm le a _).trans (List.Perm.cons a ih)

theorem mem_isort {α : Type} {le : α → α → Bool} {a : α} {l : List α} : a ∈ isort le l ↔ a ∈ l :=
  (isort_perm le l).mem_iff

theorem nodup_eraseDups {α : Type} [BEq α] [LawfulBEq α] : ∀ (n : Nat) (l : List α), l.length ≤ n → l.eraseDups.Nodup := by
  intro n
  induction n with
  | zero =>
    intro l hl
    cases l with
    | nil => simp
    | cons a r => simp at hl
  | succ n ih =>
    intro l hl
    cases l with
    | nil => simp
    | cons a r =>
      rw [List.eraseDups_cons, List.nodup_cons]
      constructor
      · rw [List.mem_eraseDups, List.mem_filter]
        simp
      · apply ih
        have := List.length_filter_le (fun b => !b == a) r
        simp at hl
        omega

theorem nodup_sortDedup {α : Type} [BEq α] [LawfulBEq α] (le : α → α → Bool) (l : List α) : (sortDedup le l).Nodup := by
  unfold sortDedup
  exact (isort_perm le _).nodup_iff.mpr (nodup_eraseDups _ _ (Nat.le_refl _))

theorem isTempRule_append (a b : String) (h : isTempRule a = true) : isTempRule (a ++ b) = true := by
  unfold isTempRule at *
  rw [String.toList_append]
  cases ha : a.toList with
  | nil => simp [ha] at h
  | cons x r =>
    cases r with
    | nil => simp [ha] at h
    | cons y r' => simp [ha] at h ⊢; exact h

/-- what `renameTemps` does to a rule: only the identifier of a temporary rule changes -/
theorem mem_renameTemps {rs : List SRule} {k : Nat} {r' : SRule} (h : r' ∈ renameTemps rs k) :
    ∃ r ∈ rs, r'.name = r.name ∧ r'.cons = r.cons ∧ r'.sign = r.sign ∧
      ((isTempRule r.id = false ∧ r'.id = r.id) ∨
       (isTempRule r.id = true ∧ ∃ j : Nat, r'.id = r.id ++ "#" ++ toString j)) := by
  induction rs generalizing k with
  | nil => simp [renameTemps] at h
  | cons r rs ih =>
    unfold renameTemps at h
    split at h
    · rename_i ht
      rcases List.mem_cons.mp h with h | h
      · subst h
        exact ⟨r, List.mem_cons_self, rfl, rfl, rfl, Or.inr ⟨ht, k, rfl⟩⟩
      · obtain ⟨r0, hm, hr⟩ := ih h
        exact ⟨r0, List.mem_cons_of_mem _ hm, hr⟩
    · rename_i ht
      rcases List.mem_cons.mp h with h | h
      · subst h
        exact ⟨r', List.mem_cons_self, rfl, rfl, rfl, Or.inl ⟨by simpa using ht, rfl⟩⟩
      · obtain ⟨r0, hm, hr⟩ := ih h
        exact ⟨r0, List.mem_cons_of_mem _ hm, hr⟩

/-- every source rule survives renaming (same name, constraints, signers) -/
theorem renameTemps_mem {rs : List SRule} {k : Nat} {r : SRule} (h : r ∈ rs) :
    ∃ r' ∈ renameTemps rs k, r'.name = r.name ∧ r'.cons = r.cons ∧ r'.sign = r.sign ∧
      (isTempRule r.id = false → r'.id = r.id) := by
  induction rs generalizing k with
  | nil => simp at h
  | cons r0 rs ih =>
    unfold renameTemps
    rcases List.mem_cons.mp h with h | h
    · subst h
      split
      · rename_i ht
        exact ⟨_, List.mem_cons_self, rfl, rfl, rfl, fun hf => by simp [hf] at ht⟩
      · exact ⟨_, List.mem_cons_self, rfl, rfl, rfl, fun _ => rfl⟩
    · split
      · obtain ⟨r', hm, hr⟩ := ih (k := k + 1) h
        exact ⟨r', List.mem_cons_of_mem _ hm, hr⟩
      · obtain ⟨r', hm, hr⟩ := ih (k := k) h
        exact ⟨r', List.mem_cons_of_mem _ hm, hr⟩

theorem mem_ruleIds {rules : List SRule} {c : String} : c ∈ ruleIds rules ↔ ∃ r ∈ rules, r.id = c := by
  simp [ruleIds, List.mem_eraseDups]

/-- an identifier that is temporary, or is the identifier of no rule of the source, is refused -/
theorem badRef_of_undefined (S : Schema) (c : String)
    (h : isTempRule c = true ∨ ∀ r ∈ S.rules, r.id ≠ c) :
    badRef (ruleIds (renameTemps S.rules 1)) c = true := by
  unfold badRef
  by_cases ht : isTempRule c = true
  · simp [ht]
  · have hnd : ∀ r ∈ S.rules, r.id ≠ c := by
      rcases h with h | h
      · exact absurd h ht
      · exact h
    have : ¬ c ∈ ruleIds (renameTemps S.rules 1) := by
      intro hc
      obtain ⟨r', hr', hid⟩ := mem_ruleIds.mp hc
      obtain ⟨r, hr, _, _, _, hcase⟩ := mem_renameTemps hr'
      rcases hcase with ⟨_, he⟩ | ⟨htmp, j, he⟩
      · exact hnd r hr (he ▸ hid)
      · apply ht
        rw [← hid, he, String.append_assoc]
        exact isTempRule_append _ _ htmp
    simp [this]

theorem sortRuleReferences_badRef (S : Schema) (r : SRule) (hr : r ∈ S.rules) (c : String)
    (hc : Comp.ref c ∈ r.name) (h : isTempRule c = true ∨ ∀ r' ∈ S.rules, r'.id ≠ c) :
    sortRuleReferences S = .error .semantic := by
  unfold sortRuleReferences
  have hany : ((renameTemps S.rules 1).flatMap (fun r => refsOf r.name)).any
      (badRef (ruleIds (renameTemps S.rules 1))) = true := by
    rw [List.any_eq_true]
    refine ⟨c, ?_, badRef_of_undefined S c h⟩
    obtain ⟨r', hr', hn, _⟩ := renameTemps_mem (k := 1) hr
    rw [List.mem_flatMap]
    refine ⟨r', hr', ?_⟩
    rw [hn]
    unfold refsOf
    rw [List.mem_filterMap]
    exact ⟨_, hc, rfl⟩
  simp only [hany, if_true]

/-! ### `top_order` -/

theorem filter_not_ready_lt (rem ready : List String) (x : String) (hx : x ∈ ready) (hr : x ∈ rem) :
    (rem.filter (fun n => !ready.contains n)).length < rem.length := by
  rw [List.length_filter_lt_length_iff_exists]
  exact ⟨x, hr, by simp [hx]⟩

theorem ready_sub (rem : List String) (adj : String → List String) (x : String)
    (hx : x ∈ isort strLe (rem.filter (fun n => inDeg rem adj n == 0))) :
    x ∈ rem ∧ inDeg rem adj x = 0 := by
  rw [mem_isort, List.mem_filter] at hx
  exact ⟨hx.1, by simpa using hx.2⟩

/-- the fuel `ids.length` is enough: `topRounds` never answers `fuel` -/
theorem topRounds_no_fuel (adj : String → List String) :
    ∀ (f : Nat) (rem : List String), rem.length ≤ f → topRounds f rem adj ≠ .error .fuel := by
  intro f
  induction f with
  | zero =>
    intro rem hl
    cases rem with
    | nil => simp [topRounds]
    | cons a r => simp at hl
  | succ f ih =>
    intro rem hl
    cases rem with
    | nil => simp [topRounds]
    | cons a r =>
      unfold topRounds
      simp only []
      split
      · simp
      · rename_i hne
        have hne' : (isort strLe ((a :: r).filter (fun n => inDeg (a :: r) adj n == 0))) ≠ [] := by
          intro h; rw [h] at hne; simp at hne
        obtain ⟨x, hx⟩ := List.exists_mem_of_ne_nil _ hne'
        have hxr := (ready_sub _ adj x hx).1
        have hlt := filter_not_ready_lt (a :: r) _ x hx hxr
        have := ih ((a :: r).filter (fun n => !(isort strLe ((a :: r).filter (fun n => inDeg (a :: r) adj n == 0))).contains n))
          (by omega)
        split
        · rename_i e he
          intro h
          injection h with h
          subst h
          exact this he
        · simp

/-- a set of identifiers closed under "is referred to by a member" is never emitted: "Loop detected" -/
theorem topRounds_cycle (adj : String → List String) (C : List String) (hne : C ≠ [])
    (hC : ∀ c ∈ C, ∃ p ∈ C, c ∈ adj p) :
    ∀ (f : Nat) (rem : List String), rem.length ≤ f → (∀ c ∈ C, c ∈ rem) →
      topRounds f rem adj = .error .semantic := by
  intro f
  induction f with
  | zero =>
    intro rem hl hsub
    obtain ⟨c, hc⟩ := List.exists_mem_of_ne_nil _ hne
    have := hsub c hc
    cases rem with
    | nil => simp at this
    | cons a r => simp at hl
  | succ f ih =>
    intro rem hl hsub
    obtain ⟨c0, hc0⟩ := List.exists_mem_of_ne_nil _ hne
    cases rem with
    | nil => exact absurd (hsub c0 hc0) (by simp)
    | cons a r =>
      unfold topRounds
      simp only []
      split
      · rfl
      · rename_i hne'
        have hne'' : (isort strLe ((a :: r).filter (fun n => inDeg (a :: r) adj n == 0))) ≠ [] := by
          intro h; rw [h] at hne'; simp at hne'
        obtain ⟨x, hx⟩ := List.exists_mem_of_ne_nil _ hne''
        have hxr := (ready_sub _ adj x hx).1
        have hlt := filter_not_ready_lt (a :: r) _ x hx hxr
        have hsub' : ∀ c ∈ C, c ∈ (a :: r).filter
            (fun n => !(isort strLe ((a :: r).filter (fun n => inDeg (a :: r) adj n == 0))).contains n) := by
          intro c hc
          rw [List.mem_filter]
          refine ⟨hsub c hc, ?_⟩
          have : ¬ c ∈ isort strLe ((a :: r).filter (fun n => inDeg (a :: r) adj n == 0)) := by
            intro hcr
            have h0 := (ready_sub _ adj c hcr).2
            obtain ⟨p, hp, hcp⟩ := hC c hc
            have : 0 < inDeg (a :: r) adj c := by
              unfold inDeg
              rw [List.count_pos_iff, List.mem_flatMap]
              exact ⟨p, hsub p hp, hcp⟩
            omega
          simp [this]
        rw [ih _ (by omega) hsub']

theorem topOrder_no_fuel (ids : List String) (adj : String → List String) : topOrder ids adj ≠ .error .fuel := by
  unfold topOrder
  have := topRounds_no_fuel adj ids.length ids (Nat.le_refl _)
  split
  · rename_i e he
    intro h; injection h with h; subst h; exact this he
  · simp

theorem topOrder_error (ids : List String) (adj : String → List String) (e : CErr) (h : topOrder ids adj = .error e) :
    e = .semantic := by
  have hnf := topOrder_no_fuel ids adj
  unfold topOrder at h hnf
  split at h
  · rename_i e' he
    injection h with h
    subst h
    -- the only errors `topRounds` produces are `fuel` and `semantic`
    have : ∀ (f : Nat) (rem : List String) (e : CErr), topRounds f rem adj = .error e → e = .fuel ∨ e = .semantic := by
      intro f
      induction f with
      | zero =>
        intro rem e h
        cases rem with
        | nil => simp [topRounds] at h
        | cons a r => simp [topRounds] at h; exact Or.inl h.symm
      | succ f ih =>
        intro rem e h
        cases rem with
        | nil => simp [topRounds] at h
        | cons a r =>
          unfold topRounds at h
          simp only [] at h
          split at h
          · injection h with h; exact Or.inr h.symm
          · split at h
            · rename_i e2 he2
              injection h with h
              subst h
              exact ih _ _ he2
            · simp at h
    rcases this _ _ _ he with h | h
    · subst h; simp [he] at hnf
    · exact h
  · simp at h

/-- every error of pass 1 is a `SemanticError` -/
theorem sortRuleReferences_error (S : Schema) (e : CErr) (h : sortRuleReferences S = .error e) : e = .semantic := by
  unfold sortRuleReferences at h
  simp only [] at h
  split at h
  · injection h with h; exact h.symm
  · split at h
    · rename_i e' he
      injection h with h
      subst h
      exact topOrder_error _ _ _ he
    · simp at h

/-- the rules pass 1 hands on are the renamed rules in another order -/
theorem sortRuleReferences_perm (S : Schema) (rules : List SRule) (h : sortRuleReferences S = .ok rules) :
    rules.Perm (renameTemps S.rules 1) := by
  unfold sortRuleReferences at h
  simp only [] at h
  split at h
  · simp at h
  · split at h
    · simp at h
    · injection h with h
      subst h
      exact isort_perm _ _

/-- a set of rule identifiers each of which is referred to by a definition of a member -/
theorem sortRuleReferences_cycle (S : Schema) (C : List String) (hne : C ≠ [])
    (hC : ∀ c ∈ C, ∃ r ∈ S.rules, r.id ∈ C ∧ Comp.ref c ∈ r.name) :
    sortRuleReferences S = .error .semantic := by
  -- a member that is temporary or undefined is already refused by the first loop
  by_cases hbad : ∃ c ∈ C, isTempRule c = true ∨ ∀ r ∈ S.rules, r.id ≠ c
  · obtain ⟨c, hc, hb⟩ := hbad
    obtain ⟨r, hr, _, hcr⟩ := hC c hc
    exact sortRuleReferences_badRef S r hr c hcr hb
  · have hgood : ∀ c ∈ C, isTempRule c = false ∧ ∃ r ∈ S.rules, r.id = c := by
      intro c hc
      constructor
      · cases ht : isTempRule c
        · rfl
        · exact absurd ⟨c, hc, Or.inl ht⟩ hbad
      · refine Classical.byContradiction fun hn => hbad ⟨c, hc, Or.inr ?_⟩
        intro r hr he
        exact hn ⟨r, hr, he⟩
    unfold sortRuleReferences
    simp only []
    split
    · rfl
    · have hcyc : ∀ c ∈ C, ∃ p ∈ C, c ∈ adjOf (renameTemps S.rules 1) p := by
        intro c hc
        obtain ⟨r, hr, hrC, hcr⟩ := hC c hc
        refine ⟨r.id, hrC, ?_⟩
        obtain ⟨r', hr', hn, _, _, hid⟩ := renameTemps_mem (k := 1) hr
        have hid' := hid (hgood r.id hrC).1
        unfold adjOf
        rw [List.mem_flatMap]
        refine ⟨r', ?_, ?_⟩
        · rw [List.mem_filter]
          exact ⟨hr', by simp [hid']⟩
        · rw [hn]
          unfold refsOf
          rw [List.mem_filterMap]
          exact ⟨_, hcr, rfl⟩
      have hsub : ∀ c ∈ C, c ∈ ruleIds (renameTemps S.rules 1) := by
        intro c hc
        obtain ⟨ht, r, hr, he⟩ := hgood c hc
        obtain ⟨r', hr', _, _, _, hid⟩ := renameTemps_mem (k := 1) hr
        rw [mem_ruleIds]
        exact ⟨r', hr', by rw [hid (he ▸ ht), he]⟩
      have := topRounds_cycle (adjOf (renameTemps S.rules 1)) C hne hcyc _ _ (Nat.le_refl _) hsub
      unfold topOrder
      rw [this]

end Ndn.Lvs
