import NdnProofs.Lemmas.Lvs.CompileMerge
import NdnProofs.Lemmas.Lvs.CompileChains
import NdnProofs.Lemmas.Lvs.KeyText
/-!
  `KeyInj` as a general fact: on well-formed chains (`ChainOK`: user-function names without `(` `,` `}`) the merge
  key of `pattern_movement` determines the tag and the constraints of the edge.  The chains of a schema the parser
  can produce are well formed (`chainsOf_ok`), so the hypothesis of the node-merging theorem holds for every such
  schema.
-/
namespace Ndn.Lvs

theorem optsFnOK_of_chainOK {rc : Chain} (h : ChainOK rc) : ∀ t ∈ rc.cons, OptsFnOK t.opts :=
  fun t ht _ _ hm => (h.2 t ht _ hm).2

/-- the encoded constraints are a function of the options -/
theorem map_encTerm_eq (cs cs' : List NTerm) (h : cs.map (·.opts) = cs'.map (·.opts)) :
    cs.map encTerm = cs'.map encTerm := by
  have : ∀ l : List NTerm, l.map encTerm = (l.map (·.opts)).map (List.map encOpt) := by
    intro l; rw [List.map_map]; rfl
  rw [this cs, this cs', h]

/-- the two results of `pattern_movement` for the pattern `tag`, by whether the tag was seen before -/
theorem pmove_eq (rc : Chain) (tag : Int) (prev : List Int) :
    pmove rc tag prev = if prev.contains tag then ([], toString tag ++ ":" ++ "")
      else ((rc.cons.filter (fun t => t.pat.contains tag)).map encTerm,
            toString tag ++ ":" ++ String.join ((rc.cons.filter (fun t => t.pat.contains tag)).map termStr)) := by
  unfold pmove
  split
  · simp
  · rfl

/-- **the merge key is injective on well-formed chains** -/
theorem keyInj_of_chainOK (ctx : List Chain) (h : ∀ c ∈ ctx, ChainOK c) : KeyInj ctx := by
  intro rc₁ h1 rc₂ h2 t₁ t₂ prev _ _ hk
  rw [pmove_eq, pmove_eq] at hk ⊢
  have hok1 := optsFnOK_of_chainOK (h rc₁ h1)
  have hok2 := optsFnOK_of_chainOK (h rc₂ h2)
  have htag : t₁ = t₂ := by
    split at hk <;> split at hk <;> exact (tagKey_inj hk).1
  subst htag
  refine ⟨rfl, ?_⟩
  split
  · rfl
  · rename_i hp
    simp only [hp] at hk
    have hr := (tagKey_inj hk).2
    exact map_encTerm_eq _ _ (termStrs_inj _ _ (fun t ht => hok1 t (List.mem_filter.mp ht).1)
      (fun t ht => hok2 t (List.mem_filter.mp ht).1) hr)

/-- **the merge key is injective on the chains of every schema the parser can produce** -/
theorem keyInj_of_wf (S : Schema) (hwf : S.WF) (chains : List Chain) (named : List String)
    (h : chainsOf S = .ok (chains, named)) : KeyInj chains :=
  keyInj_of_chainOK chains (chainsOf_ok S hwf chains named h)

/-- the computable test the drivers evaluate is equivalent to `KeyInj` (converse of `keyInj_of_keyInjB`) -/
theorem keyInjB_of_keyInj (chains : List Chain) (h : KeyInj chains) : keyInjB chains = true := by
  unfold keyInjB
  simp only [List.all_eq_true]
  intro rc₁ h1 rc₂ h2 t₁ ht1 t₂ ht2 b₁ _ b₂ _
  split
  · rfl
  · rename_i hc
    split
    · rename_i hk
      have hk' : (pmoveB rc₁ t₁ b₁).2 = (pmoveB rc₂ t₂ b₂).2 := by simpa using hk
      have hprev : ∃ prev : List Int, prev.contains t₁ = b₁ ∧ prev.contains t₂ = b₂ := by
        cases b₁ <;> cases b₂
        · exact ⟨[], by simp, by simp⟩
        · refine ⟨[t₂], ?_, by simp⟩
          have : t₁ ≠ t₂ := fun e => hc ⟨e, by simp⟩
          simp [this]
        · refine ⟨[t₁], by simp, ?_⟩
          have : t₂ ≠ t₁ := fun e => hc ⟨e.symm, by simp⟩
          simp [this]
        · exact ⟨[t₁, t₂], by simp, by simp⟩
      obtain ⟨prev, c1, c2⟩ := hprev
      have := h rc₁ h1 rc₂ h2 t₁ t₂ prev ht1 ht2 (by rw [pmove_eq_pmoveB, pmove_eq_pmoveB, c1, c2]; exact hk')
      rw [pmove_eq_pmoveB, pmove_eq_pmoveB, c1, c2] at this
      simp only [Bool.and_eq_true, decide_eq_true_eq, beq_iff_eq]
      exact this
    · rfl

/-- the driver's cross-check holds on the chains of every schema the parser can produce -/
theorem keyInjB_of_wf (S : Schema) (hwf : S.WF) (chains : List Chain) (named : List String)
    (h : chainsOf S = .ok (chains, named)) : keyInjB chains = true :=
  keyInjB_of_keyInj chains (keyInj_of_wf S hwf chains named h)

/-! ### the side condition is needed -/

/-- a user-function name with a `,` in it: one option prints like two -/
def badCommaChains : List Chain := [
  { id := "#a", name := [.pat 1], cons := [{ pat := [1], opts := [.fn "$f(),$g" []] }], sign := [] },
  { id := "#b", name := [.pat 1], cons := [{ pat := [1], opts := [.fn "$f" [], .fn "$g" []] }], sign := [] } ]

/-- a user-function name with a `}` in it: one constraint prints like two -/
def badBraceChains : List Chain := [
  { id := "#a", name := [.pat 1], cons := [{ pat := [1], opts := [.fn "$f(),}{$g" []] }], sign := [] },
  { id := "#b", name := [.pat 1], cons := [{ pat := [1], opts := [.fn "$f" []] }, { pat := [1], opts := [.fn "$g" []] }],
    sign := [] } ]

theorem badChains_keys :
    (∀ rc ∈ badCommaChains, (pmove rc 1 []).2 = "1:{$f(),$g(),}") ∧
    (∀ rc ∈ badBraceChains, (pmove rc 1 []).2 = "1:{$f(),}{$g(),}") := by decide +kernel

theorem badChains_keyInjB : keyInjB badCommaChains = false ∧ keyInjB badBraceChains = false := by decide +kernel

end Ndn.Lvs
