import NdnProofs.Lemmas.Lvs.Edge
/-!
  `matchTree` against the denotation `Path`; `matchIter` on sane models; `checkCore` against `Signs`.
-/
namespace Ndn.Lvs

theorem mem_edgeOuts {m : Model} {g : EdgeFn} {rest : List Bytes} {c : Bytes} {σ : Ctx} {pe : PEdge}
    {x : Nat × Ctx} :
    x ∈ edgeOuts m g rest c σ pe ↔
      ∃ σ₁ mt d, g pe c σ = .ok (some (σ₁, mt)) ∧ pe.dest = some d ∧ x ∈ matchTreeG m g rest d σ₁ := by
  unfold edgeOuts
  cases hg : g pe c σ with
  | error e => simp
  | ok r =>
    cases r with
    | none => simp
    | some p =>
      obtain ⟨σ₁, mt⟩ := p
      cases hd : pe.dest with
      | none => simp
      | some d => simp

/-- soundness: whatever the recursive matcher reports is a path of the specification -/
theorem matchTree_sound (m : Model) (env : FnEnv) (name : List Bytes) :
    ∀ (n : Nat) (σ : Ctx) (n' : Nat) (σ' : Ctx), (n', σ') ∈ matchTree m env name n σ →
      Path m (pureOf env) n σ name n' σ' := by
  unfold matchTree
  induction name with
  | nil =>
    intro n σ n' σ' h
    simp [matchTreeG] at h
    obtain ⟨rfl, rfl⟩ := h
    exact Path.nil _ _
  | cons c rest ih =>
    intro n σ n' σ' h
    cases hn : m.nodes[n]? with
    | none => simp [matchTreeG, hn] at h
    | some node =>
      rw [matchTreeG_cons m _ c rest n σ node hn, List.mem_append] at h
      rcases h with h | h
      · cases hf : firstV node.vEdges c with
        | none => simp [hf] at h
        | some dv =>
          cases dv with
          | none => simp [hf] at h
          | some d =>
            simp only [hf] at h
            obtain ⟨ve, hve, hval, hdest⟩ := firstV_some hf
            exact Path.value hn hve hval hdest (ih d σ n' σ' h)
      · obtain ⟨pe, hpe, hx⟩ := List.mem_flatMap.mp h
        obtain ⟨σ₁, mt, d, hg, hd, hx⟩ := mem_edgeOuts.mp hx
        have hacc := (tryEdge_ok_iff env m.namedCnt pe c σ σ₁ _ hg).mp ⟨mt, rfl⟩
        exact Path.pattern hn hpe hd hacc (ih d σ₁ n' σ' hx)

theorem firstV_of_mem {ves : List VEdge} {c : Bytes} {ve : VEdge} (hm : ve ∈ ves) (hv : ve.value = some c) :
    ∃ ve' ∈ ves, ve'.value = some c ∧ firstV ves c = some ve'.dest := by
  induction ves with
  | nil => simp at hm
  | cons x r ih =>
    by_cases hx : x.value = some c
    · exact ⟨x, by simp, hx, by simp [firstV, hx]⟩
    · rcases List.mem_cons.mp hm with rfl | hm
      · exact absurd hv hx
      · obtain ⟨ve', hm', hv', hf⟩ := ih hm
        exact ⟨ve', List.mem_cons_of_mem _ hm', hv', by simp [firstV, hx, hf]⟩

/-- completeness: every path of the specification from a reachable node is reported -/
theorem matchTree_complete (m : Model) (env : FnEnv) (hg : EdgeTotal m (edgeFn m env)) (hv : VDet m)
    {n : Nat} {σ : Ctx} {name : List Bytes} {n' : Nat} {σ' : Ctx}
    (hp : Path m (pureOf env) n σ name n' σ') (hr : Reach m n) :
    (n', σ') ∈ matchTree m env name n σ := by
  unfold matchTree
  induction hp with
  | nil n σ => simp [matchTreeG]
  | @value n σ c rest n' σ' node ve d hn hve hval hdest _ ih =>
    rw [matchTreeG_cons m _ c rest n σ node hn, List.mem_append]
    left
    obtain ⟨ve', hm', hv', hf⟩ := firstV_of_mem hve hval
    have hdd : ve'.dest = some d := by rw [hv n node hn ve' ve hm' hve c hv' hval, hdest]
    rw [hf, hdd]
    exact ih (Reach.edge hr hn (hdest ▸ vdest_mem_dests hve))
  | @pattern n σ c rest n' σ' node pe d σ₁ hn hpe hdest hacc _ ih =>
    rw [matchTreeG_cons m _ c rest n σ node hn, List.mem_append]
    right
    obtain ⟨r, hgr⟩ := hg n node pe hr hn hpe c σ
    obtain ⟨mt, hmt⟩ := (tryEdge_ok_iff env m.namedCnt pe c σ σ₁ r hgr).mpr hacc
    subst hmt
    refine List.mem_flatMap.mpr ⟨pe, hpe, mem_edgeOuts.mpr ⟨σ₁, mt, d, hgr, hdest, ?_⟩⟩
    exact ih (Reach.edge hr hn (hdest ▸ pdest_mem_dests hpe))

/-! ### the iterative matcher on sane models -/

/-- structural sanity is all the search needs to end within the bound, whatever the user functions do -/
theorem matchIter_halts (m : Model) (ht : TreeOK m) (env : FnEnv) (name : List Bytes) (σ : Ctx) :
    (matchIter m env name σ).cur = none := by
  unfold matchIter
  obtain ⟨k, hk, ei, hrun⟩ := run_from_start (name := name) ht (refuseErr_total m (edgeFn m env))
    (refuseErr_disc _ (edgeDisc_tryEdge env m.namedCnt)) σ
  have hfin : runG m (refuseErr (edgeFn m env)) name (stepBound (maxPE m) name.length) (initSt m σ)
      = runG m (refuseErr (edgeFn m env)) name k (initSt m σ) :=
    runG_of_le _ _ _ _ _ _ hk (by rw [hrun])
  rcases runG_sim m (edgeFn m env) name (stepBound (maxPE m) name.length) (initSt m σ) with h | ⟨j, e, _, h⟩
  · rw [h, hfin, hrun]
  · rw [h]; rfl

/-- if no exception left the search, it yielded exactly what the recursive matcher computes -/
theorem matchIter_outs_of_no_err (m : Model) (ht : TreeOK m) (env : FnEnv) (name : List Bytes) (σ : Ctx)
    (hne : (matchIter m env name σ).err = none) :
    (matchIter m env name σ).outs = matchTree m env name m.startId σ ∧
    (matchIter m env name σ).ctx = σ := by
  unfold matchIter at hne ⊢
  obtain ⟨k, hk, ei, hrun⟩ := run_from_start (name := name) ht (refuseErr_total m (edgeFn m env))
    (refuseErr_disc _ (edgeDisc_tryEdge env m.namedCnt)) σ
  have hfin : runG m (refuseErr (edgeFn m env)) name (stepBound (maxPE m) name.length) (initSt m σ)
      = runG m (refuseErr (edgeFn m env)) name k (initSt m σ) :=
    runG_of_le _ _ _ _ _ _ hk (by rw [hrun])
  rcases runG_sim m (edgeFn m env) name (stepBound (maxPE m) name.length) (initSt m σ) with h | ⟨j, e, _, h⟩
  · rw [h, hfin, hrun]
    exact ⟨matchTreeG_refuseErr m _ name _ σ, rfl⟩
  · rw [h] at hne; simp [St.fail] at hne

/-- sane model, total user functions: no exception -/
theorem matchIter_no_err (m : Model) (hs : Sane m) (env : FnEnv) (henv : EnvTotal env)
    (name : List Bytes) (σ : Ctx) : (matchIter m env name σ).err = none := by
  unfold matchIter
  obtain ⟨k, hk, ei, hrun⟩ := run_from_start (name := name) hs.treeOK (edgeTotal_of_sane hs env henv)
    (edgeDisc_tryEdge env m.namedCnt) σ
  rw [runG_of_le _ _ _ _ _ _ hk (by rw [hrun]), hrun]

/-! ### `check` -/

theorem keyHit_no_err (signers : List Nat) (S : St) (h : S.err = none) :
    keyHit signers S = .ok (S.outs.any (fun o => signers.contains o.1)) := by
  unfold keyHit
  cases hb : S.outs.any (fun o => signers.contains o.1) <;> simp [h]

theorem checkLoop_no_err (m : Model) (env : FnEnv) (key : List Bytes)
    (hne : ∀ σ, (matchIter m env key σ).err = none) (l : List (Nat × Ctx)) :
    checkLoop m env key l none =
      .ok (l.any (fun p => (matchIter m env key p.2).outs.any (fun o => (signersOf m p.1).contains o.1))) := by
  induction l with
  | nil => rfl
  | cons p r ih =>
    obtain ⟨pn, σ⟩ := p
    simp only [checkLoop, keyHit_no_err _ _ (hne σ), List.any_cons]
    cases hb : (matchIter m env key σ).outs.any (fun o => (signersOf m pn).contains o.1)
    · simpa using ih
    · simp

/-- **check on stripped names** against the signing relation of the specification -/
theorem checkCore_iff (m : Model) (hs : Sane m) (hv : VDet m) (env : FnEnv) (henv : EnvTotal env)
    (pkt key : List Bytes) :
    ∃ b, checkCore m env pkt key = .ok b ∧ (b = true ↔ Signs m (pureOf env) pkt key) := by
  have hne : ∀ nm σ, (matchIter m env nm σ).err = none := fun nm σ => matchIter_no_err m hs env henv nm σ
  have houts : ∀ nm σ, (matchIter m env nm σ).outs = matchTree m env nm m.startId σ :=
    fun nm σ => (matchIter_outs_of_no_err m hs.treeOK env nm σ (hne nm σ)).1
  have hgt := edgeTotal_of_sane hs env henv
  refine ⟨_, by unfold checkCore; simp only [hne pkt []]; exact checkLoop_no_err m env key (hne key) _, ?_⟩
  rw [List.any_eq_true]
  constructor
  · rintro ⟨⟨pn, σ⟩, hp, hk⟩
    rw [List.any_eq_true] at hk
    obtain ⟨⟨kn, σ'⟩, hkm, hsig⟩ := hk
    rw [houts] at hp hkm
    simp only [List.contains_iff_mem] at hsig
    unfold signersOf at hsig
    cases hpn : m.nodes[pn]? with
    | none => simp [hpn] at hsig
    | some pnode =>
      simp only [hpn] at hsig
      exact ⟨pn, σ, pnode, kn, σ', matchTree_sound m env pkt _ _ _ _ hp, hpn,
        matchTree_sound m env key _ _ _ _ hkm, hsig⟩
  · rintro ⟨pn, σ, pnode, kn, σ', hp, hpn, hk, hsig⟩
    refine ⟨(pn, σ), ?_, ?_⟩
    · rw [houts]; exact matchTree_complete m env hgt hv hp Reach.start
    · rw [List.any_eq_true]
      refine ⟨(kn, σ'), ?_, ?_⟩
      · rw [houts]; exact matchTree_complete m env hgt hv hk Reach.start
      · simp [signersOf, hpn, hsig]

/-! ### any `user_fns` dictionary: what was yielded before an exception is still right -/

theorem stepG_outs (m : Model) (g : EdgeFn) (name : List Bytes) (S : St) :
    ∃ l, (stepG m g name S).outs = S.outs ++ l := by
  unfold stepG
  cases S.cur with
  | none => exact ⟨[], by simp⟩
  | some cur =>
    simp only
    cases m.nodes[cur]? with
    | none => exact ⟨[], by simp [St.fail]⟩
    | some node =>
      simp only
      split
      · exact ⟨[(cur, S.ctx)], by simp [backtrack]⟩
      · cases name[S.stk.length]? with
        | none => exact ⟨[], by simp [St.fail]⟩
        | some c =>
          simp only
          cases S.ei with
          | none =>
            simp only
            cases firstV node.vEdges c <;> exact ⟨[], by simp⟩
          | some i =>
            simp only
            cases node.pEdges[i]? with
            | none => exact ⟨[], by simp [backtrack]⟩
            | some pe =>
              simp only
              cases g pe c S.ctx with
              | error e => exact ⟨[], by simp [St.fail]⟩
              | ok r =>
                cases r with
                | none => exact ⟨[], by simp⟩
                | some p => exact ⟨[], by simp⟩

theorem runG_outs (m : Model) (g : EdgeFn) (name : List Bytes) (j d : Nat) (S : St) :
    ∃ l, (runG m g name (j + d) S).outs = (runG m g name j S).outs ++ l := by
  induction d with
  | zero => exact ⟨[], by simp⟩
  | succ d ih =>
    obtain ⟨l, hl⟩ := ih
    rw [show j + (d + 1) = (j + d) + 1 by omega, runG_add, runG_one]
    obtain ⟨l', hl'⟩ := stepG_outs m g name (runG m g name (j + d) S)
    exact ⟨l ++ l', by rw [hl', hl, List.append_assoc]⟩

/-- whatever the user functions do, everything the iterative search yields is something the recursive
    matcher computes — hence a match of the specification -/
theorem matchIter_outs_subset (m : Model) (ht : TreeOK m) (env : FnEnv) (name : List Bytes) (σ : Ctx)
    (x : Nat × Ctx) (hx : x ∈ (matchIter m env name σ).outs) : x ∈ matchTree m env name m.startId σ := by
  unfold matchIter at hx
  obtain ⟨k, hk, ei, hrun⟩ := run_from_start (name := name) ht (refuseErr_total m (edgeFn m env))
    (refuseErr_disc _ (edgeDisc_tryEdge env m.namedCnt)) σ
  have hfin : runG m (refuseErr (edgeFn m env)) name (stepBound (maxPE m) name.length) (initSt m σ)
      = runG m (refuseErr (edgeFn m env)) name k (initSt m σ) :=
    runG_of_le _ _ _ _ _ _ hk (by rw [hrun])
  have hall : (runG m (refuseErr (edgeFn m env)) name (stepBound (maxPE m) name.length) (initSt m σ)).outs
      = matchTree m env name m.startId σ := by
    rw [hfin, hrun]; exact matchTreeG_refuseErr m _ name _ σ
  rcases runG_sim m (edgeFn m env) name (stepBound (maxPE m) name.length) (initSt m σ) with h | ⟨j, e, hj, h⟩
  · rw [h, hall] at hx; exact hx
  · rw [h] at hx
    obtain ⟨d, hd⟩ := Nat.exists_eq_add_of_le (Nat.le_of_lt hj)
    obtain ⟨l, hl⟩ := runG_outs m (refuseErr (edgeFn m env)) name j d (initSt m σ)
    rw [← hd, hall] at hl
    rw [hl]
    exact List.mem_append_left _ hx

theorem checkLoop_true_sound (m : Model) (env : FnEnv) (key : List Bytes) (l : List (Nat × Ctx))
    (oe : Option LvsErr) (h : checkLoop m env key l oe = .ok true) :
    ∃ p ∈ l, ∃ o ∈ (matchIter m env key p.2).outs, o.1 ∈ signersOf m p.1 := by
  induction l with
  | nil => cases oe <;> simp [checkLoop] at h
  | cons p r ih =>
    obtain ⟨pn, σ⟩ := p
    simp only [checkLoop] at h
    cases hk : keyHit (signersOf m pn) (matchIter m env key σ) with
    | error e => simp [hk] at h
    | ok b =>
      cases b with
      | true =>
        unfold keyHit at hk
        split at hk
        · rename_i hany
          rw [List.any_eq_true] at hany
          obtain ⟨o, ho, hc⟩ := hany
          exact ⟨(pn, σ), by simp, o, ho, by simpa using hc⟩
        · split at hk <;> simp at hk
      | false =>
        simp only [hk] at h
        obtain ⟨p, hp, rest⟩ := ih h
        exact ⟨p, List.mem_cons_of_mem _ hp, rest⟩

/-- **a yes is always justified**, whatever the user functions do -/
theorem checkCore_true_sound (m : Model) (hs : Sane m) (env : FnEnv) (pkt key : List Bytes)
    (h : checkCore m env pkt key = .ok true) : Signs m (pureOf env) pkt key := by
  unfold checkCore at h
  obtain ⟨⟨pn, σ⟩, hp, ⟨kn, σ'⟩, hk, hsig⟩ := checkLoop_true_sound m env key _ _ h
  have hp' := matchIter_outs_subset m hs.treeOK env pkt [] _ hp
  have hk' := matchIter_outs_subset m hs.treeOK env key σ _ hk
  unfold signersOf at hsig
  cases hpn : m.nodes[pn]? with
  | none => simp [hpn] at hsig
  | some pnode =>
    simp only [hpn] at hsig
    exact ⟨pn, σ, pnode, kn, σ', matchTree_sound m env pkt _ _ _ _ hp', hpn,
      matchTree_sound m env key _ _ _ _ hk', hsig⟩

theorem stripDigest_eq (name : List Bytes) :
    stripDigest name = (match dropDigest name with | some nm => .ok nm | none => .error .indexError) := by
  unfold stripDigest dropDigest
  cases name.getLast? with
  | none => rfl
  | some c =>
    simp only
    cases parseTlNum c 0 with
    | error e => rfl
    | ok p =>
      obtain ⟨t, sz⟩ := p
      by_cases ht : t = 1
      · subst ht; simp
      · simp only [ht, if_false]
        split
        · rename_i heq; simp at heq; exact absurd heq.1 ht
        · rfl
        · rename_i heq; simp at heq

end Ndn.Lvs
