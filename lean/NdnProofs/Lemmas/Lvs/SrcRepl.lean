import NdnProofs.Lemmas.Lvs.SrcFresh
/-!
  Pass 3 (`_replicate_rules`): the chains of a rule implement exactly the expansions of its definitions.

  `Prog … post nt ch fp`: while the name of a rule is walked through (`post` is what is left of it), the chain `ch`
  implements the definition truncated to the part already walked (`fp`), its temporary numbers are pairwise distinct,
  larger than the next fresh number `nt`, different from the numbers of the temporary patterns still to come, and the
  inlined constraint terms mention none of the rule's own temporary numbers.
-/
namespace Ndn.Lvs

theorem All2.append {α β : Type} {R : α → β → Prop} {a₁ a₂ : List α} {b₁ b₂ : List β}
    (h1 : All2 R a₁ b₁) (h2 : All2 R a₂ b₂) : All2 R (a₁ ++ a₂) (b₁ ++ b₂) := by
  induction h1 with
  | nil => exact h2
  | cons hr _ ih => exact .cons hr ih

def Flat.app (a b : Flat) : Flat := ⟨a.items ++ b.items, a.ncons ++ b.ncons⟩
def Flat.one (it : SItem) : Flat := ⟨[it], []⟩
def Flat.empty : Flat := ⟨[], []⟩

theorem Flat.app_assoc (a b c : Flat) : (a.app b).app c = a.app (b.app c) := by
  simp [Flat.app, List.append_assoc]

theorem Flat.app_empty (a : Flat) : a.app Flat.empty = a := by
  simp [Flat.app, Flat.empty]

theorem Flat.empty_app (a : Flat) : Flat.empty.app a = a := by
  simp [Flat.app, Flat.empty]

theorem expands_iff {S : Schema} {q : String} {f : Flat} :
    Expands S q f ↔ ∃ r ∈ S.rules, r.id = q ∧ ExpandsDef S r f := by
  constructor
  · intro h
    cases h with
    | mk h1 h2 h3 => exact ⟨_, h1, rfl, _, h2, _, h3, rfl⟩
  · rintro ⟨r, hr, rfl, cs, hcs, f0, h0, rfl⟩
    exact .mk hr hcs h0

/-! ### the state of one chain while the name of its rule is walked through -/

/-- `chain.name + fresh_chain.name`, `chain.cons_set + fresh_chain.cons_set` -/
def joinChain (rid : String) (ch fr : Chain) : Chain :=
  { id := rid, name := ch.name ++ fr.name, cons := ch.cons ++ fr.cons, sign := ch.sign }

/-- a chain of `rep_rules`: its temporary numbers are pairwise distinct and its terms mention only them -/
structure ChainClosed (c : Chain) : Prop where
  nodup : (negTags c.name).Nodup
  closed : ∀ t ∈ termNegs c.cons, t ∈ negTags c.name

/-- the next fresh number is below every number in use -/
structure NtOK (nt : Int) (own later : List Int) : Prop where
  neg : nt < 0
  own : ∀ t ∈ own, nt < t
  later : ∀ t ∈ later, nt < t

theorem NtOK.mono {nt nt' : Int} {own later : List Int} (h : NtOK nt own later) (hle : nt' ≤ nt) : NtOK nt' own later :=
  ⟨by have := h.neg; omega, fun t ht => by have := h.own t ht; omega, fun t ht => by have := h.later t ht; omega⟩

structure Prog (F : List String) (own later : List Int) (cs : List (Term String String)) (ncs : List NTerm)
    (post : List (Comp Int)) (nt : Int) (ch : Chain) (fp : Flat) : Prop where
  impl : Impl F ch ⟨fp.items, namedCons cs ++ fp.ncons⟩
  nodup : (negTags ch.name).Nodup
  cons : ∃ inl, ch.cons = ncs ++ inl ∧ ∀ t ∈ termNegs inl, t ∈ negTags ch.name ∧ t ∉ own
  tags : ∀ t ∈ negTags ch.name, nt < t ∧ t ∉ negsOf post ∧ t ∉ later
  ownIn : ∀ t ∈ own, t ∉ negsOf post → t ∈ negTags ch.name

theorem Prog.mono {F : List String} {own later : List Int} {cs : List (Term String String)} {ncs : List NTerm}
    {post : List (Comp Int)} {nt nt' : Int} {ch : Chain} {fp : Flat} (h : Prog F own later cs ncs post nt ch fp)
    (hle : nt' ≤ nt) : Prog F own later cs ncs post nt' ch fp :=
  ⟨h.impl, h.nodup, h.cons, fun t ht => by have := h.tags t ht; exact ⟨by omega, this.2⟩, h.ownIn⟩

theorem negTags_snoc_lit (l : List Atom) (v : Bytes) : negTags (l ++ [.lit v]) = negTags l := by
  rw [negTags_append, negTags_cons_lit]; simp [negTags, atomTags]

theorem negTags_snoc_pat (l : List Atom) (t : Int) :
    negTags (l ++ [.pat t]) = if t < 0 then negTags l ++ [t] else negTags l := by
  rw [negTags_append, negTags_cons_pat]
  split <;> simp [negTags, atomTags]

theorem impl_snoc {F : List String} {ch : Chain} {items : List SItem} {N : List (String × List (Opt String))}
    {a : Atom} {it : SItem} (h : Impl F ch ⟨items, N⟩) (hit : ItemNum F it (resItem ch.cons a)) :
    Impl F (ch.snoc a) ⟨items ++ [it], N⟩ := by
  refine ⟨?_, h.2⟩
  simp only [Chain.snoc, List.map_append, List.map_cons, List.map_nil]
  exact h.1.append (.cons hit .nil)

/-- a literal component is appended -/
theorem Prog.lit {F : List String} {own later : List Int} {cs : List (Term String String)} {ncs : List NTerm}
    {post : List (Comp Int)} {nt : Int} {ch : Chain} {fp : Flat} {v : Bytes}
    (h : Prog F own later cs ncs (.lit v :: post) nt ch fp) :
    Prog F own later cs ncs post nt (ch.snoc (.lit v)) (fp.app (Flat.one (.lit v))) := by
  have hname : (ch.snoc (.lit v)).name = ch.name ++ [.lit v] := rfl
  have hcons : (ch.snoc (.lit v)).cons = ch.cons := rfl
  refine ⟨?_, ?_, ?_, ?_, ?_⟩
  · have := impl_snoc (a := .lit v) h.impl (.lit v)
    simpa [Flat.app, Flat.one] using this
  · rw [hname, negTags_snoc_lit]; exact h.nodup
  · rw [hcons, hname, negTags_snoc_lit]; exact h.cons
  · rw [hname, negTags_snoc_lit]
    intro t ht
    have := h.tags t ht
    rw [negsOf_cons_lit] at this
    exact this
  · rw [hname, negTags_snoc_lit]
    intro t ht hn
    exact h.ownIn t ht (by rw [negsOf_cons_lit]; exact hn)

/-- a named pattern is appended -/
theorem Prog.named {F : List String} {own later : List Int} {cs : List (Term String String)} {ncs : List NTerm}
    {post : List (Comp Int)} {nt : Int} {ch : Chain} {fp : Flat} {x : String} (hx : isTempPat x = false) (hxF : x ∈ F)
    (h : Prog F own later cs ncs (.pat (tagIn F x) :: post) nt ch fp) :
    Prog F own later cs ncs post nt (ch.snoc (.pat (tagIn F x))) (fp.app (Flat.one (.named x))) := by
  have hname : (ch.snoc (.pat (tagIn F x))).name = ch.name ++ [.pat (tagIn F x)] := rfl
  have hcons : (ch.snoc (.pat (tagIn F x))).cons = ch.cons := rfl
  have hnn : ¬ tagIn F x < 0 := by have := tagIn_pos F x; omega
  have hpost : negsOf (.pat (tagIn F x) :: post) = negsOf post := by rw [negsOf_cons_pat]; simp [hnn]
  refine ⟨?_, ?_, ?_, ?_, ?_⟩
  · have := impl_snoc (a := .pat (tagIn F x)) (it := .named x) h.impl (by
      simp only [resItem, hnn, if_false]; exact .named x hx hxF)
    simpa [Flat.app, Flat.one] using this
  · rw [hname, negTags_snoc_pat]; simp only [hnn, if_false]; exact h.nodup
  · rw [hcons, hname, negTags_snoc_pat]; simp only [hnn, if_false]; exact h.cons
  · rw [hname, negTags_snoc_pat]; simp only [hnn, if_false]
    intro t ht
    have := h.tags t ht
    rw [hpost] at this
    exact this
  · rw [hname, negTags_snoc_pat]; simp only [hnn, if_false]
    intro t ht hn
    exact h.ownIn t ht (by rw [hpost]; exact hn)

/-- one of the rule's own temporary patterns is appended -/
theorem Prog.temp {F : List String} {tp : PyDict String (List Int)} {own later : List Int}
    {cs : List (Term String String)} {ncs : List NTerm} {post : List (Comp Int)} {nt : Int} {ch : Chain} {fp : Flat}
    {p : String} {t : Int} (hp : isTempPat p = true) (ht : t < 0)
    (hfact : ∀ p' l, PyDict.get? tp p' = some l → (t ∈ l ↔ p' = p))
    (hnum : All2 (fun a b => numTerm F tp a = .ok b) cs ncs)
    (hown : t ∈ own) (hdisj : ∀ u ∈ own, u ∉ later) (hnt : nt < t) (hpnd : (negsOf (.pat t :: post)).Nodup)
    (h : Prog F own later cs ncs (.pat t :: post) nt ch fp) :
    Prog F own later cs ncs post nt (ch.snoc (.pat t)) (fp.app (Flat.one (.temp (tempCons cs p)))) := by
  have hname : (ch.snoc (.pat t)).name = ch.name ++ [.pat t] := rfl
  have hcons : (ch.snoc (.pat t)).cons = ch.cons := rfl
  have hpost : negsOf (.pat t :: post) = t :: negsOf post := by rw [negsOf_cons_pat]; simp [ht]
  rw [hpost] at hpnd
  obtain ⟨inl, hinl, hinlp⟩ := h.cons
  have htn : t ∉ negTags ch.name := fun hm => (h.tags t hm).2.1 (by rw [hpost]; exact List.mem_cons_self)
  refine ⟨?_, ?_, ?_, ?_, ?_⟩
  · have hit : ItemNum F (.temp (tempCons cs p)) (resItem ch.cons (.pat t)) := by
      simp only [resItem, ht, if_true, hinl, List.filter_append,
        filter_contains_nil ht (fun hm => (hinlp t hm).2 hown), List.append_nil]
      exact .temp _ _ (own_temp_filter hp ht hfact hnum)
    have := impl_snoc (a := .pat t) h.impl hit
    simpa [Flat.app, Flat.one] using this
  · rw [hname, negTags_snoc_pat]; simp only [ht, if_true]
    rw [List.nodup_append]
    refine ⟨h.nodup, by simp, fun a ha b hb => ?_⟩
    simp only [List.mem_singleton] at hb; subst hb
    exact fun he => htn (he ▸ ha)
  · rw [hcons, hname, negTags_snoc_pat]; simp only [ht, if_true]
    exact ⟨inl, hinl, fun u hu => ⟨List.mem_append_left _ (hinlp u hu).1, (hinlp u hu).2⟩⟩
  · rw [hname, negTags_snoc_pat]; simp only [ht, if_true]
    intro u hu
    rcases List.mem_append.mp hu with hu | hu
    · have := h.tags u hu
      rw [hpost] at this
      exact ⟨this.1, fun hm => this.2.1 (List.mem_cons_of_mem _ hm), this.2.2⟩
    · simp only [List.mem_singleton] at hu; subst hu
      exact ⟨hnt, (List.nodup_cons.mp hpnd).1, hdisj _ hown⟩
  · rw [hname, negTags_snoc_pat]; simp only [ht, if_true]
    intro u hu hn
    by_cases hut : u = t
    · subst hut; exact List.mem_append_right _ (by simp)
    · exact List.mem_append_left _ (h.ownIn u hu (by
        rw [hpost]; simp only [List.mem_cons, not_or]; exact ⟨hut, hn⟩))

theorem negTags_sub_tags {c : Chain} {t : Int} (h : t ∈ negTags c.name) : t ∈ c.tags := by
  unfold negTags atomTags at h
  exact (List.mem_filter.mp h).1

theorem nodup_map_on {ρ : Int → Int} : ∀ {l : List Int}, l.Nodup → (∀ t ∈ l, ∀ u ∈ l, ρ t = ρ u → t = u) →
    (l.map ρ).Nodup := by
  intro l
  induction l with
  | nil => intro _ _; simp
  | cons a r ih =>
    intro hnd hinj
    rw [List.map_cons, List.nodup_cons]
    refine ⟨?_, ih (List.nodup_cons.mp hnd).2 (fun t ht u hu => hinj t (List.mem_cons_of_mem _ ht) u (List.mem_cons_of_mem _ hu))⟩
    intro hm
    obtain ⟨u, hu, he⟩ := List.mem_map.mp hm
    have := hinj u (List.mem_cons_of_mem _ hu) a List.mem_cons_self he
    subst this
    exact (List.nodup_cons.mp hnd).1 hu

/-- a chain of a referenced rule is inlined (with fresh temporary numbers where needed) -/
theorem Prog.inline {F : List String} {own later : List Int} {cs : List (Term String String)} {ncs : List NTerm}
    {post : List (Comp Int)} {nt : Int} {ch : Chain} {fp : Flat} {q rid : String} {refc : Chain} {g : Flat}
    (hnt : NtOK nt own later) (hpost : ∀ t ∈ negsOf post, t ∈ own)
    (hncs : ∀ t ∈ termNegs ncs, t ∈ own)
    (hcl : ChainClosed refc) (hrt : ∀ t ∈ negTags refc.name, nt < t ∧ t ∉ own ∧ t ∉ later) (hg : Impl F refc g)
    (h : Prog F own later cs ncs (.ref q :: post) nt ch fp) :
    Prog F own later cs ncs post (freshTempTags ch refc nt).2 (joinChain rid ch (freshTempTags ch refc nt).1) (fp.app g) := by
  obtain ⟨ρ, hle, hfn, hfc, _, _, hren, hval⟩ :=
    freshTempTags_spec ch refc nt hnt.neg hcl.nodup (fun t ht => (hrt t ht).1)
  obtain ⟨inl, hinl, hinlp⟩ := h.cons
  have hpostEq : negsOf (.ref q :: post) = negsOf post := negsOf_cons_ref q post
  -- the renamed numbers
  have hρfacts : ∀ u ∈ negTags refc.name, ρ u ∉ negTags ch.name ∧ ρ u ∉ own ∧ ρ u ∉ later ∧
      (freshTempTags ch refc nt).2 < ρ u := by
    intro u hu
    rcases hval u hu with ⟨hnu, he⟩ | ⟨hlt, hlen⟩
    · rw [he]
      exact ⟨fun hm => hnu (negTags_sub_tags hm), (hrt u hu).2.1, (hrt u hu).2.2, by have := (hrt u hu).1; omega⟩
    · refine ⟨fun hm => ?_, fun hm => ?_, fun hm => ?_, hlt⟩
      · have := (h.tags _ hm).1; omega
      · have := hnt.own _ hm; omega
      · have := hnt.later _ hm; omega
  have hfrTags : negTags (freshTempTags ch refc nt).1.name = (negTags refc.name).map ρ := by
    rw [hfn]; exact negTags_rename hren
  have hfrTerm : ∀ t ∈ termNegs (freshTempTags ch refc nt).1.cons, ∃ u ∈ negTags refc.name, t = ρ u := by
    rw [hfc]; exact termNegs_rename hren hcl.closed
  -- the terms of `ch` mention own numbers or numbers of `ch`
  have hchTerm : ∀ t ∈ termNegs ch.cons, t ∈ own ∨ t ∈ negTags ch.name := by
    intro t ht
    rw [hinl, termNegs_append] at ht
    rcases List.mem_append.mp ht with ht | ht
    · exact Or.inl (hncs t ht)
    · exact Or.inr (hinlp t ht).1
  have hd1 : ∀ t ∈ negTags ch.name, t ∉ termNegs (freshTempTags ch refc nt).1.cons := by
    intro t ht hm
    obtain ⟨u, hu, rfl⟩ := hfrTerm t hm
    exact (hρfacts u hu).1 ht
  have hd2 : ∀ t ∈ negTags (freshTempTags ch refc nt).1.name, t ∉ termNegs ch.cons := by
    intro t ht hm
    rw [hfrTags, List.mem_map] at ht
    obtain ⟨u, hu, rfl⟩ := ht
    rcases hchTerm _ hm with h1 | h1
    · exact (hρfacts u hu).2.1 h1
    · exact (hρfacts u hu).1 h1
  have hjn : (joinChain rid ch (freshTempTags ch refc nt).1).name = ch.name ++ (freshTempTags ch refc nt).1.name := rfl
  have hjc : (joinChain rid ch (freshTempTags ch refc nt).1).cons = ch.cons ++ (freshTempTags ch refc nt).1.cons := rfl
  have hjt : negTags (joinChain rid ch (freshTempTags ch refc nt).1).name = negTags ch.name ++ (negTags refc.name).map ρ := by
    rw [hjn, negTags_append, hfrTags]
  refine ⟨⟨?_, ?_⟩, ?_, ?_, ?_, ?_⟩
  · show All2 (ItemNum F) (fp.items ++ g.items) _
    rw [hjn, hjc, List.map_append, resItems_append_right _ _ _ hd1, resItems_append_left _ _ _ hd2]
    have : (freshTempTags ch refc nt).1.name.map (resItem (freshTempTags ch refc nt).1.cons) =
        refc.name.map (resItem refc.cons) := by
      rw [hfn, hfc]; exact resItems_rename hren hcl.closed
    rw [this]
    exact h.impl.1.append hg.1
  · show All2 (NconsNum F) (namedCons cs ++ (fp.ncons ++ g.ncons)) _
    rw [hjc, resCons_append, hfc, resCons_rename hren hcl.closed, ← List.append_assoc]
    exact h.impl.2.append hg.2
  · rw [hjt, List.nodup_append]
    refine ⟨h.nodup, nodup_map_on hcl.nodup hren.inj, fun a ha b hb => ?_⟩
    obtain ⟨u, hu, rfl⟩ := List.mem_map.mp hb
    exact fun he => (hρfacts u hu).1 (he ▸ ha)
  · refine ⟨inl ++ (freshTempTags ch refc nt).1.cons, by rw [hjc, hinl, List.append_assoc], ?_⟩
    intro t ht
    rw [termNegs_append] at ht
    rw [hjt]
    rcases List.mem_append.mp ht with ht | ht
    · exact ⟨List.mem_append_left _ (hinlp t ht).1, (hinlp t ht).2⟩
    · obtain ⟨u, hu, rfl⟩ := hfrTerm t ht
      exact ⟨List.mem_append_right _ (List.mem_map_of_mem hu), (hρfacts u hu).2.1⟩
  · rw [hjt]
    intro t ht
    rcases List.mem_append.mp ht with ht | ht
    · have := h.tags t ht
      rw [hpostEq] at this
      exact ⟨by omega, this.2⟩
    · obtain ⟨u, hu, rfl⟩ := List.mem_map.mp ht
      exact ⟨(hρfacts u hu).2.2.2, fun hm => (hρfacts u hu).2.1 (hpost _ hm), (hρfacts u hu).2.2.1⟩
  · rw [hjt]
    intro t ht hn
    exact List.mem_append_left _ (h.ownIn t ht (by rw [hpostEq]; exact hn))

/-! ### the two loops of the comprehension -/

theorem freshName_le (used : List Int) : ∀ (name : List Atom) (nt : Int) (mp : PyDict Int Int),
    (freshName used name nt mp).2.1 ≤ nt := by
  intro name
  induction name with
  | nil => intro nt mp; simp [freshName]
  | cons a r ih =>
    intro nt mp
    cases a with
    | lit v => simp only [freshName]; exact ih nt mp
    | pat t =>
      simp only [freshName]
      split
      · exact Int.le_trans (ih (nt - 1) (PyDict.set mp t nt)) (by omega)
      · exact ih nt mp

theorem freshTempTags_le (ch ref : Chain) (nt : Int) : (freshTempTags ch ref nt).2 ≤ nt := by
  unfold freshTempTags
  exact freshName_le _ _ _ _

theorem inlineInner_mem (rid : String) (refc : Chain) : ∀ (cur : List Chain) (nt : Int),
    (inlineInner rid refc cur nt).2 ≤ nt ∧
    (∀ ch' ∈ (inlineInner rid refc cur nt).1, ∃ ch ∈ cur, ∃ nt1, nt1 ≤ nt ∧
      (inlineInner rid refc cur nt).2 ≤ (freshTempTags ch refc nt1).2 ∧ ch' = joinChain rid ch (freshTempTags ch refc nt1).1) ∧
    (∀ ch ∈ cur, ∃ nt1, nt1 ≤ nt ∧ (inlineInner rid refc cur nt).2 ≤ (freshTempTags ch refc nt1).2 ∧
      joinChain rid ch (freshTempTags ch refc nt1).1 ∈ (inlineInner rid refc cur nt).1) := by
  intro cur
  induction cur with
  | nil => intro nt; simp [inlineInner]
  | cons c r ih =>
    intro nt
    obtain ⟨i1, i2, i3⟩ := ih (freshTempTags c refc nt).2
    have hle := freshTempTags_le c refc nt
    simp only [inlineInner]
    refine ⟨by omega, ?_, ?_⟩
    · intro ch' hch'
      rcases List.mem_cons.mp hch' with rfl | hch'
      · exact ⟨c, List.mem_cons_self, nt, Int.le_refl _, i1, rfl⟩
      · obtain ⟨ch, hch, nt1, h1, h2, h3⟩ := i2 ch' hch'
        exact ⟨ch, List.mem_cons_of_mem _ hch, nt1, by omega, h2, h3⟩
    · intro ch hch
      rcases List.mem_cons.mp hch with rfl | hch
      · exact ⟨nt, Int.le_refl _, i1, List.mem_cons_self⟩
      · obtain ⟨nt1, h1, h2, h3⟩ := i3 ch hch
        exact ⟨nt1, by omega, h2, List.mem_cons_of_mem _ h3⟩

theorem inlineRef_mem (rid : String) : ∀ (reps cur : List Chain) (nt : Int),
    (inlineRef rid reps cur nt).2 ≤ nt ∧
    (∀ ch' ∈ (inlineRef rid reps cur nt).1, ∃ refc ∈ reps, ∃ ch ∈ cur, ∃ nt1, nt1 ≤ nt ∧
      (inlineRef rid reps cur nt).2 ≤ (freshTempTags ch refc nt1).2 ∧ ch' = joinChain rid ch (freshTempTags ch refc nt1).1) ∧
    (∀ refc ∈ reps, ∀ ch ∈ cur, ∃ nt1, nt1 ≤ nt ∧ (inlineRef rid reps cur nt).2 ≤ (freshTempTags ch refc nt1).2 ∧
      joinChain rid ch (freshTempTags ch refc nt1).1 ∈ (inlineRef rid reps cur nt).1) := by
  intro reps
  induction reps with
  | nil => intro cur nt; simp [inlineRef]
  | cons refc rs ih =>
    intro cur nt
    obtain ⟨a1, a2, a3⟩ := inlineInner_mem rid refc cur nt
    obtain ⟨i1, i2, i3⟩ := ih cur (inlineInner rid refc cur nt).2
    simp only [inlineRef]
    refine ⟨by omega, ?_, ?_⟩
    · intro ch' hch'
      rcases List.mem_append.mp hch' with hch' | hch'
      · obtain ⟨ch, hch, nt1, h1, h2, h3⟩ := a2 ch' hch'
        exact ⟨refc, List.mem_cons_self, ch, hch, nt1, h1, by omega, h3⟩
      · obtain ⟨rc, hrc, ch, hch, nt1, h1, h2, h3⟩ := i2 ch' hch'
        exact ⟨rc, List.mem_cons_of_mem _ hrc, ch, hch, nt1, by omega, h2, h3⟩
    · intro rc hrc ch hch
      rcases List.mem_cons.mp hrc with rfl | hrc
      · obtain ⟨nt1, h1, h2, h3⟩ := a3 ch hch
        exact ⟨nt1, h1, by omega, List.mem_append_left _ h3⟩
      · obtain ⟨nt1, h1, h2, h3⟩ := i3 rc hrc ch hch
        exact ⟨nt1, by omega, h2, List.mem_append_right _ h3⟩

/-! ### the loop over the components of a rule's name -/

/-- a constraint set of the rule and its numbered form -/
def AltOK (F : List String) (tp : PyDict String (List Int)) (own : List Int) (cs : List (Term String String))
    (ncs : List NTerm) : Prop :=
  All2 (fun a b => numTerm F tp a = .ok b) cs ncs ∧ ∀ t ∈ termNegs ncs, t ∈ own

/-- the chains stored so far: closed, with temporary numbers above `nt` that no pending rule uses -/
def RepTags (own later : List Int) (nt : Int) (rep : PyDict String (List Chain)) : Prop :=
  ∀ q chains, PyDict.get? rep q = some chains → ∀ c ∈ chains,
    ChainClosed c ∧ ∀ t ∈ negTags c.name, nt < t ∧ t ∉ own ∧ t ∉ later

theorem RepTags.mono {own later : List Int} {nt nt' : Int} {rep : PyDict String (List Chain)}
    (h : RepTags own later nt rep) (hle : nt' ≤ nt) : RepTags own later nt' rep := by
  intro q chains hq c hc
  obtain ⟨h1, h2⟩ := h q chains hq c hc
  exact ⟨h1, fun t ht => by have := h2 t ht; exact ⟨by omega, this.2⟩⟩

theorem one_app (it : SItem) (g : Flat) : (Flat.one it).app g = ⟨it :: g.items, g.ncons⟩ := by
  simp [Flat.one, Flat.app]

theorem expandName_prog {F : List String} {S : Schema} {tp : PyDict String (List Int)} {own later : List Int}
    {rid : String} {rep : PyDict String (List Chain)} (hdisj : ∀ u ∈ own, u ∉ later)
    (hsound : ∀ q chains, PyDict.get? rep q = some chains → ∀ c ∈ chains, ∃ g, Expands S q g ∧ Impl F c g) :
    ∀ {spost : List (Comp String)} {post : List (Comp Int)}, All2 (CompNum F tp) spost post →
    (∀ t ∈ negsOf post, t ∈ own) → (negsOf post).Nodup →
    (∀ q, Comp.ref q ∈ spost → isTempRule q = false ∧ ∀ g, Expands S q g →
      ∃ chains, PyDict.get? rep q = some chains ∧ ∃ c ∈ chains, Impl F c g) →
    ∀ (cur : List Chain) (nt : Int) (res : List Chain) (nt' : Int), NtOK nt own later → RepTags own later nt rep →
    expandName rid rep post cur nt = .ok (res, nt') →
    nt' ≤ nt ∧
    (∀ ch' ∈ res, ∃ ch ∈ cur, ∀ cs ncs fp, AltOK F tp own cs ncs → Prog F own later cs ncs post nt ch fp →
      ∃ g, ExpandsName S cs spost g ∧ Prog F own later cs ncs [] nt' ch' (fp.app g)) ∧
    (∀ ch ∈ cur, ∀ cs ncs fp, AltOK F tp own cs ncs → Prog F own later cs ncs post nt ch fp →
      ∀ g, ExpandsName S cs spost g → ∃ ch' ∈ res, Prog F own later cs ncs [] nt' ch' (fp.app g)) := by
  intro spost post hall
  induction hall with
  | nil =>
    intro _ _ _ cur nt res nt' _ _ h
    simp only [expandName] at h
    injection h with h
    simp only [Prod.mk.injEq] at h
    obtain ⟨rfl, rfl⟩ := h
    refine ⟨Int.le_refl _, fun ch' hch' => ⟨ch', hch', fun cs ncs fp _ hp => ⟨Flat.empty, .nil, ?_⟩⟩,
      fun ch hch cs ncs fp _ hp g hg => ⟨ch, hch, ?_⟩⟩
    · rw [Flat.app_empty]; exact hp
    · cases hg
      exact (Flat.app_empty fp).symm ▸ hp
  | @cons sc c sr r hc hrest ih =>
    intro hpown hpnd hrefs cur nt res nt' hnt hrt h
    have hrefs' : ∀ q, Comp.ref q ∈ sr → isTempRule q = false ∧ ∀ g, Expands S q g →
        ∃ chains, PyDict.get? rep q = some chains ∧ ∃ c ∈ chains, Impl F c g :=
      fun q hq => hrefs q (List.mem_cons_of_mem _ hq)
    cases hc with
    | lit v =>
      rw [negsOf_cons_lit] at hpown hpnd
      simp only [expandName] at h
      obtain ⟨i1, i2, i3⟩ := ih hpown hpnd hrefs' _ nt res nt' hnt hrt h
      refine ⟨i1, ?_, ?_⟩
      · intro ch' hch'
        obtain ⟨ch1, hch1, hp1⟩ := i2 ch' hch'
        obtain ⟨ch, hch, rfl⟩ := List.mem_map.mp hch1
        refine ⟨ch, hch, fun cs ncs fp halt hp => ?_⟩
        obtain ⟨g, hg, hpg⟩ := hp1 cs ncs _ halt hp.lit
        refine ⟨(Flat.one (.lit v)).app g, ?_, ?_⟩
        · rw [one_app]; exact .lit hg
        · rw [← Flat.app_assoc]; exact hpg
      · intro ch hch cs ncs fp halt hp g hg
        cases hg with
        | lit hg' =>
          obtain ⟨ch', hch', hpg⟩ := i3 _ (List.mem_map_of_mem hch) cs ncs _ halt hp.lit _ hg'
          refine ⟨ch', hch', ?_⟩
          rw [← one_app, ← Flat.app_assoc]; exact hpg
    | named p hp1 hp2 =>
      have hnn : ¬ tagIn F p < 0 := by have := tagIn_pos F p; omega
      have hpe : negsOf (.pat (tagIn F p) :: r) = negsOf r := by rw [negsOf_cons_pat]; simp [hnn]
      rw [hpe] at hpown hpnd
      simp only [expandName] at h
      obtain ⟨i1, i2, i3⟩ := ih hpown hpnd hrefs' _ nt res nt' hnt hrt h
      refine ⟨i1, ?_, ?_⟩
      · intro ch' hch'
        obtain ⟨ch1, hch1, hq1⟩ := i2 ch' hch'
        obtain ⟨ch, hch, rfl⟩ := List.mem_map.mp hch1
        refine ⟨ch, hch, fun cs ncs fp halt hp => ?_⟩
        obtain ⟨g, hg, hpg⟩ := hq1 cs ncs _ halt (hp.named hp1 hp2)
        refine ⟨(Flat.one (.named p)).app g, ?_, ?_⟩
        · rw [one_app]; exact .named hp1 hg
        · rw [← Flat.app_assoc]; exact hpg
      · intro ch hch cs ncs fp halt hp g hg
        cases hg with
        | named _ hg' =>
          obtain ⟨ch', hch', hpg⟩ := i3 _ (List.mem_map_of_mem hch) cs ncs _ halt (hp.named hp1 hp2) _ hg'
          refine ⟨ch', hch', ?_⟩
          rw [← one_app, ← Flat.app_assoc]; exact hpg
        | temp hpt _ => rw [hp1] at hpt; simp at hpt
    | temp p t hp1 ht hfact =>
      have hpe : negsOf (.pat t :: r) = t :: negsOf r := by rw [negsOf_cons_pat]; simp [ht]
      have htown : t ∈ own := hpown t (by rw [hpe]; exact List.mem_cons_self)
      have hpown' : ∀ u ∈ negsOf r, u ∈ own := fun u hu => hpown u (by rw [hpe]; exact List.mem_cons_of_mem _ hu)
      have hpnd' : (negsOf r).Nodup := by rw [hpe] at hpnd; exact (List.nodup_cons.mp hpnd).2
      simp only [expandName] at h
      obtain ⟨i1, i2, i3⟩ := ih hpown' hpnd' hrefs' _ nt res nt' hnt hrt h
      refine ⟨i1, ?_, ?_⟩
      · intro ch' hch'
        obtain ⟨ch1, hch1, hq1⟩ := i2 ch' hch'
        obtain ⟨ch, hch, rfl⟩ := List.mem_map.mp hch1
        refine ⟨ch, hch, fun cs ncs fp halt hp => ?_⟩
        obtain ⟨g, hg, hpg⟩ := hq1 cs ncs _ halt (hp.temp hp1 ht hfact halt.1 htown hdisj (hnt.own t htown) hpnd)
        refine ⟨(Flat.one (.temp (tempCons cs p))).app g, ?_, ?_⟩
        · rw [one_app]; exact .temp hp1 hg
        · rw [← Flat.app_assoc]; exact hpg
      · intro ch hch cs ncs fp halt hp g hg
        cases hg with
        | named hpt _ => rw [hp1] at hpt; simp at hpt
        | temp _ hg' =>
          obtain ⟨ch', hch', hpg⟩ := i3 _ (List.mem_map_of_mem hch) cs ncs _ halt
            (hp.temp hp1 ht hfact halt.1 htown hdisj (hnt.own t htown) hpnd) _ hg'
          refine ⟨ch', hch', ?_⟩
          rw [← one_app, ← Flat.app_assoc]; exact hpg
    | ref q =>
      rw [negsOf_cons_ref] at hpown hpnd
      simp only [expandName] at h
      split at h
      · simp at h
      · rename_i reps hget
        generalize hir : inlineRef rid reps cur nt = ir at h
        obtain ⟨cur', nt1⟩ := ir
        simp only [] at h
        obtain ⟨m1, m2, m3⟩ := inlineRef_mem rid reps cur nt
        rw [hir] at m1 m2 m3
        simp only [] at m1 m2 m3
        obtain ⟨i1, i2, i3⟩ := ih hpown hpnd hrefs' cur' nt1 res nt' (hnt.mono m1) (hrt.mono m1) h
        obtain ⟨hqtemp, hqcomp⟩ := hrefs q List.mem_cons_self
        -- one inlining step
        have hstep : ∀ (refc : Chain), refc ∈ reps → ∀ (ch : Chain) (nt2 : Int), nt2 ≤ nt → ∀ g1, Impl F refc g1 →
            ∀ cs ncs fp, AltOK F tp own cs ncs → Prog F own later cs ncs (.ref q :: r) nt ch fp →
            Prog F own later cs ncs r (freshTempTags ch refc nt2).2 (joinChain rid ch (freshTempTags ch refc nt2).1) (fp.app g1) := by
          intro refc hrefc ch nt2 hle g1 hg1 cs ncs fp halt hp
          obtain ⟨hcl, htg⟩ := (hrt.mono hle) q reps hget refc hrefc
          exact Prog.inline (hnt.mono hle) hpown halt.2 hcl htg hg1 (hp.mono hle)
        refine ⟨by omega, ?_, ?_⟩
        · intro ch' hch'
          obtain ⟨ch1, hch1, hq1⟩ := i2 ch' hch'
          obtain ⟨refc, hrefc, ch, hch, nt2, hle, hle2, rfl⟩ := m2 ch1 hch1
          obtain ⟨g1, hg1e, hg1⟩ := hsound q reps hget refc hrefc
          refine ⟨ch, hch, fun cs ncs fp halt hp => ?_⟩
          obtain ⟨g, hg, hpg⟩ := hq1 cs ncs _ halt ((hstep refc hrefc ch nt2 hle g1 hg1 cs ncs fp halt hp).mono hle2)
          refine ⟨g1.app g, .ref hqtemp hg1e hg, ?_⟩
          rw [← Flat.app_assoc]; exact hpg
        · intro ch hch cs ncs fp halt hp g hg
          cases hg with
          | @ref _ _ _ g1 g2 _ hg1e hg2 =>
            obtain ⟨chains, hchains, refc, hrefc, hg1⟩ := hqcomp g1 hg1e
            rw [hget] at hchains
            injection hchains with hchains
            subst hchains
            obtain ⟨nt2, hle, hle2, hin⟩ := m3 refc hrefc ch hch
            obtain ⟨ch', hch', hpg⟩ := i3 _ hin cs ncs _ halt
              ((hstep refc hrefc ch nt2 hle g1 hg1 cs ncs fp halt hp).mono hle2) _ hg2
            refine ⟨ch', hch', ?_⟩
            have : (⟨g1.items ++ g2.items, g1.ncons ++ g2.ncons⟩ : Flat) = g1.app g2 := rfl
            rw [this, ← Flat.app_assoc]; exact hpg

/-! ### the loop over the rules -/

theorem repAdd_get_eq (rep : PyDict String (List Chain)) (id : String) (cur : List Chain) (k : String) :
    PyDict.get? (repAdd rep id cur) k =
      if id = k then some ((PyDict.get? rep id).getD [] ++ cur) else PyDict.get? rep k := by
  unfold repAdd
  split
  · rename_i h; rw [PyDict.get?_set, h]; simp
  · rename_i old h; rw [PyDict.get?_set, h]; simp

/-- what `rep_rules` means once the definitions `done` were replicated -/
structure RepSem (F : List String) (S : Schema) (done : List SRule) (rep : PyDict String (List Chain)) : Prop where
  sound : ∀ q chains, PyDict.get? rep q = some chains → ∀ c ∈ chains,
    c.id = q ∧ ∃ r ∈ done, r.id = q ∧ c.sign = isort strLe r.sign ∧ ∃ f, ExpandsDef S r f ∧ Impl F c f
  complete : ∀ r ∈ done, ∀ f, ExpandsDef S r f → ∃ chains, PyDict.get? rep r.id = some chains ∧
    ∃ c ∈ chains, c.sign = isort strLe r.sign ∧ Impl F c f

/-- references point to identifiers all of whose definitions stand earlier -/
def RefsDone (S : Schema) (done srs : List SRule) : Prop :=
  ∀ pre x post, srs = pre ++ x :: post → ∀ q, Comp.ref q ∈ x.name →
    isTempRule q = false ∧ ∀ r' ∈ S.rules, r'.id = q → r' ∈ done ∨ r' ∈ pre

def pendNegs (nrs : List NRule) : List Int := nrs.flatMap fun nr => negsOf nr.name

/-- constraint sets and initial chains, one to one -/
theorem initChains_alts_aux {F : List String} {tp : PyDict String (List Int)} (mk : List NTerm → Chain)
    (hmk : ∀ ncs, (mk ncs).name = [] ∧ (mk ncs).cons = ncs) {scons : List (List (Term String String))}
    {ncons : List (List NTerm)} (hall : All2 (fun cs ncs => mapE (numTerm F tp) cs = .ok ncs) scons ncons) :
    All2 (fun cs ch => ch.name = [] ∧ mapE (numTerm F tp) cs = .ok ch.cons)
      (if scons.isEmpty then [[]] else scons) (if ncons.isEmpty then [mk []] else ncons.map mk) := by
  cases hall with
  | nil =>
    simp only [List.isEmpty_nil, if_true]
    exact .cons ⟨(hmk []).1, by rw [(hmk []).2]; rfl⟩ .nil
  | @cons a b as bs hr hrest =>
    simp only [List.isEmpty_cons, Bool.false_eq_true, if_false, List.map_cons]
    refine .cons ⟨(hmk b).1, by rw [(hmk b).2]; exact hr⟩ ?_
    induction hrest with
    | nil => exact .nil
    | @cons a' b' _ _ hr' _ ih => exact .cons ⟨(hmk b').1, by rw [(hmk b').2]; exact hr'⟩ ih

theorem initChains_alts {F : List String} {tp : PyDict String (List Int)} {sr : SRule} {nr : NRule}
    (h : mapE (mapE (numTerm F tp)) sr.cons = .ok nr.cons) :
    All2 (fun cs ch => ch.name = [] ∧ mapE (numTerm F tp) cs = .ok ch.cons) (altsOf sr) (initChains nr) :=
  initChains_alts_aux (fun ncs => { id := nr.id, name := [], cons := ncs, sign := isort strLe nr.sign })
    (fun _ => ⟨rfl, rfl⟩) (mapE_all2 h)

theorem expandName_ids (rid : String) (rep : PyDict String (List Chain)) : ∀ (name : List (Comp Int)) (cur : List Chain)
    (nt : Int) (res : List Chain) (nt' : Int), (∀ c ∈ cur, c.id = rid) →
    expandName rid rep name cur nt = .ok (res, nt') → ∀ c ∈ res, c.id = rid := by
  intro name
  induction name with
  | nil =>
    intro cur nt res nt' hcur h
    simp only [expandName] at h
    injection h with h
    simp only [Prod.mk.injEq] at h
    obtain ⟨rfl, _⟩ := h
    exact hcur
  | cons a r ih =>
    intro cur nt res nt' hcur h
    cases a with
    | lit v =>
      simp only [expandName] at h
      refine ih _ _ _ _ (fun c hc => ?_) h
      obtain ⟨c0, hc0, rfl⟩ := List.mem_map.mp hc
      exact hcur c0 hc0
    | pat t =>
      simp only [expandName] at h
      refine ih _ _ _ _ (fun c hc => ?_) h
      obtain ⟨c0, hc0, rfl⟩ := List.mem_map.mp hc
      exact hcur c0 hc0
    | ref q =>
      simp only [expandName] at h
      split at h
      · simp at h
      · rename_i reps _
        refine ih _ _ _ _ (fun c hc => ?_) h
        obtain ⟨_, _, _, _, _, _, _, rfl⟩ := (inlineRef_mem rid reps cur nt).2.1 c hc
        rfl

theorem All2.mem_left {α β : Type} {R : α → β → Prop} {l₁ : List α} {l₂ : List β} (h : All2 R l₁ l₂) :
    ∀ a ∈ l₁, ∃ b ∈ l₂, R a b := by
  induction h with
  | nil => intro a ha; simp at ha
  | cons hr _ ih =>
    intro a ha
    rcases List.mem_cons.mp ha with rfl | ha
    · exact ⟨_, List.mem_cons_self, hr⟩
    · obtain ⟨b, hb, hab⟩ := ih a ha
      exact ⟨b, List.mem_cons_of_mem _ hb, hab⟩

theorem All2.mem_right {α β : Type} {R : α → β → Prop} {l₁ : List α} {l₂ : List β} (h : All2 R l₁ l₂) :
    ∀ b ∈ l₂, ∃ a ∈ l₁, R a b := by
  induction h with
  | nil => intro b hb; simp at hb
  | cons hr _ ih =>
    intro b hb
    rcases List.mem_cons.mp hb with rfl | hb
    · exact ⟨_, List.mem_cons_self, hr⟩
    · obtain ⟨a, ha, hab⟩ := ih b hb
      exact ⟨a, List.mem_cons_of_mem _ ha, hab⟩

theorem expandName_signs (rid : String) (sg : List String) (rep : PyDict String (List Chain)) :
    ∀ (name : List (Comp Int)) (cur : List Chain) (nt : Int) (res : List Chain) (nt' : Int), (∀ c ∈ cur, c.sign = sg) →
    expandName rid rep name cur nt = .ok (res, nt') → ∀ c ∈ res, c.sign = sg := by
  intro name
  induction name with
  | nil =>
    intro cur nt res nt' hcur h
    simp only [expandName] at h
    injection h with h
    simp only [Prod.mk.injEq] at h
    obtain ⟨rfl, _⟩ := h
    exact hcur
  | cons a r ih =>
    intro cur nt res nt' hcur h
    cases a with
    | lit v =>
      simp only [expandName] at h
      refine ih _ _ _ _ (fun c hc => ?_) h
      obtain ⟨c0, hc0, rfl⟩ := List.mem_map.mp hc
      exact hcur c0 hc0
    | pat t =>
      simp only [expandName] at h
      refine ih _ _ _ _ (fun c hc => ?_) h
      obtain ⟨c0, hc0, rfl⟩ := List.mem_map.mp hc
      exact hcur c0 hc0
    | ref q =>
      simp only [expandName] at h
      split at h
      · simp at h
      · rename_i reps _
        refine ih _ _ _ _ (fun c hc => ?_) h
        obtain ⟨_, _, ch, hch, _, _, _, rfl⟩ := (inlineRef_mem rid reps cur nt).2.1 c hc
        exact hcur ch hch

/-- the state of a chain before the name is walked through -/
theorem prog_init {F : List String} {tp : PyDict String (List Int)} {later : List Int} {nt : Int}
    {cs : List (Term String String)} {ch : Chain} {name : List (Comp Int)} (htp : TpNegs tp name)
    (hname : ch.name = []) (hnum : mapE (numTerm F tp) cs = .ok ch.cons) :
    AltOK F tp (negsOf name) cs ch.cons ∧ Prog F (negsOf name) later cs ch.cons name nt ch Flat.empty := by
  have hall := mapE_all2 hnum
  have hneg : ∀ p l, PyDict.get? tp p = some l → ∀ t ∈ l, t < 0 := fun p l hl t ht =>
    (mem_negsOf.mp (htp p l hl t ht)).2
  refine ⟨⟨hall, fun t ht => ?_⟩, ⟨⟨?_, ?_⟩, ?_, ⟨[], by simp, by simp [termNegs]⟩, ?_, ?_⟩⟩
  · obtain ⟨p, l, hl, htl⟩ := own_termNegs hall t ht
    exact htp p l hl t htl
  · rw [hname]; exact .nil
  · show All2 (NconsNum F) (namedCons cs ++ []) _
    rw [List.append_nil]
    exact own_named_resCons hneg hall
  · rw [hname]; simp [negTags, atomTags]
  · rw [hname]; simp [negTags, atomTags]
  · intro t ht hn; exact absurd ht hn

/-- the state of a chain after the name was walked through -/
theorem prog_final {F : List String} {own later : List Int} {cs : List (Term String String)} {ncs : List NTerm} {nt : Int}
    {ch : Chain} {g : Flat} (hncs : ∀ t ∈ termNegs ncs, t ∈ own) (h : Prog F own later cs ncs [] nt ch g) :
    Impl F ch ⟨g.items, namedCons cs ++ g.ncons⟩ ∧ ChainClosed ch ∧ ∀ t ∈ negTags ch.name, nt < t ∧ t ∉ later := by
  obtain ⟨inl, hinl, hinlp⟩ := h.cons
  refine ⟨h.impl, ⟨h.nodup, fun t ht => ?_⟩, fun t ht => ⟨(h.tags t ht).1, (h.tags t ht).2.2⟩⟩
  rw [hinl, termNegs_append] at ht
  rcases List.mem_append.mp ht with ht | ht
  · exact h.ownIn t (hncs t ht) (by simp [negsOf, patsOf])
  · exact (hinlp t ht).1

theorem replicateLoop_sem {F : List String} {S : Schema} : ∀ {srs : List SRule} {nrs : List NRule},
    All2 (RuleNum F) srs nrs → ∀ (done : List SRule) (rep : PyDict String (List Chain)) (nt : Int)
    (res : PyDict String (List Chain)), (∀ r ∈ done, r ∈ S.rules) → (∀ r ∈ srs, r ∈ S.rules) → RefsDone S done srs →
    (pendNegs nrs).Nodup → NtOK nt [] (pendNegs nrs) → RepTags [] (pendNegs nrs) nt rep → RepSem F S done rep →
    replicateLoop nrs rep nt = .ok res →
    RepSem F S (done ++ srs) res ∧ ∀ q chains, PyDict.get? res q = some chains → ∀ c ∈ chains, ChainClosed c := by
  intro srs nrs hall
  induction hall with
  | nil =>
    intro done rep nt res _ _ _ _ _ hrt hsem h
    simp only [replicateLoop] at h
    injection h with h; subst h
    rw [List.append_nil]
    exact ⟨hsem, fun q chains hq c hc => (hrt q chains hq c hc).1⟩
  | @cons sr nr srs' nrs' hnum hrest ih =>
    intro done rep nt res hdoneS hsrsS hrefs hpnd hnt hrt hsem h
    obtain ⟨hid, hsg, tp, hname, htp, hcons⟩ := hnum
    unfold replicateLoop at h
    split at h
    · simp at h
    · rename_i cur nt' hexp
      -- the numbers of this rule and of the rules to come
      have hpe : pendNegs (nr :: nrs') = negsOf nr.name ++ pendNegs nrs' := by simp [pendNegs]
      rw [hpe] at hpnd hnt hrt
      rw [List.nodup_append] at hpnd
      obtain ⟨hownnd, hlaternd, hdisj0⟩ := hpnd
      have hdisj : ∀ u ∈ negsOf nr.name, u ∉ pendNegs nrs' := fun u hu hm => hdisj0 u hu u hm rfl
      have hnt' : NtOK nt (negsOf nr.name) (pendNegs nrs') :=
        ⟨hnt.neg, fun t ht => hnt.later t (List.mem_append_left _ ht), fun t ht => hnt.later t (List.mem_append_right _ ht)⟩
      have hrt' : RepTags (negsOf nr.name) (pendNegs nrs') nt rep := by
        intro q chains hq c hc
        obtain ⟨h1, h2⟩ := hrt q chains hq c hc
        refine ⟨h1, fun t ht => ?_⟩
        have := h2 t ht
        exact ⟨this.1, fun hm => this.2.2 (List.mem_append_left _ hm), fun hm => this.2.2 (List.mem_append_right _ hm)⟩
      have hsound : ∀ q chains, PyDict.get? rep q = some chains → ∀ c ∈ chains, ∃ g, Expands S q g ∧ Impl F c g := by
        intro q chains hq c hc
        obtain ⟨_, r, hr, hrq, _, f, hf, himpl⟩ := hsem.sound q chains hq c hc
        exact ⟨f, expands_iff.mpr ⟨r, hdoneS r hr, hrq, hf⟩, himpl⟩
      have hrefs0 : ∀ q, Comp.ref q ∈ sr.name → isTempRule q = false ∧ ∀ g, Expands S q g →
          ∃ chains, PyDict.get? rep q = some chains ∧ ∃ c ∈ chains, Impl F c g := by
        intro q hq
        obtain ⟨h1, h2⟩ := hrefs [] sr srs' rfl q hq
        refine ⟨h1, fun g hg => ?_⟩
        obtain ⟨r', hr', hr'q, hf⟩ := expands_iff.mp hg
        rcases h2 r' hr' hr'q with hd | hd
        · rw [← hr'q]
          obtain ⟨chains, hch, c, hc, _, himpl⟩ := hsem.complete r' hd g hf
          exact ⟨chains, hch, c, hc, himpl⟩
        · simp at hd
      obtain ⟨e1, e2, e3⟩ := expandName_prog (rid := nr.id) hdisj hsound hname (fun t ht => ht) hownnd hrefs0
        (initChains nr) nt cur nt' hnt' hrt' hexp
      have hinit := initChains_alts hcons
      have hcurid : ∀ c ∈ cur, c.id = nr.id :=
        expandName_ids nr.id rep nr.name (initChains nr) nt cur nt' (fun c hc => ((initChains_shape nr).1 c hc).1) hexp
      have hcursg : ∀ c ∈ cur, c.sign = isort strLe sr.sign := by
        rw [← hsg]
        exact expandName_signs nr.id (isort strLe nr.sign) rep nr.name (initChains nr) nt cur nt'
          (fun c hc => ((initChains_shape nr).1 c hc).2) hexp
      have hcurS : ∀ c ∈ cur, ∃ cs ∈ altsOf sr, ∃ g, ExpandsName S cs sr.name g ∧
          Impl F c ⟨g.items, namedCons cs ++ g.ncons⟩ ∧ ChainClosed c ∧
          ∀ t ∈ negTags c.name, nt' < t ∧ t ∉ pendNegs nrs' := by
        intro c hc
        obtain ⟨ch0, hch0, himp⟩ := e2 c hc
        obtain ⟨cs, hcs, hn0, hnum0⟩ := hinit.mem_right ch0 hch0
        obtain ⟨halt, hp0⟩ := prog_init (later := pendNegs nrs') (nt := nt) htp hn0 hnum0
        obtain ⟨g, hg, hpg⟩ := himp cs ch0.cons Flat.empty halt hp0
        rw [Flat.empty_app] at hpg
        obtain ⟨f1, f2, f3⟩ := prog_final halt.2 hpg
        exact ⟨cs, hcs, g, hg, f1, f2, f3⟩
      have hcurC : ∀ cs ∈ altsOf sr, ∀ g, ExpandsName S cs sr.name g →
          ∃ c ∈ cur, Impl F c ⟨g.items, namedCons cs ++ g.ncons⟩ := by
        intro cs hcs g hg
        obtain ⟨ch0, hch0, hn0, hnum0⟩ := hinit.mem_left cs hcs
        obtain ⟨halt, hp0⟩ := prog_init (later := pendNegs nrs') (nt := nt) htp hn0 hnum0
        obtain ⟨c, hc, hpg⟩ := e3 ch0 hch0 cs ch0.cons Flat.empty halt hp0 g hg
        rw [Flat.empty_app] at hpg
        exact ⟨c, hc, (prog_final halt.2 hpg).1⟩
      -- the dictionary after this rule
      have hget := repAdd_get_eq rep nr.id cur
      have hold : ∀ c ∈ (PyDict.get? rep nr.id).getD [], ∃ old, PyDict.get? rep nr.id = some old ∧ c ∈ old := by
        intro c hc
        cases hg : PyDict.get? rep nr.id with
        | none => rw [hg] at hc; simp at hc
        | some old => rw [hg] at hc; exact ⟨old, rfl, hc⟩
      have hsplit : ∀ q chains, PyDict.get? (repAdd rep nr.id cur) q = some chains → ∀ c ∈ chains,
          (∃ old, PyDict.get? rep q = some old ∧ c ∈ old) ∨ (q = nr.id ∧ c ∈ cur) := by
        intro q chains hq c hc
        rw [hget q] at hq
        split at hq
        · rename_i he
          injection hq with hq
          subst hq
          rcases List.mem_append.mp hc with hc | hc
          · exact Or.inl (he ▸ hold c hc)
          · exact Or.inr ⟨he.symm, hc⟩
        · exact Or.inl ⟨chains, hq, hc⟩
      have hres := ih (done ++ [sr]) (repAdd rep nr.id cur) nt' res
        (fun r hr => by
          rcases List.mem_append.mp hr with hr | hr
          · exact hdoneS r hr
          · simp only [List.mem_singleton] at hr; subst hr; exact hsrsS _ List.mem_cons_self)
        (fun r hr => hsrsS r (List.mem_cons_of_mem _ hr))
        (fun pre x post hsp q hq => by
          obtain ⟨h1, h2⟩ := hrefs (sr :: pre) x post (by rw [hsp]; rfl) q hq
          refine ⟨h1, fun r' hr' hr'q => ?_⟩
          rcases h2 r' hr' hr'q with hd | hd
          · exact Or.inl (List.mem_append_left _ hd)
          · rcases List.mem_cons.mp hd with rfl | hd
            · exact Or.inl (List.mem_append_right _ (by simp))
            · exact Or.inr hd)
        hlaternd
        ⟨by have := hnt.neg; omega, fun t ht => by simp at ht, fun t ht => by
          have := hnt.later t (List.mem_append_right _ ht); omega⟩
        (by
          intro q chains hq c hc
          rcases hsplit q chains hq c hc with ⟨old, hold', hco⟩ | ⟨_, hcc⟩
          · obtain ⟨h1, h2⟩ := hrt' q old hold' c hco
            exact ⟨h1, fun t ht => by have := h2 t ht; exact ⟨by omega, by simp, this.2.2⟩⟩
          · obtain ⟨_, _, _, _, _, f2, f3⟩ := hcurS c hcc
            exact ⟨f2, fun t ht => ⟨(f3 t ht).1, by simp, (f3 t ht).2⟩⟩)
        ⟨by
          intro q chains hq c hc
          rcases hsplit q chains hq c hc with ⟨old, hold', hco⟩ | ⟨hqe, hcc⟩
          · obtain ⟨h1, r, hr, h2⟩ := hsem.sound q old hold' c hco
            exact ⟨h1, r, List.mem_append_left _ hr, h2⟩
          · obtain ⟨cs, hcs, g, hg, f1, _, _⟩ := hcurS c hcc
            exact ⟨by rw [hqe]; exact hcurid c hcc, sr, List.mem_append_right _ (by simp), by rw [hqe, hid],
              hcursg c hcc, _, ⟨cs, hcs, g, hg, rfl⟩, f1⟩,
         by
          intro r hr f hf
          rcases List.mem_append.mp hr with hr | hr
          · obtain ⟨chains, hch, c, hc, hsgc, himpl⟩ := hsem.complete r hr f hf
            rw [hget r.id]
            split
            · rename_i he
              rw [he, hch]
              exact ⟨_, rfl, c, List.mem_append_left _ hc, hsgc, himpl⟩
            · exact ⟨chains, hch, c, hc, hsgc, himpl⟩
          · simp only [List.mem_singleton] at hr
            subst hr
            obtain ⟨cs, hcs, f0, hf0, rfl⟩ := hf
            obtain ⟨c, hc, himpl⟩ := hcurC cs hcs f0 hf0
            rw [hget r.id, if_pos hid]
            exact ⟨_, rfl, c, List.mem_append_right _ hc, hcursg c hc, himpl⟩⟩
        h
      rw [List.append_assoc] at hres
      exact hres

end Ndn.Lvs
