import NdnProofs.Lemmas.Lvs.SrcCompile
/-!
  The executable form of the source-level semantics (`flatsOfRule`, `srcMatch`, which the model drivers run and the harness
  compares with the real `Checker.match`) computes the relation `SrcMatches` — for every schema whose rule references are
  acyclic (pass 1 of the compiler succeeds), where nesting deeper than the number of rules cannot occur.
-/
namespace Ndn.Lvs

theorem mem_flatsOfName_sound {S : Schema} {sub : String → List Flat} (hsub : ∀ q g, g ∈ sub q → Expands S q g)
    (cs : List (Term String String)) : ∀ (comps : List (Comp String)) (f : Flat),
    f ∈ flatsOfName sub cs comps → ExpandsName S cs comps f := by
  intro comps
  induction comps with
  | nil => intro f hf; simp only [flatsOfName, List.mem_singleton] at hf; subst hf; exact .nil
  | cons c r ih =>
    intro f hf
    cases c with
    | lit v =>
      simp only [flatsOfName, List.mem_map] at hf
      obtain ⟨f0, hf0, rfl⟩ := hf
      exact .lit (ih f0 hf0)
    | pat p =>
      simp only [flatsOfName, List.mem_map] at hf
      obtain ⟨f0, hf0, rfl⟩ := hf
      cases hp : isTempPat p with
      | true => simp only [if_true]; exact .temp hp (ih f0 hf0)
      | false => simp only [Bool.false_eq_true, if_false]; exact .named hp (ih f0 hf0)
    | ref q =>
      simp only [flatsOfName] at hf
      split at hf
      · simp at hf
      · rename_i ht
        simp only [List.mem_flatMap, List.mem_map] at hf
        obtain ⟨g, hg, f0, hf0, rfl⟩ := hf
        exact .ref (by simpa using ht) (hsub q g hg) (ih f0 hf0)

theorem mem_flatsOfDef_sound {S : Schema} {sub : String → List Flat} (hsub : ∀ q g, g ∈ sub q → Expands S q g)
    (r : SRule) (f : Flat) (hf : f ∈ flatsOfDef sub r) : ExpandsDef S r f := by
  simp only [flatsOfDef, List.mem_flatMap, List.mem_map] at hf
  obtain ⟨cs, hcs, f0, hf0, rfl⟩ := hf
  exact ⟨cs, hcs, f0, mem_flatsOfName_sound hsub cs r.name f0 hf0, rfl⟩

theorem mem_flatsOfRule_sound (S : Schema) : ∀ (fuel : Nat) (q : String) (g : Flat),
    g ∈ flatsOfRule S fuel q → Expands S q g := by
  intro fuel
  induction fuel with
  | zero => intro q g hg; simp [flatsOfRule] at hg
  | succ n ih =>
    intro q g hg
    simp only [flatsOfRule, List.mem_flatMap, List.mem_filter, beq_iff_eq] at hg
    obtain ⟨r, ⟨hr, hrq⟩, hgr⟩ := hg
    exact expands_iff.mpr ⟨r, hr, hrq, mem_flatsOfDef_sound ih r g hgr⟩

theorem mem_flatsOfName_complete {S : Schema} {sub : String → List Flat} (cs : List (Term String String)) :
    ∀ (comps : List (Comp String)) (f : Flat),
    (∀ q, Comp.ref q ∈ comps → ∀ g, Expands S q g → g ∈ sub q) →
    ExpandsName S cs comps f → f ∈ flatsOfName sub cs comps := by
  intro comps
  induction comps with
  | nil => intro f _ hf; cases hf; simp [flatsOfName]
  | cons c r ih =>
    intro f hsub hf
    have hsub' : ∀ q, Comp.ref q ∈ r → ∀ g, Expands S q g → g ∈ sub q := fun q hq => hsub q (List.mem_cons_of_mem _ hq)
    cases hf with
    | lit h1 =>
      simp only [flatsOfName, List.mem_map]
      exact ⟨_, ih _ hsub' h1, rfl⟩
    | named hp h1 =>
      simp only [flatsOfName, List.mem_map]
      exact ⟨_, ih _ hsub' h1, by simp [hp]⟩
    | temp hp h1 =>
      simp only [flatsOfName, List.mem_map]
      exact ⟨_, ih _ hsub' h1, by simp [hp]⟩
    | ref ht he h1 =>
      simp only [flatsOfName, ht, Bool.false_eq_true, if_false, List.mem_flatMap, List.mem_map]
      exact ⟨_, hsub _ List.mem_cons_self _ he, _, ih _ hsub' h1, rfl⟩

/-- with the rules in an order in which references point backwards, fuel = position suffices -/
theorem mem_flatsOfDef_complete {S : Schema} {srules : List SRule} (hmem : ∀ r, r ∈ S.rules → r ∈ srules)
    (hrefs : RefsDone ⟨srules⟩ [] srules) :
    ∀ (n : Nat) (pre : List SRule) (x : SRule) (post : List SRule), srules = pre ++ x :: post → pre.length = n →
    ∀ fuel, n ≤ fuel → ∀ f, ExpandsDef S x f → f ∈ flatsOfDef (flatsOfRule S fuel) x := by
  intro n
  induction n using Nat.strongRecOn with
  | _ n ih =>
    intro pre x post hsplit hlen fuel hfuel f hf
    obtain ⟨cs, hcs, f0, hf0, rfl⟩ := hf
    simp only [flatsOfDef, List.mem_flatMap, List.mem_map]
    refine ⟨cs, hcs, f0, mem_flatsOfName_complete cs x.name f0 ?_ hf0, rfl⟩
    intro q hq g hg
    obtain ⟨r', hr', hr'q, hdef⟩ := expands_iff.mp hg
    obtain ⟨_, hbefore⟩ := hrefs pre x post hsplit q hq
    rcases hbefore r' (hmem r' hr') hr'q with hd | hd
    · simp at hd
    · obtain ⟨pre', post', hpre⟩ := List.append_of_mem hd
      have hlt : pre'.length < n := by rw [← hlen, hpre]; simp
      cases fuel with
      | zero => omega
      | succ fuel0 =>
        have := ih pre'.length hlt pre' r' (post' ++ x :: post) (by rw [hsplit, hpre]; simp) rfl fuel0 (by omega) g hdef
        simp only [flatsOfRule, List.mem_flatMap, List.mem_filter, beq_iff_eq]
        exact ⟨r', ⟨hr', hr'q⟩, this⟩

/-- **the executable semantics computes `SrcMatches`** on the rules as the compiler sees them (temporary rules renamed) -/
theorem mem_srcMatch_iff (S : Schema) (srules : List SRule) (h : sortRuleReferences S = .ok srules) (fns : PureEnv)
    (σ : SCtx) (name : List Bytes) (rid : String) (σ' : SCtx) :
    (rid, σ') ∈ srcMatch ⟨renameTemps S.rules 1⟩ fns σ name ↔
      SrcMatches ⟨renameTemps S.rules 1⟩ fns rid σ name σ' := by
  have hperm := sortRuleReferences_perm S srules h
  have hrefs := sortRuleReferences_refsDone S srules h
  simp only [srcMatch, List.mem_flatMap, List.mem_filterMap]
  constructor
  · rintro ⟨r, hr, f, hf, hm⟩
    split at hm
    · rename_i σ1 hrun
      injection hm with hm
      injection hm with h1 h2
      subst h1; subst h2
      exact ⟨f, expands_iff.mpr ⟨r, hr, rfl, mem_flatsOfDef_sound (mem_flatsOfRule_sound _ _) r f hf⟩, hrun⟩
    · simp at hm
  · rintro ⟨f, hf, hrun⟩
    obtain ⟨r, hr, hrq, hdef⟩ := expands_iff.mp hf
    have hrs : r ∈ srules := hperm.mem_iff.mpr hr
    obtain ⟨pre, post, hsplit⟩ := List.append_of_mem hrs
    have hlen : pre.length ≤ (renameTemps S.rules 1).length := by
      rw [← hperm.length_eq, hsplit]; simp
    refine ⟨r, hr, f, mem_flatsOfDef_complete (S := ⟨renameTemps S.rules 1⟩) (fun r hr => hperm.mem_iff.mpr hr)
      hrefs pre.length pre r post hsplit rfl _ hlen f hdef, ?_⟩
    rw [hrun, hrq]

/-- for a schema whose references are acyclic, the expansions of a rule are those the executable form lists -/
theorem expands_iff_mem_flatsOfRule (S : Schema) (srules : List SRule) (h : sortRuleReferences S = .ok srules)
    (q : String) (g : Flat) :
    Expands ⟨renameTemps S.rules 1⟩ q g ↔
      g ∈ flatsOfRule ⟨renameTemps S.rules 1⟩ ((renameTemps S.rules 1).length + 1) q := by
  have hperm := sortRuleReferences_perm S srules h
  have hrefs := sortRuleReferences_refsDone S srules h
  constructor
  · intro hg
    obtain ⟨r, hr, hrq, hdef⟩ := expands_iff.mp hg
    obtain ⟨pre, post, hsplit⟩ := List.append_of_mem (hperm.mem_iff.mpr hr)
    have hlen : pre.length ≤ (renameTemps S.rules 1).length := by
      rw [← hperm.length_eq, hsplit]; simp
    simp only [flatsOfRule, List.mem_flatMap, List.mem_filter, beq_iff_eq]
    exact ⟨r, ⟨hr, hrq⟩, mem_flatsOfDef_complete (S := ⟨renameTemps S.rules 1⟩) (fun r hr => hperm.mem_iff.mpr hr)
      hrefs pre.length pre r post hsplit rfl _ hlen g hdef⟩
  · exact mem_flatsOfRule_sound _ _ q g

end Ndn.Lvs
