import NdnProofs.Lemmas.Lvs.CompileTree
/-!
  Passes 1–3 of the compiler model keep what the grammar guarantees of literals and user-function names
  (`RuleOK` → `ChainOK`): the chains the tree is generated from are well formed.
-/
namespace Ndn.Lvs

/-- what the grammar guarantees of a rule: literal components are non-empty (encoded components), a literal
    option is non-empty, a user function has a name -/
def RuleOK {τ π : Type} (r : Rule τ π) : Prop :=
  (∀ v, Comp.lit v ∈ r.name → v ≠ []) ∧ ∀ cs ∈ r.cons, ∀ t ∈ cs, ∀ o ∈ t.opts, OptOK o

/-- the domain of the compiler model: ASTs the parser can produce -/
def Schema.WF (S : Schema) : Prop := ∀ r ∈ S.rules, RuleOK r

theorem mapE_ok_mem' {α β ε : Type} {f : α → Except ε β} {l : List α} {bs : List β} (h : mapE f l = .ok bs) :
    ∀ b ∈ bs, ∃ a ∈ l, f a = .ok b := by
  induction l generalizing bs with
  | nil => simp [mapE] at h; subst h; simp
  | cons a r ih =>
    unfold mapE at h
    split at h
    · simp at h
    · rename_i b hb
      split at h
      · simp at h
      · rename_i bs' hbs
        injection h with h; subst h
        intro x hx
        rcases List.mem_cons.mp hx with hx | hx
        · subst hx; exact ⟨a, List.mem_cons_self, hb⟩
        · obtain ⟨a', ha', hfx⟩ := ih hbs x hx
          exact ⟨a', List.mem_cons_of_mem _ ha', hfx⟩

/-! ### pass 1 -/

theorem sortRuleReferences_ok (S : Schema) (hwf : S.WF) (rules : List SRule) (h : sortRuleReferences S = .ok rules) :
    ∀ r ∈ rules, RuleOK r := by
  intro r hr
  have hperm := sortRuleReferences_perm S rules h
  obtain ⟨r0, hr0, hn, hc, _⟩ := mem_renameTemps (hperm.mem_iff.mp hr)
  have := hwf r0 hr0
  unfold RuleOK at this ⊢
  rw [hn, hc]
  exact this

/-! ### pass 2 -/

theorem numberName_lits (comps : List (Comp String)) : ∀ (st : NumSt) (tp : PyDict String (List Int)) (v : Bytes),
    Comp.lit v ∈ (numberName comps st tp).1 → Comp.lit v ∈ comps := by
  induction comps with
  | nil => intro st tp v h; simp [numberName] at h
  | cons c r ih =>
    intro st tp v h
    cases c with
    | lit w =>
      simp only [numberName] at h
      rcases List.mem_cons.mp h with h | h
      · injection h with h; subst h; exact List.mem_cons_self
      · exact List.mem_cons_of_mem _ (ih _ _ _ h)
    | ref i =>
      simp only [numberName] at h
      rcases List.mem_cons.mp h with h | h
      · simp at h
      · exact List.mem_cons_of_mem _ (ih _ _ _ h)
    | pat p =>
      simp only [numberName] at h
      split at h
      · rcases List.mem_cons.mp h with h | h
        · simp at h
        · exact List.mem_cons_of_mem _ (ih _ _ _ h)
      · split at h
        · rcases List.mem_cons.mp h with h | h
          · simp at h
          · exact List.mem_cons_of_mem _ (ih _ _ _ h)
        · rcases List.mem_cons.mp h with h | h
          · simp at h
          · exact List.mem_cons_of_mem _ (ih _ _ _ h)

theorem numberNames_lits (rules : List SRule) : ∀ (st : NumSt),
    ∀ x ∈ (numberNames rules st).1, ∀ v, Comp.lit v ∈ x.2.1 → Comp.lit v ∈ x.1.name := by
  induction rules with
  | nil => intro st x hx; simp [numberNames] at hx
  | cons r rs ih =>
    intro st x hx v hv
    simp only [numberNames] at hx
    rcases List.mem_cons.mp hx with hx | hx
    · subst hx; exact numberName_lits _ _ _ _ hv
    · exact ih _ x hx v hv

theorem numOpt_ok {named : List String} {o : Opt String} {o' : Opt Int} (h : numOpt named o = .ok o')
    (ho : OptOK o) : OptOK o' := by
  cases o with
  | lit v => simp [numOpt] at h; subst h; exact ho
  | pat p =>
    simp only [numOpt] at h
    split at h
    · injection h with h; subst h; trivial
    · simp at h
  | fn f args =>
    simp only [numOpt] at h
    split at h
    · injection h with h; subst h; exact ho
    · simp at h

theorem numRule_ok {named : List String} {x : SRule × List (Comp Int) × PyDict String (List Int)} {nr : NRule}
    (h : numRule named x = .ok nr) (hx : RuleOK x.1) (hl : ∀ v, Comp.lit v ∈ x.2.1 → Comp.lit v ∈ x.1.name) :
    RuleOK nr ∧ nr.id = x.1.id := by
  unfold numRule at h
  split at h
  · simp at h
  · rename_i cons hcons
    injection h with h; subst h
    refine ⟨⟨fun v hv => hx.1 v (hl v hv), ?_⟩, rfl⟩
    intro cs hcs t ht o ho
    obtain ⟨cs0, hcs0, hm⟩ := mapE_ok_mem' hcons cs hcs
    obtain ⟨t0, ht0, hm2⟩ := mapE_ok_mem' hm t ht
    unfold numTerm at hm2
    split at hm2
    · simp at hm2
    · split at hm2
      · simp at hm2
      · rename_i os hos
        injection hm2 with hm2; subst hm2
        obtain ⟨o0, ho0, hm3⟩ := mapE_ok_mem' hos o ho
        exact numOpt_ok hm3 (hx.2 cs0 hcs0 t0 ht0 o0 ho0)

theorem genPatternNumbers_ok {rules : List SRule} {nrules : List NRule} {named : List String}
    (h : genPatternNumbers rules = .ok (nrules, named)) (hr : ∀ r ∈ rules, RuleOK r) :
    ∀ nr ∈ nrules, RuleOK nr := by
  unfold genPatternNumbers at h
  have hspec := numberNames_spec rules { named := [], nextTemp := -1 }
  have hlits := numberNames_lits rules { named := [], nextTemp := -1 }
  split at h
  rename_i xs st hx
  rw [hx] at hspec hlits
  split at h
  · simp at h
  · rename_i nrs hn
    injection h with h
    simp only [Prod.mk.injEq] at h
    obtain ⟨rfl, _⟩ := h
    intro nr hnr
    obtain ⟨x, hxm, hf⟩ := mapE_ok_mem' hn nr hnr
    exact (numRule_ok hf (hr _ (hspec.2 x hxm).1) (hlits x hxm)).1

/-! ### pass 3 -/

theorem freshName_lits (used : List Int) (name : List Atom) : ∀ (nt : Int) (mp : PyDict Int Int) (v : Bytes),
    Atom.lit v ∈ (freshName used name nt mp).1 → Atom.lit v ∈ name := by
  induction name with
  | nil => intro nt mp v h; simp [freshName] at h
  | cons a r ih =>
    intro nt mp v h
    cases a with
    | lit w =>
      simp only [freshName] at h
      rcases List.mem_cons.mp h with h | h
      · injection h with h; subst h; exact List.mem_cons_self
      · exact List.mem_cons_of_mem _ (ih _ _ _ h)
    | pat t =>
      simp only [freshName] at h
      split at h
      · rcases List.mem_cons.mp h with h | h
        · simp at h
        · exact List.mem_cons_of_mem _ (ih _ _ _ h)
      · rcases List.mem_cons.mp h with h | h
        · simp at h
        · exact List.mem_cons_of_mem _ (ih _ _ _ h)

theorem freshTempTags_ok (chain ref : Chain) (nt : Int) (h : ChainOK ref) : ChainOK (freshTempTags chain ref nt).1 := by
  unfold freshTempTags
  refine ⟨fun v hv => h.1 v (freshName_lits _ _ _ _ _ hv), fun t ht o ho => ?_⟩
  simp only [List.mem_map] at ht
  obtain ⟨t0, ht0, rfl⟩ := ht
  exact h.2 t0 ht0 o ho

theorem chainOK_append {rid : String} {a b : Chain} (ha : ChainOK a) (hb : ChainOK b) :
    ChainOK { id := rid, name := a.name ++ b.name, cons := a.cons ++ b.cons, sign := a.sign } := by
  refine ⟨fun v hv => ?_, fun t ht => ?_⟩
  · rcases List.mem_append.mp hv with h | h
    · exact ha.1 v h
    · exact hb.1 v h
  · rcases List.mem_append.mp ht with h | h
    · exact ha.2 t h
    · exact hb.2 t h

theorem inlineInner_ok (rid : String) (refc : Chain) (href : ChainOK refc) : ∀ (cur : List Chain) (nt : Int),
    (∀ c ∈ cur, ChainOK c) → ∀ c ∈ (inlineInner rid refc cur nt).1, ChainOK c := by
  intro cur
  induction cur with
  | nil => intro nt _ c hc; simp [inlineInner] at hc
  | cons ch r ih =>
    intro nt hcur c hc
    simp only [inlineInner] at hc
    rcases List.mem_cons.mp hc with hc | hc
    · subst hc
      exact chainOK_append (hcur ch List.mem_cons_self) (freshTempTags_ok ch refc nt href)
    · exact ih _ (fun x hx => hcur x (List.mem_cons_of_mem _ hx)) c hc

theorem inlineRef_ok (rid : String) : ∀ (reps cur : List Chain) (nt : Int),
    (∀ c ∈ reps, ChainOK c) → (∀ c ∈ cur, ChainOK c) → ∀ c ∈ (inlineRef rid reps cur nt).1, ChainOK c := by
  intro reps
  induction reps with
  | nil => intro cur nt _ _ c hc; simp [inlineRef] at hc
  | cons refc rs ih =>
    intro cur nt hreps hcur c hc
    simp only [inlineRef] at hc
    rcases List.mem_append.mp hc with hc | hc
    · exact inlineInner_ok rid refc (hreps refc List.mem_cons_self) cur nt hcur c hc
    · exact ih cur _ (fun x hx => hreps x (List.mem_cons_of_mem _ hx)) hcur c hc

/-- every chain stored in `rep_rules` is well formed -/
def RepOK (rep : PyDict String (List Chain)) : Prop := ∀ p ∈ rep, ∀ c ∈ p.2, ChainOK c

theorem chainOK_snoc {ch : Chain} {a : Atom} (h : ChainOK ch) (ha : ∀ v, a = .lit v → v ≠ []) : ChainOK (ch.snoc a) := by
  refine ⟨fun v hv => ?_, h.2⟩
  unfold Chain.snoc at hv
  rcases List.mem_append.mp hv with hv | hv
  · exact h.1 v hv
  · simp at hv; exact ha v hv.symm

theorem expandName_ok (rid : String) (rep : PyDict String (List Chain)) (hrep : RepOK rep) :
    ∀ (name : List (Comp Int)) (cur : List Chain) (nt : Int) (res : List Chain) (nt' : Int),
      (∀ v, Comp.lit v ∈ name → v ≠ []) → (∀ c ∈ cur, ChainOK c) →
      expandName rid rep name cur nt = .ok (res, nt') → ∀ c ∈ res, ChainOK c := by
  intro name
  induction name with
  | nil =>
    intro cur nt res nt' _ hcur h
    simp only [expandName] at h
    injection h with h
    simp only [Prod.mk.injEq] at h
    obtain ⟨rfl, _⟩ := h
    exact hcur
  | cons a r ih =>
    intro cur nt res nt' hl hcur h
    have hl' : ∀ v, Comp.lit v ∈ r → v ≠ [] := fun v hv => hl v (List.mem_cons_of_mem _ hv)
    cases a with
    | lit w =>
      simp only [expandName] at h
      refine ih _ _ _ _ hl' ?_ h
      intro c hc
      rw [List.mem_map] at hc
      obtain ⟨c0, hc0, rfl⟩ := hc
      exact chainOK_snoc (hcur c0 hc0) (fun v hv => by injection hv with hv; subst hv; exact hl w List.mem_cons_self)
    | pat t =>
      simp only [expandName] at h
      refine ih _ _ _ _ hl' ?_ h
      intro c hc
      rw [List.mem_map] at hc
      obtain ⟨c0, hc0, rfl⟩ := hc
      exact chainOK_snoc (hcur c0 hc0) (fun v hv => by simp at hv)
    | ref i =>
      simp only [expandName] at h
      split at h
      · simp at h
      · rename_i reps hget
        refine ih _ _ _ _ hl' ?_ h
        exact inlineRef_ok rid reps cur nt (hrep _ (PyDict.mem_of_get? _ _ _ hget)) hcur

theorem mem_pyset {κ ν : Type} [DecidableEq κ] {d : PyDict κ ν} {k : κ} {v : ν} {p : κ × ν}
    (h : p ∈ PyDict.set d k v) : p ∈ d ∨ p = (k, v) := by
  induction d with
  | nil => simp [PyDict.set] at h; exact Or.inr h
  | cons q r ih =>
    obtain ⟨a, b⟩ := q
    unfold PyDict.set at h
    split at h
    · rcases List.mem_cons.mp h with h | h
      · exact Or.inr h
      · exact Or.inl (List.mem_cons_of_mem _ h)
    · rcases List.mem_cons.mp h with h | h
      · exact Or.inl (h ▸ List.mem_cons_self)
      · rcases ih h with h | h
        · exact Or.inl (List.mem_cons_of_mem _ h)
        · exact Or.inr h

theorem initChains_ok (r : NRule) (h : RuleOK r) : ∀ c ∈ initChains r, ChainOK c ∧ c.id = r.id := by
  intro c hc
  unfold initChains at hc
  simp only [] at hc
  split at hc
  · simp at hc; subst hc
    exact ⟨⟨by simp, by simp⟩, rfl⟩
  · rw [List.mem_map] at hc
    obtain ⟨cs, hcs, rfl⟩ := hc
    exact ⟨⟨by simp, fun t ht o ho => h.2 cs hcs t ht o ho⟩, rfl⟩

theorem replicateLoop_ok : ∀ (rules : List NRule) (rep : PyDict String (List Chain)) (nt : Int)
    (res : PyDict String (List Chain)), (∀ r ∈ rules, RuleOK r) → RepOK rep →
    replicateLoop rules rep nt = .ok res → RepOK res := by
  intro rules
  induction rules with
  | nil =>
    intro rep nt res _ hrep h
    simp only [replicateLoop] at h
    injection h with h; subst h; exact hrep
  | cons r rs ih =>
    intro rep nt res hr hrep h
    unfold replicateLoop at h
    split at h
    · simp at h
    · rename_i cur nt' hexp
      have hcur := expandName_ok r.id rep hrep r.name (initChains r) nt cur nt'
        (hr r List.mem_cons_self).1 (fun c hc => (initChains_ok r (hr r List.mem_cons_self) c hc).1) hexp
      refine ih _ _ _ (fun x hx => hr x (List.mem_cons_of_mem _ hx)) ?_ h
      intro p hp c hc
      unfold repAdd at hp
      split at hp
      · rcases mem_pyset hp with hp | hp
        · exact hrep p hp c hc
        · subst hp; exact hcur c hc
      · rename_i old hold
        rcases mem_pyset hp with hp | hp
        · exact hrep p hp c hc
        · subst hp
          rcases List.mem_append.mp hc with hc | hc
          · exact hrep _ (PyDict.mem_of_get? _ _ _ hold) c hc
          · exact hcur c hc

/-- **the chains of a well-formed schema are well formed** -/
theorem chainsOf_ok (S : Schema) (hwf : S.WF) (chains : List Chain) (named : List String)
    (h : chainsOf S = .ok (chains, named)) : ∀ c ∈ chains, ChainOK c := by
  unfold chainsOf at h
  split at h
  · simp at h
  · rename_i rules hsort
    split at h
    · simp at h
    · rename_i nrules named' hnum
      split at h
      · simp at h
      · rename_i rep hrep
        injection h with h
        simp only [Prod.mk.injEq] at h
        obtain ⟨rfl, _⟩ := h
        have h1 := sortRuleReferences_ok S hwf rules hsort
        have h2 := genPatternNumbers_ok hnum h1
        have h3 : RepOK rep := replicateLoop_ok nrules [] _ rep h2 (by intro p hp; simp at hp) hrep
        intro c hc
        unfold allChains at hc
        rw [List.mem_flatMap] at hc
        obtain ⟨p, hp, hcp⟩ := hc
        exact h3 p (mem_isort.mp hp) c hcp

end Ndn.Lvs
