import NdnModel.Lvs.Match
import NdnModel.Lvs.Sem
/-!
  A concrete compiled model used by the non-vacuity examples of C11/C12/C13: the output of `compile_lvs` for

      #p: "d"/x <= #k
      #k: "k"/x & {x: "a"|"b"}
-/
namespace Ndn.Lvs.Example
open Ndn Ndn.Lvs

def cD : Bytes := [8, 1, 0x64]
def cK : Bytes := [8, 1, 0x6b]
def cA : Bytes := [8, 1, 0x61]
def cB : Bytes := [8, 1, 0x62]
def cE : Bytes := [8, 1, 0x65]
/-- an implicit-digest component (type 1) -/
def cDigest : Bytes := [1, 2, 0, 0]

def lit (v : Bytes) : ConsOption := { value := some v, tag := none, fn := none }

def model : Model :=
  { version := some 0x00011000, startId := 0, namedCnt := 1,
    nodes := [
      { id := some 0, parent := none, ruleNames := [],
        vEdges := [⟨some 1, some cD⟩, ⟨some 3, some cK⟩], pEdges := [], signCons := [] },
      { id := some 1, parent := some 0, ruleNames := [], vEdges := [],
        pEdges := [⟨some 2, some 1, []⟩], signCons := [] },
      { id := some 2, parent := some 1, ruleNames := ["#p"], vEdges := [], pEdges := [], signCons := [4] },
      { id := some 3, parent := some 0, ruleNames := [], vEdges := [],
        pEdges := [⟨some 4, some 1, [[lit cA, lit cB]]⟩], signCons := [] },
      { id := some 4, parent := some 3, ruleNames := ["#k"], vEdges := [], pEdges := [], signCons := [] } ] }

/-- the same model with the parent of a child of the root corrupted (finding F10) -/
def badRootChild : Model :=
  { model with nodes := model.nodes.set 3 { (model.nodes[3]!) with parent := some 4 } }

/-- the same model with a parent recorded for the root -/
def badRootParent : Model :=
  { model with nodes := model.nodes.set 0 { (model.nodes[0]!) with parent := some 0 } }

/-- the same model with `#k` signed by `#p`: a signing loop -/
def signLoop : Model :=
  { model with nodes := model.nodes.set 4 { (model.nodes[4]!) with signCons := [2] } }

/-- the same model followed by an unreachable node that has no `NodeId` / carries a wrong one -/
def extraNodeNoId : Model :=
  { model with nodes := model.nodes ++ [{ id := none, parent := none, ruleNames := [], vEdges := [], pEdges := [], signCons := [] }] }

def extraNodeWrongId : Model :=
  { model with nodes := model.nodes ++ [{ id := some 3, parent := none, ruleNames := [], vEdges := [], pEdges := [], signCons := [] }] }

/-- no user functions -/
def noFns : FnEnv := fun _ => none

/-- a dictionary in which every identifier is defined (constant `true`) -/
def allFns : FnEnv := fun _ => some (fun _ _ => .ok true)

end Ndn.Lvs.Example
