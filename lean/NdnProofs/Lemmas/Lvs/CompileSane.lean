import NdnProofs.Lemmas.Lvs.CompileTree
/-!
  `buildModel` (passes 4 and 5 of the compiler model): the model it returns obeys the documented sanity
  rules (`Sane`), every node's identifier is its position and every signer exists.
-/
namespace Ndn.Lvs

theorem mapE_ok_idx {α β ε : Type} {f : α → Except ε β} {l : List α} {bs : List β} (h : mapE f l = .ok bs) :
    bs.length = l.length ∧ ∀ (i : Nat) a, l[i]? = some a → ∃ b, bs[i]? = some b ∧ f a = .ok b := by
  induction l generalizing bs with
  | nil => simp [mapE] at h; subst h; simp
  | cons a r ih =>
    unfold mapE at h
    split at h
    · simp at h
    · rename_i b hb
      split at h
      · simp at h
      · rename_i bs' hbs
        injection h with h; subst h
        obtain ⟨hl, hi⟩ := ih hbs
        refine ⟨by simp [hl], fun i x hx => ?_⟩
        cases i with
        | zero => simp at hx; subst hx; exact ⟨b, by simp, hb⟩
        | succ i => simp at hx; simpa using hi i x hx

theorem mem_ruleNodeIds {pool : List PreNode} {rid : String} {k : Nat} (h : k ∈ ruleNodeIds pool rid) :
    ∃ n ∈ pool, n.id = k ∧ rid ∈ n.ruleNames := by
  unfold ruleNodeIds at h
  rw [List.mem_flatMap] at h
  obtain ⟨n, hn, hk⟩ := h
  rw [List.mem_map] at hk
  obtain ⟨x, hx, rfl⟩ := hk
  rw [List.mem_filter] at hx
  have := eq_of_beq hx.2
  subst this
  exact ⟨n, hn, rfl, hx.1⟩

theorem signersOfStr_mem {pool : List PreNode} : ∀ {l : List String} {ks : List Nat},
    signersOfStr pool l = .ok ks → ∀ k ∈ ks, ∃ rid ∈ l, k ∈ ruleNodeIds pool rid := by
  intro l
  induction l with
  | nil => intro ks h; simp [signersOfStr] at h; subst h; simp
  | cons rid r ih =>
    intro ks h k hk
    unfold signersOfStr at h
    split at h
    · simp at h
    · rename_i k0 ks0 hids
      split at h
      · simp at h
      · rename_i rest hrest
        injection h with h; subst h
        simp only [List.cons_append, List.mem_cons, List.mem_append] at hk
        rcases hk with hk | hk | hk
        · exact ⟨rid, List.mem_cons_self, by rw [hids, hk]; exact List.mem_cons_self⟩
        · exact ⟨rid, List.mem_cons_self, by rw [hids]; exact List.mem_cons_of_mem _ hk⟩
        · obtain ⟨rid', hr, hm⟩ := ih hrest k hk
          exact ⟨rid', List.mem_cons_of_mem _ hr, hm⟩

theorem fixNode_ok {pool : List PreNode} {n : PreNode} {node : Node} (h : fixNode pool n = .ok node) :
    node.id = some n.id ∧ node.parent = n.parent ∧ node.ruleNames = n.ruleNames ∧ node.vEdges = n.vEdges ∧
      node.pEdges = n.pEdges ∧
      ∃ ks, signersOfStr pool n.signStr = .ok ks ∧ ∀ k, k ∈ node.signCons ↔ k ∈ ks := by
  unfold fixNode at h
  split at h
  · simp at h
  · rename_i ks hks
    injection h with h; subst h
    exact ⟨rfl, rfl, rfl, rfl, rfl, ks, hks, fun k => mem_isort⟩

theorem placed_id_lt {pool : List PreNode} (hp : Placed 0 pool) {n : PreNode} (hn : n ∈ pool) : n.id < pool.length := by
  obtain ⟨i, hi, rfl⟩ := List.getElem_of_mem hn
  have := hp.ids i pool[i] (List.getElem?_eq_getElem hi)
  omega

/-- the facts about the compiled model the later theorems use -/
structure Built (m : Model) : Prop where
  sane : Sane m
  ids : ∀ (i : Nat) (node : Node), m.nodes[i]? = some node → node.id = some i
  signers : ∀ (i : Nat) (node : Node), m.nodes[i]? = some node → ∀ k ∈ node.signCons, k < m.nodes.length
  start : m.startId = 0

theorem buildModel_built (chains : List Chain) (named : List String) (m : Model)
    (hc : ∀ c ∈ chains, ChainOK c) (h : buildModel chains named = .ok m) : Built m := by
  unfold buildModel at h
  split at h
  · simp at h
  · rename_i pool tidx hg
    split at h
    · simp at h
    · rename_i nodes hfix
      injection h with h
      subst h
      obtain ⟨hpl, hd, tl, hpool, hroot⟩ := genNode_placed _ _ _ _ _ _ _ _ _ hc hg
      obtain ⟨hlen, hidx⟩ := mapE_ok_idx hfix
      -- every node is the image of the pre-node at the same position
      have hnode : ∀ (i : Nat) node, nodes[i]? = some node → ∃ n, pool[i]? = some n ∧ fixNode pool n = .ok node := by
        intro i node hi
        have hil : i < pool.length := by
          rcases Nat.lt_or_ge i nodes.length with h | h
          · omega
          · rw [List.getElem?_eq_none h] at hi; simp at hi
        obtain ⟨b, hb, hf⟩ := hidx i pool[i] (List.getElem?_eq_getElem hil)
        rw [hi] at hb
        injection hb with hb
        subst hb
        exact ⟨pool[i], List.getElem?_eq_getElem hil, hf⟩
      have hids : ∀ (i : Nat) node, nodes[i]? = some node → node.id = some i := by
        intro i node hi
        obtain ⟨n, hn, hf⟩ := hnode i node hi
        rw [(fixNode_ok hf).1, hpl.ids i n hn]
        simp
      have hsig : ∀ (i : Nat) node, nodes[i]? = some node → ∀ k ∈ node.signCons, k < nodes.length := by
        intro i node hi k hk
        obtain ⟨n, hn, hf⟩ := hnode i node hi
        obtain ⟨_, _, _, _, _, ks, hks, hmem⟩ := fixNode_ok hf
        obtain ⟨rid, _, hr⟩ := signersOfStr_mem hks k ((hmem k).mp hk)
        obtain ⟨n', hn', hid, _⟩ := mem_ruleNodeIds hr
        have := placed_id_lt hpl hn'
        omega
      refine ⟨?_, hids, hsig, rfl⟩
      refine ⟨⟨maxVersion, rfl, by decide, Nat.le_refl _⟩, ?_, fun n node hn => hids n node hn, ?_,
        fun n node _ hn => hsig n node hn, ?_⟩
      · -- root
        obtain ⟨b, hb, hf⟩ := hidx 0 hd (by simp [hpool])
        exact ⟨b, hb, by rw [(fixNode_ok hf).2.1, hroot]⟩
      · intro n node _ hn
        obtain ⟨pn, hpn, hf⟩ := hnode n node hn
        obtain ⟨_, _, _, hve, hpe, _⟩ := fixNode_ok hf
        have hmem : pn ∈ pool := List.mem_of_getElem? hpn
        refine ⟨by rw [hve]; exact hpl.ves pn hmem, fun pe hpe' => ((hpl.pes pn hmem) pe (hpe ▸ hpe')).1, ?_⟩
        intro d hd'
        have hd'' : d ∈ pn.dests := by
          unfold Node.dests at hd'
          unfold PreNode.dests
          rw [hve, hpe] at hd'
          exact hd'
        obtain ⟨j, dn, hdj, hj, hpar⟩ := hpl.edges n pn hpn d hd''
        obtain ⟨b, hb, hfb⟩ := hidx j dn hj
        exact ⟨j, b, by simpa using hdj, hb, by rw [(fixNode_ok hfb).2.1, hpar]; simp⟩
      · intro n node _ hn pe hpe cl hcl o ho
        obtain ⟨pn, hpn, hf⟩ := hnode n node hn
        obtain ⟨_, _, _, _, hpe', _⟩ := fixNode_ok hf
        exact ((hpl.pes pn (List.mem_of_getElem? hpn)) pe (hpe' ▸ hpe)).2 cl hcl o ho

end Ndn.Lvs
