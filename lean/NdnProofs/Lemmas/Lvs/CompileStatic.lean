import NdnProofs.Lemmas.Lvs.CompileChains
import NdnProofs.Lemmas.Lvs.CompileSane
import NdnProofs.Lemmas.Lvs.SignAcyclic
/-!
  `compile`-level statements assembled from the pass lemmas: static errors of the source are refused with
  `SemanticError`; the model of a schema that compiles is `Built` (sane, identifiers = positions, signers exist).
-/
namespace Ndn.Lvs

theorem compile_of_chainsOf_error {S : Schema} {e : CErr} (h : chainsOf S = .error e) : compile S = .error e := by
  unfold compile; rw [h]

theorem chainsOf_of_sort_error {S : Schema} {e : CErr} (h : sortRuleReferences S = .error e) :
    chainsOf S = .error e := by
  unfold chainsOf; rw [h]

theorem compile_badRef (S : Schema) (r : SRule) (hr : r ∈ S.rules) (c : String)
    (hc : Comp.ref c ∈ r.name) (h : isTempRule c = true ∨ ∀ r' ∈ S.rules, r'.id ≠ c) :
    compile S = .error .semantic :=
  compile_of_chainsOf_error (chainsOf_of_sort_error (sortRuleReferences_badRef S r hr c hc h))

theorem compile_refCycle (S : Schema) (C : List String) (hne : C ≠ [])
    (hC : ∀ c ∈ C, ∃ r ∈ S.rules, r.id ∈ C ∧ Comp.ref c ∈ r.name) :
    compile S = .error .semantic :=
  compile_of_chainsOf_error (chainsOf_of_sort_error (sortRuleReferences_cycle S C hne hC))

theorem compile_badTerm (S : Schema) (r : SRule) (hr : r ∈ S.rules) (cs : List (Term String String))
    (hcs : cs ∈ r.cons) (t : Term String String) (ht : t ∈ cs) (hbad : BadTerm S.rules r t) :
    compile S = .error .semantic := by
  apply compile_of_chainsOf_error
  unfold chainsOf
  cases hsort : sortRuleReferences S with
  | error e => rw [sortRuleReferences_error S e hsort]
  | ok rules =>
    simp only []
    have hperm := sortRuleReferences_perm S rules hsort
    obtain ⟨r', hr', hn, hc, _⟩ := renameTemps_mem (k := 1) hr
    have hr'' : r' ∈ rules := hperm.mem_iff.mpr hr'
    have hnamed : ∀ p, NamedIn rules p → NamedIn S.rules p := by
      intro p ⟨x, hx, hp⟩
      obtain ⟨x0, hx0, hxn, _⟩ := mem_renameTemps (hperm.mem_iff.mp hx)
      exact ⟨x0, hx0, hxn ▸ hp⟩
    have hbad' : BadTerm rules r' t := by
      rcases hbad with ⟨h1, h2⟩ | ⟨h1, h2⟩ | ⟨o, ho, p, hp, h⟩
      · exact Or.inl ⟨h1, fun hn' => h2 (hnamed _ hn')⟩
      · exact Or.inr (Or.inl ⟨h1, hn ▸ h2⟩)
      · refine Or.inr (Or.inr ⟨o, ho, p, hp, ?_⟩)
        rcases h with h | h
        · exact Or.inl h
        · exact Or.inr (fun hn' => h (hnamed _ hn'))
    rw [genPatternNumbers_bad rules r' hr'' cs (hc ▸ hcs) t ht hbad']

/-- **the model of a well-formed schema that compiles is built as a tree** -/
theorem compile_built (S : Schema) (hwf : S.WF) (m : Model) (syms : List String) (h : compile S = .ok (m, syms)) :
    Built m := by
  unfold compile at h
  split at h
  · simp at h
  · rename_i chains named hch
    split at h
    · simp at h
    · rename_i m' hb
      injection h with h
      simp only [Prod.mk.injEq] at h
      obtain ⟨rfl, _⟩ := h
      exact buildModel_built chains named m' (chainsOf_ok S hwf chains named hch) hb

end Ndn.Lvs
