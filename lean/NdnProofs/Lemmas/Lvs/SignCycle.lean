import NdnProofs.Lemmas.Lvs.Sanity
/-!
  `top_order` inside `_sanity_check`: a signing cycle among reachable nodes makes it raise.
-/
namespace Ndn.Lvs

/-- Kahn's algorithm never empties a set of nodes each of which has a predecessor in the set -/
theorem kahn_false_of_cycle (C : List Nat) (edges : List (Nat × Nat))
    (hC : ∀ c ∈ C, ∃ p ∈ C, (p, c) ∈ edges) :
    ∀ (f : Nat) (rem : List Nat), (∃ c, c ∈ C) → (∀ c ∈ C, c ∈ rem) → kahn f rem edges = false := by
  intro f
  induction f with
  | zero =>
    intro rem ⟨c, hc⟩ hsub
    cases rem with
    | nil => exact absurd (hsub c hc) (by simp)
    | cons x xs => simp [kahn]
  | succ f ih =>
    intro rem ⟨c, hc⟩ hsub
    cases rem with
    | nil => exact absurd (hsub c hc) (by simp)
    | cons x xs =>
      simp only [kahn]
      split
      · rfl
      · apply ih _ ⟨c, hc⟩
        intro c' hc'
        rw [List.mem_filter]
        refine ⟨hsub c' hc', ?_⟩
        obtain ⟨p, hp, hpe⟩ := hC c' hc'
        have hnr : (List.any edges fun e => e.2 == c' && (x :: xs).contains e.1) = true :=
          List.any_eq_true.mpr ⟨(p, c'), hpe, by simpa using hsub p hp⟩
        have hnotready : c' ∉ List.filter
            (fun n => !(edges.any fun e => e.2 == n && (x :: xs).contains e.1)) (x :: xs) := by
          intro hmem
          have := (List.mem_filter.mp hmem).2
          rw [hnr] at this; simp at this
        simpa using hnotready

theorem collect_self {m : Model} {f n : Nat} {par : Option Nat} (h : dfs m f n par = true) :
    n ∈ collect m f n := by
  obtain ⟨f', node, rfl, hn, _, _⟩ := dfs_true h
  simp [collect, hn]

theorem collect_child {m : Model} {f n k : Nat} {node : Node} (hn : m.nodes[n]? = some node)
    (hk : some k ∈ node.dests) : ∀ y ∈ collect m f k, y ∈ collect m (f + 1) n := by
  intro y hy
  simp only [collect, hn, List.mem_cons, List.mem_flatMap]
  exact Or.inr ⟨some k, hk, hy⟩

/-- every reachable node is among the nodes `dfs` visits -/
theorem reach_collect {m : Model} {F : Nat} (h0 : dfs m F m.startId none = true) {x : Nat} (hr : Reach m x) :
    ∃ f par, dfs m f x par = true ∧ ∀ y ∈ collect m f x, y ∈ collect m F m.startId := by
  induction hr with
  | start => exact ⟨F, none, h0, fun y hy => hy⟩
  | @edge n d node _ hn hd ih =>
    obtain ⟨f, par, hf, hsub⟩ := ih
    obtain ⟨f', node', rfl, hn', _, hall⟩ := dfs_true hf
    rw [hn] at hn'; cases hn'
    obtain ⟨k, hk, hdk⟩ := hall _ hd
    cases hk
    exact ⟨f', some n, hdk, fun y hy => hsub y (collect_child hn hd y hy)⟩

/-- **a signing cycle among reachable nodes is rejected with `SemanticError`** (when the structural
    check passes) -/
theorem sign_cycle_rejected (m : Model) (hs : structCheck m = true) (C : List Nat) (hne : ∃ c, c ∈ C)
    (hC : ∀ c ∈ C, ∃ p ∈ C, Reach m p ∧ ∃ pnode, m.nodes[p]? = some pnode ∧ c ∈ pnode.signCons) :
    sanityCheck m = .error .semanticError := by
  have h0 : dfs m (m.nodes.length + 1) m.startId none = true := by
    unfold structCheck at hs; simp only [Bool.and_eq_true] at hs; exact hs.2
  have hsign : signOK m = false := by
    unfold signOK
    simp only
    generalize hids : (m.nodes.filterMap (·.id)).eraseDups = ids
    generalize hedges : ((collect m (m.nodes.length + 1) m.startId).eraseDups.flatMap (fun n =>
      match m.nodes[n]? with
      | some node => node.signCons.map (fun k => (n, k))
      | none => [])) = edges
    have hE : ∀ c ∈ C, ∃ p ∈ C, (p, c) ∈ edges := by
      intro c hc
      obtain ⟨p, hp, hrp, pnode, hpn, hcs⟩ := hC c hc
      refine ⟨p, hp, ?_⟩
      rw [← hedges, List.mem_flatMap]
      obtain ⟨f, par, hf, hsub⟩ := reach_collect h0 hrp
      refine ⟨p, List.mem_eraseDups.mpr (hsub p (collect_self hf)), ?_⟩
      simp [hpn, hcs]
    by_cases hall : (edges.all fun e => ids.contains e.1 && ids.contains e.2) = true
    · have hsub : ∀ c ∈ C, c ∈ ids := by
        intro c hc
        obtain ⟨p, _, hpe⟩ := hE c hc
        have := List.all_eq_true.mp hall (p, c) hpe
        simp only [Bool.and_eq_true, List.contains_eq_mem, decide_eq_true_eq] at this
        exact this.2
      rw [kahn_false_of_cycle C edges hE ids.length ids hne hsub]
      simp
    · simp only [Bool.not_eq_true] at hall
      rw [hall]; simp
  unfold sanityCheck
  simp [hs, hsign]

end Ndn.Lvs
