import NdnModel.Fib
import NdnProofs.Lemmas.PyDict
/-! Helper lemmas for C04 (handler table): map lemmas, the `scan` characterisation, the callback view
    of a table and its behaviour under `step` / `run`. -/
namespace Ndn.PyDict
variable {κ ν : Type} [DecidableEq κ]

theorem get?_erase (d : PyDict κ ν) (k k' : κ) :
    get? (erase d k) k' = if k = k' then none else get? d k' := by
  induction d with
  | nil => simp [erase, get?]
  | cons p r ih =>
    obtain ⟨a, b⟩ := p
    simp only [erase] at ih
    by_cases h : a = k
    · subst h
      simp only [erase, List.filter_cons, ne_eq, not_true_eq_false, decide_false, Bool.false_eq_true,
        if_false, get?]
      rw [ih]; split <;> simp_all
    · simp only [erase, List.filter_cons, ne_eq, h, not_false_eq_true, decide_true, if_true, get?]
      rw [ih]
      by_cases h2 : a = k'
      · have : ¬ k = k' := fun e => h (e ▸ h2)
        simp [h2, this]
      · simp [h2]

end Ndn.PyDict

namespace Ndn.Fib
open Ndn

/-- the handler a table holds at a prefix (`none`: no node, or a node without callback) -/
def cbOf (f : Fib) (p : Name) : Option Hid := (PyDict.get? f p).bind (·.callback)

/-- every node of the table carries a callback -/
def AllCb (f : Fib) : Prop := ∀ p nd, PyDict.get? f p = some nd → nd.callback.isSome

theorem cbOf_isSome_of_get? {f : Fib} (h : AllCb f) {p : Name} {nd : Node}
    (hg : PyDict.get? f p = some nd) : (cbOf f p).isSome := by
  have := h p nd hg
  simp [cbOf, hg, this]

theorem get?_none_of_cbOf {f : Fib} (h : AllCb f) {p : Name} (hc : cbOf f p = none) :
    PyDict.get? f p = none := by
  cases hg : PyDict.get? f p with
  | none => rfl
  | some nd =>
    have := cbOf_isSome_of_get? h hg
    simp [hc] at this

/-! ### scan -/

theorem scan_some (f : Fib) (n : Name) (k : Nat) (p : Name) (nd : Node) :
    scan f n k = some (p, nd) ↔
      ∃ j, j ≤ k ∧ p = n.take j ∧ PyDict.get? f p = some nd ∧
        ∀ i, j < i → i ≤ k → PyDict.get? f (n.take i) = none := by
  induction k with
  | zero =>
    simp only [scan, Option.map_eq_some_iff, Prod.mk.injEq]
    constructor
    · rintro ⟨a, ha, rfl, rfl⟩
      exact ⟨0, Nat.le_refl _, by simp, by simpa using ha, by intro i h1 h2; omega⟩
    · rintro ⟨j, hj, rfl, hg, _⟩
      have : j = 0 := by omega
      subst this
      exact ⟨nd, by simpa using hg, by simp, rfl⟩
  | succ k ih =>
    simp only [scan]
    cases hg : PyDict.get? f (n.take (k + 1)) with
    | some nd' =>
      simp only [Option.some.injEq, Prod.mk.injEq]
      constructor
      · rintro ⟨rfl, rfl⟩
        exact ⟨k + 1, Nat.le_refl _, rfl, hg, by intro i h1 h2; omega⟩
      · rintro ⟨j, hj, rfl, hgj, hall⟩
        by_cases hjk : j = k + 1
        · subst hjk; rw [hg] at hgj; exact ⟨rfl, (Option.some.inj hgj)⟩
        · have := hall (k + 1) (by omega) (Nat.le_refl _)
          rw [hg] at this; cases this
    | none =>
      simp only [ih]
      constructor
      · rintro ⟨j, hj, rfl, hgj, hall⟩
        refine ⟨j, by omega, rfl, hgj, ?_⟩
        intro i h1 h2
        by_cases hik : i = k + 1
        · subst hik; exact hg
        · exact hall i h1 (by omega)
      · rintro ⟨j, hj, rfl, hgj, hall⟩
        have hjk : j ≠ k + 1 := by
          intro e; subst e; rw [hg] at hgj; cases hgj
        exact ⟨j, by omega, rfl, hgj, fun i h1 h2 => hall i h1 (by omega)⟩

theorem scan_none (f : Fib) (n : Name) (k : Nat) :
    scan f n k = none ↔ ∀ i, i ≤ k → PyDict.get? f (n.take i) = none := by
  induction k with
  | zero =>
    simp only [scan, Option.map_eq_none_iff]
    constructor
    · intro h i hi
      have : i = 0 := by omega
      subst this; simpa using h
    · intro h; simpa using h 0 (Nat.le_refl _)
  | succ k ih =>
    simp only [scan]
    cases hg : PyDict.get? f (n.take (k + 1)) with
    | some nd' =>
      simp only [reduceCtorEq, false_iff]
      intro h
      have := h (k + 1) (Nat.le_refl _)
      rw [hg] at this; cases this
    | none =>
      simp only [ih]
      constructor
      · intro h i hi
        by_cases hik : i = k + 1
        · subst hik; exact hg
        · exact h i (by omega)
      · intro h i hi; exact h i (by omega)

/-- a prefix of `n` is `n.take` of its length -/
theorem prefix_eq_take {p n : Name} (h : p <+: n) : p = n.take p.length :=
  List.prefix_iff_eq_take.mp h

theorem longestPrefix_some (f : Fib) (n p : Name) (nd : Node) :
    longestPrefix f n = some (p, nd) ↔
      p <+: n ∧ PyDict.get? f p = some nd ∧
        ∀ q, q <+: n → p.length < q.length → PyDict.get? f q = none := by
  unfold longestPrefix
  rw [scan_some]
  constructor
  · rintro ⟨j, hj, rfl, hg, hall⟩
    refine ⟨List.take_prefix _ _, hg, ?_⟩
    intro q hq hlt
    have hql := hq.length_le
    rw [prefix_eq_take hq]
    apply hall
    · simpa [List.length_take, Nat.min_eq_left hj] using hlt
    · exact hql
  · rintro ⟨hp, hg, hall⟩
    refine ⟨p.length, hp.length_le, prefix_eq_take hp, hg, ?_⟩
    intro i h1 h2
    apply hall _ (List.take_prefix _ _)
    simp [List.length_take, Nat.min_eq_left h2, h1]

theorem longestPrefix_none (f : Fib) (n : Name) :
    longestPrefix f n = none ↔ ∀ q, q <+: n → PyDict.get? f q = none := by
  unfold longestPrefix
  rw [scan_none]
  constructor
  · intro h q hq
    rw [prefix_eq_take hq]; exact h _ hq.length_le
  · intro h i _; exact h _ (List.take_prefix _ _)

/-- two prefixes of one name with the same length are the same name -/
theorem prefix_unique {p q n : Name} (hp : p <+: n) (hq : q <+: n) (hl : p.length = q.length) : p = q := by
  rw [prefix_eq_take hp, prefix_eq_take hq, hl]

/-! ### abstract table and the callback view -/

/-- specification: the attachment table as a function, and what one operation does to it -/
abbrev Table := Name → Option Hid

def Table.update (a : Table) (p : Name) (v : Option Hid) : Table := fun q => if q = p then v else a q

@[simp] theorem Table.update_apply (a : Table) (p q : Name) (v : Option Hid) :
    Table.update a p v q = if q = p then v else a q := rfl

def specStep (a : Table) : Op → Table
  | .attach p (some h) => if (a p).isSome then a else a.update p (some h)
  | .attach _ none => a
  | .detach p => a.update p none

theorem cbOf_set (f : Fib) (p q : Name) (nd : Node) :
    cbOf (PyDict.set f p nd) q = if q = p then nd.callback else cbOf f q := by
  unfold cbOf
  rw [PyDict.get?_set]
  by_cases h : p = q
  · subst h; simp
  · have : ¬ q = p := fun e => h e.symm
    simp [h, this]

theorem cbOf_erase (f : Fib) (p q : Name) :
    cbOf (PyDict.erase f p) q = if q = p then none else cbOf f q := by
  unfold cbOf
  rw [PyDict.get?_erase]
  by_cases h : p = q
  · subst h; simp
  · have : ¬ q = p := fun e => h e.symm
    simp [h, this]

/-! the five cases of `step` -/

theorem step_attach_absent (f : Fib) (p : Name) (h : Option Hid) (hg : PyDict.get? f p = none) :
    step f (.attach p h) = (PyDict.set (PyDict.set f p ⟨none⟩) p ⟨h⟩, .ok) := by
  simp [step, attach, hg]

theorem step_attach_blank (f : Fib) (p : Name) (h : Option Hid) (nd : Node)
    (hg : PyDict.get? f p = some nd) (hc : nd.callback = none) :
    step f (.attach p h) = (PyDict.set f p ⟨h⟩, .ok) := by
  simp [step, attach, hg, hc]

theorem step_attach_occupied (f : Fib) (p : Name) (h : Option Hid) (nd : Node) (h0 : Hid)
    (hg : PyDict.get? f p = some nd) (hc : nd.callback = some h0) :
    step f (.attach p h) = (f, .err .valueError) := by
  simp [step, attach, hg, hc]

theorem step_detach_present (f : Fib) (p : Name) (nd : Node) (hg : PyDict.get? f p = some nd) :
    step f (.detach p) = (PyDict.erase f p, .ok) := by
  simp [step, detach, PyDict.contains, hg]

theorem step_detach_absent (f : Fib) (p : Name) (hg : PyDict.get? f p = none) :
    step f (.detach p) = (f, .err .keyError) := by
  simp [step, detach, PyDict.contains, hg]

/-- one operation of the model acts on the callback view exactly as the specification step -/
theorem cbOf_step (f : Fib) (op : Op) : cbOf (step f op).1 = specStep (cbOf f) op := by
  funext q
  cases op with
  | attach p h =>
    cases hg : PyDict.get? f p with
    | none =>
      have hc : cbOf f p = none := by simp [cbOf, hg]
      rw [step_attach_absent f p h hg]
      simp only [cbOf_set]
      cases h with
      | none =>
        simp only [specStep]
        split
        · subst_vars; simp [hc]
        · rfl
      | some h => simp only [specStep, hc]; split <;> simp_all
    | some nd =>
      cases hcb : nd.callback with
      | some h0 =>
        have hc : cbOf f p = some h0 := by simp [cbOf, hg, hcb]
        rw [step_attach_occupied f p h nd h0 hg hcb]
        cases h <;> simp [specStep, hc]
      | none =>
        have hc : cbOf f p = none := by simp [cbOf, hg, hcb]
        rw [step_attach_blank f p h nd hg hcb]
        simp only [cbOf_set]
        cases h with
        | none =>
          simp only [specStep]
          split
          · subst_vars; simp [hc]
          · rfl
        | some h => simp [specStep, hc]
  | detach p =>
    cases hg : PyDict.get? f p with
    | none =>
      have hc : cbOf f p = none := by simp [cbOf, hg]
      rw [step_detach_absent f p hg]
      simp only [specStep, Table.update_apply]
      split
      · subst_vars; exact hc
      · rfl
    | some nd =>
      rw [step_detach_present f p nd hg]
      simp only [cbOf_erase, specStep, Table.update_apply]

theorem run_append (f : Fib) (a b : List Op) :
    (run f (a ++ b)).1 = (run (run f a).1 b).1 := by
  induction a generalizing f with
  | nil => rfl
  | cons op r ih => simp only [List.cons_append, run]; exact ih _

theorem cbOf_run (f : Fib) (ops : List Op) : cbOf (run f ops).1 = ops.foldl specStep (cbOf f) := by
  induction ops generalizing f with
  | nil => rfl
  | cons op r ih => simp only [run, List.foldl_cons]; rw [ih, cbOf_step]

/-- a history in which every attach carries a handler -/
def Proper (ops : List Op) : Prop := ∀ p, Op.attach p none ∉ ops

theorem allCb_set (f : Fib) (p : Name) (nd : Node) (h : AllCb f) (hn : nd.callback.isSome) :
    AllCb (PyDict.set f p nd) := by
  intro q nd' hg
  rw [PyDict.get?_set] at hg
  split at hg
  · cases hg; exact hn
  · exact h q nd' hg

theorem allCb_erase (f : Fib) (p : Name) (h : AllCb f) : AllCb (PyDict.erase f p) := by
  intro q nd' hq
  rw [PyDict.get?_erase] at hq
  split at hq
  · cases hq
  · exact h q nd' hq

theorem allCb_step (f : Fib) (op : Op) (h : AllCb f) (hop : ∀ p, op ≠ .attach p none) :
    AllCb (step f op).1 := by
  cases op with
  | attach p ho =>
    cases ho with
    | none => exact absurd rfl (hop p)
    | some hh =>
      cases hg : PyDict.get? f p with
      | none =>
        rw [step_attach_absent f p _ hg]
        intro q nd' hq
        simp only [PyDict.get?_set] at hq
        split at hq
        · cases hq; rfl
        · exact h q nd' hq
      | some nd =>
        cases hcb : nd.callback with
        | some h0 => rw [step_attach_occupied f p _ nd h0 hg hcb]; exact h
        | none => rw [step_attach_blank f p _ nd hg hcb]; exact allCb_set f p ⟨some hh⟩ h rfl
  | detach p =>
    cases hg : PyDict.get? f p with
    | none => rw [step_detach_absent f p hg]; exact h
    | some nd => rw [step_detach_present f p nd hg]; exact allCb_erase f p h

theorem allCb_run (f : Fib) (ops : List Op) (h : AllCb f) (hp : Proper ops) : AllCb (run f ops).1 := by
  induction ops generalizing f with
  | nil => exact h
  | cons op r ih =>
    simp only [run]
    apply ih
    · apply allCb_step _ _ h
      intro p e; exact hp p (e ▸ List.mem_cons_self)
    · intro p hm; exact hp p (List.mem_cons_of_mem _ hm)

theorem allCb_nil : AllCb ([] : Fib) := by
  intro p nd h; simp [PyDict.get?] at h

end Ndn.Fib

/-! ### the entries of the generated table `Ndn.Gen.C04.reply` the model computes with

pinned to the values the proofs rely on (`Ndn.C04.gen_reply_deadline`, closed by evaluation), and what
`Fib.mkPending` / `Fib.reply` come to for them (derived from the pin).  A source edit that changes the default
lifetime, the way it is substituted or the operator of the "too late" test stops the pin from checking - and with it
every theorem of C04. -/
namespace Ndn.C04

/-- the deadline of the reply closure: `DEFAULT_LIFETIME` = 4000, substituted with `is not None` (an `or` would also
    replace lifetime 0); "too late" is `now > deadline` -/
theorem gen_reply_deadline :
    Gen.C04.reply.defaultLifetime = 4000 ∧ Gen.C04.reply.lifetimeDflt = .ifNotNone ∧ Gen.C04.reply.lateCmp = .gt ∧
    Fib.tableOk = true := by decide

end Ndn.C04

namespace Ndn.Fib

theorem defaultLifetime_eq : defaultLifetime = 4000 := C04.gen_reply_deadline.1

theorem mkPending_eq (arrival : Nat) (lifetime : Option Nat) (tok : Option Bytes) :
    mkPending arrival lifetime tok =
      match lifetime with
      | some l => ⟨arrival + l, tok⟩
      | none => ⟨arrival + 4000, tok⟩ := by
  unfold mkPending
  rw [defaultLifetime_eq, C04.gen_reply_deadline.2.1]
  cases lifetime <;> rfl

theorem reply_eq (running : Bool) (pd : Pending) (now : Nat) (data : Bytes) :
    reply running pd now data =
      if now > pd.deadline then .ok (false, [])
      else if !running then .error .other
      else match pd.pitToken with
        | none => .ok (true, [data])
        | some t => .ok (true, [lpWrap t data]) := by
  have h : Gen.C04.reply.lateCmp.holds now pd.deadline = decide (now > pd.deadline) := by
    rw [C04.gen_reply_deadline.2.2.1]; rfl
  unfold reply
  rw [h]
  cases pd.pitToken <;> cases running <;> by_cases hl : now > pd.deadline <;> simp [hl]

end Ndn.Fib
