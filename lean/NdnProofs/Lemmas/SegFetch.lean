import NdnModel.SegFetch
/-! Helper lemmas for C19: shape of what one `retry` call sends, the log invariant `Good`, request names. -/
namespace Ndn.SegFetch

/-- number of Interests sent for one request before giving up (`trial_times >= retry_times` after increment) -/
def attempts (limit : Nat) : Nat := max 1 limit

def lastOut : RRes → Outcome
  | .ok => .data | .timeout => .timeout | .nack => .nack | .invalid => .invalid | .fuel => .data

def endOut : End → Outcome
  | .done => .data | .timeout => .timeout | .nack => .nack | .invalid => .invalid | .fuel => .data

theorem endOut_endOf (r : RRes) : endOut (endOf r) = lastOut r := by cases r <;> rfl

theorem retry_succ (limit : Nat) (ex : Bool) (fuel trial : Nat) (sc : List Outcome) :
    retry limit ex (fuel + 1) trial sc =
      match eff (pop sc).1 ex with
      | .data => (.ok, (pop sc).2, [.data])
      | .nack => (.nack, (pop sc).2, [.nack])
      | .invalid => (.invalid, (pop sc).2, [.invalid])
      | .timeout =>
        if trial + 1 ≥ limit then (.timeout, (pop sc).2, [.timeout])
        else ((retry limit ex fuel (trial + 1) (pop sc).2).1, (retry limit ex fuel (trial + 1) (pop sc).2).2.1,
              .timeout :: (retry limit ex fuel (trial + 1) (pop sc).2).2.2) := rfl

/-- Data that does not exist is never fetched -/
theorem retry_missing_not_ok (limit : Nat) : ∀ (fuel trial : Nat) (sc : List Outcome),
    (retry limit false fuel trial sc).1 ≠ .ok := by
  intro fuel
  induction fuel with
  | zero => intro trial sc; simp [retry]
  | succ n ih =>
    intro trial sc
    rw [retry_succ]
    have he : eff (pop sc).1 false = .timeout ∨ eff (pop sc).1 false = .nack := by
      cases (pop sc).1 <;> simp [eff]
    rcases he with he | he
    · rw [he]
      by_cases h : trial + 1 ≥ limit
      · simp [h]
      · simp only [h, if_false]; exact ih _ _
    · rw [he]; simp

/-- what one `retry` call sends: `j` lost Interests, then the one that decides -/
theorem retry_shape (limit : Nat) (ex : Bool) : ∀ (fuel trial : Nat) (sc : List Outcome),
    trial ≤ limit → limit + 1 ≤ fuel + trial →
    (retry limit ex fuel trial sc).1 ≠ .fuel ∧
    ∃ j, (retry limit ex fuel trial sc).2.2 = List.replicate j .timeout ++ [lastOut (retry limit ex fuel trial sc).1] ∧
      ((retry limit ex fuel trial sc).1 = .timeout → trial + j + 1 = max (trial + 1) limit) ∧
      ((retry limit ex fuel trial sc).1 ≠ .timeout → j = 0 ∨ trial + j < limit) := by
  intro fuel
  induction fuel with
  | zero => intro trial sc h1 h2; omega
  | succ n ih =>
    intro trial sc h1 h2
    rw [retry_succ]
    cases he : eff (pop sc).1 ex with
    | data => exact ⟨by simp, 0, by simp [lastOut], by simp, by simp⟩
    | nack => exact ⟨by simp, 0, by simp [lastOut], by simp, by simp⟩
    | invalid => exact ⟨by simp, 0, by simp [lastOut], by simp, by simp⟩
    | timeout =>
      by_cases h : trial + 1 ≥ limit
      · simp only [h, if_true]
        exact ⟨by simp, 0, by simp [lastOut], by intro _; omega, by simp⟩
      · simp only [h, if_false]
        obtain ⟨a1, j, a2, a3, a4⟩ := ih (trial + 1) (pop sc).2 (by omega) (by omega)
        refine ⟨a1, j + 1, ?_, ?_, ?_⟩
        · rw [a2]; simp [List.replicate_succ]
        · intro ht; have := a3 ht; omega
        · intro ht; have := a4 ht; omega

theorem retry_top (limit : Nat) (ex : Bool) (sc : List Outcome) :
    (retry limit ex (limit + 1) 0 sc).1 ≠ .fuel ∧
    ∃ j, (retry limit ex (limit + 1) 0 sc).2.2 = List.replicate j .timeout ++ [lastOut (retry limit ex (limit + 1) 0 sc).1] ∧
      ((retry limit ex (limit + 1) 0 sc).1 = .timeout → j + 1 = attempts limit) ∧
      ((retry limit ex (limit + 1) 0 sc).1 ≠ .timeout → j < attempts limit) := by
  obtain ⟨a1, j, a2, a3, a4⟩ := retry_shape limit ex (limit + 1) 0 sc (by omega) (by omega)
  refine ⟨a1, j, a2, ?_, ?_⟩
  · intro h; have := a3 h; simp only [attempts]; omega
  · intro h; have := a4 h; simp only [attempts]; omega

theorem retry_top_length (limit : Nat) (ex : Bool) (sc : List Outcome) :
    (retry limit ex (limit + 1) 0 sc).2.2.length ≤ attempts limit := by
  obtain ⟨_, j, a2, a3, a4⟩ := retry_top limit ex sc
  rw [a2]
  simp only [List.length_append, List.length_replicate, List.length_cons, List.length_nil]
  by_cases h : (retry limit ex (limit + 1) 0 sc).1 = .timeout
  · have := a3 h; omega
  · have := a4 h; omega

/-! ### the log invariant -/

/-- The log ends with the block of the request that decided the fetch: `j` losses and the deciding outcome;
    everything before is lost or answered Interests. -/
def Good (a : Nat) (r : Result) : Prop :=
  r.end_ ≠ .fuel ∧ ∃ pre req j,
    r.log = pre ++ (List.replicate j (req, Outcome.timeout) ++ [(req, endOut r.end_)]) ∧
    (∀ e ∈ pre, e.2 = .timeout ∨ e.2 = .data) ∧ (r.end_ = .timeout → j + 1 = a) ∧ (r.end_ ≠ .timeout → j < a)

theorem map_block (req : Req) (j : Nat) (o : Outcome) :
    (List.replicate j Outcome.timeout ++ [o]).map (fun x => (req, x)) = List.replicate j (req, Outcome.timeout) ++ [(req, o)] := by
  simp

/-- the block of a request whose `retry` did not return Data ends the fetch -/
theorem good_of_block (limit : Nat) (ex : Bool) (sc : List Outcome) (req : Req) (y : List Nat)
    (hne : (retry limit ex (limit + 1) 0 sc).1 ≠ .ok) :
    Good (attempts limit) ⟨y, (retry limit ex (limit + 1) 0 sc).2.2.map (fun o => (req, o)),
      endOf (retry limit ex (limit + 1) 0 sc).1⟩ := by
  obtain ⟨a1, j, a2, a3, a4⟩ := retry_top limit ex sc
  refine ⟨?_, [], req, j, ?_, by simp, ?_, ?_⟩
  · cases h : (retry limit ex (limit + 1) 0 sc).1 <;> simp_all [endOf]
  · rw [a2, map_block, endOut_endOf]; simp
  · intro h; apply a3; cases h' : (retry limit ex (limit + 1) 0 sc).1 <;> simp_all [endOf]
  · intro h; apply a4; cases h' : (retry limit ex (limit + 1) 0 sc).1 <;> simp_all [endOf]

/-- the block of a request answered with the final segment -/
theorem good_of_done (limit : Nat) (ex : Bool) (sc : List Outcome) (req : Req) (y : List Nat)
    (hok : (retry limit ex (limit + 1) 0 sc).1 = .ok) :
    Good (attempts limit) ⟨y, (retry limit ex (limit + 1) 0 sc).2.2.map (fun o => (req, o)), .done⟩ := by
  obtain ⟨_, j, a2, _, a4⟩ := retry_top limit ex sc
  refine ⟨by simp, [], req, j, ?_, by simp, by simp, ?_⟩
  · rw [a2, map_block, hok]; simp [lastOut, endOut]
  · intro _; exact a4 (by simp [hok])

theorem ok_block_benign (limit : Nat) (ex : Bool) (sc : List Outcome) (req : Req)
    (hok : (retry limit ex (limit + 1) 0 sc).1 = .ok) :
    ∀ e ∈ (retry limit ex (limit + 1) 0 sc).2.2.map (fun o => (req, o)), e.2 = Outcome.timeout ∨ e.2 = Outcome.data := by
  obtain ⟨_, j, a2, _, _⟩ := retry_top limit ex sc
  rw [a2, hok]
  intro e he
  simp only [lastOut, List.map_append, List.map_replicate, List.map_cons, List.map_nil, List.mem_append,
    List.mem_replicate, List.mem_singleton] at he
  rcases he with ⟨_, rfl⟩ | rfl <;> simp

theorem good_prepend (a : Nat) (y y' : List Nat) (blk lg : List (Req × Outcome)) (e : End)
    (hb : ∀ x ∈ blk, x.2 = Outcome.timeout ∨ x.2 = Outcome.data) (hg : Good a ⟨y, lg, e⟩) :
    Good a ⟨y', blk ++ lg, e⟩ := by
  obtain ⟨g1, pre, req, j, g2, g3, g4, g5⟩ := hg
  refine ⟨g1, blk ++ pre, req, j, ?_, ?_, g4, g5⟩
  · simp only at g2 ⊢; rw [g2]; simp
  · intro x hx
    rcases List.mem_append.mp hx with h | h
    · exact hb x h
    · exact g3 x h

theorem fetchLoop_succ (limit : Nat) (segs : List Seg) (fuel i : Nat) (sc : List Outcome) :
    fetchLoop limit segs (fuel + 1) i sc =
      match (retry limit (decide (i < segs.length)) (limit + 1) 0 sc).1, segs[i]? with
      | .ok, some s =>
        if s.fbi = some i then
          ⟨[s.content], (retry limit (decide (i < segs.length)) (limit + 1) 0 sc).2.2.map fun o => (Req.seg i, o), .done⟩
        else
          ⟨s.content :: (fetchLoop limit segs fuel (i + 1) (retry limit (decide (i < segs.length)) (limit + 1) 0 sc).2.1).yielded,
           ((retry limit (decide (i < segs.length)) (limit + 1) 0 sc).2.2.map fun o => (Req.seg i, o)) ++
             (fetchLoop limit segs fuel (i + 1) (retry limit (decide (i < segs.length)) (limit + 1) 0 sc).2.1).log,
           (fetchLoop limit segs fuel (i + 1) (retry limit (decide (i < segs.length)) (limit + 1) 0 sc).2.1).end_⟩
      | .ok, none => ⟨[], (retry limit (decide (i < segs.length)) (limit + 1) 0 sc).2.2.map fun o => (Req.seg i, o), .fuel⟩
      | e, _ => ⟨[], (retry limit (decide (i < segs.length)) (limit + 1) 0 sc).2.2.map fun o => (Req.seg i, o), endOf e⟩ := rfl

/-- a successful request is for a segment that exists -/
theorem ok_exists (limit : Nat) (segs : List Seg) (i : Nat) (sc : List Outcome)
    (hok : (retry limit (decide (i < segs.length)) (limit + 1) 0 sc).1 = .ok) : i < segs.length := by
  by_cases h : i < segs.length
  · exact h
  · simp only [h, decide_false] at hok
    exact absurd hok (retry_missing_not_ok _ _ _ _)

theorem fetchLoop_good (limit : Nat) (segs : List Seg) : ∀ (fuel i : Nat) (sc : List Outcome),
    i ≤ segs.length → segs.length + 1 ≤ fuel + i → Good (attempts limit) (fetchLoop limit segs fuel i sc) := by
  intro fuel
  induction fuel with
  | zero => intro i sc h1 h2; omega
  | succ n ih =>
    intro i sc h1 h2
    rw [fetchLoop_succ]
    cases hr : (retry limit (decide (i < segs.length)) (limit + 1) 0 sc).1 with
    | ok =>
      have hlt := ok_exists limit segs i sc hr
      have hs : segs[i]? = some segs[i] := List.getElem?_eq_getElem hlt
      rw [hs]
      simp only
      by_cases hf : segs[i].fbi = some i
      · simp only [hf, if_true]
        exact good_of_done limit _ sc (Req.seg i) _ hr
      · simp only [hf, if_false]
        exact good_prepend _ _ _ _ _ _ (ok_block_benign limit _ sc (Req.seg i) hr)
          (ih (i + 1) _ (by omega) (by omega))
    | timeout =>
      have := good_of_block limit (decide (i < segs.length)) sc (Req.seg i) [] (by simp [hr])
      rw [hr] at this
      cases segs[i]? <;> simpa using this
    | nack =>
      have := good_of_block limit (decide (i < segs.length)) sc (Req.seg i) [] (by simp [hr])
      rw [hr] at this
      cases segs[i]? <;> simpa using this
    | invalid =>
      have := good_of_block limit (decide (i < segs.length)) sc (Req.seg i) [] (by simp [hr])
      rw [hr] at this
      cases segs[i]? <;> simpa using this
    | fuel => exact absurd hr (retry_top limit _ sc).1

/-- every Interest of the segment loop started at `i` names a segment `≥ i` -/
theorem fetchLoop_reqs (limit : Nat) (segs : List Seg) : ∀ (fuel i : Nat) (sc : List Outcome),
    ∀ e ∈ (fetchLoop limit segs fuel i sc).log, ∃ k, e.1 = Req.seg k ∧ i ≤ k := by
  intro fuel
  induction fuel with
  | zero => intro i sc e he; simp [fetchLoop] at he
  | succ n ih =>
    intro i sc e he
    rw [fetchLoop_succ] at he
    have hblk : ∀ e ∈ (retry limit (decide (i < segs.length)) (limit + 1) 0 sc).2.2.map (fun o => (Req.seg i, o)),
        ∃ k, e.1 = Req.seg k ∧ i ≤ k := by
      intro e he
      obtain ⟨o, _, rfl⟩ := List.mem_map.mp he
      exact ⟨i, rfl, Nat.le_refl _⟩
    cases hr : (retry limit (decide (i < segs.length)) (limit + 1) 0 sc).1 <;> rw [hr] at he <;>
      cases hs : segs[i]? <;> rw [hs] at he <;> simp only at he
    all_goals first
      | exact hblk e he
      | (rename_i s
         by_cases hf : s.fbi = some i
         · simp only [hf, if_true] at he; exact hblk e he
         · simp only [hf, if_false] at he
           rcases List.mem_append.mp he with h | h
           · exact hblk e h
           · obtain ⟨k, h1, h2⟩ := ih (i + 1) _ e h
             exact ⟨k, h1, by omega⟩)

/-- per-request bound for the segment loop -/
theorem fetchLoop_count (limit : Nat) (segs : List Seg) (req : Req) : ∀ (fuel i : Nat) (sc : List Outcome),
    ((fetchLoop limit segs fuel i sc).log.filter (fun e => decide (e.1 = req))).length ≤ attempts limit := by
  intro fuel
  induction fuel with
  | zero => intro i sc; simp [fetchLoop]
  | succ n ih =>
    intro i sc
    rw [fetchLoop_succ]
    have hblk : (((retry limit (decide (i < segs.length)) (limit + 1) 0 sc).2.2.map (fun o => (Req.seg i, o))).filter
        (fun e => decide (e.1 = req))).length ≤ attempts limit :=
      Nat.le_trans (List.length_filter_le _ _) (by simpa using retry_top_length limit _ sc)
    cases hr : (retry limit (decide (i < segs.length)) (limit + 1) 0 sc).1 <;>
      cases hs : segs[i]? <;> simp only
    all_goals first
      | exact hblk
      | (rename_i s
         by_cases hf : s.fbi = some i
         · simp only [hf, if_true]; exact hblk
         · simp only [hf, if_false, List.filter_append, List.length_append]
           by_cases hq : req = Req.seg i
           · -- the rest of the loop never names segment i again
             have hz : ((fetchLoop limit segs n (i + 1) (retry limit (decide (i < segs.length)) (limit + 1) 0 sc).2.1).log.filter
                 (fun e => decide (e.1 = req))) = [] := by
               rw [List.filter_eq_nil_iff]
               intro e he
               obtain ⟨k, h1, h2⟩ := fetchLoop_reqs limit segs n (i + 1) _ e he
               simp only [decide_eq_true_eq, hq, h1, Req.seg.injEq]
               omega
             rw [hz]; simpa using hblk
           · have hz : (((retry limit (decide (i < segs.length)) (limit + 1) 0 sc).2.2.map (fun o => (Req.seg i, o))).filter
                 (fun e => decide (e.1 = req))) = [] := by
               rw [List.filter_eq_nil_iff]
               intro e he
               obtain ⟨o, _, rfl⟩ := List.mem_map.mp he
               simpa using fun h => hq h.symm
             rw [hz]; simpa using ih (i + 1) _)

end Ndn.SegFetch
