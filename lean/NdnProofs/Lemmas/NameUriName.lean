import NdnProofs.Lemmas.NameStr
/-! Name-level URI lemmas: slash splitting/joining, `Name.from_str` on printed names. -/
namespace Ndn
open Comp

theorem splitSlash_noslash (u : Str) (h : ∀ c ∈ u, c ≠ '/') : splitSlash u = [u] := by
  induction u with
  | nil => rfl
  | cons c u ih =>
    have hc := h c (by simp)
    simp [splitSlash, hc, ih (fun x hx => h x (by simp [hx]))]

theorem splitSlash_append (u rest : Str) (h : ∀ c ∈ u, c ≠ '/') :
    splitSlash (u ++ '/' :: rest) = u :: splitSlash rest := by
  induction u with
  | nil => simp [splitSlash]
  | cons c u ih =>
    have hc := h c (by simp)
    simp [splitSlash, hc, ih (fun x hx => h x (by simp [hx]))]

theorem joinSlash_cons2 (u u2 : Str) (us : List Str) :
    joinSlash (u :: u2 :: us) = u ++ '/' :: joinSlash (u2 :: us) := by
  rw [joinSlash]
  all_goals simp

theorem splitSlash_joinSlash (us : List Str) (hne : us ≠ []) (h : ∀ u ∈ us, ∀ c ∈ u, c ≠ '/') :
    splitSlash (joinSlash us) = us := by
  induction us with
  | nil => exact absurd rfl hne
  | cons u us ih =>
    cases us with
    | nil => simp [joinSlash]; exact splitSlash_noslash u (h u (by simp))
    | cons u2 us =>
      rw [joinSlash_cons2, splitSlash_append u _ (h u (by simp)), ih (by simp) (fun x hx => h x (by simp [hx]))]

theorem joinSlash_last (us : List Str) (hne : us ≠ []) : ∃ X, joinSlash us = X ++ us.getLast hne := by
  induction us with
  | nil => exact absurd rfl hne
  | cons u us ih =>
    cases us with
    | nil => exact ⟨[], by simp [joinSlash]⟩
    | cons u2 us =>
      obtain ⟨X, hX⟩ := ih (by simp)
      refine ⟨u ++ '/' :: X, ?_⟩
      rw [joinSlash_cons2, hX]; simp

theorem escapeStr_id (s : Str) (h : ∀ c ∈ s, inCharset c = true) : escapeStr s = s := by
  induction s with
  | nil => rfl
  | cons c s ih =>
    have hc := h c (by simp)
    have := ih (fun x hx => h x (by simp [hx]))
    simp only [escapeStr, List.flatMap_cons, hc, if_true] at this ⊢
    rw [this]; rfl

theorem mapM_ok {α β} (g : α → Except PyErr β) (f : α → β) (l : List α) (h : ∀ a ∈ l, g a = .ok (f a)) :
    l.mapM g = .ok (l.map f) := by
  induction l with
  | nil => rfl
  | cons a l ih =>
    rw [List.mapM_cons, h a (by simp), ih (fun x hx => h x (by simp [hx]))]
    rfl

theorem mapM_map_ok {α β} (g : β → Except PyErr α) (f : α → β) (l : List α) (h : ∀ a ∈ l, g (f a) = .ok a) :
    (l.map f).mapM g = .ok l := by
  induction l with
  | nil => rfl
  | cons a l ih =>
    rw [List.map_cons, List.mapM_cons, h a (by simp), ih (fun x hx => h x (by simp [hx]))]
    rfl

/-- the text `Name.to_str` / `Name.to_canonical_uri` print for a list of printed components -/
def nameUri (n : List Bytes) (f : Bytes → Str) : Str :=
  '/' :: (joinSlash (n.map f) ++ (if n.getLast? = some [8, 0] then ['/'] else []))

/-- `Name.from_str` reads back what was printed, whatever per-component printer `f` was used, as long
    as `f` prints CHARSET text without `/`, prints the empty string only for the empty generic
    component, and `Component.from_str` inverts it. -/
theorem name_fromStr_nameUri (n : List Bytes) (f : Bytes → Str)
    (h1 : ∀ c ∈ n, ∀ ch ∈ f c, inCharset ch = true ∧ ch ≠ '/')
    (h2 : ∀ c ∈ n, Comp.fromStr (f c) = .ok c)
    (h3 : ∀ c ∈ n, f c = [] → c = [8, 0]) :
    Name.fromStr (nameUri n f) = .ok n := by
  by_cases hn : n = []
  · subst hn; rfl
  · have hus : n.map f ≠ [] := by simpa using hn
    have hsplit := splitSlash_joinSlash (n.map f) hus (by
      intro u hu c hc
      simp at hu
      obtain ⟨a, ha, rfl⟩ := hu
      exact (h1 a ha c hc).2)
    have hmap : (n.map f).mapM (fun comp => Comp.fromStr (escapeStr comp)) = .ok n := by
      apply mapM_map_ok
      intro a ha
      rw [escapeStr_id _ (fun c hc => (h1 a ha c hc).1)]
      exact h2 a ha
    have hlast : n.getLast? = some (n.getLast hn) := List.getLast?_eq_some_getLast hn
    have hJne_of : n.getLast hn ≠ [8, 0] → joinSlash (n.map f) ≠ [] ∧ (joinSlash (n.map f)).getLast? ≠ some '/' := by
      intro hl
      obtain ⟨X, hX⟩ := joinSlash_last (n.map f) hus
      have hlm : (n.map f).getLast hus = f (n.getLast hn) := by simp [List.getLast_map]
      have hfne : f (n.getLast hn) ≠ [] := fun e => hl (h3 _ (List.getLast_mem hn) e)
      rw [hX, hlm]
      refine ⟨by simp [hfne], ?_⟩
      rw [List.getLast?_append, List.getLast?_eq_some_getLast hfne, Option.some_or]
      intro e
      injection e with e
      exact (h1 _ (List.getLast_mem hn) _ (List.getLast_mem hfne)).2 e
    unfold nameUri Name.fromStr
    by_cases hl : n.getLast hn = [8, 0]
    · simp only [hlast, hl, if_true, Name.stripLead]
      have : (joinSlash (n.map f) ++ ['/']).getLast? = some '/' := by simp
      simp only [Name.stripTrail, this, if_true, List.dropLast_concat]
      have : ¬ (joinSlash (List.map f n) = [] ∧ 1 + 1 ≤ 1) := by omega
      simp only [this, if_false, hsplit, hmap]
    · have hne2 : ¬ (some (n.getLast hn) = some [8, 0]) := by simpa using hl
      obtain ⟨ha, hb⟩ := hJne_of hl
      simp only [hlast, hne2, if_false, List.append_nil, Name.stripLead, Name.stripTrail, hb]
      have : ¬ (joinSlash (List.map f n) = [] ∧ 1 ≤ 1) := by simp [ha]
      simp only [this, if_false, hsplit, hmap]

/-- the part of `Name.from_str` after the slashes have been stripped -/
def finish (p : Str × Nat) : Except PyErr (List Bytes) :=
  if p.1 = [] ∧ p.2 ≤ 1 then .ok []
  else (splitSlash p.1).mapM fun comp => Comp.fromStr (Comp.escapeStr comp)

theorem fromStr_eq_finish (val : Str) : Name.fromStr val = finish (Name.stripTrail (Name.stripLead val)) := rfl

theorem finish_count (x : Str) (k k' : Nat) (hx : x ≠ []) : finish (x, k) = finish (x, k') := by
  simp [finish, hx]

theorem stripLead_ne (c : Char) (r : Str) (hc : c ≠ '/') : Name.stripLead (c :: r) = (c :: r, 0) := by
  unfold Name.stripLead
  split
  · rename_i r' e; injection e with e1 _; exact absurd e1 hc
  · rfl

end Ndn
