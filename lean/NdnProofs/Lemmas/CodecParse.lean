import NdnProofs.Lemmas.Codec
/-! Parsing one encoded element: header lemmas, field search, name decoding. -/
namespace Ndn.Codec
open Ndn

theorem tlv_ne_nil (t : Nat) (b : Bytes) : tlv t b ≠ [] := by
  intro h
  have h2 := congrArg List.length h
  rw [tlv_length] at h2
  have := tlNumSize_pos t
  simp at h2; omega

/-- everything the scan loop reads from the head element of `tlv t body ++ R` -/
theorem head_elem (t : Nat) (body R : Bytes) (ht : t < 2 ^ 64) (hb : body.length < 2 ^ 64) :
    parseTlNum (tlv t body ++ R) 0 = .ok (t, tlNumSize t) ∧
    parseTlNum (tlv t body ++ R) (tlNumSize t) = .ok (body.length, tlNumSize body.length) ∧
    pySlice (tlv t body ++ R) (tlNumSize t + tlNumSize body.length)
      (tlNumSize t + tlNumSize body.length + body.length) = body ∧
    pySlice (tlv t body ++ R) 0 (tlNumSize t + tlNumSize body.length + body.length) = tlv t body ∧
    (tlv t body ++ R).drop (tlNumSize t + tlNumSize body.length + body.length) = R := by
  refine ⟨?_, ?_, ?_, ?_, ?_⟩
  · simp only [tlv, List.append_assoc]; exact parse_write t _ ht
  · have := parseTlNum_shift (writeTlNum t) (writeTlNum body.length ++ body ++ R) 0
    rw [writeTlNum_length, Nat.add_zero] at this
    simp only [tlv, List.append_assoc] at this ⊢
    rw [this]; exact parse_write _ _ hb
  · have h1 : (writeTlNum t ++ writeTlNum body.length).length = tlNumSize t + tlNumSize body.length := by
      simp [writeTlNum_length]
    have := pySlice_shift (writeTlNum t ++ writeTlNum body.length) (body ++ R) 0 body.length
    rw [h1, Nat.add_zero] at this
    simp only [tlv, List.append_assoc] at this ⊢
    rw [this]; simp [pySlice]
  · have : tlNumSize t + tlNumSize body.length + body.length = (tlv t body).length := by rw [tlv_length]
    rw [this]; simp [pySlice]
  · have : tlNumSize t + tlNumSize body.length + body.length = (tlv t body).length := by rw [tlv_length]
    rw [this]; simp

/-! ### field search -/

theorem nodupB_cons {a : Nat} {r : List Nat} (h : nodupB (a :: r) = true) : a ∉ r ∧ nodupB r = true := by
  simp [nodupB] at h; exact h

theorem mem_typs {fs : List Schema} {j : Nat} {s : Schema} {t : Nat} (h : fs[j]? = some s)
    (ht : s.typ = some t) : t ∈ typs fs := by
  induction fs generalizing j with
  | nil => simp at h
  | cons a r ih =>
    cases j with
    | zero => simp at h; subst h; simp [typs, ht]
    | succ j =>
      simp at h
      have := ih h
      simp only [typs]; split
      · exact List.mem_cons_of_mem _ this
      · exact this

theorem findField_ok : ∀ (fs : List Schema) (pos i : Nat) (s : Schema) (t : Nat),
    nodupB (typs fs) = true → fs[i]? = some s → s.typ = some t → pos ≤ i →
    findField fs pos t = some i
  | [], _, i, _, _, _, h, _, _ => by simp at h
  | a :: r, pos, i, s, t, hn, h, ht, hp => by
    cases i with
    | zero =>
      simp at h; subst h
      have : pos = 0 := by omega
      subst this
      simp [findField, ht]
    | succ i =>
      simp at h
      have hn' : nodupB (typs r) = true := by
        simp only [typs] at hn; split at hn
        · exact (nodupB_cons hn).2
        · exact hn
      have hne : a.typ ≠ some t := by
        intro e
        simp only [typs, e] at hn
        exact (nodupB_cons hn).1 (mem_typs h ht)
      unfold findField
      by_cases hp0 : pos = 0
      · subst hp0
        simp only [if_true, hne, if_false]
        rw [findField_ok r 0 i s t hn' h ht (Nat.zero_le _)]; rfl
      · simp only [hp0, if_false]
        rw [findField_ok r (pos - 1) i s t hn' h ht (by omega)]; rfl

theorem skipMarkers_id : ∀ (fs : List Schema) (acc : List Value) (lo hi off : Nat),
    wfFs fs = true → skipMarkers fs acc lo hi off = acc
  | [], acc, _, _, _, _ => by cases acc <;> simp [skipMarkers]
  | s :: ss, [], _, _, _, _ => by simp [skipMarkers]
  | s :: ss, v :: vs, lo, hi, off, h => by
    simp only [wfFs, Bool.and_eq_true] at h
    simp only [skipMarkers]
    rw [skipMarkers_id ss vs _ _ _ h.2]
    congr 1
    split
    · cases s <;> simp_all [wfS]
    · rfl

/-! ### name decoding -/

theorem compOk_spec {c : Bytes} (h : compOk c = true) :
    ∃ t st len sl, parseTlNum c 0 = .ok (t, st) ∧ parseTlNum c st = .ok (len, sl) ∧
      c.length = st + sl + len := by
  unfold compOk at h
  split at h
  · rename_i t st h1
    split at h
    · rename_i len sl h2
      exact ⟨t, st, len, sl, h1, h2, by simpa using h⟩
    · cases h
  · cases h

theorem parseTlNum_append {buf : Bytes} {off v n : Nat} (R : Bytes)
    (h : parseTlNum buf off = .ok (v, n)) : parseTlNum (buf ++ R) off = .ok (v, n) := by
  have hun : ∀ a k x, unpackAt buf a k = .ok x → unpackAt (buf ++ R) a k = .ok x := by
    intro a k x hx
    unfold unpackAt at hx ⊢
    simp only [] at hx ⊢
    split at hx
    · rename_i hl
      have hle : a + k ≤ buf.length ∨ k = 0 := by
        simp [pySlice] at hl; omega
      have : pySlice (buf ++ R) a (a + k) = pySlice buf a (a + k) := by
        rcases hle with hle | hk
        · simp [pySlice, List.take_append_of_le_length hle]
        · subst hk; simp [pySlice]
      rw [this]; simp [hl]; simpa using hx
    · cases hx
  unfold parseTlNum at h ⊢
  cases hb : buf[off]? with
  | none => simp [hb] at h
  | some b =>
    have : (buf ++ R)[off]? = some b := by
      rw [List.getElem?_append_left]; exact hb
      exact (List.getElem?_eq_some_iff.mp hb).1
    simp only [hb, this] at h ⊢
    by_cases c1 : b.toNat ≤ 0xFC
    · simp only [c1, if_true] at h ⊢; exact h
    · simp only [c1, if_false] at h ⊢
      by_cases c2 : b.toNat = 0xFD
      · simp only [c2, if_true] at h ⊢
        obtain ⟨x, hx, h2⟩ := bind_ok h
        rw [hun _ _ _ hx]; exact h2
      · simp only [c2, if_false] at h ⊢
        by_cases c3 : b.toNat = 0xFE
        · simp only [c3, if_true] at h ⊢
          obtain ⟨x, hx, h2⟩ := bind_ok h
          rw [hun _ _ _ hx]; exact h2
        · simp only [c3, if_false] at h ⊢
          obtain ⟨x, hx, h2⟩ := bind_ok h
          rw [hun _ _ _ hx]; exact h2

end Ndn.Codec

namespace Ndn.Codec
open Ndn

theorem concatB_cons (c : Bytes) (r : List Bytes) : concatB (c :: r) = c ++ concatB r := rfl

theorem decodeComps_ok : ∀ (cs : List Bytes) (pre R : Bytes) (fuel : Nat),
    cs.all compOk = true → (concatB cs).length < fuel →
    decodeComps fuel (pre ++ concatB cs ++ R) pre.length (concatB cs).length = .ok cs
  | [], pre, R, fuel, _, hf => by
    cases fuel with
    | zero => simp at hf
    | succ f => simp [decodeComps, concatB]
  | c :: r, pre, R, fuel, hall, hf => by
    simp only [List.all_cons, Bool.and_eq_true] at hall
    obtain ⟨t, st, len, sl, h1, h2, hlen⟩ := compOk_spec hall.1
    cases fuel with
    | zero => simp at hf
    | succ f =>
      have hst : 0 < st := by
        unfold parseTlNum at h1
        cases hb : c[0]? with
        | none => simp [hb] at h1
        | some b =>
          simp only [hb] at h1
          repeat' split at h1
          all_goals first
            | (cases h1; omega)
            | (obtain ⟨x, _, h3⟩ := bind_ok h1; cases h3; omega)
      have hcl : (concatB (c :: r)).length = st + sl + len + (concatB r).length := by
        rw [concatB_cons, List.length_append, hlen]
      have hne : (concatB (c :: r)).length ≠ 0 := by omega
      have p1 : parseTlNum (pre ++ concatB (c :: r) ++ R) pre.length = .ok (t, st) := by
        have := parseTlNum_shift pre (concatB (c :: r) ++ R) 0
        rw [Nat.add_zero, ← List.append_assoc] at this
        rw [this, concatB_cons, List.append_assoc]
        exact parseTlNum_append _ h1
      have p2 : parseTlNum (pre ++ concatB (c :: r) ++ R) (pre.length + st) = .ok (len, sl) := by
        have := parseTlNum_shift pre (concatB (c :: r) ++ R) st
        rw [← List.append_assoc] at this
        rw [this, concatB_cons, List.append_assoc]
        exact parseTlNum_append _ h2
      simp only [decodeComps, hne, if_false, p1, p2, bind, Except.bind]
      have hle : ¬ (st + sl + len > (concatB (c :: r)).length) := by omega
      simp only [hle, if_false]
      have hsl : pySlice (pre ++ concatB (c :: r) ++ R) pre.length (pre.length + (st + sl + len)) = c := by
        have := pySlice_shift pre (concatB (c :: r) ++ R) 0 (st + sl + len)
        rw [Nat.add_zero, ← List.append_assoc] at this
        rw [this, concatB_cons, List.append_assoc, ← hlen]
        simp [pySlice]
      have hrec := decodeComps_ok r (pre ++ c) R f hall.2 (by omega)
      have e1 : pre ++ concatB (c :: r) ++ R = pre ++ c ++ concatB r ++ R := by
        simp [concatB_cons, List.append_assoc]
      have e2 : pre.length + (st + sl + len) = (pre ++ c).length := by simp; omega
      have e3 : (concatB (c :: r)).length - (st + sl + len) = (concatB r).length := by omega
      rw [hsl, e3, e2, e1, hrec]
      rfl

theorem decodeName_ok (cs : List Bytes) (R : Bytes) (hall : cs.all compOk = true)
    (hl : (concatB cs).length < 2 ^ 64) : decodeName (tlv 7 (concatB cs) ++ R) 0 = .ok cs := by
  obtain ⟨p1, p2, _, _, _⟩ := head_elem 7 (concatB cs) R (by decide) hl
  have h7 : tlNumSize 7 = 1 := by decide
  unfold decodeName
  simp only [p1, bind, Except.bind, h7, Nat.zero_add]
  rw [h7] at p2
  simp only [p2, ne_eq, not_true_eq_false, if_false]
  have hlen : (tlv 7 (concatB cs) ++ R).length =
      1 + tlNumSize (concatB cs).length + (concatB cs).length + R.length := by
    rw [List.length_append, tlv_length, h7]
  have : ¬ ((concatB cs).length > (tlv 7 (concatB cs) ++ R).length - (1 + tlNumSize (concatB cs).length)) := by
    rw [hlen]; omega
  simp only [this, if_false]
  have := decodeComps_ok cs (writeTlNum 7 ++ writeTlNum (concatB cs).length) R ((concatB cs).length + 1)
    hall (by omega)
  simp only [List.length_append, writeTlNum_length, h7] at this
  simpa [tlv, List.append_assoc] using this

end Ndn.Codec
