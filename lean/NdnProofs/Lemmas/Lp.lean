import NdnModel.Lp
import NdnProofs.Lemmas.TlNum
import NdnProofs.Lemmas.Shrink
import NdnProofs.Lemmas.Framing
/-! Helper lemmas for the envelope decoder (C10): the byte-level loop of `TlvModel.parse` on a
    concatenation of well-formed elements equals an element-level fold (`collect`). -/
namespace Ndn.Lp
open Ndn Ndn.Recv

/-- concatenation of elements (type, value) -/
def wireOf (els : List (Nat × Bytes)) : Bytes := (els.map fun e => tlv e.1 e.2).flatten

@[simp] theorem wireOf_nil : wireOf [] = [] := rfl
@[simp] theorem wireOf_cons (e : Nat × Bytes) (r : List (Nat × Bytes)) :
    wireOf (e :: r) = tlv e.1 e.2 ++ wireOf r := by simp [wireOf]
theorem wireOf_append (a b : List (Nat × Bytes)) : wireOf (a ++ b) = wireOf a ++ wireOf b := by
  simp [wireOf]

/-- element-level mirror of `parseLoop` -/
def collect {κ ν} (tbl : List (Nat × κ)) (pv : κ → Bytes → Nat → Except PyErr ν) (ic : Bool) :
    List (Nat × Bytes) → Nat → List (Nat × ν) → Except PyErr (List (Nat × ν))
  | [], _, acc => .ok acc
  | (t, v) :: r, pos, acc =>
    match findFrom tbl pos t with
    | some (i, k) =>
      match pv k v v.length with
      | .error e => .error e
      | .ok x => collect tbl pv ic r (i + 1) (acc ++ [(t, x)])
    | none =>
      if t % 2 = 1 && !ic then .error .decodeError else collect tbl pv ic r pos acc

theorem readTL_tlv (t : Nat) (v more : Bytes) (ht : t < 2^64) (hv : v.length < 2^64) :
    readTL (tlv t v ++ more) = .ok (t, v.length, v ++ more) := by
  unfold readTL tlv
  have p1 : parseTlNum (writeTlNum t ++ writeTlNum v.length ++ v ++ more) 0 = .ok (t, tlNumSize t) := by
    simp only [List.append_assoc]; exact parse_write t _ ht
  have p2 : parseTlNum (writeTlNum t ++ writeTlNum v.length ++ v ++ more) (tlNumSize t)
      = .ok (v.length, tlNumSize v.length) := by
    have := parseTlNum_shift (writeTlNum t) (writeTlNum v.length ++ (v ++ more)) 0
    rw [writeTlNum_length, Nat.add_zero] at this
    simp only [List.append_assoc]
    rw [this]; exact parse_write _ _ hv
  simp only [p1, p2, bind, Except.bind, pure, Except.pure]
  have : tlNumSize t + tlNumSize v.length = (writeTlNum t ++ writeTlNum v.length).length := by
    simp [writeTlNum_length]
  rw [this]
  simp only [List.append_assoc]
  rw [← List.append_assoc, List.drop_left]

theorem tlv_ne_nil (t : Nat) (v : Bytes) : tlv t v ≠ [] := by
  have := Ndn.Framing.tlv_length_ge t v
  intro h; rw [h] at this; simp at this

/-- the byte-level loop on a concatenation of well-formed elements is the element-level fold -/
theorem parseLoop_elems {κ ν} (tbl : List (Nat × κ)) (pv : κ → Bytes → Nat → Except PyErr ν) (ic chk : Bool)
    (hpv : ∀ k v more, pv k (v ++ more) v.length = pv k v v.length)
    (els : List (Nat × Bytes)) (hv : ∀ e ∈ els, e.1 < 2^64 ∧ e.2.length < 2^64) :
    ∀ fuel pos acc, (wireOf els).length ≤ fuel →
      parseLoop tbl pv ic chk fuel (wireOf els) pos acc = collect tbl pv ic els pos acc := by
  induction els with
  | nil =>
    intro fuel pos acc _
    cases fuel <;> simp [parseLoop, collect]
  | cons e r ih =>
    intro fuel pos acc hf
    obtain ⟨t, v⟩ := e
    have he := hv (t, v) (by simp)
    have hl := Ndn.Framing.tlv_length_ge t v
    rw [wireOf_cons] at hf ⊢
    simp only [List.length_append] at hf
    cases fuel with
    | zero => omega
    | succ f =>
      have hne : (tlv t v ++ wireOf r).isEmpty = false := by
        cases h : tlv t v ++ wireOf r with
        | nil => simp at h; exact absurd h.1 (tlv_ne_nil t v)
        | cons a b => rfl
      simp only [parseLoop, hne, Bool.false_eq_true, if_false, readTL_tlv t v _ he.1 he.2, collect]
      have hc : (chk && decide ((v ++ wireOf r).length < v.length)) = false := by simp
      simp only [hc, Bool.false_eq_true, if_false]
      have hd : (v ++ wireOf r).drop v.length = wireOf r := List.drop_left
      have ih' := fun pos acc => ih (fun e he => hv e (List.mem_cons_of_mem _ he)) f pos acc (by omega)
      cases findFrom tbl pos t with
      | none =>
        simp only [hd]
        split
        · rfl
        · exact ih' _ _
      | some p =>
        obtain ⟨i, k⟩ := p
        simp only [hpv, hd]
        cases pv k v v.length with
        | error e => rfl
        | ok x => exact ih' _ _

theorem parseFVal_append (k : FKind) (v more : Bytes) :
    parseFVal k (v ++ more) v.length = parseFVal k v v.length := by
  cases k with
  | bytes => simp [parseFVal]
  | bool => simp [parseFVal]
  | uint =>
    have : ¬ (v.length + more.length < v.length) := by omega
    simp [parseFVal, this]

theorem parseVal_append (chk : Bool) (k : Kind) (v more : Bytes) :
    parseVal chk k (v ++ more) v.length = parseVal chk k v v.length := by
  cases k with
  | flat fk => simp [parseVal, parseFVal_append]
  | model sub ic => simp [parseVal]

theorem parseAndCheckTl_tlv (t : Nat) (v : Bytes) (ht : t < 2^64) (hv : v.length < 2^64) :
    parseAndCheckTl (tlv t v) t = .ok v := by
  unfold parseAndCheckTl tlv
  have p1 : parseTlNum (writeTlNum t ++ writeTlNum v.length ++ v) 0 = .ok (t, tlNumSize t) := by
    simp only [List.append_assoc]; exact parse_write t _ ht
  have p2 : parseTlNum (writeTlNum t ++ writeTlNum v.length ++ v) (tlNumSize t)
      = .ok (v.length, tlNumSize v.length) := by
    have := parseTlNum_shift (writeTlNum t) (writeTlNum v.length ++ v) 0
    rw [writeTlNum_length, Nat.add_zero] at this
    simp only [List.append_assoc]
    rw [this]; exact parse_write _ _ hv
  simp only [p1, p2, bind, Except.bind, pure, Except.pure]
  have hlen : (writeTlNum t ++ writeTlNum v.length ++ v).length = tlNumSize t + tlNumSize v.length + v.length := by
    simp [writeTlNum_length]; omega
  simp only [hlen, ne_eq, not_true_eq_false, if_false]
  have e1 : tlNumSize t + tlNumSize v.length = (writeTlNum t ++ writeTlNum v.length).length := by
    simp [writeTlNum_length]
  have e2 : (writeTlNum t ++ writeTlNum v.length).length + v.length
      = (writeTlNum t ++ writeTlNum v.length ++ v).length := by simp; omega
  rw [e1, pySlice, e2, List.take_length, List.drop_left]

/-- the envelope decoder on a well-formed concatenation of elements -/
theorem parseValue_elems (T : Table) (els : List (Nat × Bytes)) (hv : ∀ e ∈ els, e.1 < 2^64 ∧ e.2.length < 2^64) :
    parseValue T (wireOf els) = collect T.fields (parseVal T.lengthCheck) true els 0 [] := by
  unfold parseValue
  exact parseLoop_elems _ _ _ _ (parseVal_append _) els hv _ _ _ (Nat.le_refl _)

theorem parseFlat_elems (tbl : List (Nat × FKind)) (ic chk : Bool) (els : List (Nat × Bytes))
    (hv : ∀ e ∈ els, e.1 < 2^64 ∧ e.2.length < 2^64) :
    parseFlat tbl ic chk (wireOf els) = collect tbl parseFVal ic els 0 [] := by
  unfold parseFlat
  exact parseLoop_elems _ _ _ _ parseFVal_append els hv _ _ _ (Nat.le_refl _)

/-! ### `findFrom`, `lookup` -/

theorem findFrom_spec {κ} (tbl : List (Nat × κ)) : ∀ (pos typ i : Nat) (k : κ),
    findFrom tbl pos typ = some (i, k) → pos ≤ i ∧ tbl[i]? = some (typ, k) := by
  induction tbl with
  | nil => intro pos typ i k h; simp [findFrom] at h
  | cons a r ih =>
    intro pos typ i k h
    obtain ⟨t, k0⟩ := a
    unfold findFrom at h
    split at h
    · rename_i hp
      split at h
      · rename_i ht
        simp only [Option.some.injEq, Prod.mk.injEq] at h
        obtain ⟨rfl, rfl⟩ := h
        subst hp; subst ht
        simp
      · cases h2 : findFrom r 0 typ with
        | none => simp [h2] at h
        | some p =>
          simp only [h2, Option.map_some, Option.some.injEq, Prod.mk.injEq] at h
          obtain ⟨rfl, rfl⟩ := h
          obtain ⟨_, h4⟩ := ih 0 typ p.1 p.2 h2
          subst hp
          exact ⟨Nat.zero_le _, by simpa using h4⟩
    · rename_i hp
      cases h2 : findFrom r (pos - 1) typ with
      | none => simp [h2] at h
      | some p =>
        simp only [h2, Option.map_some, Option.some.injEq, Prod.mk.injEq] at h
        obtain ⟨rfl, rfl⟩ := h
        obtain ⟨h3, h4⟩ := ih (pos - 1) typ p.1 p.2 h2
        exact ⟨by omega, by simpa using h4⟩

theorem lookup_append_left {ν} (a b : List (Nat × ν)) (t : Nat) (x : ν) (h : lookup a t = some x) :
    lookup (a ++ b) t = some x := by
  induction a with
  | nil => simp [lookup] at h
  | cons e r ih =>
    obtain ⟨t', v⟩ := e
    simp only [List.cons_append, lookup] at h ⊢
    split
    · simpa [*] using h
    · rename_i hne; simp only [hne, if_false] at h; exact ih h

theorem lookup_append_none {ν} (a b : List (Nat × ν)) (t : Nat) (h : lookup a t = none) :
    lookup (a ++ b) t = lookup b t := by
  induction a with
  | nil => rfl
  | cons e r ih =>
    obtain ⟨t', v⟩ := e
    simp only [List.cons_append, lookup] at h ⊢
    split
    · rename_i he; simp [he] at h
    · rename_i hne; simp only [hne, if_false] at h; exact ih h

theorem lookup_none_of_not_mem {ν} (a : List (Nat × ν)) (t : Nat) (h : ∀ e ∈ a, e.1 ≠ t) : lookup a t = none := by
  induction a with
  | nil => rfl
  | cons e r ih =>
    obtain ⟨t', v⟩ := e
    have h1 : t' ≠ t := h (t', v) (by simp)
    simp only [lookup, h1, if_false]
    exact ih (fun e he => h e (List.mem_cons_of_mem _ he))

/-- `collect` only appends to the accumulator -/
theorem collect_extends {κ ν} (tbl : List (Nat × κ)) (pv : κ → Bytes → Nat → Except PyErr ν) (ic : Bool)
    (els : List (Nat × Bytes)) : ∀ pos acc res, collect tbl pv ic els pos acc = .ok res →
      ∃ ext, res = acc ++ ext ∧ ∀ e ∈ ext, ∃ v, (e.1, v) ∈ els := by
  induction els with
  | nil =>
    intro pos acc res h
    simp only [collect, Except.ok.injEq] at h
    exact ⟨[], by simp [h], by simp⟩
  | cons e r ih =>
    intro pos acc res h
    obtain ⟨t, v⟩ := e
    simp only [collect] at h
    split at h
    · split at h
      · simp at h
      · rename_i x _
        obtain ⟨ext, h1, h2⟩ := ih _ _ _ h
        refine ⟨(t, x) :: ext, by simp [h1], ?_⟩
        intro e he
        simp only [List.mem_cons] at he
        rcases he with rfl | he
        · exact ⟨v, by simp⟩
        · obtain ⟨v', hv'⟩ := h2 e he
          exact ⟨v', List.mem_cons_of_mem _ hv'⟩
    · split at h
      · simp at h
      · obtain ⟨ext, h1, h2⟩ := ih _ _ _ h
        refine ⟨ext, h1, ?_⟩
        intro e he
        obtain ⟨v', hv'⟩ := h2 e he
        exact ⟨v', List.mem_cons_of_mem _ hv'⟩

/-! ### the in-order scan: position reached, elements it does not recognise -/

/-- Position (`field_pos`) of the in-order scan of `TlvModel.parse` after elements with these type numbers,
    started at `pos`: a type found at index `i ≥ pos` moves the scan to `i + 1`, any other type leaves it
    where it is. -/
def scanPos {κ} (tbl : List (Nat × κ)) : List Nat → Nat → Nat
  | [], pos => pos
  | t :: r, pos =>
    match findFrom tbl pos t with
    | some (i, _) => scanPos tbl r (i + 1)
    | none => scanPos tbl r pos

theorem scanPos_ge {κ} (tbl : List (Nat × κ)) (ts : List Nat) : ∀ pos, pos ≤ scanPos tbl ts pos := by
  induction ts with
  | nil => intro pos; exact Nat.le_refl _
  | cons t r ih =>
    intro pos
    simp only [scanPos]
    cases hf : findFrom tbl pos t with
    | none => exact ih pos
    | some ik =>
      obtain ⟨i, k⟩ := ik
      have := (findFrom_spec _ _ _ _ _ hf).1
      have := ih (i + 1)
      simp only
      omega

theorem scanPos_append {κ} (tbl : List (Nat × κ)) (a b : List Nat) : ∀ pos,
    scanPos tbl (a ++ b) pos = scanPos tbl b (scanPos tbl a pos) := by
  induction a with
  | nil => intro pos; rfl
  | cons t r ih =>
    intro pos
    simp only [List.cons_append, scanPos]
    cases findFrom tbl pos t with
    | none => exact ih pos
    | some ik => exact ih _

/-- no field at or after index `q` has type `t`: the scan at or beyond `q` does not recognise `t` -/
theorem findFrom_none_of_drop {κ} (tbl : List (Nat × κ)) (q pos t : Nat) (h : ∀ f ∈ tbl.drop q, f.1 ≠ t)
    (hq : q ≤ pos) : findFrom tbl pos t = none := by
  cases hf : findFrom tbl pos t with
  | none => rfl
  | some ik =>
    obtain ⟨hp, hget⟩ := findFrom_spec _ _ _ _ _ hf
    have : (tbl.drop q)[ik.1 - q]? = some (t, ik.2) := by
      rw [List.getElem?_drop]
      have : q + (ik.1 - q) = ik.1 := by omega
      rw [this]; exact hget
    exact absurd rfl (h _ (List.mem_of_getElem? this))

theorem mem_drop_of_getElem? {α} (l : List α) (q i : Nat) (x : α) (h : l[i]? = some x) (hq : q ≤ i) : x ∈ l.drop q := by
  have : (l.drop q)[i - q]? = some x := by
    rw [List.getElem?_drop]
    have : q + (i - q) = i := by omega
    rw [this]; exact h
  exact List.mem_of_getElem? this

/-- An element that the scan does not recognise where it stands (its type is not a field at or after the
    position reached) is invisible to a decoder that ignores unrecognised elements: deleting it changes
    nothing. -/
theorem collect_drop_unrecognised {κ ν} (tbl : List (Nat × κ)) (pv : κ → Bytes → Nat → Except PyErr ν)
    (t : Nat) (v : Bytes) (rest : List (Nat × Bytes)) (pre : List (Nat × Bytes)) : ∀ pos acc,
    findFrom tbl (scanPos tbl (pre.map (·.1)) pos) t = none →
    collect tbl pv true (pre ++ (t, v) :: rest) pos acc = collect tbl pv true (pre ++ rest) pos acc := by
  induction pre with
  | nil =>
    intro pos acc h
    simp only [List.map_nil, scanPos] at h
    simp [collect, h]
  | cons e r ih =>
    intro pos acc h
    obtain ⟨t', v'⟩ := e
    simp only [List.map_cons, scanPos] at h
    simp only [List.cons_append, collect]
    cases hf : findFrom tbl pos t' with
    | none =>
      rw [hf] at h
      simp only [Bool.not_true, Bool.and_false, Bool.false_eq_true, if_false]
      exact ih pos acc h
    | some ik =>
      obtain ⟨i, k⟩ := ik
      rw [hf] at h
      simp only
      cases pv k v' v'.length with
      | error e => rfl
      | ok x => exact ih _ _ h

/-- elements of types the format does not have are skipped wherever the scan stands -/
theorem collect_skip_unknown {κ ν} (tbl : List (Nat × κ)) (pv : κ → Bytes → Nat → Except PyErr ν) (ic : Bool)
    (pre : List (Nat × Bytes)) (hp : ∀ h ∈ pre, (∀ k, (h.1, k) ∉ tbl) ∧ (h.1 % 2 = 0 ∨ ic = true))
    (rest : List (Nat × Bytes)) : ∀ pos acc,
    collect tbl pv ic (pre ++ rest) pos acc = collect tbl pv ic rest pos acc := by
  induction pre with
  | nil => intro pos acc; rfl
  | cons h r ih =>
    intro pos acc
    obtain ⟨t, v⟩ := h
    have h0 := hp (t, v) (by simp)
    have hnone : findFrom tbl pos t = none := by
      cases hf : findFrom tbl pos t with
      | none => rfl
      | some ik =>
        obtain ⟨_, hget⟩ := findFrom_spec _ _ _ _ _ hf
        exact absurd (List.mem_of_getElem? hget) (h0.1 ik.2)
    have hc : (decide (t % 2 = 1) && !ic) = false := by
      rcases h0.2 with h | h
      · have : ¬ (t % 2 = 1) := by omega
        simp [this]
      · simp [h]
    simp only [List.cons_append, collect, hnone, hc, Bool.false_eq_true, if_false]
    exact ih (fun h hm => hp h (List.mem_cons_of_mem _ hm)) pos acc

theorem wireOf_length_append (a b : List (Nat × Bytes)) : (wireOf (a ++ b)).length = (wireOf a).length + (wireOf b).length := by
  rw [wireOf_append, List.length_append]

/-! ### `pack_uint_bytes` -/

theorem packUint_length (r : Nat) :
    (packUint r).length = 1 ∨ (packUint r).length = 2 ∨ (packUint r).length = 4 ∨ (packUint r).length = 8 := by
  unfold packUint; repeat' split
  all_goals simp

theorem beVal_packUint (r : Nat) (h : r < 2^64) : beVal (packUint r) = r := by
  unfold packUint
  split
  · exact beVal_be1 r (by omega)
  · split
    · exact beVal_be2 r (by omega)
    · split
      · exact beVal_be4 r (by omega)
      · exact beVal_be8 r (by omega)

end Ndn.Lp
