import NdnProofs.Lemmas.CodecAccept
/-! # Re-encoding what the decoder accepted succeeds (given sizes that fit 64 bits) -/
namespace Ndn.Codec
open Ndn

mutual
/-- a schema whose Type numbers fit 64 bits and whose integer fields have no `fixed_len` -/
def reS : Schema → Bool
  | .uint t fl => decide (t < 2 ^ 64) && fl.isNone
  | .bool t => decide (t < 2 ^ 64)
  | .bytes t _ => decide (t < 2 ^ 64)
  | .name t => decide (t < 2 ^ 64)
  | .model t fs _ => decide (t < 2 ^ 64) && reFs fs
  | .repeated e => reS e
  | .map k v => reS k && reS v
  | .marker => true
def reFs : List Schema → Bool
  | [] => true
  | s :: r => reS s && reFs r
end

mutual
/-- the number of bytes `encode` writes for a value (the arithmetic of `encoded_length`, without its errors) -/
def esz : Schema → Value → Nat
  | _, .none => 0
  | .uint t fl, .uint v => tlNumSize t + 1 + uintWidth fl v
  | .bool t, .bool => tlNumSize t + 1
  | .bytes t _, .bytes b => tlNumSize t + tlNumSize b.length + b.length
  | .name _, .name cs => 1 + tlNumSize (concatB cs).length + (concatB cs).length
  | .model t fs _, .model vs => tlNumSize t + tlNumSize (eszFs fs vs) + eszFs fs vs
  | .repeated e, .list vs => eszList e vs
  | .map k v, .map es => eszMap k v es
  | _, _ => 0
def eszFs : List Schema → List Value → Nat
  | s :: ss, v :: vs => esz s v + eszFs ss vs
  | _, _ => 0
def eszList : Schema → List Value → Nat
  | _, [] => 0
  | e, v :: vs => esz e v + eszList e vs
def eszMap : Schema → Schema → List (Value × Value) → Nat
  | _, _, [] => 0
  | k, v, (a, b) :: r => esz k a + esz v b + eszMap k v r
end

theorem uintWidth_none_fits (v : Nat) (hv : v < 2 ^ 64) : v < 256 ^ uintWidth none v := by
  unfold uintWidth
  simp only []
  repeat' split
  all_goals (simp only [Nat.reducePow]; omega)

theorem reFs_get : ∀ (fs : List Schema) (i : Nat) (s : Schema), reFs fs = true → fs[i]? = some s → reS s = true
  | [], _, _, _, h => by simp at h
  | a :: r, 0, s, hp, h => by simp at h; subst h; simp [reFs] at hp; exact hp.1
  | a :: r, i + 1, s, hp, h => by
    simp at h; simp [reFs] at hp; exact reFs_get r i s hp.2 h

/-! ### encoder side: sizes below 2^64 are the only obstacle -/
mutual
theorem enc_total (N : Nat) : ∀ (s : Schema) (v : Value), wfS s = true → reS s = true → fits s v = true →
    bounded N v = true → esz s v < 2 ^ 64 → ∃ b, enc s v = .ok b ∧ b.length = esz s v
  | s, .none, _, _, _, _, _ => ⟨[], by cases s <;> simp [enc], by cases s <;> simp [esz]⟩
  | s, .uint v, hw, hr, hfit, hb, hsz => by
    cases s with
    | uint t fl =>
      simp only [reS, Bool.and_eq_true, decide_eq_true_eq, Option.isNone_iff_eq_none] at hr
      obtain ⟨ht, rfl⟩ := hr
      simp only [bounded, decide_eq_true_eq] at hb
      have hwd := uintWidth_none_fits v hb
      have hleg := uintWidth_legal (t := t) none v hw
      have hl := beN_length (uintWidth none v) v hleg
      refine ⟨tlv t (beN (uintWidth none v) v), ?_, ?_⟩
      · have h1 : ¬ (v ≥ 256 ^ uintWidth none v) := by omega
        have h2 : (beN (uintWidth none v) v).length < 2 ^ 64 := by rw [hl]; rcases hleg with e | e | e | e <;> rw [e] <;> decide
        simp only [enc, h1, if_false, tlvE, ht, h2, and_self, if_true]
      · rw [tlv_length, hl]
        simp only [esz]
        rcases hleg with e | e | e | e <;> simp [e, tlNumSize]
    | _ => simp [fits] at hfit
  | s, .bool, hw, hr, hfit, hb, hsz => by
    cases s with
    | bool t =>
      simp only [reS, decide_eq_true_eq] at hr
      exact ⟨tlv t [], by simp [enc, tlvE, hr], by simp [tlv_length, esz, tlNumSize]⟩
    | _ => simp [fits] at hfit
  | s, .bytes x, hw, hr, hfit, hb, hsz => by
    cases s with
    | bytes t isStr =>
      simp only [reS, decide_eq_true_eq] at hr
      simp only [esz] at hsz
      have : x.length < 2 ^ 64 := by omega
      exact ⟨tlv t x, by simp [enc, tlvE, hr, this], by simp [tlv_length, esz]⟩
    | _ => simp [fits] at hfit
  | s, .name cs, hw, hr, hfit, hb, hsz => by
    cases s with
    | name t =>
      simp only [esz] at hsz
      have : (concatB cs).length < 2 ^ 64 := by omega
      have h7 : tlNumSize 7 = 1 := by decide
      exact ⟨tlv 7 (concatB cs), by simp [enc, tlvE, this], by simp [tlv_length, esz, h7]⟩
    | _ => simp [fits] at hfit
  | s, .model vs, hw, hr, hfit, hb, hsz => by
    cases s with
    | model t fs ic =>
      simp only [reS, Bool.and_eq_true, decide_eq_true_eq] at hr
      simp only [wfS, Bool.and_eq_true] at hw
      simp only [fits] at hfit
      simp only [bounded] at hb
      simp only [esz] at hsz
      obtain ⟨body, hbody, hlen⟩ := encFields_total N fs vs hw.1 hr.2 hfit hb (by omega)
      have : body.length < 2 ^ 64 := by omega
      refine ⟨tlv t body, by simp [enc, hbody, bind, Except.bind, tlvE, hr.1, this], ?_⟩
      simp only [tlv_length, esz, hlen]
    | _ => simp [fits] at hfit
  | s, .list vs, hw, hr, hfit, hb, hsz => by
    cases s with
    | repeated e =>
      simp only [reS] at hr
      simp only [wfS, Bool.and_eq_true] at hw
      simp only [fits] at hfit
      simp only [bounded] at hb
      simp only [esz] at hsz
      obtain ⟨b, h1, h2⟩ := encList_total N e vs hw.2 hr hfit hb hsz
      exact ⟨b, by simp [enc, h1], by simp [esz, h2]⟩
    | _ => simp [fits] at hfit
  | s, .map es, hw, hr, hfit, hb, hsz => by
    cases s with
    | map k v =>
      simp only [reS, Bool.and_eq_true] at hr
      simp only [wfS, Bool.and_eq_true] at hw
      simp only [fits, Bool.and_eq_true] at hfit
      simp only [bounded] at hb
      simp only [esz] at hsz
      obtain ⟨b, h1, h2⟩ := encMap_total N k v es hw.1.1.1.2 hw.1.2 hr.1 hr.2 hfit.1 hb hsz
      exact ⟨b, by simp [enc, h1], by simp [esz, h2]⟩
    | _ => simp [fits] at hfit
theorem encFields_total (N : Nat) : ∀ (fs : List Schema) (vs : List Value), wfFs fs = true → reFs fs = true →
    fitsFs fs vs = true → boundedL N vs = true → eszFs fs vs < 2 ^ 64 →
    ∃ b, encFields fs vs = .ok b ∧ b.length = eszFs fs vs
  | [], vs, _, _, _, _, _ => ⟨[], by simp [encFields], by cases vs <;> simp [eszFs]⟩
  | _ :: _, [], _, _, hfit, _, _ => by simp [fitsFs] at hfit
  | s :: ss, v :: vs, hw, hr, hfit, hb, hsz => by
    simp only [wfFs, Bool.and_eq_true] at hw
    simp only [reFs, Bool.and_eq_true] at hr
    simp only [fitsFs, Bool.and_eq_true] at hfit
    simp only [boundedL, Bool.and_eq_true] at hb
    simp only [eszFs] at hsz
    obtain ⟨a, ha, hla⟩ := enc_total N s v hw.1 hr.1 hfit.1 hb.1 (by omega)
    obtain ⟨c, hc, hlc⟩ := encFields_total N ss vs hw.2 hr.2 hfit.2 hb.2 (by omega)
    exact ⟨a ++ c, by simp [encFields, ha, hc, bind, Except.bind, pure, Except.pure],
      by simp [eszFs, hla, hlc]⟩
theorem encList_total (N : Nat) : ∀ (e : Schema) (vs : List Value), wfS e = true → reS e = true →
    fitsList e vs = true → boundedL N vs = true → eszList e vs < 2 ^ 64 →
    ∃ b, encList e vs = .ok b ∧ b.length = eszList e vs
  | _, [], _, _, _, _, _ => ⟨[], by simp [encList], by simp [eszList]⟩
  | e, v :: vs, hw, hr, hfit, hb, hsz => by
    simp only [fitsList, Bool.and_eq_true] at hfit
    simp only [boundedL, Bool.and_eq_true] at hb
    simp only [eszList] at hsz
    obtain ⟨a, ha, hla⟩ := enc_total N e v hw hr hfit.1.2 hb.1 (by omega)
    obtain ⟨c, hc, hlc⟩ := encList_total N e vs hw hr hfit.2 hb.2 (by omega)
    exact ⟨a ++ c, by simp [encList, ha, hc, bind, Except.bind, pure, Except.pure],
      by simp [eszList, hla, hlc]⟩
theorem encMap_total (N : Nat) : ∀ (k v : Schema) (es : List (Value × Value)), wfS k = true → wfS v = true →
    reS k = true → reS v = true → fitsMap k v es = true → boundedM N es = true → eszMap k v es < 2 ^ 64 →
    ∃ b, encMap k v es = .ok b ∧ b.length = eszMap k v es
  | _, _, [], _, _, _, _, _, _, _ => ⟨[], by simp [encMap], by simp [eszMap]⟩
  | k, v, (x, y) :: r, hwk, hwv, hrk, hrv, hfit, hb, hsz => by
    simp only [fitsMap, Bool.and_eq_true] at hfit
    simp only [boundedM, Bool.and_eq_true] at hb
    simp only [eszMap] at hsz
    obtain ⟨a, ha, hla⟩ := enc_total N k x hwk hrk hfit.1.1.2 hb.1.1 (by omega)
    obtain ⟨c, hc, hlc⟩ := enc_total N v y hwv hrv hfit.1.2 hb.1.2 (by omega)
    obtain ⟨d, hd, hld⟩ := encMap_total N k v r hwk hwv hrk hrv hfit.2 hb.2 (by omega)
    exact ⟨a ++ c ++ d, by simp [encMap, ha, hc, hd, bind, Except.bind, pure, Except.pure],
      by simp [eszMap, hla, hlc, hld, Nat.add_assoc]⟩
end


/-! ### decoder side: the re-encoded size of what was accepted is bounded by what was consumed -/

/-- no encoding the decoder reads as the number `v` is shorter than the one `write_tl_num` writes -/
theorem parseTlNum_size_ge {bs : Bytes} {off v n : Nat} (h : parseTlNum bs off = .ok (v, n)) :
    tlNumSize v ≤ n := by
  have hun : ∀ a k x, unpackAt bs a k = .ok x → x < 256 ^ k := by
    intro a k x hx
    unfold unpackAt at hx; simp only [] at hx; split at hx
    · rename_i hl; cases hx
      have := beVal_lt (pySlice bs a (a + k))
      rw [hl] at this; exact this
    · cases hx
  unfold parseTlNum at h
  cases hb : bs[off]? with
  | none => simp [hb] at h
  | some b =>
    simp only [hb] at h
    by_cases c1 : b.toNat ≤ 0xFC
    · simp only [c1, if_true] at h; cases h; simp [tlNumSize, c1]
    · simp only [c1, if_false] at h
      by_cases c2 : b.toNat = 0xFD
      · simp only [c2, if_true] at h
        obtain ⟨x, hx, h2⟩ := bind_ok h
        simp only [pure, Except.pure, Except.ok.injEq, Prod.mk.injEq] at h2
        obtain ⟨rfl, rfl⟩ := h2
        have := hun _ _ _ hx
        simp only [Nat.reducePow] at this
        unfold tlNumSize; repeat' split
        all_goals omega
      · simp only [c2, if_false] at h
        by_cases c3 : b.toNat = 0xFE
        · simp only [c3, if_true] at h
          obtain ⟨x, hx, h2⟩ := bind_ok h
          simp only [pure, Except.pure, Except.ok.injEq, Prod.mk.injEq] at h2
          obtain ⟨rfl, rfl⟩ := h2
          have := hun _ _ _ hx
          simp only [Nat.reducePow] at this
          unfold tlNumSize; repeat' split
          all_goals omega
        · simp only [c3, if_false] at h
          obtain ⟨x, _, h2⟩ := bind_ok h
          simp only [pure, Except.pure, Except.ok.injEq, Prod.mk.injEq] at h2
          obtain ⟨rfl, rfl⟩ := h2
          unfold tlNumSize; repeat' split
          all_goals omega

/-- one element read from the head of `rest`: a shortest-form re-encoding of its (possibly truncated) Value plus
    what is left behind it fit into `rest` -/
theorem elem_budget {rest : Bytes} {typ st len sl : Nat} (h1 : parseTlNum rest 0 = .ok (typ, st))
    (h2 : parseTlNum rest st = .ok (len, sl)) :
    tlNumSize typ + tlNumSize (pySlice rest (st + sl) (st + sl + len)).length +
      (pySlice rest (st + sl) (st + sl + len)).length + (rest.drop (st + sl + len)).length ≤ rest.length := by
  have a1 := parseTlNum_size_ge h1
  have a2 := parseTlNum_size_ge h2
  have a3 := parseTlNum_le h2
  have hbl : (pySlice rest (st + sl) (st + sl + len)).length ≤ len := by simp [pySlice]; omega
  have a4 := tlNumSize_mono hbl
  have hb2 : (pySlice rest (st + sl) (st + sl + len)).length + (rest.drop (st + sl + len)).length + (st + sl)
      ≤ rest.length := by simp [pySlice]; omega
  omega

theorem eszFs_set : ∀ (fs : List Schema) (acc : List Value) (i : Nat) (s : Schema) (a x : Value),
    fs[i]? = some s → acc[i]? = some a → eszFs fs (acc.set i x) + esz s a = eszFs fs acc + esz s x
  | [], _, _, _, _, _, h, _ => by simp at h
  | _ :: _, [], _, _, _, _, _, h => by simp at h
  | s0 :: ss, v :: vs, 0, s, a, x, h, ha => by
    simp at h ha; subst h; subst ha
    simp only [List.set_cons_zero, eszFs]; omega
  | s0 :: ss, v :: vs, i + 1, s, a, x, h, ha => by
    simp at h ha
    have := eszFs_set ss vs i s a x h ha
    simp only [List.set_cons_succ, eszFs]; omega

theorem eszList_append_one (e : Schema) : ∀ (l : List Value) (v : Value),
    eszList e (l ++ [v]) = eszList e l + esz e v
  | [], v => by simp [eszList]
  | a :: r, v => by simp only [List.cons_append, eszList, eszList_append_one e r v]; omega

theorem eszMap_mapSet_le (ks vs : Schema) (k v : Value) : ∀ (l : List (Value × Value)),
    eszMap ks vs (mapSet l k v) ≤ eszMap ks vs l + esz ks k + esz vs v
  | [] => by simp [mapSet, eszMap]
  | (k', v') :: r => by
    simp only [mapSet]; split
    · simp only [eszMap]; omega
    · have := eszMap_mapSet_le ks vs k v r
      simp only [eszMap]; omega

theorem eszFs_init : ∀ (fs : List Schema), eszFs fs (fs.map initVal) = 0
  | [] => rfl
  | s :: r => by
    simp only [List.map_cons, eszFs, eszFs_init r]
    cases s <;> simp [initVal, esz, eszList, eszMap]

/-- the element a value was read from: header at the start of `elem`, `body` its (truncated) Value -/
def HeadOf (elem body : Bytes) (typ len : Nat) : Prop :=
  ∃ st sl, parseTlNum elem 0 = .ok (typ, st) ∧ parseTlNum elem st = .ok (len, sl) ∧
    body = pySlice elem (st + sl) (st + sl + len)

theorem size_step : ∀ (fuel : Nat),
    (∀ (fs : List Schema) (ic : Bool) (rest : Bytes) (off pos : Nat) (acc vs : List Value),
      wfFs fs = true → reFs fs = true → fitsFs fs acc = true →
      parseFields fuel fs ic rest off pos acc = .ok vs → eszFs fs vs ≤ eszFs fs acc + rest.length) ∧
    (∀ (s : Schema) (typ len : Nat) (body elem : Bytes) (v : Value),
      isElemKind s = true → wfS s = true → reS s = true → s.typ = some typ → leafCheck s len body = .ok () →
      HeadOf elem body typ len → parseValue fuel s body elem = .ok v →
      esz s v ≤ tlNumSize typ + tlNumSize body.length + body.length)
  | 0 => ⟨fun _ _ _ _ _ _ _ _ _ _ h => by simp [parseFields] at h,
          fun _ _ _ _ _ _ _ _ _ _ _ _ h => by simp [parseValue] at h⟩
  | f + 1 => by
    obtain ⟨ihF, ihV⟩ := size_step f
    refine ⟨?_, ?_⟩
    · intro fs ic rest off pos acc vs hw hr hfit h
      unfold parseFields at h
      split at h
      · cases h; omega
      · obtain ⟨⟨typ, st⟩, h1, h⟩ := bind_ok h
        obtain ⟨⟨len, sl⟩, h2, h⟩ := bind_ok h
        simp only [] at h
        have hbud := elem_budget h1 h2
        have hhead : HeadOf rest (pySlice rest (st + sl) (st + sl + len)) typ len := ⟨st, sl, h1, h2, rfl⟩
        split at h
        · split at h
          · cases h
          · have := ihF _ _ _ _ _ _ _ hw hr hfit h
            omega
        · rename_i i hfind
          obtain ⟨s, hs, htyp⟩ := findField_get fs pos typ i hfind
          have hws := wfFs_get fs i s hw hs
          have hrs := reFs_get fs i s hr hs
          rw [skipMarkers_id fs acc pos i off hw] at h
          simp only [hs] at h
          obtain ⟨a, ha, hfa⟩ := fitsFs_get fs acc i _ hfit hs
          cases s with
          | marker => simp [wfS] at hws
          | repeated e =>
            simp only [wfS, Bool.and_eq_true] at hws
            simp only [reS] at hrs
            obtain ⟨v, hl, hv, hk⟩ := elem_bind h
            have hsz := ihV e typ _ _ _ v hws.1 hws.2 hrs (by simpa [Schema.typ] using htyp) hl hhead hv
            obtain ⟨f1, f2, _⟩ := (accept_step f).2 e _ _ _ v rest.length hws.1 hws.2 hl
              (by have := pySlice_len_le rest (st + sl) (st + sl + len); omega) (Nat.le_refl _) hv
            cases a with
            | list l =>
              simp only [fits] at hfa
              simp only [ha, listOf] at hk
              have hfit' := fitsFs_set fs acc i _ (.list (l ++ [v])) hfit hs
                (by simp only [fits]; exact fitsList_append_one e l v hfa f2 f1)
              have hih := ihF _ _ _ _ _ _ _ hw hr hfit' hk
              have hset := eszFs_set fs acc i _ _ (.list (l ++ [v])) hs ha
              simp only [esz, eszList_append_one] at hset
              omega
            | _ => simp [fits] at hfa
          | map ks vs' =>
            simp only [wfS, Bool.and_eq_true] at hws
            obtain ⟨⟨⟨⟨hkk, hwk⟩, hek⟩, hwv⟩, _⟩ := hws
            simp only [reS, Bool.and_eq_true] at hrs
            have hkek : isElemKind ks = true := by cases ks <;> simp_all [isKeyKind, isElemKind]
            obtain ⟨u, hl, h⟩ := bind_ok h
            obtain ⟨k, hkv, h⟩ := bind_ok h
            obtain ⟨⟨len2, body2, elem2, rest3, off3⟩, hfm, h⟩ := bind_ok h
            simp only [] at h
            obtain ⟨u2, hl2, h⟩ := bind_ok h
            obtain ⟨v, hv, h⟩ := bind_ok h
            obtain ⟨typ2, st2, sl2, g1, g2, g3, gb, gr, ge⟩ := findMapValue_acc _ _ _ _ _ _ _ _ _ _ hfm
            have hbud2 := elem_budget g1 g2
            rw [← gb, ← gr] at hbud2
            have hszk := ihV ks typ _ _ _ k hkek hwk hrs.1 (by simpa [Schema.typ] using htyp) hl hhead hkv
            have hszv := ihV vs' typ2 _ _ _ v hek hwv hrs.2 g3.symm hl2 ⟨st2, sl2, g1, g2, gb⟩ hv
            obtain ⟨k1, k2, _⟩ := (accept_step f).2 ks _ _ _ k rest.length hkek hwk hl
              (by have := pySlice_len_le rest (st + sl) (st + sl + len); omega) (Nat.le_refl _) hkv
            obtain ⟨v1, v2, _⟩ := (accept_step f).2 vs' _ _ _ v elem2.length hek hwv hl2
              (by have := pySlice_len_le elem2 (st2 + sl2) (st2 + sl2 + len2); rw [gb]; omega) (Nat.le_refl _) hv
            cases a with
            | map l =>
              simp only [fits, Bool.and_eq_true] at hfa
              simp only [ha, mapOf] at h
              have hfit' := fitsFs_set fs acc i _ (.map (mapSet l k v)) hfit hs (by
                simp only [fits, Bool.and_eq_true]
                exact ⟨fitsMap_mapSet ks vs' k v (notNone_of_ne k2) (notNone_of_ne v2) k1 v1 l hfa.1,
                  keysDistinct_mapSet k v l hfa.2⟩)
              have hih := ihF _ _ _ _ _ _ _ hw hr hfit' h
              have hset := eszFs_set fs acc i _ _ (.map (mapSet l k v)) hs ha
              have hms := eszMap_mapSet_le ks vs' k v l
              simp only [esz] at hset
              omega
            | _ => simp [fits] at hfa
          | uint t fl =>
            obtain ⟨v, hl, hv, hk⟩ := elem_bind h
            have hsz := ihV _ typ _ _ _ v rfl hws hrs htyp hl hhead hv
            obtain ⟨f1, _, _⟩ := (accept_step f).2 _ _ _ _ v rest.length rfl hws hl
              (by have := pySlice_len_le rest (st + sl) (st + sl + len); omega) (Nat.le_refl _) hv
            have hih := ihF _ _ _ _ _ _ _ hw hr (fitsFs_set fs acc i _ v hfit hs f1) hk
            have hset := eszFs_set fs acc i _ _ v hs ha
            omega
          | bool t =>
            obtain ⟨v, hl, hv, hk⟩ := elem_bind h
            have hsz := ihV _ typ _ _ _ v rfl hws hrs htyp hl hhead hv
            obtain ⟨f1, _, _⟩ := (accept_step f).2 _ _ _ _ v rest.length rfl hws hl
              (by have := pySlice_len_le rest (st + sl) (st + sl + len); omega) (Nat.le_refl _) hv
            have hih := ihF _ _ _ _ _ _ _ hw hr (fitsFs_set fs acc i _ v hfit hs f1) hk
            have hset := eszFs_set fs acc i _ _ v hs ha
            omega
          | bytes t b =>
            obtain ⟨v, hl, hv, hk⟩ := elem_bind h
            have hsz := ihV _ typ _ _ _ v rfl hws hrs htyp hl hhead hv
            obtain ⟨f1, _, _⟩ := (accept_step f).2 _ _ _ _ v rest.length rfl hws hl
              (by have := pySlice_len_le rest (st + sl) (st + sl + len); omega) (Nat.le_refl _) hv
            have hih := ihF _ _ _ _ _ _ _ hw hr (fitsFs_set fs acc i _ v hfit hs f1) hk
            have hset := eszFs_set fs acc i _ _ v hs ha
            omega
          | name t =>
            obtain ⟨v, hl, hv, hk⟩ := elem_bind h
            have hsz := ihV _ typ _ _ _ v rfl hws hrs htyp hl hhead hv
            obtain ⟨f1, _, _⟩ := (accept_step f).2 _ _ _ _ v rest.length rfl hws hl
              (by have := pySlice_len_le rest (st + sl) (st + sl + len); omega) (Nat.le_refl _) hv
            have hih := ihF _ _ _ _ _ _ _ hw hr (fitsFs_set fs acc i _ v hfit hs f1) hk
            have hset := eszFs_set fs acc i _ _ v hs ha
            omega
          | model t fs' ic' =>
            obtain ⟨v, hl, hv, hk⟩ := elem_bind h
            have hsz := ihV _ typ _ _ _ v rfl hws hrs htyp hl hhead hv
            obtain ⟨f1, _, _⟩ := (accept_step f).2 _ _ _ _ v rest.length rfl hws hl
              (by have := pySlice_len_le rest (st + sl) (st + sl + len); omega) (Nat.le_refl _) hv
            have hih := ihF _ _ _ _ _ _ _ hw hr (fitsFs_set fs acc i _ v hfit hs f1) hk
            have hset := eszFs_set fs acc i _ _ v hs ha
            omega
    · intro s typ len body elem v hk hws hrs htyp hl hhead h
      unfold parseValue at h
      cases s with
      | uint t fl =>
        simp only [Except.ok.injEq] at h; subst h
        simp only [reS, Bool.and_eq_true, decide_eq_true_eq, Option.isNone_iff_eq_none] at hrs
        obtain ⟨_, rfl⟩ := hrs
        simp only [Schema.typ, Option.some.injEq] at htyp; subst htyp
        have hb := beVal_lt body
        have hleg := leafCheck_uint hl
        simp only [esz]
        have : uintWidth none (beVal body) ≤ body.length := by
          unfold uintWidth; simp only []
          rcases hleg with e | e | e | e <;> rw [e] at hb ⊢ <;> simp only [Nat.reducePow] at hb <;>
            (repeat' split) <;> omega
        have : tlNumSize body.length = 1 := by
          rcases hleg with e | e | e | e <;> rw [e] <;> decide
        omega
      | bool t =>
        simp only [Except.ok.injEq] at h; subst h
        simp only [Schema.typ, Option.some.injEq] at htyp; subst htyp
        have := tlNumSize_pos body.length
        simp only [esz]; omega
      | bytes t isStr =>
        simp only [Schema.typ, Option.some.injEq] at htyp; subst htyp
        simp only [] at h
        split at h
        · split at h
          · simp only [Except.ok.injEq] at h; subst h; simp only [esz]; omega
          · cases h
        · simp only [Except.ok.injEq] at h; subst h; simp only [esz]; omega
      | name t =>
        obtain ⟨cs, hcs, h⟩ := bind_ok h
        simp only [pure, Except.pure, Except.ok.injEq] at h; subst h
        have h7 : t = 7 := by simpa [wfS] using hws
        subst h7
        simp only [Schema.typ, Option.some.injEq] at htyp; subst htyp
        obtain ⟨typ', st', len', sl', e1, e2, hlen', hle, _⟩ := decodeName_acc hcs
        obtain ⟨st, sl, g1, g2, gb⟩ := hhead
        rw [e1] at g1
        simp only [Except.ok.injEq, Prod.mk.injEq] at g1
        obtain ⟨_, rfl⟩ := g1
        rw [e2] at g2
        simp only [Except.ok.injEq, Prod.mk.injEq] at g2
        obtain ⟨rfl, rfl⟩ := g2
        have hbl : body.length = len' := by rw [gb]; simp [pySlice]; omega
        have h7 : tlNumSize 7 = 1 := by decide
        simp only [esz, hlen', hbl, h7]; omega
      | model t fs' ic' =>
        obtain ⟨vs, hvs, h⟩ := bind_ok h
        simp only [pure, Except.pure, Except.ok.injEq] at h; subst h
        simp only [Schema.typ, Option.some.injEq] at htyp; subst htyp
        simp only [wfS, Bool.and_eq_true] at hws
        simp only [reS, Bool.and_eq_true] at hrs
        have := ihF fs' ic' body 0 0 _ vs hws.1 hrs.2 (fitsFs_init fs') hvs
        rw [eszFs_init] at this
        have hm := tlNumSize_mono (a := eszFs fs' vs) (b := body.length) (by omega)
        simp only [esz]; omega
      | repeated e => simp [isElemKind] at hk
      | map k v => simp [isElemKind] at hk
      | marker => simp [isElemKind] at hk

/-- the size of re-encoding what `parse` accepted is at most the size of the wire -/
theorem parse_size (fs : List Schema) (ic : Bool) (w : Bytes) (vs : List Value) (hw : wfFs fs = true)
    (hr : reFs fs = true) (h : parse fs ic w = .ok vs) : eszFs fs vs ≤ w.length := by
  have := (size_step _).1 fs ic w 0 0 _ vs hw hr (fitsFs_init fs) h
  rw [eszFs_init] at this; omega

/-- **re-encoding succeeds**: for a schema without `fixed_len` integers (Type numbers below 2^64) and a wire
    shorter than 2^64 bytes, `encode` of what `parse` accepted succeeds and is no longer than the wire -/
theorem reencode_ok (fs : List Schema) (ic : Bool) (w : Bytes) (vs : List Value) (hw : wfFs fs = true)
    (hr : reFs fs = true) (hlen : w.length < 2 ^ 64) (h : parse fs ic w = .ok vs) :
    ∃ b, encFields fs vs = .ok b ∧ b.length ≤ w.length := by
  obtain ⟨hfit, hb⟩ := parse_accept fs ic w vs hw h
  have hsz := parse_size fs ic w vs hw hr h
  obtain ⟨b, h1, h2⟩ := encFields_total w.length fs vs hw hr hfit hb (by omega)
  exact ⟨b, h1, by omega⟩

/-! ### with `fixed_len` fields: the only ways re-encoding a legal assignment can fail -/

/-- a result that is a value, `ValueError` (an integer too big for its `fixed_len`) or `struct.error` (a Type or
    Length that does not fit 64 bits) -/
def ReErr {α} (x : Except PyErr α) : Prop := ∀ e, x = .error e → e = .valueError ∨ e = .structError

theorem ReErr.ok {α} (a : α) : ReErr (Except.ok a : Except PyErr α) := by intro e h; cases h

theorem ReErr.bind {α β} {x : Except PyErr α} {f : α → Except PyErr β}
    (hx : ReErr x) (hf : ∀ a, x = .ok a → ReErr (f a)) : ReErr (x >>= f) := by
  cases x with
  | error e => intro e' h; cases h; exact hx e rfl
  | ok a => exact hf a rfl

theorem tlvE_reErr (t : Nat) (b : Bytes) : ReErr (tlvE t b) := by
  unfold tlvE; split
  · exact ReErr.ok _
  · intro e h; cases h; exact .inr rfl

mutual
theorem enc_reErr : ∀ (s : Schema) (v : Value), fits s v = true → ReErr (enc s v)
  | s, .none, _ => by cases s <;> simp only [enc] <;> exact ReErr.ok _
  | s, .uint v, hfit => by
    cases s with
    | uint t fl =>
      simp only [enc]; split
      · intro e h; cases h; exact .inl rfl
      · exact tlvE_reErr _ _
    | _ => simp [fits] at hfit
  | s, .bool, hfit => by
    cases s with
    | bool t => simp only [enc]; exact tlvE_reErr _ _
    | _ => simp [fits] at hfit
  | s, .bytes x, hfit => by
    cases s with
    | bytes t isStr => simp only [enc]; exact tlvE_reErr _ _
    | _ => simp [fits] at hfit
  | s, .name cs, hfit => by
    cases s with
    | name t => simp only [enc]; exact tlvE_reErr _ _
    | _ => simp [fits] at hfit
  | s, .model vs, hfit => by
    cases s with
    | model t fs ic =>
      simp only [fits] at hfit
      simp only [enc]
      exact ReErr.bind (encFields_reErr fs vs hfit) (fun _ _ => tlvE_reErr _ _)
    | _ => simp [fits] at hfit
  | s, .list vs, hfit => by
    cases s with
    | repeated e => simp only [fits] at hfit; simp only [enc]; exact encList_reErr e vs hfit
    | _ => simp [fits] at hfit
  | s, .map es, hfit => by
    cases s with
    | map k v =>
      simp only [fits, Bool.and_eq_true] at hfit; simp only [enc]; exact encMap_reErr k v es hfit.1
    | _ => simp [fits] at hfit
theorem encFields_reErr : ∀ (fs : List Schema) (vs : List Value), fitsFs fs vs = true → ReErr (encFields fs vs)
  | [], _, _ => by simp only [encFields]; exact ReErr.ok _
  | _ :: _, [], _ => by simp only [encFields]; exact ReErr.ok _
  | s :: ss, v :: vs, hfit => by
    simp only [fitsFs, Bool.and_eq_true] at hfit
    simp only [encFields]
    exact ReErr.bind (enc_reErr s v hfit.1) (fun _ _ =>
      ReErr.bind (encFields_reErr ss vs hfit.2) (fun _ _ => ReErr.ok _))
theorem encList_reErr : ∀ (e : Schema) (vs : List Value), fitsList e vs = true → ReErr (encList e vs)
  | _, [], _ => by simp only [encList]; exact ReErr.ok _
  | e, v :: vs, hfit => by
    simp only [fitsList, Bool.and_eq_true] at hfit
    simp only [encList]
    exact ReErr.bind (enc_reErr e v hfit.1.2) (fun _ _ =>
      ReErr.bind (encList_reErr e vs hfit.2) (fun _ _ => ReErr.ok _))
theorem encMap_reErr : ∀ (k v : Schema) (es : List (Value × Value)), fitsMap k v es = true → ReErr (encMap k v es)
  | _, _, [], _ => by simp only [encMap]; exact ReErr.ok _
  | k, v, (x, y) :: r, hfit => by
    simp only [fitsMap, Bool.and_eq_true] at hfit
    simp only [encMap]
    exact ReErr.bind (enc_reErr k x hfit.1.1.2) (fun _ _ =>
      ReErr.bind (enc_reErr v y hfit.1.2) (fun _ _ =>
        ReErr.bind (encMap_reErr k v r hfit.2) (fun _ _ => ReErr.ok _)))
end

end Ndn.Codec
