import NdnModel.Receive
import NdnProofs.Lemmas.PyDict
/-! Helper lemmas for the receive pipeline (C06 b, C10). -/
namespace Ndn.Recv
open Ndn

/-- ids of pending Interests completed by a list of effects -/
def completedIds (effs : List Effect) : List Nat :=
  effs.filterMap fun
    | .nacked i _ => some i
    | .satisfied i => some i
    | .invoke _ _ => none

/-- reachable-state invariant of the pending-Interest table: one node per name, no empty node -/
def State.WF (st : State) : Prop :=
  (PyDict.keys st.pit).Nodup ∧ ∀ e ∈ st.pit, e.2 ≠ []

theorem filterMap_eq_self {α} (f : α → Option α) (l : List α) (h : ∀ e ∈ l, f e = some e) :
    l.filterMap f = l := by
  induction l with
  | nil => rfl
  | cons a r ih =>
    have ha := h a (by simp)
    simp only [List.filterMap_cons, ha]
    rw [ih (fun e he => h e (List.mem_cons_of_mem _ he))]

theorem dataNode_key {d : DataFacts} {e e' : NameKey × List Pending} (h : dataNode d e = some e') :
    e'.1 = e.1 ∧ e'.2 ≠ [] ∨ e' = e := by
  unfold dataNode at h
  split at h
  · dsimp only at h
    split at h
    · simp at h
    · rename_i hne
      simp only [Option.some.injEq] at h
      subst h
      left
      refine ⟨rfl, ?_⟩
      intro hnil
      simp only at hnil
      simp [hnil] at hne
  · simp only [Option.some.injEq] at h
    right; exact h.symm

theorem keys_filterMap_sublist (d : DataFacts) (l : PyDict NameKey (List Pending)) :
    List.Sublist (PyDict.keys (l.filterMap (dataNode d))) (PyDict.keys l) := by
  induction l with
  | nil => simp [PyDict.keys]
  | cons a r ih =>
    simp only [List.filterMap_cons]
    cases h : dataNode d a with
    | none =>
      simp only [PyDict.keys, List.map_cons] at ih ⊢
      exact List.Sublist.cons _ ih
    | some a' =>
      have hk : a'.1 = a.1 := by
        rcases dataNode_key h with ⟨h1, _⟩ | h1
        · exact h1
        · rw [h1]
      simp only [PyDict.keys, List.map_cons, hk] at ih ⊢
      exact List.Sublist.cons_cons _ ih

theorem keys_erase_sublist (l : PyDict NameKey (List Pending)) (k : NameKey) :
    List.Sublist (PyDict.keys (PyDict.erase l k)) (PyDict.keys l) := by
  unfold PyDict.erase PyDict.keys
  exact List.Sublist.map _ List.filter_sublist

theorem onData_wf (st : State) (d : DataFacts) (h : st.WF) : (onData st d).1.WF := by
  refine ⟨?_, ?_⟩
  · exact List.Nodup.sublist (keys_filterMap_sublist d st.pit) h.1
  · intro e he
    simp only [onData, List.mem_filterMap] at he
    obtain ⟨e0, he0, hd⟩ := he
    rcases dataNode_key hd with ⟨_, h2⟩ | h2
    · exact h2
    · rw [h2]; exact h.2 e0 he0

/-! ### `PyDict.set` (own copies; the shared lemma file is read-only) -/

theorem set_self {κ ν} [DecidableEq κ] (d : PyDict κ ν) (k : κ) (v : ν) (h : PyDict.get? d k = some v) :
    PyDict.set d k v = d := by
  induction d with
  | nil => simp [PyDict.get?] at h
  | cons p r ih =>
    obtain ⟨a, b⟩ := p
    by_cases hk : a = k
    · subst hk; simp [PyDict.get?] at h; simp [PyDict.set, h]
    · simp only [PyDict.get?, hk, if_false] at h
      simp [PyDict.set, hk, ih h]

theorem mem_set_of_ne {κ ν} [DecidableEq κ] (d : PyDict κ ν) (k : κ) (v : ν) (e : κ × ν) (he : e ∈ d)
    (hne : e.1 ≠ k) : e ∈ PyDict.set d k v := by
  induction d with
  | nil => simp at he
  | cons p r ih =>
    obtain ⟨a, b⟩ := p
    simp only [List.mem_cons] at he
    by_cases hk : a = k
    · subst hk
      rcases he with rfl | he
      · exact absurd rfl hne
      · simp [PyDict.set, he]
    · simp only [PyDict.set, hk, if_false, List.mem_cons]
      rcases he with rfl | he
      · exact Or.inl rfl
      · exact Or.inr (ih he)

theorem mem_set_self {κ ν} [DecidableEq κ] (d : PyDict κ ν) (k : κ) (v v0 : ν) (h : PyDict.get? d k = some v0) :
    (k, v) ∈ PyDict.set d k v := by
  induction d with
  | nil => simp [PyDict.get?] at h
  | cons p r ih =>
    obtain ⟨a, b⟩ := p
    by_cases hk : a = k
    · subst hk; simp [PyDict.set]
    · simp only [PyDict.get?, hk, if_false] at h
      simp only [PyDict.set, hk, if_false, List.mem_cons]
      exact Or.inr (ih h)

theorem mem_set_cases {κ ν} [DecidableEq κ] (d : PyDict κ ν) (k : κ) (v : ν) (e : κ × ν)
    (he : e ∈ PyDict.set d k v) : e = (k, v) ∨ e ∈ d := by
  induction d with
  | nil => simp [PyDict.set] at he; exact Or.inl he
  | cons p r ih =>
    obtain ⟨a, b⟩ := p
    by_cases hk : a = k
    · subst hk
      simp only [PyDict.set, if_true, List.mem_cons] at he
      rcases he with rfl | he
      · exact Or.inl rfl
      · exact Or.inr (List.mem_cons_of_mem _ he)
    · simp only [PyDict.set, hk, if_false, List.mem_cons] at he
      rcases he with rfl | he
      · exact Or.inr (by simp)
      · rcases ih he with h | h
        · exact Or.inl h
        · exact Or.inr (List.mem_cons_of_mem _ h)

theorem onNack_wf (g : Guards) (st : State) (n : NameKey) (r : Nat) (res : Res) (h : st.WF)
    (hr : onNack g st n r = .ok res) : res.1.WF := by
  unfold onNack at hr
  split at hr
  · split at hr
    · simp only [Except.ok.injEq] at hr; subst hr; exact h
    · simp at hr
  · simp only [Except.ok.injEq] at hr; subst hr
    dsimp only
    split
    · refine ⟨List.Nodup.sublist (keys_erase_sublist _ _) h.1, ?_⟩
      intro e he
      simp only [PyDict.erase, List.mem_filter] at he
      exact h.2 e he.1
    · rename_i hne
      refine ⟨PyDict.nodup_keys_set _ _ _ h.1, ?_⟩
      intro e he
      rcases mem_set_cases _ _ _ _ he with rfl | he
      · intro hnil
        simp only at hnil
        rw [hnil] at hne
        simp at hne
      · exact h.2 e he

end Ndn.Recv
