import NdnProofs.Lemmas.CodecRT
import NdnProofs.Lemmas.CodecStrict
/-!
  What the generic decoder accepts is well-formed: every value `parse` returns is a legal assignment
  (`fitsFs`, the hypothesis of the encoder theorems of C08) whose integers fit 64 bits and whose byte
  strings / names are no longer than the wire they were read from (`boundedL`).
-/
namespace Ndn.Codec
open Ndn

/-! ### the size bounds the encoder needs -/
mutual
/-- integers fit 8 bytes; byte strings and names (the concatenated components) hold at most `n` bytes -/
def bounded (n : Nat) : Value → Bool
  | .none => true
  | .uint v => decide (v < 2 ^ 64)
  | .bool => true
  | .bytes b => decide (b.length ≤ n)
  | .name cs => decide ((concatB cs).length ≤ n)
  | .model vs => boundedL n vs
  | .list vs => boundedL n vs
  | .map es => boundedM n es
def boundedL (n : Nat) : List Value → Bool
  | [] => true
  | v :: r => bounded n v && boundedL n r
def boundedM (n : Nat) : List (Value × Value) → Bool
  | [] => true
  | (a, b) :: r => bounded n a && bounded n b && boundedM n r
end

/-! ### list plumbing -/

theorem wfFs_get : ∀ (fs : List Schema) (i : Nat) (s : Schema), wfFs fs = true → fs[i]? = some s → wfS s = true
  | [], _, _, _, h => by simp at h
  | a :: r, 0, s, hp, h => by simp at h; subst h; simp [wfFs] at hp; exact hp.1
  | a :: r, i + 1, s, hp, h => by
    simp at h; simp [wfFs] at hp; exact wfFs_get r i s hp.2 h

theorem fitsFs_get : ∀ (fs : List Schema) (acc : List Value) (i : Nat) (s : Schema),
    fitsFs fs acc = true → fs[i]? = some s → ∃ a, acc[i]? = some a ∧ fits s a = true
  | [], _, _, _, _, h => by simp at h
  | _ :: _, [], _, _, hf, _ => by simp [fitsFs] at hf
  | s0 :: ss, v :: vs, 0, s, hf, h => by
    simp at h; subst h
    simp only [fitsFs, Bool.and_eq_true] at hf
    exact ⟨v, by simp, hf.1⟩
  | s0 :: ss, v :: vs, i + 1, s, hf, h => by
    simp only [fitsFs, Bool.and_eq_true] at hf
    simp at h
    obtain ⟨a, ha, hfa⟩ := fitsFs_get ss vs i s hf.2 h
    exact ⟨a, by simpa using ha, hfa⟩

theorem fitsFs_set : ∀ (fs : List Schema) (acc : List Value) (i : Nat) (s : Schema) (x : Value),
    fitsFs fs acc = true → fs[i]? = some s → fits s x = true → fitsFs fs (acc.set i x) = true
  | [], _, _, _, _, _, h, _ => by simp at h
  | _ :: _, [], _, _, _, hf, _, _ => by simp [fitsFs] at hf
  | s0 :: ss, v :: vs, 0, s, x, hf, h, hx => by
    simp at h; subst h
    simp only [fitsFs, Bool.and_eq_true] at hf
    simp only [List.set_cons_zero, fitsFs, Bool.and_eq_true]
    exact ⟨hx, hf.2⟩
  | s0 :: ss, v :: vs, i + 1, s, x, hf, h, hx => by
    simp only [fitsFs, Bool.and_eq_true] at hf
    simp at h
    simp only [List.set_cons_succ, fitsFs, Bool.and_eq_true]
    exact ⟨hf.1, fitsFs_set ss vs i s x hf.2 h hx⟩

theorem boundedL_get (n : Nat) : ∀ (acc : List Value) (i : Nat) (a : Value),
    boundedL n acc = true → acc[i]? = some a → bounded n a = true
  | [], _, _, _, h => by simp at h
  | v :: vs, 0, a, hb, h => by
    simp at h; subst h
    simp only [boundedL, Bool.and_eq_true] at hb; exact hb.1
  | v :: vs, i + 1, a, hb, h => by
    simp only [boundedL, Bool.and_eq_true] at hb
    simp at h
    exact boundedL_get n vs i a hb.2 h

theorem boundedL_set (n : Nat) : ∀ (acc : List Value) (i : Nat) (x : Value),
    boundedL n acc = true → bounded n x = true → boundedL n (acc.set i x) = true
  | [], _, _, _, _ => by simp [boundedL]
  | v :: vs, 0, x, hb, hx => by
    simp only [boundedL, Bool.and_eq_true] at hb
    simp only [List.set_cons_zero, boundedL, Bool.and_eq_true]; exact ⟨hx, hb.2⟩
  | v :: vs, i + 1, x, hb, hx => by
    simp only [boundedL, Bool.and_eq_true] at hb
    simp only [List.set_cons_succ, boundedL, Bool.and_eq_true]
    exact ⟨hb.1, boundedL_set n vs i x hb.2 hx⟩

theorem boundedL_append_one (n : Nat) : ∀ (l : List Value) (v : Value),
    boundedL n l = true → bounded n v = true → boundedL n (l ++ [v]) = true
  | [], v, _, hv => by simp [boundedL, hv]
  | a :: r, v, hl, hv => by
    simp only [boundedL, Bool.and_eq_true] at hl
    simp only [List.cons_append, boundedL, Bool.and_eq_true]
    exact ⟨hl.1, boundedL_append_one n r v hl.2 hv⟩

theorem fitsList_append_one (e : Schema) : ∀ (l : List Value) (v : Value),
    fitsList e l = true → v ≠ .none → fits e v = true → fitsList e (l ++ [v]) = true
  | [], v, _, hn, hv => by
    cases v <;> simp_all [fitsList]
  | a :: r, v, hl, hn, hv => by
    simp only [fitsList, Bool.and_eq_true] at hl
    simp only [List.cons_append, fitsList, Bool.and_eq_true]
    exact ⟨hl.1, fitsList_append_one e r v hl.2 hn hv⟩

/-! ### dict update -/

theorem notNone_of_ne {v : Value} (h : v ≠ .none) : notNone v = true := by
  cases v <;> simp_all [notNone]

theorem fitsMap_mapSet (ks vs : Schema) (k v : Value) (hk : notNone k = true) (hv : notNone v = true)
    (fk : fits ks k = true) (fv : fits vs v = true) : ∀ (l : List (Value × Value)),
    fitsMap ks vs l = true → fitsMap ks vs (mapSet l k v) = true
  | [], _ => by simp [mapSet, fitsMap, hk, hv, fk, fv]
  | (k', v') :: r, h => by
    simp only [fitsMap, Bool.and_eq_true] at h
    simp only [mapSet]; split
    · simp only [fitsMap, Bool.and_eq_true]
      exact ⟨⟨⟨⟨h.1.1.1.1, hv⟩, h.1.1.2⟩, fv⟩, h.2⟩
    · simp only [fitsMap, Bool.and_eq_true]
      exact ⟨h.1, fitsMap_mapSet ks vs k v hk hv fk fv r h.2⟩

theorem mapSet_all (a k v : Value) : ∀ (l : List (Value × Value)),
    l.all (fun e => !keyEq a e.1) = true → keyEq a k = false →
    (mapSet l k v).all (fun e => !keyEq a e.1) = true
  | [], _, hk => by simp [mapSet, hk]
  | (k', v') :: r, h, hk => by
    simp only [List.all_cons, Bool.and_eq_true] at h
    simp only [mapSet]; split
    · simp only [List.all_cons, Bool.and_eq_true]; exact ⟨h.1, h.2⟩
    · simp only [List.all_cons, Bool.and_eq_true]; exact ⟨h.1, mapSet_all a k v r h.2 hk⟩

theorem keysDistinct_mapSet (k v : Value) : ∀ (l : List (Value × Value)),
    keysDistinct l = true → keysDistinct (mapSet l k v) = true
  | [], _ => by simp [mapSet, keysDistinct]
  | (k', v') :: r, h => by
    simp only [keysDistinct, Bool.and_eq_true] at h
    simp only [mapSet]; split
    · simp only [keysDistinct, Bool.and_eq_true]; exact h
    · rename_i hne
      simp only [keysDistinct, Bool.and_eq_true]
      exact ⟨mapSet_all k' k v r h.1 (by simpa using hne), keysDistinct_mapSet k v r h.2⟩

theorem boundedM_mapSet (n : Nat) (k v : Value) (hk : bounded n k = true) (hv : bounded n v = true) :
    ∀ (l : List (Value × Value)), boundedM n l = true → boundedM n (mapSet l k v) = true
  | [], _ => by simp [mapSet, boundedM, hk, hv]
  | (k', v') :: r, h => by
    simp only [boundedM, Bool.and_eq_true] at h
    simp only [mapSet]; split
    · simp only [boundedM, Bool.and_eq_true]; exact ⟨⟨h.1.1, hv⟩, h.2⟩
    · simp only [boundedM, Bool.and_eq_true]; exact ⟨h.1, boundedM_mapSet n k v hk hv r h.2⟩

/-! ### the initial (empty) instance -/

theorem fitsFs_init : ∀ (fs : List Schema), fitsFs fs (fs.map initVal) = true
  | [] => rfl
  | s :: r => by
    simp only [List.map_cons, fitsFs, Bool.and_eq_true]
    exact ⟨by cases s <;> simp [initVal, fits, fitsList, fitsMap, keysDistinct], fitsFs_init r⟩

theorem boundedL_init (n : Nat) : ∀ (fs : List Schema), boundedL n (fs.map initVal) = true
  | [] => rfl
  | s :: r => by
    simp only [List.map_cons, boundedL, Bool.and_eq_true]
    exact ⟨by cases s <;> simp [initVal, bounded, boundedL, boundedM], boundedL_init n r⟩


/-! ### reading a T/L number from a slice -/

theorem parseTlNum_prefix {buf R : Bytes} {off v n : Nat} (h : parseTlNum (buf ++ R) off = .ok (v, n))
    (hle : off + n ≤ buf.length) : parseTlNum buf off = .ok (v, n) := by
  have hun : ∀ a k x, unpackAt (buf ++ R) a k = .ok x → a + k ≤ buf.length → unpackAt buf a k = .ok x := by
    intro a k x hx hk
    unfold unpackAt at hx ⊢
    simp only [] at hx ⊢
    have : pySlice (buf ++ R) a (a + k) = pySlice buf a (a + k) := by
      simp [pySlice, List.take_append_of_le_length hk]
    rw [this] at hx; exact hx
  have hpos := (parseTlNum_pos h).1
  have hlt : off < buf.length := by omega
  unfold parseTlNum at h ⊢
  have hb : (buf ++ R)[off]? = buf[off]? := List.getElem?_append_left hlt
  rw [hb] at h
  cases hc : buf[off]? with
  | none => simp [hc] at h
  | some b =>
    simp only [hc] at h ⊢
    by_cases c1 : b.toNat ≤ 0xFC
    · simp only [c1, if_true] at h ⊢; exact h
    · simp only [c1, if_false] at h ⊢
      by_cases c2 : b.toNat = 0xFD
      · simp only [c2, if_true] at h ⊢
        obtain ⟨x, hx, h2⟩ := bind_ok h
        have hn : n = 3 := by simp only [pure, Except.pure, Except.ok.injEq, Prod.mk.injEq] at h2; omega
        rw [hun _ _ _ hx (by omega)]; exact h2
      · simp only [c2, if_false] at h ⊢
        by_cases c3 : b.toNat = 0xFE
        · simp only [c3, if_true] at h ⊢
          obtain ⟨x, hx, h2⟩ := bind_ok h
          have hn : n = 5 := by simp only [pure, Except.pure, Except.ok.injEq, Prod.mk.injEq] at h2; omega
          rw [hun _ _ _ hx (by omega)]; exact h2
        · simp only [c3, if_false] at h ⊢
          obtain ⟨x, hx, h2⟩ := bind_ok h
          have hn : n = 9 := by simp only [pure, Except.pure, Except.ok.injEq, Prod.mk.injEq] at h2; omega
          rw [hun _ _ _ hx (by omega)]; exact h2

theorem slice_decomp {α} (buf : List α) (off e : Nat) (h1 : off ≤ e) :
    buf = buf.take off ++ (pySlice buf off e ++ buf.drop e) := by
  have h2 : (buf.take e).take off = buf.take off := by rw [List.take_take, Nat.min_eq_left h1]
  calc buf = buf.take e ++ buf.drop e := (List.take_append_drop e buf).symm
    _ = ((buf.take e).take off ++ (buf.take e).drop off) ++ buf.drop e := by rw [List.take_append_drop off (buf.take e)]
    _ = buf.take off ++ (pySlice buf off e ++ buf.drop e) := by rw [h2, List.append_assoc]; rfl

theorem parseTlNum_slice {buf : Bytes} {off o e v n : Nat} (h : parseTlNum buf (off + o) = .ok (v, n))
    (hle : off + o + n ≤ e) (he : e ≤ buf.length) : parseTlNum (pySlice buf off e) o = .ok (v, n) := by
  have hoff : off ≤ e := by omega
  have hd := slice_decomp buf off e hoff
  have hl : (buf.take off).length = off := by simp; omega
  have h' : parseTlNum (buf.take off ++ (pySlice buf off e ++ buf.drop e)) ((buf.take off).length + o)
      = .ok (v, n) := by rw [hl, ← hd]; exact h
  rw [parseTlNum_shift] at h'
  exact parseTlNum_prefix h' (by simp [pySlice]; omega)

theorem pySlice_length_of_le {α} (buf : List α) (a b : Nat) (h : b ≤ buf.length) :
    (pySlice buf a b).length = b - a := by
  simp [pySlice]; omega

/-- a component the name decoder cut out of the buffer is one complete TLV element -/
theorem compOk_slice {buf : Bytes} {off t st lc sl : Nat} (h1 : parseTlNum buf off = .ok (t, st))
    (h2 : parseTlNum buf (off + st) = .ok (lc, sl)) (hle : off + (st + sl + lc) ≤ buf.length) :
    compOk (pySlice buf off (off + (st + sl + lc))) = true := by
  have p1 := parseTlNum_slice (off := off) (o := 0) (e := off + (st + sl + lc)) (by simpa using h1)
    (by omega) hle
  have p2 := parseTlNum_slice (off := off) (o := st) (e := off + (st + sl + lc)) h2 (by omega) hle
  have hl := pySlice_length_of_le buf off (off + (st + sl + lc)) hle
  unfold compOk
  simp only [p1, p2, hl]
  simp <;> omega

/-! ### what the name decoder accepts -/

theorem decodeComps_acc : ∀ (fuel : Nat) (buf : Bytes) (off length : Nat) (cs : List Bytes),
    decodeComps fuel buf off length = .ok cs → off + length ≤ buf.length →
    cs.all compOk = true ∧ (concatB cs).length = length
  | 0, _, _, _, _, h, _ => by simp [decodeComps] at h
  | fuel + 1, buf, off, length, cs, h, hle => by
    unfold decodeComps at h
    split at h
    · rename_i h0; cases h; simp [concatB, h0]
    · obtain ⟨⟨t, st⟩, h1, h⟩ := bind_ok h
      obtain ⟨⟨lc, sl⟩, h2, h⟩ := bind_ok h
      simp only [] at h
      split at h
      · cases h
      · rename_i hn
        obtain ⟨r, hr, h3⟩ := bind_ok h
        simp only [pure, Except.pure, Except.ok.injEq] at h3; subst h3
        obtain ⟨ih1, ih2⟩ := decodeComps_acc fuel buf _ _ r hr (by omega)
        have hc := compOk_slice h1 h2 (by omega)
        have hl := pySlice_length_of_le buf off (off + (st + sl + lc)) (by omega)
        refine ⟨by simp [hc, ih1], ?_⟩
        rw [concatB_cons, List.length_append, hl, ih2]; omega

/-- an accepted Name element: its components are single TLV elements and together fill exactly the declared
    Length, which lies inside the buffer -/
theorem decodeName_acc {buf : Bytes} {cs : List Bytes} (h : decodeName buf 0 = .ok cs) :
    ∃ typ st len sl, parseTlNum buf 0 = .ok (typ, st) ∧ parseTlNum buf st = .ok (len, sl) ∧
      (concatB cs).length = len ∧ st + sl + len ≤ buf.length ∧ cs.all compOk = true := by
  unfold decodeName at h
  obtain ⟨⟨typ, st⟩, h1, h⟩ := bind_ok h
  simp only [] at h
  split at h
  · cases h
  · obtain ⟨⟨len, sl⟩, h2, h⟩ := bind_ok h
    simp only [] at h
    split at h
    · cases h
    · rename_i hgt
      have hb := parseTlNum_le h2
      simp only [Nat.zero_add] at h2 hb hgt h
      obtain ⟨a1, a2⟩ := decodeComps_acc _ _ _ _ _ h (by omega)
      exact ⟨typ, st, len, sl, h1, h2, a2, by omega, a1⟩

/-! ### the value element of a map entry -/

theorem findMapValue_acc : ∀ (fuel : Nat) (vt : Option Nat) (ic : Bool) (rest : Bytes) (off : Nat)
    (len2 : Nat) (body2 elem2 rest3 : Bytes) (off3 : Nat),
    findMapValue fuel vt ic rest off = .ok (len2, body2, elem2, rest3, off3) →
    ∃ typ st sl, parseTlNum elem2 0 = .ok (typ, st) ∧ parseTlNum elem2 st = .ok (len2, sl) ∧ some typ = vt ∧
      body2 = pySlice elem2 (st + sl) (st + sl + len2) ∧ rest3 = elem2.drop (st + sl + len2) ∧
      elem2.length ≤ rest.length
  | 0, _, _, _, _, _, _, _, _, _, h => by simp [findMapValue] at h
  | fuel + 1, vt, ic, rest, off, len2, body2, elem2, rest3, off3, h => by
    unfold findMapValue at h
    obtain ⟨⟨typ, st⟩, h1, h⟩ := bind_ok h
    obtain ⟨⟨len, sl⟩, h2, h⟩ := bind_ok h
    simp only [] at h
    split at h
    · rename_i hvt
      simp only [pure, Except.pure, Except.ok.injEq, Prod.mk.injEq] at h
      obtain ⟨rfl, rfl, rfl, rfl, rfl⟩ := h
      exact ⟨typ, st, sl, h1, h2, hvt, rfl, rfl, Nat.le_refl _⟩
    · split at h
      · cases h
      · obtain ⟨typ', st', sl', g1, g2, g3, g4, g5, g6⟩ :=
          findMapValue_acc fuel vt ic _ _ _ _ _ _ _ h
        exact ⟨typ', st', sl', g1, g2, g3, g4, g5, by
          have : (rest.drop (st + sl + len)).length ≤ rest.length := by simp
          omega⟩

theorem beVal_bound_aux : ∀ (s : Bytes) (a : Nat),
    s.foldl (fun a b => a * 256 + b.toNat) a + 1 ≤ (a + 1) * 256 ^ s.length
  | [], a => by simp
  | b :: r, a => by
    have := beVal_bound_aux r (a * 256 + b.toNat)
    have hb := b.toNat_lt
    simp only [List.foldl, List.length_cons, Nat.pow_succ]
    calc _ ≤ (a * 256 + b.toNat + 1) * 256 ^ r.length := this
      _ ≤ ((a + 1) * 256) * 256 ^ r.length := Nat.mul_le_mul_right _ (by omega)
      _ = (a + 1) * (256 ^ r.length * 256) := by rw [Nat.mul_assoc, Nat.mul_comm 256]

theorem beVal_lt (b : Bytes) : beVal b < 256 ^ b.length := by
  have := beVal_bound_aux b 0
  simp only [beVal]; omega

theorem leafCheck_uint {t : Nat} {fl : Option Nat} {len : Nat} {body : Bytes}
    (h : leafCheck (.uint t fl) len body = .ok ()) :
    body.length = 1 ∨ body.length = 2 ∨ body.length = 4 ∨ body.length = 8 := by
  unfold leafCheck at h
  simp only [] at h
  split at h
  · split at h
    · rename_i hw hl; omega
    · cases h
  · cases h

/-- an accepted integer fits 64 bits -/
theorem beVal_lt64 {t : Nat} {fl : Option Nat} {len : Nat} {body : Bytes}
    (h : leafCheck (.uint t fl) len body = .ok ()) : beVal body < 2 ^ 64 := by
  have hb := beVal_lt body
  rcases leafCheck_uint h with e | e | e | e <;> rw [e] at hb <;> simp only [Nat.reducePow] at hb ⊢ <;> omega


/-! ### the main induction -/

theorem elem_bind {β} {s : Schema} {f len : Nat} {body elem : Bytes} {k : Value → Except PyErr β} {r : β}
    (h : (do leafCheck s len body; let v ← parseValue f s body elem; k v) = .ok r) :
    ∃ v, leafCheck s len body = .ok () ∧ parseValue f s body elem = .ok v ∧ k v = .ok r := by
  obtain ⟨u, hl, h⟩ := bind_ok h
  obtain ⟨v, hv, h⟩ := bind_ok h
  exact ⟨v, hl, hv, h⟩

/-- what `parse_from` yields for one recognised element: a present, legal, bounded value -/
def ElemAcc (n : Nat) (s : Schema) (v : Value) : Prop := fits s v = true ∧ v ≠ .none ∧ bounded n v = true

theorem accept_step : ∀ (fuel : Nat),
    (∀ (fs : List Schema) (ic : Bool) (rest : Bytes) (off pos : Nat) (acc vs : List Value) (n : Nat),
      wfFs fs = true → fitsFs fs acc = true → boundedL n acc = true → rest.length ≤ n →
      parseFields fuel fs ic rest off pos acc = .ok vs → fitsFs fs vs = true ∧ boundedL n vs = true) ∧
    (∀ (s : Schema) (len : Nat) (body elem : Bytes) (v : Value) (n : Nat),
      isElemKind s = true → wfS s = true → leafCheck s len body = .ok () → body.length ≤ n → elem.length ≤ n →
      parseValue fuel s body elem = .ok v → ElemAcc n s v)
  | 0 => ⟨fun _ _ _ _ _ _ _ _ _ _ _ _ h => by simp [parseFields] at h,
          fun _ _ _ _ _ _ _ _ _ _ _ h => by simp [parseValue] at h⟩
  | f + 1 => by
    obtain ⟨ihF, ihV⟩ := accept_step f
    refine ⟨?_, ?_⟩
    · intro fs ic rest off pos acc vs n hw hfit hb hlen h
      unfold parseFields at h
      split at h
      · cases h; exact ⟨hfit, hb⟩
      · obtain ⟨⟨typ, st⟩, h1, h⟩ := bind_ok h
        obtain ⟨⟨len, sl⟩, h2, h⟩ := bind_ok h
        simp only [] at h
        have hbody : (pySlice rest (st + sl) (st + sl + len)).length ≤ n := by
          have := pySlice_len_le rest (st + sl) (st + sl + len); omega
        have hdrop : (rest.drop (st + sl + len)).length ≤ n := by simp; omega
        split at h
        · split at h
          · cases h
          · exact ihF _ _ _ _ _ _ _ _ hw hfit hb hdrop h
        · rename_i i hfind
          obtain ⟨s, hs, htyp⟩ := findField_get fs pos typ i hfind
          have hws := wfFs_get fs i s hw hs
          rw [skipMarkers_id fs acc pos i off hw] at h
          simp only [hs] at h
          cases s with
          | marker => simp [wfS] at hws
          | repeated e =>
            simp only [wfS, Bool.and_eq_true] at hws
            obtain ⟨v, hl, hv, hk⟩ := elem_bind h
            obtain ⟨f1, f2, f3⟩ := ihV e _ _ _ v n hws.1 hws.2 hl hbody hlen hv
            obtain ⟨a, ha, hfa⟩ := fitsFs_get fs acc i _ hfit hs
            have hba := boundedL_get n acc i a hb ha
            cases a with
            | list l =>
              simp only [fits] at hfa
              simp only [bounded] at hba
              simp only [ha, listOf] at hk
              exact ihF _ _ _ _ _ _ _ _ hw
                (fitsFs_set fs acc i _ _ hfit hs (by simp only [fits]; exact fitsList_append_one e l v hfa f2 f1))
                (boundedL_set n acc i _ hb (by simp only [bounded]; exact boundedL_append_one n l v hba f3))
                hdrop hk
            | _ => simp [fits] at hfa
          | map ks vs' =>
            simp only [wfS, Bool.and_eq_true] at hws
            obtain ⟨⟨⟨⟨hkk, hwk⟩, hek⟩, hwv⟩, _⟩ := hws
            have hkek : isElemKind ks = true := by cases ks <;> simp_all [isKeyKind, isElemKind]
            obtain ⟨u, hl, h⟩ := bind_ok h
            obtain ⟨k, hkv, h⟩ := bind_ok h
            obtain ⟨⟨len2, body2, elem2, rest3, off3⟩, hfm, h⟩ := bind_ok h
            simp only [] at h
            obtain ⟨u2, hl2, h⟩ := bind_ok h
            obtain ⟨v, hv, h⟩ := bind_ok h
            obtain ⟨typ2, st2, sl2, _, _, _, gb, gr, ge⟩ := findMapValue_acc _ _ _ _ _ _ _ _ _ _ hfm
            have he2 : elem2.length ≤ n := by omega
            have hb2 : body2.length ≤ n := by
              have := pySlice_len_le elem2 (st2 + sl2) (st2 + sl2 + len2); rw [gb]; omega
            have hr3 : rest3.length ≤ n := by rw [gr]; simp; omega
            obtain ⟨k1, k2, k3⟩ := ihV ks _ _ _ k n hkek hwk hl hbody hlen hkv
            obtain ⟨v1, v2, v3⟩ := ihV vs' _ _ _ v n hek hwv hl2 hb2 he2 hv
            obtain ⟨a, ha, hfa⟩ := fitsFs_get fs acc i _ hfit hs
            have hba := boundedL_get n acc i a hb ha
            cases a with
            | map l =>
              simp only [fits, Bool.and_eq_true] at hfa
              simp only [bounded] at hba
              simp only [ha, mapOf] at h
              exact ihF _ _ _ _ _ _ _ _ hw
                (fitsFs_set fs acc i _ _ hfit hs (by
                  simp only [fits, Bool.and_eq_true]
                  exact ⟨fitsMap_mapSet ks vs' k v (notNone_of_ne k2) (notNone_of_ne v2) k1 v1 l hfa.1,
                    keysDistinct_mapSet k v l hfa.2⟩))
                (boundedL_set n acc i _ hb (by simp only [bounded]; exact boundedM_mapSet n k v k3 v3 l hba))
                hr3 h
            | _ => simp [fits] at hfa
          | uint t fl =>
            obtain ⟨v, hl, hv, hk⟩ := elem_bind h
            obtain ⟨f1, f2, f3⟩ := ihV _ _ _ _ v n rfl hws hl hbody hlen hv
            exact ihF _ _ _ _ _ _ _ _ hw (fitsFs_set fs acc i _ v hfit hs f1) (boundedL_set n acc i v hb f3) hdrop hk
          | bool t =>
            obtain ⟨v, hl, hv, hk⟩ := elem_bind h
            obtain ⟨f1, f2, f3⟩ := ihV _ _ _ _ v n rfl hws hl hbody hlen hv
            exact ihF _ _ _ _ _ _ _ _ hw (fitsFs_set fs acc i _ v hfit hs f1) (boundedL_set n acc i v hb f3) hdrop hk
          | bytes t b =>
            obtain ⟨v, hl, hv, hk⟩ := elem_bind h
            obtain ⟨f1, f2, f3⟩ := ihV _ _ _ _ v n rfl hws hl hbody hlen hv
            exact ihF _ _ _ _ _ _ _ _ hw (fitsFs_set fs acc i _ v hfit hs f1) (boundedL_set n acc i v hb f3) hdrop hk
          | name t =>
            obtain ⟨v, hl, hv, hk⟩ := elem_bind h
            obtain ⟨f1, f2, f3⟩ := ihV _ _ _ _ v n rfl hws hl hbody hlen hv
            exact ihF _ _ _ _ _ _ _ _ hw (fitsFs_set fs acc i _ v hfit hs f1) (boundedL_set n acc i v hb f3) hdrop hk
          | model t fs' ic' =>
            obtain ⟨v, hl, hv, hk⟩ := elem_bind h
            obtain ⟨f1, f2, f3⟩ := ihV _ _ _ _ v n rfl hws hl hbody hlen hv
            exact ihF _ _ _ _ _ _ _ _ hw (fitsFs_set fs acc i _ v hfit hs f1) (boundedL_set n acc i v hb f3) hdrop hk
    · intro s len body elem v n hk hws hl hbl hel h
      unfold parseValue at h
      cases s with
      | uint t fl =>
        simp only [Except.ok.injEq] at h; subst h
        exact ⟨by simp [fits], by simp, by simp only [bounded, decide_eq_true_eq]; exact beVal_lt64 hl⟩
      | bool t =>
        simp only [Except.ok.injEq] at h; subst h
        exact ⟨by simp [fits], by simp, by simp [bounded]⟩
      | bytes t isStr =>
        simp only [] at h
        split at h
        · rename_i hstr
          split at h
          · rename_i hu
            simp only [Except.ok.injEq] at h; subst h
            exact ⟨by simp [fits, hu], by simp, by simp [bounded, hbl]⟩
          · cases h
        · simp only [Except.ok.injEq] at h; subst h
          rename_i hstr
          exact ⟨by simp [fits, hstr], by simp, by simp [bounded, hbl]⟩
      | name t =>
        obtain ⟨cs, hcs, h⟩ := bind_ok h
        simp only [pure, Except.pure, Except.ok.injEq] at h; subst h
        obtain ⟨typ, st, len', sl, _, _, hlen', hle, hall⟩ := decodeName_acc hcs
        exact ⟨by simp [fits, hall], by simp, by simp only [bounded, decide_eq_true_eq]; omega⟩
      | model t fs' ic' =>
        obtain ⟨vs, hvs, h⟩ := bind_ok h
        simp only [pure, Except.pure, Except.ok.injEq] at h; subst h
        simp only [wfS, Bool.and_eq_true] at hws
        obtain ⟨g1, g2⟩ := ihF fs' ic' body 0 0 _ vs n hws.1 (fitsFs_init fs') (boundedL_init n fs') hbl hvs
        exact ⟨by simp [fits, g1], by simp, by simp [bounded, g2]⟩
      | repeated e => simp [isElemKind] at hk
      | map k v => simp [isElemKind] at hk
      | marker => simp [isElemKind] at hk

/-- **what `parse` accepts is well-formed**: a legal assignment for the schema, integers below 2^64, byte
    strings and names no longer than the wire -/
theorem parse_accept (fs : List Schema) (ic : Bool) (w : Bytes) (vs : List Value) (hw : wfFs fs = true)
    (h : parse fs ic w = .ok vs) : fitsFs fs vs = true ∧ boundedL w.length vs = true :=
  (accept_step _).1 fs ic w 0 0 _ vs w.length hw (fitsFs_init fs) (boundedL_init _ fs) (Nat.le_refl _) h

end Ndn.Codec
