import NdnProofs.Lemmas.NameWire
/-! Byte order of shortest-form TL numbers and of encoded components (`write_lex_mono`). -/
namespace Ndn

theorem beq_u8 (x y : UInt8) : (x == y) = decide (x.toNat = y.toNat) := by
  rw [Bool.eq_iff_iff]; simp [UInt8.toNat_inj]

theorem bytesLt_cons_lt (x y : UInt8) (s t : Bytes) (h : x.toNat < y.toNat) : bytesLt (x :: s) (y :: t) = true := by
  simp [bytesLt, h]

theorem bytesLt_cons_gt (x y : UInt8) (s t : Bytes) (h : y.toNat < x.toNat) : bytesLt (x :: s) (y :: t) = false := by
  have : ¬ x.toNat < y.toNat := by omega
  have : ¬ x.toNat = y.toNat := by omega
  simp [bytesLt, beq_u8, *]

theorem bytesLt_cons_eq (x : UInt8) (s t : Bytes) : bytesLt (x :: s) (x :: t) = bytesLt s t := by
  simp [bytesLt]

theorem bytesLt_irrefl (s : Bytes) : bytesLt s s = false := by
  induction s with
  | nil => rfl
  | cons x s ih => rw [bytesLt_cons_eq, ih]

/-- two equally long heads decide the comparison unless they are equal -/
theorem bytesLt_append_eqlen (x y p q : Bytes) (h : x.length = y.length) :
    bytesLt (x ++ p) (y ++ q) = if x = y then bytesLt p q else bytesLt x y := by
  induction x generalizing y with
  | nil =>
    cases y with
    | nil => simp
    | cons b y => simp at h
  | cons a x ih =>
    cases y with
    | nil => simp at h
    | cons b y =>
      simp at h
      have := ih y h
      simp only [List.cons_append, bytesLt, this]
      by_cases hab : a = b
      · subst hab
        by_cases hxy : x = y
        · subst hxy; simp
        · simp [hxy]
      · have : ¬ (a :: x = b :: y) := by intro e; injection e with e1 _; exact hab e1
        have hb : (a == b) = false := by simp [hab]
        simp [this, hb]

theorem append_inj_iff' {α} (x y p q : List α) (h : x.length = y.length) :
    x ++ p = y ++ q ↔ x = y ∧ p = q :=
  ⟨fun e => List.append_inj e h, fun ⟨a, b⟩ => by rw [a, b]⟩

/-! ### fixed-width big-endian numbers -/

theorem be1_lt (a b : Nat) : bytesLt (be1 a) (be1 b) = decide (a % 256 < b % 256) := by
  simp [be1, bytesLt, UInt8.toNat_ofNat']

theorem be1_eq (a b : Nat) : be1 a = be1 b ↔ a % 256 = b % 256 := by
  simp [be1, ← UInt8.toNat_inj, UInt8.toNat_ofNat']

theorem be2_split (v : Nat) : be2 v = be1 (v / 256) ++ be1 v := rfl
theorem be4_split (v : Nat) : be4 v = be2 (v / 65536) ++ be2 v := by
  simp [be4, be2, Nat.div_div_eq_div_mul]
theorem be8_split (v : Nat) : be8 v = be4 (v / 4294967296) ++ be4 v := by
  simp [be8, be4, Nat.div_div_eq_div_mul]

theorem be2_eq (a b : Nat) : be2 a = be2 b ↔ a % 65536 = b % 65536 := by
  rw [be2_split, be2_split, append_inj_iff' _ _ _ _ (by simp), be1_eq, be1_eq]; omega

theorem be2_lt (a b : Nat) : bytesLt (be2 a) (be2 b) = decide (a % 65536 < b % 65536) := by
  rw [be2_split, be2_split, bytesLt_append_eqlen _ _ _ _ (by simp), be1_lt, be1_lt]
  simp only [be1_eq]
  rw [Bool.eq_iff_iff]
  split <;> simp <;> omega

theorem be4_eq (a b : Nat) : be4 a = be4 b ↔ a % 4294967296 = b % 4294967296 := by
  rw [be4_split, be4_split, append_inj_iff' _ _ _ _ (by simp), be2_eq, be2_eq]; omega

theorem be4_lt (a b : Nat) : bytesLt (be4 a) (be4 b) = decide (a % 4294967296 < b % 4294967296) := by
  rw [be4_split, be4_split, bytesLt_append_eqlen _ _ _ _ (by simp), be2_lt, be2_lt]
  simp only [be2_eq]
  rw [Bool.eq_iff_iff]
  split <;> simp <;> omega

theorem be8_eq (a b : Nat) : be8 a = be8 b ↔ a % 18446744073709551616 = b % 18446744073709551616 := by
  rw [be8_split, be8_split, append_inj_iff' _ _ _ _ (by simp), be4_eq, be4_eq]; omega

theorem be8_lt (a b : Nat) :
    bytesLt (be8 a) (be8 b) = decide (a % 18446744073709551616 < b % 18446744073709551616) := by
  rw [be8_split, be8_split, bytesLt_append_eqlen _ _ _ _ (by simp), be4_lt, be4_lt]
  simp only [be4_eq]
  rw [Bool.eq_iff_iff]
  split <;> simp <;> omega

/-! ### shortest-form TL numbers -/

/-- first byte of `write_tl_num v` -/
def tlHead (v : Nat) : Nat := if v ≤ 0xFC then v else if v ≤ 0xFFFF then 0xFD else if v ≤ 0xFFFFFFFF then 0xFE else 0xFF
/-- the bytes after the first -/
def tlBody (v : Nat) : Bytes := if v ≤ 0xFC then [] else if v ≤ 0xFFFF then be2 v else if v ≤ 0xFFFFFFFF then be4 v else be8 v

theorem writeTlNum_split (v : Nat) : writeTlNum v = UInt8.ofNat (tlHead v) :: tlBody v := by
  unfold writeTlNum tlHead tlBody
  split
  · rfl
  · split
    · rfl
    · split <;> rfl

theorem tlHead_lt (v : Nat) : tlHead v < 256 := by
  unfold tlHead; repeat' split
  all_goals omega

theorem tlHead_ne (a b : Nat) (h : tlHead a ≠ tlHead b) : (a < b ↔ tlHead a < tlHead b) ∧ a ≠ b := by
  unfold tlHead at *
  by_cases a1 : a ≤ 0xFC <;> by_cases a2 : a ≤ 0xFFFF <;> by_cases a3 : a ≤ 0xFFFFFFFF <;>
    by_cases b1 : b ≤ 0xFC <;> by_cases b2 : b ≤ 0xFFFF <;> by_cases b3 : b ≤ 0xFFFFFFFF <;>
    simp only [a1, a2, a3, b1, b2, b3, if_true, if_false] at h ⊢ <;>
    first
    | omega
    | (refine ⟨?_, ?_⟩ <;> first | trivial | omega | (constructor <;> intro <;> omega))

theorem tlBody_same (a b : Nat) (ha : a < 2^64) (hb : b < 2^64) (h : tlHead a = tlHead b) :
    (tlBody a).length = (tlBody b).length ∧ (tlBody a = tlBody b ↔ a = b) ∧
      (a ≠ b → bytesLt (tlBody a) (tlBody b) = decide (a < b)) := by
  unfold tlHead at h
  unfold tlBody
  by_cases a1 : a ≤ 0xFC <;> by_cases a2 : a ≤ 0xFFFF <;> by_cases a3 : a ≤ 0xFFFFFFFF <;>
    by_cases b1 : b ≤ 0xFC <;> by_cases b2 : b ≤ 0xFFFF <;> by_cases b3 : b ≤ 0xFFFFFFFF <;>
    simp only [a1, a2, a3, b1, b2, b3, if_true, if_false] at h ⊢ <;>
    first
    | omega
    | (refine ⟨by simp, ?_, ?_⟩
       · first
         | (rw [be2_eq]; omega)
         | (rw [be4_eq]; omega)
         | (rw [be8_eq]; omega)
         | (constructor <;> intro <;> first | rfl | trivial | omega)
       · intro hne
         first
         | (rw [be2_lt]; rw [Bool.eq_iff_iff]; simp; omega)
         | (rw [be4_lt]; rw [Bool.eq_iff_iff]; simp; omega)
         | (rw [be8_lt]; rw [Bool.eq_iff_iff]; simp; omega)
         | (exfalso; omega))

/-- **write_lex_mono**, in the form that composes: after two shortest-form numbers the comparison of
    what follows only matters when the numbers are equal; otherwise the numeric order decides. -/
theorem writeTlNum_lt_append (a b : Nat) (p q : Bytes) (ha : a < 2^64) (hb : b < 2^64) :
    bytesLt (writeTlNum a ++ p) (writeTlNum b ++ q) = if a = b then bytesLt p q else decide (a < b) := by
  rw [writeTlNum_split, writeTlNum_split]
  by_cases hh : tlHead a = tlHead b
  · obtain ⟨h1, h2, h3⟩ := tlBody_same a b ha hb hh
    rw [hh, List.cons_append, List.cons_append, bytesLt_cons_eq, bytesLt_append_eqlen _ _ _ _ h1]
    by_cases hab : a = b
    · simp [hab]
    · have : ¬ tlBody a = tlBody b := fun e => hab (h2.mp e)
      simp only [this, hab, if_false]
      exact h3 hab
  · obtain ⟨h1, h2⟩ := tlHead_ne a b hh
    have ta := tlHead_lt a
    have tb := tlHead_lt b
    simp only [h2, if_false, List.cons_append]
    by_cases hlt : tlHead a < tlHead b
    · rw [bytesLt_cons_lt _ _ _ _ (by simp [UInt8.toNat_ofNat']; omega)]
      simp [h1.mpr hlt]
    · rw [bytesLt_cons_gt _ _ _ _ (by simp [UInt8.toNat_ofNat']; omega)]
      have : ¬ a < b := fun h => hlt (h1.mp h)
      simp [this]

theorem write_lex_mono' (a b : Nat) (ha : a < 2^64) (hb : b < 2^64) :
    bytesLt (writeTlNum a) (writeTlNum b) = decide (a < b) := by
  have := writeTlNum_lt_append a b [] [] ha hb
  simp only [List.append_nil] at this
  rw [this]
  by_cases h : a = b
  · subst h; simp [bytesLt]
  · simp [h]

theorem writeTlNum_inj (a b : Nat) (ha : a < 2^64) (hb : b < 2^64) (h : writeTlNum a = writeTlNum b) : a = b := by
  have h1 := parse_write a [] ha
  have h2 := parse_write b [] hb
  rw [List.append_nil] at h1 h2
  rw [h, h2] at h1
  injection h1 with h1
  injection h1 with h1 _
  exact h1.symm

/-- comparison of two encoded components followed by anything -/
theorem tlv_lt_append (t1 t2 : Nat) (v1 v2 r1 r2 : Bytes) (ht1 : t1 < 2^64) (ht2 : t2 < 2^64)
    (hv1 : v1.length < 2^64) (hv2 : v2.length < 2^64) :
    bytesLt (tlv t1 v1 ++ r1) (tlv t2 v2 ++ r2) =
      if t1 = t2 then
        if v1.length = v2.length then (if v1 = v2 then bytesLt r1 r2 else bytesLt v1 v2)
        else decide (v1.length < v2.length)
      else decide (t1 < t2) := by
  unfold tlv
  simp only [List.append_assoc]
  rw [writeTlNum_lt_append _ _ _ _ ht1 ht2]
  by_cases ht : t1 = t2
  · simp only [ht, if_true]
    rw [writeTlNum_lt_append _ _ _ _ hv1 hv2]
    by_cases hl : v1.length = v2.length
    · simp only [hl, if_true]
      exact bytesLt_append_eqlen _ _ _ _ hl
    · simp only [hl, if_false]
  · simp only [ht, if_false]

theorem tlv_inj (t1 t2 : Nat) (v1 v2 : Bytes) (ht1 : t1 < 2^64) (ht2 : t2 < 2^64)
    (hv1 : v1.length < 2^64) (hv2 : v2.length < 2^64) (h : tlv t1 v1 = tlv t2 v2) : t1 = t2 ∧ v1 = v2 := by
  have h1 := parseComp_tlv t1 v1 ht1 hv1
  have h2 := parseComp_tlv t2 v2 ht2 hv2
  rw [h, h2] at h1
  injection h1 with h1
  injection h1 with h1 h3
  exact ⟨h1.symm, h3.symm⟩

end Ndn
