import NdnModel.Calendar
/-!
  Lemmas about the calendar model (`NdnModel/Calendar.lean`): ordinal <-> (year, month, day) round trips,
  `datetime + timedelta(seconds=n)`, `replace(year=…)`, `astimezone(UTC)`, calendar fields.
  Finite month tables are closed with `decide +kernel`, the year cycles with `omega`.
-/
namespace Ndn.Calendar

theorem daysBeforeMonthTbl_eq :
    daysBeforeMonthTbl = [0, 0, 31, 59, 90, 120, 151, 181, 212, 243, 273, 304, 334] := by decide

def yearLen (y : Nat) : Nat := if isLeap y then 366 else 365

theorem isLeap_iff (y : Nat) : isLeap y = true ↔ y % 4 = 0 ∧ (y % 100 ≠ 0 ∨ y % 400 = 0) := by
  simp [isLeap]

theorem succ_div4 (z : Nat) : (z + 1) / 4 = z / 4 + if (z + 1) % 4 = 0 then 1 else 0 := by split <;> omega
theorem succ_div100 (z : Nat) : (z + 1) / 100 = z / 100 + if (z + 1) % 100 = 0 then 1 else 0 := by split <;> omega
theorem succ_div400 (z : Nat) : (z + 1) / 400 = z / 400 + if (z + 1) % 400 = 0 then 1 else 0 := by split <;> omega
theorem mod100_mod4 (y : Nat) (h : y % 100 = 0) : y % 4 = 0 := by omega
theorem mod400_mod100 (y : Nat) (h : y % 400 = 0) : y % 100 = 0 := by omega

theorem daysBeforeYear_succ (y : Nat) (h : 1 ≤ y) : daysBeforeYear (y + 1) = daysBeforeYear y + yearLen y := by
  obtain ⟨z, rfl⟩ : ∃ z, y = z + 1 := ⟨y - 1, by omega⟩
  have hB : z / 100 ≤ z := Nat.div_le_self _ _
  have h1 := mod100_mod4 (z + 1)
  have h2 := mod400_mod100 (z + 1)
  unfold yearLen daysBeforeYear
  simp only [Nat.add_sub_cancel, isLeap_iff, succ_div4, succ_div100, succ_div400]
  generalize z / 4 = A at *
  generalize z / 100 = B at *
  generalize z / 400 = C at *
  by_cases c4 : (z + 1) % 4 = 0 <;> by_cases c100 : (z + 1) % 100 = 0 <;> by_cases c400 : (z + 1) % 400 = 0 <;>
    simp only [c4, c100, c400, if_true, if_false, true_and, false_and, not_true, not_false_iff, or_true, or_false,
      ne_eq, forall_const, imp_false] at * <;> omega

theorem yearLen_pos (y : Nat) : 365 ≤ yearLen y := by unfold yearLen; split <;> omega

/-- a later year starts after the whole of an earlier one -/
theorem daysBeforeYear_lt (y k : Nat) (h : 1 ≤ y) : daysBeforeYear y + yearLen y ≤ daysBeforeYear (y + 1 + k) := by
  induction k with
  | zero => rw [daysBeforeYear_succ y h]; exact Nat.le_refl _
  | succ k ih =>
    have := daysBeforeYear_succ (y + 1 + k) (by omega)
    have := yearLen_pos (y + 1 + k)
    rw [show y + 1 + (k + 1) = y + 1 + k + 1 by omega]; omega


/-! ### the month tables -/

/-- `_days_in_month` / `_days_before_month` as functions of the leap flag -/
def dimL (l : Bool) (m : Nat) : Nat := if m == 2 && l then 29 else daysInMonthTbl.getD m 0
def dbmL (l : Bool) (m : Nat) : Nat := daysBeforeMonthTbl.getD m 0 + (if decide (m > 2) && l then 1 else 0)

theorem daysInMonth_eq (y m : Nat) : daysInMonth y m = dimL (isLeap y) m := rfl
theorem daysBeforeMonth_eq (y m : Nat) : daysBeforeMonth y m = dbmL (isLeap y) m := rfl

/-- finite table: `splitMonth` is right for each of the 365 / 366 days of a year -/
theorem splitMonth_sound_tbl : ∀ l : Bool, ∀ n, n < 366 → (n < 365 ∨ l = true) →
    1 ≤ (splitMonth l n).1 ∧ (splitMonth l n).1 ≤ 12 ∧ 1 ≤ (splitMonth l n).2 ∧
      (splitMonth l n).2 ≤ dimL l (splitMonth l n).1 ∧ dbmL l (splitMonth l n).1 + (splitMonth l n).2 = n + 1 := by
  decide +kernel

/-- finite table: every valid (month, day) is found again from its day of the year, which lies in the year -/
theorem splitMonth_complete_tbl : ∀ l : Bool, ∀ m, m < 13 → ∀ d, d < 32 → (1 ≤ m ∧ 1 ≤ d ∧ d ≤ dimL l m) →
    (splitMonth l (dbmL l m + d - 1) = (m, d) ∧ dbmL l m + d ≤ (if l then 366 else 365)) := by
  decide +kernel

theorem dimL_le_tbl : ∀ l : Bool, ∀ m, m < 13 → dimL l m ≤ 31 := by decide +kernel

/-- `_days_before_year` of year `400a + 100b + 4c + e + 1` with `b < 4`, `c < 25`, `e < 4` -/
theorem daysBeforeYear_digits (a b c e : Nat) (hb : b < 4) (hc : c < 25) (he : e < 4) :
    daysBeforeYear (400 * a + 100 * b + 4 * c + e + 1) = 146097 * a + 36524 * b + 1461 * c + 365 * e := by
  unfold daysBeforeYear
  simp only [Nat.add_sub_cancel]
  have h4 : (400 * a + 100 * b + 4 * c + e) / 4 = 100 * a + 25 * b + c := by omega
  have h100 : (400 * a + 100 * b + 4 * c + e) / 100 = 4 * a + b := by omega
  have h400 : (400 * a + 100 * b + 4 * c + e) / 400 = a := by omega
  rw [h4, h100, h400]; omega

theorem isLeap_digits (a b c e : Nat) (hb : b < 4) (hc : c < 25) (he : e < 4) :
    isLeap (400 * a + 100 * b + 4 * c + e + 1) = (e == 3 && (c != 24 || b == 3)) := by
  rw [Bool.eq_iff_iff, isLeap_iff]; simp; omega

/-- the quantities `_ord2ymd` computes from the 0-based day number `n` before the month split -/
def cycB (n : Nat) : Nat := n % 146097 / 36524
def cycC (n : Nat) : Nat := n % 146097 % 36524 / 1461
def cycE (n : Nat) : Nat := n % 146097 % 36524 % 1461 / 365
def cycK (n : Nat) : Nat := n % 146097 % 36524 % 1461 % 365
def cycYear (n : Nat) : Nat := n / 146097 * 400 + 1 + (cycB n * 100 + cycC n * 4 + cycE n)
def cycLeap (n : Nat) : Bool := cycE n == 3 && (cycC n != 24 || cycB n == 3)

theorem ord2ymd_eq (ord : Nat) :
    ord2ymd ord = if (cycE (ord - 1) == 4 || cycB (ord - 1) == 4) = true then (cycYear (ord - 1) - 1, 12, 31)
      else (cycYear (ord - 1), (splitMonth (cycLeap (ord - 1)) (cycK (ord - 1))).1,
        (splitMonth (cycLeap (ord - 1)) (cycK (ord - 1))).2) := rfl

/-- the year part of `_ord2ymd`, for the 0-based day number `n`: either the last day of a leap year (the two
    early-exit tests) or a year, its leap flag and a day of that year -/
theorem ord2ymd_year_sound (n : Nat) :
    ((cycE n = 4 ∨ cycB n = 4) →
      isLeap (cycYear n - 1) = true ∧ 2 ≤ cycYear n ∧ daysBeforeYear (cycYear n - 1) + 365 = n) ∧
    (¬ (cycE n = 4 ∨ cycB n = 4) →
      isLeap (cycYear n) = cycLeap n ∧ daysBeforeYear (cycYear n) + cycK n = n ∧ cycK n < 365) := by
  unfold cycLeap cycYear
  generalize hb' : cycB n = b
  generalize hc' : cycC n = c
  generalize he' : cycE n = e
  generalize hk' : cycK n = k
  unfold cycB at hb'; unfold cycC at hc'; unfold cycE at he'; unfold cycK at hk'
  generalize hyear : n / 146097 * 400 + 1 + (b * 100 + c * 4 + e) = year
  have hn : n = 146097 * (n / 146097) + 36524 * b + 1461 * c + 365 * e + k := by omega
  have hb : b ≤ 4 := by omega
  have hc : c ≤ 24 := by omega
  have he : e ≤ 4 := by omega
  have hk : k < 365 := by omega
  have hb4 : b = 4 → c = 0 ∧ e = 0 ∧ k = 0 := by omega
  have he4 : e = 4 → k = 0 ∧ (c < 24 ∨ b = 3) := by omega
  generalize n / 146097 = a at *
  refine ⟨fun h => ?_, fun h => ?_⟩
  · rcases h with h | h
    · -- 31 December of a leap year that is not at the end of a century (or of a 400-year cycle end)
      obtain ⟨hk0, hcb⟩ := he4 h
      have hy : year - 1 = 400 * a + 100 * b + 4 * c + 3 + 1 := by omega
      have hb3 : b < 4 := by omega
      rw [hy, isLeap_digits a b c 3 hb3 (by omega) (by omega),
        daysBeforeYear_digits a b c 3 hb3 (by omega) (by omega)]
      refine ⟨?_, by omega, by omega⟩
      simp; omega
    · obtain ⟨hc0, he0, hk0⟩ := hb4 h
      have hy : year - 1 = 400 * a + 100 * 3 + 4 * 24 + 3 + 1 := by omega
      rw [hy, isLeap_digits a 3 24 3 (by omega) (by omega) (by omega),
        daysBeforeYear_digits a 3 24 3 (by omega) (by omega) (by omega)]
      refine ⟨by decide, by omega, by omega⟩
  · have hy : year = 400 * a + 100 * b + 4 * c + e + 1 := by omega
    rw [hy, isLeap_digits a b c e (by omega) (by omega) (by omega),
      daysBeforeYear_digits a b c e (by omega) (by omega) (by omega)]
    exact ⟨rfl, by omega⟩

/-- a date with a month in 1..12 and a day in 1..days-in-month (the year unbounded above) -/
def validYmd (y m d : Nat) : Prop := 1 ≤ y ∧ 1 ≤ m ∧ m ≤ 12 ∧ 1 ≤ d ∧ d ≤ daysInMonth y m

/-- `_ord2ymd` returns a valid date whose ordinal is the argument (every ordinal ≥ 1). -/
theorem ord2ymd_sound (ord : Nat) (h : 1 ≤ ord) :
    validYmd (ord2ymd ord).1 (ord2ymd ord).2.1 (ord2ymd ord).2.2 ∧
      ymd2ord (ord2ymd ord).1 (ord2ymd ord).2.1 (ord2ymd ord).2.2 = ord := by
  obtain ⟨hs, hn⟩ := ord2ymd_year_sound (ord - 1)
  rw [ord2ymd_eq]
  split
  · rename_i hsp
    obtain ⟨hl, hy, hd⟩ := hs (by simpa using hsp)
    simp only [validYmd, ymd2ord, daysInMonth_eq, daysBeforeMonth_eq, hl]
    refine ⟨⟨by omega, by omega, by omega, by omega, by decide⟩, ?_⟩
    have : dbmL true 12 = 335 := by decide
    omega
  · rename_i hsp
    obtain ⟨hl, hd, hk⟩ := hn (by simpa using hsp)
    rw [← hl]
    obtain ⟨m1, m12, d1, dle, hsum⟩ := splitMonth_sound_tbl (isLeap (cycYear (ord - 1))) _ (by omega) (Or.inl hk)
    simp only [validYmd, ymd2ord, daysInMonth_eq, daysBeforeMonth_eq]
    have hy1 : 1 ≤ cycYear (ord - 1) := by unfold cycYear; omega
    exact ⟨⟨hy1, m1, m12, d1, dle⟩, by omega⟩

theorem validYmd_doy (y m d : Nat) (h : validYmd y m d) :
    splitMonth (isLeap y) (daysBeforeMonth y m + d - 1) = (m, d) ∧ daysBeforeMonth y m + d ≤ yearLen y := by
  obtain ⟨_, m1, m12, d1, dle⟩ := h
  rw [daysInMonth_eq] at dle
  have := dimL_le_tbl (isLeap y) m (by omega)
  have := splitMonth_complete_tbl (isLeap y) m (by omega) d (by omega) ⟨m1, d1, dle⟩
  rw [daysBeforeMonth_eq, yearLen]
  exact this

/-- `_ymd2ord` is injective on valid dates -/
theorem ymd2ord_inj (y m d y' m' d' : Nat) (h : validYmd y m d) (h' : validYmd y' m' d')
    (e : ymd2ord y m d = ymd2ord y' m' d') : y = y' ∧ m = m' ∧ d = d' := by
  obtain ⟨s1, l1⟩ := validYmd_doy y m d h
  obtain ⟨s2, l2⟩ := validYmd_doy y' m' d' h'
  unfold ymd2ord at e
  have hy : y = y' := by
    rcases Nat.lt_trichotomy y y' with hlt | heq | hgt
    · have := daysBeforeYear_lt y (y' - y - 1) h.1
      rw [show y + 1 + (y' - y - 1) = y' by omega] at this
      have := h'.2.2.2.1; omega
    · exact heq
    · have := daysBeforeYear_lt y' (y - y' - 1) h'.1
      rw [show y' + 1 + (y - y' - 1) = y by omega] at this
      have := h.2.2.2.1; omega
  subst hy
  have : daysBeforeMonth y m + d - 1 = daysBeforeMonth y m' + d' - 1 := by omega
  rw [this, s2] at s1
  simp only [Prod.mk.injEq] at s1
  exact ⟨rfl, s1.1.symm, s1.2.symm⟩

/-- **ord_ymd_roundtrip (1)**: `date.fromordinal(date(y, m, d).toordinal()) == date(y, m, d)` -/
theorem ord2ymd_ymd2ord (y m d : Nat) (h : validYmd y m d) : ord2ymd (ymd2ord y m d) = (y, m, d) := by
  have h1 : 1 ≤ ymd2ord y m d := by unfold ymd2ord; have := h.2.2.2.1; omega
  obtain ⟨hv, he⟩ := ord2ymd_sound _ h1
  obtain ⟨e1, e2, e3⟩ := ymd2ord_inj _ _ _ _ _ _ hv h he
  exact Prod.ext e1 (Prod.ext e2 e3)

/-- the ordinals of the years 1..9999 are 1..`_MAXORDINAL` -/
theorem ymd2ord_le_max (y m d : Nat) (h : validYmd y m d) (hy : y ≤ 9999) : ymd2ord y m d ≤ maxOrdinal := by
  obtain ⟨_, l1⟩ := validYmd_doy y m d h
  have h1 := daysBeforeYear_lt y (9999 - y) h.1
  rw [show y + 1 + (9999 - y) = 10000 by omega] at h1
  have : daysBeforeYear 10000 = 3652059 := by decide
  unfold ymd2ord maxOrdinal; omega

theorem ord2ymd_year_le (ord : Nat) (h : 1 ≤ ord) (hm : ord ≤ maxOrdinal) : (ord2ymd ord).1 ≤ 9999 := by
  obtain ⟨hv, he⟩ := ord2ymd_sound ord h
  rcases Nat.lt_or_ge 9999 (ord2ymd ord).1 with hgt | hle
  · have h1 := daysBeforeYear_lt 9999 ((ord2ymd ord).1 - 10000) (by omega)
    rw [show 9999 + 1 + ((ord2ymd ord).1 - 10000) = (ord2ymd ord).1 by omega] at h1
    have : daysBeforeYear 9999 + yearLen 9999 = 3652059 := by decide
    have := hv.2.2.2.1
    unfold ymd2ord at he; unfold maxOrdinal at hm; omega
  · exact hle



theorem Instant.ext' {a b : Instant} (h1 : a.ord = b.ord) (h2 : a.sec = b.sec) (h3 : a.us = b.us) : a = b := by
  cases a; cases b; simp_all

/-- **addSeconds_spec (success).** `dt + timedelta(seconds=n)` succeeds with `t'` iff `t'` is the valid instant
    exactly `n` seconds later (ordinal * 86400 + second arithmetic), with the same microsecond. -/
theorem addSeconds_ok_iff (t t' : Instant) (n : Int) (ht : t.valid) :
    addSeconds t n = .ok t' ↔ t'.valid ∧ t'.abs = t.abs + n ∧ t'.us = t.us := by
  obtain ⟨h1, h2, h3, h4⟩ := ht
  unfold addSeconds Instant.valid Instant.abs maxOrdinal at *
  simp only
  by_cases hnd : n / 86400 < -999999999 ∨ n / 86400 > 999999999
  · rw [if_pos hnd]
    constructor
    · intro h; cases h
    · rintro ⟨⟨a1, a2, a3, a4⟩, hab, _⟩; omega
  · rw [if_neg hnd]
    by_cases hc : (t.sec : Int) + n % 86400 ≥ 86400
    · simp only [hc, if_true]
      split
      · simp only [Except.ok.injEq]
        constructor
        · rintro rfl; dsimp only; refine ⟨⟨?_, ?_, ?_, ?_⟩, ?_, ?_⟩ <;> first | omega | exact trivial
        · rintro ⟨⟨a1, a2, a3, a4⟩, hab, hus⟩; apply Instant.ext' <;> dsimp only <;> omega
      · constructor
        · intro h; cases h
        · rintro ⟨⟨a1, a2, a3, a4⟩, hab, _⟩; omega
    · simp only [hc, if_false]
      split
      · simp only [Except.ok.injEq]
        constructor
        · rintro rfl; dsimp only; refine ⟨⟨?_, ?_, ?_, ?_⟩, ?_, ?_⟩ <;> first | omega | exact trivial
        · rintro ⟨⟨a1, a2, a3, a4⟩, hab, hus⟩; apply Instant.ext' <;> dsimp only <;> omega
      · constructor
        · intro h; cases h
        · rintro ⟨⟨a1, a2, a3, a4⟩, hab, _⟩; omega

theorem ite_ok_error {α ε : Type} {c : Prop} [Decidable c] {a : α} {x e : ε}
    (h : (if c then Except.ok a else Except.error x) = Except.error e) : e = x := by
  split at h
  · cases h
  · cases h; rfl

/-- the only error of `addSeconds` is `OverflowError` -/
theorem addSeconds_error (t : Instant) (n : Int) (e : PyErr) (h : addSeconds t n = .error e) : e = .overflowError := by
  unfold addSeconds at h
  simp only at h
  by_cases hnd : n / 86400 < -999999999 ∨ n / 86400 > 999999999
  · rw [if_pos hnd] at h; cases h; rfl
  · rw [if_neg hnd] at h; exact ite_ok_error h

/-- **addSeconds_spec (failure).** `OverflowError` exactly when the instant `n` seconds later lies before
    0001-01-01T00:00:00 or after 9999-12-31T23:59:59. -/
theorem addSeconds_error_iff (t : Instant) (n : Int) (ht : t.valid) :
    addSeconds t n = .error .overflowError ↔ (t.abs + n < 86400 ∨ (maxOrdinal + 1) * 86400 ≤ t.abs + n) := by
  constructor
  · intro h
    rcases Int.lt_or_le (t.abs + n) 86400 with h1 | h1
    · exact Or.inl h1
    · rcases Int.lt_or_le (t.abs + n) ((maxOrdinal + 1) * 86400) with h2 | h2
      · exfalso
        -- the instant n seconds later is valid, so the sum succeeds
        have hv : addSeconds t n = .ok { ord := ((t.abs + n) / 86400).toNat, sec := ((t.abs + n) % 86400).toNat, us := t.us } := by
          rw [addSeconds_ok_iff t _ n ht]
          unfold Instant.valid Instant.abs maxOrdinal at *
          dsimp only; refine ⟨⟨?_, ?_, ?_, ?_⟩, ?_, ?_⟩ <;> first | omega | rfl
        rw [hv] at h; cases h
      · exact Or.inr h2
  · intro h
    cases hr : addSeconds t n with
    | error e => rw [addSeconds_error t n e hr]
    | ok t' =>
      exfalso
      obtain ⟨⟨a1, a2, a3, a4⟩, hab, _⟩ := (addSeconds_ok_iff t t' n ht).1 hr
      unfold Instant.abs maxOrdinal at *
      omega

theorem addSeconds_zero (t : Instant) (ht : t.valid) : addSeconds t 0 = .ok t := by
  rw [addSeconds_ok_iff t t 0 ht]; exact ⟨ht, by omega, rfl⟩

/-- seconds since ordinal 0 of the UTC reading: a naive datetime is taken as UTC, an aware one is `o` seconds
    ahead of UTC -/
def utcAbs (t : Instant) : Option Int → Int
  | none => t.abs
  | some o => t.abs - o

/-- **toUtc_spec.** `astimezone(UTC)` succeeds with `u` iff `u` is the valid instant with the same microsecond that
    designates the same moment. -/
theorem toUtc_ok_iff (t u : Instant) (off : Option Int) (ht : t.valid) :
    toUtc t off = .ok u ↔ u.valid ∧ u.abs = utcAbs t off ∧ u.us = t.us := by
  cases off with
  | none =>
    simp only [toUtc, utcAbs, Except.ok.injEq]
    constructor
    · rintro rfl; exact ⟨ht, rfl, rfl⟩
    · rintro ⟨hv, ha, hu⟩
      obtain ⟨_, _, _, _⟩ := hv; obtain ⟨_, _, _, _⟩ := ht
      unfold Instant.abs at ha
      apply Instant.ext' <;> omega
  | some o =>
    simp only [toUtc, utcAbs, bind, Except.bind]
    cases h1 : addSeconds t (-o) with
    | error e =>
      simp only
      constructor
      · intro h; cases h
      · rintro ⟨hv, ha, hu⟩
        have := (addSeconds_ok_iff t u (-o) ht).2 ⟨hv, by omega, hu⟩
        rw [this] at h1; cases h1
    | ok w =>
      obtain ⟨hw, hwa, hwu⟩ := (addSeconds_ok_iff t w _ ht).1 h1
      simp only [addSeconds_zero w hw, Except.ok.injEq]
      constructor
      · rintro rfl; exact ⟨hw, by omega, hwu⟩
      · rintro ⟨hv, ha, hu⟩
        obtain ⟨_, _, _, _⟩ := hv; obtain ⟨_, _, _, _⟩ := hw
        unfold Instant.abs at ha hwa
        apply Instant.ext' <;> omega

theorem toUtc_error (t : Instant) (off : Option Int) (ht : t.valid) (e : PyErr) (h : toUtc t off = .error e) :
    e = .overflowError := by
  cases off with
  | none => cases h
  | some o =>
    simp only [toUtc, bind, Except.bind] at h
    cases h1 : addSeconds t (-o) with
    | error e' => rw [h1] at h; cases h; exact addSeconds_error _ _ _ h1
    | ok w =>
      rw [h1] at h
      simp only [addSeconds_zero w ((addSeconds_ok_iff t w _ ht).1 h1).1] at h
      cases h

/-- the moments a `datetime` can designate (seconds since ordinal 0): 0001-01-01T00:00:00 .. 9999-12-31T23:59:59 -/
def representable (a : Int) : Prop := 86400 ≤ a ∧ a < (maxOrdinal + 1) * 86400

theorem valid_representable (t : Instant) (ht : t.valid) : representable t.abs := by
  obtain ⟨a1, a2, a3, a4⟩ := ht
  unfold representable Instant.abs maxOrdinal at *; omega

/-- **toUtc_spec (failure).** `astimezone(UTC)` raises exactly when the moment designated lies outside the years
    1..9999, and then `OverflowError`. -/
theorem toUtc_error_iff (t : Instant) (off : Option Int) (ht : t.valid) (e : PyErr) :
    toUtc t off = .error e ↔ e = .overflowError ∧ ¬ representable (utcAbs t off) := by
  constructor
  · intro h
    have he := toUtc_error t off ht e h
    refine ⟨he, fun hr => ?_⟩
    subst he
    cases off with
    | none => cases h
    | some o =>
      simp only [toUtc, bind, Except.bind] at h
      cases h1 : addSeconds t (-o) with
      | error e' =>
        have := addSeconds_error _ _ _ h1
        subst this
        have := (addSeconds_error_iff t (-o) ht).1 h1
        simp only [representable, utcAbs] at hr; unfold maxOrdinal at *; omega
      | ok w =>
        rw [h1] at h
        simp only [addSeconds_zero w ((addSeconds_ok_iff t w _ ht).1 h1).1] at h
        cases h
  · rintro ⟨rfl, hr⟩
    cases h : toUtc t off with
    | error e' => rw [toUtc_error t off ht e' h]
    | ok u =>
      exfalso
      obtain ⟨hv, ha, _⟩ := (toUtc_ok_iff t u off ht).1 h
      exact hr (ha ▸ valid_representable u hv)

/-- a naive reading and a reading in UTC (offset 0) are their own UTC reading -/
theorem toUtc_id (t : Instant) (ht : t.valid) (off : Option Int) (ho : off = none ∨ off = some 0) : toUtc t off = .ok t := by
  rw [toUtc_ok_iff t t off ht]
  refine ⟨ht, ?_, rfl⟩
  rcases ho with rfl | rfl <;> simp [utcAbs]

/-! ### `replace(year=…)` -/

/-- finite table: a valid day of a month exists in the same month of another year unless it is 29 February and
    the other year is not leap -/
theorem day_in_leap_year_tbl : ∀ l : Bool, ∀ m, m < 13 → ∀ d, d < 32 → (1 ≤ m ∧ 1 ≤ d ∧ d ≤ dimL l m) →
    d ≤ dimL true m := by
  decide +kernel

theorem day_in_common_year_tbl : ∀ l : Bool, ∀ m, m < 13 → ∀ d, d < 32 → (1 ≤ m ∧ 1 ≤ d ∧ d ≤ dimL l m) →
    (d ≤ dimL false m ↔ ¬ (m = 2 ∧ d = 29)) := by
  decide +kernel

theorem day_in_other_year_tbl (l l' : Bool) (m : Nat) (hm : m < 13) (d : Nat) (hd : d < 32)
    (h : 1 ≤ m ∧ 1 ≤ d ∧ d ≤ dimL l m) : d ≤ dimL l' m ↔ ¬ (m = 2 ∧ d = 29 ∧ l' = false) := by
  cases l' with
  | true => simpa using day_in_leap_year_tbl l m hm d hd h
  | false => simpa using day_in_common_year_tbl l m hm d hd h

theorem validDate_iff (y m d : Nat) : validDate y m d ↔ validYmd y m d ∧ y ≤ 9999 := by
  unfold validDate validYmd; omega

theorem valid_ord2ymd (t : Instant) (ht : t.valid) :
    validYmd (ord2ymd t.ord).1 (ord2ymd t.ord).2.1 (ord2ymd t.ord).2.2 ∧ (ord2ymd t.ord).1 ≤ 9999 :=
  ⟨(ord2ymd_sound t.ord ht.1).1, ord2ymd_year_le t.ord ht.1 ht.2.1⟩

/-- when `replace(year=year+k)` is accepted: the target year is at most 9999 and the day exists there -/
theorem replace_year_valid_iff (y m d k : Nat) (h : validYmd y m d) :
    validDate (y + k) m d ↔ y + k ≤ 9999 ∧ ¬ (m = 2 ∧ d = 29 ∧ isLeap (y + k) = false) := by
  obtain ⟨y1, m1, m12, d1, dle⟩ := h
  rw [daysInMonth_eq] at dle
  have hd := dimL_le_tbl (isLeap y) m (by omega)
  have := day_in_other_year_tbl (isLeap y) (isLeap (y + k)) m (by omega) d (by omega) ⟨m1, d1, dle⟩
  unfold validDate
  rw [daysInMonth_eq]
  constructor
  · rintro ⟨_, h2, _, _, _, h6⟩; exact ⟨h2, this.1 h6⟩
  · rintro ⟨h2, h3⟩; exact ⟨by omega, h2, m1, m12, d1, this.2 h3⟩

/-- **addYears_spec (success).** `dt.replace(year=dt.year+k)` succeeds exactly when the year stays ≤ 9999 and
    the date is not 29 February moved into a common year; the result has the same month, day, time of day and
    microsecond in the year `year + k`. -/
theorem addYears_ok_iff (t t' : Instant) (k : Nat) (ht : t.valid) :
    addYears t k = .ok t' ↔
      ((ord2ymd t.ord).1 + k ≤ 9999 ∧
        ¬ ((ord2ymd t.ord).2.1 = 2 ∧ (ord2ymd t.ord).2.2 = 29 ∧ isLeap ((ord2ymd t.ord).1 + k) = false)) ∧
      t'.valid ∧ ord2ymd t'.ord = ((ord2ymd t.ord).1 + k, (ord2ymd t.ord).2.1, (ord2ymd t.ord).2.2) ∧
      t'.sec = t.sec ∧ t'.us = t.us := by
  obtain ⟨hv, hy⟩ := valid_ord2ymd t ht
  have hiff := replace_year_valid_iff _ _ _ k hv
  unfold addYears mkDate
  simp only
  by_cases hd : validDate ((ord2ymd t.ord).1 + k) (ord2ymd t.ord).2.1 (ord2ymd t.ord).2.2
  · rw [if_pos hd]
    obtain ⟨hv', hy'⟩ := (validDate_iff _ _ _).1 hd
    have hrt := ord2ymd_ymd2ord _ _ _ hv'
    have hle := ymd2ord_le_max _ _ _ hv' hy'
    have hge : 1 ≤ ymd2ord ((ord2ymd t.ord).1 + k) (ord2ymd t.ord).2.1 (ord2ymd t.ord).2.2 := by
      unfold ymd2ord; have := hv'.2.2.2.1; omega
    simp only [Except.ok.injEq]
    constructor
    · rintro rfl; exact ⟨hiff.1 hd, ⟨hge, hle, ht.2.2.1, ht.2.2.2⟩, hrt, rfl, rfl⟩
    · rintro ⟨_, hv2, ho, hs, hu⟩
      have := (ord2ymd_sound t'.ord hv2.1).2
      rw [ho] at this
      exact Instant.ext' this hs.symm hu.symm
  · rw [if_neg hd]
    constructor
    · intro h; cases h
    · rintro ⟨h1, _⟩; exact absurd (hiff.2 h1) hd

/-- **addYears_spec (failure).** the precise error case: `ValueError` iff the year would exceed 9999 or the date is
    29 February and the target year is not a leap year -/
theorem addYears_error_iff (t : Instant) (k : Nat) (e : PyErr) (ht : t.valid) :
    addYears t k = .error e ↔ e = .valueError ∧
      (9999 < (ord2ymd t.ord).1 + k ∨
        ((ord2ymd t.ord).2.1 = 2 ∧ (ord2ymd t.ord).2.2 = 29 ∧ isLeap ((ord2ymd t.ord).1 + k) = false)) := by
  obtain ⟨hv, hy⟩ := valid_ord2ymd t ht
  have hiff := replace_year_valid_iff _ _ _ k hv
  unfold addYears mkDate
  simp only
  by_cases hd : validDate ((ord2ymd t.ord).1 + k) (ord2ymd t.ord).2.1 (ord2ymd t.ord).2.2
  · rw [if_pos hd]
    constructor
    · intro h; cases h
    · rintro ⟨_, h⟩
      have := hiff.1 hd
      rcases h with h | h
      · omega
      · exact absurd h this.2
  · rw [if_neg hd]
    simp only [Except.error.injEq]
    constructor
    · rintro rfl
      refine ⟨rfl, ?_⟩
      by_cases h9 : 9999 < (ord2ymd t.ord).1 + k
      · exact Or.inl h9
      · right
        apply Classical.byContradiction
        intro hn
        exact hd (hiff.2 ⟨by omega, hn⟩)
    · rintro ⟨rfl, _⟩; rfl

/-! ### calendar fields of an instant -/

/-- **ord_ymd_roundtrip (2)**: `date.fromordinal(n).toordinal() == n` for every ordinal ≥ 1 -/
theorem ymd2ord_ord2ymd (n : Nat) (h : 1 ≤ n) : ymd2ord (ord2ymd n).1 (ord2ymd n).2.1 (ord2ymd n).2.2 = n :=
  (ord2ymd_sound n h).2

theorem ord2ymd_inj (a b : Nat) (ha : 1 ≤ a) (hb : 1 ≤ b) (e : ord2ymd a = ord2ymd b) : a = b := by
  rw [← ymd2ord_ord2ymd a ha, ← ymd2ord_ord2ymd b hb, e]

/-- the fields of a valid instant are in the ranges of a `datetime` -/
theorem fields_range (t : Instant) (ht : t.valid) :
    1 ≤ (fields t).1 ∧ (fields t).1 ≤ 9999 ∧ 1 ≤ (fields t).2.1 ∧ (fields t).2.1 ≤ 12 ∧
    1 ≤ (fields t).2.2.1 ∧ (fields t).2.2.1 ≤ 31 ∧ (fields t).2.2.2.1 < 24 ∧ (fields t).2.2.2.2.1 < 60 ∧
    (fields t).2.2.2.2.2 < 60 := by
  obtain ⟨⟨y1, m1, m12, d1, dle⟩, y9⟩ := valid_ord2ymd t ht
  rw [daysInMonth_eq] at dle
  have := dimL_le_tbl (isLeap (ord2ymd t.ord).1) (ord2ymd t.ord).2.1 (by omega)
  have := ht.2.2.1
  unfold fields
  dsimp only
  refine ⟨y1, y9, m1, m12, d1, by omega, by omega, by omega, by omega⟩

/-- the calendar fields determine the instant up to its microsecond -/
theorem fields_inj (s t : Instant) (hs : s.valid) (ht : t.valid) (e : fields s = fields t) :
    s.ord = t.ord ∧ s.sec = t.sec := by
  unfold fields at e
  simp only [Prod.mk.injEq] at e
  obtain ⟨e1, e2, e3, e4, e5, e6⟩ := e
  have := hs.2.2.1; have := ht.2.2.1
  exact ⟨ord2ymd_inj _ _ hs.1 ht.1 (Prod.ext e1 (Prod.ext e2 e3)), by omega⟩

/-- the ordinals of the years 1000..9999 (the domain where glibc's `%Y` prints four digits) -/
theorem year_ge_1000_iff (n : Nat) (h : 1 ≤ n) : 1000 ≤ (ord2ymd n).1 ↔ 364878 ≤ n := by
  obtain ⟨hv, he⟩ := ord2ymd_sound n h
  obtain ⟨_, l1⟩ := validYmd_doy _ _ _ hv
  have h1000 : daysBeforeYear 1000 = 364877 := by decide
  unfold ymd2ord at he
  have hd1 := hv.2.2.2.1
  constructor
  · intro hy
    rcases Nat.eq_or_lt_of_le hy with heq | hlt
    · rw [← heq] at he; omega
    · have := daysBeforeYear_lt 1000 ((ord2ymd n).1 - 1001) (by omega)
      rw [show 1000 + 1 + ((ord2ymd n).1 - 1001) = (ord2ymd n).1 by omega] at this
      have := yearLen_pos 1000
      omega
  · intro hn
    apply Classical.byContradiction
    intro hlt
    have := daysBeforeYear_lt (ord2ymd n).1 (999 - (ord2ymd n).1) hv.1
    rw [show (ord2ymd n).1 + 1 + (999 - (ord2ymd n).1) = 1000 by omega] at this
    omega

end Ndn.Calendar
