import NdnModel.NfdMgmt
/-! Helper lemmas about the prefix-registration model (`Ndn.NfdMgmt`). -/
namespace Ndn.NfdMgmt

/-! ### trace vocabulary -/

/-- signed timestamps of the commands in a trace, in order of emission -/
def tsOf : List Out → List Nat
  | [] => []
  | .cmd _ ts :: t => ts :: tsOf t
  | _ :: t => tsOf t

/-- prefixes of the commands issued for routes (by `starting_task`), in order of emission -/
def autoCmds : List Out → List Nat
  | [] => []
  | .cmd r _ :: t => if r.auto then r.pfx :: autoCmds t else autoCmds t
  | _ :: t => autoCmds t

def countCmd : List Out → Nat
  | [] => 0
  | .cmd _ _ :: t => countCmd t + 1
  | _ :: t => countCmd t

/-- Trace discipline "one at a time": commands and returns alternate and every return belongs to the
    command that is in flight.  `alt cur t = some cur'`: starting with `cur` in flight the trace is
    well-formed and ends with `cur'` in flight. -/
def alt : Option Req → List Out → Option (Option Req)
  | cur, [] => some cur
  | none, .cmd r _ :: t => alt (some r) t
  | some r, .ret r' _ :: t => if r' = r then alt none t else none
  | cur, .connected :: t => alt cur t
  | cur, .unmodelled :: t => alt cur t
  | _, _ => none

theorem tsOf_append (a b : List Out) : tsOf (a ++ b) = tsOf a ++ tsOf b := by
  induction a with
  | nil => rfl
  | cons x t ih => cases x <;> simp [tsOf, ih]

theorem autoCmds_append (a b : List Out) : autoCmds (a ++ b) = autoCmds a ++ autoCmds b := by
  induction a with
  | nil => rfl
  | cons x t ih =>
    cases x with
    | cmd r ts => by_cases h : r.auto <;> simp [autoCmds, h, ih]
    | ret r res => simp [autoCmds, ih]
    | connected => simp [autoCmds, ih]
    | unmodelled => simp [autoCmds, ih]

theorem countCmd_append (a b : List Out) : countCmd (a ++ b) = countCmd a + countCmd b := by
  induction a with
  | nil => simp [countCmd]
  | cons x t ih => cases x <;> simp [countCmd, ih] <;> omega

theorem alt_append (cur : Option Req) (a b : List Out) :
    alt cur (a ++ b) = (alt cur a).bind fun c => alt c b := by
  induction a generalizing cur with
  | nil => simp [alt]
  | cons x t ih =>
    cases x with
    | cmd r ts => cases cur <;> simp [alt, ih]
    | ret r res =>
      cases cur with
      | none => simp [alt]
      | some r0 => by_cases h : r = r0 <;> simp [alt, h, ih]
    | connected => cases cur <;> simp [alt, ih]
    | unmodelled => cases cur <;> simp [alt, ih]

/-! ### `finish` -/

/-- with the response fixes in place no reply makes `register`/`unregister` raise -/
theorem finish_ok (cfg : Cfg) (hb : cfg.bodyFix = true) (hd : cfg.decodeFix = true) (v : Verb) (o : Outcome) :
    ∃ b, finish cfg v o = .ok b := by
  cases o with
  | content p =>
    cases p with
    | none =>
      simp only [finish, parseStatus]
      split
      · exact ⟨_, rfl⟩
      · simp [hd]
    | some cb =>
      obtain ⟨c, body⟩ := cb
      simp only [finish, parseStatus, hb, Bool.or_true]
      split
      · exact ⟨_, rfl⟩
      · exact ⟨_, rfl⟩
  | nackE => exact ⟨_, rfl⟩
  | timeoutE => exact ⟨_, rfl⟩
  | canceledE => exact ⟨_, rfl⟩
  | validationFailure => exact ⟨_, rfl⟩

/-! ### basic facts about `start`, `submit`, `handOver`, `autoNext` -/

/-- the timestamp `start` signs -/
def startTs (cfg : Cfg) (env : Env) (s : St) : Nat :=
  ((if cfg.guard then guard env s.last s.clock else (s.clock, s.last)).1.signRead env).now

@[simp] theorem start_snd (cfg : Cfg) (env : Env) (s : St) (r : Req) :
    (start cfg env s r).2 = [.cmd r (startTs cfg env s)] := rfl
@[simp] theorem start_inflight (cfg : Cfg) (env : Env) (s : St) (r : Req) :
    (start cfg env s r).1.inflight = some r := rfl
@[simp] theorem start_queue (cfg : Cfg) (env : Env) (s : St) (r : Req) :
    (start cfg env s r).1.queue = s.queue := rfl
@[simp] theorem start_autoTodo (cfg : Cfg) (env : Env) (s : St) (r : Req) :
    (start cfg env s r).1.autoTodo = s.autoTodo := rfl
@[simp] theorem start_nextId (cfg : Cfg) (env : Env) (s : St) (r : Req) :
    (start cfg env s r).1.nextId = s.nextId := rfl
@[simp] theorem start_free (cfg : Cfg) (env : Env) (s : St) (r : Req) :
    (start cfg env s r).1.free = s.free := rfl

theorem submit_cases (cfg : Cfg) (env : Env) (s : St) (v : Verb) (p : Nat) (a : Bool) :
    (s.inflight = none ∧
      submit cfg env s v p a = start cfg env { s with nextId := s.nextId + 1 } ⟨s.nextId, v, p, a⟩) ∨
    (∃ r0, s.inflight = some r0 ∧
      submit cfg env s v p a =
        ({ s with nextId := s.nextId + 1, queue := s.queue ++ [⟨s.nextId, v, p, a⟩] }, [])) := by
  unfold submit
  cases hi : s.inflight with
  | none => left; simp
  | some r0 => right; exact ⟨r0, rfl, rfl⟩

theorem handOver_cases (cfg : Cfg) (env : Env) (s : St) :
    (s.queue = [] ∧ handOver cfg env s = (s, [])) ∨
    (∃ q rest, s.queue = q :: rest ∧ handOver cfg env s = start cfg env { s with queue := rest } q) := by
  unfold handOver
  cases hq : s.queue with
  | nil => left; simp
  | cons q rest => right; exact ⟨q, rest, rfl, rfl⟩

theorem autoNext_cases (cfg : Cfg) (env : Env) (s : St) (r : Req) (res : Except PyErr Bool) :
    autoNext cfg env s r res = (s, []) ∨
    (∃ p todo, s.autoTodo = p :: todo ∧ (∃ b, res = .ok b) ∧
      autoNext cfg env s r res = submit cfg env { s with autoTodo := todo } .register p true) ∨
    (∃ e, res = .error e ∧ autoNext cfg env s r res = ({ s with autoTodo := [] }, [])) := by
  unfold autoNext
  by_cases ha : r.auto
  · simp only [ha, ↓reduceIte]
    cases res with
    | error e => right; right; exact ⟨e, rfl, rfl⟩
    | ok b =>
      cases ht : s.autoTodo with
      | nil => left; rfl
      | cons p todo => right; left; exact ⟨p, todo, rfl, ⟨b, rfl⟩, rfl⟩
  · left; simp [ha]

/-- result of the call whose command is answered by `k` -/
def replyRes (cfg : Cfg) (r : Req) (k : Reply) : Except PyErr Bool := finish cfg r.verb (expressOutcome cfg.fe k)

/-- with `unregister` inside the command lock a call of either verb is a `submit` -/
theorem step_call (cfg : Cfg) (hl : cfg.unregLock = true) (env : Env) (s : St) (v : Verb) (p : Nat) :
    step cfg env s (.call v p) = submit cfg env s v p false := by
  simp [step, hl]

theorem step_call_register (cfg : Cfg) (env : Env) (s : St) (p : Nat) :
    step cfg env s (.call .register p) = submit cfg env s .register p false := by
  simp [step]

theorem step_call_free (cfg : Cfg) (hl : cfg.unregLock = false) (env : Env) (s : St) (p : Nat) :
    step cfg env s (.call .unregister p) = freeRun env s p := by
  simp [step, hl]

theorem step_down_busy (cfg : Cfg) (env : Env) (s : St) (h : s.queue ≠ []) :
    step cfg env s .down = (s, [.unmodelled]) := by
  cases hq : s.queue with
  | nil => exact absurd hq h
  | cons a t => simp [step, hq]

theorem step_down_idle (cfg : Cfg) (env : Env) (s : St) (hq : s.queue = []) (hi : s.inflight = none) :
    step cfg env s .down = ({ s with autoTodo := [] }, []) := by
  simp [step, hq, hi]

theorem step_down_some (cfg : Cfg) (env : Env) (s : St) (r : Req) (hq : s.queue = []) (hi : s.inflight = some r) :
    step cfg env s .down =
      ({ s with inflight := none, autoTodo := [] }, [.ret r (replyRes cfg r .canceled)]) := by
  simp [step, hq, hi, replyRes]

theorem step_down_cases (cfg : Cfg) (env : Env) (s : St) :
    (s.queue ≠ [] ∧ step cfg env s .down = (s, [.unmodelled])) ∨
    (s.queue = [] ∧ s.inflight = none ∧ step cfg env s .down = ({ s with autoTodo := [] }, [])) ∨
    (∃ r, s.queue = [] ∧ s.inflight = some r ∧ step cfg env s .down =
      ({ s with inflight := none, autoTodo := [] }, [.ret r (replyRes cfg r .canceled)])) := by
  by_cases hq : s.queue = []
  · rcases Option.eq_none_or_eq_some s.inflight with hi | ⟨r, hi⟩
    · exact Or.inr (Or.inl ⟨hq, hi, step_down_idle cfg env s hq hi⟩)
    · exact Or.inr (Or.inr ⟨r, hq, hi, step_down_some cfg env s r hq hi⟩)
  · exact Or.inl ⟨hq, step_down_busy cfg env s hq⟩

theorem step_replyU_nil (cfg : Cfg) (env : Env) (s : St) (i : Nat) (k : Reply) (h : s.free = []) :
    step cfg env s (.replyU i k) = (s, []) := by
  simp [step, h]

theorem step_reply_none (cfg : Cfg) (env : Env) (s : St) (k : Reply) (h : s.inflight = none) :
    step cfg env s (.reply k) = (s, []) := by
  simp [step, h]

theorem step_reply_some (cfg : Cfg) (env : Env) (s : St) (k : Reply) (r : Req) (h : s.inflight = some r) :
    step cfg env s (.reply k) =
      ((autoNext cfg env (handOver cfg env { s with inflight := none }).1 r (replyRes cfg r k)).1,
       .ret r (replyRes cfg r k) :: ((handOver cfg env { s with inflight := none }).2 ++
         (autoNext cfg env (handOver cfg env { s with inflight := none }).1 r (replyRes cfg r k)).2)) := by
  simp [step, h, replyRes]

theorem step_connect_active (cfg : Cfg) (env : Env) (s : St) (rs : List Nat) (h : autoActive s = true) :
    step cfg env s (.connect rs) = (s, [.unmodelled]) := by
  simp [step, h]

theorem step_connect_nil (cfg : Cfg) (env : Env) (s : St) (h : autoActive s = false) :
    step cfg env s (.connect []) = (s, [.connected]) := by
  simp [step, h]

theorem step_connect_cons (cfg : Cfg) (env : Env) (s : St) (p : Nat) (todo : List Nat)
    (h : autoActive s = false) :
    step cfg env s (.connect (p :: todo)) =
      ((submit cfg env { s with autoTodo := todo } .register p true).1,
       .connected :: (submit cfg env { s with autoTodo := todo } .register p true).2) := by
  simp [step, h]

/-! ### nothing is in flight outside the semaphore when `unregister` takes the lock -/

/-- `unregister` takes the command lock, and no command is in flight outside it -/
def Locked (cfg : Cfg) (s : St) : Prop := cfg.unregLock = true ∧ s.free = []

theorem submit_free (cfg : Cfg) (env : Env) (s : St) (v : Verb) (p : Nat) (a : Bool) :
    (submit cfg env s v p a).1.free = s.free := by
  rcases submit_cases cfg env s v p a with ⟨_, he⟩ | ⟨r0, _, he⟩ <;> rw [he] <;> rfl

theorem handOver_free (cfg : Cfg) (env : Env) (s : St) : (handOver cfg env s).1.free = s.free := by
  rcases handOver_cases cfg env s with ⟨_, he⟩ | ⟨q, rest, _, he⟩ <;> rw [he] <;> rfl

theorem autoNext_free (cfg : Cfg) (env : Env) (s : St) (r : Req) (res : Except PyErr Bool) :
    (autoNext cfg env s r res).1.free = s.free := by
  rcases autoNext_cases cfg env s r res with he | ⟨p, todo, _, _, he⟩ | ⟨e, _, he⟩
  · rw [he]
  · rw [he, submit_free]
  · rw [he]

theorem step_locked (cfg : Cfg) (env : Env) (s : St) (e : Ev) (h : Locked cfg s) :
    Locked cfg (step cfg env s e).1 := by
  obtain ⟨hl, hf⟩ := h
  refine ⟨hl, ?_⟩
  cases e with
  | call v p => rw [step_call cfg hl, submit_free]; exact hf
  | reply k =>
    cases hi : s.inflight with
    | none => rw [step_reply_none cfg env s k hi]; exact hf
    | some r => rw [step_reply_some cfg env s k r hi]; simp only [autoNext_free, handOver_free]; exact hf
  | replyU i k => rw [step_replyU_nil cfg env s i k hf]; exact hf
  | down =>
    rcases step_down_cases cfg env s with ⟨_, he⟩ | ⟨_, _, he⟩ | ⟨r, _, _, he⟩ <;> rw [he] <;> exact hf
  | connect routes =>
    cases ha : autoActive s with
    | true => rw [step_connect_active cfg env s routes ha]; exact hf
    | false =>
      cases routes with
      | nil => rw [step_connect_nil cfg env s ha]; exact hf
      | cons p todo => rw [step_connect_cons cfg env s p todo ha]; simp only [submit_free]; exact hf

theorem init_locked (cfg : Cfg) (hl : cfg.unregLock = true) (t0 : Nat) : Locked cfg (init t0) := ⟨hl, rfl⟩

/-- well-formedness: waiters exist only while somebody holds the semaphore -/
def WF (s : St) : Prop := s.inflight = none → s.queue = []

/-- what one building block does to the "one at a time" discipline and to the request count -/
structure Disc (s s' : St) (o : List Out) : Prop where
  alt : alt s.inflight o = some s'.inflight
  wf : WF s'
  count : countCmd o + s'.queue.length + s.nextId = s.queue.length + s'.nextId

theorem Disc.refl' (s s' : St) (h : WF s) (hi : s'.inflight = s.inflight) (hq : s'.queue = s.queue)
    (hn : s'.nextId = s.nextId) : Disc s s' [] :=
  ⟨by simp [NfdMgmt.alt, hi], by unfold WF at *; rw [hi, hq]; exact h, by simp [countCmd, hq, hn]⟩

theorem submit_disc (cfg : Cfg) (env : Env) (s : St) (v : Verb) (p : Nat) (a : Bool) (h : WF s) :
    Disc s (submit cfg env s v p a).1 (submit cfg env s v p a).2 := by
  rcases submit_cases cfg env s v p a with ⟨hi, he⟩ | ⟨r0, hi, he⟩
  · rw [he]
    have hq := h hi
    refine ⟨by simp [alt, hi], by intro hn; simp at hn, ?_⟩
    simp [countCmd, hq]; omega
  · rw [he]
    refine ⟨by simp [alt, hi], by intro hn; simp [hi] at hn, ?_⟩
    simp [countCmd]; omega

theorem handOver_disc (cfg : Cfg) (env : Env) (s : St) (hi : s.inflight = none) :
    alt none (handOver cfg env s).2 = some (handOver cfg env s).1.inflight ∧
    WF (handOver cfg env s).1 ∧
    countCmd (handOver cfg env s).2 + (handOver cfg env s).1.queue.length = s.queue.length ∧
    (handOver cfg env s).1.nextId = s.nextId := by
  rcases handOver_cases cfg env s with ⟨hq, he⟩ | ⟨q, rest, hq, he⟩
  · rw [he]; simp [alt, hi, hq, countCmd, WF]
  · rw [he]; simp [alt, countCmd, WF, hq]; omega

theorem autoNext_disc (cfg : Cfg) (env : Env) (s : St) (r : Req) (res : Except PyErr Bool) (h : WF s) :
    Disc s (autoNext cfg env s r res).1 (autoNext cfg env s r res).2 := by
  rcases autoNext_cases cfg env s r res with he | ⟨p, todo, _, _, he⟩ | ⟨e, _, he⟩
  · rw [he]; exact Disc.refl' _ _ h rfl rfl rfl
  · rw [he]
    have hw : WF { s with autoTodo := todo } := h
    have := submit_disc cfg env { s with autoTodo := todo } .register p true hw
    exact ⟨this.alt, this.wf, this.count⟩
  · rw [he]; exact Disc.refl' _ _ h rfl rfl rfl

theorem Disc.cons_marker {s s' : St} {o : List Out} (x : Out) (hx : x = .connected ∨ x = .unmodelled)
    (h : Disc s s' o) : Disc s s' (x :: o) := by
  refine ⟨?_, h.wf, ?_⟩
  · have := h.alt
    rcases hx with rfl | rfl <;> cases hs : s.inflight <;> simp [NfdMgmt.alt, hs] at this ⊢ <;> exact this
  · have := h.count
    rcases hx with rfl | rfl <;> simpa [countCmd] using this

theorem step_disc (cfg : Cfg) (env : Env) (s : St) (e : Ev) (h : WF s) (hk : Locked cfg s) :
    Disc s (step cfg env s e).1 (step cfg env s e).2 := by
  cases e with
  | call v p => rw [step_call cfg hk.1]; exact submit_disc cfg env s v p false h
  | replyU i k => rw [step_replyU_nil cfg env s i k hk.2]; exact Disc.refl' _ _ h rfl rfl rfl
  | down =>
    rcases step_down_cases cfg env s with ⟨_, he⟩ | ⟨_, _, he⟩ | ⟨r, hq, hi, he⟩
    · rw [he]; exact Disc.cons_marker _ (Or.inr rfl) (Disc.refl' _ _ h rfl rfl rfl)
    · rw [he]; exact Disc.refl' _ _ h rfl rfl rfl
    · rw [he]
      refine ⟨by simp [alt, hi], fun _ => hq, by simp [countCmd]⟩
  | reply k =>
    cases hi : s.inflight with
    | none => rw [step_reply_none cfg env s k hi]; exact Disc.refl' _ _ h rfl rfl rfl
    | some r =>
      rw [step_reply_some cfg env s k r hi]
      have hn : ({ s with inflight := none } : St).inflight = none := rfl
      obtain ⟨ha, hwf, hc, hid⟩ := handOver_disc cfg env { s with inflight := none } hn
      have hb := autoNext_disc cfg env (handOver cfg env { s with inflight := none }).1 r (replyRes cfg r k) hwf
      refine ⟨?_, hb.wf, ?_⟩
      · simp only [hi, alt, ↓reduceIte]
        rw [alt_append, ha]
        simpa using hb.alt
      · have := hb.count
        simp only [countCmd, countCmd_append]
        simp at hc hid
        omega
  | connect routes =>
    cases ha : autoActive s with
    | true =>
      rw [step_connect_active cfg env s routes ha]
      exact Disc.cons_marker _ (Or.inr rfl) (Disc.refl' _ _ h rfl rfl rfl)
    | false =>
      cases routes with
      | nil =>
        rw [step_connect_nil cfg env s ha]
        exact Disc.cons_marker _ (Or.inl rfl) (Disc.refl' _ _ h rfl rfl rfl)
      | cons p todo =>
        rw [step_connect_cons cfg env s p todo ha]
        have hw : WF { s with autoTodo := todo } := h
        have hb := submit_disc cfg env { s with autoTodo := todo } .register p true hw
        exact Disc.cons_marker _ (Or.inl rfl) ⟨hb.alt, hb.wf, hb.count⟩

theorem run_disc (cfg : Cfg) (env : Env) (s : St) (evs : List Ev) (h : WF s) (hk : Locked cfg s) :
    Disc s (run cfg env s evs).1 (run cfg env s evs).2 := by
  induction evs generalizing s with
  | nil => exact ⟨by simp [run, alt], h, by simp [run, countCmd]⟩
  | cons e es ih =>
    have h1 := step_disc cfg env s e h hk
    have h2 := ih (step cfg env s e).1 h1.wf (step_locked cfg env s e hk)
    simp only [run]
    refine ⟨?_, h2.wf, ?_⟩
    · rw [alt_append, h1.alt]; simpa using h2.alt
    · have := h1.count
      have := h2.count
      rw [countCmd_append]; omega

/-! ### timestamps -/

/-- the guard and the clock agree: `_last_command_timestamp` is never ahead of the clock -/
def TInv (s : St) : Prop := s.last ≤ s.clock.now

/-- a building block keeps emitted timestamps strictly increasing, above the old and up to the new
    `_last_command_timestamp` -/
structure TRel (s s' : St) (o : List Out) : Prop where
  inv : TInv s'
  mono : s.last ≤ s'.last
  strict : List.Pairwise (· < ·) (tsOf o)
  bounds : ∀ t ∈ tsOf o, s.last < t ∧ t ≤ s'.last

theorem TRel.refl' (s s' : St) (h : TInv s) (hl : s'.last = s.last) (hc : s'.clock = s.clock) : TRel s s' [] :=
  ⟨by unfold TInv at *; rw [hl, hc]; exact h, by omega, by simp [tsOf], by simp [tsOf]⟩

theorem TRel.trans {s s1 s2 : St} {o1 o2 : List Out} (h1 : TRel s s1 o1) (h2 : TRel s1 s2 o2) :
    TRel s s2 (o1 ++ o2) := by
  refine ⟨h2.inv, Nat.le_trans h1.mono h2.mono, ?_, ?_⟩
  · rw [tsOf_append, List.pairwise_append]
    refine ⟨h1.strict, h2.strict, ?_⟩
    intro a ha b hb
    have := (h1.bounds a ha).2
    have := (h2.bounds b hb).1
    omega
  · intro t ht
    rw [tsOf_append, List.mem_append] at ht
    cases ht with
    | inl h => have := h1.bounds t h; have := h2.mono; omega
    | inr h => have := h2.bounds t h; have := h1.mono; omega

theorem guard_spec (env : Env) (hs : ∀ k, 1 ≤ env.sleepAdv k) (last : Nat) (c : Clock) (h : last ≤ c.now) :
    last < (guard env last c).2 ∧ (guard env last c).2 = (guard env last c).1.now := by
  unfold guard
  simp only
  by_cases h0 : last < (c.read env).now
  · simp [h0]
  · have he : (c.read env).now = last := by
      have : c.now ≤ (c.read env).now := by simp [Clock.read]
      omega
    have h1 : last < ((c.read env).sleepRead env).now := by
      have := hs (c.read env).si
      simp only [Clock.sleepRead]
      omega
    simp [h0, guardLoop, h1]

/-- the clock hypothesis under which the guard works: it exists, the clock advances across its sleeps,
    and either the timestamp is re-read after signing or the clock does not tick between the guarded
    read and the signed read -/
def ClockOk (cfg : Cfg) (env : Env) : Prop :=
  cfg.guard = true ∧ (∀ k, 1 ≤ env.sleepAdv k) ∧ (cfg.postRead = true ∨ ∀ k, env.signTick k = 0)

theorem start_trel (cfg : Cfg) (env : Env) (hok : ClockOk cfg env) (s : St) (r : Req) (h : TInv s) :
    TRel s (start cfg env s r).1 (start cfg env s r).2 := by
  obtain ⟨hg, hs, hp⟩ := hok
  obtain ⟨h1, h2⟩ := guard_spec env hs s.last s.clock h
  rw [start_snd]
  unfold startTs start
  simp only [hg, ↓reduceIte]
  cases hpr : cfg.postRead with
  | true =>
    simp only [↓reduceIte]
    refine ⟨?_, ?_, ?_, ?_⟩
    · simp [TInv]
    · simp [Clock.postReadC, Clock.signRead]; omega
    · simp [tsOf]
    · intro t ht
      simp [tsOf] at ht
      subst ht
      simp [Clock.postReadC, Clock.signRead]; omega
  | false =>
    have hz : ∀ k, env.signTick k = 0 := by
      cases hp with
      | inl h => rw [hpr] at h; cases h
      | inr h => exact h
    simp only [Bool.false_eq_true, ↓reduceIte]
    refine ⟨?_, ?_, ?_, ?_⟩
    · simp [TInv, Clock.signRead, hz]; omega
    · simp; omega
    · simp [tsOf]
    · intro t ht
      simp [tsOf] at ht
      subst ht
      simp [Clock.signRead, hz]; omega

theorem submit_trel (cfg : Cfg) (env : Env) (hok : ClockOk cfg env) (s : St) (v : Verb) (p : Nat) (a : Bool)
    (h : TInv s) : TRel s (submit cfg env s v p a).1 (submit cfg env s v p a).2 := by
  rcases submit_cases cfg env s v p a with ⟨_, he⟩ | ⟨r0, _, he⟩
  · rw [he]
    have h' : TInv { s with nextId := s.nextId + 1 } := h
    have := start_trel cfg env hok { s with nextId := s.nextId + 1 } ⟨s.nextId, v, p, a⟩ h'
    exact ⟨this.inv, this.mono, this.strict, this.bounds⟩
  · rw [he]; exact TRel.refl' _ _ h rfl rfl

theorem handOver_trel (cfg : Cfg) (env : Env) (hok : ClockOk cfg env) (s : St) (h : TInv s) :
    TRel s (handOver cfg env s).1 (handOver cfg env s).2 := by
  rcases handOver_cases cfg env s with ⟨_, he⟩ | ⟨q, rest, _, he⟩
  · rw [he]; exact TRel.refl' _ _ h rfl rfl
  · rw [he]
    have h' : TInv { s with queue := rest } := h
    have := start_trel cfg env hok { s with queue := rest } q h'
    exact ⟨this.inv, this.mono, this.strict, this.bounds⟩

theorem autoNext_trel (cfg : Cfg) (env : Env) (hok : ClockOk cfg env) (s : St) (r : Req)
    (res : Except PyErr Bool) (h : TInv s) :
    TRel s (autoNext cfg env s r res).1 (autoNext cfg env s r res).2 := by
  rcases autoNext_cases cfg env s r res with he | ⟨p, todo, _, _, he⟩ | ⟨e, _, he⟩
  · rw [he]; exact TRel.refl' _ _ h rfl rfl
  · rw [he]
    have h' : TInv { s with autoTodo := todo } := h
    have := submit_trel cfg env hok { s with autoTodo := todo } .register p true h'
    exact ⟨this.inv, this.mono, this.strict, this.bounds⟩
  · rw [he]; exact TRel.refl' _ _ h rfl rfl

theorem TRel.cons_other {s s' : St} {o : List Out} (x : Out) (hx : ∀ r ts, x ≠ .cmd r ts)
    (h : TRel s s' o) : TRel s s' (x :: o) := by
  have : tsOf (x :: o) = tsOf o := by
    cases x with
    | cmd r ts => exact absurd rfl (hx r ts)
    | ret r res => rfl
    | connected => rfl
    | unmodelled => rfl
  exact ⟨h.inv, h.mono, by rw [this]; exact h.strict, by rw [this]; exact h.bounds⟩

theorem step_trel (cfg : Cfg) (env : Env) (hok : ClockOk cfg env) (s : St) (e : Ev) (h : TInv s)
    (hk : Locked cfg s) : TRel s (step cfg env s e).1 (step cfg env s e).2 := by
  cases e with
  | call v p => rw [step_call cfg hk.1]; exact submit_trel cfg env hok s v p false h
  | replyU i k => rw [step_replyU_nil cfg env s i k hk.2]; exact TRel.refl' _ _ h rfl rfl
  | down =>
    rcases step_down_cases cfg env s with ⟨_, he⟩ | ⟨_, _, he⟩ | ⟨r, _, _, he⟩
    · rw [he]; exact TRel.cons_other _ (by intro r ts hc; cases hc) (TRel.refl' _ _ h rfl rfl)
    · rw [he]; exact TRel.refl' _ _ h rfl rfl
    · rw [he]; exact TRel.cons_other _ (by intro r ts hc; cases hc) (TRel.refl' _ _ h rfl rfl)
  | reply k =>
    cases hi : s.inflight with
    | none => rw [step_reply_none cfg env s k hi]; exact TRel.refl' _ _ h rfl rfl
    | some r =>
      rw [step_reply_some cfg env s k r hi]
      have h' : TInv { s with inflight := none } := h
      have ha := handOver_trel cfg env hok { s with inflight := none } h'
      have hb := autoNext_trel cfg env hok (handOver cfg env { s with inflight := none }).1 r
        (replyRes cfg r k) ha.inv
      have hab := TRel.trans ha hb
      exact TRel.cons_other _ (by intro r ts hc; cases hc) ⟨hab.inv, hab.mono, hab.strict, hab.bounds⟩
  | connect routes =>
    cases ha : autoActive s with
    | true =>
      rw [step_connect_active cfg env s routes ha]
      exact TRel.cons_other _ (by intro r ts hc; cases hc) (TRel.refl' _ _ h rfl rfl)
    | false =>
      cases routes with
      | nil =>
        rw [step_connect_nil cfg env s ha]
        exact TRel.cons_other _ (by intro r ts hc; cases hc) (TRel.refl' _ _ h rfl rfl)
      | cons p todo =>
        rw [step_connect_cons cfg env s p todo ha]
        have h' : TInv { s with autoTodo := todo } := h
        have hb := submit_trel cfg env hok { s with autoTodo := todo } .register p true h'
        exact TRel.cons_other _ (by intro r ts hc; cases hc) ⟨hb.inv, hb.mono, hb.strict, hb.bounds⟩

theorem run_trel (cfg : Cfg) (env : Env) (hok : ClockOk cfg env) (s : St) (evs : List Ev) (h : TInv s)
    (hk : Locked cfg s) : TRel s (run cfg env s evs).1 (run cfg env s evs).2 := by
  induction evs generalizing s with
  | nil => exact ⟨h, Nat.le_refl _, by simp [run, tsOf], by simp [run, tsOf]⟩
  | cons e es ih =>
    have h1 := step_trel cfg env hok s e h hk
    exact TRel.trans h1 (ih _ h1.inv (step_locked cfg env s e hk))

/-! ### nothing raises -/

/-- every return in the trace is a normal return -/
def RetsOk (o : List Out) : Prop := ∀ r res, Out.ret r res ∈ o → ∃ b, res = .ok b

theorem RetsOk.nil : RetsOk [] := by intro r res h; cases h

theorem RetsOk.append {a b : List Out} (ha : RetsOk a) (hb : RetsOk b) : RetsOk (a ++ b) := by
  intro r res h
  rcases List.mem_append.mp h with h | h
  · exact ha r res h
  · exact hb r res h

theorem start_retsOk (cfg : Cfg) (env : Env) (s : St) (r : Req) : RetsOk (start cfg env s r).2 := by
  intro r' res h; simp at h

theorem submit_retsOk (cfg : Cfg) (env : Env) (s : St) (v : Verb) (p : Nat) (a : Bool) :
    RetsOk (submit cfg env s v p a).2 := by
  rcases submit_cases cfg env s v p a with ⟨_, he⟩ | ⟨r0, _, he⟩
  · rw [he]; exact start_retsOk _ _ _ _
  · rw [he]; exact RetsOk.nil

theorem handOver_retsOk (cfg : Cfg) (env : Env) (s : St) : RetsOk (handOver cfg env s).2 := by
  rcases handOver_cases cfg env s with ⟨_, he⟩ | ⟨q, rest, _, he⟩
  · rw [he]; exact RetsOk.nil
  · rw [he]; exact start_retsOk _ _ _ _

theorem autoNext_retsOk (cfg : Cfg) (env : Env) (s : St) (r : Req) (res : Except PyErr Bool) :
    RetsOk (autoNext cfg env s r res).2 := by
  rcases autoNext_cases cfg env s r res with he | ⟨p, todo, _, _, he⟩ | ⟨e, _, he⟩
  · rw [he]; exact RetsOk.nil
  · rw [he]; exact submit_retsOk _ _ _ _ _ _
  · rw [he]; exact RetsOk.nil

theorem step_retsOk (cfg : Cfg) (hb : cfg.bodyFix = true) (hd : cfg.decodeFix = true) (env : Env) (s : St)
    (e : Ev) : RetsOk (step cfg env s e).2 := by
  cases e with
  | call v p =>
    simp only [step]
    split
    · intro r res h; simp [freeRun] at h
    · exact submit_retsOk _ _ _ _ _ _
  | down =>
    rcases step_down_cases cfg env s with ⟨_, he⟩ | ⟨_, _, he⟩ | ⟨r, _, _, he⟩
    · rw [he]; intro r res h; simp at h
    · rw [he]; exact RetsOk.nil
    · rw [he]
      intro r' res h
      simp only [List.mem_cons, List.not_mem_nil, or_false] at h
      cases h; exact finish_ok cfg hb hd _ _
  | replyU i k =>
    simp only [step]
    split
    · exact RetsOk.nil
    · intro r res h
      simp only [List.mem_cons, List.not_mem_nil, or_false] at h
      cases h; exact finish_ok cfg hb hd _ _
  | reply k =>
    cases hi : s.inflight with
    | none => rw [step_reply_none cfg env s k hi]; exact RetsOk.nil
    | some r =>
      rw [step_reply_some cfg env s k r hi]
      intro r' res h
      rcases List.mem_cons.mp h with h | h
      · cases h; exact finish_ok cfg hb hd _ _
      · exact ((handOver_retsOk _ _ _).append (autoNext_retsOk _ _ _ _ _)) r' res h
  | connect routes =>
    cases ha : autoActive s with
    | true => rw [step_connect_active cfg env s routes ha]; intro r res h; simp at h
    | false =>
      cases routes with
      | nil => rw [step_connect_nil cfg env s ha]; intro r res h; simp at h
      | cons p todo =>
        rw [step_connect_cons cfg env s p todo ha]
        intro r res h
        rcases List.mem_cons.mp h with h | h
        · cases h
        · exact submit_retsOk _ _ _ _ _ _ r res h

theorem run_retsOk (cfg : Cfg) (hb : cfg.bodyFix = true) (hd : cfg.decodeFix = true) (env : Env) (s : St)
    (evs : List Ev) : RetsOk (run cfg env s evs).2 := by
  induction evs generalizing s with
  | nil => exact RetsOk.nil
  | cons e es ih => exact (step_retsOk cfg hb hd env s e).append (ih _)

/-! ### routes -/

/-- prefixes of the route registrations that wait for the semaphore -/
def autoWaiting (s : St) : List Nat := (s.queue.filter (·.auto)).map (·.pfx)

/-- route registrations not yet on the wire: waiting for the semaphore, then not yet requested -/
def autoOpen (s : St) : List Nat := autoWaiting s ++ s.autoTodo

/-- `o` puts on the wire exactly the head of what was open -/
structure RRel (s s' : St) (o : List Out) : Prop where
  cons : autoCmds o ++ autoOpen s' = autoOpen s
  wf : WF s'

theorem RRel.trans {s s1 s2 : St} {o1 o2 : List Out} (h1 : RRel s s1 o1) (h2 : RRel s1 s2 o2) :
    RRel s s2 (o1 ++ o2) :=
  ⟨by rw [autoCmds_append, List.append_assoc, h2.cons, h1.cons], h2.wf⟩

theorem start_auto (cfg : Cfg) (env : Env) (s : St) (r : Req) :
    autoCmds (start cfg env s r).2 = (if r.auto then [r.pfx] else []) ∧
    autoOpen (start cfg env s r).1 = autoOpen s := by
  constructor
  · rw [start_snd]; simp only [autoCmds]
  · rfl

theorem submit_auto (cfg : Cfg) (env : Env) (s : St) (v : Verb) (p : Nat) (a : Bool) (h : WF s) :
    autoCmds (submit cfg env s v p a).2 ++ autoOpen (submit cfg env s v p a).1 =
      autoWaiting s ++ ((if a then [p] else []) ++ s.autoTodo) ∧ WF (submit cfg env s v p a).1 := by
  refine ⟨?_, (submit_disc cfg env s v p a h).wf⟩
  rcases submit_cases cfg env s v p a with ⟨hi, he⟩ | ⟨r0, hi, he⟩
  · rw [he]
    obtain ⟨h1, h2⟩ := start_auto cfg env { s with nextId := s.nextId + 1 } ⟨s.nextId, v, p, a⟩
    rw [h1, h2]
    have hq := h hi
    simp [autoOpen, autoWaiting, hq]
  · rw [he]
    cases a <;> simp [autoCmds, autoOpen, autoWaiting, List.filter_append]

theorem handOver_rrel (cfg : Cfg) (env : Env) (s : St) (hi : s.inflight = none) :
    RRel s (handOver cfg env s).1 (handOver cfg env s).2 := by
  refine ⟨?_, (handOver_disc cfg env s hi).2.1⟩
  rcases handOver_cases cfg env s with ⟨_, he⟩ | ⟨q, rest, hq, he⟩
  · rw [he]; simp [autoCmds]
  · rw [he]
    obtain ⟨h1, h2⟩ := start_auto cfg env { s with queue := rest } q
    rw [h1, h2]
    by_cases ha : q.auto <;> simp [autoOpen, autoWaiting, hq, ha]

theorem autoNext_rrel (cfg : Cfg) (env : Env) (s : St) (r : Req) (res : Except PyErr Bool)
    (hres : ∃ b, res = .ok b) (h : WF s) :
    RRel s (autoNext cfg env s r res).1 (autoNext cfg env s r res).2 := by
  rcases autoNext_cases cfg env s r res with he | ⟨p, todo, ht, _, he⟩ | ⟨e, hr, he⟩
  · rw [he]; exact ⟨by simp [autoCmds], h⟩
  · rw [he]
    have hw : WF { s with autoTodo := todo } := h
    obtain ⟨h1, h2⟩ := submit_auto cfg env { s with autoTodo := todo } .register p true hw
    refine ⟨?_, h2⟩
    rw [h1]
    simp [autoOpen, autoWaiting, ht]
  · obtain ⟨b, hb⟩ := hres
    rw [hb] at hr; cases hr

/-- no further connection is established, and the connection is not lost, during `evs` -/
def NoConnect (evs : List Ev) : Prop := ∀ e ∈ evs, e ≠ .down ∧ ∀ rs, e ≠ .connect rs

theorem step_rrel (cfg : Cfg) (hb : cfg.bodyFix = true) (hd : cfg.decodeFix = true) (env : Env) (s : St)
    (e : Ev) (hne : e ≠ .down ∧ ∀ rs, e ≠ .connect rs) (h : WF s) (hk : Locked cfg s) :
    RRel s (step cfg env s e).1 (step cfg env s e).2 := by
  cases e with
  | call v p =>
    obtain ⟨h1, h2⟩ := submit_auto cfg env s v p false h
    rw [step_call cfg hk.1]
    exact ⟨by rw [h1]; simp [autoOpen], h2⟩
  | replyU i k => rw [step_replyU_nil cfg env s i k hk.2]; exact ⟨by simp [autoCmds], h⟩
  | reply k =>
    cases hi : s.inflight with
    | none => rw [step_reply_none cfg env s k hi]; exact ⟨by simp [autoCmds], h⟩
    | some r =>
      rw [step_reply_some cfg env s k r hi]
      have hn : ({ s with inflight := none } : St).inflight = none := rfl
      have ha := handOver_rrel cfg env { s with inflight := none } hn
      have hb' := autoNext_rrel cfg env (handOver cfg env { s with inflight := none }).1 r (replyRes cfg r k)
        (finish_ok cfg hb hd _ _) ha.wf
      have hab := RRel.trans ha hb'
      have hs : autoOpen { s with inflight := none } = autoOpen s := rfl
      refine ⟨?_, hab.wf⟩
      rw [← hs]
      simpa [autoCmds] using hab.cons
  | connect rs => exact absurd rfl (hne.2 rs)
  | down => exact absurd rfl hne.1

theorem run_rrel (cfg : Cfg) (hb : cfg.bodyFix = true) (hd : cfg.decodeFix = true) (env : Env) (s : St)
    (evs : List Ev) (hne : NoConnect evs) (h : WF s) (hk : Locked cfg s) :
    RRel s (run cfg env s evs).1 (run cfg env s evs).2 := by
  induction evs generalizing s with
  | nil => exact ⟨by simp [run, autoCmds], h⟩
  | cons e es ih =>
    have h1 := step_rrel cfg hb hd env s e (hne e (by simp)) h hk
    have h2 := ih (step cfg env s e).1 (fun e' he' => hne e' (by simp [he'])) h1.wf (step_locked cfg env s e hk)
    exact RRel.trans h1 h2

theorem autoOpen_of_not_active (s : St) (h : autoActive s = false) : autoOpen s = [] := by
  simp only [autoActive, Bool.or_eq_false_iff, Bool.not_eq_false', List.isEmpty_iff] at h
  obtain ⟨⟨h1, _⟩, h3⟩ := h
  have : s.queue.filter (·.auto) = [] := by
    rw [List.filter_eq_nil_iff]
    intro a ha
    have := List.any_eq_false.mp h3 a ha
    simpa using this
  simp [autoOpen, autoWaiting, this, h1]

theorem connect_rrel (cfg : Cfg) (env : Env) (s : St) (rs : List Nat) (ha : autoActive s = false) (h : WF s) :
    autoCmds (step cfg env s (.connect rs)).2 ++ autoOpen (step cfg env s (.connect rs)).1 = rs ∧
    WF (step cfg env s (.connect rs)).1 := by
  have ho := autoOpen_of_not_active s ha
  cases rs with
  | nil => rw [step_connect_nil cfg env s ha]; exact ⟨by simp [autoCmds, ho], h⟩
  | cons p todo =>
    rw [step_connect_cons cfg env s p todo ha]
    have hw : WF { s with autoTodo := todo } := h
    obtain ⟨h1, h2⟩ := submit_auto cfg env { s with autoTodo := todo } .register p true hw
    refine ⟨?_, h2⟩
    simp only [autoCmds]
    rw [h1]
    have : autoWaiting { s with autoTodo := todo } = [] := by
      have : autoWaiting { s with autoTodo := todo } = autoWaiting s := rfl
      rw [this]
      simp only [autoOpen, List.append_eq_nil_iff] at ho
      exact ho.1
    simp [this]

/-! progress: with nothing else going on, one reply per route drains the starting task -/

theorem run_replies_idle (cfg : Cfg) (env : Env) (s : St) (ks : List Reply) (h : s.inflight = none) :
    run cfg env s (ks.map .reply) = (s, []) := by
  induction ks with
  | nil => rfl
  | cons k ks ih => simp [run, step_reply_none cfg env s k h, ih]

theorem drain (cfg : Cfg) (hb : cfg.bodyFix = true) (hd : cfg.decodeFix = true) (env : Env)
    (todo : List Nat) (s : St) (ks : List Reply) (r : Req)
    (hq : s.queue = []) (hi : s.inflight = some r) (hr : r.auto = true) (ht : s.autoTodo = todo)
    (hl : todo.length + 1 ≤ ks.length) :
    autoOpen (run cfg env s (ks.map .reply)).1 = [] := by
  induction todo generalizing s ks r with
  | nil =>
    cases ks with
    | nil => simp at hl
    | cons k ks =>
      simp only [List.map_cons, run]
      rw [step_reply_some cfg env s k r hi]
      obtain ⟨b, hb'⟩ := finish_ok cfg hb hd r.verb (expressOutcome cfg.fe k)
      have h1 : handOver cfg env { s with inflight := none } = ({ s with inflight := none }, []) := by
        simp [handOver, hq]
      have h2 : autoNext cfg env { s with inflight := none } r (replyRes cfg r k) = ({ s with inflight := none }, []) := by
        simp [autoNext, hr, replyRes, hb', ht]
      simp only [h1, h2]
      rw [run_replies_idle cfg env _ ks rfl]
      simp [autoOpen, autoWaiting, hq, ht]
  | cons p t ih =>
    cases ks with
    | nil => simp at hl
    | cons k ks =>
      simp only [List.map_cons, run]
      rw [step_reply_some cfg env s k r hi]
      obtain ⟨b, hb'⟩ := finish_ok cfg hb hd r.verb (expressOutcome cfg.fe k)
      have h1 : handOver cfg env { s with inflight := none } = ({ s with inflight := none }, []) := by
        simp [handOver, hq]
      have h2 : autoNext cfg env { s with inflight := none } r (replyRes cfg r k) =
          start cfg env { s with inflight := none, autoTodo := t, nextId := s.nextId + 1 }
            ⟨s.nextId, .register, p, true⟩ := by
        simp [autoNext, hr, replyRes, hb', ht, submit]
      simp only [h1, h2]
      exact ih _ ks ⟨s.nextId, .register, p, true⟩ hq rfl rfl rfl (by simp at hl ⊢; omega)

end Ndn.NfdMgmt
