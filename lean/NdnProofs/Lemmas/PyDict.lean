import NdnModel.PyDict
namespace Ndn.PyDict
variable {κ ν : Type} [DecidableEq κ]

theorem get?_set (d : PyDict κ ν) (k k' : κ) (v : ν) :
    get? (set d k v) k' = if k = k' then some v else get? d k' := by
  induction d with
  | nil => simp [set, get?]
  | cons p r ih =>
    obtain ⟨a, b⟩ := p
    by_cases h : a = k
    · subst h; simp only [set, if_true, get?]; split <;> simp_all
    · simp only [set, h, if_false, get?, ih]
      by_cases h2 : a = k'
      · have : ¬ k = k' := fun e => h (e ▸ h2); simp [h2, this]
      · simp [h2]

theorem keys_set (d : PyDict κ ν) (k : κ) (v : ν) :
    keys (set d k v) = if k ∈ keys d then keys d else keys d ++ [k] := by
  induction d with
  | nil => simp [set, keys]
  | cons p r ih =>
    obtain ⟨a, b⟩ := p
    by_cases h : a = k
    · subst h; simp [set, keys]
    · have h' : ¬ k = a := fun e => h e.symm
      simp only [set, h, if_false, keys, List.map_cons, List.mem_cons, h', false_or] at ih ⊢
      rw [ih]; split <;> simp_all

theorem nodup_keys_set (d : PyDict κ ν) (k : κ) (v : ν) (h : (keys d).Nodup) :
    (keys (set d k v)).Nodup := by
  rw [keys_set]; split
  · exact h
  · rename_i hk
    rw [List.nodup_append]
    refine ⟨h, by simp, ?_⟩
    intro a ha b hb; simp at hb; subst hb; intro e; exact hk (e ▸ ha)

theorem get?_of_mem (d : PyDict κ ν) (h : (keys d).Nodup) (k : κ) (v : ν) (hm : (k, v) ∈ d) :
    get? d k = some v := by
  induction d with
  | nil => simp at hm
  | cons p r ih =>
    obtain ⟨a, b⟩ := p
    simp only [keys, List.map_cons, List.nodup_cons] at h
    simp only [List.mem_cons, Prod.mk.injEq] at hm
    rcases hm with ⟨rfl, rfl⟩ | hm
    · simp [get?]
    · have : a ≠ k := by
        intro e; subst e; exact h.1 (List.mem_map.mpr ⟨(a, v), hm, rfl⟩)
      simp only [get?, this, if_false]; exact ih h.2 hm

theorem mem_of_get? (d : PyDict κ ν) (k : κ) (v : ν) (hg : get? d k = some v) : (k, v) ∈ d := by
  induction d with
  | nil => simp [get?] at hg
  | cons p r ih =>
    obtain ⟨a, b⟩ := p
    by_cases h : a = k
    · subst h; simp [get?] at hg; simp [hg]
    · simp only [get?, h, if_false] at hg; exact List.mem_cons_of_mem _ (ih hg)

end Ndn.PyDict
