import NdnProofs.Lemmas.Cascade
import NdnProofs.Lemmas.Lvs.Sanity
import NdnProofs.Lemmas.Lvs.Sem
import NdnModel.CascadeLvs
/-!
  Specification vocabulary and helper lemmas for the composition of C14 (cascade validator) with the
  Light VerSec model of C12:

  * `ChainL R E Signed l o` — the chain of `Lemmas/Cascade.lean` with an arbitrary link relation `R`
    (a `Prop`, not the validator's `allowed`) and indexed by the list `l` of the key names on the way
    (the last one is the anchor's name);
  * `SchemaLink m fns pkt key` — the C12 characterisation of one link (`Ndn.C12.check_iff`);
  * `KeyMatched m fns key` — the key name matches some node of the schema under some bindings;
  * `IsTrustRoot`, `RootRule` — the roots of trust of a schema, declaratively;
  * `AnchorRule` — the rule names a name matches, declaratively.
-/
namespace Ndn.Cascade
open Ndn

section chainL
variable {N : Type}

/-- the chain  o — certificate — … — trust anchor  whose links satisfy `R`; `l` lists the names of the
    keys (certificates, then the anchor) in the order they are named -/
inductive ChainL (R : N → N → Prop) (E : Env N) (Signed : Key → Obj N → Prop) : List N → Obj N → Prop where
  | anchor (o : Obj N) :
      o.keyLoc = some E.anchorName → R o.name E.anchorName →
      Verifies Signed E.anchorKey o → ChainL R E Signed [E.anchorName] o
  | step (o : Obj N) (kn : N) (c : Obj N) (k : Key) (l : List N) :
      o.keyLoc = some kn → kn ≠ E.anchorName → R o.name kn →
      E.world (certInterest kn) = some (.data c) → c.name = kn → c.content = some k →
      Verifies Signed k o → ChainL R E Signed l c → ChainL R E Signed (kn :: l) o

variable {R R' : N → N → Prop} {E : Env N} {Signed : Key → Obj N → Prop}

theorem ChainL.ne_nil {l : List N} {o : Obj N} (h : ChainL R E Signed l o) : l ≠ [] := by
  cases h <;> simp

theorem ChainL.mono (hRR : ∀ a b, R a b → R' a b) {l : List N} {o : Obj N}
    (h : ChainL R E Signed l o) : ChainL R' E Signed l o := by
  induction h with
  | anchor o hk ha hv => exact .anchor o hk (hRR _ _ ha) hv
  | step o kn c k l hk hn ha hw hcn hcc hv _ ih => exact .step o kn c k l hk hn (hRR _ _ ha) hw hcn hcc hv ih

/-- every key name on a chain is the right-hand side of a link -/
theorem ChainL.links {l : List N} {o : Obj N} (h : ChainL R E Signed l o) :
    ∀ kn ∈ l, ∃ a, R a kn := by
  induction h with
  | anchor o _ ha _ =>
    intro kn hm
    simp only [List.mem_singleton] at hm
    subst hm; exact ⟨_, ha⟩
  | step o kn c k l _ _ ha _ _ _ _ _ ih =>
    intro kn' hm
    rcases List.mem_cons.mp hm with rfl | hm
    · exact ⟨_, ha⟩
    · exact ih kn' hm

/-- the first key name of a chain is the packet's key locator -/
theorem ChainL.head {l : List N} {o : Obj N} (h : ChainL R E Signed l o) : o.keyLoc = l.head? := by
  cases h with
  | anchor _ hk _ _ => simpa using hk
  | step _ _ _ _ _ hk _ _ _ _ _ _ _ => simpa using hk

theorem chainL_of_chainD (h : ∀ a b, E.allowed a b = .ok true → R a b) :
    ∀ d o, ChainD E Signed d o → ∃ l, l.length = d + 1 ∧ ChainL R E Signed l o := by
  intro d o hc
  induction hc with
  | anchor o hk ha hv => exact ⟨[E.anchorName], rfl, .anchor o hk (h _ _ ha) hv⟩
  | step o kn c k d hk hn ha hw hcn hcc hv _ ih =>
    obtain ⟨l, hl, hch⟩ := ih
    exact ⟨kn :: l, by simp [hl], .step o kn c k l hk hn (h _ _ ha) hw hcn hcc hv hch⟩

theorem chainD_of_chainL (h : ∀ a b, R a b → E.allowed a b = .ok true) :
    ∀ l o, ChainL R E Signed l o → ChainD E Signed (l.length - 1) o := by
  intro l o hc
  induction hc with
  | anchor o hk ha hv => exact .anchor o hk (h _ _ ha) hv
  | step o kn c k l hk hn ha hw hcn hcc hv hrest ih =>
    have hl : l.length - 1 + 1 = l.length := by
      have := List.length_pos_iff.mpr hrest.ne_nil
      omega
    have := ChainD.step o kn c k (l.length - 1) hk hn (h _ _ ha) hw hcn hcc hv ih
    rw [hl] at this
    simpa using this

end chainL

/-! ### one link, in terms of rule matching -/

/-- the schema lets `key` sign `pkt` (trailing implicit digests dropped): the right-hand side of
    `Ndn.C12.check_iff` -/
def SchemaLink (m : Lvs.Model) (fns : Lvs.PureEnv) (pkt key : LName) : Prop :=
  ∃ p k, Lvs.dropDigest pkt = some p ∧ Lvs.dropDigest key = some k ∧ Lvs.Signs m fns p k

/-- the key name matches some node of the schema, under some bindings -/
def KeyMatched (m : Lvs.Model) (fns : Lvs.PureEnv) (key : LName) : Prop :=
  ∃ k σ n σ', Lvs.dropDigest key = some k ∧ Lvs.Matches m fns σ k n σ'

theorem SchemaLink.keyMatched {m : Lvs.Model} {fns : Lvs.PureEnv} {pkt key : LName}
    (h : SchemaLink m fns pkt key) : KeyMatched m fns key := by
  obtain ⟨_, k, _, hk, _, σ, _, kn, σ', _, _, hkm, _⟩ := h
  exact ⟨k, σ, kn, σ', hk, hkm⟩

theorem lvsAllowed_eq_true (m : Lvs.Model) (env : Lvs.FnEnv) (pkt key : LName) :
    lvsAllowed m env pkt key = .ok true ↔ Lvs.check m env pkt key = .ok true := by
  unfold lvsAllowed
  cases Lvs.check m env pkt key with
  | ok b => simp
  | error e => simp

/-- the validator's signing check raises exactly when `Checker.check` does -/
theorem lvsAllowed_error (m : Lvs.Model) (env : Lvs.FnEnv) (pkt key : LName) (e : PyErr) :
    lvsAllowed m env pkt key = .error e ↔ ∃ e', Lvs.check m env pkt key = .error e' ∧ pyOfLvs e' = e := by
  unfold lvsAllowed
  cases Lvs.check m env pkt key with
  | ok b => simp
  | error e' => simp

/-- the loader accepted the model -/
theorem sane_of_sanityCheck {m : Lvs.Model} (h : Lvs.sanityCheck m = .ok ()) : Lvs.Sane m := by
  apply Lvs.sane_of_structCheck
  unfold Lvs.sanityCheck at h
  cases hb : Lvs.structCheck m with
  | true => rfl
  | false => simp [hb] at h

theorem dfs_of_sanityCheck {m : Lvs.Model} (h : Lvs.sanityCheck m = .ok ()) :
    Lvs.dfs m (m.nodes.length + 1) m.startId none = true := by
  unfold Lvs.sanityCheck at h
  cases hb : Lvs.structCheck m with
  | true =>
    unfold Lvs.structCheck at hb
    simp only [Bool.and_eq_true] at hb
    exact hb.2
  | false => simp [hb] at h

/-! ### the nodes `_sanity_check` visits are the reachable ones -/

theorem collect_reach {m : Lvs.Model} :
    ∀ (f cur : Nat), Lvs.Reach m cur → ∀ n ∈ Lvs.collect m f cur, Lvs.Reach m n := by
  intro f
  induction f with
  | zero => intro cur _ n hn; simp [Lvs.collect] at hn
  | succ f ih =>
    intro cur hr n hn
    rw [Lvs.collect] at hn
    cases hc : m.nodes[cur]? with
    | none => simp [hc] at hn
    | some node =>
      simp only [hc, List.mem_cons, List.mem_flatMap] at hn
      rcases hn with rfl | ⟨d, hd, hnd⟩
      · exact hr
      · cases d with
        | none => simp at hnd
        | some d' => exact ih d' (Lvs.Reach.edge hr hc hd) n hnd

theorem reach_collect {m : Lvs.Model} {F : Nat} (h0 : Lvs.dfs m F m.startId none = true) {n : Nat}
    (hr : Lvs.Reach m n) :
    ∃ f par, Lvs.dfs m f n par = true ∧ ∀ x ∈ Lvs.collect m f n, x ∈ Lvs.collect m F m.startId := by
  induction hr with
  | start => exact ⟨F, none, h0, fun _ h => h⟩
  | @edge n d node _ hn hd ih =>
    obtain ⟨f, par, hf, hsub⟩ := ih
    obtain ⟨f', node', hfe, hn', _, hall⟩ := Lvs.dfs_true hf
    rw [hn] at hn'; cases hn'
    obtain ⟨k, hk, hdk⟩ := hall _ hd
    cases hk
    refine ⟨f', some n, hdk, fun x hx => hsub x ?_⟩
    subst hfe
    rw [Lvs.collect]
    simp only [hn, List.mem_cons, List.mem_flatMap]
    exact Or.inr ⟨some d, hd, hx⟩

theorem mem_collect_self {m : Lvs.Model} {f n : Nat} {par : Option Nat} (h : Lvs.dfs m f n par = true) :
    n ∈ Lvs.collect m f n := by
  obtain ⟨f', node, hfe, hn, _, _⟩ := Lvs.dfs_true h
  subst hfe
  rw [Lvs.collect]
  simp [hn]

/-- on a model the loader accepted, `dfs` visits exactly the nodes reachable from the start node -/
theorem mem_visited_iff {m : Lvs.Model} (h : Lvs.sanityCheck m = .ok ()) (n : Nat) :
    n ∈ visited m ↔ Lvs.Reach m n := by
  constructor
  · exact collect_reach _ _ Lvs.Reach.start n
  · intro hr
    obtain ⟨f, par, hf, hsub⟩ := reach_collect (dfs_of_sanityCheck h) hr
    exact hsub n (mem_collect_self hf)

/-! ### roots of trust -/

/-- node `k` is a root of trust: some reachable node lists it as a signer and it has no signer itself -/
def IsTrustRoot (m : Lvs.Model) (k : Nat) : Prop :=
  (∃ n node, Lvs.Reach m n ∧ m.nodes[n]? = some node ∧ k ∈ node.signCons) ∧ Lvs.signersOf m k = []

/-- `r` is a rule name of a root of trust (`#_<id>` for a node without rule names) -/
def RootRule (m : Lvs.Model) (r : String) : Prop := ∃ k, IsTrustRoot m k ∧ r ∈ Lvs.ruleNamesOf m k

theorem mem_signersOf {m : Lvs.Model} {n k : Nat} :
    k ∈ Lvs.signersOf m n ↔ ∃ node, m.nodes[n]? = some node ∧ k ∈ node.signCons := by
  unfold Lvs.signersOf
  cases m.nodes[n]? <;> simp

theorem mem_trustRoots_iff {m : Lvs.Model} (h : Lvs.sanityCheck m = .ok ()) (k : Nat) :
    k ∈ trustRoots m ↔ IsTrustRoot m k := by
  unfold trustRoots inDegNodes IsTrustRoot
  simp only [List.mem_filter, List.mem_flatMap, List.isEmpty_iff, mem_visited_iff h, mem_signersOf]
  constructor
  · rintro ⟨⟨n, hr, node, hn, hk⟩, he⟩
    exact ⟨⟨n, node, hr, hn, hk⟩, he⟩
  · rintro ⟨⟨n, node, hr, hn, hk⟩, he⟩
    exact ⟨⟨n, hr, node, hn, hk⟩, he⟩

/-- `Checker.root_of_trust()` returns exactly the rule names of the roots of trust -/
theorem mem_rootOfTrust_iff {m : Lvs.Model} (h : Lvs.sanityCheck m = .ok ()) (r : String) :
    r ∈ rootOfTrust m ↔ RootRule m r := by
  unfold rootOfTrust RootRule
  simp only [List.mem_flatMap, mem_trustRoots_iff h]

/-! ### the anchor's matches -/

/-- `r` is a rule name of a node the name matches (implicit digest dropped, no prior bindings) -/
def AnchorRule (m : Lvs.Model) (fns : Lvs.PureEnv) (name : LName) (r : String) : Prop :=
  ∃ p n σ, Lvs.dropDigest name = some p ∧ Lvs.Matches m fns [] p n σ ∧ r ∈ Lvs.ruleNamesOf m n

/-- every existing node has at least one rule name in `match`'s output -/
theorem ruleNamesOf_ne_nil {m : Lvs.Model} {n : Nat} {node : Lvs.Node} (hn : m.nodes[n]? = some node) :
    Lvs.ruleNamesOf m n ≠ [] := by
  unfold Lvs.ruleNamesOf
  simp only [hn]
  split
  · simp
  · rename_i hne; intro h; rw [h] at hne; simp at hne

theorem anchorMatches_none {m : Lvs.Model} {env : Lvs.FnEnv} {name : LName}
    (hd : Lvs.dropDigest name = none) : anchorMatches m env name = .error .indexError := by
  unfold anchorMatches Lvs.matchNames
  rw [Lvs.stripDigest_eq, hd]

/-- on a loader-accepted model with total user functions `match` does not raise on a non-empty name and
    reports exactly the rule names of the nodes the name matches -/
theorem anchorMatches_spec {m : Lvs.Model} (hs : Lvs.Sane m) (hv : Lvs.VDet m) (env : Lvs.FnEnv)
    (henv : Lvs.EnvTotal env) {name p : LName} (hd : Lvs.dropDigest name = some p) :
    ∃ l, anchorMatches m env name = .ok l ∧ ∀ r, r ∈ l ↔ AnchorRule m (Lvs.pureOf env) name r := by
  have hne := Lvs.matchIter_no_err m hs env henv p []
  have houts := (Lvs.matchIter_outs_of_no_err m hs.treeOK env p [] hne).1
  refine ⟨((Lvs.matchIter m env p []).outs.map fun o => (Lvs.ruleNamesOf m o.1, o.2)).flatMap (·.1), ?_, ?_⟩
  · unfold anchorMatches Lvs.matchNames
    rw [Lvs.stripDigest_eq, hd]
    simp only [hne]
  · intro r
    simp only [List.mem_flatMap, List.mem_map]
    constructor
    · rintro ⟨x, ⟨⟨n, σ⟩, ho, rfl⟩, hr⟩
      rw [houts] at ho
      exact ⟨p, n, σ, hd, Lvs.matchTree_sound m env p _ _ _ _ ho, hr⟩
    · rintro ⟨p', n, σ, hd', hm, hr⟩
      rw [hd] at hd'; cases hd'
      refine ⟨_, ⟨(n, σ), ?_, rfl⟩, hr⟩
      rw [houts]
      exact Lvs.matchTree_complete m env (Lvs.edgeTotal_of_sane hs env henv) hv hm Lvs.Reach.start

/-- a matched node exists (so it contributes at least one rule name) -/
theorem matches_node_exists {m : Lvs.Model} (hs : Lvs.Sane m) {fns : Lvs.PureEnv} {σ : Lvs.Ctx}
    {name : LName} {n : Nat} {σ' : Lvs.Ctx} (h : Lvs.Matches m fns σ name n σ') :
    ∃ node, m.nodes[n]? = some node := by
  unfold Lvs.Matches at h
  have key : ∀ {a σ nm b σ'}, Lvs.Path m fns a σ nm b σ' → Lvs.Reach m a → Lvs.Reach m b := by
    intro a σ nm b σ' hp
    induction hp with
    | nil => exact id
    | value hn hve _ hdest _ ih =>
      intro hr
      exact ih (Lvs.Reach.edge hr hn (by rw [← hdest]; exact Lvs.vdest_mem_dests hve))
    | pattern hn hpe hdest _ _ ih =>
      intro hr
      exact ih (Lvs.Reach.edge hr hn (by rw [← hdest]; exact Lvs.pdest_mem_dests hpe))
  exact Lvs.Reach.node hs.treeOK (key h Lvs.Reach.start)

end Ndn.Cascade

namespace Ndn.Cascade
open Ndn

/-! ### the composed specification -/

/-- `LvsChain I Signed l o`: a chain from `o` to the anchor of instance `I` through the keys named `l`,
    in which every link is a signing relation of `I`'s schema in the sense of C12 (`SchemaLink`: the
    packet name matches a node one of whose sign constraints is a node the key name matches under the
    packet's bindings, all constraints on the way holding) -/
def LvsChain (I : Inst) (Signed : Key → Obj LName → Prop) (l : List LName) (o : Obj LName) : Prop :=
  ChainL (SchemaLink I.model (Lvs.pureOf I.fns)) I.env Signed l o

/-- with every user function defined, `validate_user_fns()` holds -/
theorem userFnsOk_of_total (m : Lvs.Model) (env : Lvs.FnEnv) (henv : Lvs.EnvTotal env) :
    userFnsOk m env = true := by
  unfold userFnsOk
  rw [List.all_eq_true]
  intro id _
  obtain ⟨f, hf, _⟩ := henv id
  simp [hf]

/-- a decidable sufficient condition for `VDet` (used by the examples) -/
def vdetB (m : Lvs.Model) : Bool :=
  m.nodes.all fun node => node.vEdges.all fun a => node.vEdges.all fun b =>
    a.value != b.value || a.dest == b.dest

theorem vdet_of_vdetB {m : Lvs.Model} (h : vdetB m = true) : Lvs.VDet m := by
  intro n node hn ve₁ ve₂ h1 h2 c hc1 hc2
  unfold vdetB at h
  rw [List.all_eq_true] at h
  have := h node (List.mem_of_getElem? hn)
  rw [List.all_eq_true] at this
  have := this ve₁ h1
  rw [List.all_eq_true] at this
  have := this ve₂ h2
  simpa [hc1, hc2] using this

end Ndn.Cascade
