import NdnModel.SegFetchNames
import NdnProofs.Lemmas.SegFetch
import NdnProofs.Lemmas.NameToStr
/-! Helper lemmas for the names-level half of C19: the segment component, the producer seen through names, and the
    refinement `fetchB = liftResult fetch`. -/
namespace Ndn.SegFetch
open Ndn

theorem packUint_length_le (n : Nat) : (packUint n).length ≤ 8 := by
  unfold packUint; repeat' split
  all_goals simp [be1, be2, be4, be8]

theorem segComp_getType (n : Nat) : Comp.getType (segComp n) = .ok TYPE_SEGMENT :=
  getType_tlv _ _ (by decide)

theorem segComp_toNumber (n : Nat) (hn : n < 2 ^ 64) : Comp.toNumber (segComp n) = .ok n := by
  have hv := getValue_tlv TYPE_SEGMENT (packUint n) (by decide) (by have := packUint_length_le n; omega)
  simp only [Comp.toNumber, segComp, hv, bind, Except.bind, pure, Except.pure, beVal_packUint n hn]

theorem segComp_inj (m n : Nat) (hm : m < 2 ^ 64) (hn : n < 2 ^ 64) (h : segComp m = segComp n) : m = n := by
  have h1 := segComp_toNumber m hm
  rw [h, segComp_toNumber n hn] at h1
  exact (Except.ok.inj h1).symm

theorem fromNumber_seg (n : Nat) (hn : n < 2 ^ 64) :
    Comp.fromNumber (n : Int) TYPE_SEGMENT = .ok (segComp n) := by
  have h1 : ¬ ((n : Int) < 0 ∨ (n : Int) ≥ 18446744073709551616) := by omega
  simp only [Comp.fromNumber, h1, if_false, Int.toNat_natCast]
  exact fromBytes_ok TYPE_SEGMENT _ (by decide) (by decide)

/-- every FinalBlockId marker names a number a segment component can carry -/
def FbiBound (l : List Seg) : Prop := ∀ (j : Nat) (s : Seg) (k : Nat), l[j]? = some s → s.fbi = some k → k < 2 ^ 64

theorem dataOf_isSome (base : List Bytes) (l : List Seg) (i : Nat) :
    (dataOf base l i).isSome = decide (i < l.length) := by
  unfold dataOf
  by_cases h : i < l.length
  · simp [h]
  · simp [h]

theorem producer_pre (pre base : List Bytes) (l : List Seg) (disc : Nat) (c : Bool) :
    producer pre (.segs base l) disc pre c = dataOf base l disc := by
  simp [producer]

theorem producer_seg (pre base : List Bytes) (l : List Seg) (disc i : Nat) (c : Bool)
    (hpre : pre.length ≤ base.length) (hi : i < 2 ^ 64) :
    producer pre (.segs base l) disc (base ++ [segComp i]) c = dataOf base l i := by
  have hne : base ++ [segComp i] ≠ pre := by
    intro e
    have := congrArg List.length e
    simp at this; omega
  simp only [producer, hne, if_false, List.dropLast_concat, if_true, List.getLast?_concat,
    segComp_getType, segComp_toNumber i hi]

theorem fbiNamesLast_dataOf (base : List Bytes) (s : Seg) (i : Nat) (hi : i < 2 ^ 64)
    (hk : ∀ k, s.fbi = some k → k < 2 ^ 64) :
    fbiNamesLast ⟨base ++ [segComp i], s.fbi.map segComp, s.content⟩ = decide (s.fbi = some i) := by
  unfold fbiNamesLast
  simp only [List.getLast?_concat]
  cases hf : s.fbi with
  | none => simp
  | some k =>
    simp only [Option.map_some, Option.some.injEq]
    by_cases e : k = i
    · subst e; simp
    · have : segComp k ≠ segComp i := fun h => e (segComp_inj k i (hk k hf) hi h)
      simp [this, e]

theorem fetchLoopB_succ (limit : Nat) (prod : List Bytes → Bool → Option DataB) (fuel : Nat) (name : List Bytes)
    (i : Nat) (sc : List Outcome) :
    fetchLoopB limit prod (fuel + 1) name i sc =
      match (retry limit (prod (name.dropLast ++ [segComp i]) false).isSome (limit + 1) 0 sc).1,
          prod (name.dropLast ++ [segComp i]) false with
      | .ok, some d =>
        if fbiNamesLast d then
          ⟨[d.content], (retry limit (prod (name.dropLast ++ [segComp i]) false).isSome (limit + 1) 0 sc).2.2.map
            fun o => (name.dropLast ++ [segComp i], o), .fin .done⟩
        else
          ⟨d.content :: (fetchLoopB limit prod fuel d.name (i + 1)
              (retry limit (prod (name.dropLast ++ [segComp i]) false).isSome (limit + 1) 0 sc).2.1).yielded,
           ((retry limit (prod (name.dropLast ++ [segComp i]) false).isSome (limit + 1) 0 sc).2.2.map
              fun o => (name.dropLast ++ [segComp i], o)) ++
             (fetchLoopB limit prod fuel d.name (i + 1)
               (retry limit (prod (name.dropLast ++ [segComp i]) false).isSome (limit + 1) 0 sc).2.1).log,
           (fetchLoopB limit prod fuel d.name (i + 1)
             (retry limit (prod (name.dropLast ++ [segComp i]) false).isSome (limit + 1) 0 sc).2.1).end_⟩
      | .ok, none =>
        ⟨[], (retry limit (prod (name.dropLast ++ [segComp i]) false).isSome (limit + 1) 0 sc).2.2.map
          fun o => (name.dropLast ++ [segComp i], o), .fin .fuel⟩
      | e, _ =>
        ⟨[], (retry limit (prod (name.dropLast ++ [segComp i]) false).isSome (limit + 1) 0 sc).2.2.map
          fun o => (name.dropLast ++ [segComp i], o), .fin (endOf e)⟩ := rfl

theorem lift_block (pre base : List Bytes) (req : Req) (blk : List Outcome) :
    (blk.map fun o => (req, o)).map (fun e => (reqName pre base e.1, e.2)) =
      blk.map fun o => (reqName pre base req, o) := by
  simp [List.map_map, Function.comp_def]

/-- the segment loop on names is the segment loop on numbers, Interest by Interest -/
theorem fetchLoopB_refines (limit : Nat) (pre base : List Bytes) (l : List Seg) (disc : Nat)
    (hpre : pre.length ≤ base.length) (hfb : FbiBound l) :
    ∀ (fuel i j : Nat) (sc : List Outcome), i + fuel < 2 ^ 64 →
      fetchLoopB limit (producer pre (.segs base l) disc) fuel (base ++ [segComp j]) i sc =
        liftResult pre base (fetchLoop limit l fuel i sc) := by
  intro fuel
  induction fuel with
  | zero => intro i j sc _; simp [fetchLoopB, fetchLoop, liftResult]
  | succ n ih =>
    intro i j sc hb
    have hi : i < 2 ^ 64 := by omega
    rw [fetchLoopB_succ, fetchLoop_succ, List.dropLast_concat, producer_seg pre base l disc i false hpre hi,
      dataOf_isSome]
    cases hs : l[i]? with
    | none =>
      have hd : dataOf base l i = none := by simp [dataOf, hs]
      rw [hd]
      cases hr : (retry limit (decide (i < l.length)) (limit + 1) 0 sc).1 <;>
        simp [liftResult, reqName, List.map_map, Function.comp_def, endOf]
    | some s =>
      have hd : dataOf base l i = some ⟨base ++ [segComp i], s.fbi.map segComp, s.content⟩ := by
        simp [dataOf, hs]
      rw [hd]
      cases hr : (retry limit (decide (i < l.length)) (limit + 1) 0 sc).1 with
      | ok =>
        simp only
        rw [fbiNamesLast_dataOf base s i hi (fun k hk => hfb i s k hs hk)]
        by_cases hf : s.fbi = some i
        · simp [hf, liftResult, reqName, List.map_map, Function.comp_def]
        · simp only [hf, decide_false, Bool.false_eq_true, if_false]
          rw [ih (i + 1) i _ (by omega)]
          simp [liftResult, reqName, List.map_map, Function.comp_def]
      | timeout => simp [liftResult, reqName, List.map_map, Function.comp_def, endOf]
      | nack => simp [liftResult, reqName, List.map_map, Function.comp_def, endOf]
      | invalid => simp [liftResult, reqName, List.map_map, Function.comp_def, endOf]
      | fuel => simp [liftResult, reqName, List.map_map, Function.comp_def, endOf]

end Ndn.SegFetch
