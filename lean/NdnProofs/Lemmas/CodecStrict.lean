import NdnProofs.Lemmas.CodecTotal
import NdnModel.CodecStrict
/-! The strict decoder (`NdnModel/CodecStrict.lean`) against the faithful decoder model: they agree on every
    byte string, result for result and error class for error class, except where the strict reading stops at
    an overrunning element; and what the strict reading accepts is well nested. -/
namespace Ndn.Codec
open Ndn

/-! ### the agreement relation -/

/-- `x` (strict) and `y` (faithful) agree: same value, same error; where the strict reading stops at an
    overrunning integer or Name element the faithful decoder fails too (with some error). -/
def Agree {α} (x : Except SErr α) (y : Except PyErr α) : Prop :=
  match x with
  | .ok a => y = .ok a
  | .error (.py e) => y = .error e
  | .error (.overrun k) => (k = .integer ∨ k = .name) → ∃ e, y = .error e

theorem Agree.lift {α} (y : Except PyErr α) : Agree (lift y) y := by
  cases y <;> simp [Agree, Codec.lift]

theorem Agree.ok {α} (a : α) : Agree (Except.ok a : Except SErr α) (Except.ok a) := rfl

theorem Agree.err {α} (e : PyErr) : Agree (Except.error (.py e) : Except SErr α) (Except.error e) := rfl

theorem Agree.bind {α β} {x : Except SErr α} {y : Except PyErr α} {f : α → Except SErr β}
    {g : α → Except PyErr β} (h : Agree x y) (hf : ∀ a, x = .ok a → y = .ok a → Agree (f a) (g a)) :
    Agree (x >>= f) (y >>= g) := by
  cases x with
  | ok a =>
    have hy : y = .ok a := h
    subst hy
    exact hf a rfl rfl
  | error e =>
    cases e with
    | py e =>
      have hy : y = .error e := h
      subst hy; rfl
    | overrun k =>
      intro hk
      obtain ⟨e, he⟩ := h hk
      subst he
      exact ⟨e, rfl⟩

theorem Agree.bind_lift {α β} {y : Except PyErr α} {f : α → Except SErr β} {g : α → Except PyErr β}
    (hf : ∀ a, y = .ok a → Agree (f a) (g a)) : Agree (Codec.lift y >>= f) (y >>= g) :=
  Agree.bind (Agree.lift y) (fun a _ h => hf a h)

/-! ### header facts -/

/-- a T/L number that was read lies inside the buffer -/
theorem parseTlNum_le {buf : Bytes} {off v n : Nat} (h : parseTlNum buf off = .ok (v, n)) :
    off + n ≤ buf.length := by
  have hun : ∀ a k x, unpackAt buf a k = .ok x → 0 < k → a + k ≤ buf.length := by
    intro a k x hx hk
    unfold unpackAt at hx
    simp only [] at hx
    split at hx
    · rename_i hl
      simp [pySlice] at hl; omega
    · cases hx
  unfold parseTlNum at h
  cases hb : buf[off]? with
  | none => simp [hb] at h
  | some b =>
    have hlt : off < buf.length := (List.getElem?_eq_some_iff.mp hb).1
    simp only [hb] at h
    repeat' split at h
    · cases h; omega
    all_goals
      obtain ⟨x, hx, h3⟩ := bind_ok h
      cases h3
      have := hun _ _ _ hx (by omega)
      omega

/-! ### an overrunning integer or Name element makes the faithful decoder fail -/

theorem leaf_overrun (s : Schema) (f : Nat) (rest : Bytes) (typ st len sl : Nat)
    (h1 : parseTlNum rest 0 = .ok (typ, st)) (h2 : parseTlNum rest st = .ok (len, sl))
    (ho : st + sl + len > rest.length) (hk : leafKind s = .integer ∨ leafKind s = .name) :
    (∃ e, leafCheck s len (pySlice rest (st + sl) (st + sl + len)) = .error e) ∨
    (∃ e, parseValue f s (pySlice rest (st + sl) (st + sl + len)) rest = .error e) := by
  have hle := parseTlNum_le h2
  cases s with
  | uint t fl =>
    left
    unfold leafCheck
    simp only []
    split
    · have : ¬ (pySlice rest (st + sl) (st + sl + len)).length = len := by
        simp [pySlice]; omega
      simp only [this, if_false]; exact ⟨_, rfl⟩
    · exact ⟨_, rfl⟩
  | name t =>
    right
    cases f with
    | zero => exact ⟨_, rfl⟩
    | succ f =>
      unfold parseValue
      simp only [decodeName, h1, bind, Except.bind, Nat.zero_add, h2]
      split
      · exact ⟨_, rfl⟩
      · rename_i heq
        have : len > rest.length - (st + sl) := by omega
        simp only [this, if_true] at heq
        split at heq <;> cases heq
  | bool t => simp [leafKind] at hk
  | bytes t b => simp [leafKind] at hk
  | model t fs ic => simp [leafKind] at hk
  | repeated e => simp [leafKind] at hk
  | map k v => simp [leafKind] at hk
  | marker => simp [leafKind] at hk

theorem ok_bind {ε α β} (a : α) (f : α → Except ε β) : (Except.ok a >>= f) = f a := rfl
theorem err_bind {ε α β} (e : ε) (f : α → Except ε β) : ((Except.error e : Except ε α) >>= f) = .error e := rfl

theorem bind2_err {α β γ} {x : Except PyErr α} {y : Except PyErr β} {g : β → Except PyErr γ}
    (h : (∃ e, x = .error e) ∨ (∃ e, y = .error e)) : ∃ e, (x >>= fun _ => y >>= g) = .error e := by
  rcases h with ⟨e, he⟩ | ⟨e, he⟩
  · subst he; exact ⟨_, rfl⟩
  · subst he
    cases x with
    | error e' => exact ⟨_, rfl⟩
    | ok a => exact ⟨_, rfl⟩

theorem parseFields_overrun_fails (f : Nat) (fs : List Schema) (ic : Bool) (rest : Bytes) (off pos : Nat)
    (acc : List Value) (typ st len sl : Nat) (hp : pFs fs = true) (hne : rest.isEmpty = false)
    (h1 : parseTlNum rest 0 = .ok (typ, st)) (h2 : parseTlNum rest st = .ok (len, sl))
    (ho : st + sl + len > rest.length)
    (hk : kindAt fs pos typ = .integer ∨ kindAt fs pos typ = .name) :
    ∃ e, parseFields (f + 1) fs ic rest off pos acc = .error e := by
  unfold parseFields
  simp only [hne, h1, h2, ok_bind, Bool.false_eq_true, if_false]
  unfold kindAt fieldAt at hk
  cases hfind : findField fs pos typ with
  | none => simp [hfind] at hk
  | some i =>
    simp only [hfind] at hk ⊢
    cases hs : fs[i]? with
    | none => simp [hs] at hk
    | some s =>
      have hps := pFs_get fs i s hp hs
      simp only [hs] at hk ⊢
      cases s with
      | map k v => simp [pS] at hps
      | repeated e => exact bind2_err (leaf_overrun e f rest typ st len sl h1 h2 ho hk)
      | uint t fl => exact bind2_err (leaf_overrun _ f rest typ st len sl h1 h2 ho hk)
      | name t => exact bind2_err (leaf_overrun _ f rest typ st len sl h1 h2 ho hk)
      | bool t => simp [leafKind] at hk
      | bytes t b => simp [leafKind] at hk
      | model t fs' ic' => simp [leafKind] at hk
      | marker => simp [leafKind] at hk

/-! ### the strict and the faithful decoder agree except at overruns -/

/-- one recognised element: leaf check, value, continuation -/
theorem agree_elem {f : Nat} {s : Schema} {len : Nat} {body elem : Bytes}
    {k : Value → Except SErr (List Value)} {k' : Value → Except PyErr (List Value)}
    (hv : Agree (strictValue f s body elem) (parseValue f s body elem))
    (hk : ∀ v, Agree (k v) (k' v)) :
    Agree (Codec.lift (leafCheck s len body) >>= fun _ => strictValue f s body elem >>= k)
      (leafCheck s len body >>= fun _ => parseValue f s body elem >>= k') :=
  Agree.bind_lift (fun _ _ => Agree.bind hv (fun v _ _ => hk v))

theorem agree_step : ∀ (fuel : Nat),
    (∀ (fs : List Schema) (ic : Bool) (rest : Bytes) (off pos : Nat) (acc : List Value), pFs fs = true →
      Agree (strictFields fuel fs ic rest off pos acc) (parseFields fuel fs ic rest off pos acc)) ∧
    (∀ (s : Schema) (body elem : Bytes), pS s = true →
      Agree (strictValue fuel s body elem) (parseValue fuel s body elem))
  | 0 => ⟨fun _ _ _ _ _ _ _ => Agree.err _, fun _ _ _ _ => Agree.err _⟩
  | f + 1 => by
    obtain ⟨ihF, ihV⟩ := agree_step f
    refine ⟨?_, ?_⟩
    · intro fs ic rest off pos acc hp
      cases hne : rest.isEmpty with
      | true =>
        unfold strictFields parseFields
        simp only [hne, if_true]; exact Agree.ok _
      | false =>
        cases h1 : parseTlNum rest 0 with
        | error e =>
          unfold strictFields parseFields
          simp only [hne, h1, Codec.lift, err_bind, Bool.false_eq_true, if_false]; exact Agree.err _
        | ok p1 =>
          obtain ⟨typ, st⟩ := p1
          cases h2 : parseTlNum rest st with
          | error e =>
            unfold strictFields parseFields
            simp only [hne, h1, h2, Codec.lift, ok_bind, err_bind, Bool.false_eq_true, if_false]
            exact Agree.err _
          | ok p2 =>
            obtain ⟨len, sl⟩ := p2
            by_cases ho : st + sl + len > rest.length
            · have hs : strictFields (f + 1) fs ic rest off pos acc = .error (.overrun (kindAt fs pos typ)) := by
                unfold strictFields
                simp only [hne, h1, h2, Codec.lift, ok_bind, Bool.false_eq_true, if_false, ho, if_true]
              rw [hs]
              intro hk
              exact parseFields_overrun_fails f fs ic rest off pos acc typ st len sl hp hne h1 h2 ho hk
            · unfold strictFields parseFields
              simp only [hne, h1, h2, Codec.lift, ok_bind, Bool.false_eq_true, if_false, ho]
              cases hfind : findField fs pos typ with
              | none =>
                simp only []
                split
                · exact Agree.err _
                · exact ihF _ _ _ _ _ _ hp
              | some i =>
                simp only []
                cases hs : fs[i]? with
                | none => exact Agree.err _
                | some s =>
                  have hps := pFs_get fs i s hp hs
                  simp only []
                  cases s with
                  | map k v => simp [pS] at hps
                  | repeated e =>
                    simp only [pS, Bool.and_eq_true] at hps
                    exact agree_elem (ihV e _ _ hps.2) (fun _ => ihF _ _ _ _ _ _ hp)
                  | uint t fl => exact agree_elem (ihV _ _ _ hps) (fun _ => ihF _ _ _ _ _ _ hp)
                  | bool t => exact agree_elem (ihV _ _ _ hps) (fun _ => ihF _ _ _ _ _ _ hp)
                  | bytes t b => exact agree_elem (ihV _ _ _ hps) (fun _ => ihF _ _ _ _ _ _ hp)
                  | name t => exact agree_elem (ihV _ _ _ hps) (fun _ => ihF _ _ _ _ _ _ hp)
                  | model t fs' ic' => exact agree_elem (ihV _ _ _ hps) (fun _ => ihF _ _ _ _ _ _ hp)
                  | marker => exact agree_elem (ihV _ _ _ hps) (fun _ => ihF _ _ _ _ _ _ hp)
    · intro s body elem hps
      cases s with
      | uint t fl => unfold strictValue; exact Agree.lift _
      | bool t => unfold strictValue; exact Agree.lift _
      | bytes t b => unfold strictValue; exact Agree.lift _
      | name t => unfold strictValue; exact Agree.lift _
      | model t fs' ic' =>
        simp only [pS] at hps
        unfold strictValue parseValue
        exact Agree.bind (ihF _ _ _ _ _ _ hps) (fun _ _ _ => Agree.ok _)
      | repeated e => unfold strictValue parseValue; exact Agree.err _
      | map k v => unfold strictValue parseValue; exact Agree.err _
      | marker => unfold strictValue parseValue; exact Agree.ok _

/-! ### what the strict decoder accepts is well nested -/

theorem sbind_ok {ε α β} {x : Except ε α} {f : α → Except ε β} {b : β}
    (h : (x >>= f) = .ok b) : ∃ a, x = .ok a ∧ f a = .ok b := by
  cases x with
  | error e => cases h
  | ok a => exact ⟨a, rfl, h⟩

theorem lift_ok {α} {x : Except PyErr α} {a : α} (h : Codec.lift x = .ok a) : x = .ok a := by
  cases x with
  | error e => cases h
  | ok b => cases h; rfl

theorem decodeComps_nested : ∀ (fuel : Nat) (buf : Bytes) (off length : Nat) (cs : List Bytes),
    decodeComps fuel buf off length = .ok cs → CompsNested buf off length
  | 0, _, _, _, _, h => by simp [decodeComps] at h
  | fuel + 1, buf, off, length, cs, h => by
    unfold decodeComps at h
    split at h
    · rename_i h0; subst h0; exact .done _
    · obtain ⟨⟨t, st⟩, h1, h⟩ := bind_ok h
      obtain ⟨⟨lc, sl⟩, h2, h⟩ := bind_ok h
      simp only [] at h
      split at h
      · cases h
      · obtain ⟨r, hr, _⟩ := bind_ok h
        exact .comp h1 h2 (by omega) (decodeComps_nested fuel _ _ _ _ hr)

theorem decodeName_nested {rest : Bytes} {cs : List Bytes} {typ st len sl : Nat}
    (h : decodeName rest 0 = .ok cs) (h1 : parseTlNum rest 0 = .ok (typ, st))
    (h2 : parseTlNum rest st = .ok (len, sl)) : CompsNested rest (st + sl) len := by
  unfold decodeName at h
  simp only [h1, ok_bind, Nat.zero_add, h2] at h
  split at h
  · cases h
  · split at h
    · cases h
    · exact decodeComps_nested _ _ _ _ _ h

/-- a recognised element whose value the strict decoder read, followed by a well-nested tail -/
theorem wn_of_value {f : Nat} {fs : List Schema} {pos : Nat} {rest : Bytes} {typ st len sl : Nat}
    {s : Schema} {i next : Nat} {v : Value}
    (h1 : parseTlNum rest 0 = .ok (typ, st)) (h2 : parseTlNum rest st = .ok (len, sl))
    (ho : ¬ st + sl + len > rest.length)
    (hfa : fieldAt fs pos typ = some (s, i, next)) (hk : isElemKind s = true)
    (hv : strictValue f s (pySlice rest (st + sl) (st + sl + len)) rest = .ok v)
    (hsub : ∀ t fs' ic', s = .model t fs' ic' → WellNested fs' 0 (pySlice rest (st + sl) (st + sl + len)))
    (htail : WellNested fs next (rest.drop (st + sl + len))) : WellNested fs pos rest := by
  have hE : ElemAt rest typ (st + sl) len := ⟨st, sl, h1, h2, rfl, by omega⟩
  cases s with
  | uint t fl => exact .leaf hE hfa rfl htail
  | bool t => exact .leaf hE hfa rfl htail
  | bytes t b => exact .leaf hE hfa rfl htail
  | model t fs' ic' => exact .sub hE hfa (hsub _ _ _ rfl) htail
  | name t =>
    refine .name hE hfa ?_ htail
    cases f with
    | zero => cases hv
    | succ f =>
      unfold strictValue at hv
      have hv := lift_ok hv
      unfold parseValue at hv
      obtain ⟨cs, hcs, _⟩ := bind_ok hv
      exact decodeName_nested hcs h1 h2
  | repeated e => simp [isElemKind] at hk
  | map k v => simp [isElemKind] at hk
  | marker => simp [isElemKind] at hk

theorem nested_step : ∀ (fuel : Nat),
    (∀ (fs : List Schema) (ic : Bool) (rest : Bytes) (off pos : Nat) (acc vs : List Value), pFs fs = true →
      strictFields fuel fs ic rest off pos acc = .ok vs → WellNested fs pos rest) ∧
    (∀ (t : Nat) (fs : List Schema) (ic : Bool) (body elem : Bytes) (v : Value), pFs fs = true →
      strictValue fuel (.model t fs ic) body elem = .ok v → WellNested fs 0 body)
  | 0 => ⟨fun _ _ _ _ _ _ _ _ h => (by cases h), fun _ _ _ _ _ _ _ h => (by cases h)⟩
  | f + 1 => by
    obtain ⟨ihF, ihV⟩ := nested_step f
    refine ⟨?_, ?_⟩
    · intro fs ic rest off pos acc vs hp h
      cases hne : rest.isEmpty with
      | true =>
        have : rest = [] := by simpa using hne
        subst this; exact .done _ _
      | false =>
        unfold strictFields at h
        simp only [hne, Bool.false_eq_true, if_false] at h
        obtain ⟨⟨typ, st⟩, h1, h⟩ := sbind_ok h
        obtain ⟨⟨len, sl⟩, h2, h⟩ := sbind_ok h
        have h1 := lift_ok h1
        have h2 := lift_ok h2
        simp only [] at h
        split at h
        · cases h
        · rename_i ho
          cases hfind : findField fs pos typ with
          | none =>
            simp only [hfind] at h
            split at h
            · cases h
            · exact .skip ⟨st, sl, h1, h2, rfl, by omega⟩ (by simp [fieldAt, hfind]) (ihF _ _ _ _ _ _ _ hp h)
          | some i =>
            simp only [hfind] at h
            obtain ⟨s0, hs0, htyp⟩ := findField_get fs pos typ i hfind
            simp only [hs0] at h
            have hps := pFs_get fs i s0 hp hs0
            cases s0 with
            | map k v => simp [pS] at hps
            | marker => simp [Schema.typ] at htyp
            | repeated e =>
              simp only [pS, Bool.and_eq_true] at hps
              obtain ⟨_, _, h⟩ := sbind_ok h
              obtain ⟨v, hv, h⟩ := sbind_ok h
              refine wn_of_value (i := i) (next := i) h1 h2 ho (by simp [fieldAt, hfind, hs0]) hps.1 hv ?_ (ihF _ _ _ _ _ _ _ hp h)
              intro t fs' ic' he; subst he
              exact ihV _ _ _ _ _ _ (by simpa [pS] using hps.2) hv
            | uint t fl =>
              obtain ⟨_, _, h⟩ := sbind_ok h
              obtain ⟨v, hv, h⟩ := sbind_ok h
              exact wn_of_value (i := i) (next := i + 1) h1 h2 ho (by simp [fieldAt, hfind, hs0]) rfl hv (by intro _ _ _ he; cases he)
                (ihF _ _ _ _ _ _ _ hp h)
            | bool t =>
              obtain ⟨_, _, h⟩ := sbind_ok h
              obtain ⟨v, hv, h⟩ := sbind_ok h
              exact wn_of_value (i := i) (next := i + 1) h1 h2 ho (by simp [fieldAt, hfind, hs0]) rfl hv (by intro _ _ _ he; cases he)
                (ihF _ _ _ _ _ _ _ hp h)
            | bytes t b =>
              obtain ⟨_, _, h⟩ := sbind_ok h
              obtain ⟨v, hv, h⟩ := sbind_ok h
              exact wn_of_value (i := i) (next := i + 1) h1 h2 ho (by simp [fieldAt, hfind, hs0]) rfl hv (by intro _ _ _ he; cases he)
                (ihF _ _ _ _ _ _ _ hp h)
            | name t =>
              obtain ⟨_, _, h⟩ := sbind_ok h
              obtain ⟨v, hv, h⟩ := sbind_ok h
              exact wn_of_value (i := i) (next := i + 1) h1 h2 ho (by simp [fieldAt, hfind, hs0]) rfl hv (by intro _ _ _ he; cases he)
                (ihF _ _ _ _ _ _ _ hp h)
            | model t fs' ic' =>
              obtain ⟨_, _, h⟩ := sbind_ok h
              obtain ⟨v, hv, h⟩ := sbind_ok h
              refine wn_of_value (i := i) (next := i + 1) h1 h2 ho (by simp [fieldAt, hfind, hs0]) rfl hv ?_ (ihF _ _ _ _ _ _ _ hp h)
              intro t2 fs2 ic2 he; cases he
              exact ihV _ _ _ _ _ _ (by simpa [pS] using hps) hv
    · intro t fs ic body elem v hp h
      unfold strictValue at h
      obtain ⟨vs, hvs, _⟩ := sbind_ok h
      exact ihF _ _ _ _ _ _ _ hp hvs

/-! ### on a well-nested byte string the strict decoder never stops at an overrun -/

theorem lift_ok_eq {α} (a : α) : Codec.lift (Except.ok a : Except PyErr α) = .ok a := rfl

/-- the strict reading does not stop at an overrunning element -/
def NoOv {α} (x : Except SErr α) : Prop := ∀ k, x ≠ .error (.overrun k)

theorem NoOv.ok {α} (a : α) : NoOv (Except.ok a : Except SErr α) := by intro k h; cases h
theorem NoOv.py {α} (e : PyErr) : NoOv (Except.error (.py e) : Except SErr α) := by intro k h; cases h
theorem NoOv.lift {α} (y : Except PyErr α) : NoOv (Codec.lift y) := by
  cases y with
  | ok a => exact NoOv.ok a
  | error e => exact NoOv.py e
theorem NoOv.bind {α β} {x : Except SErr α} {f : α → Except SErr β}
    (hx : NoOv x) (hf : ∀ a, x = .ok a → NoOv (f a)) : NoOv (x >>= f) := by
  cases x with
  | ok a => exact hf a rfl
  | error e =>
    cases e with
    | py e => exact NoOv.py e
    | overrun k => exact absurd rfl (hx k)

theorem noov_elem {f : Nat} {s : Schema} {len : Nat} {body elem : Bytes} {k : Value → Except SErr (List Value)}
    (hv : NoOv (strictValue f s body elem)) (hk : ∀ v, NoOv (k v)) :
    NoOv (Codec.lift (leafCheck s len body) >>= fun _ => strictValue f s body elem >>= k) :=
  NoOv.bind (NoOv.lift _) (fun _ _ => NoOv.bind hv (fun v _ => hk v))

theorem fieldAt_pS {fs : List Schema} {pos typ : Nat} {s : Schema} {i next : Nat} (hp : pFs fs = true)
    (hfa : fieldAt fs pos typ = some (s, i, next)) : pS s = true := by
  unfold fieldAt at hfa
  cases hfind : findField fs pos typ with
  | none => simp [hfind] at hfa
  | some j =>
    simp only [hfind] at hfa
    cases hs0 : fs[j]? with
    | none => simp [hs0] at hfa
    | some s0 =>
      have hps := pFs_get fs j s0 hp hs0
      simp only [hs0] at hfa
      cases s0 with
      | map k v => simp [pS] at hps
      | repeated e =>
        simp only [Option.some.injEq, Prod.mk.injEq] at hfa
        obtain ⟨rfl, _, _⟩ := hfa
        simp only [pS, Bool.and_eq_true] at hps; exact hps.2
      | uint t fl => simp only [Option.some.injEq, Prod.mk.injEq] at hfa; obtain ⟨rfl, _, _⟩ := hfa; exact hps
      | bool t => simp only [Option.some.injEq, Prod.mk.injEq] at hfa; obtain ⟨rfl, _, _⟩ := hfa; exact hps
      | bytes t b => simp only [Option.some.injEq, Prod.mk.injEq] at hfa; obtain ⟨rfl, _, _⟩ := hfa; exact hps
      | name t => simp only [Option.some.injEq, Prod.mk.injEq] at hfa; obtain ⟨rfl, _, _⟩ := hfa; exact hps
      | model t fs' ic' => simp only [Option.some.injEq, Prod.mk.injEq] at hfa; obtain ⟨rfl, _, _⟩ := hfa; exact hps
      | marker => simp only [Option.some.injEq, Prod.mk.injEq] at hfa; obtain ⟨rfl, _, _⟩ := hfa; exact hps

theorem nonempty_of_tl {rest : Bytes} {typ st : Nat} (h1 : parseTlNum rest 0 = .ok (typ, st)) :
    rest.isEmpty = false := by
  have := (parseTlNum_pos h1).2
  cases rest with
  | nil => simp at this
  | cons a r => rfl

theorem noov_at {f : Nat} {fs : List Schema} {ic : Bool} {rest : Bytes} {off pos : Nat} {acc : List Value}
    {typ st sl len : Nat} {s : Schema} {i next : Nat} (hp : pFs fs = true)
    (h1 : parseTlNum rest 0 = .ok (typ, st)) (h2 : parseTlNum rest st = .ok (len, sl))
    (hb : st + sl + len ≤ rest.length) (hfa : fieldAt fs pos typ = some (s, i, next))
    (hval : NoOv (strictValue f s (pySlice rest (st + sl) (st + sl + len)) rest))
    (htail : ∀ off' acc', NoOv (strictFields f fs ic (rest.drop (st + sl + len)) off' next acc')) :
    NoOv (strictFields (f + 1) fs ic rest off pos acc) := by
  have hne := nonempty_of_tl h1
  have ho : ¬ st + sl + len > rest.length := by omega
  unfold strictFields
  simp only [hne, h1, h2, lift_ok_eq, ok_bind, Bool.false_eq_true, if_false, ho]
  unfold fieldAt at hfa
  cases hfind : findField fs pos typ with
  | none => simp [hfind] at hfa
  | some j =>
    simp only [hfind] at hfa ⊢
    cases hs0 : fs[j]? with
    | none => simp [hs0] at hfa
    | some s0 =>
      have hps := pFs_get fs j s0 hp hs0
      simp only [hs0] at hfa ⊢
      cases s0 with
      | map k v => simp [pS] at hps
      | repeated e =>
        simp only [Option.some.injEq, Prod.mk.injEq] at hfa
        obtain ⟨rfl, rfl, rfl⟩ := hfa
        first
          | exact noov_elem hval (fun v => htail _ _)
          | exact NoOv.bind hval (fun v _ => htail _ _)
      | uint t fl =>
        simp only [Option.some.injEq, Prod.mk.injEq] at hfa
        obtain ⟨rfl, rfl, rfl⟩ := hfa
        first
          | exact noov_elem hval (fun v => htail _ _)
          | exact NoOv.bind hval (fun v _ => htail _ _)
      | bool t =>
        simp only [Option.some.injEq, Prod.mk.injEq] at hfa
        obtain ⟨rfl, rfl, rfl⟩ := hfa
        first
          | exact noov_elem hval (fun v => htail _ _)
          | exact NoOv.bind hval (fun v _ => htail _ _)
      | bytes t b =>
        simp only [Option.some.injEq, Prod.mk.injEq] at hfa
        obtain ⟨rfl, rfl, rfl⟩ := hfa
        first
          | exact noov_elem hval (fun v => htail _ _)
          | exact NoOv.bind hval (fun v _ => htail _ _)
      | name t =>
        simp only [Option.some.injEq, Prod.mk.injEq] at hfa
        obtain ⟨rfl, rfl, rfl⟩ := hfa
        first
          | exact noov_elem hval (fun v => htail _ _)
          | exact NoOv.bind hval (fun v _ => htail _ _)
      | model t fs' ic' =>
        simp only [Option.some.injEq, Prod.mk.injEq] at hfa
        obtain ⟨rfl, rfl, rfl⟩ := hfa
        first
          | exact noov_elem hval (fun v => htail _ _)
          | exact NoOv.bind hval (fun v _ => htail _ _)
      | marker =>
        simp only [Option.some.injEq, Prod.mk.injEq] at hfa
        obtain ⟨rfl, rfl, rfl⟩ := hfa
        first
          | exact noov_elem hval (fun v => htail _ _)
          | exact NoOv.bind hval (fun v _ => htail _ _)

theorem noov_skip {f : Nat} {fs : List Schema} {ic : Bool} {rest : Bytes} {off pos : Nat} {acc : List Value}
    {typ st sl len : Nat}
    (h1 : parseTlNum rest 0 = .ok (typ, st)) (h2 : parseTlNum rest st = .ok (len, sl))
    (hb : st + sl + len ≤ rest.length) (hfa : fieldAt fs pos typ = none)
    (htail : ∀ off' acc', NoOv (strictFields f fs ic (rest.drop (st + sl + len)) off' pos acc')) :
    NoOv (strictFields (f + 1) fs ic rest off pos acc) := by
  have hne := nonempty_of_tl h1
  have ho : ¬ st + sl + len > rest.length := by omega
  unfold strictFields
  simp only [hne, h1, h2, lift_ok_eq, ok_bind, Bool.false_eq_true, if_false, ho]
  cases hfind : findField fs pos typ with
  | none =>
    simp only []
    split
    · exact NoOv.py _
    · exact htail _ _
  | some j =>
    obtain ⟨s0, hs0, _⟩ := findField_get fs pos typ j hfind
    simp only [hs0]
    exfalso
    unfold fieldAt at hfa
    simp only [hfind, hs0] at hfa
    cases s0 <;> simp at hfa

theorem noov_leafValue (f : Nat) (s : Schema) (body elem : Bytes) (h : ∀ t fs ic, s ≠ .model t fs ic) :
    NoOv (strictValue f s body elem) := by
  cases f with
  | zero => exact NoOv.py _
  | succ f =>
    cases s with
    | model t fs ic => exact absurd rfl (h t fs ic)
    | uint t fl => unfold strictValue; exact NoOv.lift _
    | bool t => unfold strictValue; exact NoOv.lift _
    | bytes t b => unfold strictValue; exact NoOv.lift _
    | name t => unfold strictValue; exact NoOv.lift _
    | repeated e => unfold strictValue; exact NoOv.py _
    | map k v => unfold strictValue; exact NoOv.py _
    | marker => unfold strictValue; exact NoOv.ok _

theorem wellNested_noov {fs : List Schema} {pos : Nat} {rest : Bytes} (h : WellNested fs pos rest) :
    pFs fs = true → ∀ (fuel : Nat) (ic : Bool) (off : Nat) (acc : List Value),
      NoOv (strictFields fuel fs ic rest off pos acc) := by
  induction h with
  | done fs pos =>
    intro _ fuel ic off acc
    cases fuel with
    | zero => exact NoOv.py _
    | succ f => unfold strictFields; exact NoOv.ok _
  | skip hE hfa _ ih =>
    intro hp fuel ic off acc
    cases fuel with
    | zero => exact NoOv.py _
    | succ f =>
      obtain ⟨st, sl, h1, h2, rfl, hb⟩ := hE
      exact noov_skip h1 h2 hb hfa (fun off' acc' => ih hp f ic off' acc')
  | leaf hE hfa hl _ ih =>
    intro hp fuel ic off acc
    cases fuel with
    | zero => exact NoOv.py _
    | succ f =>
      obtain ⟨st, sl, h1, h2, rfl, hb⟩ := hE
      refine noov_at hp h1 h2 hb hfa (noov_leafValue _ _ _ _ ?_) (fun off' acc' => ih hp f ic off' acc')
      intro t fs ic he; subst he; simp [isLeaf] at hl
  | name hE hfa _ _ ih =>
    intro hp fuel ic off acc
    cases fuel with
    | zero => exact NoOv.py _
    | succ f =>
      obtain ⟨st, sl, h1, h2, rfl, hb⟩ := hE
      refine noov_at hp h1 h2 hb hfa (noov_leafValue _ _ _ _ ?_) (fun off' acc' => ih hp f ic off' acc')
      intro t fs ic he; cases he
  | sub hE hfa _ _ ihsub ih =>
    intro hp fuel ic off acc
    cases fuel with
    | zero => exact NoOv.py _
    | succ f =>
      obtain ⟨st, sl, h1, h2, rfl, hb⟩ := hE
      have hps := fieldAt_pS hp hfa
      simp only [pS] at hps
      refine noov_at hp h1 h2 hb hfa ?_ (fun off' acc' => ih hp f ic off' acc')
      cases f with
      | zero => exact NoOv.py _
      | succ f' =>
        unfold strictValue
        exact NoOv.bind (ihsub hps f' _ 0 _) (fun _ _ => NoOv.ok _)

end Ndn.Codec
